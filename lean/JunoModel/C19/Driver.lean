import JunoModel.Common.Proto
import JunoModel.C19.Model
import JunoModel.C19.ModelUnits
import JunoModel.C19.ModelProc
import JunoModel.C19.ModelHash
import JunoModel.C19.ModelCache
import JunoModel.C19.ModelR5
import JunoModel.C19.ModelR6
/-!
Line-protocol driver for the C19 model (`lake build c19drv`). Core Lean only.

Hash terms are written in prefix form without blanks: `L<hex>` leaf hash of the bytes (`L-` for
the empty string), `N(<t>,<t>)` node hash, `R<hex>` a raw 32-byte value. Lists inside one token
are separated by `;` (terms) or `,` (hex strings); an empty list is `-`.

Requests (answers):
  uvarint <hex>                      -> <value-hex> <n>          (n: Go's second result, may be ≤ 0)
  putuvarint <value-hex>             -> <hex>
  pad <k> <hex>                      -> ok <hex> | panic
  unpad <guard 0|1> <hex>            -> ok <hex> | err:<class> | panic
  npow2 <n>                          -> <n>
  marshal <hex,hex,…>                -> <hex>                     (ShardData.MarshalProto)
  split <k> <p> <hex>                -> ok <hex,hex,…> | err:<class>   (EncodeData up to Split)
  merkle <hex,hex,…>                 -> <root> <proof0> <proof1> …  (each proof `t;t;…`)
  verify <proof> <root> <leafhex> <index> -> true|false
  create <cfg> <k> <p> <nonce> <committee> <publisher> <msg> <parity,…>
        -> ok <root> <unitnonce> <shard,…> <proof0> … | err:<class> | panic
  construct <cfg> <k> <p> <local> <rs> <roots> <unit> <unit> …
        <rs>    = `none` | `<hex,hex,…>`  (what the real RecoverData returned for these shards)
        <roots> = `t;t;…` the distinct MessageRoots of the units
        <unit>  = `nil` | `<i>|<hex,hex,…>` (index into <roots>, ShardData)
        -> ok <msg> <localshard> <localproof> | err:<class> | panic
  sched <local> <peer,peer,…>        -> ok <k> <c> <localIdx> <sorted,…> | err:<class>
  origin <local> <peers> <sender> <publisher> <index> -> ok | err:<class>
  shardfor <local> <peers> <publisher> -> ok <index> | err:<class>
  vreset <cfg> <local> <peers>       -> ok | err:<class>        (new scheduler, no validators)
  sorigin <sender> <publisher> <index> -> ok | err:<class>      (origin / shardfor on the session's scheduler)
  sshardfor <publisher>              -> ok <index> | err:<class>
  deliver <sigok 0|1> <committee> <publisher> <root> <proof> <sig> <index> <shards> <nonce> <sender>
        -> ok | err:<class>       (stateful: routes + validators kept between requests)
  fromproto <guard 0|1> <shards> <index> <root> <siblings hex,…> <publisher> <sig> <committee> <nonce>
        -> ok <committee> <publisher> <root> <siblings> <sig> <index> <shards> <nonce> | err:<class> | panic
  toproto-roundtrip: not a request (UnitFromProto(ToProto(u)) is compared through fromproto)
  preset <cfg> <pcfg> <local> <peers> [<maxWorkers> <maxPerPublisher>] -> ok | err:<class>
                                              (new scheduler, empty processor; bounds default 1000 250)
  pstep <sigok 00|01|10|11> <committee> <publisher> <root> <proof> <sig> <index> <shards> <nonce> <sender>
        -> need-rs <shard|~,…>   the unit completes the build threshold: the harness answers with
           `prs none` | `prs <hex,hex,…>` (the real RecoverData on these shards), and gets the outcome
        -> handled <bcast> <built hex|none> <ended none|ok|err> | ignored | noroute | panic
           <bcast> = `-` or `idx:shard:proof:root:sig:nonce:committee:publisher` joined by `+`
           every outcome is followed by ` | <tasks> <publisherTasks[publisher of the unit]>` (the task
           counters after the step; noroute also when a bound of `increaseTasks` is reached), then
           ` <fin 0|1> <live>`: the unit's key is in the finalized cache; number of live subprocessors
  pexpire <committee> <publisher> <root> <nonce> -> expired | none, then ` | <tasks> <publisherTasks>`
           (the subprocessor of this message key reaches its time-out)
  phc <0|1>                          -> ok      the unit channel of a subprocessor: unbuffered / NumTotalShards (5e563fa)
  poffer <sigok> <unit fields as pstep> <sender>   ProcessMessage alone (ModelR6 `offer`; same processor as pstep)
        -> taken | full | ignored | noroute:<reason> | panic, then
           ` | <tasks> <publisherTasks> <fin 0|1> <live> <units waiting in the channel of the unit's key>`
  pconsume <sigok of the waiting unit> <committee> <publisher> <root> <nonce>
        the subprocessor of the key receives the next unit of its channel and deals with it (`consume`)
        -> empty | need-rs … (then `prs`) | <outcome as pstep> ` | <tasks> <publisherTasks> <fin> <live> <waiting>`
  leafpre <hex>                      -> <hex>   the bytes merkleLeafHash hands to SHA-256
  nodepre <left hex> <right hex>     -> <hex>   the bytes merkleNodeHash hands to SHA-256
  sigpayload <root> <committee> <nonce> -> <hex> the 95 bytes buildSignPayload returns
  bpeers <local> <peers> <publisher> -> ok <peer,…> | panic | err:<class>   broadcastUnit's peer list BEFORE the shuffle
  btargets <local> <peers>           -> ok <peer,…> | err:<class>           Scheduler.BroadcastTargets()
  tcnew <size> <ttl>                 -> ok                      timecache.New (session cache, keys are numbers)
  tcadd <now> <key>                  -> <start> <end> <size> <len(values)> <grow -|c|w>   TimeCache.Add at clock value <now>
                                        (grow: regrowth did not run / its contiguous branch / its wrapped branch)
  tcget <now> <key>                  -> <true|false> <start> <end> <size> <len(values)>   TimeCache.Get
  bsearch <x,x,…> <target>           -> <pos> <found 0|1>        slices.BinarySearchFunc(x, target, cmp.Compare) (x as given: NOT sorted here)
  speerforgo <publisher> <index>     -> ok <peer> | err:<class>   PeerForShardIndex written with the binary search (session scheduler)
  sshardforgo <publisher>            -> ok <index> | err:<class>  ShardIndexForPublisher written with the binary search
  bitslen <n>                        -> <n>                      bits.Len(uint(n))
  npow2go <n>                        -> <n>                      nextPowerOfTwo as computed: 1 << bits.Len(n-1)
  pdepth <n>                         -> <n>                      length of every proof of merkle.New over n ≥ 1 leaves
a `noroute` answer of pstep carries the reason: `noroute:<self-published|publisher-unknown|no-key|publisher-tasks|max-tasks|?>`
<pcfg> is four characters 0/1: wireGuard noPoison localFromPresent keyGuard.
<sigok> of pstep is two characters: signature verifies, publisher id embeds a key.
<cfg> is five characters 0/1: unpadGuard rootFromPresent shardingLeafProto validatorLeafProto nonceSet.
-/
open Juno.Proto Juno.C19

namespace Juno.C19.Drv

partial def termToString : HTerm → String
  | .leaf d => "L" ++ bytesToHex d
  | .raw b => "R" ++ bytesToHex b
  | .node l r => "N(" ++ termToString l ++ "," ++ termToString r ++ ")"

/-- Fast hex decoding for long tokens (the shared `hexToBytes?` works on `List Char`). -/
def nibble? (c : UInt8) : Option UInt8 :=
  if 48 ≤ c && c ≤ 57 then some (c - 48)
  else if 97 ≤ c && c ≤ 102 then some (c - 87)
  else if 65 ≤ c && c ≤ 70 then some (c - 55)
  else none

def fastHexAux (b : ByteArray) : Nat → List UInt8 → Option (List UInt8)
  | 0, acc => some acc
  | 1, _ => none
  | n + 2, acc =>
    match nibble? (b.get! n), nibble? (b.get! (n + 1)) with
    | some hi, some lo => fastHexAux b n ((hi <<< 4 ||| lo) :: acc)
    | _, _ => none

def fastHex? (s : String) : Option Bytes :=
  if s == "-" then some [] else
  let b := s.toUTF8
  fastHexAux b b.size []

/-- Decode the hex digits `b[i..j)` (an even number of them) into bytes. -/
def hexSlice (b : ByteArray) (i : Nat) : Nat → List UInt8 → Option (List UInt8)
  | 0, acc => some acc
  | 1, _ => none
  | n + 2, acc =>
    match nibble? (b.get! (i + n)), nibble? (b.get! (i + n + 1)) with
    | some hi, some lo => hexSlice b i n ((hi <<< 4 ||| lo) :: acc)
    | _, _ => none

/-- End of the run of hex digits starting at `i`. -/
partial def hexEnd (b : ByteArray) (i : Nat) : Nat :=
  if i < b.size && (nibble? (b.get! i)).isSome then hexEnd b (i + 1) else i

/-- The byte string after `L` / `R`: `-` (empty) or hex digits. Returns the bytes and the next
position. -/
def atomBytes (b : ByteArray) (i : Nat) : Option (Bytes × Nat) :=
  if i < b.size && b.get! i == 45 then some ([], i + 1)   -- '-'
  else
    let j := hexEnd b i
    (hexSlice b i (j - i) []).map (fun bs => (bs, j))

/-- Recursive-descent parser for hash terms over the UTF-8 bytes of the token. -/
partial def parseTermAt (b : ByteArray) (i : Nat) : Option (HTerm × Nat) :=
  if i ≥ b.size then none else
  let c := b.get! i
  if c == 76 then (atomBytes b (i + 1)).map (fun (bs, j) => (.leaf bs, j))        -- 'L'
  else if c == 82 then (atomBytes b (i + 1)).map (fun (bs, j) => (.raw bs, j))   -- 'R'
  else if c == 78 && i + 1 < b.size && b.get! (i + 1) == 40 then                   -- "N("
    match parseTermAt b (i + 2) with
    | some (l, j) =>
      if j < b.size && b.get! j == 44 then                                          -- ','
        match parseTermAt b (j + 1) with
        | some (r, k) => if k < b.size && b.get! k == 41 then some (.node l r, k + 1) else none  -- ')'
        | none => none
      else none
    | none => none
  else none

def term? (s : String) : Option HTerm :=
  let b := s.toUTF8
  match parseTermAt b 0 with
  | some (t, j) => if j == b.size then some t else none
  | none => none

def listOf? {α : Type} (sep : String) (p : String → Option α) (s : String) : Option (List α) :=
  if s == "-" then some [] else (s.splitOn sep).mapM p

def terms? (s : String) : Option (List HTerm) := listOf? ";" term? s
/-- A list of byte strings `hex,hex,…`; `-` is the empty LIST, `.` stands for an empty byte string
inside a list. -/
def hexItem? (s : String) : Option Bytes := if s == "." then some [] else fastHex? s
def hexList? (s : String) : Option (List Bytes) := listOf? "," hexItem? s

def hexItem (b : Bytes) : String := if b.isEmpty then "." else bytesToHex b
def hexList (l : List Bytes) : String := if l.isEmpty then "-" else ",".intercalate (l.map hexItem)
def termList (l : List HTerm) : String :=
  if l.isEmpty then "-" else ";".intercalate (l.map termToString)

def cfg? (s : String) : Option Cfg :=
  match s.toList with
  | [a, b, c, d, e] =>
    if [a, b, c, d, e].all (fun x => x == '0' || x == '1') then
      some ⟨a == '1', b == '1', c == '1', d == '1', e == '1'⟩
    else none
  | _ => none

def outStr {α : Type} (show_ : α → String) : Out α → String
  | .ok a => "ok " ++ show_ a
  | .err e => "err:" ++ e.name
  | .panic => "panic"

def intStr (i : Int) : String := if i < 0 then "-" ++ toString i.natAbs else toString i.natAbs

def pcfg? (s : String) : Option PCfg :=
  match s.toList with
  | [a, b, c, d] =>
    if [a, b, c, d].all (fun x => x == '0' || x == '1') then some ⟨a == '1', b == '1', c == '1', d == '1'⟩ else none
  | _ => none

/-- Driver state: configuration, scheduler and routes of the validator session; processor of the
processor session (with the step that waits for the codec's answer). -/
structure St where
  cfg : Cfg := Cfg.pinned
  pcfg : PCfg := PCfg.pinned
  sched : Option Sched := none
  routes : Routes HTerm := []
  proc : TProc HTerm := TProc.empty
  bounds : Bounds := Bounds.real
  pending : Option (Bool × Bool × PUnit HTerm × Bytes) := none
  tc : TCache Nat := TCache.new 1 1
  /-- round 6: the contents of the subprocessors' channels (`HProc.queues`), the channel variant, and the
  key whose `pconsume` waits for the codec's answer -/
  hq : List (MsgKey HTerm × List (PUnit HTerm × Bytes)) := []
  hc : HCfg := HCfg.current
  pendingKey : Option (MsgKey HTerm) := none

/-- RS parameter of one `create`/`construct` request: the answers of the real library are part of
the request (the model does not compute GF(2^8) arithmetic). -/
def rsOracle (parity : List Bytes) (recovered : Option (List Bytes)) : RS :=
  ⟨fun _ _ _ => parity, fun _ _ _ => recovered⟩

/-- Signature parameter of one request: `sign` is not evaluated (the payload is printed and signed
on the Go side), `verify` answers with the bit computed by the real public key on the Go side. -/
def sigOracle (ok : Bool) (hasKey : Bool := true) : SigScheme HTerm := ⟨fun _ => [], fun _ _ _ => ok, fun _ => hasKey⟩

def unit? (roots : List HTerm) (s : String) : Option (Option (PUnit HTerm)) :=
  if s == "nil" then some none else
  match s.splitOn "|" with
  | [r, sh] => do
    let ri ← r.toNat?
    let r ← roots[ri]?
    let sh ← hexList? sh
    some (some ⟨[], [], r, [], [], 0, sh, 0⟩)
  | _ => none

def optShards (l : List (Option Bytes)) : String :=
  if l.isEmpty then "-" else ",".intercalate (l.map (fun o => match o with | none => "~" | some b => hexItem b))

def unitStr (u : PUnit HTerm) : String :=
  ":".intercalate [toString u.index, hexList u.shards, termList u.proof, termToString u.root,
    bytesToHex u.sig, toString u.nonce, bytesToHex u.committee, bytesToHex u.publisher]

def procOutStr : ProcOut HTerm → String
  | .handled bc b e =>
    "handled " ++ (if bc.isEmpty then "-" else "+".intercalate (bc.map unitStr)) ++ " " ++
      (match b with | none => "none" | some m => bytesToHex m) ++ " " ++
      (match e with | none => "none" | some false => "ok" | some true => "err")
  | .ignored => "ignored"
  | .noRoute => "noroute"
  | .panic => "panic"

/-- Does this unit complete the build threshold of its subprocessor? Then the shards the codec
will be asked to recover. (Mirrors the first half of `subStep`; only used to fetch the codec's
answer for exactly these shards from the real library.) -/
def needsCodec (s : St) (sc : Sched) (sigok hasKey : Bool) (u : PUnit HTerm) (sender : Bytes) :
    Option (List (Option Bytes)) :=
  let key := keyOf u
  if s.proc.core.finalized.contains key then none else
  if (s.proc.core.findSub key).isNone && !hasKey then none else
  if wouldCreate s.pcfg (sigOracle sigok hasKey) sc s.proc.core u &&
      (s.proc.ptasks key.publisher == s.bounds.maxPerPublisher || s.proc.tasks == s.bounds.maxWorkers) then none else
  match sc.shardIndexFor key.publisher with
  | .error _ => none
  | .ok _ =>
    let st := (s.proc.core.findSub key).getD (SubState.fresh sc.total)
    match st.built with
    | some _ => none
    | none =>
      match validate s.cfg termFns (sigOracle sigok) sc key.publisher st.v u sender with
      | .error _ => none
      | .ok _ =>
        if st.count + 1 ≠ sc.k then none
        else unitShards (st.units.set u.index (some u))

def runPStep (s : St) (sc : Sched) (sigok hasKey : Bool) (u : PUnit HTerm) (sender : Bytes)
    (rec : Option (List Bytes)) : St × String :=
  let (p', out) := tprocStep s.bounds s.cfg s.pcfg termFns (rsOracle [] rec) (sigOracle sigok hasKey) sc s.proc u sender
  -- the reason of a refusal, from `refusalOf` (createSubprocessor's checks in the code's order)
  let why := match out with
    | .noRoute => ":" ++ (match refusalOf s.bounds s.pcfg (sigOracle sigok hasKey) sc s.proc u with
        | some .publisherTasks =>
          -- both bounds reached: the code reports the publisher's (checked first); which of two
          -- simultaneously true reasons is named is not compared (`a+b`)
          if s.proc.tasks == s.bounds.maxWorkers then "publisher-tasks+max-tasks" else "publisher-tasks"
        | some r => r.name | none => "?")
    | _ => ""
  ({ s with proc := p', pending := none, pendingKey := none },
    procOutStr out ++ why ++ " | " ++ toString p'.tasks ++ " " ++ toString (p'.ptasks (keyOf u).publisher) ++
      -- the store after the step: is the unit's key in the finalized cache; number of live subprocessors
      " " ++ (if p'.core.finalized.contains (keyOf u) then "1" else "0") ++ " " ++ toString p'.core.subs.length)


/-- `pconsume`: the subprocessor of `key` receives the next unit of its channel and deals with it
(`consume` of ModelR6). Answer: the outcome as `pstep` prints it, then ` | <tasks> <publisherTasks>
<key finalized> <live subprocessors> <units still waiting for key>`. -/
def runPConsume (s : St) (sc : Sched) (sigok hasKey : Bool) (key : MsgKey HTerm) (rec : Option (List Bytes)) :
    St × String :=
  let r := consume s.bounds s.cfg s.pcfg termFns (rsOracle [] rec) (sigOracle sigok hasKey) sc ⟨s.proc, s.hq⟩ key
  let s' := { s with proc := r.1.tp, hq := r.1.queues, pending := none, pendingKey := none }
  match r.2 with
  | none => (s', "empty")
  | some out =>
    (s', procOutStr out ++ " | " ++ toString r.1.tp.tasks ++ " " ++ toString (r.1.tp.ptasks key.publisher) ++
      " " ++ (if r.1.tp.core.finalized.contains key then "1" else "0") ++ " " ++ toString r.1.tp.core.subs.length ++
      " " ++ toString (r.1.queueOf key).length)

def offerStr (s : St) (u : PUnit HTerm) : OfferRes → String
  | .taken => "taken"
  | .full => "full"
  | .ignored => "ignored"
  | .panic => "panic"
  | .refused .publisherTasks =>
    if s.proc.tasks == s.bounds.maxWorkers then "noroute:publisher-tasks+max-tasks" else "noroute:publisher-tasks"
  | .refused r => let _ := u; "noroute:" ++ r.name

def wireErr : WireErr → String
  | .noShards => "no-shards" | .shardLen => "shard-len" | .rootLen => "root-len"

def schedErr : SchedErr → String
  | .tooFew => "too-few" | .localMissing => "local-missing" | .duplicate => "duplicate"

def step (s : St) (line : String) : St × String :=
  match words line with
  | ["uvarint", h] =>
    match hexToBytes? h with
    | some b => let (v, n) := uvarint b; (s, natToHex v.toNat ++ " " ++ intStr n)
    | none => (s, "bad-op")
  | ["putuvarint", v] =>
    match hexToNat? v with
    | some n => if n < 2 ^ 64 then (s, bytesToHex (putUvarint (UInt64.ofNat n))) else (s, "bad-op")
    | none => (s, "bad-op")
  | ["pad", k, h] =>
    match k.toNat?, fastHex? h with
    | some k, some b => (s, outStr bytesToHex (padGo b k))
    | _, _ => (s, "bad-op")
  | ["unpad", g, h] =>
    match fastHex? h with
    | some b =>
      if g == "0" then (s, outStr bytesToHex (unpad false b))
      else if g == "1" then (s, outStr bytesToHex (unpad true b))
      else (s, "bad-op")
    | none => (s, "bad-op")
  | ["leafpre", h] =>
    match fastHex? h with
    | some b => (s, bytesToHex (leafPreimageGo b))
    | none => (s, "bad-op")
  | ["nodepre", l, r] =>
    match hexToBytes? l, hexToBytes? r with
    | some l, some r => (s, bytesToHex (nodePreimageGo l r))
    | _, _ => (s, "bad-op")
  | ["sigpayload", root, committee, nonce] =>
    match hexToBytes? root, hexToBytes? committee, nonce.toNat? with
    | some root, some committee, some nonce =>
      if nonce < 2 ^ 64 then (s, bytesToHex (signPayloadGo root committee nonce)) else (s, "bad-op")
    | _, _, _ => (s, "bad-op")
  | ["bpeers", loc, peers, publisher] =>
    match hexToBytes? loc, hexList? peers, hexToBytes? publisher with
    | some loc, some peers, some publisher =>
      match newScheduler loc peers with
      | .ok sc =>
        match broadcastPeersGo sc.peers sc.localId publisher with
        | some l => (s, "ok " ++ hexList l)
        | none => (s, "panic")
      | .error e => (s, "err:" ++ schedErr e)
    | _, _, _ => (s, "bad-op")
  | ["btargets", loc, peers] =>
    match hexToBytes? loc, hexList? peers with
    | some loc, some peers =>
      match newScheduler loc peers with
      | .ok sc => (s, "ok " ++ hexList (broadcastTargetsGo sc.peers sc.localIdx))
      | .error e => (s, "err:" ++ schedErr e)
    | _, _ => (s, "bad-op")
  | ["tcnew", size, ttl] =>
    match size.toNat?, ttl.toNat? with
    | some size, some ttl => ({ s with tc := TCache.new size ttl }, "ok")
    | _, _ => (s, "bad-op")
  | ["tcadd", now, key] =>
    match now.toNat?, key.toNat? with
    | some now, some key =>
      let t1 := s.tc.removeExpired now
      let grow := if t1.almostFull then (if t1.start < t1.stop then "c" else "w") else "-"
      let t := s.tc.add now key
      ({ s with tc := t }, s!"{t.start} {t.stop} {t.size} {t.values.length} {grow}")
    | _, _ => (s, "bad-op")
  | ["tcget", now, key] =>
    match now.toNat?, key.toNat? with
    | some now, some key =>
      let (t, ans) := s.tc.get now key
      ({ s with tc := t }, s!"{ans} {t.start} {t.stop} {t.size} {t.values.length}")
    | _, _ => (s, "bad-op")
  | ["bsearch", xs, t] =>
    match hexList? xs, hexToBytes? t with
    | some xs, some t => let (i, found) := binSearch xs t; (s, toString i ++ " " ++ (if found then "1" else "0"))
    | _, _ => (s, "bad-op")
  | ["speerforgo", publisher, idx] =>
    match s.sched, hexToBytes? publisher, idx.toNat? with
    | some sc, some publisher, some idx =>
      match sc.peerForShardGo publisher idx with
      | .ok q => (s, "ok " ++ bytesToHex q)
      | .error e => (s, "err:" ++ e.name)
    | _, _, _ => (s, "bad-op")
  | ["sshardforgo", publisher] =>
    match s.sched, hexToBytes? publisher with
    | some sc, some publisher =>
      match sc.shardIndexForGo publisher with
      | .ok i => (s, s!"ok {i}")
      | .error e => (s, "err:" ++ e.name)
    | _, _ => (s, "bad-op")
  | ["bitslen", n] =>
    match n.toNat? with
    | some n => (s, toString (bitsLen n))
    | none => (s, "bad-op")
  | ["npow2go", n] =>
    match n.toNat? with
    | some n => (s, toString (nextPow2Go n))
    | none => (s, "bad-op")
  | ["pdepth", n] =>
    match n.toNat? with
    | some n => (s, toString (proofDepthGo n))
    | none => (s, "bad-op")
  | ["npow2", n] =>
    match n.toNat? with
    | some n => (s, toString (nextPow2 n))
    | none => (s, "bad-op")
  | ["marshal", l] =>
    match hexList? l with
    | some l => (s, bytesToHex (marshalShards l))
    | none => (s, "bad-op")
  | ["split", k, p, h] =>
    match k.toNat?, p.toNat?, fastHex? h with
    | some k, some p, some b =>
      (s, outStr hexList (match encodeData (rsOracle [] none) b k p with
        | .ok l => .ok (l.take k) | .err e => .err e | .panic => .panic))
    | _, _, _ => (s, "bad-op")
  | ["merkle", l] =>
    match hexList? l with
    | some leaves =>
      let (root, tree) := merkleNew termFns leaves
      (s, " ".intercalate (termToString root :: tree.map termList))
    | none => (s, "bad-op")
  | ["verify", pr, root, leaf, idx] =>
    match terms? pr, term? root, hexToBytes? leaf, idx.toNat? with
    | some pr, some root, some leaf, some idx => (s, toString (verify termFns pr root leaf idx))
    | _, _, _, _ => (s, "bad-op")
  | ["create", c, k, p, nonce, committee, publisher, msg, parity] =>
    match cfg? c, k.toNat?, p.toNat?, nonce.toNat?, hexToBytes? committee, hexToBytes? publisher,
          fastHex? msg, hexList? parity with
    | some c, some k, some p, some nonce, some committee, some publisher, some msg, some parity =>
      let r := createUnits c termFns (rsOracle parity none) (sigOracle true) committee publisher nonce msg k p
      (s, outStr (fun us =>
        match us with
        | [] => "-"
        | u :: _ => " ".intercalate
            (termToString u.root :: toString u.nonce :: hexList (us.map (fun u => u.shards.headD []))
              :: us.map (fun u => termList u.proof))) r)
    | _, _, _, _, _, _, _, _ => (s, "bad-op")
  | "construct" :: c :: k :: p :: loc :: rs :: roots :: units =>
    match cfg? c, k.toNat?, p.toNat?, loc.toNat?, (terms? roots).bind (fun rts => units.mapM (unit? rts)),
          (if rs == "none" then some none else (hexList? rs).map some) with
    | some c, some k, some p, some loc, some units, some rec =>
      let r := construct c termFns (rsOracle [] rec) units loc k p
      (s, outStr (fun (m, sh, pr) => bytesToHex m ++ " " ++ hexItem sh ++ " " ++ termList pr) r)
    | _, _, _, _, _, _ => (s, "bad-op")
  | ["sched", loc, peers] =>
    match hexToBytes? loc, hexList? peers with
    | some loc, some peers =>
      match newScheduler loc peers with
      | .ok sc => (s, s!"ok {sc.k} {sc.c} {sc.localIdx} {hexList sc.peers}")
      | .error e => (s, "err:" ++ schedErr e)
    | _, _ => (s, "bad-op")
  | ["origin", loc, peers, sender, publisher, idx] =>
    match hexToBytes? loc, hexList? peers, hexToBytes? sender, hexToBytes? publisher, idx.toNat? with
    | some loc, some peers, some sender, some publisher, some idx =>
      match newScheduler loc peers with
      | .ok sc =>
        match sc.validateOrigin sender publisher idx with
        | .ok () => (s, "ok")
        | .error e => (s, "err:" ++ e.name)
      | .error e => (s, "err:" ++ schedErr e)
    | _, _, _, _, _ => (s, "bad-op")
  | ["shardfor", loc, peers, publisher] =>
    match hexToBytes? loc, hexList? peers, hexToBytes? publisher with
    | some loc, some peers, some publisher =>
      match newScheduler loc peers with
      | .ok sc =>
        match sc.shardIndexFor publisher with
        | .ok i => (s, s!"ok {i}")
        | .error e => (s, "err:" ++ e.name)
      | .error e => (s, "err:" ++ schedErr e)
    | _, _, _ => (s, "bad-op")
  | ["sorigin", sender, publisher, idx] =>
    match s.sched, hexToBytes? sender, hexToBytes? publisher, idx.toNat? with
    | some sc, some sender, some publisher, some idx =>
      match sc.validateOrigin sender publisher idx with
      | .ok () => (s, "ok")
      | .error e => (s, "err:" ++ e.name)
    | _, _, _, _ => (s, "bad-op")
  | ["sshardfor", publisher] =>
    match s.sched, hexToBytes? publisher with
    | some sc, some publisher =>
      match sc.shardIndexFor publisher with
      | .ok i => (s, s!"ok {i}")
      | .error e => (s, "err:" ++ e.name)
    | _, _ => (s, "bad-op")
  | ["fromproto", g, shards, idx, root, sibs, publisher, sig, committee, nonce] =>
    match hexList? shards, idx.toNat?, hexToBytes? root, hexList? sibs, hexToBytes? publisher,
          hexToBytes? sig, hexToBytes? committee, nonce.toNat? with
    | some shards, some idx, some root, some sibs, some publisher, some sig, some committee, some nonce =>
      if g != "0" && g != "1" then (s, "bad-op") else
      match unitFromProto (g == "1") ⟨shards, idx, root, sibs, publisher, sig, committee, nonce⟩ with
      | .ok u => (s, " ".intercalate ["ok", bytesToHex u.committee, bytesToHex u.publisher, bytesToHex u.root,
          hexList u.proof, bytesToHex u.sig, toString u.index, hexList u.shards, toString u.nonce])
      | .err e => (s, "err:" ++ wireErr e)
      | .panic => (s, "panic")
    | _, _, _, _, _, _, _, _ => (s, "bad-op")
  | ["preset", c, pc, loc, peers] =>
    match cfg? c, pcfg? pc, hexToBytes? loc, hexList? peers with
    | some c, some pc, some loc, some peers =>
      match newScheduler loc peers with
      | .ok sc => ({ s with cfg := c, pcfg := pc, sched := some sc, proc := TProc.empty, bounds := Bounds.real, pending := none, hq := [], pendingKey := none }, "ok")
      | .error e => ({ s with sched := none, proc := TProc.empty, pending := none, hq := [], pendingKey := none }, "err:" ++ schedErr e)
    | _, _, _, _ => (s, "bad-op")
  | ["preset", c, pc, loc, peers, mw, mp] =>
    match cfg? c, pcfg? pc, hexToBytes? loc, hexList? peers, mw.toNat?, mp.toNat? with
    | some c, some pc, some loc, some peers, some mw, some mp =>
      match newScheduler loc peers with
      | .ok sc => ({ s with cfg := c, pcfg := pc, sched := some sc, proc := TProc.empty, bounds := ⟨mw, mp⟩, pending := none, hq := [], pendingKey := none }, "ok")
      | .error e => ({ s with sched := none, proc := TProc.empty, pending := none, hq := [], pendingKey := none }, "err:" ++ schedErr e)
    | _, _, _, _, _, _ => (s, "bad-op")
  | ["pexpire", committee, publisher, root, nonce] =>
    match hexToBytes? committee, hexToBytes? publisher, term? root, nonce.toNat? with
    | some committee, some publisher, some root, some nonce =>
      let key : MsgKey HTerm := ⟨committee, publisher, root, nonce⟩
      let live := (s.proc.core.findSub key).isSome
      let p' := tprocExpire s.proc key
      ({ s with proc := p' }, (if live then "expired" else "none") ++ " | " ++ toString p'.tasks ++ " " ++ toString (p'.ptasks publisher) ++
        " " ++ (if p'.core.finalized.contains key then "1" else "0") ++ " " ++ toString p'.core.subs.length)
    | _, _, _, _ => (s, "bad-op")
  | ["pstep", sigok, committee, publisher, root, proof, sig, idx, shards, nonce, sender] =>
    match s.sched, hexToBytes? committee, hexToBytes? publisher, term? root, terms? proof,
          hexToBytes? sig, idx.toNat?, hexList? shards, nonce.toNat?, hexToBytes? sender with
    | some sc, some committee, some publisher, some root, some proof, some sig, some idx,
      some shards, some nonce, some sender =>
      if !(["00", "01", "10", "11"].contains sigok) then (s, "bad-op") else
      let so := sigok.startsWith "1"
      let hk := sigok.endsWith "1"
      let u : PUnit HTerm := ⟨committee, publisher, root, proof, sig, idx, shards, nonce⟩
      match needsCodec s sc so hk u sender with
      | some sh => ({ s with pending := some (so, hk, u, sender), pendingKey := none }, "need-rs " ++ optShards sh)
      | none => runPStep s sc so hk u sender none
    | _, _, _, _, _, _, _, _, _, _ => (s, "bad-op")
  | ["phc", x] =>
    if x == "1" then ({ s with hc := ⟨true⟩ }, "ok") else if x == "0" then ({ s with hc := ⟨false⟩ }, "ok") else (s, "bad-op")
  | ["poffer", sigok, committee, publisher, root, proof, sig, idx, shards, nonce, sender] =>
    match s.sched, hexToBytes? committee, hexToBytes? publisher, term? root, terms? proof,
          hexToBytes? sig, idx.toNat?, hexList? shards, nonce.toNat?, hexToBytes? sender with
    | some sc, some committee, some publisher, some root, some proof, some sig, some idx,
      some shards, some nonce, some sender =>
      if !(["00", "01", "10", "11"].contains sigok) then (s, "bad-op") else
      let so := sigok.startsWith "1"
      let hk := sigok.endsWith "1"
      let u : PUnit HTerm := ⟨committee, publisher, root, proof, sig, idx, shards, nonce⟩
      let r := offer s.hc s.bounds s.pcfg (sigOracle so hk) sc ⟨s.proc, s.hq⟩ u sender
      ({ s with proc := r.1.tp, hq := r.1.queues, pending := none, pendingKey := none },
        offerStr s u r.2 ++ " | " ++ toString r.1.tp.tasks ++ " " ++ toString (r.1.tp.ptasks publisher) ++ " " ++
          (if r.1.tp.core.finalized.contains (keyOf u) then "1" else "0") ++ " " ++ toString r.1.tp.core.subs.length ++
          " " ++ toString (r.1.queueOf (keyOf u)).length)
    | _, _, _, _, _, _, _, _, _, _ => (s, "bad-op")
  | ["pconsume", sigok, committee, publisher, root, nonce] =>
    match s.sched, hexToBytes? committee, hexToBytes? publisher, term? root, nonce.toNat? with
    | some sc, some committee, some publisher, some root, some nonce =>
      if !(["00", "01", "10", "11"].contains sigok) then (s, "bad-op") else
      let so := sigok.startsWith "1"
      let hk := sigok.endsWith "1"
      let key : MsgKey HTerm := ⟨committee, publisher, root, nonce⟩
      match (HProc.queueOf ⟨s.proc, s.hq⟩ key) with
      | [] => (s, "empty")
      | (u, sender) :: _ =>
        match needsCodec s sc so hk u sender with
        | some sh => ({ s with pending := some (so, hk, u, sender), pendingKey := some key }, "need-rs " ++ optShards sh)
        | none => runPConsume s sc so hk key none
    | _, _, _, _, _ => (s, "bad-op")
  | ["prs", r] =>
    match s.sched, s.pending, (if r == "none" then some none else (hexList? r).map some) with
    | some sc, some (sigok, hk, u, sender), some rec =>
      match s.pendingKey with
      | some key => runPConsume s sc sigok hk key rec
      | none => runPStep s sc sigok hk u sender rec
    | _, _, _ => (s, "bad-op")
  | ["vreset", c, loc, peers] =>
    match cfg? c, hexToBytes? loc, hexList? peers with
    | some c, some loc, some peers =>
      match newScheduler loc peers with
      | .ok sc => ({ cfg := c, sched := some sc, routes := [] }, "ok")
      | .error e => ({ s with sched := none, routes := [] }, "err:" ++ schedErr e)
    | _, _, _ => (s, "bad-op")
  | ["deliver", sigok, committee, publisher, root, proof, sig, idx, shards, nonce, sender] =>
    match s.sched, hexToBytes? committee, hexToBytes? publisher, term? root, terms? proof,
          hexToBytes? sig, idx.toNat?, hexList? shards, nonce.toNat?, hexToBytes? sender with
    | some sc, some committee, some publisher, some root, some proof, some sig, some idx,
      some shards, some nonce, some sender =>
      if sigok != "0" && sigok != "1" then (s, "bad-op") else
      let u : PUnit HTerm := ⟨committee, publisher, root, proof, sig, idx, shards, nonce⟩
      let (routes, verdict) := deliver s.cfg termFns (sigOracle (sigok == "1")) sc s.routes u sender
      ({ s with routes := routes }, match verdict with | .ok () => "ok" | .error e => "err:" ++ e.name)
    | _, _, _, _, _, _, _, _, _, _ => (s, "bad-op")
  | _ => (s, "bad-op")

end Juno.C19.Drv

def main : IO Unit := loop Juno.C19.Drv.step {}
