import JunoModel.C19.ModelR6
import JunoModel.C19.ProofsR5
/-
C19 — proofs for `ModelR6` (the hand-over of a unit to its subprocessor). Core Lean only.
-/
namespace Juno.C19

variable {H : Type}

/-! ### queues -/

theorem queueOf_setQueue [DecidableEq H] (hp : HProc H) (key key' : MsgKey H) (q : List (PUnit H × Bytes)) :
    (hp.setQueue key q).queueOf key' = if key' = key then q else hp.queueOf key' := by
  unfold HProc.setQueue HProc.queueOf
  by_cases h : key' = key
  · subst h; simp
  · have h' : ¬ key = key' := fun e => h e.symm
    simp only [h, if_false]
    rw [List.find?_cons_of_neg (by simp [h']), find_filter_ne_gen key key' h]

@[simp] theorem setQueue_tp [DecidableEq H] (hp : HProc H) (key : MsgKey H) (q : List (PUnit H × Bytes)) :
    (hp.setQueue key q).tp = hp.tp := rfl

@[simp] theorem dropQueue_tp [DecidableEq H] (hp : HProc H) (key : MsgKey H) : (hp.dropQueue key).tp = hp.tp := rfl

theorem queueOf_dropQueue_self [DecidableEq H] (hp : HProc H) (key : MsgKey H) :
    (hp.dropQueue key).queueOf key = [] := by
  unfold HProc.dropQueue HProc.queueOf
  show (Option.map (·.2) ((hp.queues.filter (fun e => e.1 ≠ key)).find? (fun e => e.1 = key))).getD [] = []
  rw [find_filter_self]; rfl

/-! ### registering a subprocessor, then dealing with its first unit = the sequential step -/

theorem setSub_setSub [DecidableEq H] (p : Proc H) (key : MsgKey H) (a c : SubState H) :
    (p.setSub key a).setSub key c = p.setSub key c := by
  unfold Proc.setSub
  simp [List.filter_filter]

theorem dropSub_setSub_subs [DecidableEq H] (p : Proc H) (key : MsgKey H) (a : SubState H) :
    ((p.setSub key a).dropSub key).subs = (p.dropSub key).subs := by
  unfold Proc.setSub Proc.dropSub
  simp [List.filter_filter]

theorem dropSub_setSub [DecidableEq H] (p : Proc H) (key : MsgKey H) (a : SubState H) :
    (p.setSub key a).dropSub key = p.dropSub key := by
  unfold Proc.setSub Proc.dropSub
  simp [List.filter_filter]

/-- What `refusalOf = none` means for a key that is neither finalized nor being processed. -/
theorem refusal_none_new [DecidableEq H] (b : Bounds) (pc : PCfg) (sg : SigScheme H) (s : Sched)
    (tp : TProc H) (u : PUnit H)
    (hfin : tp.core.finalized.contains (keyOf u) = false) (hnone : tp.core.findSub (keyOf u) = none)
    (href : refusalOf b pc sg s tp u = none) :
    (∃ li, s.shardIndexFor (keyOf u).publisher = .ok li) ∧
    (pc.keyGuard && !sg.hasKey (keyOf u).publisher) = false ∧
    tp.ptasks (keyOf u).publisher ≠ b.maxPerPublisher ∧ tp.tasks ≠ b.maxWorkers := by
  unfold refusalOf at href
  rw [if_neg (Bool.eq_false_iff.mp hfin), if_neg (by rw [hnone]; simp)] at href
  cases hsi : s.shardIndexFor (keyOf u).publisher with
  | error e => rw [hsi] at href; cases e <;> simp at href
  | ok li =>
    rw [hsi] at href
    simp only at href
    by_cases hk : (pc.keyGuard && !sg.hasKey (keyOf u).publisher) = true
    · rw [if_pos hk] at href; cases href
    · rw [if_neg hk] at href
      by_cases hp : tp.ptasks (keyOf u).publisher = b.maxPerPublisher
      · rw [if_pos hp] at href; cases href
      · rw [if_neg hp] at href
        by_cases ht : tp.tasks = b.maxWorkers
        · rw [if_pos ht] at href; cases href
        · exact ⟨⟨li, rfl⟩, by simpa using hk, hp, ht⟩

/-- THE BRIDGE between the two models. `createSubprocessor` (slot, map entry, goroutine) followed by the
new subprocessor dealing with its first unit is exactly the sequential model's step on a processor that
does not have the subprocessor yet: same outcome; same processor afterwards (unless the outcome is a
panic, after which there is no processor). -/
theorem tprocStep_register [DecidableEq H] (b : Bounds) (cfg : Cfg) (pc : PCfg) (f : HashFns H) (rs : RS)
    (sg : SigScheme H) (s : Sched) (tp : TProc H) (u : PUnit H) (sender : Bytes)
    (hfin : tp.core.finalized.contains (keyOf u) = false) (hnone : tp.core.findSub (keyOf u) = none)
    (href : refusalOf b pc sg s tp u = none) (hkey : sg.hasKey (keyOf u).publisher = true) :
    (tprocStep b cfg pc f rs sg s (register tp s (keyOf u)) u sender).2 =
      (tprocStep b cfg pc f rs sg s tp u sender).2 ∧
    ((tprocStep b cfg pc f rs sg s tp u sender).2 ≠ .panic →
      (tprocStep b cfg pc f rs sg s (register tp s (keyOf u)) u sender).1.core =
        (tprocStep b cfg pc f rs sg s tp u sender).1.core ∧
      (tprocStep b cfg pc f rs sg s (register tp s (keyOf u)) u sender).1.tasks =
        (tprocStep b cfg pc f rs sg s tp u sender).1.tasks ∧
      (tprocStep b cfg pc f rs sg s (register tp s (keyOf u)) u sender).1.ptasks =
        (tprocStep b cfg pc f rs sg s tp u sender).1.ptasks) := by
  obtain ⟨⟨li, hsi⟩, hkg, hpt, htk⟩ := refusal_none_new b pc sg s tp u hfin hnone href
  have hwc : wouldCreate pc sg s tp.core u = true := by
    unfold wouldCreate; rw [hfin, hnone, hkg, hsi]; rfl
  have hfs : (register tp s (keyOf u)).core.findSub (keyOf u) = some (SubState.fresh s.total) := by
    unfold register; simp [findSub_setSub]
  have hwc' : ¬ wouldCreate pc sg s (register tp s (keyOf u)).core u = true := by
    unfold wouldCreate; simp [hfs]
  have hk1 : keylessNew sg s tp.core u = false := by unfold keylessNew; simp [hkey]
  have hk2 : keylessNew sg s (register tp s (keyOf u)).core u = false := by unfold keylessNew; simp [hkey]
  have hfin' : (register tp s (keyOf u)).core.finalized.contains (keyOf u) = false := by
    unfold register Proc.setSub; exact hfin
  have hdb : drop1 (bump tp.ptasks (keyOf u).publisher) (keyOf u).publisher = tp.ptasks := by
    funext q; unfold drop1 bump; by_cases hq : q = (keyOf u).publisher <;> simp [hq]
  unfold tprocStep
  rw [if_pos hwc, if_neg hwc', if_neg (by intro h; rcases h with h | h; exact hpt h; exact htk h)]
  rw [procStep_keyed cfg pc f rs sg s _ u sender hk1, procStep_keyed cfg pc f rs sg s _ u sender hk2]
  unfold procStepCore
  rw [if_neg (Bool.eq_false_iff.mp hfin), if_neg (Bool.eq_false_iff.mp hfin')]
  simp only [hsi, hfs, hnone, Option.getD_some, Option.getD_none]
  cases hss : subStep cfg pc f rs sg s (keyOf u).publisher li (SubState.fresh s.total) u sender with
  | running st' bc bu =>
    refine ⟨rfl, fun _ => ⟨?_, rfl, rfl⟩⟩
    show (register tp s (keyOf u)).core.setSub (keyOf u) st' = tp.core.setSub (keyOf u) st'
    unfold register; exact setSub_setSub tp.core (keyOf u) _ st'
  | finished err bc bu =>
    refine ⟨rfl, fun _ => ⟨?_, ?_, ?_⟩⟩
    · show (⟨keyOf u :: (register tp s (keyOf u)).core.finalized,
          ((register tp s (keyOf u)).core.dropSub (keyOf u)).subs⟩ : Proc H) =
        ⟨keyOf u :: tp.core.finalized, (tp.core.dropSub (keyOf u)).subs⟩
      unfold register; rw [dropSub_setSub_subs]; rfl
    · show (register tp s (keyOf u)).tasks - 1 = tp.tasks
      unfold register; simp
    · show drop1 (register tp s (keyOf u)).ptasks (keyOf u).publisher = tp.ptasks
      unfold register; exact hdb
  | firstInvalid =>
    cases hnp : pc.noPoison with
    | true =>
      simp only [if_true]
      refine ⟨by first | rfl | trivial, fun _ => ⟨?_, ?_, ?_⟩⟩
      · show (register tp s (keyOf u)).core.dropSub (keyOf u) = tp.core.dropSub (keyOf u)
        unfold register; exact dropSub_setSub tp.core (keyOf u) _
      · show (register tp s (keyOf u)).tasks - 1 = tp.tasks
        unfold register; simp
      · show drop1 (register tp s (keyOf u)).ptasks (keyOf u).publisher = tp.ptasks
        unfold register; exact hdb
    | false =>
      simp only [Bool.false_eq_true, if_false]
      refine ⟨by first | rfl | trivial, fun _ => ⟨?_, ?_, ?_⟩⟩
      · show (⟨keyOf u :: (register tp s (keyOf u)).core.finalized,
            ((register tp s (keyOf u)).core.dropSub (keyOf u)).subs⟩ : Proc H) =
          ⟨keyOf u :: tp.core.finalized, (tp.core.dropSub (keyOf u)).subs⟩
        unfold register; rw [dropSub_setSub_subs]; rfl
      · show (register tp s (keyOf u)).tasks - 1 = tp.tasks
        unfold register; simp
      · show drop1 (register tp s (keyOf u)).ptasks (keyOf u).publisher = tp.ptasks
        unfold register; exact hdb
  | panic => exact ⟨rfl, fun h => absurd rfl h⟩

theorem tproc_ext (a c : TProc H) (h1 : a.core = c.core) (h2 : a.tasks = c.tasks) (h3 : a.ptasks = c.ptasks) :
    a = c := by
  cases a; cases c; simp only at h1 h2 h3; subst h1; subst h2; subst h3; rfl

/-! ### `ProcessMessage` -/

/-- The first unit of a new message key is never dropped — whatever the channel (33cd01b: blocking send). -/
theorem offer_new_key [DecidableEq H] (hc : HCfg) (b : Bounds) (pc : PCfg) (sg : SigScheme H) (s : Sched)
    (hp : HProc H) (u : PUnit H) (sender : Bytes)
    (hfin : hp.tp.core.finalized.contains (keyOf u) = false) (hnone : hp.tp.core.findSub (keyOf u) = none)
    (href : refusalOf b pc sg s hp.tp u = none) (hkey : sg.hasKey (keyOf u).publisher = true) :
    offer hc b pc sg s hp u sender =
      (HProc.setQueue ⟨register hp.tp s (keyOf u), hp.queues⟩ (keyOf u) [(u, sender)], .taken) := by
  unfold offer
  rw [if_neg (Bool.eq_false_iff.mp hfin), if_neg (by rw [hnone]; simp), href]
  simp [hkey]

/-- A later unit: taken iff the non-blocking send finds room. -/
theorem offer_existing [DecidableEq H] (hc : HCfg) (b : Bounds) (pc : PCfg) (sg : SigScheme H) (s : Sched)
    (hp : HProc H) (u : PUnit H) (sender : Bytes)
    (hfin : hp.tp.core.finalized.contains (keyOf u) = false)
    (hsome : (hp.tp.core.findSub (keyOf u)).isSome = true) :
    offer hc b pc sg s hp u sender =
      if hasRoom (chanCap hc s) (hp.queueOf (keyOf u)) then
        (hp.setQueue (keyOf u) (hp.queueOf (keyOf u) ++ [(u, sender)]), .taken)
      else (hp, .full) := by
  unfold offer
  rw [if_neg (Bool.eq_false_iff.mp hfin), if_pos hsome]

/-- 5e563fa. Units of a message key that has a subprocessor, offered back to back: as long as the channel
holds no more than `NumTotalShards` units, every one of them is taken and waits in order. -/
theorem offerAll_existing [DecidableEq H] (b : Bounds) (pc : PCfg) (sg : SigScheme H) (s : Sched)
    (key : MsgKey H) :
    ∀ (rest : List (PUnit H × Bytes)) (hp : HProc H),
      hp.tp.core.finalized.contains key = false → (hp.tp.core.findSub key).isSome = true →
      (∀ x ∈ rest, keyOf x.1 = key) → (hp.queueOf key).length + rest.length ≤ s.total →
      (offerAll HCfg.current b pc sg s hp rest).2 = List.replicate rest.length .taken ∧
      (offerAll HCfg.current b pc sg s hp rest).1.tp = hp.tp ∧
      (offerAll HCfg.current b pc sg s hp rest).1.queueOf key = hp.queueOf key ++ rest := by
  intro rest
  induction rest with
  | nil => intro hp _ _ _ _; simp [offerAll]
  | cons x rest ih =>
    intro hp hfin hsome hkeys hlen
    obtain ⟨u, sender⟩ := x
    have hk : keyOf u = key := hkeys (u, sender) (by simp)
    have hroom : hasRoom (chanCap HCfg.current s) (hp.queueOf (keyOf u)) = true := by
      unfold hasRoom chanCap HCfg.current
      simp only [List.length_cons] at hlen
      rw [hk]
      have h0 : ¬ s.total = 0 := by omega
      simp only [if_true, h0, if_false, decide_eq_true_eq]
      omega
    have hoff := offer_existing HCfg.current b pc sg s hp u sender (by rw [hk]; exact hfin) (by rw [hk]; exact hsome)
    rw [if_pos hroom, hk] at hoff
    have hq : (hp.setQueue key (hp.queueOf key ++ [(u, sender)])).queueOf key = hp.queueOf key ++ [(u, sender)] := by
      rw [queueOf_setQueue]; simp
    obtain ⟨i1, i2, i3⟩ := ih (hp.setQueue key (hp.queueOf key ++ [(u, sender)])) hfin hsome
      (fun y hy => hkeys y (by simp [hy]))
      (by rw [hq]; simp only [List.length_append, List.length_cons, List.length_nil] at hlen ⊢; omega)
    unfold offerAll
    rw [hoff]
    refine ⟨?_, ?_, ?_⟩
    · show OfferRes.taken :: _ = _
      rw [i1]; rfl
    · exact i2
    · rw [i3, hq]; simp

/-- Before 5e563fa (unbuffered channel): the unit that follows the first unit of a new key before the
subprocessor has dealt with it is DROPPED — whichever unit it is — and the processor is as if it had
never been offered. -/
theorem second_offer_full_unbuffered [DecidableEq H] (b : Bounds) (pc : PCfg) (sg : SigScheme H) (s : Sched)
    (hp : HProc H) (u : PUnit H) (sender : Bytes)
    (hfin : hp.tp.core.finalized.contains (keyOf u) = false) (hnone : hp.tp.core.findSub (keyOf u) = none)
    (href : refusalOf b pc sg s hp.tp u = none) (hkey : sg.hasKey (keyOf u).publisher = true)
    (u2 : PUnit H) (sender2 : Bytes) (hk2 : keyOf u2 = keyOf u) :
    offer HCfg.before5e563fa b pc sg s (offer HCfg.before5e563fa b pc sg s hp u sender).1 u2 sender2 =
      ((offer HCfg.before5e563fa b pc sg s hp u sender).1, .full) := by
  rw [offer_new_key HCfg.before5e563fa b pc sg s hp u sender hfin hnone href hkey]
  have hfin' : (HProc.setQueue ⟨register hp.tp s (keyOf u), hp.queues⟩ (keyOf u) [(u, sender)]).tp.core.finalized.contains
      (keyOf u2) = false := by
    rw [hk2]; unfold HProc.setQueue register Proc.setSub; exact hfin
  have hsome' : ((HProc.setQueue ⟨register hp.tp s (keyOf u), hp.queues⟩ (keyOf u) [(u, sender)]).tp.core.findSub
      (keyOf u2)).isSome = true := by
    rw [hk2]; unfold HProc.setQueue register; simp [findSub_setSub]
  rw [offer_existing HCfg.before5e563fa b pc sg s _ u2 sender2 hfin' hsome', hk2, queueOf_setQueue]
  simp [hasRoom, chanCap, HCfg.before5e563fa]

/-! ### the subprocessor works through its channel -/

theorem consume_cons [DecidableEq H] (b : Bounds) (cfg : Cfg) (pc : PCfg) (f : HashFns H) (rs : RS)
    (sg : SigScheme H) (s : Sched) (hp : HProc H) (key : MsgKey H) (u : PUnit H) (sender : Bytes)
    (rest : List (PUnit H × Bytes)) (hq : hp.queueOf key = (u, sender) :: rest) :
    consume b cfg pc f rs sg s hp key =
      if ((tprocStep b cfg pc f rs sg s hp.tp u sender).1.core.findSub key).isSome then
        (HProc.setQueue ⟨(tprocStep b cfg pc f rs sg s hp.tp u sender).1, hp.queues⟩ key rest,
          some (tprocStep b cfg pc f rs sg s hp.tp u sender).2)
      else (HProc.dropQueue ⟨(tprocStep b cfg pc f rs sg s hp.tp u sender).1, hp.queues⟩ key,
          some (tprocStep b cfg pc f rs sg s hp.tp u sender).2) := by
  unfold consume; rw [hq]

theorem findSub_of_subs_eq [DecidableEq H] (p q : Proc H) (h : p.subs = q.subs) (key : MsgKey H) :
    p.findSub key = q.findSub key := by
  unfold Proc.findSub; rw [h]

/-- What a step says about the subprocessor of the unit's key afterwards: it is there when the step
stored the unit and goes on (`ended = none`), gone when the step reports its end. -/
theorem tprocStep_sub_after [DecidableEq H] (b : Bounds) (cfg : Cfg) (pc : PCfg) (f : HashFns H) (rs : RS)
    (sg : SigScheme H) (s : Sched) (tp : TProc H) (u : PUnit H) (sender : Bytes) (bc : List (PUnit H))
    (bu : Option Bytes) (e : Option Bool)
    (hout : (tprocStep b cfg pc f rs sg s tp u sender).2 = .handled bc bu e) :
    ((tprocStep b cfg pc f rs sg s tp u sender).1.core.findSub (keyOf u)).isSome = e.isNone := by
  have hshape := procStep_shape cfg pc f rs sg s tp.core u sender
  have key : (tprocStep b cfg pc f rs sg s tp u sender).1.core = (procStep cfg pc f rs sg s tp.core u sender).1 ∧
      (procStep cfg pc f rs sg s tp.core u sender).2 = .handled bc bu e := by
    revert hout
    unfold tprocStep
    by_cases hw : wouldCreate pc sg s tp.core u = true
    · rw [if_pos hw]
      by_cases hb : tp.ptasks (keyOf u).publisher = b.maxPerPublisher ∨ tp.tasks = b.maxWorkers
      · rw [if_pos hb]; intro h; cases h
      · rw [if_neg hb]
        rcases procStep cfg pc f rs sg s tp.core u sender with ⟨p', out⟩
        cases out with
        | handled bc' bu' e' => cases e' <;> (intro h; exact ⟨rfl, h⟩)
        | ignored => intro h; cases h
        | noRoute => intro h; cases h
        | panic => intro h; cases h
    · rw [if_neg hw]
      rcases procStep cfg pc f rs sg s tp.core u sender with ⟨p', out⟩
      cases out with
      | handled bc' bu' e' => cases e' <;> (intro h; exact ⟨rfl, h⟩)
      | ignored => intro h; cases h
      | noRoute => intro h; cases h
      | panic => intro h; cases h
  obtain ⟨hcore, hpo⟩ := key
  rw [hcore]
  rcases hshape with ⟨_, hno⟩ | ⟨⟨st, bc', b', hst, ho⟩, _⟩ | ⟨⟨bc', b', e', hsubs, ho⟩, _⟩
  · exact absurd hpo (hno bc bu e)
  · rw [hpo] at ho
    cases ho
    rw [hst, findSub_setSub]; simp
  · rw [hpo] at ho
    cases ho
    rw [findSub_of_subs_eq _ _ hsubs, findSub_dropSub]; simp

/-- The subprocessor of `key` deals with the units that wait in its channel one after the other: as long
as it goes on after each, what it does is what the sequential model does with the same units in the same
order — for the first `q.length` units of the channel, whatever waits behind them. -/
theorem consumeN_eq_tprocRun [DecidableEq H] (b : Bounds) (cfg : Cfg) (pc : PCfg) (f : HashFns H) (rs : RS)
    (sg : SigScheme H) (s : Sched) (key : MsgKey H) (extra : List (PUnit H × Bytes)) :
    ∀ (q : List (PUnit H × Bytes)) (hp : HProc H) (pre : List (ProcOut H)) (last : ProcOut H),
      hp.queueOf key = q ++ extra → (∀ x ∈ q, keyOf x.1 = key) →
      tprocRun b cfg pc f rs sg s hp.tp q = pre ++ [last] →
      (∀ o ∈ pre, ∃ bb, o = .handled bb none none) →
      (consumeN b cfg pc f rs sg s key q.length hp).2 = pre ++ [last] := by
  intro q
  induction q with
  | nil => intro hp pre last _ _ hrun _; simp [tprocRun] at hrun
  | cons x rest ih =>
    intro hp pre last hq hkeys hrun hpre
    obtain ⟨u, sender⟩ := x
    have hk : keyOf u = key := hkeys (u, sender) (by simp)
    have hcons := consume_cons b cfg pc f rs sg s hp key u sender (rest ++ extra) (by rw [hq]; rfl)
    simp only [tprocRun] at hrun
    cases pre with
    | nil =>
      simp only [List.nil_append] at hrun
      have h2 : (tprocStep b cfg pc f rs sg s hp.tp u sender).2 = last := by injection hrun
      simp only [List.length_cons, consumeN]
      rw [hcons]
      cases rest with
      | nil =>
        by_cases hs : ((tprocStep b cfg pc f rs sg s hp.tp u sender).1.core.findSub key).isSome = true
        · rw [if_pos hs]; simp [consumeN, h2]
        · rw [if_neg hs]; simp [consumeN, h2]
      | cons y rest' =>
        exfalso
        obtain ⟨u', sd'⟩ := y
        simp [tprocRun] at hrun
    | cons o pre' =>
      simp only [List.cons_append] at hrun
      have h2 : (tprocStep b cfg pc f rs sg s hp.tp u sender).2 = o := by injection hrun
      have h3 : tprocRun b cfg pc f rs sg s (tprocStep b cfg pc f rs sg s hp.tp u sender).1 rest = pre' ++ [last] := by
        injection hrun
      obtain ⟨bb, hbb⟩ := hpre o (by simp)
      have hs : ((tprocStep b cfg pc f rs sg s hp.tp u sender).1.core.findSub key).isSome = true := by
        have := tprocStep_sub_after b cfg pc f rs sg s hp.tp u sender bb none none (by rw [h2, hbb])
        rw [hk] at this; rw [this]; rfl
      simp only [List.length_cons, consumeN]
      rw [hcons, if_pos hs]
      simp only
      have := ih (HProc.setQueue ⟨(tprocStep b cfg pc f rs sg s hp.tp u sender).1, hp.queues⟩ key (rest ++ extra))
        pre' last (by rw [queueOf_setQueue]; simp) (fun y hy => hkeys y (by simp [hy])) h3
        (fun o' ho' => hpre o' (by simp [ho']))
      rw [this, h2]; rfl

/-- A subprocessor that ends takes its channel with it: whatever was handed over and still waited there
— honest units included — is lost, and `ProcessMessage` had answered nil to each. -/
theorem consume_ended_drops_queue [DecidableEq H] (b : Bounds) (cfg : Cfg) (pc : PCfg) (f : HashFns H) (rs : RS)
    (sg : SigScheme H) (s : Sched) (hp : HProc H) (u : PUnit H) (sender : Bytes)
    (rest : List (PUnit H × Bytes)) (hq : hp.queueOf (keyOf u) = (u, sender) :: rest)
    (bc : List (PUnit H)) (bu : Option Bytes) (e : Bool)
    (hout : (tprocStep b cfg pc f rs sg s hp.tp u sender).2 = .handled bc bu (some e)) :
    (consume b cfg pc f rs sg s hp (keyOf u)).2 = some (.handled bc bu (some e)) ∧
    (consume b cfg pc f rs sg s hp (keyOf u)).1.queueOf (keyOf u) = [] ∧
    (consume b cfg pc f rs sg s hp (keyOf u)).1.tp.core.findSub (keyOf u) = none := by
  have hs := tprocStep_sub_after b cfg pc f rs sg s hp.tp u sender bc bu (some e) hout
  rw [consume_cons b cfg pc f rs sg s hp (keyOf u) u sender rest hq, if_neg (by rw [hs]; simp)]
  refine ⟨by rw [hout], queueOf_dropQueue_self _ _, ?_⟩
  show (tprocStep b cfg pc f rs sg s hp.tp u sender).1.core.findSub (keyOf u) = none
  cases hf : (tprocStep b cfg pc f rs sg s hp.tp u sender).1.core.findSub (keyOf u) with
  | none => rfl
  | some st => rw [hf] at hs; simp at hs


/-! ### a burst: the units of one message handed over back to back, then processed -/

/-- LIVENESS THROUGH THE HAND-OVER (the code in /repo, 5e563fa included). A message the processor has not
seen, a free slot for its publisher: `k` distinct honest units in any order, followed by any further units
of the same message key (honest, duplicates, forged) — at most `NumTotalShards` in all — are offered BACK TO
BACK, before the subprocessor has dealt with a single one. Every `ProcessMessage` answers nil; the
subprocessor then stores the first `k-1`, the `k`-th builds exactly `msg`, and exactly one unit is
broadcast, the publisher's unit for the local index. -/
theorem burst_builds [DecidableEq H] (b : Bounds) (f : HashFns H) (rs : RS) (sg : SigScheme H)
    (id : Bytes) (nodes : List Bytes) (s : Sched) (hs : newScheduler id nodes = .ok s)
    (C P : Bytes) (hPm : P ∈ nodes) (hP : P ≠ id) (hkey : sg.hasKey P = true)
    (nonce : Nat) (msg : Bytes) (hl : RSLaws rs s.k s.c) (hin : PadInput msg s.k)
    (hok : rsNewOk s.k s.c = true) (hsmall : msg.length < 2 ^ 40)
    (hsig : SigOk f rs sg s C P nonce msg) (hp : HProc H) (hinv : ProcInv s hp.tp.core)
    (hfin : hp.tp.core.finalized.contains (hKey f rs s C P nonce msg) = false)
    (hnone : hp.tp.core.findSub (hKey f rs s C P nonce msg) = none)
    (hslot : hp.tp.ptasks P ≠ b.maxPerPublisher ∧ hp.tp.tasks ≠ b.maxWorkers)
    (idxs : List Nat) (hnd : idxs.Nodup) (hlt : ∀ i ∈ idxs, i < s.total) (hlen : idxs.length = s.k)
    (extra : List (PUnit H × Bytes)) (hextra : ∀ x ∈ extra, keyOf x.1 = hKey f rs s C P nonce msg)
    (hroom : s.k + extra.length ≤ s.total) :
    (offerAll HCfg.current b PCfg.current sg s hp
        (idxs.map (fun i => (honestUnit Cfg.current f rs sg C P nonce msg s.k s.c i, s.sender P i)) ++ extra)).2 =
      List.replicate (s.k + extra.length) .taken ∧
    ∃ li, s.shardIndexFor P = .ok li ∧ li < s.total ∧ ∃ pre bc e,
      (consumeN b Cfg.current PCfg.current f rs sg s (hKey f rs s C P nonce msg) s.k
        (offerAll HCfg.current b PCfg.current sg s hp
          (idxs.map (fun i => (honestUnit Cfg.current f rs sg C P nonce msg s.k s.c i, s.sender P i)) ++ extra)).1).2 =
        pre ++ [.handled bc (some msg) e] ∧
      (∀ o ∈ pre, ∃ bb, o = .handled bb none none) ∧
      (pre ++ [.handled bc (some msg) e]).flatMap ProcOut.bcast =
        [honestUnit Cfg.current f rs sg C P nonce msg s.k s.c li] := by
  obtain ⟨li, h1, h2, pre, bc, e, h3, h4, h5⟩ :=
    builds_after_rejected_units b f rs sg id nodes s hs C P hPm hP hkey nonce msg hl hin hok hsmall hsig hp.tp hinv
      hfin hnone hslot [] trivial idxs hnd hlt hlen
  simp only [tprocRunState] at h3
  cases idxs with
  | nil => simp [tprocRun] at h3
  | cons i0 irest =>
    simp only [List.map_cons, List.cons_append]
    simp only [List.map_cons, tprocRun] at h3
    simp only [List.length_cons] at hlen
    -- the first unit creates the subprocessor
    have hk0 : keyOf (honestUnit Cfg.current f rs sg C P nonce msg s.k s.c i0) = hKey f rs s C P nonce msg := rfl
    have href : refusalOf b PCfg.current sg s hp.tp (honestUnit Cfg.current f rs sg C P nonce msg s.k s.c i0) = none := by
      unfold refusalOf
      rw [hk0, if_neg (Bool.eq_false_iff.mp hfin), if_neg (by rw [hnone]; simp)]
      show (match s.shardIndexFor P with
        | .error .selfPublished => some Refusal.selfPublished
        | .error _ => some Refusal.publisherUnknown
        | .ok _ => if (PCfg.current.keyGuard && !sg.hasKey P) = true then some Refusal.noKey
            else if hp.tp.ptasks P = b.maxPerPublisher then some Refusal.publisherTasks
            else if hp.tp.tasks = b.maxWorkers then some Refusal.maxTasks else none) = none
      rw [h1]
      simp [hkey, hslot.1, hslot.2]
    have hoff0 := offer_new_key HCfg.current b PCfg.current sg s hp
      (honestUnit Cfg.current f rs sg C P nonce msg s.k s.c i0) (s.sender P i0) hfin hnone href hkey
    rw [hk0] at hoff0
    -- the others find room
    have hq1 : (HProc.setQueue ⟨register hp.tp s (hKey f rs s C P nonce msg), hp.queues⟩ (hKey f rs s C P nonce msg)
        [(honestUnit Cfg.current f rs sg C P nonce msg s.k s.c i0, s.sender P i0)]).queueOf (hKey f rs s C P nonce msg) =
        [(honestUnit Cfg.current f rs sg C P nonce msg s.k s.c i0, s.sender P i0)] := by
      rw [queueOf_setQueue]; simp
    obtain ⟨a1, a2, a3⟩ := offerAll_existing b PCfg.current sg s (hKey f rs s C P nonce msg)
      (irest.map (fun i => (honestUnit Cfg.current f rs sg C P nonce msg s.k s.c i, s.sender P i)) ++ extra)
      (HProc.setQueue ⟨register hp.tp s (hKey f rs s C P nonce msg), hp.queues⟩ (hKey f rs s C P nonce msg)
        [(honestUnit Cfg.current f rs sg C P nonce msg s.k s.c i0, s.sender P i0)])
      (by show (register hp.tp s (hKey f rs s C P nonce msg)).core.finalized.contains _ = false
          unfold register Proc.setSub; exact hfin)
      (by show ((register hp.tp s (hKey f rs s C P nonce msg)).core.findSub _).isSome = true
          unfold register; simp [findSub_setSub])
      (by intro x hx
          rcases List.mem_append.mp hx with hx | hx
          · simp only [List.mem_map] at hx
            obtain ⟨i, _, hi⟩ := hx
            rw [← hi]; rfl
          · exact hextra x hx)
      (by rw [hq1]; simp only [List.length_cons, List.length_nil, List.length_append, List.length_map]; omega)
    simp only [offerAll]
    rw [hoff0]
    refine ⟨?_, li, h1, h2, pre, bc, e, ?_, h4, h5⟩
    · show OfferRes.taken :: _ = _
      rw [a1]
      simp only [List.length_append, List.length_map]
      rw [← hlen, show irest.length + 1 + extra.length = (irest.length + extra.length) + 1 by omega]
      rfl
    · -- the subprocessor's first step on the registered processor is the sequential step
      have hnp : (tprocStep b Cfg.current PCfg.current f rs sg s hp.tp
          (honestUnit Cfg.current f rs sg C P nonce msg s.k s.c i0) (s.sender P i0)).2 ≠ .panic := by
        cases pre with
        | nil =>
          simp only [List.nil_append] at h3
          have : (tprocStep b Cfg.current PCfg.current f rs sg s hp.tp
            (honestUnit Cfg.current f rs sg C P nonce msg s.k s.c i0) (s.sender P i0)).2 = .handled bc (some msg) e := by
            injection h3
          rw [this]; simp
        | cons o pre' =>
          simp only [List.cons_append] at h3
          have : (tprocStep b Cfg.current PCfg.current f rs sg s hp.tp
            (honestUnit Cfg.current f rs sg C P nonce msg s.k s.c i0) (s.sender P i0)).2 = o := by
            injection h3
          obtain ⟨bb, hbb⟩ := h4 o (by simp)
          rw [this, hbb]; simp
      obtain ⟨g1, g2⟩ := tprocStep_register b Cfg.current PCfg.current f rs sg s hp.tp
        (honestUnit Cfg.current f rs sg C P nonce msg s.k s.c i0) (s.sender P i0) hfin hnone href hkey
      obtain ⟨c1, c2, c3⟩ := g2 hnp
      rw [hk0] at g1 c1 c2 c3
      have hst := tproc_ext _ _ c1 c2 c3
      have hrun : tprocRun b Cfg.current PCfg.current f rs sg s
          (offerAll HCfg.current b PCfg.current sg s
            (HProc.setQueue ⟨register hp.tp s (hKey f rs s C P nonce msg), hp.queues⟩ (hKey f rs s C P nonce msg)
              [(honestUnit Cfg.current f rs sg C P nonce msg s.k s.c i0, s.sender P i0)])
            (irest.map (fun i => (honestUnit Cfg.current f rs sg C P nonce msg s.k s.c i, s.sender P i)) ++ extra)).1.tp
          ((honestUnit Cfg.current f rs sg C P nonce msg s.k s.c i0, s.sender P i0) ::
            irest.map (fun i => (honestUnit Cfg.current f rs sg C P nonce msg s.k s.c i, s.sender P i))) =
          pre ++ [.handled bc (some msg) e] := by
        rw [a2]
        show tprocRun b Cfg.current PCfg.current f rs sg s (register hp.tp s (hKey f rs s C P nonce msg)) _ = _
        simp only [tprocRun]
        rw [g1, hst]
        exact h3
      have := consumeN_eq_tprocRun b Cfg.current PCfg.current f rs sg s (hKey f rs s C P nonce msg) extra
        ((honestUnit Cfg.current f rs sg C P nonce msg s.k s.c i0, s.sender P i0) ::
          irest.map (fun i => (honestUnit Cfg.current f rs sg C P nonce msg s.k s.c i, s.sender P i)))
        _ pre (.handled bc (some msg) e)
        (by rw [a3, hq1]; simp)
        (by intro x hx
            rcases List.mem_cons.mp hx with hx | hx
            · rw [hx]; rfl
            · simp only [List.mem_map] at hx
              obtain ⟨i, _, hi⟩ := hx
              rw [← hi]; rfl)
        hrun h4
      simp only [List.length_cons, List.length_map] at this
      rw [hlen] at this
      exact this


/-! ### one unit at a time: the hand-over model IS the sequential model -/

theorem tprocStep_finalized [DecidableEq H] (b : Bounds) (cfg : Cfg) (pc : PCfg) (f : HashFns H) (rs : RS)
    (sg : SigScheme H) (s : Sched) (tp : TProc H) (u : PUnit H) (sender : Bytes)
    (hfin : tp.core.finalized.contains (keyOf u) = true) :
    tprocStep b cfg pc f rs sg s tp u sender = (tp, .ignored) := by
  have hw : ¬ wouldCreate pc sg s tp.core u = true := by unfold wouldCreate; rw [hfin]; simp
  have hk : keylessNew sg s tp.core u = false := by unfold keylessNew; rw [hfin]; simp
  unfold tprocStep
  rw [if_neg hw, procStep_keyed cfg pc f rs sg s _ u sender hk]
  unfold procStepCore
  rw [if_pos hfin]

/-- Every hand-over followed at once by the subprocessor dealing with the unit (nothing waits for the
unit's key) is one step of the sequential model of §9–§11: `ignored` ↔ ignored, a refusal ↔ `noRoute`
with nothing changed, never "channel full", never a panic of the hand-over, and a taken unit's `consume`
has the sequential step's outcome and leaves the sequential step's processor. The current code
(`PCfg.current`), either channel variant. -/
theorem offer_then_consume [DecidableEq H] (hc : HCfg) (b : Bounds) (cfg : Cfg) (f : HashFns H) (rs : RS)
    (sg : SigScheme H) (s : Sched) (hp : HProc H) (u : PUnit H) (sender : Bytes)
    (hq : hp.queueOf (keyOf u) = []) (htotal : 0 < s.total) :
    ((offer hc b PCfg.current sg s hp u sender).2 = .ignored →
      tprocStep b cfg PCfg.current f rs sg s hp.tp u sender = (hp.tp, .ignored)) ∧
    (∀ x, (offer hc b PCfg.current sg s hp u sender).2 = .refused x →
      tprocStep b cfg PCfg.current f rs sg s hp.tp u sender = (hp.tp, .noRoute)) ∧
    (offer hc b PCfg.current sg s hp u sender).2 ≠ .full ∧
    (offer hc b PCfg.current sg s hp u sender).2 ≠ .panic ∧
    ((offer hc b PCfg.current sg s hp u sender).2 = .taken →
      (consume b cfg PCfg.current f rs sg s (offer hc b PCfg.current sg s hp u sender).1 (keyOf u)).2 =
        some (tprocStep b cfg PCfg.current f rs sg s hp.tp u sender).2 ∧
      ((tprocStep b cfg PCfg.current f rs sg s hp.tp u sender).2 ≠ .panic →
        (consume b cfg PCfg.current f rs sg s (offer hc b PCfg.current sg s hp u sender).1 (keyOf u)).1.tp =
          (tprocStep b cfg PCfg.current f rs sg s hp.tp u sender).1)) := by
  by_cases hfin : hp.tp.core.finalized.contains (keyOf u) = true
  · -- finalized: ignored
    have ho : offer hc b PCfg.current sg s hp u sender = (hp, .ignored) := by unfold offer; rw [if_pos hfin]
    rw [ho]
    refine ⟨fun _ => tprocStep_finalized b cfg PCfg.current f rs sg s hp.tp u sender hfin, ?_, ?_, ?_, ?_⟩
    · intro x h; cases h
    · intro h; cases h
    · intro h; cases h
    · intro h; cases h
  · have hfin' : hp.tp.core.finalized.contains (keyOf u) = false := by simpa using hfin
    by_cases hsome : (hp.tp.core.findSub (keyOf u)).isSome = true
    · -- a subprocessor exists and nothing waits: room in either variant
      have hroom : hasRoom (chanCap hc s) (hp.queueOf (keyOf u)) = true := by
        rw [hq]; unfold hasRoom chanCap
        cases hc.buffered
        · simp
        · simp only [if_true]
          have h0 : ¬ s.total = 0 := by omega
          simp [h0, htotal]
      have ho := offer_existing hc b PCfg.current sg s hp u sender hfin' hsome
      rw [if_pos hroom, hq] at ho
      rw [ho]
      refine ⟨?_, ?_, ?_, ?_, fun _ => ?_⟩
      · intro h; cases h
      · intro x h; cases h
      · intro h; cases h
      · intro h; cases h
      · have hcq : (hp.setQueue (keyOf u) ([] ++ [(u, sender)])).queueOf (keyOf u) = (u, sender) :: [] := by
          rw [queueOf_setQueue]; simp
        rw [consume_cons b cfg PCfg.current f rs sg s _ (keyOf u) u sender [] hcq]
        simp only [setQueue_tp]
        by_cases hs : ((tprocStep b cfg PCfg.current f rs sg s hp.tp u sender).1.core.findSub (keyOf u)).isSome = true
        · simp only [hs, ↓reduceIte]; exact ⟨by first | rfl | trivial, fun _ => by first | rfl | trivial⟩
        · simp only [hs]; exact ⟨by first | rfl | trivial, fun _ => by first | rfl | trivial⟩
    · have hnone : hp.tp.core.findSub (keyOf u) = none := by
        cases hh : hp.tp.core.findSub (keyOf u) with
        | none => rfl
        | some st => rw [hh] at hsome; simp at hsome
      cases href : refusalOf b PCfg.current sg s hp.tp u with
      | some r =>
        have ho : offer hc b PCfg.current sg s hp u sender = (hp, .refused r) := by
          unfold offer; rw [if_neg hfin, if_neg hsome, href]
        rw [ho]
        refine ⟨?_, ?_, ?_, ?_, ?_⟩
        · intro h; cases h
        · intro x _
          exact refusal_some_is_noroute b cfg PCfg.current rfl f rs sg s hp.tp u sender r href
        · intro h; cases h
        · intro h; cases h
        · intro h; cases h
      | none =>
        obtain ⟨_, hkg, _, _⟩ := refusal_none_new b PCfg.current sg s hp.tp u hfin' hnone href
        have hkey : sg.hasKey (keyOf u).publisher = true := by
          cases hh : sg.hasKey (keyOf u).publisher with
          | true => rfl
          | false => rw [hh] at hkg; simp [PCfg.current] at hkg
        have ho := offer_new_key hc b PCfg.current sg s hp u sender hfin' hnone href hkey
        rw [ho]
        refine ⟨?_, ?_, ?_, ?_, fun _ => ?_⟩
        · intro h; cases h
        · intro x h; cases h
        · intro h; cases h
        · intro h; cases h
        · have hcq : (HProc.setQueue ⟨register hp.tp s (keyOf u), hp.queues⟩ (keyOf u) [(u, sender)]).queueOf (keyOf u) =
              (u, sender) :: [] := by
            rw [queueOf_setQueue]; simp
          obtain ⟨g1, g2⟩ := tprocStep_register b cfg PCfg.current f rs sg s hp.tp u sender hfin' hnone href hkey
          rw [consume_cons b cfg PCfg.current f rs sg s _ (keyOf u) u sender [] hcq]
          simp only [setQueue_tp]
          by_cases hs : ((tprocStep b cfg PCfg.current f rs sg s (register hp.tp s (keyOf u)) u sender).1.core.findSub (keyOf u)).isSome = true
          · simp only [hs, ↓reduceIte]
            refine ⟨by show some _ = some _; rw [g1], fun hnp => ?_⟩
            obtain ⟨c1, c2, c3⟩ := g2 hnp
            exact tproc_ext _ _ c1 c2 c3
          · simp only [hs, ↓reduceIte]
            refine ⟨by show some _ = some _; rw [g1], fun hnp => ?_⟩
            obtain ⟨c1, c2, c3⟩ := g2 hnp
            exact tproc_ext _ _ c1 c2 c3


end Juno.C19
