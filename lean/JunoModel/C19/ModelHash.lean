import JunoModel.C19.Model
/-
C19 — model, part 4: the BYTE STRINGS that are hashed and signed.

  consensus/propeller/merkle/merkle.go   merkleLeafHash, merkleNodeHash (the buffer each of them
                                         assembles before `sha256.Sum256`)
  consensus/propeller/signing.go         buildSignPayload (the 95-byte array that is signed)

The rest of the model treats the two tagged hashes as parameters (`HashFns`) and the signed payload
as a triple (`Payload`). Here the code that ASSEMBLES the hashed / signed bytes is transcribed the
way Go executes it: a buffer of a computed size, filled by `copy` calls — and `copy` silently
truncates when the destination is too short. That a buffer is exactly as long as what is copied into
it, for every input length, is therefore a theorem (`ProofsHash.lean`), not a definition; a buffer
that is too short for some lengths (a fixed scratch array whose bound forgets the tags) would keep
every honest round trip self-consistent and break the injectivity the Merkle theorems assume.

Core Lean only (linked into the driver: requests `leafpre`, `nodepre`, `sigpayload`).
-/
namespace Juno.C19

/-! ## Go's `copy` on a byte buffer -/

/-- `copy(buf[n:], src)`: the buffer afterwards and the number of bytes copied,
`min(len(buf) - n, len(src))`. (`n ≤ len(buf)` at every call site; for `n > len(buf)` Go panics on
the slice expression — the model leaves the buffer as it is, and `ProofsHash` shows `n ≤ len(buf)`
at every call.) -/
def copyAt (buf : Bytes) (n : Nat) (src : Bytes) : Bytes × Nat :=
  let c := min (buf.length - n) src.length
  (buf.take n ++ src.take c ++ buf.drop (n + c), c)

/-- `copy(buf[lo:hi], src)`: at most `hi - lo` bytes are written, none beyond the buffer (for
`hi > len(buf)` Go panics on the slice expression; the bounds of `buildSignPayload` are constants
within its 95-byte array, `ProofsHash.signPayloadGo_eq` shows every sub-slice is exactly filled). -/
def copyRange (buf : Bytes) (lo hi : Nat) (src : Bytes) : Bytes :=
  let c := min (min hi buf.length - lo) src.length
  buf.take lo ++ src.take c ++ buf.drop (lo + c)

/-! ## merkle.go: the domain-separation tags -/

/-- `"<leaf>"` -/
def leafOpen : Bytes := [60, 108, 101, 97, 102, 62]
/-- `"</leaf>"` -/
def leafClose : Bytes := [60, 47, 108, 101, 97, 102, 62]
/-- `"<node><left>"` -/
def nodeOpen : Bytes := [60, 110, 111, 100, 101, 62, 60, 108, 101, 102, 116, 62]
/-- `"</left><right>"` -/
def nodeMid : Bytes := [60, 47, 108, 101, 102, 116, 62, 60, 114, 105, 103, 104, 116, 62]
/-- `"</right></node>"` -/
def nodeClose : Bytes := [60, 47, 114, 105, 103, 104, 116, 62, 60, 47, 110, 111, 100, 101, 62]

/-- The bytes `merkleLeafHash(data)` hands to SHA-256:
```
buf := make([]byte, len(leafOpenTag)+len(data)+len(leafCloseTag))
n := copy(buf, leafOpen); n += copy(buf[n:], data); copy(buf[n:], leafClose)
``` -/
def leafPreimageGo (data : Bytes) : Bytes :=
  let buf0 : Bytes := List.replicate (leafOpen.length + data.length + leafClose.length) 0
  let s1 := copyAt buf0 0 leafOpen            -- n := copy(buf, leafOpen)
  let s2 := copyAt s1.1 s1.2 data             -- n += copy(buf[n:], data)
  (copyAt s2.1 (s1.2 + s2.2) leafClose).1     -- copy(buf[n:], leafClose)

/-- The bytes `merkleNodeHash(left, right)` hands to SHA-256 (`left`, `right` are `*[32]byte`):
```
const size = len(nodeOpenTag) + 32 + len(nodeMidTag) + 32 + len(nodeCloseTag)
var buf [size]byte
n := copy(buf[:], nodeOpen); n += copy(buf[n:], left[:]); n += copy(buf[n:], nodeMid)
n += copy(buf[n:], right[:]); copy(buf[n:], nodeClose)
``` -/
def nodePreimageGo (left right : Bytes) : Bytes :=
  let buf0 : Bytes := List.replicate (nodeOpen.length + 32 + nodeMid.length + 32 + nodeClose.length) 0
  let s1 := copyAt buf0 0 nodeOpen
  let s2 := copyAt s1.1 s1.2 left
  let s3 := copyAt s2.1 (s1.2 + s2.2) nodeMid
  let s4 := copyAt s3.1 (s1.2 + s2.2 + s3.2) right
  (copyAt s4.1 (s1.2 + s2.2 + s3.2 + s4.2) nodeClose).1

/-! ## signing.go: buildSignPayload -/

/-- `"<propeller>"` -/
def sigPrefix : Bytes := [60, 112, 114, 111, 112, 101, 108, 108, 101, 114, 62]
/-- `"<propeller/>"` -/
def sigSuffix : Bytes := [60, 112, 114, 111, 112, 101, 108, 108, 101, 114, 47, 62]

/-- `binary.BigEndian.PutUint64(b, v)`: `b[0] = byte(v >> 56)`, …, `b[7] = byte(v)` — the eight bytes,
most significant first (`v >> s` is `v / 2^s`, `byte(·)` is `· mod 256`; `v = uint64(nonce) < 2^64`). -/
def be64 (v : Nat) : Bytes :=
  [UInt8.ofNat (v / 2 ^ 56 % 256), UInt8.ofNat (v / 2 ^ 48 % 256), UInt8.ofNat (v / 2 ^ 40 % 256),
   UInt8.ofNat (v / 2 ^ 32 % 256), UInt8.ofNat (v / 2 ^ 24 % 256), UInt8.ofNat (v / 2 ^ 16 % 256),
   UInt8.ofNat (v / 2 ^ 8 % 256), UInt8.ofNat (v % 256)]

/-- `payloadLen = 95`. -/
def payloadLen : Nat := 95

/-- `buildSignPayload(root, committeeID, nonce)`: a `[95]byte` filled through five sub-slices whose
bounds are the cumulative lengths 11, 43, 75, 83, 95 (`root`, `committeeID` are 32-byte arrays,
`nonce` is converted with `uint64(nonce)`):
```
copy(payload[0:11], prefix); copy(payload[11:43], root[:]); copy(payload[43:75], committeeID[:])
binary.BigEndian.PutUint64(payload[75:83], uint64(nonce)); copy(payload[83:95], suffix)
``` -/
def signPayloadGo (root committee : Bytes) (nonce : Nat) : Bytes :=
  let prefixLen := sigPrefix.length
  let rootLen := prefixLen + 32
  let committeeLen := rootLen + 32
  let nonceLen := committeeLen + 8
  let suffixLen := nonceLen + sigSuffix.length
  let p0 : Bytes := List.replicate payloadLen 0
  let p1 := copyRange p0 0 prefixLen sigPrefix
  let p2 := copyRange p1 prefixLen rootLen root
  let p3 := copyRange p2 rootLen committeeLen committee
  let p4 := copyRange p3 committeeLen nonceLen (be64 nonce)
  copyRange p4 nonceLen suffixLen sigSuffix

/-! ## processor.go: broadcastUnit's list of peers; scheduler.go: BroadcastTargets -/

/-- The peer list `broadcastUnit` builds before shuffling it:
```
peers := make([]peer.ID, len(Peers())-2)
for _, pc := range Peers() { if pc.ID == unit.Publisher || pc.ID == localPeer { continue }; peers[index] = pc.ID; index++ }
```
`none` = the index-out-of-range panic the code's own `todo` mentions (more than `N-2` members are
neither the publisher nor the local peer) or a negative `make` length (fewer than 2 peers). -/
def broadcastPeersGo (peers : List Bytes) (localId publisher : Bytes) : Option (List Bytes) :=
  if peers.length < 2 then none
  else
    let others := peers.filter (fun q => !(q == publisher || q == localId))
    if others.length > peers.length - 2 then none
    else some (others ++ List.replicate (peers.length - 2 - others.length) [])

/-- `Scheduler.BroadcastTargets()`: every peer except the one at `localPeerIDIndex`, in order
(`for i, p := range peers { if i == localPeerIDIndex { continue }; targets = append(targets, p.ID) }`). -/
def broadcastTargetsGo (peers : List Bytes) (localIdx : Nat) : List Bytes :=
  peers.eraseIdx localIdx

end Juno.C19
