import JunoModel.C14.ProofsImg
/-! C14 — the system invariant and its preservation by every operation, failure and crash. -/
namespace Juno.C14
open AMap

/-- What must hold of a running, open store `s` over the directory `d`, for the acknowledged
history `A` and the calls `C` made since. -/
structure SInv (s : Store) (d : Disk) (A C : List Rec) : Prop where
  ewf : s.idx.EWF
  rwf : s.idx.RWF
  /-- (while the writer is not blocked: a blocked store never runs the cleanup, and its directory may
  hold a batch that was never indexed) -/
  cov : s.repairRequired = false → Covers s.idx (pairsOf d.files)
  pruned : s.idx.pruned = maxPrune A
  view : ∀ h, maxPrune A < h → s.idx.view h = entriesOf h A
  pend : Equiv (maxPrune A) s.pending C
  wr : ∀ n, s.writer = some n → ∃ pre F, d.files = pre ++ [F] ∧ F.num = n
  wrz : s.writer ≠ none → d.zombies = []
  wrr : s.writer ≠ none → s.repairRequired = false
  next : ∀ F ∈ d.files, F.num < s.nextWAL
  /-- `nextBatchSeqNum` is above every sequence number on disk (and positive) -/
  seqNext : s.repairRequired = false → 0 < s.nextSeq ∧ ∀ F ∈ d.files, ∀ q ∈ F.seqs, q < s.nextSeq
  nogarb : s.repairRequired = false → ∀ F ∈ d.files, F.garbage = false

structure Inv (sys : Sys) : Prop where
  /-- the directory holds the acknowledged history — and the batch in limbo, if there is one -/
  d : DInv sys.disk (sys.acked ++ sys.limbo)
  s : sys.alive = true → sys.st.closed = false → SInv sys.st sys.disk sys.acked sys.calls
  rem : ∀ F ∈ sys.removed, Low (maxPrune sys.acked) (recsOfFile F)
  /-- while a batch is in limbo the writer is blocked and has something to write: every flush
  returns "not committed" without touching the directory -/
  lim : sys.limbo ≠ [] → sys.alive = true → sys.st.closed = false →
    sys.st.repairRequired = true ∧ sys.st.pending ≠ []

/-! #### small facts about directories -/

theorem numsAsc_of_map_eq {a b : List LogFile} (h : a.map (·.num) = b.map (·.num)) (ha : numsAsc a) : numsAsc b := by
  unfold numsAsc at *; rw [← h]; exact ha

theorem garbageOnlyLast_snoc (pre : List LogFile) (F : LogFile) (h : ∀ G ∈ pre, G.garbage = false) :
    GarbageOnlyLast (pre ++ [F]) := by
  intro f hf
  rw [List.dropLast_concat] at hf
  exact h f hf

theorem DInv.wm_le {d : Disk} {A : List Rec} (i : DInv d A) : d.wmVal ≤ maxPrune A := i.pres.le_wm

/-- a torn write (or a torn EOF trailer) at the end of the log being written -/
theorem DInv.torn {d : Disk} {A : List Rec} (i : DInv d A) (pre : List LogFile) (F : LogFile)
    (hf : d.files = pre ++ [F]) (hc : ∀ G ∈ pre, G.garbage = false) (hz : d.zombies = []) :
    DInv (d.setGarbage F.num true) A := by
  have hasc := i.asc
  rw [hf] at hasc
  have hlt := (numsAsc_append_last hasc).2
  have hfiles : (d.setGarbage F.num true).files = pre ++ [{ F with garbage := true }] := by
    unfold Disk.setGarbage
    simp only [hf]
    exact map_upd_last pre F (fun f => { f with garbage := true }) hlt
  have hrec : recsOf (d.setGarbage F.num true).files = recsOf d.files := by
    rw [hfiles, hf, recsOf_snoc, recsOf_snoc]; rfl
  have hseq : ∀ f ∈ (d.setGarbage F.num true).files, SeqOK f := by
    intro f hfm
    rw [hfiles] at hfm
    rcases List.mem_append.mp hfm with h | h
    · exact i.seq f (by rw [hf]; exact List.mem_append_left _ h)
    · simp only [List.mem_singleton] at h
      subst h
      have hF := i.seq F (by rw [hf]; simp)
      exact ⟨hF.len, hF.inc, hF.pos, hF.nonempty⟩
  refine ⟨?_, ?_, ?_, ?_, ?_, ?_, ?_, i.zlowAlt, hseq, i.zseq⟩
  rotate_left 6
  · intro w hw; rw [hrec]; exact i.presAlt w hw
  · rw [hfiles]
    exact numsAsc_of_map_eq (by simp) hasc
  · rw [hfiles]; exact garbageOnlyLast_snoc pre _ hc
  · intro _; exact hz
  · intro z hzm
    have : (d.setGarbage F.num true).zombies = d.zombies := rfl
    rw [this, hz] at hzm; cases hzm
  · have hw : (d.setGarbage F.num true).wmVal = d.wmVal := rfl
    rw [hw, hfiles]
    have : recsOf (pre ++ [{ F with garbage := true }]) = recsOf d.files := by
      rw [hf, recsOf_snoc, recsOf_snoc]; rfl
    rw [this]; exact i.pres
  · exact i.zlow

/-- the batch `B` appended to the log being written -/
theorem DInv.full {d : Disk} {A B C : List Rec} (i : DInv d A) (pre : List LogFile) (F : LogFile) (q : Nat)
    (hf : d.files = pre ++ [F]) (hc : ∀ G ∈ pre ++ [F], G.garbage = false) (e : Equiv (maxPrune A) B C)
    (hB : B ≠ []) (hq0 : 0 < q) (hq : ∀ q' ∈ F.seqs, q' < q) :
    DInv (d.appendBatch F.num B q) (A ++ C) ∧
      (d.appendBatch F.num B q).files = pre ++ [{ F with batches := F.batches ++ [B], seqs := F.seqs ++ [q] }] := by
  have hasc := i.asc
  rw [hf] at hasc
  have hlt := (numsAsc_append_last hasc).2
  have hfiles : (d.appendBatch F.num B q).files = pre ++ [{ F with batches := F.batches ++ [B], seqs := F.seqs ++ [q] }] := by
    unfold Disk.appendBatch
    simp only [hf]
    exact map_upd_last pre F (fun f => { f with batches := f.batches ++ [B], seqs := f.seqs ++ [q] }) hlt
  have hrec : recsOf (d.appendBatch F.num B q).files = recsOf d.files ++ B := by
    rw [hfiles, hf, recsOf_snoc, recsOf_snoc]
    simp [recsOfFile, List.append_assoc]
  have hseq : ∀ f ∈ (d.appendBatch F.num B q).files, SeqOK f := by
    intro f hfm
    rw [hfiles] at hfm
    rcases List.mem_append.mp hfm with h | h
    · exact i.seq f (by rw [hf]; exact List.mem_append_left _ h)
    · simp only [List.mem_singleton] at h
      subst h
      have hF := i.seq F (by rw [hf]; simp)
      refine ⟨by simp [hF.len], ?_, ?_, ?_⟩
      · simp only
        rw [List.pairwise_append]
        refine ⟨hF.inc, by simp, ?_⟩
        intro a ha b hb
        simp only [List.mem_singleton] at hb
        subst hb
        exact hq a ha
      · intro q' hq'
        simp only [List.mem_append, List.mem_singleton] at hq'
        rcases hq' with h1 | rfl
        · exact hF.pos q' h1
        · exact hq0
      · intro b hb
        simp only [List.mem_append, List.mem_singleton] at hb
        rcases hb with h1 | rfl
        · exact hF.nonempty b h1
        · exact hB
  refine ⟨⟨?_, ?_, ?_, ?_, ?_, ?_, ?_, i.zlowAlt, hseq, i.zseq⟩, hfiles⟩
  rotate_left 6
  · intro w hw; rw [hrec]; exact (i.presAlt w hw).append e
  · rw [hfiles]
    exact numsAsc_of_map_eq (by simp) hasc
  · rw [hfiles]; exact garbageOnlyLast_snoc pre _ (fun G hG => hc G (List.mem_append_left _ hG))
  · intro ⟨f, hfm, hg⟩
    exfalso
    rw [hfiles] at hfm
    rcases List.mem_append.mp hfm with h | h
    · have := hc f (List.mem_append_left _ h); simp [this] at hg
    · simp only [List.mem_singleton] at h
      subst h
      have := hc F (by simp)
      simp [this] at hg
  · exact i.zclean
  · have hw : (d.appendBatch F.num B q).wmVal = d.wmVal := rfl
    rw [hw, hrec]; exact i.pres.append e
  · exact i.zlow

/-- the watermark file replaced (or about to be) by a value between the old one and the highest
acknowledged prune; no pending unlinks; `alt`: what a crash may bring back -/
theorem DInv.setWm {d : Disk} {A : List Rec} (i : DInv d A) (w : Nat) (t : Bool) (alt : List (Option Nat))
    (h1 : d.wmVal ≤ w) (h2 : w ≤ maxPrune A) (hz : d.zombies = [])
    (halt : ∀ w' ∈ alt, Presents (w'.getD 0) (recsOf d.files) A) :
    DInv { d with wm := some w, tmp := t, wmAlt := alt } A := by
  refine ⟨i.asc, i.garb, fun _ => hz, ?_, ?_, ?_, halt, ?_, i.seq, i.zseq⟩
  · intro z hzm; simp only [hz] at hzm; cases hzm
  · exact i.pres.raise h1 h2
  · simp only [hz]; simp [recsOf, Low]
  · intro w' _; simp only [hz]; simp [recsOf, Low]

theorem DInv.setTmp {d : Disk} {A : List Rec} (i : DInv d A) (t : Bool) : DInv { d with tmp := t } A :=
  ⟨i.asc, i.garb, i.zgarb, i.zclean, i.pres, i.zlow, i.presAlt, i.zlowAlt, i.seq, i.zseq⟩

/-- a directory sync: pending unlinks and an undurable rename become durable -/
theorem DInv.synced {d : Disk} {A : List Rec} (i : DInv d A) : DInv { d with zombies := [], wmAlt := [] } A :=
  ⟨i.asc, i.garb, fun _ => rfl, by simp, i.pres, by simp [recsOf, Low], by simp, by simp, i.seq, by simp⟩

/-- `Presents` survives dropping any logs whose records are all at or below the highest
acknowledged prune, once the watermark is that prune. -/
theorem Presents.filter {w : Nat} {fs : List LogFile} {A : List Rec} (keep : LogFile → Bool)
    (p : Presents w (recsOf fs) A) (hl : ∀ G ∈ fs, keep G = false → Low (maxPrune A) (recsOfFile G)) :
    Presents (maxPrune A) (recsOf (fs.filter keep)) A := by
  have key : maxPrune (recsOf (fs.filter keep)) ≤ maxPrune (recsOf fs) ∧
      ∀ h, maxPrune A < h → entriesOf h (recsOf (fs.filter keep)) = entriesOf h (recsOf fs) := by
    clear p
    induction fs with
    | nil => exact ⟨Nat.le_refl _, fun _ _ => rfl⟩
    | cons F fs ih =>
      obtain ⟨i1, i2⟩ := ih (fun G hG => hl G (List.mem_cons_of_mem _ hG))
      by_cases hk : keep F = true
      · simp only [List.filter_cons, hk, ↓reduceIte, recsOf_cons, maxPrune_append]
        refine ⟨by omega, ?_⟩
        intro h hh
        rw [entriesOf_append, entriesOf_append, i2 h hh]
      · have hk' : keep F = false := by simpa using hk
        have low := hl F List.mem_cons_self hk'
        simp only [List.filter_cons, hk', Bool.false_eq_true, ↓reduceIte, recsOf_cons, maxPrune_append]
        refine ⟨by omega, ?_⟩
        intro h hh
        rw [entriesOf_append, low.entriesOf_nil h hh, i2 h hh]
        simp
  have hw := p.wm
  refine ⟨by omega, ?_⟩
  intro h hh
  rw [key.2 h hh]
  exact p.ents h hh

/-- `cleanupObsoleteWALs`: some logs, all holding only records at or below the watermark, are
unlinked -/
theorem DInv.gc {d : Disk} {A : List Rec} (i : DInv d A) (dead : LogFile → Bool) (hw : d.wmVal = maxPrune A)
    (ha : d.wmAlt = []) (hc : ∀ G ∈ d.files, G.garbage = false)
    (hl : ∀ G ∈ d.files, dead G = true → Low (maxPrune A) (recsOfFile G)) :
    DInv { d with files := d.files.filter (fun f => !dead f),
                  zombies := d.files.filter (fun f => dead f) } A := by
  have hlow : Low (maxPrune A) (recsOf (d.files.filter (fun f => dead f))) := by
    intro r hr
    unfold recsOf at hr
    obtain ⟨G, hG, hr'⟩ := List.mem_flatMap.mp hr
    have hm := List.mem_filter.mp hG
    exact hl G hm.1 hm.2 r hr'
  refine ⟨?_, ?_, ?_, ?_, ?_, ?_, ?_, ?_, fun f hf => i.seq f (List.mem_filter.mp hf).1,
    fun f hf => i.seq f (List.mem_filter.mp hf).1⟩
  · have := i.asc
    unfold numsAsc at *
    exact this.sublist (List.Sublist.map _ List.filter_sublist)
  · exact garbageOnlyLast_of_clean _ (fun f hf => hc f (List.mem_filter.mp hf).1)
  · intro ⟨f, hfm, hg⟩
    have := hc f (List.mem_filter.mp hfm).1
    simp [this] at hg
  · intro z hz; exact hc z (List.mem_filter.mp hz).1
  · show Presents d.wmVal (recsOf (d.files.filter (fun f => !dead f))) A
    rw [hw]
    exact i.pres.filter (fun f => !dead f) (fun G hG hk => hl G hG (by simpa using hk))
  · show Low d.wmVal _
    rw [hw]; exact hlow
  · intro w hw'; simp [ha] at hw'
  · intro w hw'; simp [ha] at hw'

theorem nextNum_gt (fs : List LogFile) : ∀ F ∈ fs, F.num < nextNum fs := by
  unfold nextNum
  have key : ∀ (fs : List LogFile) (m : Nat), m ≤ fs.foldl (fun m f => max m (f.num + 1)) m ∧
      ∀ F ∈ fs, F.num < fs.foldl (fun m f => max m (f.num + 1)) m := by
    intro fs
    induction fs with
    | nil => intro m; simp
    | cons G fs ih =>
      intro m
      simp only [List.foldl_cons]
      obtain ⟨h1, h2⟩ := ih (max m (G.num + 1))
      refine ⟨by omega, ?_⟩
      intro F hF
      rcases List.mem_cons.mp hF with rfl | h
      · omega
      · exact h2 F h
  exact (key fs 1).2

theorem mem_clearLastGarbage (fs : List LogFile) (F : LogFile) (h : F ∈ clearLastGarbage fs) :
    ∃ G ∈ fs, G.num = F.num ∧ G.batches = F.batches := by
  induction fs with
  | nil => simp [clearLastGarbage] at h
  | cons f fs ih =>
    cases fs with
    | nil =>
      simp only [clearLastGarbage, List.mem_singleton] at h
      subst h
      exact ⟨f, by simp, rfl, rfl⟩
    | cons g gs =>
      simp only [clearLastGarbage] at h ih
      rcases List.mem_cons.mp h with rfl | h'
      · exact ⟨F, by simp, rfl, rfl⟩
      · obtain ⟨G, hG, e1, e2⟩ := ih h'
        exact ⟨G, List.mem_cons_of_mem _ hG, e1, e2⟩

theorem clearLastGarbage_nums (fs : List LogFile) : (clearLastGarbage fs).map (·.num) = fs.map (·.num) := by
  induction fs with
  | nil => rfl
  | cons f fs ih =>
    cases fs with
    | nil => simp [clearLastGarbage]
    | cons g gs => simp only [clearLastGarbage, List.map_cons] at ih ⊢; rw [ih]

theorem pairsOf_clearLastGarbage (fs : List LogFile) : pairsOf (clearLastGarbage fs) = pairsOf fs := by
  induction fs with
  | nil => rfl
  | cons f fs ih =>
    cases fs with
    | nil => simp [clearLastGarbage, pairsOf, recsOfFile]
    | cons g gs =>
      simp only [clearLastGarbage] at ih ⊢
      have : ∀ (a : LogFile) (l : List LogFile), pairsOf (a :: l) = (recsOfFile a).map (a.num, ·) ++ pairsOf l := by
        intro a l; simp [pairsOf]
      rw [this, this, ih]

theorem clearLastGarbage_all_clean (fs : List LogFile) (g : GarbageOnlyLast fs) :
    ∀ F ∈ clearLastGarbage fs, F.garbage = false := by
  have := clearLastGarbage_clean fs g
  intro F hF
  cases hg : F.garbage with
  | false => rfl
  | true =>
    have : (clearLastGarbage fs).any (·.garbage) = true := List.any_eq_true.mpr ⟨F, hF, hg⟩
    simp_all

end Juno.C14
