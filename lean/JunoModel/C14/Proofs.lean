import JunoModel.C14.Model
/-! C14 — helper lemmas: association-list maps, the closed form of index replay. -/
namespace Juno.C14

namespace AMap
variable {α : Type}

/-- keys strictly ascending -/
def Sorted (m : List (Nat × α)) : Prop := (keys m).Pairwise (· < ·)

@[simp] theorem get?_nil (k : Nat) : get? ([] : List (Nat × α)) k = none := rfl

theorem get?_cons (p : Nat × α) (m : List (Nat × α)) (k : Nat) :
    get? (p :: m) k = if k = p.1 then some p.2 else get? m k := by
  cases p; rfl

theorem get?_set (m : List (Nat × α)) (k k' : Nat) (v : α) :
    get? (set m k v) k' = if k' = k then some v else get? m k' := by
  induction m with
  | nil => simp [set, get?_cons]
  | cons p m ih =>
    obtain ⟨a, b⟩ := p
    simp only [set]
    split
    · simp [get?_cons]
    · split
      · subst_vars; simp only [get?_cons]; split <;> simp_all
      · simp only [get?_cons, ih]
        split <;> split <;> simp_all

theorem get?_erase (m : List (Nat × α)) (k k' : Nat) :
    get? (erase m k) k' = if k' = k then none else get? m k' := by
  induction m with
  | nil => simp [erase]
  | cons p m ih =>
    obtain ⟨a, b⟩ := p
    simp only [erase, List.filter_cons] at ih ⊢
    by_cases h : a = k
    · subst h; simp only [bne_self_eq_false, Bool.false_eq_true, ↓reduceIte, ih, get?_cons]
      split <;> simp_all
    · have : (a != k) = true := by simp [h]
      simp only [this, ↓reduceIte, get?_cons, ih]
      split <;> split <;> simp_all

theorem get?_none_of_not_mem (m : List (Nat × α)) (k : Nat) (h : k ∉ keys m) : get? m k = none := by
  induction m with
  | nil => rfl
  | cons p m ih =>
    obtain ⟨a, b⟩ := p
    simp only [keys, List.map_cons, List.mem_cons, not_or] at h
    simp only [get?_cons, h.1, ↓reduceIte]
    exact ih h.2

theorem mem_keys_of_get? (m : List (Nat × α)) (k : Nat) (v : α) (h : get? m k = some v) : k ∈ keys m := by
  by_cases hk : k ∈ keys m
  · exact hk
  · rw [get?_none_of_not_mem m k hk] at h; cases h

theorem get?_of_mem (m : List (Nat × α)) (hs : Sorted m) (p : Nat × α) (h : p ∈ m) : get? m p.1 = some p.2 := by
  induction m with
  | nil => cases h
  | cons q m ih =>
    obtain ⟨a, b⟩ := q
    simp only [Sorted, keys, List.map_cons, List.pairwise_cons] at hs
    rcases List.mem_cons.mp h with rfl | h'
    · simp [get?_cons]
    · have hlt : a < p.1 := hs.1 p.1 (List.mem_map_of_mem (f := (·.1)) h')
      have : p.1 ≠ a := by omega
      simp only [get?_cons, this, ↓reduceIte]
      exact ih hs.2 h'

theorem mem_of_get? (m : List (Nat × α)) (k : Nat) (v : α) (h : get? m k = some v) : (k, v) ∈ m := by
  induction m with
  | nil => cases h
  | cons q m ih =>
    obtain ⟨a, b⟩ := q
    simp only [get?_cons] at h
    split at h
    · cases h; subst_vars; exact List.mem_cons_self
    · exact List.mem_cons_of_mem _ (ih h)

theorem mem_set (m : List (Nat × α)) (k : Nat) (v : α) (p : Nat × α) (h : p ∈ set m k v) :
    p = (k, v) ∨ p ∈ m := by
  induction m with
  | nil => simp [set] at h; exact Or.inl h
  | cons q m ih =>
    obtain ⟨a, b⟩ := q
    simp only [set] at h
    split at h
    · rcases List.mem_cons.mp h with rfl | h'
      · exact Or.inl rfl
      · exact Or.inr h'
    · split at h
      · rcases List.mem_cons.mp h with rfl | h'
        · exact Or.inl rfl
        · exact Or.inr (List.mem_cons_of_mem _ h')
      · rcases List.mem_cons.mp h with rfl | h'
        · exact Or.inr List.mem_cons_self
        · rcases ih h' with h'' | h''
          · exact Or.inl h''
          · exact Or.inr (List.mem_cons_of_mem _ h'')

theorem keys_set (m : List (Nat × α)) (k : Nat) (v : α) (x : Nat) (h : x ∈ keys (set m k v)) :
    x = k ∨ x ∈ keys m := by
  simp only [keys, List.mem_map] at h ⊢
  obtain ⟨p, hp, rfl⟩ := h
  rcases mem_set m k v p hp with rfl | h'
  · exact Or.inl rfl
  · exact Or.inr ⟨p, h', rfl⟩

theorem sorted_set (m : List (Nat × α)) (k : Nat) (v : α) (hs : Sorted m) : Sorted (set m k v) := by
  induction m with
  | nil => simp [set, Sorted, keys]
  | cons q m ih =>
    obtain ⟨a, b⟩ := q
    simp only [Sorted, keys, List.map_cons, List.pairwise_cons] at hs
    simp only [set]
    split
    · rename_i hlt
      simp only [Sorted, keys, List.map_cons, List.pairwise_cons, List.mem_cons]
      refine ⟨?_, hs⟩
      intro x hx
      rcases hx with rfl | hx
      · exact hlt
      · have := hs.1 x hx; omega
    · split
      · subst_vars
        simp only [Sorted, keys, List.map_cons, List.pairwise_cons]
        exact hs
      · rename_i h1 h2
        simp only [Sorted, keys, List.map_cons, List.pairwise_cons]
        refine ⟨?_, ih hs.2⟩
        intro x hx
        rcases keys_set m k v x hx with rfl | hx
        · omega
        · exact hs.1 x hx

theorem sorted_erase (m : List (Nat × α)) (k : Nat) (hs : Sorted m) : Sorted (erase m k) := by
  unfold Sorted keys erase at *
  exact hs.sublist (List.Sublist.map _ List.filter_sublist)

theorem mem_erase (m : List (Nat × α)) (k : Nat) (p : Nat × α) (h : p ∈ erase m k) : p ∈ m ∧ p.1 ≠ k := by
  simp only [erase, List.mem_filter, bne_iff_ne, ne_eq] at h
  exact h

/-- Two strictly sorted association lists with the same lookups are equal. -/
theorem ext_sorted (m₁ m₂ : List (Nat × α)) (h₁ : Sorted m₁) (h₂ : Sorted m₂)
    (h : ∀ k, get? m₁ k = get? m₂ k) : m₁ = m₂ := by
  induction m₁ generalizing m₂ with
  | nil =>
    cases m₂ with
    | nil => rfl
    | cons q m₂ =>
      obtain ⟨a, b⟩ := q
      have := h a
      simp [get?_cons] at this
  | cons p m₁ ih =>
    obtain ⟨a, b⟩ := p
    cases m₂ with
    | nil =>
      have := h a
      simp [get?_cons] at this
    | cons q m₂ =>
      obtain ⟨c, d⟩ := q
      have s₁ := h₁; have s₂ := h₂
      simp only [Sorted, keys, List.map_cons, List.pairwise_cons] at s₁ s₂
      have hac : a = c := by
        by_cases hlt : a < c
        · have := h a
          simp only [get?_cons, ↓reduceIte] at this
          have hne : a ≠ c := by omega
          simp only [hne, ↓reduceIte] at this
          have hk := mem_keys_of_get? m₂ a b this.symm
          have := s₂.1 a hk
          omega
        · by_cases hgt : c < a
          · have := h c
            simp only [get?_cons, ↓reduceIte] at this
            have hne : c ≠ a := by omega
            simp only [hne, ↓reduceIte] at this
            have hk := mem_keys_of_get? m₁ c d this
            have := s₁.1 c hk
            omega
          · omega
      subst hac
      have hbd : b = d := by
        have := h a
        simpa [get?_cons] using this
      subst hbd
      congr 1
      apply ih m₂ s₁.2 s₂.2
      intro k
      have hk := h k
      simp only [get?_cons] at hk
      by_cases hka : k = a
      · subst hka
        have n₁ : get? m₁ k = none := get?_none_of_not_mem m₁ k (fun hm => by have := s₁.1 k hm; omega)
        have n₂ : get? m₂ k = none := get?_none_of_not_mem m₂ k (fun hm => by have := s₂.1 k hm; omega)
        rw [n₁, n₂]
      · simpa [hka] using hk

end AMap
end Juno.C14
