import JunoModel.C14.ProofsChunk
/-! C14 — the physical layer, part 2 (round 6, finishing round 5): a cleanly closed log (EOF trailer) reads
as its records, and the offsets juno's `walWriter` keeps (`Chunk.PW`) leave, after any sequence of
successful / torn / sync-failed appends and a close, a file that is byte for byte the chunks of the
acknowledged records (plus the trailer of a clean close). -/
namespace Juno.C14.Chunk
open Juno.C14.Codec (by8)
open Juno.C14.Batch (le32 by8_val)

theorem trailer_length (c : Cfg) : (trailer c).length = 11 := by
  simp [trailer, le32, le16]

theorem trailer_cons (c : Cfg) : ∃ x t, trailer c = x :: t := by
  simp [trailer, le32, le16]

/-- the reader, standing behind the last chunk of a record with `kp` bytes of block padding and the EOF
trailer in front of it, reports the clean end of the log -/
theorem readRecord_pad_trailer (c : Cfg) (hc : c.OK) (b i' j kp : Nat) (hA : After c i' j kp) :
    readRecord c (RAt b j (zeros kp ++ trailer c)) = .error .eof := by
  rw [readRecord, nextChunk_deffuel c hc]
  rcases hA.pad with ⟨rfl, rfl⟩ | ⟨hk, hj, rfl⟩
  · have := NCv_trailer c hc b j [] hA.fit
    simp only [List.append_nil] at this
    simp only [zeros, List.replicate_zero, List.nil_append]
    rw [this]
  · obtain ⟨x, t, hx⟩ := trailer_cons c
    have h1 := NCv_pad c hc true b j kp x t hk hj
    rw [← hx] at h1
    rw [h1]
    have := NCv_trailer c hc (b + c.B) 0 [] (by have := hc.lo; omega)
    simp only [List.append_nil] at this
    rw [this]

theorem scan_nil (c : Cfg) : scan c [] = ⟨[], [], 0, .eof⟩ := by
  have h : readRecord c { s := [] } = .error .eof := by
    have h2 : nextChunk c true 3 { s := [] } = .error .eof := by
      simp [nextChunk, chunkStep, avail]
    simp only [readRecord, List.length_nil, Nat.mul_zero, Nat.zero_add, h2]
  simp only [scan, Nat.zero_add, scanLoop, h, RS.offset]

theorem scan_trailer_only (c : Cfg) (hc : c.OK) : scan c (trailer c) = ⟨[], [], 0, .eof⟩ := by
  obtain ⟨x, t, hx⟩ := trailer_cons c
  have h : readRecord c { s := trailer c } = .error .eof := by
    rw [readRecord, nextChunk_deffuel c hc, hx, NCv_start c hc true x t, ← hx]
    have := NCv_trailer c hc 0 0 [] (by have := hc.lo; omega)
    simp only [List.append_nil] at this
    rw [this]
  unfold scan
  rw [trailer_length]
  simp only [scanLoop, h, RS.offset]

/-- **A cleanly closed log**: the records, then the EOF trailer `LogWriter.Close` writes. A restart reads
exactly the records, a clean end; the tail repair (`repairWALTailIfLonger`) strips the trailer (and block
padding in front of it) and nothing else. -/
theorem closed_recovered (c : Cfg) (hc : c.OK) (ps : List (List UInt8)) :
    Recovered c (frames c ps ++ trailer c) ps ∧ (scan c (frames c ps ++ trailer c)).st = .eof := by
  rcases nil_or_snoc ps with rfl | ⟨init, last, rfl⟩
  · have h1 : scan c (frames c [] ++ trailer c) = ⟨[], [], 0, .eof⟩ := by
      simpa [frames, emitAll] using scan_trailer_only c hc
    refine ⟨recovered_of_scan c _ [] [] [] 0 .eof (Or.inl rfl) (by omega) h1 ?_, by rw [h1]⟩
    simpa using scan_nil c
  · have hB := hc.lo
    have hfit := emitAll_fit c hc init 0 (by omega)
    obtain ⟨C, kp, j, hS⟩ := rec_spec c hc (emitAll c 0 init).2 last hfit
    have hfile : frames c (init ++ [last]) ++ trailer c = (emitAll c 0 init).1 ++ C ++ (zeros kp ++ trailer c) := by
      rw [frames_snoc, hS.eq]; simp [frames, List.append_assoc]
    have he := readRecord_pad_trailer c hc ((emitAll c 0 init).1.length + C.length - j) _ j kp hS.after
    obtain ⟨offs, h1⟩ := scan_init_last c hc init last C kp j hS (zeros kp ++ trailer c) .eof he
    obtain ⟨offs', e, h2, _, h2e⟩ := scan_lastpad c hc init last C kp j hS 0 (by omega)
    have he2 : e = .eof := h2e (Or.inl rfl)
    subst he2
    rw [hfile]
    refine ⟨recovered_of_scan c _ (init ++ [last]) offs offs' ((emitAll c 0 init).1.length + C.length) .eof
      (Or.inl rfl) (by simp only [List.length_append]; omega) h1 ?_, by rw [h1]⟩
    have htake : ((emitAll c 0 init).1 ++ C ++ (zeros kp ++ trailer c)).take ((emitAll c 0 init).1.length + C.length) =
        (emitAll c 0 init).1 ++ C ++ zeros 0 := by
      have : (emitAll c 0 init).1.length + C.length = ((emitAll c 0 init).1 ++ C).length := by simp
      rw [this, take_append_left']
      simp [zeros]
    rw [htake]
    exact h2

/-! ### `walWriter`'s offsets -/

/-- the writer is open on a log that holds exactly the chunks of the acknowledged records `ps`, and its three
offsets all point at the end of the file -/
structure PW.Good (c : Cfg) (w : PW) (ps : List (List UInt8)) : Prop where
  op : w.isOpen = true
  file : w.file = frames c ps
  pos : w.pos = w.file.length
  synced : w.synced = w.file.length
  written : w.written = (emitAll c 0 ps).2

theorem PW.good_init (c : Cfg) : PW.Good c {} [] :=
  ⟨rfl, by simp [frames, emitAll], rfl, rfl, by simp [emitAll]⟩

theorem PW.good_appendOk (c : Cfg) (w : PW) (ps : List (List UInt8)) (p : List UInt8) (h : PW.Good c w ps) :
    PW.Good c (PW.step c w (.appendOk p)) (ps ++ [p]) := by
  have hop := h.op
  refine ⟨?_, ?_, ?_, ?_, ?_⟩
  · simp [PW.step, hop]
  · simp only [PW.step, hop, Bool.not_true, Bool.false_eq_true, ↓reduceIte]
    rw [frames_snoc, h.file, h.written]
  · simp only [PW.step, hop, Bool.not_true, Bool.false_eq_true, ↓reduceIte, List.length_append]
    rw [h.pos]
  · simp only [PW.step, hop, Bool.not_true, Bool.false_eq_true, ↓reduceIte, List.length_append]
    rw [h.pos]
  · simp only [PW.step, hop, Bool.not_true, Bool.false_eq_true, ↓reduceIte]
    rw [emitAll_snoc, h.written]

theorem repairTail_prefix (a b : List UInt8) : repairTail (a ++ b) a.length = a := by
  unfold repairTail
  have : min a.length (a ++ b).length = a.length := by simp
  rw [this, take_append_left']

/-- closing the writer, with or without the forced repair, whatever part `t` of the trailer got written:
the file is cut back to the synced offset, or (clean close) keeps the complete trailer -/
theorem PW.closeRepair_file (c : Cfg) (w0 : PW) (a x : List UInt8) (t : Nat) (force : Bool)
    (hf : w0.file = a ++ x) (hs : w0.synced = a.length) :
    (w0.closeRepair c t force).isOpen = false ∧
      ((w0.closeRepair c t force).file = a ∨
        (force = false ∧ t = 11 ∧ (w0.closeRepair c t force).file = a ++ x ++ trailer c)) := by
  unfold PW.closeRepair
  by_cases hc : t = 11 ∧ (!force) = true
  · have htk : (trailer c).take 11 = trailer c := by
      rw [List.take_of_length_le]; rw [trailer_length]; omega
    simp only [hc, and_self, ↓reduceIte, true_and]
    right
    refine ⟨by simpa using hc.2, ?_⟩
    rw [hf, htk]
  · simp only [hc, ↓reduceIte, true_and]
    left
    rw [hf, hs, List.append_assoc]
    exact repairTail_prefix _ _

theorem PW.step_closed (c : Cfg) (w : PW) (e : PEv) (h : w.isOpen = false) : PW.step c w e = w := by
  cases e <;> simp [PW.step, h]

theorem PW.run_closed (c : Cfg) (w : PW) (evs : List PEv) (h : w.isOpen = false) : PW.run c w evs = w := by
  induction evs with
  | nil => rfl
  | cons e es ih => simp only [PW.run, List.foldl_cons, PW.step_closed c w e h]; exact ih

/-- the first event that is not a successful append closes the writer and leaves the acknowledged chunks,
followed at most by a complete trailer -/
theorem PW.step_not_ok (c : Cfg) (w : PW) (ps : List (List UInt8)) (e : PEv) (h : PW.Good c w ps)
    (hne : ∀ p, e ≠ .appendOk p) :
    (PW.step c w e).isOpen = false ∧
      ((PW.step c w e).file = frames c ps ∨ (PW.step c w e).file = frames c ps ++ trailer c) := by
  have hop := h.op
  cases e with
  | appendOk p => exact absurd rfl (hne p)
  | appendTorn p k t =>
    simp only [PW.step, hop, Bool.not_true, Bool.false_eq_true, ↓reduceIte]
    have := PW.closeRepair_file c ({ w with file := w.file ++ (emitRecord c w.written p).1.take k, isOpen := true } : PW)
      w.file _ t true rfl h.synced
    rcases this with ⟨h1, h2 | ⟨h2, _⟩⟩
    · exact ⟨h1, Or.inl (by rw [h2, h.file])⟩
    · simp at h2
  | appendSyncFail p t =>
    simp only [PW.step, hop, Bool.not_true, Bool.false_eq_true, ↓reduceIte]
    have := PW.closeRepair_file c ({ w with file := w.file ++ (emitRecord c w.written p).1, isOpen := true } : PW)
      w.file _ t true rfl h.synced
    rcases this with ⟨h1, h2 | ⟨h2, _⟩⟩
    · exact ⟨h1, Or.inl (by rw [h2, h.file])⟩
    · simp at h2
  | close t =>
    simp only [PW.step, hop, Bool.not_true, Bool.false_eq_true, ↓reduceIte]
    have := PW.closeRepair_file c w w.file [] t false (by simp) h.synced
    simp only [List.append_nil] at this
    rcases this with ⟨h1, h2 | ⟨_, _, h2⟩⟩
    · exact ⟨h1, Or.inl (by rw [h2, h.file])⟩
    · exact ⟨h1, Or.inr (by rw [h2, h.file])⟩

theorem PW.run_file (c : Cfg) (evs : List PEv) : ∀ (w : PW) (ps : List (List UInt8)), PW.Good c w ps →
    (PW.run c w evs).file = frames c (ps ++ ackedOf evs) ∨
      (PW.run c w evs).file = frames c (ps ++ ackedOf evs) ++ trailer c := by
  induction evs with
  | nil => intro w ps h; left; simp [PW.run, ackedOf, h.file]
  | cons e es ih =>
    intro w ps h
    by_cases hok : ∃ p, e = .appendOk p
    · obtain ⟨p, rfl⟩ := hok
      have := ih _ _ (PW.good_appendOk c w ps p h)
      simpa [PW.run, ackedOf, List.append_assoc] using this
    · have hne : ∀ p, e ≠ .appendOk p := fun p hp => hok ⟨p, hp⟩
      obtain ⟨h1, h2⟩ := PW.step_not_ok c w ps e h hne
      have hrun : PW.run c w (e :: es) = PW.step c w e := by
        simp only [PW.run, List.foldl_cons]
        exact PW.run_closed c _ es h1
      have hack : ackedOf (e :: es) = [] := by
        cases e with
        | appendOk p => exact absurd rfl (hne p)
        | _ => rfl
      rw [hrun, hack, List.append_nil]
      exact h2

/-- **The offsets of `walWriter` keep exactly the acknowledged bytes.** Whatever happens to one log —
appends that succeed, an append torn after any number of bytes (any part of the EOF trailer written by the
`Close` inside `abortUncommitted`), a sync reported as failed with the whole record in the file, a close that
writes all or part of its trailer — the file left behind reads as exactly the acknowledged records with a
clean end, and a restart's tail repair changes nothing of them. -/
theorem PW.run_recovered (c : Cfg) (hc : c.OK) (evs : List PEv) :
    Recovered c (PW.run c {} evs).file (ackedOf evs) ∧ (scan c (PW.run c {} evs).file).st = .eof := by
  rcases PW.run_file c evs {} [] (PW.good_init c) with h | h
  · rw [h, List.nil_append]; exact frames_recovered c hc _
  · rw [h, List.nil_append]; exact closed_recovered c hc _

/-! ### the reader on ARBITRARY bytes: the fuel of the totalisation never runs out -/

/-- a chunk handed out uses up at least the seven bytes of the smallest header -/
theorem chunkStep_done_inv (c : Cfg) (wf : Bool) (r r' : RS) (pl : List UInt8) (last : Bool)
    (h : chunkStep c wf r = .done r' pl last) : r'.s.length + 7 ≤ r.s.length := by
  have hal := avail_le c r
  unfold chunkStep at h
  simp only [] at h
  by_cases h7 : 7 ≤ avail c r
  · simp only [h7, ↓reduceIte] at h
    cases hh : rdHd r.s with
    | none => simp [hh] at h
    | some hd =>
      simp only [hh] at h
      by_cases h13 : 13 ≤ hd.enc
      · simp [h13] at h
      simp only [h13, ↓reduceIte] at h
      by_cases hz : hd.checksum = 0 ∧ hd.length = 0 ∧ hd.enc = 0
      · simp only [hz, and_self, ↓reduceIte] at h
        by_cases h11 : avail c r < 11
        · simp [h11] at h
        · simp only [h11, ↓reduceIte] at h
          by_cases h19 : avail c r < 19
          · simp only [h19, ↓reduceIte] at h
            split at h <;> simp at h
          · simp [h19] at h
      · simp only [hz, ↓reduceIte] at h
        by_cases h0 : hd.enc = 0
        · simp [h0] at h
        simp only [h0, ↓reduceIte] at h
        have hhs := hsOf_ge hd.enc h0 h13
        split at h
        · simp at h
        · split at h
          · split at h <;> simp at h
          · split at h
            · simp at h
            · rename_i hlen
              split at h
              · simp at h
              · split at h
                · simp at h
                · simp only [Step.done.injEq] at h
                  obtain ⟨rfl, _, _⟩ := h
                  simp only [List.length_drop]
                  omega
  · simp only [h7, ↓reduceIte] at h
    by_cases hsh : r.started = true ∧ r.i + avail c r < c.B
    · simp only [hsh, and_self, ↓reduceIte] at h
      split at h <;> simp at h
    · simp only [hsh, ↓reduceIte] at h
      split at h
      · split at h <;> simp at h
      · simp at h

theorem chunkStep_cont_len (c : Cfg) (wf : Bool) (r r' : RS) (h : chunkStep c wf r = .cont r') :
    r'.s.length ≤ r.s.length := by
  rcases chunkStep_cont_inv c wf r r' h with ⟨n, _, _, rfl⟩ | ⟨_, _, rfl⟩ <;> simp only [List.length_drop] <;> omega

theorem nextChunk_ok_len (c : Cfg) (_hc : c.OK) (wf : Bool) : ∀ (f : Nat) (r r' : RS) (pl : List UInt8) (last : Bool),
    nextChunk c wf f r = .ok (r', pl, last) → r'.s.length + 7 ≤ r.s.length := by
  intro f
  induction f with
  | zero => intro r r' pl last h; simp [nextChunk] at h
  | succ f ih =>
    intro r r' pl last h
    rw [nextChunk] at h
    cases hs : chunkStep c wf r with
    | done r2 pl2 last2 =>
      simp only [hs, Except.ok.injEq, Prod.mk.injEq] at h
      obtain ⟨rfl, rfl, rfl⟩ := h
      exact chunkStep_done_inv c wf r _ _ _ hs
    | eof => simp [hs] at h
    | invalid => simp [hs] at h
    | cont r2 =>
      simp only [hs] at h
      have := ih r2 r' pl last h
      have := chunkStep_cont_len c wf r r2 hs
      omega

theorem nextChunk_def_nofuel (c : Cfg) (hc : c.OK) (wf : Bool) (r : RS) :
    nextChunk c wf (2 * r.s.length + 3) r ≠ .error .fuel :=
  nextChunk_fuel_ok c hc wf _ r (by have := mu_le r; omega)

theorem readMore_spec (c : Cfg) (hc : c.OK) : ∀ (fuel : Nat) (r : RS) (acc : List UInt8), r.s.length < fuel →
    readMore c fuel r acc ≠ .error .fuel ∧
      ∀ r' p, readMore c fuel r acc = .ok (r', p) → r'.s.length + 7 ≤ r.s.length := by
  intro fuel
  induction fuel with
  | zero => intro r acc h; omega
  | succ fuel ih =>
    intro r acc hlt
    rw [readMore]
    cases hn : nextChunk c false (2 * r.s.length + 3) r with
    | error e =>
      have := nextChunk_def_nofuel c hc false r
      rw [hn] at this
      refine ⟨?_, by intro r' p h; simp at h⟩
      intro h
      simp only [Except.error.injEq] at h
      subst h
      exact this rfl
    | ok v =>
      obtain ⟨r1, pl, last⟩ := v
      have hl := nextChunk_ok_len c hc false _ r r1 pl last hn
      simp only []
      by_cases hlast : last = true
      · simp only [hlast, ↓reduceIte]
        refine ⟨by simp, ?_⟩
        intro r' p h
        simp only [Except.ok.injEq, Prod.mk.injEq] at h
        obtain ⟨rfl, _⟩ := h
        exact hl
      · simp only [hlast, Bool.false_eq_true, ↓reduceIte]
        obtain ⟨h1, h2⟩ := ih r1 (acc ++ pl) (by omega)
        refine ⟨h1, ?_⟩
        intro r' p h
        have := h2 r' p h
        omega

theorem readRecord_spec (c : Cfg) (hc : c.OK) (r : RS) :
    readRecord c r ≠ .error .fuel ∧ ∀ r' p, readRecord c r = .ok (r', p) → r'.s.length + 7 ≤ r.s.length := by
  rw [readRecord]
  cases hn : nextChunk c true (2 * r.s.length + 3) r with
  | error e =>
    have := nextChunk_def_nofuel c hc true r
    rw [hn] at this
    refine ⟨?_, by intro r' p h; simp at h⟩
    intro h
    simp only [Except.error.injEq] at h
    subst h
    exact this rfl
  | ok v =>
    obtain ⟨r1, pl, last⟩ := v
    have hl := nextChunk_ok_len c hc true _ r r1 pl last hn
    simp only []
    by_cases hlast : last = true
    · simp only [hlast, ↓reduceIte]
      refine ⟨by simp, ?_⟩
      intro r' p h
      simp only [Except.ok.injEq, Prod.mk.injEq] at h
      obtain ⟨rfl, _⟩ := h
      exact hl
    · simp only [hlast, Bool.false_eq_true, ↓reduceIte]
      obtain ⟨h1, h2⟩ := readMore_spec c hc (r1.s.length + 1) r1 pl (by omega)
      refine ⟨h1, ?_⟩
      intro r' p h
      have := h2 r' p h
      omega

theorem scanLoop_nofuel (c : Cfg) (hc : c.OK) : ∀ (fuel : Nat) (r : RS) (acc : List (List UInt8)) (sts : List Nat),
    r.s.length < fuel → (scanLoop c fuel r acc sts).st ≠ .fuel := by
  intro fuel
  induction fuel with
  | zero => intro r acc sts h; omega
  | succ fuel ih =>
    intro r acc sts hlt
    rw [scanLoop]
    obtain ⟨h1, h2⟩ := readRecord_spec c hc r
    cases hr : readRecord c r with
    | error e =>
      simp only []
      intro he
      subst he
      exact h1 hr
    | ok v =>
      obtain ⟨r', p⟩ := v
      simp only []
      have := h2 r' p hr
      exact ih r' _ _ (by omega)

/-- reading ANY file never runs out of fuel -/
theorem scan_nofuel (c : Cfg) (hc : c.OK) (file : List UInt8) : (scan c file).st ≠ .fuel :=
  scanLoop_nofuel c hc _ _ _ _ (by simp)

/-- … so on ANY bytes the tail repair sees `eof` or `invalid`, cuts the file to a prefix, and the reader
handed out only whole records in front of the cut -/
theorem scan_st_cases (c : Cfg) (hc : c.OK) (file : List UInt8) : (scan c file).st = .eof ∨ (scan c file).st = .invalid := by
  have := scan_nofuel c hc file
  cases h : (scan c file).st <;> simp_all

theorem recoverTail_prefix (c : Cfg) (file : List UInt8) : ∃ n, recoverTail c file = file.take n := by
  unfold recoverTail repairTail
  simp only []
  split
  · split
    · exact ⟨file.length, by simp⟩
    · exact ⟨_, rfl⟩
  · exact ⟨_, rfl⟩

/-! ### the EOF trailer cut anywhere (a crash inside `rotateAfterSynced` / `close`) -/

theorem trailer_eq (c : Cfg) : trailer c = zeros 6 ++ (5 :: le32 ((c.logNum + 1) % two32)) := by
  simp [trailer, le32, le16, zeros, by8]

/-- the reader in front of a torn EOF trailer (`t < 11` of its bytes): the clean end of the log when nothing
of it is there, an invalid tail or the end otherwise — never a record -/
theorem readRecord_trailer_cut (c : Cfg) (hc : c.OK) (b i t : Nat) (hi : i + 11 ≤ c.B) (ht : t < 11) :
    readRecord c (RAt b i ((trailer c).take t)) = .error .eof ∨
      readRecord c (RAt b i ((trailer c).take t)) = .error .invalid := by
  by_cases h6 : t ≤ 6
  · have : (trailer c).take t = zeros t := by
      rw [trailer_eq, List.take_append_of_le_length (by simp [zeros]; omega), take_zeros]
      congr 1; omega
    rw [this]
    exact readRecord_zeros c hc b i t ht (by omega)
  · right
    have hstep : chunkStep c true (RAt b i ((trailer c).take t)) = .invalid := by
      have hlen : ((trailer c).take t).length = t := by
        rw [List.length_take, trailer_length]; omega
      have ha : avail c (RAt b i ((trailer c).take t)) = t := by
        simp only [avail, RAt, ↓reduceIte, List.length_take, hlen]; omega
      unfold chunkStep
      rw [ha]
      have h7 : 7 ≤ t := by omega
      have : t = 7 ∨ t = 8 ∨ t = 9 ∨ t = 10 := by omega
      rcases this with rfl | rfl | rfl | rfl <;>
        simp [RAt, trailer, le32, le16, rdHd, by8_val, hsOf, wireOf]
    rw [readRecord, nextChunk_deffuel c hc, NCv_invalid c true _ hstep]


theorem readRecord_congr (c : Cfg) (hc : c.OK) (R1 R2 : RS) (h : NCv c true R1 = NCv c true R2) :
    readRecord c R1 = readRecord c R2 := by
  rw [readRecord, readRecord, nextChunk_deffuel c hc, nextChunk_deffuel c hc, h]

/-- … also behind the block padding that follows the last chunk of a record -/
theorem readRecord_pad_trailer_cut (c : Cfg) (hc : c.OK) (b i' j kp t : Nat) (hA : After c i' j kp) (ht : t < 11) :
    readRecord c (RAt b j (zeros kp ++ (trailer c).take t)) = .error .eof ∨
      readRecord c (RAt b j (zeros kp ++ (trailer c).take t)) = .error .invalid := by
  rcases hA.pad with ⟨rfl, rfl⟩ | ⟨hk, hj, rfl⟩
  · simp only [zeros, List.replicate_zero, List.nil_append]
    exact readRecord_trailer_cut c hc b j t hA.fit ht
  · cases hx : (trailer c).take t with
    | nil =>
      rw [List.append_nil]
      exact readRecord_zeros c hc b j kp hk (by omega)
    | cons x u =>
      have := readRecord_congr c hc _ _ (NCv_pad c hc true b j kp x u hk hj)
      rw [this, ← hx]
      exact readRecord_trailer_cut c hc (b + c.B) 0 t (by have := hc.lo; omega) ht

/-- **A crash inside the rotation / the close: the EOF trailer cut at any byte.** The log holds its records
and the first `t ≤ 11` bytes of the trailer: a restart reads exactly the records, repairs the tail, and the
log it leaves reads the same with a clean end. -/
theorem trailer_cut_recovered (c : Cfg) (hc : c.OK) (ps : List (List UInt8)) (t : Nat) (ht : t ≤ 11) :
    Recovered c (frames c ps ++ (trailer c).take t) ps := by
  by_cases h11 : t = 11
  · subst h11
    have : (trailer c).take 11 = trailer c := by
      rw [List.take_of_length_le]; rw [trailer_length]; omega
    rw [this]; exact (closed_recovered c hc ps).1
  have ht' : t < 11 := by omega
  rcases nil_or_snoc ps with rfl | ⟨init, last, rfl⟩
  · have hf : frames c [] = [] := by simp [frames, emitAll]
    rw [hf, List.nil_append]
    cases hx : (trailer c).take t with
    | nil =>
      exact recovered_of_scan c _ [] [] [] 0 .eof (Or.inl rfl) (by simp) (scan_nil c) (by simpa using scan_nil c)
    | cons x u =>
      have hcg := readRecord_congr c hc _ _ (NCv_start c hc true x u)
      have hcut := readRecord_trailer_cut c hc 0 0 t (by have := hc.lo; omega) ht'
      rw [hx] at hcut
      have hscan : ∀ e, readRecord c (RAt 0 0 (x :: u)) = .error e → scan c (x :: u) = ⟨[], [], 0, e⟩ := by
        intro e he
        unfold scan
        simp only [scanLoop, hcg, he, RS.offset]
      rcases hcut with he | he
      · exact recovered_of_scan c _ [] [] [] 0 .eof (Or.inl rfl) (by simp) (hscan _ he) (by simpa using scan_nil c)
      · exact recovered_of_scan c _ [] [] [] 0 .invalid (Or.inr rfl) (by simp) (hscan _ he) (by simpa using scan_nil c)
  · have hB := hc.lo
    have hfit := emitAll_fit c hc init 0 (by omega)
    obtain ⟨C, kp, j, hS⟩ := rec_spec c hc (emitAll c 0 init).2 last hfit
    have hfile : frames c (init ++ [last]) ++ (trailer c).take t =
        (emitAll c 0 init).1 ++ C ++ (zeros kp ++ (trailer c).take t) := by
      rw [frames_snoc, hS.eq]; simp [frames, List.append_assoc]
    obtain ⟨offs', e2, h2, _, h2e⟩ := scan_lastpad c hc init last C kp j hS 0 (by omega)
    have he2 : e2 = .eof := h2e (Or.inl rfl)
    subst he2
    have htake : ((emitAll c 0 init).1 ++ C ++ (zeros kp ++ (trailer c).take t)).take ((emitAll c 0 init).1.length + C.length) =
        (emitAll c 0 init).1 ++ C ++ zeros 0 := by
      have : (emitAll c 0 init).1.length + C.length = ((emitAll c 0 init).1 ++ C).length := by simp
      rw [this, take_append_left']
      simp [zeros]
    rw [hfile]
    rcases readRecord_pad_trailer_cut c hc ((emitAll c 0 init).1.length + C.length - j) _ j kp t hS.after ht' with he | he
    · obtain ⟨offs, h1⟩ := scan_init_last c hc init last C kp j hS (zeros kp ++ (trailer c).take t) .eof he
      exact recovered_of_scan c _ (init ++ [last]) offs offs' ((emitAll c 0 init).1.length + C.length) .eof
        (Or.inl rfl) (by simp only [List.length_append]; omega) h1 (by rw [htake]; exact h2)
    · obtain ⟨offs, h1⟩ := scan_init_last c hc init last C kp j hS (zeros kp ++ (trailer c).take t) .invalid he
      exact recovered_of_scan c _ (init ++ [last]) offs offs' ((emitAll c 0 init).1.length + C.length) .invalid
        (Or.inr rfl) (by simp only [List.length_append]; omega) h1 (by rw [htake]; exact h2)


end Juno.C14.Chunk

namespace Juno.C14.Batch

theorem writtenLog_snoc (bs : List (List Codec.Payload)) (qs : List Nat) (b : List Codec.Payload) (q : Nat)
    (hlen : bs.length = qs.length) :
    writtenLog (bs ++ [b]) (qs ++ [q]) = writtenLog bs qs ++ [encodeBatch q (b.map Codec.encode)] := by
  unfold writtenLog
  rw [List.zipWith_append hlen]
  rfl

end Juno.C14.Batch
