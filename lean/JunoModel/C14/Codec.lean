/-
C14 — byte-level model of the WAL record payload codec (`consensus/walstore/codec.go`:
`appendWALRecordPayload`, `decodeWALRecord` and their helpers; `record.go`: the envelope kinds).

Every integer field is a little-endian uint64 (heights: `uint`; rounds: `int64` in two's
complement, kept here as the raw 64-bit value); addresses, hashes and values are four such limbs;
optional fields are preceded by a presence byte that must be 0 or 1; the decoder rejects unknown
kinds and any trailing byte.  Core Lean only: linked into the driver (`decode <hex>`).
-/
namespace Juno.C14.Codec

/-- four uint64 limbs (`felt.Felt`-shaped values: sender, value, vote id) -/
structure Limbs where
  a : Nat
  b : Nat
  c : Nat
  d : Nat
  deriving DecidableEq, Repr

/-- `types.MessageHeader` -/
structure Hdr where
  h : Nat
  round : Nat
  sender : Limbs
  deriving DecidableEq, Repr

/-- the decoded content of one WAL record (`walRecordEnvelope`) -/
inductive Payload where
  | start (h : Nat)
  | proposal (hdr : Hdr) (validRound : Nat) (value : Option Limbs)
  | prevote (hdr : Hdr) (id : Option Limbs)
  | precommit (hdr : Hdr) (id : Option Limbs)
  | timeout (step h round : Nat)
  | prune (h : Nat)
  deriving DecidableEq, Repr

def W64 (n : Nat) : Prop := n < 18446744073709551616

def Limbs.WF (l : Limbs) : Prop := W64 l.a ∧ W64 l.b ∧ W64 l.c ∧ W64 l.d
def Hdr.WF (x : Hdr) : Prop := W64 x.h ∧ W64 x.round ∧ x.sender.WF
def optWF : Option Limbs → Prop
  | none => True
  | some l => l.WF

/-- all fields fit their Go types -/
def Payload.WF : Payload → Prop
  | .start h => W64 h
  | .proposal hdr vr v => hdr.WF ∧ W64 vr ∧ optWF v
  | .prevote hdr id => hdr.WF ∧ optWF id
  | .precommit hdr id => hdr.WF ∧ optWF id
  | .timeout step h r => step < 256 ∧ W64 h ∧ W64 r
  | .prune h => W64 h

/-- `GetHeight()` of the entry (the prune height for a prune record) -/
def Payload.height : Payload → Nat
  | .start h => h
  | .proposal hdr _ _ => hdr.h
  | .prevote hdr _ => hdr.h
  | .precommit hdr _ => hdr.h
  | .timeout _ h _ => h
  | .prune h => h

/-! ### encoding -/

def by8 (n : Nat) : UInt8 := UInt8.ofNat (n % 256)

/-- `binary.LittleEndian.AppendUint64` -/
def le64 (n : Nat) : List UInt8 :=
  [by8 n, by8 (n / 256), by8 (n / 65536), by8 (n / 16777216), by8 (n / 4294967296),
   by8 (n / 1099511627776), by8 (n / 281474976710656), by8 (n / 72057594037927936)]

def encLimbs (l : Limbs) : List UInt8 := le64 l.a ++ le64 l.b ++ le64 l.c ++ le64 l.d

/-- `appendMessageHeader` -/
def encHdr (x : Hdr) : List UInt8 := le64 x.h ++ le64 x.round ++ encLimbs x.sender

def encOpt : Option Limbs → List UInt8
  | none => [0]
  | some l => 1 :: encLimbs l

/-- `appendWALRecordPayload` -/
def encode : Payload → List UInt8
  | .start h => 1 :: 1 :: le64 h
  | .proposal hdr vr v => 1 :: 2 :: (encHdr hdr ++ le64 vr ++ encOpt v)
  | .prevote hdr id => 1 :: 3 :: (encHdr hdr ++ encOpt id)
  | .precommit hdr id => 1 :: 4 :: (encHdr hdr ++ encOpt id)
  | .timeout step h r => 1 :: 5 :: by8 step :: (le64 h ++ le64 r)
  | .prune h => 2 :: le64 h

/-! ### decoding (`walRecordDecoder`) -/

/-- `readUint64` -/
def rd64 : List UInt8 → Option (Nat × List UInt8)
  | a :: b :: c :: d :: e :: f :: g :: h :: rest =>
    some (a.toNat + 256 * (b.toNat + 256 * (c.toNat + 256 * (d.toNat + 256 * (e.toNat + 256 *
      (f.toNat + 256 * (g.toNat + 256 * h.toNat)))))), rest)
  | _ => none

/-- `readUint64Array` -/
def rdLimbs (bs : List UInt8) : Option (Limbs × List UInt8) := do
  let (a, r) ← rd64 bs
  let (b, r) ← rd64 r
  let (c, r) ← rd64 r
  let (d, r) ← rd64 r
  pure (⟨a, b, c, d⟩, r)

/-- `readMessageHeader` -/
def rdHdr (bs : List UInt8) : Option (Hdr × List UInt8) := do
  let (h, r) ← rd64 bs
  let (round, r) ← rd64 r
  let (s, r) ← rdLimbs r
  pure (⟨h, round, s⟩, r)

/-- `readPresenceByte` followed by the optional limbs -/
def rdOpt : List UInt8 → Option (Option Limbs × List UInt8)
  | [] => none
  | p :: r =>
    if p = 0 then some (none, r)
    else if p = 1 then (rdLimbs r).map (fun x => (some x.1, x.2))
    else none

/-- the decoded payload must use up all bytes (`decoder.remaining() != 0` is an error) -/
def done {α : Type} (x : α) : List UInt8 → Option α
  | [] => some x
  | _ => none

/-- `decodeWALRecord` -/
def decode : List UInt8 → Option Payload
  | [] => none
  | k :: bs =>
    if k = 1 then
      match bs with
      | [] => none
      | ek :: r =>
        if ek = 1 then do
          let (h, r) ← rd64 r
          done (.start h) r
        else if ek = 2 then do
          let (hdr, r) ← rdHdr r
          let (vr, r) ← rd64 r
          let (v, r) ← rdOpt r
          done (.proposal hdr vr v) r
        else if ek = 3 then do
          let (hdr, r) ← rdHdr r
          let (id, r) ← rdOpt r
          done (.prevote hdr id) r
        else if ek = 4 then do
          let (hdr, r) ← rdHdr r
          let (id, r) ← rdOpt r
          done (.precommit hdr id) r
        else if ek = 5 then
          match r with
          | [] => none
          | step :: r => do
            let (h, r) ← rd64 r
            let (round, r) ← rd64 r
            done (.timeout step.toNat h round) r
        else none
    else if k = 2 then do
      let (h, r) ← rd64 bs
      done (.prune h) r
    else none

end Juno.C14.Codec
