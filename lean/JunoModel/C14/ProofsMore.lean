import JunoModel.C14.ProofsRun
import JunoModel.C14.ProofsCodec
/-! C14 — lemmas behind the review follow-up theorems: every error outcome of a flush, restart,
the store-level watermark, the ideal "pruned" predicate, codec ∘ model. -/
namespace Juno.C14
open AMap

/-- A flush that committed (with or without an error afterwards) left nothing pending. -/
theorem flush_committed_pending (s : Store) (d : Disk) (ft : Fault)
    (ho : (flushLocked s d ft).out.committed = true) : (flushLocked s d ft).st.pending = [] := by
  unfold flushLocked at ho ⊢
  by_cases h0 : s.closed = true
  · simp [h0, Outcome.committed] at ho
  simp only [h0, Bool.false_eq_true, ↓reduceIte] at ho ⊢
  by_cases h1 : s.pending.isEmpty = true
  · simp only [h1, ↓reduceIte]; exact List.isEmpty_iff.mp h1
  simp only [h1, Bool.false_eq_true, ↓reduceIte] at ho ⊢
  by_cases h2 : s.repairRequired = true
  · simp [h2, Outcome.committed] at ho
  simp only [h2, Bool.false_eq_true, ↓reduceIte] at ho ⊢
  by_cases h3 : (decide (ft = Fault.create) && s.writer.isNone) = true
  · simp [h3, Outcome.committed] at ho
  simp only [h3, Bool.false_eq_true, ↓reduceIte] at ho ⊢
  by_cases h4 : ft = Fault.append
  · simp [h4, Outcome.committed] at ho
  simp only [h4, ↓reduceIte] at ho ⊢
  by_cases h5 : ft = Fault.appendNoRepair
  · simp [h5, Outcome.committed] at ho
  simp only [h5, ↓reduceIte] at ho ⊢
  by_cases h5' : ft = Fault.appendFullNoRepair
  · simp [h5', Outcome.committed] at ho
  simp only [h5', ↓reduceIte] at ho ⊢
  by_cases h6 : countPrunes s.pending = 0
  · simp [h6]
  simp only [h6, ↓reduceIte] at ho ⊢
  by_cases h7 : s.sinceCleanup + countPrunes s.pending < cleanupInterval
  · simp [h7]
  simp only [h7, ↓reduceIte] at ho ⊢
  by_cases h8 : ft = Fault.watermark
  · simp [h8]
  simp only [h8, ↓reduceIte]
  unfold cleanup
  simp only
  split
  · rfl
  · split <;> rfl

/-- a flush never closes or reopens the store -/
theorem flush_closed_same (s : Store) (d : Disk) (ft : Fault) : (flushLocked s d ft).st.closed = s.closed := by
  cases hcl : s.closed with
  | true => rw [flushLocked_closed _ _ _ hcl]; exact hcl
  | false =>
    obtain ⟨_, _, e3, _⟩ := ensureWriter_fields s d
    rw [hcl] at e3
    unfold flushLocked
    simp only [hcl, Bool.false_eq_true, ↓reduceIte]
    by_cases h1 : s.pending.isEmpty = true
    · simp [h1, hcl]
    simp only [h1, Bool.false_eq_true, ↓reduceIte]
    by_cases h2 : s.repairRequired = true
    · simp [h2, hcl]
    simp only [h2, Bool.false_eq_true, ↓reduceIte]
    by_cases h3 : (decide (ft = Fault.create) && s.writer.isNone) = true
    · simp [h3, hcl]
    simp only [h3, Bool.false_eq_true, ↓reduceIte]
    by_cases h4 : ft = Fault.append
    · simp [h4, e3]
    simp only [h4, ↓reduceIte]
    by_cases h5 : ft = Fault.appendNoRepair
    · simp [h5, e3]
    simp only [h5, ↓reduceIte]
    by_cases h5' : ft = Fault.appendFullNoRepair
    · simp [h5', e3]
    simp only [h5', ↓reduceIte]
    by_cases h6 : countPrunes s.pending = 0
    · simp [h6, e3]
    simp only [h6, ↓reduceIte]
    by_cases h7 : s.sinceCleanup + countPrunes s.pending < cleanupInterval
    · simp [h7, e3]
    simp only [h7, ↓reduceIte]
    by_cases h8 : ft = Fault.watermark
    · simp [h8, e3]
    simp only [h8, ↓reduceIte]
    unfold cleanup
    simp only
    split
    · exact e3
    · split <;> exact e3

/-- what `NewTendermintWALStore` returns is open and not blocked -/
theorem openStore_fresh (d : Disk) (s : Store) (d' : Disk) (h : openStore d = .ok (s, d')) :
    s.closed = false ∧ s.repairRequired = false ∧ s.pending = [] := by
  unfold openStore at h
  simp only at h
  split at h
  · cases h
  · simp only [Except.ok.injEq, Prod.mk.injEq] at h
    obtain ⟨rfl, _⟩ := h
    exact ⟨rfl, rfl, rfl⟩

/-! #### the ideal "pruned" predicate -/

theorem le_maxPrune_iff (A : List Rec) (h : Nat) (hpos : 0 < h) : h ≤ maxPrune A ↔ prunedIdeal A h = true := by
  induction A with
  | nil => simp [maxPrune, prunedIdeal]; omega
  | cons r A ih =>
    cases r with
    | entry h' e => simpa [maxPrune, prunedIdeal] using ih
    | prune p =>
      simp only [maxPrune, prunedIdeal, List.any_cons, Bool.or_eq_true, decide_eq_true_eq] at ih ⊢
      constructor
      · intro hle
        by_cases hp : h ≤ p
        · exact Or.inl hp
        · exact Or.inr (ih.mp (by omega))
      · intro hor
        rcases hor with hp | hr
        · omega
        · have := ih.mpr hr; omega

theorem entriesOf_zero_of_positive (A : List Rec) (hp : HeightsPositive A) : entriesOf 0 A = [] := by
  induction A with
  | nil => rfl
  | cons r A ih =>
    have hp' : HeightsPositive A := fun h e hm => hp h e (List.mem_cons_of_mem _ hm)
    cases r with
    | entry h' e =>
      have := hp h' e List.mem_cons_self
      have hne : h' ≠ 0 := by omega
      simp [entriesOf, hne, ih hp']
    | prune p => simpa [entriesOf] using ih hp'

/-- For histories that never use height 0, juno's encoding of "pruned" and the ideal one agree. -/
theorem LoadSpec.ideal {out : List (Nat × List Nat)} {A : List Rec} (s : LoadSpec out A) (hp : HeightsPositive A) :
    LoadSpecIdeal out A := by
  refine ⟨s.sorted, s.nonempty, ?_⟩
  intro h
  rw [s.exact h]
  by_cases h0 : h = 0
  · subst h0
    simp only [Nat.zero_le, ↓reduceIte, entriesOf_zero_of_positive A hp]
    split <;> rfl
  · have hpos : 0 < h := by omega
    by_cases hle : h ≤ maxPrune A
    · simp [hle, (le_maxPrune_iff A h hpos).mp hle]
    · have : prunedIdeal A h = false := by
        cases hc : prunedIdeal A h with
        | false => rfl
        | true => exact absurd ((le_maxPrune_iff A h hpos).mpr hc) hle
      simp [hle, this]

/-! #### codec ∘ model -/

/-- the abstract record of a decoded payload: an entry is named by an arbitrary injective id -/
def toRec (name : Codec.Payload → Nat) : Codec.Payload → Rec
  | .prune h => .prune h
  | p => .entry p.height (name p)

theorem decode_batch (name : Codec.Payload → Nat) (ps : List Codec.Payload) (hw : ∀ p ∈ ps, p.WF) :
    (ps.map Codec.encode).filterMap (fun b => (Codec.decode b).map (toRec name)) = ps.map (toRec name) := by
  induction ps with
  | nil => rfl
  | cons p ps ih =>
    have h1 := Codec.decode_encode p (hw p List.mem_cons_self)
    simp only [List.map_cons, List.filterMap_cons, h1, Option.map_some]
    rw [ih (fun q hq => hw q (List.mem_cons_of_mem _ hq))]

end Juno.C14
