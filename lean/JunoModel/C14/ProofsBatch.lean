import JunoModel.C14.Batch
import JunoModel.C14.ProofsCodec
/-! C14 — the batch layer (`encodeBatch` / `applyEncodedBatch`) and the watermark file: what was
written is what is read. -/
namespace Juno.C14.Batch
open Juno.C14 Juno.C14.Codec

theorem by8_val (x : Nat) : (by8 x).toNat = x % 256 := by
  simp [by8, UInt8.toNat_ofNat']

theorem decodeStr_fixed (n : Nat) (h : n < 4294967296) (data : List UInt8) :
    decodeStr (putFixedUvarint32 n ++ data) = cut n data := by
  simp only [putFixedUvarint32, List.cons_append, List.nil_append, decodeStr, by8_val]
  have h1 : ¬ ((n % 128 + 128) % 256 < 128) := by omega
  have h2 : ¬ ((n / 128 % 128 + 128) % 256 < 128) := by omega
  have h3 : ¬ ((n / 16384 % 128 + 128) % 256 < 128) := by omega
  have h4 : ¬ ((n / 2097152 % 128 + 128) % 256 < 128) := by omega
  simp only [h1, h2, h3, h4, ↓reduceIte]
  congr 1
  omega


theorem be32_length (i : Nat) : (be32 i).length = 4 := rfl

/-- the key of a record: a one-byte varint length 4 and four bytes -/
theorem decodeStr_key (i : Nat) (rest : List UInt8) : decodeStr (4 :: (be32 i ++ rest)) = .ok (be32 i) rest := by
  simp [decodeStr, cut, be32]

theorem next_encodeRecord (i : Nat) (p rest : List UInt8) (h : p.length < 4294967296) :
    next (encodeRecord i p ++ rest) = .item kindSet (be32 i) p rest := by
  have e : encodeRecord i p ++ rest = kindSet :: 4 :: (be32 i ++ (putFixedUvarint32 p.length ++ (p ++ rest))) := by
    simp [encodeRecord, List.append_assoc]
  rw [e]
  simp only [next, decodeStr_key, decodeStr_fixed _ h]
  have : ¬ (p.length + rest.length < p.length) := by omega
  simp [kindSet, kindMax, kindHasValue, cut, this]

/-- the loop of `applyEncodedBatch` over records that were written: all of them come back, in order,
and the count in the header must be their number -/
theorem applyLoop_written (ps : List Payload) (hw : ∀ p ∈ ps, p.WF)
    (hl : ∀ p ∈ ps, (Codec.encode p).length < 4294967296) :
    ∀ (fuel i seen count : Nat) (acc : List Payload), ps.length < fuel →
      applyLoop fuel (encodeRecords i (ps.map Codec.encode)) seen count acc =
        if seen + ps.length ≠ count then .error .count else .ok (acc.reverse ++ ps) := by
  induction ps with
  | nil =>
    intro fuel i seen count acc hf
    cases fuel with
    | zero => omega
    | succ f => simp [applyLoop, encodeRecords, next]
  | cons p ps ih =>
    intro fuel i seen count acc hf
    cases fuel with
    | zero => omega
    | succ f =>
      have h1 := Codec.decode_encode p (hw p List.mem_cons_self)
      simp only [List.map_cons, encodeRecords, applyLoop, next_encodeRecord _ _ _ (hl p List.mem_cons_self), h1]
      simp only [ne_eq, not_true_eq_false, ↓reduceIte]
      rw [ih (fun q hq => hw q (List.mem_cons_of_mem _ hq)) (fun q hq => hl q (List.mem_cons_of_mem _ hq)) f (i + 1)
        (seen + 1) count (p :: acc) (by simp at hf; omega)]
      simp only [List.length_cons, List.reverse_cons, List.append_assoc, List.singleton_append]
      have : seen + 1 + ps.length = seen + (ps.length + 1) := by omega
      rw [this]

theorem readHeader_encodeBatch (seq : Nat) (pl : List (List UInt8)) (hs : W64 seq) (hc : pl.length < 4294967296) :
    readHeader (encodeBatch seq pl) = some (seq, pl.length) := by
  have hlen : ¬ (encodeBatch seq pl).length < 12 := by
    simp [encodeBatch, le64, le32]
  unfold readHeader
  rw [if_neg hlen]
  simp only [encodeBatch, List.append_assoc, rd64_le64 _ hs]
  simp only [le32, List.cons_append, List.nil_append, by8_val]
  congr 2
  omega

theorem drop_encodeBatch (seq : Nat) (pl : List (List UInt8)) : (encodeBatch seq pl).drop 12 = encodeRecords 0 pl := by
  simp [encodeBatch, le64, le32]


theorem encodeRecords_length_ge (pl : List (List UInt8)) (i : Nat) : pl.length ≤ (encodeRecords i pl).length := by
  induction pl generalizing i with
  | nil => simp [encodeRecords]
  | cons p pl ih =>
    have := ih (i + 1)
    simp only [encodeRecords, encodeRecord, List.length_cons, List.length_append]
    omega

/-- every encoded record payload is short (at most 91 bytes: a proposal with a value) -/
theorem encode_length_le (p : Payload) : (Codec.encode p).length ≤ 91 := by
  cases p with
  | start h => simp [Codec.encode, le64]
  | proposal hdr vr v => cases v <;> simp [Codec.encode, le64, encHdr, encLimbs, encOpt]
  | prevote hdr id => cases id <;> simp [Codec.encode, le64, encHdr, encLimbs, encOpt]
  | precommit hdr id => cases id <;> simp [Codec.encode, le64, encHdr, encLimbs, encOpt]
  | timeout st h r => simp [Codec.encode, le64]
  | prune h => simp [Codec.encode, le64]

/-- **What `encodeBatch` wrote, `applyEncodedBatch` reads**: sequence number, count and every record,
in order. -/
theorem applyBatch_written (seq : Nat) (ps : List Payload) (hs : W64 seq) (hw : ∀ p ∈ ps, p.WF)
    (hc : ps.length < 4294967296) :
    applyBatch (encodeBatch seq (ps.map Codec.encode)) = .ok (seq, ps.length, ps) := by
  unfold applyBatch
  have hh := readHeader_encodeBatch seq (ps.map Codec.encode) hs (by simpa using hc)
  simp only [List.length_map] at hh
  rw [hh]
  simp only [drop_encodeBatch]
  have hf : ps.length < (encodeBatch seq (ps.map Codec.encode)).length + 1 := by
    have := encodeRecords_length_ge (ps.map Codec.encode) 0
    simp only [encodeBatch, List.length_append, List.length_map] at this ⊢
    omega
  rw [applyLoop_written ps hw (fun p _ => by have := encode_length_le p; omega) _ 0 0 ps.length [] hf]
  simp

/-- the records of a log as the store writes them: one batch per flush, each with its sequence number -/
def writtenLog (bs : List (List Payload)) (qs : List Nat) : List (List UInt8) :=
  List.zipWith (fun b q => encodeBatch q (b.map Codec.encode)) bs qs

/-- **The bytes of a log refine the log model.** Reading the records the store wrote — with Pebble's
silent skip of empty batches and of sequence numbers that do not increase — hands to
`applyEncodedBatch` exactly the batches (and sequence numbers) that `visibleFrom` of `Model.lean`
says, record for record under `toRec`. -/
theorem readLog_written (name : Payload → Nat) (bs : List (List Payload)) :
    ∀ (qs : List Nat) (last : Nat), (∀ b ∈ bs, (∀ p ∈ b, p.WF) ∧ b.length < 4294967296) → (∀ q ∈ qs, W64 q) →
      ∃ out, readLog last (writtenLog bs qs) = .ok out ∧
        out.map (fun x => (x.2.map (toRec name), x.1)) = visibleFrom last (bs.map (·.map (toRec name))) qs := by
  induction bs with
  | nil => intro qs last _ _; exact ⟨[], by simp [writtenLog, readLog], by simp [visibleFrom]⟩
  | cons b bs ih =>
    intro qs last hb hq
    cases qs with
    | nil => exact ⟨[], by simp [writtenLog, readLog], by simp [visibleFrom]⟩
    | cons q qs =>
      obtain ⟨hbw, hbl⟩ := hb b List.mem_cons_self
      have hqw := hq q List.mem_cons_self
      have hh := readHeader_encodeBatch q (b.map Codec.encode) hqw (by simpa using hbl)
      simp only [List.length_map] at hh
      have hab := applyBatch_written q b hqw hbw hbl
      have hb' : ∀ b' ∈ bs, (∀ p ∈ b', p.WF) ∧ b'.length < 4294967296 := fun b' h' => hb b' (List.mem_cons_of_mem _ h')
      have hq' : ∀ q' ∈ qs, W64 q' := fun q' h' => hq q' (List.mem_cons_of_mem _ h')
      have hempty : (b.map (toRec name)).isEmpty = decide (b.length = 0) := by
        cases b <;> simp
      simp only [writtenLog, List.zipWith_cons_cons, readLog, hh, List.map_cons, visibleFrom, hempty]
      by_cases hskip : (b.length = 0) ∨ q ≤ last
      · obtain ⟨out, o1, o2⟩ := ih qs last hb' hq'
        have c1 : (decide (b.length = 0) || decide (q ≤ last)) = true := by
          rcases hskip with h | h <;> simp [h]
        simp only [c1, ↓reduceIte]
        exact ⟨out, o1, o2⟩
      · obtain ⟨out, o1, o2⟩ := ih qs q hb' hq'
        have c1 : (decide (b.length = 0) || decide (q ≤ last)) = false := by
          have h1 : ¬ b.length = 0 := fun h => hskip (Or.inl h)
          have h2 : ¬ q ≤ last := fun h => hskip (Or.inr h)
          simp [h1, h2]
        simp only [c1, Bool.false_eq_true, ↓reduceIte, hab]
        simp only [writtenLog] at o1
        rw [o1]
        exact ⟨(q, b) :: out, rfl, by simp [o2]⟩

/-! ### the watermark file -/

theorem rdBE64_be64 (n : Nat) (h : W64 n) : rdBE64 (be64 n) = n := by
  unfold W64 at h
  simp only [be64, rdBE64, by8_val]
  omega

/-- what `writePruneWatermark` writes, `loadPruneWatermark` reads -/
theorem wmDecode_wmEncode (h : Nat) (hw : W64 h) : wmDecode (wmEncode h) = .ok h := by
  have e1 : (wmEncode h).length = wmSize := by simp [wmEncode, wmHeader, be64, wmSize]
  have e2 : (wmEncode h).take 27 = wmHeader := by simp [wmEncode, wmHeader]
  have e3 : (wmEncode h).drop 27 = be64 h := by simp [wmEncode, wmHeader]
  simp only [wmDecode, e1, ne_eq, not_true_eq_false, ↓reduceIte, e2, e3, rdBE64_be64 h hw]

theorem be64_rdBE64 (a b c d e f g hh : UInt8) :
    be64 (rdBE64 [a, b, c, d, e, f, g, hh]) = [a, b, c, d, e, f, g, hh] ∧ W64 (rdBE64 [a, b, c, d, e, f, g, hh]) := by
  have ha := UInt8.toNat_lt a
  have hb := UInt8.toNat_lt b
  have hc := UInt8.toNat_lt c
  have hd := UInt8.toNat_lt d
  have he := UInt8.toNat_lt e
  have hf := UInt8.toNat_lt f
  have hg := UInt8.toNat_lt g
  have hh' := UInt8.toNat_lt hh
  refine ⟨?_, by simp only [W64, rdBE64]; omega⟩
  simp only [be64, rdBE64]
  have k : ∀ (x : UInt8) (n : Nat), n % 256 = x.toNat → by8 n = x := by
    intro x n hn
    unfold by8
    rw [hn]; simp
  congr 1
  · exact k _ _ (by omega)
  congr 1
  · exact k _ _ (by omega)
  congr 1
  · exact k _ _ (by omega)
  congr 1
  · exact k _ _ (by omega)
  congr 1
  · exact k _ _ (by omega)
  congr 1
  · exact k _ _ (by omega)
  congr 1
  · exact k _ _ (by omega)
  congr 1
  exact k _ _ (by omega)

/-- only the exact 35 bytes `writePruneWatermark` produces are accepted -/
theorem wmDecode_canonical (bs : List UInt8) (h : Nat) (hd : wmDecode bs = .ok h) : bs = wmEncode h ∧ W64 h := by
  unfold wmDecode at hd
  split at hd
  · cases hd
  · rename_i hl
    split at hd
    · cases hd
    · rename_i ht
      simp only [ne_eq, Decidable.not_not] at hl ht
      simp only [Except.ok.injEq] at hd
      have hsplit : bs = bs.take 27 ++ bs.drop 27 := (List.take_append_drop 27 bs).symm
      have hdl : (bs.drop 27).length = 8 := by simp [hl, wmSize]
      match hdr : bs.drop 27, hdl with
      | [a, b, c, d, e, f, g, hh], _ =>
        obtain ⟨k1, k2⟩ := be64_rdBE64 a b c d e f g hh
        rw [hdr] at hd
        subst hd
        refine ⟨?_, k2⟩
        rw [hsplit, ht, hdr, wmEncode, k1]


/-! ### the fuel of `applyLoop` never runs out -/

theorem cut_len (v : Nat) (data s rest : List UInt8) (h : cut v data = .ok s rest) : rest.length ≤ data.length := by
  unfold cut at h
  split at h
  · cases h
  · simp only [Str.ok.injEq] at h
    rw [← h.2, List.length_drop]; omega

theorem decodeStr_len (data s rest : List UInt8) (h : decodeStr data = .ok s rest) : rest.length < data.length := by
  unfold decodeStr at h
  split at h
  · cases h
  · split at h
    · have := cut_len _ _ _ _ h; simp only [List.length_cons]; omega
    · split at h
      · cases h
      · split at h
        · have := cut_len _ _ _ _ h; simp only [List.length_cons]; omega
        · split at h
          · cases h
          · split at h
            · have := cut_len _ _ _ _ h; simp only [List.length_cons]; omega
            · split at h
              · cases h
              · split at h
                · have := cut_len _ _ _ _ h; simp only [List.length_cons]; omega
                · split at h
                  · cases h
                  · have := cut_len _ _ _ _ h; simp only [List.length_cons]; omega

theorem next_len (r : List UInt8) (k : UInt8) (key v rest : List UInt8) (h : next r = .item k key v rest) :
    rest.length < r.length := by
  unfold next at h
  split at h
  · cases h
  · split at h
    · cases h
    · split at h
      · cases h
      · cases h
      · rename_i hk
        have l1 := decodeStr_len _ _ _ hk
        split at h
        · split at h
          · cases h
          · cases h
          · rename_i hv
            have l2 := decodeStr_len _ _ _ hv
            simp only [NextRes.item.injEq] at h
            rw [← h.2.2.2]; simp only [List.length_cons]; omega
        · simp only [NextRes.item.injEq] at h
          rw [← h.2.2.2]; simp only [List.length_cons]; omega

/-- The fuel argument is a device to make the loop structurally recursive: with more fuel than bytes
the result does not depend on it — in particular `applyBatch` never answers `iter` because the
fuel ran out. -/
theorem applyLoop_fuel (f1 : Nat) : ∀ (f2 : Nat) (r : List UInt8) (seen count : Nat) (acc : List Payload),
    r.length < f1 → r.length < f2 → applyLoop f1 r seen count acc = applyLoop f2 r seen count acc := by
  induction f1 with
  | zero => intro f2 r seen count acc h1; omega
  | succ f1 ih =>
    intro f2 r seen count acc h1 h2
    cases f2 with
    | zero => omega
    | succ f2 =>
      simp only [applyLoop]
      cases hn : next r with
      | done => rfl
      | err => rfl
      | panic => rfl
      | item k key v rest =>
        have := next_len r k key v rest hn
        simp only
        split
        · rfl
        · split
          · rfl
          · exact ih f2 rest _ _ _ (by omega) (by omega)

end Juno.C14.Batch
