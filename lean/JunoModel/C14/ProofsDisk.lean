import JunoModel.C14.ProofsIdx
/-! C14 — logs on disk: replay of files in closed form, what a reopen yields, and the relation
"the logs under this watermark present that history". -/
namespace Juno.C14
open AMap

def recsOfFile (f : LogFile) : List Rec := f.batches.flatten
def recsOf (fs : List LogFile) : List Rec := fs.flatMap recsOfFile

/-- height of a record -/
def Rec.height : Rec → Nat
  | .entry h _ => h
  | .prune h => h

/-- every record is at or below `w` -/
def Low (w : Nat) (rs : List Rec) : Prop := ∀ r ∈ rs, r.height ≤ w

theorem Low.maxPrune_le {w : Nat} {rs : List Rec} (l : Low w rs) : maxPrune rs ≤ w := by
  induction rs with
  | nil => simp [maxPrune]
  | cons r rs ih =>
    have h1 := l r List.mem_cons_self
    have h2 := ih (fun r' hr' => l r' (List.mem_cons_of_mem _ hr'))
    cases r with
    | entry h e => simpa [maxPrune] using h2
    | prune h => simp only [maxPrune, Rec.height] at *; omega

theorem Low.entriesOf_nil {w : Nat} {rs : List Rec} (l : Low w rs) (h : Nat) (hh : w < h) : entriesOf h rs = [] := by
  induction rs with
  | nil => rfl
  | cons r rs ih =>
    have h1 := l r List.mem_cons_self
    have h2 := ih (fun r' hr' => l r' (List.mem_cons_of_mem _ hr'))
    cases r with
    | entry h' e =>
      simp only [Rec.height] at h1
      have : h' ≠ h := by omega
      simp [entriesOf, this, h2]
    | prune h' => simpa [entriesOf] using h2

theorem Low.append {w : Nat} {a b : List Rec} (la : Low w a) (lb : Low w b) : Low w (a ++ b) := by
  intro r hr
  rcases List.mem_append.mp hr with h | h
  · exact la r h
  · exact lb r h

theorem Low.mono {w w' : Nat} {a : List Rec} (la : Low w a) (h : w ≤ w') : Low w' a :=
  fun r hr => Nat.le_trans (la r hr) h

/-! #### replay of files -/

theorem applyRecs_append (x : Idx) (f : Nat) (a b : List Rec) :
    x.applyRecs f (a ++ b) = (x.applyRecs f a).applyRecs f b := by
  simp [Idx.applyRecs, List.foldl_append]

/-- The batches of a log carry strictly increasing, positive sequence numbers and none is empty:
what `flushLocked` writes (`nextBatchSeqNum` only grows, an empty flush writes nothing). -/
structure SeqOK (f : LogFile) : Prop where
  len : f.seqs.length = f.batches.length
  inc : f.seqs.Pairwise (· < ·)
  pos : ∀ q ∈ f.seqs, 0 < q
  nonempty : ∀ b ∈ f.batches, b ≠ []

theorem visibleFrom_all (last : Nat) (bs : List (List Rec)) (qs : List Nat) (hl : qs.length = bs.length)
    (hi : qs.Pairwise (· < ·)) (hp : ∀ q ∈ qs, last < q) (hn : ∀ b ∈ bs, b ≠ []) :
    (visibleFrom last bs qs).map (·.1) = bs ∧ (visibleFrom last bs qs).map (·.2) = qs := by
  induction bs generalizing last qs with
  | nil => cases qs <;> simp [visibleFrom] at hl ⊢
  | cons b bs ih =>
    cases qs with
    | nil => simp at hl
    | cons q qs =>
      have hb : b ≠ [] := hn b List.mem_cons_self
      have hq : last < q := hp q List.mem_cons_self
      have hc : (b.isEmpty || decide (q ≤ last)) = false := by
        have : ¬ q ≤ last := by omega
        simp [this, hb]
      have hi' := List.pairwise_cons.mp hi
      obtain ⟨i1, i2⟩ := ih q qs (by simpa using hl) hi'.2 (fun q' hq' => hi'.1 q' hq')
        (fun b' hb' => hn b' (List.mem_cons_of_mem _ hb'))
      simp only [visibleFrom, hc, Bool.false_eq_true, ↓reduceIte, List.map_cons, i1, i2, and_self]

/-- With well-formed sequence numbers Pebble's reader skips nothing. -/
theorem SeqOK.visible {f : LogFile} (h : SeqOK f) : f.visible = f.batches :=
  (visibleFrom_all 0 f.batches f.seqs h.len h.inc h.pos h.nonempty).1

theorem replayFile_eq (x : Idx) (f : LogFile) (h : SeqOK f) : replayFile x f = x.applyRecs f.num (recsOfFile f) := by
  unfold replayFile recsOfFile
  rw [h.visible]
  generalize f.batches = bs
  induction bs generalizing x with
  | nil => rfl
  | cons b bs ih =>
    simp only [List.foldl_cons, List.flatten_cons, applyRecs_append]
    exact ih _

theorem recsOf_cons (f : LogFile) (fs : List LogFile) : recsOf (f :: fs) = recsOfFile f ++ recsOf fs := by
  simp [recsOf]

theorem recsOf_append (a b : List LogFile) : recsOf (a ++ b) = recsOf a ++ recsOf b := by
  simp [recsOf]

theorem replayFiles_EWF (x : Idx) (fs : List LogFile) (hs : ∀ f ∈ fs, SeqOK f) (w : x.EWF) : (replayFiles x fs).EWF := by
  induction fs generalizing x with
  | nil => exact w
  | cons f fs ih =>
    simp only [replayFiles, List.foldl_cons]
    apply ih _ (fun g hg => hs g (List.mem_cons_of_mem _ hg))
    rw [replayFile_eq _ _ (hs f List.mem_cons_self)]
    exact applyRecs_EWF x f.num _ w

theorem replayFiles_closed (x : Idx) (fs : List LogFile) (hs : ∀ f ∈ fs, SeqOK f) (w : x.EWF) :
    (replayFiles x fs).pruned = max x.pruned (maxPrune (recsOf fs)) ∧
    ∀ h, (replayFiles x fs).view h =
      if h ≤ max x.pruned (maxPrune (recsOf fs)) then [] else x.view h ++ entriesOf h (recsOf fs) := by
  induction fs generalizing x with
  | nil =>
    refine ⟨by simp [replayFiles, recsOf, maxPrune], ?_⟩
    intro h
    simp only [replayFiles, List.foldl_nil, recsOf, List.flatMap_nil, maxPrune, Nat.max_zero, entriesOf, List.append_nil]
    by_cases hh : h ≤ x.pruned
    · simp [hh, w.view_low h hh]
    · simp [hh]
  | cons f fs ih =>
    have hstep : replayFiles x (f :: fs) = replayFiles (replayFile x f) fs := rfl
    rw [hstep, replayFile_eq _ _ (hs f List.mem_cons_self)]
    have w1 := applyRecs_EWF x f.num (recsOfFile f) w
    obtain ⟨p1, v1⟩ := applyRecs_closed x f.num (recsOfFile f) w
    obtain ⟨p2, v2⟩ := ih _ (fun g hg => hs g (List.mem_cons_of_mem _ hg)) w1
    rw [recsOf_cons, maxPrune_append]
    refine ⟨by rw [p2, p1]; omega, ?_⟩
    intro h
    rw [v2 h, p1, v1 h, entriesOf_append]
    by_cases hc : h ≤ max x.pruned (max (maxPrune (recsOfFile f)) (maxPrune (recsOf fs)))
    · have : h ≤ max (max x.pruned (maxPrune (recsOfFile f))) (maxPrune (recsOf fs)) := by omega
      simp [hc]
    · have h1 : ¬ h ≤ max (max x.pruned (maxPrune (recsOfFile f))) (maxPrune (recsOf fs)) := by omega
      have h2 : ¬ h ≤ max x.pruned (maxPrune (recsOfFile f)) := by omega
      simp [hc, h2]

/-! #### what a reopen yields -/

/-- only the latest log may end in an invalid record -/
def GarbageOnlyLast (fs : List LogFile) : Prop := ∀ f ∈ fs.dropLast, f.garbage = false

theorem recsOf_clearLastGarbage (fs : List LogFile) : recsOf (clearLastGarbage fs) = recsOf fs := by
  induction fs with
  | nil => rfl
  | cons f fs ih =>
    cases fs with
    | nil => simp [clearLastGarbage, recsOf, recsOfFile]
    | cons g gs =>
      simp only [clearLastGarbage, recsOf_cons] at ih ⊢
      rw [ih]

theorem clearLastGarbage_clean (fs : List LogFile) (g : GarbageOnlyLast fs) :
    (clearLastGarbage fs).any (·.garbage) = false := by
  induction fs with
  | nil => rfl
  | cons f fs ih =>
    cases fs with
    | nil => simp [clearLastGarbage]
    | cons f' gs =>
      simp only [clearLastGarbage, List.any_cons, Bool.or_eq_false_iff]
      constructor
      · exact g f (by simp [List.dropLast])
      · apply ih
        intro a ha
        exact g a (by simp only [List.dropLast_cons_cons]; exact List.mem_cons_of_mem _ ha)

/-- The records `rs` found in the logs, read under watermark `w`, present the history `A`:
same highest prune, same entries for every height above it. -/
structure Presents (w : Nat) (rs A : List Rec) : Prop where
  wm : max w (maxPrune rs) = maxPrune A
  ents : ∀ h, maxPrune A < h → entriesOf h rs = entriesOf h A

def Disk.wmVal (d : Disk) : Nat := d.wm.getD 0

theorem empty_EWF (w : Nat) : ({ pruned := w } : Idx).EWF :=
  ⟨by simp [Sorted, keys], by simp, by simp⟩

theorem openStore_ok (d : Disk) (g : GarbageOnlyLast d.files) :
    openStore d = .ok ({ nextWAL := nextNum (clearLastGarbage d.files),
                         idx := replayFiles { pruned := d.wm.getD 0 } (clearLastGarbage d.files),
                         known := (clearLastGarbage d.files).map (·.num),
                         nextSeq := (clearLastGarbage d.files).foldl seqAfterFile 1 },
                       { d with files := clearLastGarbage d.files }) := by
  unfold openStore
  simp [clearLastGarbage_clean d.files g]

/-- A directory whose logs present `A` reopens without error and shows exactly `A`. -/
theorem seqOK_clearLastGarbage (fs : List LogFile) (hs : ∀ f ∈ fs, SeqOK f) : ∀ f ∈ clearLastGarbage fs, SeqOK f := by
  induction fs with
  | nil => intro f hf; simp [clearLastGarbage] at hf
  | cons f fs ih =>
    cases fs with
    | nil =>
      intro g hg
      simp only [clearLastGarbage, List.mem_singleton] at hg
      subst hg
      have h := hs f List.mem_cons_self
      exact ⟨h.len, h.inc, h.pos, h.nonempty⟩
    | cons f' gs =>
      intro g hg
      simp only [clearLastGarbage] at hg ih
      rcases List.mem_cons.mp hg with rfl | h
      · exact hs _ List.mem_cons_self
      · exact ih (fun a ha => hs a (List.mem_cons_of_mem _ ha)) g h

theorem recover_of_presents (d : Disk) (A : List Rec) (g : GarbageOnlyLast d.files) (hs : ∀ f ∈ d.files, SeqOK f)
    (p : Presents d.wmVal (recsOf d.files) A) :
    ∃ out, recover d = .ok out ∧ LoadSpec out A := by
  refine ⟨(replayFiles { pruned := d.wm.getD 0 } (clearLastGarbage d.files)).entries, ?_, ?_⟩
  · unfold recover
    rw [openStore_ok d g]
    rfl
  · have w0 := empty_EWF (d.wm.getD 0)
    have hs' := seqOK_clearLastGarbage d.files hs
    have w1 := replayFiles_EWF _ (clearLastGarbage d.files) hs' w0
    obtain ⟨_, v⟩ := replayFiles_closed _ (clearLastGarbage d.files) hs' w0
    refine ⟨w1.sorted, w1.nonempty, ?_⟩
    intro h
    have := v h
    unfold Idx.view at this
    rw [this, recsOf_clearLastGarbage]
    have hw : max (d.wm.getD 0) (maxPrune (recsOf d.files)) = maxPrune A := p.wm
    simp only [hw, get?_nil, Option.getD_none, List.nil_append]
    by_cases hc : h ≤ maxPrune A
    · simp [hc]
    · simp only [hc, ↓reduceIte]
      exact p.ents h (by omega)

/-! #### algebra of `Presents` -/

/-- two batches are interchangeable after a history whose highest prune is `P` -/
structure Equiv (P : Nat) (b c : List Rec) : Prop where
  mp : max P (maxPrune b) = max P (maxPrune c)
  ents : ∀ h, max P (maxPrune b) < h → entriesOf h b = entriesOf h c

theorem Equiv.rfl' (P : Nat) (b : List Rec) : Equiv P b b := ⟨rfl, fun _ _ => rfl⟩

theorem Presents.nil : Presents 0 [] [] := ⟨by simp [maxPrune], fun _ _ => rfl⟩

theorem Presents.le_wm {w : Nat} {rs A : List Rec} (p : Presents w rs A) : w ≤ maxPrune A := by
  have := p.wm; omega

theorem Presents.append {w : Nat} {rs A b c : List Rec} (p : Presents w rs A) (e : Equiv (maxPrune A) b c) :
    Presents w (rs ++ b) (A ++ c) := by
  have hw := p.wm
  have hm := e.mp
  refine ⟨by rw [maxPrune_append, maxPrune_append]; omega, ?_⟩
  intro h hh
  rw [maxPrune_append] at hh
  rw [entriesOf_append, entriesOf_append, p.ents h (by omega), e.ents h (by omega)]

theorem Presents.raise {w w' : Nat} {rs A : List Rec} (p : Presents w rs A) (h1 : w ≤ w') (h2 : w' ≤ maxPrune A) :
    Presents w' rs A := by
  have := p.wm
  exact ⟨by omega, p.ents⟩

/-- dropping logs whose records are all at or below the new watermark -/
theorem Presents.drop {w : Nat} {z rs A : List Rec} (p : Presents w (z ++ rs) A) (l : Low (maxPrune A) z) :
    Presents (maxPrune A) rs A := by
  have hw := p.wm
  rw [maxPrune_append] at hw
  refine ⟨by omega, ?_⟩
  intro h hh
  have := p.ents h hh
  rw [entriesOf_append, l.entriesOf_nil h hh] at this
  simpa using this

end Juno.C14
