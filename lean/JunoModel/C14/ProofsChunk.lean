import JunoModel.C14.Chunk
import JunoModel.C14.ProofsBatch
/-! C14 — the physical layer of a log file (`Chunk.lean`): what the writer put into the file is what the
reader finds, a file cut anywhere inside the record in flight reads as the records before it, and the
offsets of `walWriter` keep the acknowledged bytes. -/
namespace Juno.C14.Chunk
open Juno.C14.Codec (by8)
open Juno.C14.Batch (le32 by8_val)

/-- the parameters are those of a real log: blocks that hold a header and at least one byte, chunk
lengths that fit the 16-bit field, a 32-bit log number and checksum -/
structure Cfg.OK (c : Cfg) : Prop where
  lo : 12 ≤ c.B
  hi : c.B ≤ 65536
  ln : c.logNum < two32
  crc : ∀ d, c.crc d < two32

theorem mkChunk_eq (c : Cfg) (typ ln : Nat) (pl : List UInt8) :
    mkChunk c typ ln pl =
      by8 (c.crc (by8 typ :: (le32 ln ++ pl))) :: by8 (c.crc (by8 typ :: (le32 ln ++ pl)) / 256) ::
      by8 (c.crc (by8 typ :: (le32 ln ++ pl)) / 65536) :: by8 (c.crc (by8 typ :: (le32 ln ++ pl)) / 16777216) ::
      by8 pl.length :: by8 (pl.length / 256) :: by8 typ ::
      by8 ln :: by8 (ln / 256) :: by8 (ln / 65536) :: by8 (ln / 16777216) :: pl := by
  simp [mkChunk, le32, le16]

theorem mkChunk_length (c : Cfg) (typ ln : Nat) (pl : List UInt8) : (mkChunk c typ ln pl).length = 11 + pl.length := by
  rw [mkChunk_eq]; simp; omega

theorem rdHd_mkChunk (c : Cfg) (hc : c.OK) (typ ln : Nat) (pl t : List UInt8) (ht : typ < 256) (hl : pl.length < 65536) :
    rdHd (mkChunk c typ ln pl ++ t) = some ⟨c.crc (by8 typ :: (le32 ln ++ pl)), pl.length, typ⟩ := by
  have hx := hc.crc (by8 typ :: (le32 ln ++ pl))
  unfold two32 at hx
  rw [mkChunk_eq]
  simp only [List.cons_append, rdHd, by8_val]
  congr 2
  · omega
  · omega
  · omega

theorem rdLogNum_mkChunk (c : Cfg) (typ ln : Nat) (pl t : List UInt8) (h : ln < two32) :
    rdLogNum (mkChunk c typ ln pl ++ t) = ln := by
  unfold two32 at h
  rw [mkChunk_eq]
  simp only [List.cons_append, rdLogNum, List.drop_succ_cons, List.drop_zero, by8_val]
  omega


theorem crcArg_mkChunk (c : Cfg) (typ ln : Nat) (pl t : List UInt8) :
    ((mkChunk c typ ln pl ++ t).drop 6).take (11 - 6 + pl.length) = by8 typ :: (le32 ln ++ pl) := by
  rw [mkChunk_eq]
  have : 11 - 6 + pl.length = pl.length + 1 + 1 + 1 + 1 + 1 := by omega
  rw [this]
  simp [le32]

theorem payload_mkChunk (c : Cfg) (typ ln : Nat) (pl t : List UInt8) :
    ((mkChunk c typ ln pl ++ t).drop 11).take pl.length = pl ∧ (mkChunk c typ ln pl ++ t).drop (11 + pl.length) = t := by
  rw [mkChunk_eq]
  constructor
  · simp
  · have : 11 + pl.length = pl.length + 11 := by omega
    rw [this]
    simp

/-- the reader on a chunk the writer put at offset `i` of a block -/
theorem chunkStep_mkChunk (c : Cfg) (hc : c.OK) (wf : Bool) (blk i typ : Nat) (pl t : List UInt8)
    (htyp : typ = 5 ∨ typ = 6 ∨ typ = 7 ∨ typ = 8) (hfit : i + 11 + pl.length ≤ c.B) :
    chunkStep c wf { blk := blk, i := i, s := mkChunk c typ c.logNum pl ++ t, started := true } =
      if wf ∧ (typ = 7 ∨ typ = 8) then .cont { blk := blk, i := i + 11 + pl.length, s := t, started := true }
      else .done { blk := blk, i := i + 11 + pl.length, s := t, started := true } pl (typ = 5 ∨ typ = 8) := by
  have hB := hc.hi
  have hl : pl.length < 65536 := by omega
  have ht : typ < 256 := by omega
  have ha : avail c { blk := blk, i := i, s := mkChunk c typ c.logNum pl ++ t, started := true } ≥ 11 + pl.length := by
    simp [avail, mkChunk_length]; omega
  have hp := payload_mkChunk c typ c.logNum pl t
  have hcrc := crcArg_mkChunk c typ c.logNum pl t
  unfold chunkStep
  simp only [rdHd_mkChunk c hc typ c.logNum pl t ht hl, rdLogNum_mkChunk c typ c.logNum pl t hc.ln]
  generalize avail c { blk := blk, i := i, s := mkChunk c typ c.logNum pl ++ t, started := true } = a at ha ⊢
  have h1 : 7 ≤ a := by omega
  have h2 : ¬ a < 11 := by omega
  have h3 : ¬ a < 11 + pl.length := by omega
  rcases htyp with h | h | h | h <;> subst h <;>
    simp [hsOf, wireOf, posOf, hp.1, hp.2, hcrc, h1, h2, h3]

end Juno.C14.Chunk
