import JunoModel.C14.Chunk
import JunoModel.C14.ProofsBatch
/-! C14 — the physical layer of a log file (`Chunk.lean`): what the writer put into the file is what the
reader finds, a file cut anywhere inside the record in flight reads as the records before it, and the
offsets of `walWriter` keep the acknowledged bytes. -/
namespace Juno.C14.Chunk
open Juno.C14.Codec (by8)
open Juno.C14.Batch (le32 by8_val)

/-- the parameters are those of a real log: blocks that hold a header and at least one byte, chunk
lengths that fit the 16-bit field, a 32-bit log number and checksum -/
structure Cfg.OK (c : Cfg) : Prop where
  lo : 12 ≤ c.B
  hi : c.B ≤ 65536
  ln : c.logNum < two32
  crc : ∀ d, c.crc d < two32

theorem mkChunk_eq (c : Cfg) (typ ln : Nat) (pl : List UInt8) :
    mkChunk c typ ln pl =
      by8 (c.crc (by8 typ :: (le32 ln ++ pl))) :: by8 (c.crc (by8 typ :: (le32 ln ++ pl)) / 256) ::
      by8 (c.crc (by8 typ :: (le32 ln ++ pl)) / 65536) :: by8 (c.crc (by8 typ :: (le32 ln ++ pl)) / 16777216) ::
      by8 pl.length :: by8 (pl.length / 256) :: by8 typ ::
      by8 ln :: by8 (ln / 256) :: by8 (ln / 65536) :: by8 (ln / 16777216) :: pl := by
  simp [mkChunk, le32, le16]

theorem mkChunk_length (c : Cfg) (typ ln : Nat) (pl : List UInt8) : (mkChunk c typ ln pl).length = 11 + pl.length := by
  rw [mkChunk_eq]; simp; omega

theorem rdHd_mkChunk (c : Cfg) (hc : c.OK) (typ ln : Nat) (pl t : List UInt8) (ht : typ < 256) (hl : pl.length < 65536) :
    rdHd (mkChunk c typ ln pl ++ t) = some ⟨c.crc (by8 typ :: (le32 ln ++ pl)), pl.length, typ⟩ := by
  have hx := hc.crc (by8 typ :: (le32 ln ++ pl))
  unfold two32 at hx
  rw [mkChunk_eq]
  simp only [List.cons_append, rdHd, by8_val]
  congr 2
  · omega
  · omega
  · omega

theorem rdLogNum_mkChunk (c : Cfg) (typ ln : Nat) (pl t : List UInt8) (h : ln < two32) :
    rdLogNum (mkChunk c typ ln pl ++ t) = ln := by
  unfold two32 at h
  rw [mkChunk_eq]
  simp only [List.cons_append, rdLogNum, List.drop_succ_cons, List.drop_zero, by8_val]
  omega


theorem crcArg_mkChunk (c : Cfg) (typ ln : Nat) (pl t : List UInt8) :
    ((mkChunk c typ ln pl ++ t).drop 6).take (11 - 6 + pl.length) = by8 typ :: (le32 ln ++ pl) := by
  rw [mkChunk_eq]
  have : 11 - 6 + pl.length = pl.length + 1 + 1 + 1 + 1 + 1 := by omega
  rw [this]
  simp [le32]

theorem payload_mkChunk (c : Cfg) (typ ln : Nat) (pl t : List UInt8) :
    ((mkChunk c typ ln pl ++ t).drop 11).take pl.length = pl ∧ (mkChunk c typ ln pl ++ t).drop (11 + pl.length) = t := by
  rw [mkChunk_eq]
  constructor
  · simp
  · have : 11 + pl.length = pl.length + 11 := by omega
    rw [this]
    simp

/-- the reader on a chunk the writer put at offset `i` of a block -/
theorem chunkStep_mkChunk (c : Cfg) (hc : c.OK) (wf : Bool) (blk i typ : Nat) (pl t : List UInt8)
    (htyp : typ = 5 ∨ typ = 6 ∨ typ = 7 ∨ typ = 8) (hfit : i + 11 + pl.length ≤ c.B) :
    chunkStep c wf { blk := blk, i := i, s := mkChunk c typ c.logNum pl ++ t, started := true } =
      if wf ∧ (typ = 7 ∨ typ = 8) then .cont { blk := blk, i := i + 11 + pl.length, s := t, started := true }
      else .done { blk := blk, i := i + 11 + pl.length, s := t, started := true } pl (typ = 5 ∨ typ = 8) := by
  have hB := hc.hi
  have hl : pl.length < 65536 := by omega
  have ht : typ < 256 := by omega
  have ha : avail c { blk := blk, i := i, s := mkChunk c typ c.logNum pl ++ t, started := true } ≥ 11 + pl.length := by
    simp [avail, mkChunk_length]; omega
  have hp := payload_mkChunk c typ c.logNum pl t
  have hcrc := crcArg_mkChunk c typ c.logNum pl t
  unfold chunkStep
  simp only [rdHd_mkChunk c hc typ c.logNum pl t ht hl, rdLogNum_mkChunk c typ c.logNum pl t hc.ln]
  generalize avail c { blk := blk, i := i, s := mkChunk c typ c.logNum pl ++ t, started := true } = a at ha ⊢
  have h1 : 7 ≤ a := by omega
  have h2 : ¬ a < 11 := by omega
  have h3 : ¬ a < 11 + pl.length := by omega
  rcases htyp with h | h | h | h <;> subst h <;>
    simp [hsOf, wireOf, posOf, hp.1, hp.2, hcrc, h1, h2, h3]


theorem zeros_length (n : Nat) : (zeros n).length = n := by simp [zeros]

theorem rdHd_zeros (k : Nat) (t : List UInt8) (h : 7 ≤ k) : rdHd (zeros k ++ t) = some ⟨0, 0, 0⟩ := by
  obtain ⟨m, rfl⟩ : ∃ m, k = m + 7 := ⟨k - 7, by omega⟩
  simp [zeros, List.replicate_succ, rdHd]

/-- zero padding at the end of a block (7 to 10 bytes: a zeroed header in which no real one fits) -/
theorem chunkStep_zeropad (c : Cfg) (wf : Bool) (blk i k : Nat) (t : List UInt8)
    (hk : 7 ≤ k) (hk' : k < 11) (hi : i + k = c.B) :
    chunkStep c wf { blk := blk, i := i, s := zeros k ++ t, started := true } =
      .cont { blk := blk, i := c.B, s := t, started := true } := by
  have ha : avail c { blk := blk, i := i, s := zeros k ++ t, started := true } = k := by
    simp [avail, zeros_length]; omega
  unfold chunkStep RS.skipBlock
  simp only [ha, rdHd_zeros k t hk]
  have h1 : 7 ≤ k := hk
  simp [h1, hk', zeros_length, ← hi]

/-- the end of a full block (fewer than 7 bytes left, zero padding or nothing): the next block is read -/
theorem chunkStep_readfull (c : Cfg) (wf : Bool) (blk i k : Nat) (x : UInt8) (t : List UInt8)
    (hk : k < 7) (hi : i + k = c.B) :
    chunkStep c wf { blk := blk, i := i, s := zeros k ++ x :: t, started := true } =
      .cont { blk := blk + c.B, i := 0, s := x :: t, started := true } := by
  have ha : avail c { blk := blk, i := i, s := zeros k ++ x :: t, started := true } = k := by
    simp [avail, zeros_length]; omega
  unfold chunkStep
  simp only [ha]
  have h1 : ¬ 7 ≤ k := by omega
  have h2 : ¬ i + k < c.B := by omega
  simp [h1, h2, zeros_length]

/-- … and when the file ends there: a clean end for `Next`, an unexpected one inside a record -/
theorem chunkStep_fileend (c : Cfg) (wf : Bool) (blk i k : Nat) (hk : k < 7) (hi : i + k = c.B) :
    chunkStep c wf { blk := blk, i := i, s := zeros k, started := true } =
      (if wf then .eof else .invalid) := by
  have ha : avail c { blk := blk, i := i, s := zeros k, started := true } = k := by
    simp [avail, zeros_length]; omega
  unfold chunkStep
  simp only [ha]
  have h1 : ¬ 7 ≤ k := by omega
  have h2 : ¬ i + k < c.B := by omega
  cases wf <;> simp [h1, h2, zeros_length]

/-- the first block -/
theorem chunkStep_start (c : Cfg) (wf : Bool) (x : UInt8) (t : List UInt8) :
    chunkStep c wf { s := x :: t } = .cont { blk := 0, i := 0, s := x :: t, started := true } := by
  simp [chunkStep, avail]

theorem chunkStep_start_empty (c : Cfg) (wf : Bool) :
    chunkStep c wf { s := [] } = (if wf then .eof else .invalid) := by
  cases wf <;> simp [chunkStep, avail]

/-! ### fuel -/

theorem nextChunk_succ (c : Cfg) (wf : Bool) :
    ∀ (f : Nat) (r : RS), nextChunk c wf f r ≠ .error .fuel → nextChunk c wf (f + 1) r = nextChunk c wf f r := by
  intro f
  induction f with
  | zero => intro r h; simp [nextChunk] at h
  | succ f ih =>
    intro r h
    rw [nextChunk] at h ⊢
    cases hs : chunkStep c wf r with
    | done r' pl last => simp [nextChunk, hs]
    | eof => simp [nextChunk, hs]
    | invalid => simp [nextChunk, hs]
    | cont r' =>
      rw [hs] at h
      simp only at h ⊢
      rw [ih r' h]
      simp [nextChunk, hs]

theorem nextChunk_mono (c : Cfg) (wf : Bool) (f g : Nat) (r : RS) (hfg : f ≤ g)
    (h : nextChunk c wf f r ≠ .error .fuel) : nextChunk c wf g r = nextChunk c wf f r := by
  induction g with
  | zero =>
    have : f = 0 := by omega
    subst this; rfl
  | succ g ih =>
    by_cases hf : f = g + 1
    · subst hf; rfl
    · have hle : f ≤ g := by omega
      have e := ih hle
      rw [← e] at h
      rw [nextChunk_succ c wf g r h, e]


/-- the measure that every `continue` of `nextChunk` decreases -/
def mu (r : RS) : Nat := 2 * r.s.length + (if r.started ∧ r.i = 0 then 0 else 1)

theorem avail_le (c : Cfg) (r : RS) : avail c r ≤ r.s.length := by
  unfold avail; split <;> simp [List.length_take]; omega

theorem hsOf_ge (enc : Nat) (h0 : enc ≠ 0) (h13 : ¬ 13 ≤ enc) : 7 ≤ hsOf enc := by
  have : enc = 1 ∨ enc = 2 ∨ enc = 3 ∨ enc = 4 ∨ enc = 5 ∨ enc = 6 ∨ enc = 7 ∨ enc = 8 ∨ enc = 9 ∨ enc = 10 ∨
      enc = 11 ∨ enc = 12 := by omega
  rcases this with h | h | h | h | h | h | h | h | h | h | h | h <;> subst h <;> simp [hsOf, wireOf]

/-- what a `continue` of `nextChunk` does to the reader: it passes over at least 7 bytes of the block
(a zeroed header, a chunk that does not start a record), or it reads the next block -/
theorem chunkStep_cont_inv (c : Cfg) (wf : Bool) (r r' : RS) (h : chunkStep c wf r = .cont r') :
    (∃ n, 7 ≤ n ∧ n ≤ avail c r ∧ r' = { r with i := r.i + n, s := r.s.drop n }) ∨
    (avail c r < 7 ∧ ¬ (r.started = true ∧ r.i + avail c r < c.B) ∧
      r' = { blk := if r.started then r.blk + c.B else 0, i := 0, s := r.s.drop (avail c r), started := true }) := by
  unfold chunkStep at h
  simp only [] at h
  by_cases h7 : 7 ≤ avail c r
  · simp only [h7, ↓reduceIte] at h
    cases hh : rdHd r.s with
    | none => simp [hh] at h
    | some hd =>
      simp only [hh] at h
      by_cases h13 : 13 ≤ hd.enc
      · simp [h13] at h
      simp only [h13, ↓reduceIte] at h
      by_cases hz : hd.checksum = 0 ∧ hd.length = 0 ∧ hd.enc = 0
      · simp only [hz, and_self, ↓reduceIte] at h
        have hskip : (∃ n, 7 ≤ n ∧ n ≤ avail c r ∧ r.skipBlock c = { r with i := r.i + n, s := r.s.drop n }) :=
          ⟨avail c r, h7, Nat.le_refl _, rfl⟩
        by_cases h11 : avail c r < 11
        · simp only [h11, ↓reduceIte, Step.cont.injEq] at h
          subst h; exact Or.inl hskip
        · simp only [h11, ↓reduceIte] at h
          by_cases h19 : avail c r < 19
          · simp only [h19, ↓reduceIte] at h
            split at h
            · simp only [Step.cont.injEq] at h
              subst h; exact Or.inl hskip
            · simp at h
          · simp [h19] at h
      · simp only [hz, ↓reduceIte] at h
        by_cases h0 : hd.enc = 0
        · simp [h0] at h
        simp only [h0, ↓reduceIte] at h
        have hhs := hsOf_ge hd.enc h0 h13
        split at h
        · simp at h
        · split at h
          · split at h <;> simp at h
          · split at h
            · simp at h
            · rename_i hlen
              split at h
              · simp at h
              · split at h
                · simp only [Step.cont.injEq] at h
                  subst h
                  refine Or.inl ⟨hsOf hd.enc + hd.length, by omega, by omega, ?_⟩
                  simp [Nat.add_assoc]
                · simp at h
  · simp only [h7, ↓reduceIte] at h
    by_cases hsh : r.started = true ∧ r.i + avail c r < c.B
    · simp only [hsh, and_self, ↓reduceIte] at h
      split at h <;> simp at h
    · simp only [hsh, ↓reduceIte] at h
      split at h
      · split at h <;> simp at h
      · simp only [Step.cont.injEq] at h
        subst h
        exact Or.inr ⟨by omega, hsh, rfl⟩

theorem mu_le (r : RS) : mu r ≤ 2 * r.s.length + 1 := by unfold mu; split <;> omega

theorem chunkStep_cont_mu (c : Cfg) (hc : c.OK) (wf : Bool) (r r' : RS) (h : chunkStep c wf r = .cont r') :
    mu r' < mu r := by
  have hB := hc.lo
  have hal := avail_le c r
  rcases chunkStep_cont_inv c wf r r' h with ⟨n, h7, hn, rfl⟩ | ⟨h7, hsh, rfl⟩
  · have := mu_le { r with i := r.i + n, s := r.s.drop n }
    have h2 : 2 * r.s.length ≤ mu r := by unfold mu; omega
    simp only [List.length_drop] at this
    omega
  · have h1 : mu { blk := if r.started then r.blk + c.B else 0, i := 0, s := r.s.drop (avail c r), started := true }
        = 2 * (r.s.length - avail c r) := by simp [mu]
    rw [h1]
    by_cases hst : r.started = true ∧ r.i = 0
    · exfalso
      apply hsh
      refine ⟨hst.1, ?_⟩
      unfold avail at h7 ⊢
      simp only [hst.1, ↓reduceIte, List.length_take, hst.2] at h7 ⊢
      omega
    · have : mu r = 2 * r.s.length + 1 := by simp [mu, hst]
      omega

theorem nextChunk_fuel_ok (c : Cfg) (hc : c.OK) (wf : Bool) :
    ∀ (f : Nat) (r : RS), mu r < f → nextChunk c wf f r ≠ .error .fuel := by
  intro f
  induction f with
  | zero => intro r h; omega
  | succ f ih =>
    intro r h
    rw [nextChunk]
    cases hs : chunkStep c wf r with
    | done r' pl last => simp
    | eof => simp
    | invalid => simp
    | cont r' =>
      have := chunkStep_cont_mu c hc wf r r' hs
      exact ih r' (by omega)


/-! ### `nextChunk` without fuel bookkeeping -/

/-- the value of `nextChunk` for any sufficient fuel -/
def NCv (c : Cfg) (wf : Bool) (r : RS) : Except CErr (RS × List UInt8 × Bool) := nextChunk c wf (mu r + 1) r

theorem nextChunk_eq_NCv (c : Cfg) (hc : c.OK) (wf : Bool) (f : Nat) (r : RS) (h : mu r < f) :
    nextChunk c wf f r = NCv c wf r :=
  nextChunk_mono c wf (mu r + 1) f r (by omega) (nextChunk_fuel_ok c hc wf (mu r + 1) r (by omega))

theorem nextChunk_deffuel (c : Cfg) (hc : c.OK) (wf : Bool) (r : RS) :
    nextChunk c wf (2 * r.s.length + 3) r = NCv c wf r :=
  nextChunk_eq_NCv c hc wf _ r (by have := mu_le r; omega)

theorem NCv_cont (c : Cfg) (hc : c.OK) (wf : Bool) (r r' : RS) (h : chunkStep c wf r = .cont r') :
    NCv c wf r = NCv c wf r' := by
  have hm := chunkStep_cont_mu c hc wf r r' h
  unfold NCv
  rw [nextChunk, h]
  exact nextChunk_eq_NCv c hc wf (mu r) r' hm

theorem NCv_done (c : Cfg) (wf : Bool) (r r' : RS) (pl : List UInt8) (last : Bool)
    (h : chunkStep c wf r = .done r' pl last) : NCv c wf r = .ok (r', pl, last) := by
  unfold NCv; rw [nextChunk, h]

theorem NCv_eof (c : Cfg) (wf : Bool) (r : RS) (h : chunkStep c wf r = .eof) : NCv c wf r = .error .eof := by
  unfold NCv; rw [nextChunk, h]

theorem NCv_invalid (c : Cfg) (wf : Bool) (r : RS) (h : chunkStep c wf r = .invalid) :
    NCv c wf r = .error .invalid := by
  unfold NCv; rw [nextChunk, h]

/-- the reader inside a block: `blk` = offset of the block, `i` = offset in it, `t` = the file from there -/
def RAt (blk i : Nat) (t : List UInt8) : RS := { blk := blk, i := i, s := t, started := true }

def endErr (wf : Bool) : CErr := if wf then .eof else .invalid

theorem NCv_chunk (c : Cfg) (hc : c.OK) (wf : Bool) (blk i typ : Nat) (pl t : List UInt8)
    (htyp : typ = 5 ∨ typ = 6 ∨ typ = 7 ∨ typ = 8) (hfit : i + 11 + pl.length ≤ c.B) :
    NCv c wf (RAt blk i (mkChunk c typ c.logNum pl ++ t)) =
      if wf ∧ (typ = 7 ∨ typ = 8) then NCv c wf (RAt blk (i + 11 + pl.length) t)
      else .ok (RAt blk (i + 11 + pl.length) t, pl, typ = 5 ∨ typ = 8) := by
  have h := chunkStep_mkChunk c hc wf blk i typ pl t htyp hfit
  split
  · rename_i hw
    rw [if_pos hw] at h
    exact NCv_cont c hc wf _ _ h
  · rename_i hw
    rw [if_neg hw] at h
    exact NCv_done c wf _ _ _ _ h

/-- zero padding up to the end of the block, then more of the file: the reader moves to the next block -/
theorem NCv_pad (c : Cfg) (hc : c.OK) (wf : Bool) (blk i k : Nat) (x : UInt8) (t : List UInt8)
    (hk : k < 11) (hi : i + k = c.B) :
    NCv c wf (RAt blk i (zeros k ++ x :: t)) = NCv c wf (RAt (blk + c.B) 0 (x :: t)) := by
  by_cases h7 : 7 ≤ k
  · rw [RAt, NCv_cont c hc wf _ _ (chunkStep_zeropad c wf blk i k (x :: t) h7 hk hi)]
    have := chunkStep_readfull c wf blk c.B 0 x t (by omega) (by omega)
    simp only [zeros, List.replicate_zero, List.nil_append] at this
    rw [NCv_cont c hc wf _ _ this]; rfl
  · rw [RAt, NCv_cont c hc wf _ _ (chunkStep_readfull c wf blk i k x t (by omega) hi)]; rfl

/-- … and nothing more: the file ends on a block boundary -/
theorem NCv_pad_end (c : Cfg) (hc : c.OK) (wf : Bool) (blk i k : Nat) (hk : k < 11) (hi : i + k = c.B) :
    NCv c wf (RAt blk i (zeros k)) = .error (endErr wf) := by
  have hend : NCv c wf (RAt blk c.B (zeros 0)) = .error (endErr wf) := by
    have := chunkStep_fileend c wf blk c.B 0 (by omega) (by omega)
    cases wf
    · simp only [Bool.false_eq_true, ↓reduceIte] at this
      exact NCv_invalid c false _ this
    · simp only [↓reduceIte] at this
      exact NCv_eof c true _ this
  by_cases h7 : 7 ≤ k
  · have := chunkStep_zeropad c wf blk i k [] h7 hk hi
    simp only [List.append_nil] at this
    rw [RAt, NCv_cont c hc wf _ _ this]
    exact hend
  · have := chunkStep_fileend c wf blk i k (by omega) hi
    cases wf
    · simp only [Bool.false_eq_true, ↓reduceIte] at this
      exact NCv_invalid c false _ this
    · simp only [↓reduceIte] at this
      exact NCv_eof c true _ this

theorem NCv_start (c : Cfg) (hc : c.OK) (wf : Bool) (x : UInt8) (t : List UInt8) :
    NCv c wf { s := x :: t } = NCv c wf (RAt 0 0 (x :: t)) :=
  NCv_cont c hc wf _ _ (chunkStep_start c wf x t)

theorem NCv_start_empty (c : Cfg) (wf : Bool) : NCv c wf { s := [] } = .error (endErr wf) := by
  have := chunkStep_start_empty c wf
  cases wf
  · simp only [Bool.false_eq_true, ↓reduceIte] at this
    exact NCv_invalid c false _ this
  · simp only [↓reduceIte] at this
    exact NCv_eof c true _ this

/-- the file ends inside a block after `k` bytes of zero padding (`k = 0`: right behind a chunk) -/
theorem NCv_short_zeros (c : Cfg) (hc : c.OK) (wf : Bool) (blk i k : Nat) (hk : k < 11) (hi : i + k < c.B) :
    NCv c wf (RAt blk i (zeros k)) = .error (if wf ∧ (k = 0 ∨ 7 ≤ k) then .eof else .invalid) := by
  have hshort : ∀ j, j < c.B → NCv c wf (RAt blk j []) = .error (endErr wf) := by
    intro j hj
    have : chunkStep c wf (RAt blk j []) = (if wf then .eof else .invalid) := by
      cases wf <;> simp [chunkStep, avail, RAt, hj]
    cases wf
    · simp only [Bool.false_eq_true, ↓reduceIte] at this
      exact NCv_invalid c false _ this
    · simp only [↓reduceIte] at this
      exact NCv_eof c true _ this
  by_cases h7 : 7 ≤ k
  · -- a zeroed header that no real header could follow: skipped, then the short block ends
    have ha : avail c (RAt blk i (zeros k)) = k := by simp [avail, RAt, zeros_length]; omega
    have hstep : chunkStep c wf (RAt blk i (zeros k)) = .cont (RAt blk (i + k) []) := by
      unfold chunkStep RS.skipBlock
      simp only [ha]
      have := rdHd_zeros k [] h7
      simp only [List.append_nil] at this
      simp only [RAt, this]
      simp [h7, hk, zeros_length]
    rw [NCv_cont c hc wf _ _ hstep, hshort (i + k) hi]
    cases wf <;> simp [endErr, h7]
  · by_cases h0 : k = 0
    · subst h0
      simp only [zeros, List.replicate_zero]
      rw [hshort i (by omega)]
      cases wf <;> simp [endErr]
    · have ha : avail c (RAt blk i (zeros k)) = k := by simp [avail, RAt, zeros_length]; omega
      have hstep : chunkStep c wf (RAt blk i (zeros k)) = .invalid := by
        unfold chunkStep
        simp only [ha]
        have h1 : ¬ 7 ≤ k := h7
        have h2 : i + k < c.B := hi
        simp [h1, h2, h0, RAt]
      rw [NCv_invalid c wf _ hstep]
      have : ¬ (k = 0 ∨ 7 ≤ k) := by omega
      simp [this]


/-- the file ends inside a chunk: whatever part of it is there, the reader reports the end of the log
(a clean end only when nothing of the chunk is there and a new record was asked for) -/
theorem NCv_torn_chunk (c : Cfg) (hc : c.OK) (wf : Bool) (blk i typ j : Nat) (pl : List UInt8)
    (htyp : typ = 5 ∨ typ = 6 ∨ typ = 7 ∨ typ = 8) (hfit : i + 11 + pl.length ≤ c.B) (hj : j < 11 + pl.length) :
    NCv c wf (RAt blk i ((mkChunk c typ c.logNum pl).take j)) = .error (if wf ∧ j = 0 then .eof else .invalid) := by
  have hB := hc.hi
  have hl : pl.length < 65536 := by omega
  have ht : typ < 256 := by omega
  have hlen : ((mkChunk c typ c.logNum pl).take j).length = j := by
    rw [List.length_take, mkChunk_length]; omega
  have ha : avail c (RAt blk i ((mkChunk c typ c.logNum pl).take j)) = j := by
    simp only [avail, RAt, ↓reduceIte, List.length_take, hlen]; omega
  by_cases h7 : 7 ≤ j
  · -- the header is there: a recyclable chunk that does not fit what is left of the file
    have hhd : rdHd ((mkChunk c typ c.logNum pl).take j) =
        some ⟨c.crc (by8 typ :: (le32 c.logNum ++ pl)), pl.length, typ⟩ := by
      have := rdHd_mkChunk c hc typ c.logNum pl [] ht hl
      rw [List.append_nil] at this
      rw [← this, mkChunk_eq]
      obtain ⟨m, rfl⟩ : ∃ m, j = m + 7 := ⟨j - 7, by omega⟩
      simp [rdHd]
    have hstep : chunkStep c wf (RAt blk i ((mkChunk c typ c.logNum pl).take j)) = .invalid := by
      unfold chunkStep
      simp only [ha]
      simp only [RAt, hhd]
      by_cases h11 : j < 11
      · rcases htyp with h | h | h | h <;> subst h <;> simp [hsOf, wireOf, h7, h11]
      · have hln : rdLogNum ((mkChunk c typ c.logNum pl).take j) = c.logNum := by
          have h32 := hc.ln
          unfold two32 at h32
          obtain ⟨m, rfl⟩ : ∃ m, j = m + 11 := ⟨j - 11, by omega⟩
          rw [mkChunk_eq]
          simp only [List.take_succ_cons, rdLogNum, List.drop_succ_cons, List.drop_zero, by8_val]
          omega
        rcases htyp with h | h | h | h <;> subst h <;> simp [hsOf, wireOf, h7, h11, hln, hj]
    rw [NCv_invalid c wf _ hstep]
    have : ¬ j = 0 := by omega
    simp [this]
  · -- fewer than 7 bytes: the last block is short
    have hstep : chunkStep c wf (RAt blk i ((mkChunk c typ c.logNum pl).take j)) =
        (if wf ∧ j = 0 then .eof else .invalid) := by
      unfold chunkStep
      simp only [ha]
      have h2 : i + j < c.B := by omega
      simp [h7, h2, RAt]
    by_cases hw : wf = true ∧ j = 0
    · rw [if_pos hw] at hstep; rw [NCv_eof c wf _ hstep]; simp [hw]
    · rw [if_neg hw] at hstep; rw [NCv_invalid c wf _ hstep]; simp [hw]


/-! ### the reader follows the writer -/

/-- The reader `R` stands where the writer, at offset `wi` of its block and `pos` bytes into the file, goes
on to write `t`: right there; or (the writer has zero-filled the rest of a block) before that padding; or
it has not read anything yet. -/
def Sync (c : Cfg) (pos wi : Nat) (t : List UInt8) (R : RS) : Prop :=
  (∃ blk, R = RAt blk wi t ∧ blk + wi = pos) ∨
  (wi = 0 ∧ ∃ b j k, k < 11 ∧ j + k = c.B ∧ b + c.B = pos ∧ R = RAt b j (zeros k ++ t)) ∨
  (wi = 0 ∧ pos = 0 ∧ R = { s := t })

theorem Sync_NCv (c : Cfg) (hc : c.OK) (wf : Bool) (pos wi : Nat) (x : UInt8) (t : List UInt8) (R : RS)
    (h : Sync c pos wi (x :: t) R) : NCv c wf R = NCv c wf (RAt (pos - wi) wi (x :: t)) := by
  rcases h with ⟨blk, rfl, hp⟩ | ⟨rfl, b, j, k, hk, hj, hp, rfl⟩ | ⟨rfl, rfl, rfl⟩
  · have : pos - wi = blk := by omega
    rw [this]
  · rw [NCv_pad c hc wf b j k x t hk hj]
    have : pos - 0 = b + c.B := by omega
    rw [this]
  · exact NCv_start c hc wf x t

theorem Sync_end (c : Cfg) (hc : c.OK) (wf : Bool) (pos wi : Nat) (R : RS) (h : Sync c pos wi [] R)
    (hwi : wi + 11 ≤ c.B) : NCv c wf R = .error (endErr wf) := by
  rcases h with ⟨blk, rfl, _⟩ | ⟨rfl, b, j, k, hk, hj, _, rfl⟩ | ⟨rfl, rfl, rfl⟩
  · have := NCv_short_zeros c hc wf blk wi 0 (by omega) (by omega)
    simp only [zeros, List.replicate_zero, true_or, and_true] at this
    rw [this]; cases wf <;> simp [endErr]
  · rw [List.append_nil]; exact NCv_pad_end c hc wf b j k hk hj
  · exact NCv_start_empty c wf

theorem Sync_offset (c : Cfg) (pos wi : Nat) (t : List UInt8) (R : RS) (h : Sync c pos wi t R) :
    R.offset ≤ pos ∧ pos - R.offset < 11 ∧ R.s = zeros (pos - R.offset) ++ t := by
  rcases h with ⟨blk, rfl, hp⟩ | ⟨rfl, b, j, k, hk, hj, hp, rfl⟩ | ⟨rfl, rfl, rfl⟩
  · have : pos - (blk + wi) = 0 := by omega
    simp [RAt, RS.offset, this, zeros]; omega
  · have : pos - (b + j) = k := by omega
    simp [RAt, RS.offset, this]; omega
  · simp [RS.offset, zeros]

theorem chunkType_mem (f l : Bool) :
    chunkType f l = 5 ∨ chunkType f l = 6 ∨ chunkType f l = 7 ∨ chunkType f l = 8 := by
  cases f <;> cases l <;> simp [chunkType]

theorem chunkType_last (f l : Bool) : decide (chunkType f l = 5 ∨ chunkType f l = 8) = l := by
  cases f <;> cases l <;> simp [chunkType]

theorem chunkType_first (l : Bool) : ¬ (chunkType true l = 7 ∨ chunkType true l = 8) := by
  cases l <;> simp [chunkType]

/-- how much fuel `emitLoop` needs: two fragments take at least one byte of the record -/
def need (c : Cfg) (i : Nat) (p : List UInt8) : Nat := 2 * p.length + (if c.B - i - 11 = 0 then 1 else 0)

/-- the state of the reader after the last chunk of a record, in front of whatever follows (`u`) -/
structure After (c : Cfg) (i' j kp : Nat) : Prop where
  pad : (kp = 0 ∧ j = i') ∨ (kp < 11 ∧ j + kp = c.B ∧ i' = 0)
  fit : i' + 11 ≤ c.B
  jle : j ≤ c.B


theorem mkChunk_cons (c : Cfg) (typ ln : Nat) (pl : List UInt8) : ∃ x t, mkChunk c typ ln pl = x :: t := by
  rw [mkChunk_eq]; exact ⟨_, _, rfl⟩

/-- one fragment, read back: the reader hands out its payload and stands behind the chunk -/
theorem frag_read (c : Cfg) (hc : c.OK) (first : Bool) (pos i : Nat) (p u : List UInt8) (R : RS)
    (hi : i + 11 ≤ c.B)
    (hs : Sync c pos i (mkChunk c (chunkType first (decide (p.length ≤ c.B - i - 11))) c.logNum
      (p.take (min (c.B - i - 11) p.length)) ++ u) R) :
    NCv c first R = .ok (RAt (pos - i) (i + 11 + min (c.B - i - 11) p.length) u,
      p.take (min (c.B - i - 11) p.length), decide (p.length ≤ c.B - i - 11)) := by
  obtain ⟨x, t, hx⟩ := mkChunk_cons c (chunkType first (decide (p.length ≤ c.B - i - 11))) c.logNum
    (p.take (min (c.B - i - 11) p.length))
  have hs' := hs
  rw [hx, List.cons_append] at hs'
  rw [Sync_NCv c hc first pos i x (t ++ u) R hs', ← List.cons_append, ← hx]
  have hlen : (p.take (min (c.B - i - 11) p.length)).length = min (c.B - i - 11) p.length := by
    rw [List.length_take]; omega
  rw [NCv_chunk c hc first (pos - i) i _ _ u (chunkType_mem _ _) (by rw [hlen]; omega)]
  have hnf : ¬ (first = true ∧ (chunkType first (decide (p.length ≤ c.B - i - 11)) = 7 ∨
      chunkType first (decide (p.length ≤ c.B - i - 11)) = 8)) := by
    intro h
    have h1 := h.1
    subst h1
    exact chunkType_first _ h.2
  rw [if_neg hnf, hlen, chunkType_last]


theorem Sync_le (c : Cfg) (pos wi : Nat) (t : List UInt8) (R : RS) (h : Sync c pos wi t R) : wi ≤ pos := by
  rcases h with ⟨blk, _, hp⟩ | ⟨rfl, _⟩ | ⟨rfl, _⟩ <;> omega

/-- `emitFragment`, spelled out -/
theorem emitFragment_eq (c : Cfg) (i : Nat) (first : Bool) (p : List UInt8) :
    emitFragment c i first p =
      if c.B - (i + 11 + min (c.B - i - 11) p.length) < 11 then
        (mkChunk c (chunkType first (decide (p.length ≤ c.B - i - 11))) c.logNum (p.take (min (c.B - i - 11) p.length)) ++
          zeros (c.B - (i + 11 + min (c.B - i - 11) p.length)), 0, p.drop (min (c.B - i - 11) p.length))
      else
        (mkChunk c (chunkType first (decide (p.length ≤ c.B - i - 11))) c.logNum (p.take (min (c.B - i - 11) p.length)),
          i + 11 + min (c.B - i - 11) p.length, p.drop (min (c.B - i - 11) p.length)) := rfl

/-- the reader state behind a fragment is in step with the writer's next position -/
theorem Sync_after_frag (c : Cfg) (pos i r : Nat) (t : List UInt8) (hi : i ≤ pos) (hr : i + 11 + r ≤ c.B) :
    (c.B - (i + 11 + r) < 11 →
      Sync c (pos + (11 + r + (c.B - (i + 11 + r)))) 0 t (RAt (pos - i) (i + 11 + r) (zeros (c.B - (i + 11 + r)) ++ t))) ∧
    (¬ c.B - (i + 11 + r) < 11 → Sync c (pos + (11 + r)) (i + 11 + r) t (RAt (pos - i) (i + 11 + r) t)) := by
  constructor
  · intro h
    exact Or.inr (Or.inl ⟨rfl, pos - i, i + 11 + r, c.B - (i + 11 + r), h, by omega, by omega, rfl⟩)
  · intro _
    exact Or.inl ⟨pos - i, rfl, by omega⟩

/-- the file ends inside the chunk the reader is about to read (or right before it) -/
theorem torn_first (c : Cfg) (hc : c.OK) (wf : Bool) (pos i typ jcut : Nat) (pl : List UInt8) (R : RS)
    (htyp : typ = 5 ∨ typ = 6 ∨ typ = 7 ∨ typ = 8) (hfit : i + 11 + pl.length ≤ c.B) (hj : jcut < 11 + pl.length)
    (hs : Sync c pos i ((mkChunk c typ c.logNum pl).take jcut) R) :
    NCv c wf R = .error (if wf ∧ jcut = 0 then .eof else .invalid) := by
  cases jcut with
  | zero =>
    rw [List.take_zero] at hs
    rw [Sync_end c hc wf pos i R hs (by omega)]
    cases wf <;> simp [endErr]
  | succ n =>
    obtain ⟨x, t, hx⟩ := mkChunk_cons c typ c.logNum pl
    have hs' := hs
    rw [hx, List.take_succ_cons] at hs'
    rw [Sync_NCv c hc wf pos i x _ R hs', ← List.take_succ_cons, ← hx]
    exact NCv_torn_chunk c hc wf (pos - i) i typ (n + 1) pl htyp hfit hj

theorem take_zeros (k n : Nat) : (zeros n).take k = zeros (min k n) := by
  simp [zeros, List.take_replicate]

theorem take_three (a b d : List UInt8) (n : Nat) :
    (a ++ b ++ d).take n =
      if n < a.length then a.take n
      else if n < a.length + b.length then a ++ b.take (n - a.length)
      else a ++ b ++ d.take (n - a.length - b.length) := by
  rw [List.take_append, List.take_append, List.length_append]
  split
  · rename_i h
    have h1 : n - a.length = 0 := by omega
    have h2 : n - (a.length + b.length) = 0 := by omega
    simp [h1, h2]
  · split
    · rename_i h h'
      have h2 : n - (a.length + b.length) = 0 := by omega
      rw [h2, List.take_of_length_le (by omega : a.length ≤ n)]
      simp
    · rename_i h h'
      rw [List.take_of_length_le (by omega : a.length ≤ n), List.take_of_length_le (by omega : b.length ≤ n - a.length)]
      simp [Nat.sub_sub]

/-- the fragments after the first one of a record, read back by `singleReader.Read`: all of them there
(whatever follows, `u`), or the file ending somewhere inside them -/
theorem loop_more (c : Cfg) (hc : c.OK) : ∀ (fuel i : Nat) (p : List UInt8), i + 11 ≤ c.B → need c i p < fuel → p ≠ [] →
    ∃ C kp j, (emitLoop c fuel i false p).1 = C ++ zeros kp ∧ After c (emitLoop c fuel i false p).2 j kp ∧
      11 ≤ C.length ∧ j ≤ i + C.length ∧
      (∀ (u acc : List UInt8) (pos : Nat) (R : RS) (F : Nat), Sync c pos i (C ++ u) R → C.length < 11 * F →
        readMore c F R acc = .ok (RAt (pos + C.length - j) j u, acc ++ p)) ∧
      (∀ (jcut : Nat) (acc : List UInt8) (pos : Nat) (R : RS) (F : Nat), jcut < C.length →
        Sync c pos i (C.take jcut) R → jcut < 11 * F → readMore c F R acc = .error .invalid) := by
  intro fuel
  induction fuel with
  | zero => intro i p _ h _; omega
  | succ fuel ih =>
    intro i p hi hneed hp
    have hB := hc.lo
    have hlen : (p.take (min (c.B - i - 11) p.length)).length = min (c.B - i - 11) p.length := by
      rw [List.length_take]; omega
    have hclen := mkChunk_length c (chunkType false (decide (p.length ≤ c.B - i - 11))) c.logNum
      (p.take (min (c.B - i - 11) p.length))
    rw [hlen] at hclen
    -- the file ends inside the chunk of this fragment
    have htorn1 : ∀ (jcut : Nat) (acc : List UInt8) (pos : Nat) (R : RS) (F : Nat),
        jcut < 11 + min (c.B - i - 11) p.length → 0 < F →
        Sync c pos i ((mkChunk c (chunkType false (decide (p.length ≤ c.B - i - 11))) c.logNum
          (p.take (min (c.B - i - 11) p.length))).take jcut) R →
        readMore c F R acc = .error .invalid := by
      intro jcut acc pos R F hj hF hs
      obtain ⟨F', rfl⟩ : ∃ F', F = F' + 1 := ⟨F - 1, by omega⟩
      rw [readMore, nextChunk_deffuel c hc,
        torn_first c hc false pos i _ jcut _ R (chunkType_mem _ _) (by rw [hlen]; omega) (by rw [hlen]; exact hj) hs]
      simp
    by_cases hlast : p.length ≤ c.B - i - 11
    · -- the last fragment
      have hr : min (c.B - i - 11) p.length = p.length := by omega
      have hdrop : p.drop (min (c.B - i - 11) p.length) = [] := by rw [hr]; simp
      have hread : ∀ (u acc : List UInt8) (pos : Nat) (R : RS) (F : Nat),
          Sync c pos i (mkChunk c (chunkType false (decide (p.length ≤ c.B - i - 11))) c.logNum
            (p.take (min (c.B - i - 11) p.length)) ++ u) R → 11 + p.length < 11 * F →
          readMore c F R acc = .ok (RAt (pos + (11 + p.length) - (i + 11 + p.length)) (i + 11 + p.length) u, acc ++ p) := by
        intro u acc pos R F hs hF
        obtain ⟨F', rfl⟩ : ∃ F', F = F' + 1 := ⟨F - 1, by omega⟩
        have hle := Sync_le c pos i _ R hs
        rw [readMore, nextChunk_deffuel c hc, frag_read c hc false pos i p u R hi hs]
        simp only [hlast, decide_true, ↓reduceIte, hr, List.take_length]
        have : pos + (11 + p.length) - (i + 11 + p.length) = pos - i := by omega
        rw [this]
      rw [emitLoop, emitFragment_eq]
      by_cases hpad : c.B - (i + 11 + min (c.B - i - 11) p.length) < 11
      · simp only [hpad, ↓reduceIte, hdrop, List.isEmpty_nil]
        refine ⟨_, _, i + 11 + p.length, rfl, ⟨Or.inr ⟨hpad, ?_, rfl⟩, by omega, by omega⟩, by omega, by omega, ?_, ?_⟩
        · rw [hr]; omega
        · intro u acc pos R F hs hF
          rw [hclen, hr] at hF
          rw [hclen, hr]
          exact hread u acc pos R F hs hF
        · intro jcut acc pos R F hj hs hF
          rw [hclen] at hj
          exact htorn1 jcut acc pos R F hj (by omega) hs
      · simp only [hpad, ↓reduceIte, hdrop, List.isEmpty_nil]
        refine ⟨mkChunk c (chunkType false (decide (p.length ≤ c.B - i - 11))) c.logNum (p.take (min (c.B - i - 11) p.length)),
          0, i + 11 + p.length, by simp [zeros], ⟨Or.inl ⟨rfl, by rw [hr]⟩, by rw [hr]; omega, by omega⟩, by omega, by omega, ?_, ?_⟩
        · intro u acc pos R F hs hF
          rw [hclen, hr] at hF
          rw [hclen, hr]
          exact hread u acc pos R F hs hF
        · intro jcut acc pos R F hj hs hF
          rw [hclen] at hj
          exact htorn1 jcut acc pos R F hj (by omega) hs
    · -- more fragments follow
      have hr : min (c.B - i - 11) p.length = c.B - i - 11 := by omega
      have hdrop : p.drop (min (c.B - i - 11) p.length) ≠ [] := by
        rw [hr]; intro h
        have := congrArg List.length h
        simp only [List.length_drop, List.length_nil] at this
        omega
      have hemp : (p.drop (min (c.B - i - 11) p.length)).isEmpty = false := by
        cases h : p.drop (min (c.B - i - 11) p.length) with
        | nil => exact absurd h hdrop
        | cons _ _ => rfl
      -- the block is full after this fragment: the next one starts a new block
      have hpad : c.B - (i + 11 + min (c.B - i - 11) p.length) < 11 := by omega
      have hneed' : need c 0 (p.drop (min (c.B - i - 11) p.length)) < fuel := by
        unfold need at hneed ⊢
        simp only [List.length_drop, hr]
        split at hneed <;> split <;> omega
      obtain ⟨C', kp', j', hC', hA', hC'len, hjle', hrd', htorn'⟩ :=
        ih 0 (p.drop (min (c.B - i - 11) p.length)) (by omega) hneed' hdrop
      rw [emitLoop, emitFragment_eq]
      simp only [hpad, ↓reduceIte, hemp, Bool.false_eq_true]
      refine ⟨mkChunk c (chunkType false (decide (p.length ≤ c.B - i - 11))) c.logNum (p.take (min (c.B - i - 11) p.length)) ++
          zeros (c.B - (i + 11 + min (c.B - i - 11) p.length)) ++ C', kp', j', ?_, hA', ?_, ?_, ?_, ?_⟩
      · rw [hC']; simp [List.append_assoc]
      · simp only [List.length_append, hclen]; omega
      · simp only [List.length_append, hclen]; omega
      · intro u acc pos R F hs hF
        obtain ⟨F', rfl⟩ : ∃ F', F = F' + 1 := ⟨F - 1, by omega⟩
        have hle := Sync_le c pos i _ R hs
        simp only [List.append_assoc] at hs
        rw [readMore, nextChunk_deffuel c hc, frag_read c hc false pos i p _ R hi hs]
        simp only [hlast, decide_false, Bool.false_eq_true, ↓reduceIte]
        have hsync := (Sync_after_frag c pos i (min (c.B - i - 11) p.length) (C' ++ u) hle (by omega)).1 hpad
        simp only [List.length_append, mkChunk_length, hlen, zeros_length] at hF ⊢
        rw [hrd' u (acc ++ p.take (min (c.B - i - 11) p.length)) _ _ F' hsync (by omega)]
        simp only [List.append_assoc, List.take_append_drop]
        congr 3
        omega
      · intro jcut acc pos R F hj hs hF
        simp only [List.length_append, hclen, zeros_length] at hj
        rw [take_three, hclen, zeros_length] at hs
        by_cases h1 : jcut < 11 + min (c.B - i - 11) p.length
        · rw [if_pos h1] at hs
          exact htorn1 jcut acc pos R F h1 (by omega) hs
        · rw [if_neg h1] at hs
          obtain ⟨F', rfl⟩ : ∃ F', F = F' + 1 := ⟨F - 1, by omega⟩
          by_cases h2 : jcut < 11 + min (c.B - i - 11) p.length + (c.B - (i + 11 + min (c.B - i - 11) p.length))
          · -- the file ends inside the zero padding behind the chunk: the rest of the record is missing
            rw [if_pos h2, take_zeros] at hs
            have hle := Sync_le c pos i _ R hs
            rw [readMore, nextChunk_deffuel c hc, frag_read c hc false pos i p _ R hi hs]
            simp only [hlast, decide_false, Bool.false_eq_true, ↓reduceIte]
            obtain ⟨F'', rfl⟩ : ∃ F'', F' = F'' + 1 := ⟨F' - 1, by omega⟩
            rw [readMore, nextChunk_deffuel c hc]
            have := NCv_short_zeros c hc false (pos - i) (i + 11 + min (c.B - i - 11) p.length)
              (min (jcut - (11 + min (c.B - i - 11) p.length)) (c.B - (i + 11 + min (c.B - i - 11) p.length)))
              (by omega) (by omega)
            rw [this]; simp
          · rw [if_neg h2] at hs
            have hle := Sync_le c pos i _ R hs
            simp only [List.append_assoc] at hs
            rw [readMore, nextChunk_deffuel c hc, frag_read c hc false pos i p _ R hi hs]
            simp only [hlast, decide_false, Bool.false_eq_true, ↓reduceIte]
            have hsync := (Sync_after_frag c pos i (min (c.B - i - 11) p.length)
              (C'.take (jcut - (11 + min (c.B - i - 11) p.length) - (c.B - (i + 11 + min (c.B - i - 11) p.length))))
              hle (by omega)).1 hpad
            exact htorn' _ _ _ _ F' (by omega) hsync (by omega)

/-- a whole record, read back by `Reader.Next` + `Read`: all of it there (whatever follows its last
chunk, `u`), or the file ending somewhere inside it (a clean end of the log only when nothing of it is there) -/
theorem rec_read (c : Cfg) (hc : c.OK) (i : Nat) (p : List UInt8) (hi : i + 11 ≤ c.B) :
    ∃ C kp j, (emitRecord c i p).1 = C ++ zeros kp ∧ After c (emitRecord c i p).2 j kp ∧ 11 ≤ C.length ∧
      j ≤ i + C.length ∧
      (∀ (u : List UInt8) (pos : Nat) (R : RS), Sync c pos i (C ++ u) R →
        readRecord c R = .ok (RAt (pos + C.length - j) j u, p)) ∧
      (∀ (jcut pos : Nat) (R : RS), jcut < C.length → Sync c pos i (C.take jcut) R →
        readRecord c R = .error (if jcut = 0 then .eof else .invalid)) := by
  have hB := hc.lo
  have hlen : (p.take (min (c.B - i - 11) p.length)).length = min (c.B - i - 11) p.length := by
    rw [List.length_take]; omega
  have hclen := mkChunk_length c (chunkType true (decide (p.length ≤ c.B - i - 11))) c.logNum
    (p.take (min (c.B - i - 11) p.length))
  rw [hlen] at hclen
  have htorn1 : ∀ (jcut pos : Nat) (R : RS), jcut < 11 + min (c.B - i - 11) p.length →
      Sync c pos i ((mkChunk c (chunkType true (decide (p.length ≤ c.B - i - 11))) c.logNum
        (p.take (min (c.B - i - 11) p.length))).take jcut) R →
      readRecord c R = .error (if jcut = 0 then .eof else .invalid) := by
    intro jcut pos R hj hs
    rw [readRecord, nextChunk_deffuel c hc,
      torn_first c hc true pos i _ jcut _ R (chunkType_mem _ _) (by rw [hlen]; omega) (by rw [hlen]; exact hj) hs]
    simp
  unfold emitRecord
  by_cases hlast : p.length ≤ c.B - i - 11
  · have hr : min (c.B - i - 11) p.length = p.length := by omega
    have hdrop : p.drop (min (c.B - i - 11) p.length) = [] := by rw [hr]; simp
    have hread : ∀ (u : List UInt8) (pos : Nat) (R : RS),
        Sync c pos i (mkChunk c (chunkType true (decide (p.length ≤ c.B - i - 11))) c.logNum
          (p.take (min (c.B - i - 11) p.length)) ++ u) R →
        readRecord c R = .ok (RAt (pos + (11 + p.length) - (i + 11 + p.length)) (i + 11 + p.length) u, p) := by
      intro u pos R hs
      have hle := Sync_le c pos i _ R hs
      rw [readRecord, nextChunk_deffuel c hc, frag_read c hc true pos i p u R hi hs]
      simp only [hlast, decide_true, ↓reduceIte, hr, List.take_length]
      have : pos + (11 + p.length) - (i + 11 + p.length) = pos - i := by omega
      rw [this]
    rw [emitLoop, emitFragment_eq]
    by_cases hpad : c.B - (i + 11 + min (c.B - i - 11) p.length) < 11
    · simp only [hpad, ↓reduceIte, hdrop, List.isEmpty_nil]
      refine ⟨_, _, i + 11 + p.length, rfl, ⟨Or.inr ⟨hpad, ?_, rfl⟩, by omega, by omega⟩, by omega, by omega, ?_, ?_⟩
      · rw [hr]; omega
      · intro u pos R hs
        rw [hclen, hr]
        exact hread u pos R hs
      · intro jcut pos R hj hs
        rw [hclen] at hj
        exact htorn1 jcut pos R hj hs
    · simp only [hpad, ↓reduceIte, hdrop, List.isEmpty_nil]
      refine ⟨mkChunk c (chunkType true (decide (p.length ≤ c.B - i - 11))) c.logNum (p.take (min (c.B - i - 11) p.length)),
        0, i + 11 + p.length, by simp [zeros], ⟨Or.inl ⟨rfl, by rw [hr]⟩, by rw [hr]; omega, by omega⟩, by omega, by omega, ?_, ?_⟩
      · intro u pos R hs
        rw [hclen, hr]
        exact hread u pos R hs
      · intro jcut pos R hj hs
        rw [hclen] at hj
        exact htorn1 jcut pos R hj hs
  · have hr : min (c.B - i - 11) p.length = c.B - i - 11 := by omega
    have hdrop : p.drop (min (c.B - i - 11) p.length) ≠ [] := by
      rw [hr]; intro h
      have := congrArg List.length h
      simp only [List.length_drop, List.length_nil] at this
      omega
    have hemp : (p.drop (min (c.B - i - 11) p.length)).isEmpty = false := by
      cases h : p.drop (min (c.B - i - 11) p.length) with
      | nil => exact absurd h hdrop
      | cons _ _ => rfl
    have hpad : c.B - (i + 11 + min (c.B - i - 11) p.length) < 11 := by omega
    have hneed' : need c 0 (p.drop (min (c.B - i - 11) p.length)) < 2 * p.length + 1 := by
      unfold need
      simp only [List.length_drop, hr]
      split <;> omega
    obtain ⟨C', kp', j', hC', hA', hC'len, hjle', hrd', htorn'⟩ :=
      loop_more c hc (2 * p.length + 1) 0 (p.drop (min (c.B - i - 11) p.length)) (by omega) hneed' hdrop
    rw [emitLoop, emitFragment_eq]
    simp only [hpad, ↓reduceIte, hemp, Bool.false_eq_true]
    refine ⟨mkChunk c (chunkType true (decide (p.length ≤ c.B - i - 11))) c.logNum (p.take (min (c.B - i - 11) p.length)) ++
        zeros (c.B - (i + 11 + min (c.B - i - 11) p.length)) ++ C', kp', j', ?_, hA', ?_, ?_, ?_, ?_⟩
    · rw [hC']; simp [List.append_assoc]
    · simp only [List.length_append, hclen]; omega
    · simp only [List.length_append, hclen]; omega
    · intro u pos R hs
      have hle := Sync_le c pos i _ R hs
      simp only [List.append_assoc] at hs
      rw [readRecord, nextChunk_deffuel c hc, frag_read c hc true pos i p _ R hi hs]
      simp only [hlast, decide_false, Bool.false_eq_true, ↓reduceIte]
      have hsync := (Sync_after_frag c pos i (min (c.B - i - 11) p.length) (C' ++ u) hle (by omega)).1 hpad
      simp only [List.length_append, mkChunk_length, hlen, zeros_length]
      rw [hrd' u (p.take (min (c.B - i - 11) p.length)) _ _ _ hsync
        (by simp only [RAt, List.length_append, zeros_length]; omega)]
      simp only [List.take_append_drop]
      congr 3
      omega
    · intro jcut pos R hj hs
      simp only [List.length_append, hclen, zeros_length] at hj
      rw [take_three, hclen, zeros_length] at hs
      by_cases h1 : jcut < 11 + min (c.B - i - 11) p.length
      · rw [if_pos h1] at hs
        exact htorn1 jcut pos R h1 hs
      · rw [if_neg h1] at hs
        have hj0 : ¬ jcut = 0 := by omega
        simp only [hj0, ↓reduceIte]
        by_cases h2 : jcut < 11 + min (c.B - i - 11) p.length + (c.B - (i + 11 + min (c.B - i - 11) p.length))
        · rw [if_pos h2, take_zeros] at hs
          have hle := Sync_le c pos i _ R hs
          rw [readRecord, nextChunk_deffuel c hc, frag_read c hc true pos i p _ R hi hs]
          simp only [hlast, decide_false, Bool.false_eq_true, ↓reduceIte]
          simp only [RAt, zeros_length]
          rw [readMore, nextChunk_deffuel c hc]
          have := NCv_short_zeros c hc false (pos - i) (i + 11 + min (c.B - i - 11) p.length)
            (min (jcut - (11 + min (c.B - i - 11) p.length)) (c.B - (i + 11 + min (c.B - i - 11) p.length)))
            (by omega) (by omega)
          simp only [RAt] at this
          rw [this]; simp
        · rw [if_neg h2] at hs
          have hle := Sync_le c pos i _ R hs
          simp only [List.append_assoc] at hs
          rw [readRecord, nextChunk_deffuel c hc, frag_read c hc true pos i p _ R hi hs]
          simp only [hlast, decide_false, Bool.false_eq_true, ↓reduceIte]
          have hsync := (Sync_after_frag c pos i (min (c.B - i - 11) p.length)
            (C'.take (jcut - (11 + min (c.B - i - 11) p.length) - (c.B - (i + 11 + min (c.B - i - 11) p.length))))
            hle (by omega)).1 hpad
          exact htorn' _ _ _ _ _ (by omega) hsync
            (by simp only [RAt, List.length_append, zeros_length, List.length_take]; omega)


/-! ### whole logs -/

theorem After_sync (c : Cfg) (i' j kp b : Nat) (t : List UInt8) (h : After c i' j kp) :
    Sync c (b + j + kp) i' t (RAt b j (zeros kp ++ t)) := by
  rcases h.pad with ⟨rfl, rfl⟩ | ⟨hk, hj, rfl⟩
  · exact Or.inl ⟨b, by simp [zeros], by omega⟩
  · exact Or.inr (Or.inl ⟨rfl, b, j, kp, hk, hj, by omega, rfl⟩)

theorem emitAll_snoc (c : Cfg) (ps : List (List UInt8)) (p : List UInt8) : ∀ i,
    emitAll c i (ps ++ [p]) =
      ((emitAll c i ps).1 ++ (emitRecord c (emitAll c i ps).2 p).1, (emitRecord c (emitAll c i ps).2 p).2) := by
  induction ps with
  | nil => intro i; simp [emitAll]
  | cons q qs ih => intro i; simp [emitAll, ih, List.append_assoc]

theorem emitAll_fit (c : Cfg) (hc : c.OK) (ps : List (List UInt8)) : ∀ i, i + 11 ≤ c.B → (emitAll c i ps).2 + 11 ≤ c.B := by
  induction ps with
  | nil => intro i h; exact h
  | cons q qs ih =>
    intro i h
    obtain ⟨C, kp, j, _, hA, _⟩ := rec_read c hc i q h
    exact ih _ hA.fit

theorem emitAll_length (c : Cfg) (hc : c.OK) (ps : List (List UInt8)) :
    ∀ i, i + 11 ≤ c.B → 11 * ps.length ≤ (emitAll c i ps).1.length := by
  induction ps with
  | nil => intro i _; simp [emitAll]
  | cons q qs ih =>
    intro i h
    obtain ⟨C, kp, j, hC, hA, hCl, _⟩ := rec_read c hc i q h
    have := ih _ hA.fit
    simp only [emitAll, List.length_append, List.length_cons, hC]
    omega

/-- the records of a log, read back one after the other (whatever follows them, `t`) -/
theorem scan_written (c : Cfg) (hc : c.OK) (t : List UInt8) (G : Nat) : ∀ (ps : List (List UInt8)) (i pos : Nat) (R : RS)
    (acc : List (List UInt8)) (sts : List Nat), i + 11 ≤ c.B → Sync c pos i ((emitAll c i ps).1 ++ t) R →
    ∃ R' offs, scanLoop c (G + ps.length) R acc sts = scanLoop c G R' (acc ++ ps) (sts ++ offs) ∧
      Sync c (pos + (emitAll c i ps).1.length) (emitAll c i ps).2 t R' ∧ offs.length = ps.length := by
  intro ps
  induction ps with
  | nil =>
    intro i pos R acc sts _ hs
    exact ⟨R, [], by simp, by simpa [emitAll] using hs, rfl⟩
  | cons q qs ih =>
    intro i pos R acc sts hi hs
    obtain ⟨C, kp, j, hC, hA, hCl, hjle, hrd, _⟩ := rec_read c hc i q hi
    have hle := Sync_le c pos i _ R hs
    simp only [emitAll, hC, List.append_assoc] at hs
    have hread := hrd _ pos R hs
    have hsync := After_sync c _ j kp (pos + C.length - j) ((emitAll c (emitRecord c i q).2 qs).1 ++ t) hA
    have hpos : pos + C.length - j + j + kp = pos + (C ++ zeros kp).length := by
      simp only [List.length_append, zeros_length]; omega
    rw [hpos, ← hC] at hsync
    obtain ⟨R', offs, hscan, hs', hlen⟩ := ih (emitRecord c i q).2 _ _ (acc ++ [q]) (sts ++ [R.offset]) hA.fit hsync
    refine ⟨R', R.offset :: offs, ?_, ?_, by simp [hlen]⟩
    · have : G + (q :: qs).length = (G + qs.length) + 1 := by simp; omega
      rw [this, scanLoop, hread]
      simp only
      rw [hscan]
      simp [List.append_assoc]
    · simp only [emitAll, List.length_append]
      rw [← Nat.add_assoc]
      exact hs'

theorem readRecord_end (c : Cfg) (hc : c.OK) (pos wi : Nat) (R : RS) (h : Sync c pos wi [] R) (hwi : wi + 11 ≤ c.B) :
    readRecord c R = .error .eof := by
  rw [readRecord, nextChunk_deffuel c hc, Sync_end c hc true pos wi R h hwi]
  simp [endErr]


theorem Sync_init (c : Cfg) (t : List UInt8) : Sync c 0 0 t { s := t } := Or.inr (Or.inr ⟨rfl, rfl, rfl⟩)

/-- the end of the log behind the last chunk of a record: `k` bytes of zero padding that stop short of the
block end, or reach it -/
theorem readRecord_zeros (c : Cfg) (hc : c.OK) (b j k : Nat) (hk : k < 11) (hj : j + k ≤ c.B) :
    readRecord c (RAt b j (zeros k)) = .error .eof ∨ readRecord c (RAt b j (zeros k)) = .error .invalid := by
  rw [readRecord, nextChunk_deffuel c hc]
  by_cases h : j + k < c.B
  · rw [NCv_short_zeros c hc true b j k hk h]
    by_cases h2 : (k = 0 ∨ 7 ≤ k) <;> simp [h2]
  · rw [NCv_pad_end c hc true b j k hk (by omega)]
    simp [endErr]

theorem readRecord_zeros_eof (c : Cfg) (hc : c.OK) (b j k : Nat) (hk : k < 11) (hj : j + k ≤ c.B)
    (h0 : k = 0 ∨ j + k = c.B) : readRecord c (RAt b j (zeros k)) = .error .eof := by
  rw [readRecord, nextChunk_deffuel c hc]
  by_cases h : j + k < c.B
  · rw [NCv_short_zeros c hc true b j k hk h]
    have : k = 0 := by omega
    simp [this]
  · rw [NCv_pad_end c hc true b j k hk (by omega)]
    simp [endErr]

/-- what `rec_read` says about the bytes of one record written at block offset `i`: they are `C` (chunks,
with the padding between them) and `kp` bytes of padding behind the last chunk, which ends at block offset `j` -/
structure RecSpec (c : Cfg) (i : Nat) (p C : List UInt8) (kp j : Nat) : Prop where
  eq : (emitRecord c i p).1 = C ++ zeros kp
  after : After c (emitRecord c i p).2 j kp
  len : 11 ≤ C.length
  jle : j ≤ i + C.length
  rd : ∀ (u : List UInt8) (pos : Nat) (R : RS), Sync c pos i (C ++ u) R →
    readRecord c R = .ok (RAt (pos + C.length - j) j u, p)
  torn : ∀ (jcut pos : Nat) (R : RS), jcut < C.length → Sync c pos i (C.take jcut) R →
    readRecord c R = .error (if jcut = 0 then .eof else .invalid)

theorem rec_spec (c : Cfg) (hc : c.OK) (i : Nat) (p : List UInt8) (hi : i + 11 ≤ c.B) :
    ∃ C kp j, RecSpec c i p C kp j := by
  obtain ⟨C, kp, j, h1, h2, h3, h4, h5, h6⟩ := rec_read c hc i p hi
  exact ⟨C, kp, j, ⟨h1, h2, h3, h4, h5, h6⟩⟩

theorem RecSpec.kp_lt {c : Cfg} {i : Nat} {p C : List UInt8} {kp j : Nat} (h : RecSpec c i p C kp j) : kp < 11 := by
  rcases h.after.pad with ⟨h, _⟩ | ⟨h, _⟩ <;> omega

/-- a log whose records are all there, followed by bytes `u` at which the reader gives up with `e` -/
theorem scan_init_last (c : Cfg) (hc : c.OK) (init : List (List UInt8)) (last C : List UInt8) (kp j : Nat)
    (hS : RecSpec c (emitAll c 0 init).2 last C kp j) (u : List UInt8) (e : CErr)
    (he : readRecord c (RAt ((emitAll c 0 init).1.length + C.length - j) j u) = .error e) :
    ∃ offs, scan c ((emitAll c 0 init).1 ++ C ++ u) =
      ⟨init ++ [last], offs, (emitAll c 0 init).1.length + C.length, e⟩ := by
  have hB := hc.lo
  have hEl := emitAll_length c hc init 0 (by omega)
  have hCl := hS.len
  have hjle := hS.jle
  obtain ⟨G, hG⟩ : ∃ G, ((emitAll c 0 init).1 ++ C ++ u).length + 1 = (G + 2) + init.length :=
    ⟨((emitAll c 0 init).1 ++ C ++ u).length + 1 - 2 - init.length, by
      simp only [List.length_append]; omega⟩
  have hs0 := Sync_init c ((emitAll c 0 init).1 ++ (C ++ u))
  obtain ⟨R', offs, hscan, hs', _⟩ := scan_written c hc (C ++ u) (G + 2) init 0 0 { s := (emitAll c 0 init).1 ++ (C ++ u) }
    [] [] (by omega) hs0
  have hle := Sync_le c _ _ _ R' hs'
  have hread := hS.rd u _ R' hs'
  have h0 : 0 + (emitAll c 0 init).1.length + C.length - j = (emitAll c 0 init).1.length + C.length - j := by omega
  rw [h0] at hread
  refine ⟨offs ++ [R'.offset], ?_⟩
  unfold scan
  rw [hG]
  simp only [List.append_assoc] at hscan ⊢
  rw [hscan]
  simp only [List.nil_append]
  rw [scanLoop, hread]
  simp only
  rw [scanLoop, he]
  simp only [RS.offset, RAt]
  congr 1
  omega

/-- A log that ends behind the last chunk of its last record, with `k` of the zero bytes that pad the
block (all of them: the file as the writer left it; none: as the tail repair leaves it): every record is
read, the reader stops behind that last chunk. -/
theorem scan_lastpad (c : Cfg) (hc : c.OK) (init : List (List UInt8)) (last C : List UInt8) (kp j : Nat)
    (hS : RecSpec c (emitAll c 0 init).2 last C kp j) (k : Nat) (hk : k ≤ kp) :
    ∃ offs e, scan c ((emitAll c 0 init).1 ++ C ++ zeros k) =
        ⟨init ++ [last], offs, (emitAll c 0 init).1.length + C.length, e⟩ ∧
      (e = .eof ∨ e = .invalid) ∧ ((k = 0 ∨ k = kp) → e = .eof) := by
  have hA := hS.after
  have hkp := hS.kp_lt
  have hjk : j + k ≤ c.B := by
    rcases hA.pad with ⟨h1, h2⟩ | ⟨_, h2, _⟩
    · have := hA.fit; omega
    · omega
  rcases readRecord_zeros c hc ((emitAll c 0 init).1.length + C.length - j) j k (by omega) hjk with he | he
  · obtain ⟨offs, h⟩ := scan_init_last c hc init last C kp j hS (zeros k) .eof he
    exact ⟨offs, .eof, h, Or.inl rfl, fun _ => rfl⟩
  · obtain ⟨offs, h⟩ := scan_init_last c hc init last C kp j hS (zeros k) .invalid he
    refine ⟨offs, .invalid, h, Or.inr rfl, ?_⟩
    intro h0
    have h0' : k = 0 ∨ j + k = c.B := by
      rcases h0 with h | h
      · exact Or.inl h
      · rcases hA.pad with ⟨h1, _⟩ | ⟨_, h2, _⟩
        · left; omega
        · right; omega
    have := readRecord_zeros_eof c hc ((emitAll c 0 init).1.length + C.length - j) j k (by omega) hjk h0'
    rw [this] at he
    simp at he


/-- What a restart makes of the bytes `file` of the latest log: the reader sees exactly the records `recs`
and then the end of the log; `recoverLatestWALTail` only cuts the file shorter, and what it leaves reads as
exactly `recs` again, now with a clean end, and is left alone by another restart. -/
def Recovered (c : Cfg) (file : List UInt8) (recs : List (List UInt8)) : Prop :=
  (scan c file).recs = recs ∧ ((scan c file).st = .eof ∨ (scan c file).st = .invalid) ∧
  (∃ n, recoverTail c file = file.take n) ∧ (scan c (recoverTail c file)).recs = recs ∧
  (scan c (recoverTail c file)).st = .eof ∧ recoverTail c (recoverTail c file) = recoverTail c file

theorem recovered_of_scan (c : Cfg) (file : List UInt8) (recs : List (List UInt8)) (offs offs' : List Nat) (off : Nat)
    (e : CErr) (he : e = .eof ∨ e = .invalid) (hoff : off ≤ file.length)
    (h1 : scan c file = ⟨recs, offs, off, e⟩) (h2 : scan c (file.take off) = ⟨recs, offs', off, .eof⟩) :
    Recovered c file recs := by
  have hrt : recoverTail c file = file.take off := by
    unfold recoverTail repairTail
    rw [h1]
    simp only
    have hmin : min off file.length = off := by omega
    split
    · split
      · rename_i hle
        rw [List.take_of_length_le hle]
      · rw [hmin]
    · rw [hmin]
  have hrt2 : recoverTail c (file.take off) = file.take off := by
    unfold recoverTail
    rw [h2]
    simp only [List.length_take, ↓reduceIte]
    split
    · rfl
    · omega
  refine ⟨by rw [h1], by rw [h1]; exact he, ⟨off, hrt⟩, by rw [hrt, h2], by rw [hrt, h2], by rw [hrt, hrt2]⟩

theorem take_append_left' (a b : List UInt8) : (a ++ b).take a.length = a := by simp

theorem nil_or_snoc {α : Type} (l : List α) : l = [] ∨ ∃ a b, l = a ++ [b] := by
  rcases List.eq_nil_or_concat l with h | ⟨a, b, h⟩
  · exact Or.inl h
  · exact Or.inr ⟨a, b, by rw [h, List.concat_eq_append]⟩

/-- THE LOG CUT ANYWHERE INSIDE THE RECORD IN FLIGHT. `ps` are the records written (and synced) so far, `p`
is being appended when the machine stops: only the first `jcut` bytes of what the writer puts into the file
for `p` (its chunks, the zero padding between and behind them) have reached the disk. Then the restart reads
exactly `ps`, or exactly `ps ++ [p]` (all chunks of `p` made it), never anything else; the tail repair only
shortens the file and leaves a log that reads as exactly that, with a clean end. -/
theorem cut_anywhere (c : Cfg) (hc : c.OK) (ps : List (List UInt8)) (p : List UInt8) (jcut : Nat)
    (hj : jcut ≤ (emitRecord c (emitAll c 0 ps).2 p).1.length) :
    (Recovered c (frames c ps ++ (emitRecord c (emitAll c 0 ps).2 p).1.take jcut) ps ∨
      Recovered c (frames c ps ++ (emitRecord c (emitAll c 0 ps).2 p).1.take jcut) (ps ++ [p])) ∧
    (jcut = 0 → Recovered c (frames c ps ++ (emitRecord c (emitAll c 0 ps).2 p).1.take jcut) ps ∧
      (scan c (frames c ps ++ (emitRecord c (emitAll c 0 ps).2 p).1.take jcut)).st = .eof) ∧
    (jcut = (emitRecord c (emitAll c 0 ps).2 p).1.length →
      Recovered c (frames c ps ++ (emitRecord c (emitAll c 0 ps).2 p).1.take jcut) (ps ++ [p]) ∧
      (scan c (frames c ps ++ (emitRecord c (emitAll c 0 ps).2 p).1.take jcut)).st = .eof) := by
  have hB := hc.lo
  have hfit := emitAll_fit c hc ps 0 (by omega)
  obtain ⟨C, kp, j, hS⟩ := rec_spec c hc (emitAll c 0 ps).2 p hfit
  have hW := hS.eq
  have hkp := hS.kp_lt
  have hCl := hS.len
  rw [hW] at hj ⊢
  simp only [List.length_append, zeros_length] at hj ⊢
  unfold frames
  by_cases hcut : jcut < C.length
  · -- inside the chunks of `p`
    have htake : (C ++ zeros kp).take jcut = C.take jcut := List.take_append_of_le_length (by omega)
    rw [htake]
    have key : ∃ offs offs' off e, (e = .eof ∨ e = .invalid) ∧ (jcut = 0 → e = .eof) ∧
        off ≤ ((emitAll c 0 ps).1 ++ C.take jcut).length ∧
        scan c ((emitAll c 0 ps).1 ++ C.take jcut) = ⟨ps, offs, off, e⟩ ∧
        scan c (((emitAll c 0 ps).1 ++ C.take jcut).take off) = ⟨ps, offs', off, .eof⟩ := by
      rcases nil_or_snoc ps with rfl | ⟨init, last, rfl⟩
      · -- nothing was written before
        have hsc : ∀ jc, jc < C.length → scan c (C.take jc) = ⟨[], [], 0, if jc = 0 then .eof else .invalid⟩ := by
          intro jc hjc
          unfold scan
          rw [scanLoop, hS.torn jc 0 { s := C.take jc } hjc (Sync_init c _)]
          simp [RS.offset]
        refine ⟨[], [], 0, if jcut = 0 then .eof else .invalid, ?_, ?_, by omega, ?_, ?_⟩
        · by_cases h : jcut = 0 <;> simp [h]
        · intro h; simp [h]
        · simpa [emitAll] using hsc jcut hcut
        · have := hsc 0 (by omega)
          simpa [emitAll] using this
      · -- the last record written before, `last`, ends in front of the torn one
        have hfit' := emitAll_fit c hc init 0 (by omega)
        obtain ⟨Cl, kpl, jl, hSl⟩ := rec_spec c hc (emitAll c 0 init).2 last hfit'
        have hsn := emitAll_snoc c init last 0
        have hEl := emitAll_length c hc init 0 (by omega)
        have hjle := hSl.jle
        rw [hsn] at hS ⊢
        simp only at hS ⊢
        rw [hSl.eq]
        -- the reader behind the chunks of `last`: in step with the writer that goes on to write `p`
        have hsync := After_sync c _ jl kpl ((emitAll c 0 init).1.length + Cl.length - jl) (C.take jcut) hSl.after
        have herr := hS.torn jcut _ _ hcut hsync
        have hfile : (emitAll c 0 init).1 ++ (Cl ++ zeros kpl) ++ C.take jcut =
            (emitAll c 0 init).1 ++ Cl ++ (zeros kpl ++ C.take jcut) := by simp [List.append_assoc]
        rw [hfile]
        obtain ⟨offs, hscan⟩ := scan_init_last c hc init last Cl kpl jl hSl (zeros kpl ++ C.take jcut) _ herr
        obtain ⟨offs', e', hscan', _, he'⟩ := scan_lastpad c hc init last Cl kpl jl hSl 0 (by omega)
        have he'' := he' (Or.inl rfl)
        subst he''
        refine ⟨offs, offs', (emitAll c 0 init).1.length + Cl.length, _, ?_, ?_, ?_, hscan, ?_⟩
        · by_cases h : jcut = 0 <;> simp [h]
        · intro h; simp [h]
        · simp only [List.length_append]; omega
        · have : ((emitAll c 0 init).1 ++ Cl ++ (zeros kpl ++ C.take jcut)).take ((emitAll c 0 init).1.length + Cl.length) =
              (emitAll c 0 init).1 ++ Cl ++ zeros 0 := by
            have := take_append_left' ((emitAll c 0 init).1 ++ Cl) (zeros kpl ++ C.take jcut)
            simp only [List.length_append] at this
            rw [this]; simp [zeros]
          rw [this]
          exact hscan'
    obtain ⟨offs, offs', off, e, he, he0, hoff, h1, h2⟩ := key
    have hR := recovered_of_scan c _ ps offs offs' off e he hoff h1 h2
    refine ⟨Or.inl hR, ?_, ?_⟩
    · intro h0
      refine ⟨hR, ?_⟩
      rw [h1]; exact he0 h0
    · intro hfull; omega
  · -- all chunks of `p` are there, and `k` bytes of the padding behind them
    have htake : (C ++ zeros kp).take jcut = C ++ zeros (jcut - C.length) := by
      rw [List.take_append, List.take_of_length_le (by omega : C.length ≤ jcut), take_zeros]
      congr 2
      omega
    rw [htake, ← List.append_assoc]
    obtain ⟨offs, e, hscan, he, hee⟩ := scan_lastpad c hc ps p C kp j hS (jcut - C.length) (by omega)
    obtain ⟨offs', e', hscan', _, he'⟩ := scan_lastpad c hc ps p C kp j hS 0 (by omega)
    have he'' := he' (Or.inl rfl)
    subst he''
    have h2 : scan c (((emitAll c 0 ps).1 ++ C ++ zeros (jcut - C.length)).take ((emitAll c 0 ps).1.length + C.length)) =
        ⟨ps ++ [p], offs', (emitAll c 0 ps).1.length + C.length, .eof⟩ := by
      have := take_append_left' ((emitAll c 0 ps).1 ++ C) (zeros (jcut - C.length))
      simp only [List.length_append] at this
      rw [this]
      simpa [zeros] using hscan'
    have hR := recovered_of_scan c _ (ps ++ [p]) offs offs' _ e he
      (by simp only [List.length_append, zeros_length]; omega) hscan h2
    refine ⟨Or.inr hR, ?_, ?_⟩
    · intro h0; omega
    · intro hfull
      refine ⟨hR, ?_⟩
      rw [hscan]
      exact hee (Or.inr (by omega))


theorem frames_snoc (c : Cfg) (ps : List (List UInt8)) (p : List UInt8) :
    frames c (ps ++ [p]) = frames c ps ++ (emitRecord c (emitAll c 0 ps).2 p).1 := by
  unfold frames; rw [emitAll_snoc]

/-- what was written is what is read: the complete log of an open writer reads as its records, ends
cleanly, and the tail repair of a restart removes nothing but zero padding behind the last chunk -/
theorem frames_recovered (c : Cfg) (hc : c.OK) (ps : List (List UInt8)) :
    Recovered c (frames c ps) ps ∧ (scan c (frames c ps)).st = .eof := by
  rcases nil_or_snoc ps with rfl | ⟨init, last, rfl⟩
  · have h := cut_anywhere c hc [] [] 0 (by omega)
    have := (h.2.1 rfl)
    simpa [frames, emitAll] using this
  · have h := cut_anywhere c hc init last _ (Nat.le_refl _)
    have := h.2.2 rfl
    rw [List.take_length, ← frames_snoc] at this
    exact this

/-- the EOF trailer of a cleanly closed log -/
theorem NCv_trailer (c : Cfg) (hc : c.OK) (blk i : Nat) (t : List UInt8) (hi : i + 11 ≤ c.B) :
    NCv c true (RAt blk i (trailer c ++ t)) = .error .eof := by
  have hln := hc.ln
  unfold two32 at hln
  have hstep : chunkStep c true (RAt blk i (trailer c ++ t)) = .eof := by
    have ha : avail c (RAt blk i (trailer c ++ t)) ≥ 11 := by
      simp [avail, RAt, trailer, le32, le16]; omega
    unfold chunkStep
    generalize avail c (RAt blk i (trailer c ++ t)) = a at ha ⊢
    have h7 : 7 ≤ a := by omega
    have h11 : ¬ a < 11 := by omega
    have hne : ¬ ((c.logNum + 1) % two32 = c.logNum) := by unfold two32; omega
    have hlt : (c.logNum + 1) % two32 < 4294967296 := by unfold two32; omega
    have hrd : rdLogNum (trailer c ++ t) = (c.logNum + 1) % two32 := by
      simp only [trailer, le32, le16, List.cons_append, List.nil_append, rdLogNum, List.drop_succ_cons, List.drop_zero,
        by8_val]
      omega
    simp only [RAt, hrd]
    simp [trailer, le32, le16, rdHd, by8_val, hsOf, wireOf, h7, h11, hne]
  exact NCv_eof c true _ hstep

end Juno.C14.Chunk
