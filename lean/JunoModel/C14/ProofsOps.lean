import JunoModel.C14.ProofsSys
/-! C14 — every operation preserves the invariant; every durable state an operation passes
through satisfies the directory invariant. -/
namespace Juno.C14
open AMap

/-! #### pending records versus API calls -/

theorem Equiv.snoc {P : Nat} {b c : List Rec} (e : Equiv P b c) (r : Rec) : Equiv P (b ++ [r]) (c ++ [r]) := by
  have hm := e.mp
  refine ⟨by simp only [maxPrune_append]; omega, ?_⟩
  intro h hh
  rw [maxPrune_append] at hh
  rw [entriesOf_append, entriesOf_append, e.ents h (by omega)]

theorem Equiv.drop_entry {P : Nat} {b c : List Rec} (e : Equiv P b c) (h0 x : Nat) (hle : h0 ≤ P) :
    Equiv P b (c ++ [.entry h0 x]) := by
  have hm := e.mp
  refine ⟨by simp only [maxPrune_append, maxPrune]; omega, ?_⟩
  intro h hh
  have : h0 ≠ h := by omega
  rw [entriesOf_append, e.ents h hh]
  simp [entriesOf, this]

theorem Equiv.drop_prune {P : Nat} {b c : List Rec} (e : Equiv P b c) (h0 : Nat) (hle : h0 ≤ P) :
    Equiv P b (c ++ [.prune h0]) := by
  have hm := e.mp
  refine ⟨by simp only [maxPrune_append, maxPrune]; omega, ?_⟩
  intro h hh
  rw [entriesOf_append, e.ents h hh]
  simp [entriesOf]

theorem mergePrune_some (b : List Rec) (h : Nat) (b' : List Rec) (hm : mergePrune b h = some b') :
    maxPrune b' = max (maxPrune b) h ∧ ∀ h', entriesOf h' b' = entriesOf h' b := by
  induction b generalizing b' with
  | nil => simp [mergePrune] at hm
  | cons r rs ih =>
    cases r with
    | prune h0 =>
      simp only [mergePrune, Option.some.injEq] at hm
      subst hm
      refine ⟨by simp only [maxPrune]; omega, fun _ => by simp [entriesOf]⟩
    | entry h0 e =>
      simp only [mergePrune, Option.map_eq_some_iff] at hm
      obtain ⟨t, ht, rfl⟩ := hm
      obtain ⟨i1, i2⟩ := ih t ht
      refine ⟨by simpa [maxPrune] using i1, ?_⟩
      intro h'
      simp [entriesOf, i2 h']

theorem Equiv.merge {P : Nat} {b c b' : List Rec} (e : Equiv P b c) (h0 : Nat) (hm : mergePrune b h0 = some b') :
    Equiv P b' (c ++ [.prune h0]) := by
  obtain ⟨m1, m2⟩ := mergePrune_some b h0 b' hm
  have hmp := e.mp
  refine ⟨by simp only [maxPrune_append, maxPrune, m1]; omega, ?_⟩
  intro h hh
  rw [m1] at hh
  rw [m2 h, entriesOf_append, e.ents h (by omega)]
  simp [entriesOf]

/-! #### SetWALEntry, DeleteWALEntries -/

theorem SInv.of_pending {s : Store} {d : Disk} {A C C' : List Rec} (i : SInv s d A C) (p : List Rec)
    (e : Equiv (maxPrune A) p C') : SInv { s with pending := p } d A C' :=
  ⟨i.ewf, i.rwf, i.cov, i.pruned, i.view, e, i.wr, i.wrz, i.wrr, i.next, i.seqNext, i.nogarb⟩

theorem SInv.of_calls {s : Store} {d : Disk} {A C C' : List Rec} (i : SInv s d A C)
    (e : Equiv (maxPrune A) s.pending C') : SInv s d A C' :=
  ⟨i.ewf, i.rwf, i.cov, i.pruned, i.view, e, i.wr, i.wrz, i.wrr, i.next, i.seqNext, i.nogarb⟩

theorem setEntry_inv {s : Store} {d : Disk} {A C : List Rec} (i : SInv s d A C) (hc : s.closed = false) (h e : Nat) :
    (s.setEntry h e).2 = .ok ∧ (s.setEntry h e).1.closed = false ∧
      SInv (s.setEntry h e).1 d A (C ++ [.entry h e]) := by
  obtain ⟨cl, wr, nx, rr, idx, pend, sc⟩ := s
  simp only at hc
  subst hc
  unfold Store.setEntry
  simp only [Bool.false_eq_true, ↓reduceIte]
  by_cases hh : h ≤ idx.pruned
  · simp only [hh, ↓reduceIte, true_and]
    exact i.of_calls (i.pend.drop_entry h e (by rw [← i.pruned]; exact hh))
  · simp only [hh, ↓reduceIte, true_and]
    exact i.of_pending _ (i.pend.snoc _)

theorem deleteEntries_inv {s : Store} {d : Disk} {A C : List Rec} (i : SInv s d A C) (hc : s.closed = false) (h : Nat) :
    (s.deleteEntries h).2 = .ok ∧ (s.deleteEntries h).1.closed = false ∧
      SInv (s.deleteEntries h).1 d A (C ++ [.prune h]) := by
  obtain ⟨cl, wr, nx, rr, idx, pend, sc⟩ := s
  simp only at hc
  subst hc
  unfold Store.deleteEntries
  simp only [Bool.false_eq_true, ↓reduceIte]
  by_cases hh : h ≤ idx.pruned
  · simp only [hh, ↓reduceIte, true_and]
    exact i.of_calls (i.pend.drop_prune h (by rw [← i.pruned]; exact hh))
  · simp only [hh, ↓reduceIte]
    cases hm : mergePrune pend h with
    | some p =>
      simp only [true_and]
      exact i.of_pending _ (i.pend.merge h hm)
    | none =>
      simp only [true_and]
      exact i.of_pending _ (i.pend.snoc _)

/-! #### NewTendermintWALStore -/

theorem covers_nil (w : Nat) : Covers ({ pruned := w } : Idx) [] :=
  ⟨fun _ _ _ h _ => (by cases h), fun _ _ h => (by cases h)⟩

theorem foldl_max_ge {α : Type} (g : α → Nat) (l : List α) (m0 : Nat) :
    m0 ≤ l.foldl (fun m p => max m (g p)) m0 ∧ ∀ p ∈ l, g p ≤ l.foldl (fun m p => max m (g p)) m0 := by
  induction l generalizing m0 with
  | nil => simp
  | cons a l ih =>
    simp only [List.foldl_cons]
    obtain ⟨h1, h2⟩ := ih (max m0 (g a))
    refine ⟨by omega, ?_⟩
    intro p hp
    rcases List.mem_cons.mp hp with rfl | h
    · omega
    · exact h2 p h

theorem seqAfterFile_ge (m : Nat) (f : LogFile) (h : SeqOK f) :
    m ≤ seqAfterFile m f ∧ ∀ q ∈ f.seqs, q < seqAfterFile m f := by
  unfold seqAfterFile
  obtain ⟨v1, v2⟩ := visibleFrom_all 0 f.batches f.seqs h.len h.inc h.pos h.nonempty
  obtain ⟨g1, g2⟩ := foldl_max_ge (fun (p : List Rec × Nat) => p.2 + p.1.length) (visibleFrom 0 f.batches f.seqs) m
  refine ⟨g1, ?_⟩
  intro q hq
  rw [← v2] at hq
  obtain ⟨p, hp, rfl⟩ := List.mem_map.mp hq
  have hb : p.1 ∈ f.batches := by rw [← v1]; exact List.mem_map_of_mem (f := (·.1)) hp
  have hne := h.nonempty p.1 hb
  have hlen : 0 < p.1.length := List.length_pos_iff.mpr hne
  have := g2 p hp
  omega

theorem foldl_seqAfter_ge (fs : List LogFile) (m : Nat) (hs : ∀ f ∈ fs, SeqOK f) :
    m ≤ fs.foldl seqAfterFile m ∧ ∀ F ∈ fs, ∀ q ∈ F.seqs, q < fs.foldl seqAfterFile m := by
  induction fs generalizing m with
  | nil => simp
  | cons f fs ih =>
    simp only [List.foldl_cons]
    obtain ⟨a1, a2⟩ := seqAfterFile_ge m f (hs f List.mem_cons_self)
    obtain ⟨b1, b2⟩ := ih (seqAfterFile m f) (fun g hg => hs g (List.mem_cons_of_mem _ hg))
    refine ⟨by omega, ?_⟩
    intro F hF q hq
    rcases List.mem_cons.mp hF with rfl | h
    · have := a2 q hq; omega
    · exact b2 F h q hq

theorem open_inv {d : Disk} {A : List Rec} (i : DInv d A) :
    ∃ s d', openStore d = .ok (s, d') ∧ DInv d' A ∧ SInv s d' A [] ∧ s.closed = false := by
  refine ⟨_, _, openStore_ok d i.garb, ?_, ?_, rfl⟩
  · refine ⟨numsAsc_of_map_eq (clearLastGarbage_nums d.files).symm i.asc,
      garbageOnlyLast_of_clean _ (clearLastGarbage_all_clean d.files i.garb), ?_, i.zclean, ?_, i.zlow, ?_, i.zlowAlt,
      seqOK_clearLastGarbage d.files i.seq, i.zseq⟩
    · intro ⟨f, hf, hg⟩
      have := clearLastGarbage_all_clean d.files i.garb f hf
      simp [this] at hg
    · show Presents d.wmVal (recsOf (clearLastGarbage d.files)) A
      rw [recsOf_clearLastGarbage]; exact i.pres
    · intro w hw
      show Presents (w.getD 0) (recsOf (clearLastGarbage d.files)) A
      rw [recsOf_clearLastGarbage]; exact i.presAlt w hw
  · have w0 := empty_EWF (d.wm.getD 0)
    have hs' := seqOK_clearLastGarbage d.files i.seq
    obtain ⟨cp, cv⟩ := replayFiles_closed _ (clearLastGarbage d.files) hs' w0
    rw [recsOf_clearLastGarbage] at cp cv
    have hw : max (d.wm.getD 0) (maxPrune (recsOf d.files)) = maxPrune A := i.pres.wm
    refine ⟨replayFiles_EWF _ _ hs' w0, replayFiles_RWF _ _ hs' (empty_RWF _), ?_, ?_, ?_, Equiv.rfl' _ _, ?_, ?_, ?_, ?_,
      ?_, ?_⟩
    rotate_right 2
    · intro _
      obtain ⟨g1, g2⟩ := foldl_seqAfter_ge (clearLastGarbage d.files) 1 hs'
      exact ⟨by show 0 < (clearLastGarbage d.files).foldl seqAfterFile 1; omega, g2⟩
    · intro _; exact clearLastGarbage_all_clean d.files i.garb
    · intro _
      have := replayFiles_covers _ (clearLastGarbage d.files) hs' [] (covers_nil (d.wm.getD 0))
      simpa using this
    · show (replayFiles _ _).pruned = _
      rw [cp]; exact hw
    · intro h hh
      show (replayFiles _ _).view h = _
      rw [cv h, hw]
      have : ¬ h ≤ maxPrune A := by omega
      simp only [this, ↓reduceIte, Idx.view, get?_nil, Option.getD_none, List.nil_append]
      exact i.pres.ents h hh
    · intro n hn; cases hn
    · intro hn; exact absurd rfl hn
    · intro hn; exact absurd rfl hn
    · exact nextNum_gt _

end Juno.C14
