/-
C14 — model of juno's consensus write-ahead log store (`consensus/walstore`):
`wal_store.go`, `wal_writer.go`, `replay.go`, `wal_index.go`, `prune_watermark.go`.

What is modelled (transcribed from the Go code as it is):
* the in-memory index (`entriesByHeight`, `walFilesByHeight`, `walHeightRefs`, `prunedUpToHeight`)
  and its three mutators `addLiveEntry`, `deleteLiveHeight`, `pruneLiveEntriesUpTo`;
* `SetWALEntry`, `DeleteWALEntries` (including the merge of a prune into an already pending prune
  record), `flushLocked` (writer creation, append+sync, index update, the amortised cleanup:
  watermark write, rotation, obsolete-file removal), `Close`, `LoadAllEntries`,
  `NewTendermintWALStore` (scan, tail repair of the latest log, watermark load, replay);
* the directory as a durable object: log files (complete batches + "garbage", i.e. bytes after
  the last complete record that do not form a valid record), files whose unlink has not been made
  durable by a directory sync ("zombies": a crash may bring any subset of them back), the
  watermark file and its `.tmp` sibling;
* every durable state an operation passes through (`bases`): these, with any subset of zombies
  resurrected, are the crash images.

What is abstract HERE: a record is its height and an opaque payload id, a log is the list of its
complete batches. The bytes are modelled next door and composed with this model by theorems:
`Codec.lean` (record payloads, `codec.go`), `Batch.lean` (the batch layout of `encodeBatch`, its
parsing by `applyEncodedBatch` / Pebble's `batchrepr`, the reader's silent skips, the watermark file);
`Props.codec_model_composition`, `Props.log_bytes_refine_model`, `Props.watermark_model_composition`.
Pebble's chunk framing inside the 32 KiB blocks of a log (a reader yields the complete records of a file
and reports an invalid tail) is an assumption tested by the harness.

Core Lean only: this file is linked into the driver executable.
-/
namespace Juno.C14

/-- One WAL record (`walRecordEnvelope`): an entry of height `h` with opaque payload id `e`
(`walRecordEntry`), or a prune-up-to-height marker (`walRecordPruneUpToHeight`). -/
inductive Rec where
  | entry (h e : Nat)
  | prune (h : Nat)
  deriving DecidableEq, Repr, Inhabited

/-! ### Go maps with integer keys: association lists kept in ascending key order -/
namespace AMap
variable {α : Type}

def get? : List (Nat × α) → Nat → Option α
  | [], _ => none
  | (k', v') :: m, k => if k = k' then some v' else get? m k

def set : List (Nat × α) → Nat → α → List (Nat × α)
  | [], k, v => [(k, v)]
  | (k', v') :: m, k, v =>
    if k < k' then (k, v) :: (k', v') :: m
    else if k = k' then (k, v) :: m
    else (k', v') :: set m k v

def erase (m : List (Nat × α)) (k : Nat) : List (Nat × α) := m.filter (fun p => p.1 != k)

def keys (m : List (Nat × α)) : List Nat := m.map (·.1)

end AMap

/-! ### The in-memory index (`wal_index.go`) -/

/-- `entriesByHeight`, `walFilesByHeight` (a `walNumSet` is the list `first :: rest`),
`walHeightRefs`, `prunedUpToHeight`. -/
structure Idx where
  entries : List (Nat × List Nat) := []
  filesBy : List (Nat × List Nat) := []
  refs    : List (Nat × Int) := []
  pruned  : Nat := 0
  deriving Repr, DecidableEq

/-- `addLiveEntry`. -/
def Idx.addLiveEntry (x : Idx) (f h e : Nat) : Idx :=
  let es := (AMap.get? x.entries h).getD []
  let fs := (AMap.get? x.filesBy h).getD []
  let x := { x with entries := AMap.set x.entries h (es ++ [e]) }
  if fs.contains f then x
  else { x with filesBy := AMap.set x.filesBy h (fs ++ [f]),
                refs := AMap.set x.refs f ((AMap.get? x.refs f).getD 0 + 1) }

/-- `s.walHeightRefs[walNum]--; if == 0 { delete }`. -/
def decRef (refs : List (Nat × Int)) (f : Nat) : List (Nat × Int) :=
  let c := (AMap.get? refs f).getD 0 - 1
  if c = 0 then AMap.erase refs f else AMap.set refs f c

/-- `deleteLiveHeight`. -/
def Idx.deleteLiveHeight (x : Idx) (h : Nat) : Idx :=
  let fs := (AMap.get? x.filesBy h).getD []
  { x with entries := AMap.erase x.entries h, filesBy := AMap.erase x.filesBy h,
           refs := fs.foldl decRef x.refs }

/-- `pruneLiveEntriesUpTo`: the Go loop ranges over the keys of `entriesByHeight`. -/
def Idx.pruneUpTo (x : Idx) (h : Nat) : Idx :=
  if h ≤ x.pruned then x
  else
    (AMap.keys x.entries).foldl (fun y k => if k ≤ h then y.deleteLiveHeight k else y)
      { x with pruned := h }

/-- One record applied to the index: the body of the loop in
`updateIndexesFromCommittedRecords` and of `applyEncodedRecord` (the two are the same code). -/
def Idx.applyRec (x : Idx) (f : Nat) : Rec → Idx
  | .entry h e => if h ≤ x.pruned then x else x.addLiveEntry f h e
  | .prune h => x.pruneUpTo h

def Idx.applyRecs (x : Idx) (f : Nat) (rs : List Rec) : Idx := rs.foldl (fun y r => y.applyRec f r) x

/-! ### The directory -/

structure LogFile where
  num : Nat
  batches : List (List Rec) := []
  /-- bytes after the last complete record that do not parse as a record -/
  garbage : Bool := false
  /-- the sequence number in the header of each batch (`batchrepr` header, `nextBatchSeqNum`) -/
  seqs : List Nat := []
  deriving Repr, DecidableEq, Inhabited

/-- Pebble's `virtualWALReader.NextRecord`: a batch whose header says `Count == 0`, or whose
sequence number is not above the last one returned, is skipped silently. -/
def visibleFrom (last : Nat) : List (List Rec) → List Nat → List (List Rec × Nat)
  | b :: bs, q :: qs =>
    if b.isEmpty || decide (q ≤ last) then visibleFrom last bs qs else (b, q) :: visibleFrom q bs qs
  | _, _ => []

/-- the batches a reader of the log returns -/
def LogFile.visible (f : LogFile) : List (List Rec) := (visibleFrom 0 f.batches f.seqs).map (·.1)

structure Disk where
  /-- `NNNNNN.log`, ascending by number -/
  files : List LogFile := []
  /-- unlinked, but no directory sync since: a crash may bring any subset back -/
  zombies : List LogFile := []
  /-- content of `prune-watermark`; `none`: no such file -/
  wm : Option Nat := none
  /-- `prune-watermark.tmp` exists (it is never read) -/
  tmp : Bool := false
  /-- earlier contents of `prune-watermark` (newest first) whose replacement by a rename has not been
  made durable by a directory sync (the sync failed, possibly several times in a row): a crash may
  bring any of them back -/
  wmAlt : List (Option Nat) := []
  deriving Repr, DecidableEq, Inhabited

def Disk.setGarbage (d : Disk) (n : Nat) (g : Bool) : Disk :=
  { d with files := d.files.map (fun f => if f.num = n then { f with garbage := g } else f) }

def Disk.appendBatch (d : Disk) (n : Nat) (b : List Rec) (q : Nat) : Disk :=
  let upd := fun (f : LogFile) =>
    if f.num = n then { f with batches := f.batches ++ [b], seqs := f.seqs ++ [q] } else f
  { d with files := d.files.map upd }

def pick {α : Type} : List Bool → List α → List α
  | true :: m, z :: zs => z :: pick m zs
  | false :: m, _ :: zs => pick m zs
  | _, _ => []

/-- A log file comes back under its name: the directory listing is ordered by number; a name
that has been reused in the meantime stays with its new owner. -/
def insertFile (z : LogFile) : List LogFile → List LogFile
  | [] => [z]
  | f :: fs =>
    if z.num < f.num then z :: f :: fs
    else if z.num = f.num then f :: fs
    else f :: insertFile z fs

/-- A crash: the unlinks that were not made durable may be undone, any subset of them; with
`alt = k+1` the watermark renames that were not made durable are undone back to the `k`-th
remembered content (`alt = 0`: the watermark stays). -/
def Disk.resurrect (d : Disk) (mask : List Bool) (alt : Nat := 0) : Disk :=
  { d with files := (pick mask d.zombies).foldr insertFile d.files, zombies := [],
           wm := match alt with
             | 0 => d.wm
             | k + 1 => (d.wmAlt[k]?).getD d.wm,
           wmAlt := [] }

/-! ### The store -/

/-- `cleanupPruneRecordInterval`. -/
def cleanupInterval : Nat := 256

structure Store where
  closed : Bool := false
  /-- `wal.writer != nil`, with `currentWALNum` -/
  writer : Option Nat := none
  nextWAL : Nat := 1
  repairRequired : Bool := false
  idx : Idx := {}
  pending : List Rec := []
  sinceCleanup : Nat := 0
  /-- the logs Pebble's WAL manager knows (`initialObsolete` ++ `queue`): the only ones
  `Manager.Obsolete` hands out for deletion -/
  known : List Nat := []
  /-- `nextBatchSeqNum` -/
  nextSeq : Nat := 1
  deriving Repr, DecidableEq

inductive Outcome where
  | ok
  | closed            -- "WAL is closed"
  | errNotCommitted   -- Flush returned an error, the batch is not in the log
  | errCommitted      -- Flush returned an error after the batch was synced and indexed
  | dead              -- no running process
  | bad               -- the operation does not apply (e.g. open while a store is open)
  | openFailed        -- NewTendermintWALStore returned an error
  deriving DecidableEq, Repr

/-- Injected failures.
`append`: the write or the sync of the batch fails and the tail repair succeeds.
`appendNoRepair`: the repair fails too.
`watermark`: writing `prune-watermark.tmp` fails.
`create`: `manager.Create` fails before the new log exists (only matters when no writer is open).
`wmSync`: the directory sync after the watermark rename fails (the rename stays undurable).
`rotate`: closing the writer in `rotateAfterSynced` fails (the tail repair succeeds).
`unlink k`: in `cleanupObsoleteWALs` the removal of the `k`-th obsolete log (0-based) fails.
`closeWriter`: (only in `Close`) `wal.close()` fails after the flush; the tail repair succeeds.
`closeWriterNoRepair`: … and the tail repair fails too (the log keeps a torn EOF trailer).
`appendFullNoRepair`: the batch is written and synced but the sync is REPORTED as failed, and the
tail repair (which would cut the batch off again) fails too: the flush reports failure, the store
is blocked, and the whole batch is on disk ("limbo": a restart will find it).
`closeManager`: (only in `Close`) `manager.Close()` fails: nothing but the returned error. -/
inductive Fault where
  | none | append | appendNoRepair | watermark | create | wmSync | rotate | unlink (k : Nat)
  | closeWriter | closeWriterNoRepair | appendFullNoRepair | closeManager
  deriving DecidableEq, Repr

/-- `SetWALEntry` (nil / unsupported entries, which return an error, are not modelled). -/
def Store.setEntry (s : Store) (h e : Nat) : Store × Outcome :=
  if s.closed then (s, .closed)
  else if h ≤ s.idx.pruned then (s, .ok)
  else ({ s with pending := s.pending ++ [.entry h e] }, .ok)

/-- The loop of `DeleteWALEntries`: the first pending prune record absorbs the new height. -/
def mergePrune : List Rec → Nat → Option (List Rec)
  | [], _ => none
  | .prune h' :: rs, h => some (.prune (max h' h) :: rs)
  | r :: rs, h => (mergePrune rs h).map (r :: ·)

/-- `DeleteWALEntries`. -/
def Store.deleteEntries (s : Store) (h : Nat) : Store × Outcome :=
  if s.closed then (s, .closed)
  else if h ≤ s.idx.pruned then (s, .ok)
  else match mergePrune s.pending h with
    | some p => ({ s with pending := p }, .ok)
    | none => ({ s with pending := s.pending ++ [.prune h] }, .ok)

/-- `LoadAllEntries`: heights ascending, entries of a height in insertion order. -/
def Store.load (s : Store) : List (Nat × List Nat) := s.idx.entries

def countPrunes (rs : List Rec) : Nat :=
  (rs.filter (fun r => match r with | .prune _ => true | _ => false)).length

/-- `cleanupObsoleteWALs`: `wal.minLiveWALNum()` lowered to the smallest referenced log. -/
def Store.minLive (s : Store) : Nat :=
  let m0 := match s.writer with
    | some n => min n s.nextWAL
    | none => s.nextWAL
  (AMap.keys s.idx.refs).foldl min m0

/-- Result of an operation that touches the directory. `bases` lists every durable state the
operation passes through, in order, each with a flag: the batch being flushed is completely on
disk in that state. A crash image is a base with any subset of its zombies resurrected.
`removed` (ghost): the logs the operation unlinked. -/
structure OpRes where
  st : Store
  disk : Disk
  out : Outcome
  bases : List (Disk × Bool)
  removed : List LogFile := []
  /-- the flush reported "not committed" but left the complete batch on disk (`appendFullNoRepair`) -/
  limbo : Bool := false

/-- `ensureWriter` when no failure is pending: `manager.Create` = create the next log, then
sync the directory. Returns the store, the directory before and after the directory sync. -/
def ensureWriter (s : Store) (d : Disk) : Store × Disk × Disk :=
  match s.writer with
  | some _ => (s, d, d)
  | none =>
    ({ s with writer := some s.nextWAL, nextWAL := s.nextWAL + 1, known := s.known ++ [s.nextWAL] },
     { d with files := d.files ++ [{ num := s.nextWAL }] },
     { d with files := d.files ++ [{ num := s.nextWAL }], zombies := [], wmAlt := [] })

/-- Of the obsolete logs `cand` (ascending), the ones that do get unlinked under the failure. -/
def Fault.removable (ft : Fault) (cand : List LogFile) : List LogFile :=
  match ft with
  | .unlink k => cand.take k
  | _ => cand

/-- Does the part of the cleanup after the watermark write report an error? -/
def Fault.cleanupFails (ft : Fault) (cand : List LogFile) : Bool :=
  match ft with
  | .rotate => true
  | .unlink k => decide (k < cand.length)
  | _ => false

/-- The tail of `removeObsoleteWALFiles` once the interval is reached: `writePruneWatermark`
(tmp, rename, directory sync), `rotateAfterSynced`, `cleanupObsoleteWALs`. `s` already has the
batch indexed, `d` has it on disk in log `n`. -/
def cleanup (s : Store) (d : Disk) (n : Nat) (ft : Fault) : OpRes :=
  let dTmp := { d with tmp := true }
  let dRen := { d with wm := some s.idx.pruned, tmp := true, wmAlt := d.wm :: d.wmAlt }
  let dRen' := { d with wm := some s.idx.pruned, tmp := false, wmAlt := d.wm :: d.wmAlt }
  if ft = .wmSync then
    -- syncDir fails: writePruneWatermark returns the error, nothing else happens
    ⟨s, dRen', .errCommitted, [(dTmp, true), (dRen, true), (dRen', true)], [], false⟩
  else
    let dWm := { d with wm := some s.idx.pruned, tmp := false, zombies := [], wmAlt := [] }
    -- rotateAfterSynced: the writer is closed (an EOF trailer is appended; when that fails the
    -- tail is cut back to the synced offset)
    let dTrail := dWm.setGarbage n true
    let s' := { s with writer := none }
    -- cleanupObsoleteWALs: Manager.Obsolete hands out (and forgets) the known logs below the bound
    let minLive := s'.minLive
    let cand := dWm.files.filter (fun f => decide (f.num < minLive) && s.known.contains f.num)
    let rm := (ft.removable cand).map (fun f => f.num)
    let failed := ft.cleanupFails cand
    let dGc := { dWm with files := dWm.files.filter (fun f => !rm.contains f.num),
                          zombies := dWm.files.filter (fun f => rm.contains f.num) }
    let s'' := { s' with known := s.known.filter (fun k => !decide (k < minLive)) }
    ⟨if failed then s'' else { s'' with sinceCleanup := 0 }, dGc, if failed then .errCommitted else .ok,
      [(dTmp, true), (dRen, true), (dRen', true), (dWm, true), (dTrail, true), (dWm, true), (dGc, true)],
      dGc.zombies, false⟩

/-- `flushLocked`. -/
def flushLocked (s : Store) (d : Disk) (ft : Fault) : OpRes :=
  if s.closed then ⟨s, d, .closed, [(d, false)], [], false⟩
  else if s.pending.isEmpty then ⟨s, d, .ok, [(d, false)], [], false⟩
  else if s.repairRequired then ⟨s, d, .errNotCommitted, [(d, false)], [], false⟩
  else if ft = .create && s.writer.isNone then ⟨s, d, .errNotCommitted, [(d, false)], [], false⟩
  else
    let n := s.writer.getD s.nextWAL
    let s1 := (ensureWriter s d).1
    let dNew := (ensureWriter s d).2.1
    let d1 := (ensureWriter s d).2.2
    let bs1 := [(d, false), (dNew, false), (d1, false)]
    let dTorn := d1.setGarbage n true
    let dFull := d1.appendBatch n s.pending s.nextSeq
    if ft = .append then
      -- abortUncommitted: close the writer, truncate back to the synced offset
      ⟨{ s1 with writer := none }, d1, .errNotCommitted,
        bs1 ++ [(dTorn, false), (dFull, true), (d1, false)], [], false⟩
    else if ft = .appendNoRepair then
      ⟨{ s1 with writer := none, repairRequired := true }, dTorn, .errNotCommitted,
        bs1 ++ [(dTorn, false)], [], false⟩
    else if ft = .appendFullNoRepair then
      ⟨{ s1 with writer := none, repairRequired := true }, dFull, .errNotCommitted,
        bs1 ++ [(dTorn, false), (dFull, true)], [], true⟩
    else
      -- appended and synced; updateIndexesFromCommittedRecords
      let s2 := { s1 with idx := s1.idx.applyRecs n s.pending, pending := [],
                          nextSeq := s.nextSeq + s.pending.length }
      let bs2 := bs1 ++ [(dTorn, false), (dFull, true)]
      let prunes := countPrunes s.pending
      -- removeObsoleteWALFiles
      if prunes = 0 then ⟨s2, dFull, .ok, bs2, [], false⟩
      else
        let s3 := { s2 with sinceCleanup := s.sinceCleanup + prunes }
        if s.sinceCleanup + prunes < cleanupInterval then ⟨s3, dFull, .ok, bs2, [], false⟩
        else if ft = .watermark then
          ⟨s3, { dFull with tmp := false }, .errCommitted,
            bs2 ++ [({ dFull with tmp := true }, true), ({ dFull with tmp := false }, true)], [], false⟩
        else
          let r := cleanup s3 dFull n ft
          { r with bases := bs2 ++ r.bases }

/-- A name for each element of `(cleanup …).bases` (for the harness: which crash point of the real
code corresponds to which durable state; `ProofsRun.flushTags_length` keeps the two lists aligned). -/
def cleanupTags (ft : Fault) : List String :=
  if ft = .wmSync then ["tmp", "ren", "ren'"]
  else ["tmp", "ren", "ren'", "wm", "trail", "rot", "gc"]

/-- A name for each element of `(flushLocked s d ft).bases`. -/
def flushTags (s : Store) (ft : Fault) : List String :=
  if s.closed then ["pre"]
  else if s.pending.isEmpty then ["pre"]
  else if s.repairRequired then ["pre"]
  else if ft = .create && s.writer.isNone then ["pre"]
  else
    let bs1 := ["pre", "created", "synced"]
    if ft = .append then bs1 ++ ["torn", "full", "repaired"]
    else if ft = .appendNoRepair then bs1 ++ ["torn"]
    else if ft = .appendFullNoRepair then bs1 ++ ["torn", "full"]
    else
      let bs2 := bs1 ++ ["torn", "full"]
      if countPrunes s.pending = 0 then bs2
      else if s.sinceCleanup + countPrunes s.pending < cleanupInterval then bs2
      else if ft = .watermark then bs2 ++ ["tmp", "tmpgone"]
      else bs2 ++ cleanupTags ft

/-- … of `(closeStore s d ft).bases`. -/
def closeTags (s : Store) (ft : Fault) : List String :=
  if s.closed then ["pre"] else flushTags s ft ++ ["closing", "closed"]

def Outcome.committed : Outcome → Bool
  | .ok => true
  | .errCommitted => true
  | _ => false

/-- `Close`. -/
def closeStore (s : Store) (d : Disk) (ft : Fault) : OpRes :=
  if s.closed then ⟨s, d, .ok, [(d, false)], [], false⟩
  else
    let r := flushLocked s d ft
    let dTrail := match r.st.writer with
      | some n => r.disk.setGarbage n true
      | none => r.disk
    -- wal.close(): closeAndRepairCurrent; errors.Join(flushErr, closeErr, …)
    let closeFails := ((ft = .closeWriter || ft = .closeWriterNoRepair) && r.st.writer.isSome) || ft = .closeManager
    let out := if closeFails && r.out = .ok then .errCommitted else r.out
    let dEnd := if ft = .closeWriterNoRepair && r.st.writer.isSome then dTrail else r.disk
    ⟨{ r.st with closed := true, writer := none }, dEnd, out,
      r.bases ++ [(dTrail, r.out.committed || r.limbo), (r.disk, r.out.committed || r.limbo)], r.removed, r.limbo⟩

/-- `recoverLatestWALTail`: the invalid tail of the latest log is cut off. -/
def clearLastGarbage : List LogFile → List LogFile
  | [] => []
  | [f] => [{ f with garbage := false }]
  | f :: fs => f :: clearLastGarbage fs

/-- `nextWALNum`. -/
def nextNum (files : List LogFile) : Nat := files.foldl (fun m f => max m (f.num + 1)) 1

def replayFile (x : Idx) (f : LogFile) : Idx := f.visible.foldl (fun y b => y.applyRecs f.num b) x

/-- `applyEncodedBatch`: `nextBatchSeqNum` becomes at least `SeqNum + Count` of every batch read -/
def seqAfterFile (m : Nat) (f : LogFile) : Nat :=
  (visibleFrom 0 f.batches f.seqs).foldl (fun m p => max m (p.2 + p.1.length)) m

def replayFiles (x : Idx) (files : List LogFile) : Idx := files.foldl replayFile x

inductive OpenErr where
  | corruptLog   -- `loadLogicalLog`: an invalid record in a log that is not the latest
  deriving DecidableEq, Repr

/-- `NewTendermintWALStore` on a directory. Returns the store and the directory after the tail
repair. -/
def openStore (d : Disk) : Except OpenErr (Store × Disk) :=
  let files := clearLastGarbage d.files
  if files.any (·.garbage) then .error .corruptLog
  else
    .ok ({ nextWAL := nextNum files, idx := replayFiles { pruned := d.wm.getD 0 } files,
           known := files.map (·.num), nextSeq := files.foldl seqAfterFile 1 },
         { d with files := files })

/-- What a restarted validator sees: `LoadAllEntries` after `NewTendermintWALStore`. -/
def recover (d : Disk) : Except OpenErr (List (Nat × List Nat)) :=
  (openStore d).map (fun p => p.1.load)

/-! ### The system: process + directory + ghost history -/

structure Sys where
  alive : Bool := false
  st : Store := {}
  disk : Disk := {}
  /-- ghost: the API calls (`entry` = SetWALEntry, `prune` = DeleteWALEntries) that were followed
  by a flush that committed, or that a recovery has brought back -/
  acked : List Rec := []
  /-- ghost: the API calls since then -/
  calls : List Rec := []
  /-- ghost: every log file removed by the cleanup so far -/
  removed : List LogFile := []
  /-- ghost: the calls of a batch that a flush reported as not committed although it is completely on
  disk (`appendFullNoRepair`; the store is blocked from then on): a restart brings them back -/
  limbo : List Rec := []
  deriving Repr

/-- Operations a crash can interrupt. -/
inductive COp where
  | idle | flush (ft : Fault) | close (ft : Fault) | reopen
  deriving DecidableEq, Repr

inductive Op where
  | set (h e : Nat)
  | del (h : Nat)
  | flush (ft : Fault)
  | close (ft : Fault)
  | reopen
  /-- crash while `c` runs, at its `i`-th durable state, resurrecting the zombies chosen by `mask`
  (and with `alt` undoing an undurable watermark rename) -/
  | crash (c : COp) (i : Nat) (mask : List Bool) (alt : Nat)
  deriving DecidableEq, Repr

/-- The durable states `c` passes through when started in `sys`. -/
def Sys.bases (sys : Sys) : COp → List (Disk × Bool)
  | .idle => [(sys.disk, false)]
  | .flush ft => if sys.alive then (flushLocked sys.st sys.disk ft).bases else [(sys.disk, false)]
  | .close ft => if sys.alive then (closeStore sys.st sys.disk ft).bases else [(sys.disk, false)]
  | .reopen =>
    if sys.alive && !sys.st.closed then [(sys.disk, false)]
    else [(sys.disk, false), ({ sys.disk with files := clearLastGarbage sys.disk.files }, false)]

def allMasks : Nat → List (List Bool)
  | 0 => [[]]
  | n + 1 => (allMasks n).flatMap (fun m => [true :: m, false :: m])

/-- All crash images of `c` started in `sys`. -/
def Sys.images (sys : Sys) (c : COp) : List (Disk × Bool) :=
  (sys.bases c).flatMap (fun b => (allMasks b.1.zombies.length).flatMap
    (fun m => (List.range (b.1.wmAlt.length + 1)).map (fun alt => (b.1.resurrect m alt, b.2))))

def Sys.step (sys : Sys) : Op → Sys × Outcome
  | .set h e =>
    if !sys.alive then (sys, .dead) else
    let (s, o) := sys.st.setEntry h e
    ({ sys with st := s, calls := if o = .ok then sys.calls ++ [.entry h e] else sys.calls }, o)
  | .del h =>
    if !sys.alive then (sys, .dead) else
    let (s, o) := sys.st.deleteEntries h
    ({ sys with st := s, calls := if o = .ok then sys.calls ++ [.prune h] else sys.calls }, o)
  | .flush ft =>
    if !sys.alive then (sys, .dead) else
    let r := flushLocked sys.st sys.disk ft
    ({ sys with st := r.st, disk := r.disk,
                acked := if r.out.committed then sys.acked ++ sys.calls else sys.acked,
                calls := if r.out.committed then [] else sys.calls,
                removed := sys.removed ++ r.removed,
                limbo := if r.limbo then sys.calls else sys.limbo },
     r.out)
  | .close ft =>
    if !sys.alive then (sys, .dead) else
    let r := closeStore sys.st sys.disk ft
    ({ sys with st := r.st, disk := r.disk,
                acked := if r.out.committed && !sys.st.closed then sys.acked ++ sys.calls else sys.acked,
                calls := if r.out.committed && !sys.st.closed then [] else sys.calls,
                removed := sys.removed ++ r.removed,
                limbo := if r.limbo then sys.calls else sys.limbo },
     r.out)
  | .reopen =>
    if sys.alive && !sys.st.closed then (sys, .bad) else
    match openStore sys.disk with
    | .ok (s, d) => ({ sys with alive := true, st := s, disk := d, calls := [],
                                acked := sys.acked ++ sys.limbo, limbo := [] }, .ok)
    | .error _ => ({ sys with alive := false }, .openFailed)
  | .crash c i mask alt =>
    match (sys.bases c)[i]? with
    | none => (sys, .bad)
    | some (b, infl) =>
      ({ sys with alive := false, disk := b.resurrect mask alt,
                  acked := if infl then sys.acked ++ sys.calls else sys.acked ++ sys.limbo,
                  calls := [], limbo := [] }, .ok)

def Sys.run (sys : Sys) (ops : List Op) : Sys := ops.foldl (fun s o => (s.step o).1) sys

/-- A fresh data directory, no process. -/
def Sys.init : Sys := {}


/-! ### Aliasing (record.go `setEntry`) -/

def pokeAt : List Rec → Nat → Nat → List Rec
  | [], _, _ => []
  | .entry h _ :: rs, 0, e' => .entry h e' :: rs
  | r :: rs, 0, _ => r :: rs
  | r :: rs, i + 1, e' => r :: pokeAt rs i e'

/-- Not an API call: the caller writes through the `*Value` / `*ID` pointer of an entry it has
already handed to `SetWALEntry`. Since juno commit b8b5501 `setEntry` copies what these pointers
refer to, so the buffered record is out of the caller's reach: nothing changes. -/
def Store.poke (s : Store) (_i _e' : Nat) : Store := s

/-- The same event on the code BEFORE b8b5501 (regression witness only): `setEntry` copied the entry
struct but not what `Proposal.Value` / `Vote.ID` point to, so the `i`-th buffered record carried the
later payload `e'` when it was encoded at Flush time. -/
def Store.pokeBefore_b8b5501 (s : Store) (i e' : Nat) : Store :=
  { s with pending := pokeAt s.pending i e' }

/-! ### What the property says a restarted validator must see -/

/-- The highest height of a prune call in a history of API calls (`0`: none; juno's watermark
uses the same encoding, so height `0` always counts as pruned). -/
def maxPrune : List Rec → Nat
  | [] => 0
  | .prune h :: rs => max h (maxPrune rs)
  | .entry _ _ :: rs => maxPrune rs

/-- The payloads of the entries of height `h` in a history, in call order. -/
def entriesOf (h : Nat) : List Rec → List Nat
  | [] => []
  | .entry h' e :: rs => if h' = h then e :: entriesOf h rs else entriesOf h rs
  | .prune _ :: rs => entriesOf h rs

/-- `out` (what `LoadAllEntries` yields: heights with their entries) is exactly what the
property allows after the acknowledged calls `A`: heights ascending, and for every height above
the highest acknowledged prune all acknowledged entries of that height in call order, nothing
for the heights at or below it, nothing else. These three clauses determine `out`
(`Props.loadSpec_unique`). -/
structure LoadSpec (out : List (Nat × List Nat)) (A : List Rec) : Prop where
  sorted : (out.map (·.1)).Pairwise (· < ·)
  nonempty : ∀ p ∈ out, p.2 ≠ []
  exact : ∀ h, (AMap.get? out h).getD [] = if h ≤ maxPrune A then [] else entriesOf h A

/-- "Pruned" without juno's encoding of "nothing pruned" as watermark 0: a height is pruned iff
some acknowledged prune call covers it. -/
def prunedIdeal (A : List Rec) (h : Nat) : Bool :=
  A.any (fun r => match r with
    | .prune p => decide (h ≤ p)
    | .entry _ _ => false)

/-- `LoadSpec` with the ideal notion of "pruned" (a height-0 entry counts like any other). -/
structure LoadSpecIdeal (out : List (Nat × List Nat)) (A : List Rec) : Prop where
  sorted : (out.map (·.1)).Pairwise (· < ·)
  nonempty : ∀ p ∈ out, p.2 ≠ []
  exact : ∀ h, (AMap.get? out h).getD [] = if prunedIdeal A h then [] else entriesOf h A

/-- every entry call of the history is for a height ≥ 1 (juno's consensus starts at height 1) -/
def HeightsPositive (A : List Rec) : Prop := ∀ h e, Rec.entry h e ∈ A → 0 < h

end Juno.C14
