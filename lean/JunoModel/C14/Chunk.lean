import JunoModel.C14.Batch
/-
C14 — byte-level model of the PHYSICAL layer of a consensus log file: how the records (encoded
batches) a Flush appends sit in the file, how a restart finds them again, and what juno's writer and
its tail repair do with the byte offsets.

* Pebble v2.1.6 `record/log_writer.go`: `LogWriter.SyncRecordGeneralized` (the loop over
  `emitFragmentRecyclable`), the zero padding of a block in which no further chunk header fits
  (`queueBlock`), the logical offset it returns (`blockNum*blockSize + written`), `emitEOFTrailer`.
  juno configures the standalone manager with `WriteWALSyncOffsets: false`, so the RECYCLABLE chunk
  format is written: `crc(4 LE) len(2 LE) type(1) lognum(4 LE) payload`, types 5 full / 6 first /
  7 middle / 8 last, the checksum over type, log number and payload.
* Pebble `record/record.go`: `Reader.nextChunk` (all three wire formats, the zeroed-header rules at
  the end of a block, the EOF trailer, the short last block), `Reader.Next`, `singleReader.Read`
  (a record = the payloads up to the first chunk marked full/last), `Reader.Offset`.  Every
  `ErrInvalidChunk / ErrZeroedChunk / ErrUnexpectedEOF` (and whatever `readAheadForCorruption` makes
  of them: with the recyclable format it always ends in `ErrUnexpectedEOF`) is ONE class here,
  `invalid`: juno only asks `record.IsInvalidRecord`.
* Pebble `wal/reader.go: virtualWALReader.NextRecord` for a log with one segment: the offset handed
  out with a record or an error is `Reader.Offset()` taken BEFORE the `Next` call (`scan`).
  The batch-level filter (short header = corruption, empty / non-increasing batches skipped) is
  `Batch.readLog`.
* juno `wal_writer.go`: `recoverLatestWALTail` (`eof` → `repairWALTailIfLonger`, `invalid` →
  `repairWALTail`), `repairWALTail` (offset clamped to the file size, truncate), and the offset
  bookkeeping of `walWriter`: `appendSync` (`currentWALSyncedOffset = logicalOffset`),
  `abortUncommitted` (close the writer, truncate to the synced offset), `close` /
  `rotateAfterSynced`, `ensureWriter` / `closeCurrent` (offset reset): `PW`.

The reader state is kept as (`blk` = offset of the current block, `i` = `r.end`, `s` = the file from
that position on, `started` = `blockNum >= 0`): Pebble's `buf[end:n]` is `s.take (B - i)`, and `r.n`
is `i + min (B - i) s.length`.  The checksum is a parameter (`Cfg.crc`): the theorems hold for every
function, the driver plugs in Pebble's CRC-32C (`pebbleCrc`).  The block size is a parameter too
(32768 in the driver; the examples in `Props.lean` use small blocks).

Core Lean only: linked into the driver (`frames`, `scan`, `pw`).
-/
namespace Juno.C14.Chunk
open Juno.C14.Codec (by8)
open Juno.C14.Batch (le32)

structure Cfg where
  /-- `blockSize` -/
  B : Nat := 32768
  /-- low 32 bits of the log number (`uint32(logNum)`) -/
  logNum : Nat
  /-- `crc.New(data).Value()` -/
  crc : List UInt8 → Nat

/-- `binary.LittleEndian.PutUint16` -/
def le16 (n : Nat) : List UInt8 := [by8 n, by8 (n / 256)]

def two32 : Nat := 4294967296

/-! ### writing (`record.LogWriter`) -/

/-- `recyclableFull / First / Middle / LastChunkEncoding` -/
def chunkType (first last : Bool) : Nat :=
  if last then (if first then 5 else 8) else (if first then 6 else 7)

/-- one recyclable chunk: header and payload -/
def mkChunk (c : Cfg) (typ ln : Nat) (pl : List UInt8) : List UInt8 :=
  le32 (c.crc (by8 typ :: (le32 ln ++ pl))) ++ (le16 pl.length ++ (by8 typ :: (le32 ln ++ pl)))

def zeros (n : Nat) : List UInt8 := List.replicate n 0

/-- `emitFragmentRecyclable(n, p)` with `i = block.written`: the bytes put into the file, the new
`written` (0 after `queueBlock`) and the rest of `p`. -/
def emitFragment (c : Cfg) (i : Nat) (first : Bool) (p : List UInt8) : List UInt8 × Nat × List UInt8 :=
  let room := c.B - i - 11
  let r := min room p.length
  let chunk := mkChunk c (chunkType first (decide (p.length ≤ room))) c.logNum (p.take r)
  let j := i + 11 + r
  if c.B - j < 11 then (chunk ++ zeros (c.B - j), 0, p.drop r) else (chunk, j, p.drop r)

/-- the loop `for i := 0; i == 0 || len(p) > 0; i++ { p = w.emitFragment(i, p) }` -/
def emitLoop (c : Cfg) : Nat → Nat → Bool → List UInt8 → List UInt8 × Nat
  | 0, i, _, _ => ([], i)
  | fuel + 1, i, first, p =>
    let f := emitFragment c i first p
    if f.2.2.isEmpty then (f.1, f.2.1)
    else
      let g := emitLoop c fuel f.2.1 false f.2.2
      (f.1 ++ g.1, g.2)

/-- `SyncRecordGeneralized(p)` at `block.written = i`: the bytes of the record's chunks (and block
padding), and the new `written`. Two fragments use up at least one payload byte. -/
def emitRecord (c : Cfg) (i : Nat) (p : List UInt8) : List UInt8 × Nat :=
  emitLoop c (2 * p.length + 2) i true p

/-- the records of a log written one after the other from the start of the file: the bytes and the
final `written` -/
def emitAll (c : Cfg) : Nat → List (List UInt8) → List UInt8 × Nat
  | i, [] => ([], i)
  | i, p :: ps =>
    let a := emitRecord c i p
    let b := emitAll c a.2 ps
    (a.1 ++ b.1, b.2)

/-- the bytes of a log that holds exactly these records (writer still open, or cut off behind them) -/
def frames (c : Cfg) (ps : List (List UInt8)) : List UInt8 := (emitAll c 0 ps).1

/-- `emitEOFTrailer`: a recyclable header with zero checksum and length and the NEXT log number -/
def trailer (c : Cfg) : List UInt8 :=
  le32 0 ++ (le16 0 ++ (5 :: le32 ((c.logNum + 1) % two32)))

/-! ### reading (`record.Reader`) -/

inductive CErr where
  | eof        -- `io.EOF`
  | invalid    -- `ErrInvalidChunk`, `ErrZeroedChunk`, `ErrUnexpectedEOF`: `record.IsInvalidRecord`
  | fuel       -- never (`Props.chunk_reader_fuel_irrelevant`)
  deriving DecidableEq, Repr

structure RS where
  /-- `blockNum * blockSize` -/
  blk : Nat := 0
  /-- `r.end` -/
  i : Nat := 0
  /-- the file from offset `blk + i` on -/
  s : List UInt8
  /-- `blockNum >= 0` -/
  started : Bool := false
  deriving DecidableEq, Repr

/-- `r.n - r.end`: what is left of the block in the buffer (`min (B - i) s.length`, computed without
walking the whole file) -/
def avail (c : Cfg) (r : RS) : Nat := if r.started then (r.s.take (c.B - r.i)).length else 0

structure Hd where
  checksum : Nat
  length : Nat
  enc : Nat
  deriving DecidableEq, Repr

/-- the seven bytes every header format starts with -/
def rdHd : List UInt8 → Option Hd
  | c0 :: c1 :: c2 :: c3 :: l0 :: l1 :: t :: _ =>
    some ⟨c0.toNat + 256 * (c1.toNat + 256 * (c2.toNat + 256 * c3.toNat)), l0.toNat + 256 * l1.toNat, t.toNat⟩
  | _ => none

/-- `binary.LittleEndian.Uint32(r.buf[r.end+7 : r.end+11])` -/
def rdLogNum (s : List UInt8) : Nat :=
  match s.drop 7 with
  | a :: b :: c :: d :: _ => a.toNat + 256 * (b.toNat + 256 * (c.toNat + 256 * d.toNat))
  | _ => 0

/-- `headerFormatMappings[enc].chunkPosition`: 0 invalid, 1 full, 2 first, 3 middle, 4 last -/
def posOf (enc : Nat) : Nat := if enc = 0 then 0 else (enc - 1) % 4 + 1

/-- `….wireFormat`: 0 invalid, 1 legacy, 2 recyclable, 3 walSync -/
def wireOf (enc : Nat) : Nat := if enc = 0 then 0 else (enc - 1) / 4 + 1

/-- `….headerSize` -/
def hsOf (enc : Nat) : Nat :=
  match wireOf enc with
  | 1 => 7
  | 2 => 11
  | 3 => 19
  | _ => 0

/-- one iteration of `nextChunk`: a chunk is handed out, the loop goes round again (`continue`), or it
returns `io.EOF` / one of the invalid-record errors -/
inductive Step where
  | done (r : RS) (pl : List UInt8) (last : Bool)
  | cont (r : RS)
  | eof
  | invalid
  deriving DecidableEq, Repr

/-- `r.end = r.n; continue` -/
def RS.skipBlock (c : Cfg) (r : RS) : RS := { r with i := r.i + avail c r, s := r.s.drop (avail c r) }

/-- one iteration of the `for` loop of `Reader.nextChunk(wantFirst)` -/
def chunkStep (c : Cfg) (wantFirst : Bool) (r : RS) : Step :=
  let a := avail c r
  if 7 ≤ a then
    match rdHd r.s with
    | none => .invalid
    | some h =>
      if 13 ≤ h.enc then .invalid
      else if h.checksum = 0 ∧ h.length = 0 ∧ h.enc = 0 then
        -- a zeroed header: fine only where no real header fits any more
        if a < 11 then .cont (r.skipBlock c)
        else if a < 19 then
          if (r.s.take a).all (· == 0) then .cont (r.skipBlock c) else .invalid
        else .invalid
      else if h.enc = 0 then .invalid
      else
        let hs := hsOf h.enc
        if 2 ≤ wireOf h.enc ∧ a < hs then .invalid
        else if 2 ≤ wireOf h.enc ∧ rdLogNum r.s ≠ c.logNum then
          -- an EOF trailer carries the next log number
          if rdLogNum r.s = (c.logNum + 1) % two32 ∧ wantFirst then .eof else .invalid
        else if a < hs + h.length then .invalid
        else if h.checksum ≠ c.crc ((r.s.drop 6).take (hs - 6 + h.length)) then .invalid
        else
          let r' := { r with i := r.i + hs + h.length, s := r.s.drop (hs + h.length) }
          if wantFirst ∧ posOf h.enc ≠ 1 ∧ posOf h.enc ≠ 2 then .cont r'
          else .done r' ((r.s.drop hs).take h.length) (posOf h.enc = 1 ∨ posOf h.enc = 4)
  else if r.started ∧ r.i + a < c.B then
    -- the last block is short: `r.n < blockSize && r.blockNum >= 0`
    if wantFirst ∧ a = 0 then .eof else .invalid
  else
    -- `io.ReadFull` of the next block (fewer than 7 bytes at the end of a full block are passed over)
    let s' := r.s.drop a
    if s'.isEmpty then (if wantFirst then .eof else .invalid)
    else .cont { blk := if r.started then r.blk + c.B else 0, i := 0, s := s', started := true }

/-- `Reader.nextChunk(wantFirst)` -/
def nextChunk (c : Cfg) (wantFirst : Bool) : Nat → RS → Except CErr (RS × List UInt8 × Bool)
  | 0, _ => .error .fuel
  | fuel + 1, r =>
    match chunkStep c wantFirst r with
    | .done r' pl last => .ok (r', pl, last)
    | .eof => .error .eof
    | .invalid => .error .invalid
    | .cont r' => nextChunk c wantFirst fuel r'

/-- the rest of a record: `singleReader.Read` calls `nextChunk(false)` until a chunk says "last" -/
def readMore (c : Cfg) : Nat → RS → List UInt8 → Except CErr (RS × List UInt8)
  | 0, _, _ => .error .fuel
  | fuel + 1, r, acc =>
    match nextChunk c false (2 * r.s.length + 3) r with
    | .error e => .error e
    | .ok (r', pl, last) => if last then .ok (r', acc ++ pl) else readMore c fuel r' (acc ++ pl)

/-- `Reader.Next` followed by reading the record to its end (`io.Copy` in `NextRecord`) -/
def readRecord (c : Cfg) (r : RS) : Except CErr (RS × List UInt8) :=
  match nextChunk c true (2 * r.s.length + 3) r with
  | .error e => .error e
  | .ok (r', pl, last) => if last then .ok (r', pl) else readMore c (r'.s.length + 1) r' pl

structure ScanRes where
  /-- every record read completely, in order -/
  recs : List (List UInt8)
  /-- `Offset.Physical` handed out with each of them -/
  starts : List Nat
  /-- `Offset.Physical` handed out with the error that ended the scan -/
  off : Nat
  st : CErr
  deriving DecidableEq, Repr

/-- `Reader.Offset()` -/
def RS.offset (r : RS) : Nat := r.blk + r.i

def scanLoop (c : Cfg) : Nat → RS → List (List UInt8) → List Nat → ScanRes
  | 0, r, acc, sts => ⟨acc, sts, r.offset, .fuel⟩
  | fuel + 1, r, acc, sts =>
    match readRecord c r with
    | .error e => ⟨acc, sts, r.offset, e⟩
    | .ok (r', p) => scanLoop c fuel r' (acc ++ [p]) (sts ++ [r.offset])

/-- reading a log file to its end the way `recoverLatestWALTail` / `loadLogicalLog` do -/
def scan (c : Cfg) (file : List UInt8) : ScanRes := scanLoop c (file.length + 1) { s := file } [] []

/-! ### juno: the tail repair on open (`wal_writer.go`) -/

/-- `repairWALTail(path, syncedOffset)`: the offset is clamped to the file size, the file truncated -/
def repairTail (file : List UInt8) (off : Nat) : List UInt8 := file.take (min off file.length)

/-- `recoverLatestWALTail` on the bytes of the latest log: what the file holds afterwards -/
def recoverTail (c : Cfg) (file : List UInt8) : List UInt8 :=
  let r := scan c file
  if r.st = .eof then
    -- `repairWALTailIfLonger`
    if file.length ≤ r.off then file else repairTail file r.off
  else repairTail file r.off

/-! ### juno: the offsets of `walWriter` -/

/-- the log being written and what `walWriter` remembers about it -/
structure PW where
  /-- the bytes of the log file -/
  file : List UInt8 := []
  /-- `writer != nil` -/
  isOpen : Bool := true
  /-- `LogWriter`: `blockNum*blockSize + written`, the logical offset `SyncRecord` returns -/
  pos : Nat := 0
  /-- `LogWriter`: `block.written`, the offset inside the block being filled -/
  written : Nat := 0
  /-- `currentWALSyncedOffset` -/
  synced : Nat := 0
  deriving DecidableEq, Repr

inductive PEv where
  /-- `appendSync` succeeds -/
  | appendOk (p : List UInt8)
  /-- the write fails after `k` bytes of the record's chunks reached the file; `t` bytes of the EOF
  trailer get written by the `Close` inside `abortUncommitted` (0 when the same limit stops them) -/
  | appendTorn (p : List UInt8) (k t : Nat)
  /-- the record is written completely, the sync is reported as failed; `Close` writes the trailer -/
  | appendSyncFail (p : List UInt8) (t : Nat)
  /-- `close()` / `rotateAfterSynced()`: `t = 11` and no repair when the writer closes cleanly,
  otherwise `t < 11` bytes of the trailer are cut off again -/
  | close (t : Nat)
  deriving DecidableEq, Repr

/-- `closeAndRepairCurrent(w.currentWALSyncedOffset, force)`, the truncation succeeding -/
def PW.closeRepair (w : PW) (c : Cfg) (t : Nat) (force : Bool) : PW :=
  let f := w.file ++ (trailer c).take t
  if t = 11 ∧ !force then { file := f, isOpen := false, pos := 0, written := 0, synced := 0 }
  else { file := repairTail f w.synced, isOpen := false, pos := 0, written := 0, synced := 0 }

def PW.step (c : Cfg) (w : PW) : PEv → PW
  | .appendOk p =>
    if !w.isOpen then w else
    let e := emitRecord c w.written p
    { w with file := w.file ++ e.1, pos := w.pos + e.1.length, written := e.2, synced := w.pos + e.1.length }
  | .appendTorn p k t =>
    if !w.isOpen then w else
    let e := emitRecord c w.written p
    ({ w with file := w.file ++ e.1.take k } : PW).closeRepair c t true
  | .appendSyncFail p t =>
    if !w.isOpen then w else
    let e := emitRecord c w.written p
    ({ w with file := w.file ++ e.1 } : PW).closeRepair c t true
  | .close t => if !w.isOpen then w else w.closeRepair c t false

def PW.run (c : Cfg) (w : PW) (evs : List PEv) : PW := evs.foldl (PW.step c) w

/-- the records acknowledged by a list of events -/
def ackedOf : List PEv → List (List UInt8)
  | [] => []
  | .appendOk p :: es => p :: ackedOf es
  | _ :: _ => []

/-! ### Pebble's checksum (`internal/crc`): CRC-32C, rotated and offset -/

def crcByte (crc : UInt32) (b : UInt8) : UInt32 :=
  let step := fun (x : UInt32) => if x &&& 1 = 1 then (x >>> 1) ^^^ 0x82F63B78 else x >>> 1
  step (step (step (step (step (step (step (step (crc ^^^ b.toUInt32))))))))

def crc32c (bs : List UInt8) : UInt32 := (bs.foldl crcByte 0xFFFFFFFF) ^^^ 0xFFFFFFFF

/-- `crc.New(b).Value()` -/
def pebbleCrc (bs : List UInt8) : Nat :=
  let c := crc32c bs
  (((c >>> 15) ||| (c <<< 17)) + 0xa282ead8).toNat

end Juno.C14.Chunk
