import JunoModel.C14.ProofsOps
/-! C14 — `flushLocked` and `Close`: the invariant, and the directory invariant at every
durable state they pass through. -/
namespace Juno.C14
open AMap

/-- what committing the batch does to the index -/
theorem commit_idx {x : Idx} {A B C : List Rec} (n : Nat) (w : x.EWF) (hp : x.pruned = maxPrune A)
    (hv : ∀ h, maxPrune A < h → x.view h = entriesOf h A) (e : Equiv (maxPrune A) B C) :
    (x.applyRecs n B).pruned = maxPrune (A ++ C) ∧
    ∀ h, maxPrune (A ++ C) < h → (x.applyRecs n B).view h = entriesOf h (A ++ C) := by
  obtain ⟨cp, cv⟩ := applyRecs_closed x n B w
  have hm := e.mp
  rw [maxPrune_append]
  refine ⟨by rw [cp, hp]; exact hm, ?_⟩
  intro h hh
  rw [cv h, hp, entriesOf_append]
  have : ¬ h ≤ max (maxPrune A) (maxPrune B) := by omega
  simp only [this, ↓reduceIte]
  rw [hv h (by omega), e.ents h (by omega)]

theorem pairsOf_nil_file (fs : List LogFile) (k : Nat) : pairsOf (fs ++ [{ num := k }]) = pairsOf fs := by
  simp [pairsOf, recsOfFile]

theorem recsOf_nil_file (fs : List LogFile) (k : Nat) : recsOf (fs ++ [{ num := k }]) = recsOf fs := by
  simp [recsOf, recsOfFile]

theorem ensureWriter_ok {s : Store} {d : Disk} {A C : List Rec} (i : SInv s d A C) (di : DInv d A)
    (hr : s.repairRequired = false) :
    SInv (ensureWriter s d).1 (ensureWriter s d).2.2 A C ∧ DInv (ensureWriter s d).2.1 A ∧
    DInv (ensureWriter s d).2.2 A ∧ (ensureWriter s d).2.2.zombies = [] ∧
    (ensureWriter s d).1.writer = some (s.writer.getD s.nextWAL) ∧ (ensureWriter s d).1.idx = s.idx ∧
    (ensureWriter s d).1.pending = s.pending ∧ (ensureWriter s d).1.repairRequired = false ∧
    (ensureWriter s d).1.closed = s.closed ∧ (ensureWriter s d).1.sinceCleanup = s.sinceCleanup ∧
    (ensureWriter s d).1.nextSeq = s.nextSeq := by
  unfold ensureWriter
  cases hw : s.writer with
  | some n =>
    simp only [Option.getD_some]
    have hz := i.wrz (by simp [hw])
    refine ⟨i, di, di, hz, ?_, ?_, ?_, ?_, ?_, ?_, ?_⟩ <;> first | trivial | rfl | exact hw | exact hr
  | none =>
    simp only [Option.getD_none]
    have hclean := i.nogarb hr
    have dnew : DInv { d with files := d.files ++ [{ num := s.nextWAL }] } A := by
      refine ⟨numsAsc_snoc di.asc (fun G hG => i.next G hG), garbageOnlyLast_snoc _ _ hclean, ?_, di.zclean, ?_, di.zlow, ?_, di.zlowAlt,
        ?_, di.zseq⟩
      rotate_right 1
      · intro f hf
        rcases List.mem_append.mp hf with h | h
        · exact di.seq f h
        · simp only [List.mem_singleton] at h; subst h
          exact ⟨rfl, by simp, by simp, by simp⟩
      · intro ⟨f, hf, hg⟩
        exfalso
        rcases List.mem_append.mp hf with h | h
        · have := hclean f h; simp [this] at hg
        · simp only [List.mem_singleton] at h; subst h; simp at hg
      · show Presents d.wmVal (recsOf (d.files ++ [{ num := s.nextWAL }])) A
        rw [recsOf_nil_file]; exact di.pres
      · intro w hw
        show Presents (w.getD 0) (recsOf (d.files ++ [{ num := s.nextWAL }])) A
        rw [recsOf_nil_file]; exact di.presAlt w hw
    refine ⟨?_, dnew, dnew.synced, ?_, ?_, ?_, ?_, ?_, ?_, ?_, ?_⟩ <;> (try first | trivial | rfl | exact hr)
    refine ⟨i.ewf, i.rwf, ?_, i.pruned, i.view, i.pend, ?_, fun _ => rfl, fun _ => hr, ?_, ?_, ?_⟩
    · intro _
      show Covers s.idx (pairsOf (d.files ++ [{ num := s.nextWAL }]))
      rw [pairsOf_nil_file]; exact i.cov hr
    · intro n hn
      simp only [Option.some.injEq] at hn
      exact ⟨d.files, { num := s.nextWAL }, rfl, hn⟩
    · intro F hF
      show F.num < s.nextWAL + 1
      rcases List.mem_append.mp hF with h | h
      · have := i.next F h; omega
      · simp only [List.mem_singleton] at h; subst h; simp
    · intro _
      refine ⟨(i.seqNext hr).1, ?_⟩
      intro F hF q hq
      rcases List.mem_append.mp hF with h | h
      · exact (i.seqNext hr).2 F h q hq
      · simp only [List.mem_singleton] at h; subst h; simp at hq
    · intro _ F hF
      rcases List.mem_append.mp hF with h | h
      · exact hclean F h
      · simp only [List.mem_singleton] at h; subst h; rfl

theorem Covers.subset {x : Idx} {ps ps' : List (Nat × Rec)} (c : Covers x ps) (h : ∀ p ∈ ps', p ∈ ps) : Covers x ps' :=
  ⟨fun n hh e hm => c.ents n hh e (h _ hm), fun n hh hm => c.prunes n hh (h _ hm)⟩

theorem mem_pairsOf {fs : List LogFile} {G : LogFile} {r : Rec} (hG : G ∈ fs) (hr : r ∈ recsOfFile G) :
    (G.num, r) ∈ pairsOf fs := by
  unfold pairsOf
  exact List.mem_flatMap.mpr ⟨G, hG, List.mem_map.mpr ⟨r, hr, rfl⟩⟩

theorem pairsOf_mono {fs gs : List LogFile} (h : ∀ G ∈ gs, G ∈ fs) : ∀ p ∈ pairsOf gs, p ∈ pairsOf fs := by
  intro p hp
  unfold pairsOf at *
  obtain ⟨G, hG, hm⟩ := List.mem_flatMap.mp hp
  exact List.mem_flatMap.mpr ⟨G, h G hG, hm⟩

theorem pairsOf_setGarbage (d : Disk) (n : Nat) (g : Bool) : pairsOf (d.setGarbage n g).files = pairsOf d.files := by
  unfold Disk.setGarbage pairsOf
  simp only
  induction d.files with
  | nil => rfl
  | cons G fs ih =>
    simp only [List.map_cons, List.flatMap_cons, ih]
    split <;> rfl

/-- the batch appended, synced and indexed -/
theorem commit_ok {s : Store} {d : Disk} {A C : List Rec} {n : Nat} (i : SInv s d A C) (di : DInv d A)
    (hw : s.writer = some n) (hz : d.zombies = []) (hr : s.repairRequired = false) (hne : s.pending ≠ []) :
    DInv (d.setGarbage n true) A ∧ DInv (d.appendBatch n s.pending s.nextSeq) (A ++ C) ∧
    SInv { s with idx := s.idx.applyRecs n s.pending, pending := [], nextSeq := s.nextSeq + s.pending.length }
      (d.appendBatch n s.pending s.nextSeq) (A ++ C) [] ∧
    (d.appendBatch n s.pending s.nextSeq).zombies = [] := by
  obtain ⟨pre, F, hf, hn⟩ := i.wr n hw
  subst hn
  have hclean := i.nogarb hr
  have hcpre : ∀ G ∈ pre, G.garbage = false := fun G hG => hclean G (by rw [hf]; exact List.mem_append_left _ hG)
  have hcall : ∀ G ∈ pre ++ [F], G.garbage = false := fun G hG => hclean G (by rw [hf]; exact hG)
  obtain ⟨dfull, hfiles⟩ := di.full (B := s.pending) pre F s.nextSeq hf hcall i.pend hne (i.seqNext hr).1
    (fun q hq => (i.seqNext hr).2 F (by rw [hf]; simp) q hq)
  refine ⟨di.torn pre F hf hcpre hz, dfull, ?_, hz⟩
  obtain ⟨cp, cv⟩ := commit_idx (B := s.pending) (C := C) F.num i.ewf i.pruned i.view i.pend
  refine ⟨applyRecs_EWF _ _ _ i.ewf, applyRecs_RWF _ _ _ i.rwf, ?_, cp, cv, Equiv.rfl' _ _, ?_, fun _ => hz, fun _ => hr, ?_, ?_, ?_⟩
  · intro _
    have := (i.cov hr).steps F.num s.pending
    have hp : pairsOf (d.appendBatch F.num s.pending s.nextSeq).files = pairsOf d.files ++ s.pending.map (F.num, ·) := by
      rw [hfiles, hf, pairsOf_snoc, pairsOf_snoc]
      simp [recsOfFile, List.append_assoc]
    show Covers _ (pairsOf (d.appendBatch F.num s.pending s.nextSeq).files)
    rw [hp]; exact this
  · intro n' hn'
    exact ⟨pre, _, hfiles, by simpa [hw] using hn'⟩
  · intro G hG
    show G.num < s.nextWAL
    rw [hfiles] at hG
    rcases List.mem_append.mp hG with h | h
    · exact i.next G (by rw [hf]; exact List.mem_append_left _ h)
    · simp only [List.mem_singleton] at h
      subst h
      exact i.next F (by rw [hf]; simp)
  · intro _
    have hlen : 0 < s.pending.length := List.length_pos_iff.mpr hne
    refine ⟨by show 0 < s.nextSeq + s.pending.length; omega, ?_⟩
    intro G hG q hq
    show q < s.nextSeq + s.pending.length
    rw [hfiles] at hG
    rcases List.mem_append.mp hG with h | h
    · have := (i.seqNext hr).2 G (by rw [hf]; exact List.mem_append_left _ h) q hq; omega
    · simp only [List.mem_singleton] at h
      subst h
      simp only [List.mem_append, List.mem_singleton] at hq
      rcases hq with h1 | rfl
      · have := (i.seqNext hr).2 F (by rw [hf]; simp) q h1; omega
      · omega
  · intro _ G hG
    rw [hfiles] at hG
    rcases List.mem_append.mp hG with h | h
    · exact hcpre G h
    · simp only [List.mem_singleton] at h
      subst h
      exact hcall F (by simp)

/-- `SInv` does not mention the cleanup counter -/
theorem SInv.of_since {s : Store} {d : Disk} {A C : List Rec} (i : SInv s d A C) (k : Nat) :
    SInv { s with sinceCleanup := k } d A C :=
  ⟨i.ewf, i.rwf, i.cov, i.pruned, i.view, i.pend, i.wr, i.wrz, i.wrr, i.next, i.seqNext, i.nogarb⟩

/-- `SInv` only looks at the logs and the pending unlinks of the directory -/
theorem SInv.of_disk {s : Store} {d d' : Disk} {A C : List Rec} (i : SInv s d A C) (hf : d'.files = d.files)
    (hz : d'.zombies = d.zombies) : SInv s d' A C :=
  ⟨i.ewf, i.rwf, by rw [hf]; exact i.cov, i.pruned, i.view, i.pend, by rw [hf]; exact i.wr, by rw [hz]; exact i.wrz,
    i.wrr, by rw [hf]; exact i.next, by rw [hf]; exact i.seqNext, by rw [hf]; exact i.nogarb⟩

/-- the amortised cleanup: watermark, rotation, removal of the obsolete logs — with any of
its failures injected -/
theorem cleanup_limbo (s : Store) (d : Disk) (n : Nat) (ft : Fault) : (cleanup s d n ft).limbo = false := by
  unfold cleanup
  split <;> rfl

theorem cleanup_ok {s : Store} {d : Disk} {A : List Rec} {n : Nat} (i : SInv s d A []) (di : DInv d A)
    (hw : s.writer = some n) (hz : d.zombies = []) (hr : s.repairRequired = false) (ft : Fault) :
    (∀ b ∈ (cleanup s d n ft).bases, b.2 = true ∧ DInv b.1 A) ∧ DInv (cleanup s d n ft).disk A ∧
    SInv (cleanup s d n ft).st (cleanup s d n ft).disk A [] ∧
    (∀ F ∈ (cleanup s d n ft).removed, Low (maxPrune A) (recsOfFile F)) ∧
    (cleanup s d n ft).out.committed = true ∧ (cleanup s d n ft).st.closed = s.closed := by
  obtain ⟨pre, F, hf, hn⟩ := i.wr n hw
  subst hn
  have hclean := i.nogarb hr
  have hcpre : ∀ G ∈ pre, G.garbage = false := fun G hG => hclean G (by rw [hf]; exact List.mem_append_left _ hG)
  have hle := di.wm_le
  have hp := i.pruned
  have halt : ∀ w' ∈ d.wm :: d.wmAlt, Presents (w'.getD 0) (recsOf d.files) A := by
    intro w' hw'
    rcases List.mem_cons.mp hw' with rfl | h
    · exact di.pres
    · exact di.presAlt w' h
  have dren : ∀ t, DInv { d with wm := some s.idx.pruned, tmp := t, wmAlt := d.wm :: d.wmAlt } A :=
    fun t => di.setWm _ t _ (by rw [hp]; exact hle) (by rw [hp]; exact Nat.le_refl _) hz halt
  have dwm : DInv { d with wm := some s.idx.pruned, tmp := false, zombies := [], wmAlt := [] } A := (dren false).synced
  have dtrail := dwm.torn pre F hf hcpre rfl
  unfold cleanup
  simp only
  by_cases hws : ft = Fault.wmSync
  · simp only [hws, ↓reduceIte]
    refine ⟨?_, dren false, i.of_disk rfl rfl, ?_, rfl, trivial⟩
    · intro b hb
      simp only [List.mem_cons, List.not_mem_nil, or_false] at hb
      rcases hb with rfl | rfl | rfl
      · exact ⟨rfl, di.setTmp true⟩
      · exact ⟨rfl, dren true⟩
      · exact ⟨rfl, dren false⟩
    · intro G hG; cases hG
  · simp only [hws, ↓reduceIte]
    generalize hrm : ft.removable (List.filter (fun f => decide (f.num < ({ s with writer := none } : Store).minLive) && s.known.contains f.num) d.files) = rmFiles
    have hsub : ∀ G ∈ rmFiles, G.num < ({ s with writer := none } : Store).minLive := by
      intro G hG
      have hmem : G ∈ List.filter (fun f => decide (f.num < ({ s with writer := none } : Store).minLive) && s.known.contains f.num) d.files := by
        rw [← hrm] at hG
        unfold Fault.removable at hG
        split at hG
        · exact List.mem_of_mem_take hG
        · exact hG
      have := (List.mem_filter.mp hmem).2
      simp only [Bool.and_eq_true, decide_eq_true_eq] at this
      exact this.1
    have hlow : ∀ G ∈ d.files, (rmFiles.map (fun f => f.num)).contains G.num = true → Low (maxPrune A) (recsOfFile G) := by
      intro G hG hc r hr'
      have hc' : G.num ∈ rmFiles.map (fun f => f.num) := by simpa using hc
      obtain ⟨G', hG', hnum⟩ := List.mem_map.mp hc'
      have hlt := hsub G' hG'
      rw [hnum] at hlt
      have := dead_is_low { s with writer := none } (pairsOf d.files) i.rwf (i.cov hr) G.num hlt r (mem_pairsOf hG hr')
      rw [← hp]; exact this
    have dgc := dwm.gc (fun f => (rmFiles.map (fun f => f.num)).contains f.num) (by simp [Disk.wmVal, hp]) rfl hclean hlow
    refine ⟨?_, dgc, ?_, ?_, ?_, ?_⟩
    · intro b hb
      simp only [List.mem_cons, List.not_mem_nil, or_false] at hb
      rcases hb with rfl | rfl | rfl | rfl | rfl | rfl | rfl
      · exact ⟨rfl, di.setTmp true⟩
      · exact ⟨rfl, dren true⟩
      · exact ⟨rfl, dren false⟩
      · exact ⟨rfl, dwm⟩
      · exact ⟨rfl, dtrail⟩
      · exact ⟨rfl, dwm⟩
      · exact ⟨rfl, dgc⟩
    · have base : SInv { s with writer := none, known := s.known.filter (fun k => !decide (k < ({ s with writer := none } : Store).minLive)) }
          { d with wm := some s.idx.pruned, tmp := false, wmAlt := [],
                   files := d.files.filter (fun f => !(rmFiles.map (fun f => f.num)).contains f.num),
                   zombies := d.files.filter (fun f => (rmFiles.map (fun f => f.num)).contains f.num) } A [] := by
        refine ⟨i.ewf, i.rwf, ?_, i.pruned, i.view, i.pend, ?_, ?_, ?_, ?_, ?_, ?_⟩
        · intro hq; exact (i.cov hq).subset (pairsOf_mono (fun G hG => (List.mem_filter.mp hG).1))
        · intro n' hn'; cases hn'
        · intro hn'; exact absurd rfl hn'
        · intro hn'; exact absurd rfl hn'
        · intro G hG; exact i.next G (List.mem_filter.mp hG).1
        · intro hq'; exact ⟨(i.seqNext hq').1, fun G hG q hq => (i.seqNext hq').2 G (List.mem_filter.mp hG).1 q hq⟩
        · intro _ G hG; exact hclean G (List.mem_filter.mp hG).1
      split
      · exact base
      · exact base.of_since 0
    · intro G hG
      have hm := List.mem_filter.mp hG
      exact hlow G hm.1 hm.2
    · split <;> rfl
    · split <;> rfl

end Juno.C14

namespace Juno.C14
open AMap

/-- What `flushLocked` / `Close` guarantee when started from a state that satisfies the
invariant for the acknowledged history `A` and the calls `C` since. -/
structure FlushOK (s : Store) (A C : List Rec) (r : OpRes) : Prop where
  bases : ∀ b ∈ r.bases, DInv b.1 (if b.2 = true then A ++ C else A)
  dfin : DInv r.disk (if (r.out.committed || r.limbo) = true then A ++ C else A)
  /-- a batch left on disk by a flush that reported failure: the writer is blocked from then on -/
  lim : r.limbo = true → r.out = .errNotCommitted ∧ r.st.repairRequired = true ∧ r.st.pending = s.pending ∧ s.pending ≠ []
  sfin : r.st.closed = false →
    SInv r.st r.disk (if r.out.committed = true then A ++ C else A) (if r.out.committed = true then [] else C)
  rem : ∀ F ∈ r.removed, Low (maxPrune (if r.out.committed = true then A ++ C else A)) (recsOfFile F)
  closed : r.st.closed = s.closed

theorem DInv.ack {d : Disk} {A C : List Rec} (i : DInv d A) (e : Equiv (maxPrune A) [] C) : DInv d (A ++ C) := by
  refine ⟨i.asc, i.garb, i.zgarb, i.zclean, ?_, i.zlow, ?_, i.zlowAlt, i.seq, i.zseq⟩
  · have := i.pres.append e
    simpa using this
  · intro w hw
    have := (i.presAlt w hw).append e
    simpa using this

theorem flush_ok {s : Store} {d : Disk} {A C : List Rec} (i : SInv s d A C) (di : DInv d A)
    (hc : s.closed = false) (ft : Fault) : FlushOK s A C (flushLocked s d ft) := by
  unfold flushLocked
  simp only [hc, Bool.false_eq_true, ↓reduceIte]
  by_cases hpe : s.pending.isEmpty = true
  · -- nothing to write: the calls since the last flush were all no-ops
    simp only [hpe, ↓reduceIte]
    have hnil : s.pending = [] := List.isEmpty_iff.mp hpe
    have e : Equiv (maxPrune A) [] C := by have := i.pend; rwa [hnil] at this
    obtain ⟨cp, cv⟩ := commit_idx (B := []) (C := C) 0 i.ewf i.pruned i.view e
    refine ⟨?_, ?_, (by intro h; cases h), ?_, ?_, rfl⟩
    · intro b hb
      simp only [List.mem_singleton] at hb
      subst hb
      simpa using di
    · simpa [Outcome.committed] using di.ack e
    · intro _
      simp only [Outcome.committed, ↓reduceIte]
      refine ⟨i.ewf, i.rwf, i.cov, cp, cv, ?_, i.wr, i.wrz, i.wrr, i.next, i.seqNext, i.nogarb⟩
      rw [hnil]; exact Equiv.rfl' _ _
    · intro F hF; cases hF
  · simp only [hpe, Bool.false_eq_true, ↓reduceIte]
    by_cases hrr : s.repairRequired = true
    · simp only [hrr, ↓reduceIte]
      refine ⟨?_, ?_, (by intro h; cases h), ?_, ?_, rfl⟩
      · intro b hb
        simp only [List.mem_singleton] at hb
        subst hb
        simpa using di
      · simpa [Outcome.committed] using di
      · intro _; simpa [Outcome.committed] using i
      · intro F hF; cases hF
    · have hr : s.repairRequired = false := by simpa using hrr
      simp only [hr, Bool.false_eq_true, ↓reduceIte]
      by_cases hcr : (decide (ft = Fault.create) && s.writer.isNone) = true
      · -- manager.Create fails: nothing happened
        simp only [hcr, ↓reduceIte]
        refine ⟨?_, ?_, (by intro h; cases h), ?_, ?_, rfl⟩
        · intro b hb
          simp only [List.mem_singleton] at hb
          subst hb
          simpa using di
        · simpa [Outcome.committed] using di
        · intro _; simpa [Outcome.committed] using i
        · intro F hF; cases hF
      simp only [hcr, Bool.false_eq_true, ↓reduceIte]
      obtain ⟨i1, dnew, d1, hz1, hw1, hidx, hpend, hr1, hcl1, hsc1, hns1⟩ := ensureWriter_ok i di hr
      have hpne : s.pending ≠ [] := fun c => hpe (by simp [c])
      generalize (ensureWriter s d).1 = s1 at *
      generalize (ensureWriter s d).2.1 = dNew at *
      generalize (ensureWriter s d).2.2 = d1' at *
      generalize s.writer.getD s.nextWAL = n at *
      obtain ⟨dtorn, dfull, s2inv, hzf⟩ := commit_ok i1 d1 hw1 hz1 hr1 (by rw [hpend]; exact hpne)
      rw [hpend, hns1] at dfull s2inv hzf
      have bs1 : ∀ b ∈ [(d, false), (dNew, false), (d1', false)], DInv b.1 (if b.2 = true then A ++ C else A) := by
        intro b hb
        simp only [List.mem_cons, List.not_mem_nil, or_false] at hb
        rcases hb with rfl | rfl | rfl
        · simpa using di
        · simpa using dnew
        · simpa using d1
      by_cases hap : ft = Fault.append
      · simp only [hap, ↓reduceIte]
        refine ⟨?_, ?_, (by intro h; cases h), ?_, ?_, hcl1⟩
        · intro b hb
          rcases List.mem_append.mp hb with h | h
          · exact bs1 b h
          · simp only [List.mem_cons, List.not_mem_nil, or_false] at h
            rcases h with rfl | rfl | rfl
            · simpa using dtorn
            · simpa using dfull
            · simpa using d1
        · simpa [Outcome.committed] using d1
        · intro _
          simp only [Outcome.committed, Bool.false_eq_true, ↓reduceIte]
          exact ⟨i1.ewf, i1.rwf, i1.cov, i1.pruned, i1.view, i1.pend, fun n' hn' => (by cases hn'),
            fun hn' => absurd rfl hn', fun hn' => absurd rfl hn', i1.next, i1.seqNext, fun _ => i1.nogarb hr1⟩
        · intro F hF; cases hF
      simp only [hap, ↓reduceIte]
      by_cases hnr : ft = Fault.appendNoRepair
      · simp only [hnr, ↓reduceIte]
        refine ⟨?_, ?_, (by intro h; cases h), ?_, ?_, hcl1⟩
        · intro b hb
          rcases List.mem_append.mp hb with h | h
          · exact bs1 b h
          · simp only [List.mem_singleton] at h
            subst h
            simpa using dtorn
        · simpa [Outcome.committed] using dtorn
        · intro _
          simp only [Outcome.committed, Bool.false_eq_true, ↓reduceIte]
          refine ⟨i1.ewf, i1.rwf, ?_, i1.pruned, i1.view, i1.pend, fun n' hn' => (by cases hn'),
            fun hn' => absurd rfl hn', fun hn' => absurd rfl hn', ?_, ?_, fun hh => (by cases hh)⟩
          rotate_right 1
          · intro hq; cases hq
          · intro hq; cases hq
          · intro F hF
            unfold Disk.setGarbage at hF
            simp only [List.mem_map] at hF
            obtain ⟨G, hG, rfl⟩ := hF
            have := i1.next G hG
            split <;> exact this
        · intro F hF; cases hF
      simp only [hnr, ↓reduceIte]
      by_cases hfn : ft = Fault.appendFullNoRepair
      · -- written and synced, reported as failed, and the repair that would cut it off fails too
        simp only [hfn, ↓reduceIte]
        refine ⟨?_, ?_, ?_, ?_, ?_, hcl1⟩
        · intro b hb
          rcases List.mem_append.mp hb with h | h
          · exact bs1 b h
          · simp only [List.mem_cons, List.not_mem_nil, or_false] at h
            rcases h with rfl | rfl
            · simpa using dtorn
            · simpa using dfull
        · simpa [Outcome.committed] using dfull
        · intro _; exact ⟨rfl, rfl, hpend, hpne⟩
        · intro _
          simp only [Outcome.committed, Bool.false_eq_true, ↓reduceIte]
          refine ⟨i1.ewf, i1.rwf, fun hq => (by cases hq), i1.pruned, i1.view, i1.pend, fun n' hn' => (by cases hn'),
            fun hn' => absurd rfl hn', fun hn' => absurd rfl hn', s2inv.next, fun hq => (by cases hq), fun hh => (by cases hh)⟩
        · intro F hF; cases hF
      simp only [hfn, ↓reduceIte]
      -- the batch is appended, synced and indexed
      have bs2 : ∀ b ∈ [(d, false), (dNew, false), (d1', false)] ++ [(d1'.setGarbage n true, false), (d1'.appendBatch n s.pending s.nextSeq, true)],
          DInv b.1 (if b.2 = true then A ++ C else A) := by
        intro b hb
        rcases List.mem_append.mp hb with h | h
        · exact bs1 b h
        · simp only [List.mem_cons, List.not_mem_nil, or_false] at h
          rcases h with rfl | rfl
          · simpa using dtorn
          · simpa using dfull
      by_cases hp0 : countPrunes s.pending = 0
      · simp only [hp0, ↓reduceIte]
        exact ⟨bs2, (by simpa [Outcome.committed] using dfull), (by intro h; cases h), fun _ => (by simpa [Outcome.committed] using s2inv),
          fun F hF => (by cases hF), hcl1⟩
      simp only [hp0, ↓reduceIte]
      by_cases hlt : s.sinceCleanup + countPrunes s.pending < cleanupInterval
      · simp only [hlt, ↓reduceIte]
        exact ⟨bs2, (by simpa [Outcome.committed] using dfull), (by intro h; cases h),
          fun _ => (by simpa [Outcome.committed] using s2inv.of_since _), fun F hF => (by cases hF), hcl1⟩
      simp only [hlt, ↓reduceIte]
      by_cases hwm : ft = Fault.watermark
      · simp only [hwm, ↓reduceIte]
        refine ⟨?_, ?_, (by intro h; cases h), ?_, ?_, hcl1⟩
        · intro b hb
          rcases List.mem_append.mp hb with h | h
          · exact bs2 b h
          · simp only [List.mem_cons, List.not_mem_nil, or_false] at h
            rcases h with rfl | rfl
            · simpa using dfull.setTmp true
            · simpa using dfull.setTmp false
        · simpa [Outcome.committed] using dfull.setTmp false
        · intro _
          simp only [Outcome.committed, ↓reduceIte]
          exact (s2inv.of_since (s.sinceCleanup + countPrunes s.pending)).of_disk rfl rfl
        · intro F hF; cases hF
      simp only [hwm, ↓reduceIte]
      obtain ⟨cb, cd, cs, cr, co, cc⟩ := cleanup_ok (s2inv.of_since (s.sinceCleanup + countPrunes s.pending)) dfull hw1 hzf hr1 ft
      refine ⟨?_, ?_, ?_, ?_, ?_, ?_⟩
      · intro b hb
        rcases List.mem_append.mp hb with h | h
        · exact bs2 b h
        · obtain ⟨h1, h2⟩ := cb b h
          simpa [h1] using h2
      · simpa [co] using cd
      · intro h; rw [show (cleanup _ _ n ft).limbo = false from cleanup_limbo _ _ _ _] at h; cases h
      · intro _; simpa [co] using cs
      · intro F hF; simpa [co] using cr F hF
      · rw [cc]; exact hcl1

end Juno.C14
