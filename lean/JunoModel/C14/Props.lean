import JunoModel.C14.ProofsMore
import JunoModel.C14.ProofsBatch
import JunoModel.C14.ProofsPW
/-!
C14 — property theorems (statements only; helper lemmas are in `Proofs*.lean`).
Every theorem in this module is an obligation listed in evidence/C14.json with its axioms.

Vocabulary (all in `Model.lean`). A history is a list of `Op`: `set h e` (SetWALEntry),
`del h` (DeleteWALEntries), `flush ft` / `close ft` (with an injected failure `ft`: none; the
append fails — write or fsync — and the tail repair succeeds; the repair fails too;
`manager.Create` fails; the watermark write fails; the directory sync after the watermark rename
fails; the rotation fails; the unlink of the k-th obsolete log fails), `reopen`
(NewTendermintWALStore), `crash c i mask alt` (the process dies while operation `c` is at its
`i`-th durable state; the unlinks chosen by `mask`, not yet made durable by a directory sync, are
undone; `alt` says how far watermark renames that no directory sync has made durable are undone).
`Sys.init.run ops` is the state after the history: the store, the directory, and three ghost lists
of API calls — `acked`: the calls followed by a flush that committed (with or without an error
reported afterwards) or brought back by a recovery, `calls`: the calls since, `limbo`: empty, except
after a flush whose fsync reported failure with the whole batch on disk and whose tail repair failed
too (`appendFullNoRepair`): then the calls of that batch — the store is blocked (`repairRequired`) and
shows only `acked`; the next restart finds `acked ++ limbo`. `images c` are all
crash images of the operation `c` started now, each with the flag "the batch in flight is
completely on disk". `recover img` is LoadAllEntries after NewTendermintWALStore on that
directory. `LoadSpec out A`: `out` is exactly what the property allows after the acknowledged calls
`A` (heights above the highest acknowledged prune, each with all its acknowledged entries in call
order; nothing else).

What the statements do NOT cover (assumptions, see checks/c14.json):
* "every crash image" means every image of the OS model written down in `Model.lean`: a log tail
  is either clean or "garbage" (anything after the last complete record that Pebble's reader
  reports as an invalid tail); non-durable unlinks and watermark renames may be undone in any
  combination. That a tail CUT at an arbitrary byte offset is reported as an invalid tail (or a clean
  end) and repaired to exactly the complete records is proved on the byte-level model of Pebble's chunk
  framing (`chunk_cut_anywhere`, round 5/6); that a tail DAMAGED in place (bit flips, zero fill, junk) is
  reported as invalid rests on the checksum and stays an assumption, tested by the harness.
* Order: `LoadAllEntries` sorts by height, so "in their original order" can only mean call order
  within a height; that is what `LoadSpec` says.
* A caller that writes through the pointers of an entry after `SetWALEntry` no longer reaches the
  buffered record (juno b8b5501; regression witness `aliasing_breaks_exactness_before_b8b5501`).
* Failure points that are not in `Fault` (hence `…_partial` below): the tail repair failing
  after a failed *rotation*; the directory sync failing inside `manager.Create`; `encodeBatch`
  returning an error (impossible for `starknet.Value`, a `[4]uint64`); `manager.Obsolete` returning
  an error (it never does in Pebble's standalone manager). (Modelled: `wal.close()` failing —
  `closeWriter`, `closeWriterNoRepair`; `manager.Close()` failing inside `Close` — `closeManager`;
  a reported-failed fsync with the batch on disk followed by a failed repair — `appendFullNoRepair`.)
-/
namespace Juno.C14.Props
open Juno.C14

/-- **Recovery is exact.** After any history — operations, injected failures, earlier crashes
and restarts — and for every crash image (of the OS model above) of whatever happens next
(nothing, a flush, a close, a restart; with any failure injected; at every durable state the
append, the watermark write, the rotation and the removal of obsolete logs pass through; with
any subset of not yet durable unlinks and renames undone): reopening succeeds, and
LoadAllEntries yields exactly the acknowledged history — or, when the batch in flight had
reached the disk completely, the acknowledged history followed by that whole batch. Never an
error, never a partial batch, never a pruned height, never a lost entry. (`limbo` is empty unless
the double failure `appendFullNoRepair` has blocked the store, see the header and
`failed_flush_all_or_nothing_partial`; then it is one whole batch.) -/
theorem recover_exact (ops : List Op) (c : COp) (img : Disk) (infl : Bool)
    (h : (img, infl) ∈ (Sys.init.run ops).images c) :
    ∃ out, recover img = .ok out ∧
      LoadSpec out (if infl = true then (Sys.init.run ops).acked ++ (Sys.init.run ops).calls
                    else (Sys.init.run ops).acked ++ (Sys.init.run ops).limbo) := by
  obtain ⟨b, mask, alt, hb, rfl⟩ := mem_images h
  exact ((inv_run ops).bases c (b, infl) hb).image_good mask alt

/-- The running store shows the same: between any two operations, LoadAllEntries of the open
store is exactly the acknowledged history (pending records are invisible until flushed). -/
theorem live_view_exact (ops : List Op) (ha : (Sys.init.run ops).alive = true)
    (hc : (Sys.init.run ops).st.closed = false) :
    LoadSpec (Sys.init.run ops).st.load (Sys.init.run ops).acked := by
  have i := (inv_run ops).s ha hc
  refine ⟨i.ewf.sorted, i.ewf.nonempty, ?_⟩
  intro h
  by_cases hh : h ≤ maxPrune (Sys.init.run ops).acked
  · simp only [hh, ↓reduceIte]
    exact i.ewf.view_low h (by rw [i.pruned]; exact hh)
  · simp only [hh, ↓reduceIte]
    exact i.view h (by omega)

/-- **A flush that reports failure is all-or-nothing, and the log stays usable** — for EVERY
error outcome and every modelled failure. The Go caller sees one `error`; two things can have
happened and they are told apart here by `committed`:
* not committed (the append — write or fsync — failed, `manager.Create` failed, the writer is
  blocked): nothing of the batch is acknowledged, visible or durable, the pending records and the
  calls since the last flush are kept, no log was unlinked;
* committed, error reported afterwards (the watermark write, its directory sync, the rotation
  or an unlink failed): the WHOLE batch is acknowledged, visible and durable, nothing is pending.
In both cases: the running store shows exactly that history; every crash image from then on
recovers exactly that history (never a part of the batch); and unless the tail repair failed too
(`repairRequired`, the store then refuses new writers on purpose until it is restarted, see
`restart_clears_repair_required`) the very next flush succeeds.
The one case in which a flush reports failure and the batch is durable all the same
(`appendFullNoRepair`: fsync reports an error after the data reached the disk, then the truncation
that would cut the batch off fails): the store is blocked, and what a restart finds is the
acknowledged history followed by `limbo`, which is the WHOLE batch (`sys.calls`) — never a part.
`_partial`: the failure points listed in the header are not in `Fault`. -/
theorem failed_flush_all_or_nothing_partial (ops : List Op) (ft : Fault)
    (ha : (Sys.init.run ops).alive = true) (hc : (Sys.init.run ops).st.closed = false)
    (ho : ((Sys.init.run ops).step (.flush ft)).2 = .errNotCommitted ∨
          ((Sys.init.run ops).step (.flush ft)).2 = .errCommitted) :
    let sys := Sys.init.run ops
    let sys' := (sys.step (.flush ft)).1
    let committed := (sys.step (.flush ft)).2.committed
    sys'.acked = (if committed = true then sys.acked ++ sys.calls else sys.acked) ∧
    (committed = true → sys'.st.pending = [] ∧ sys'.calls = []) ∧
    (committed = false → sys'.st.pending = sys.st.pending ∧ sys'.calls = sys.calls ∧ sys'.removed = sys.removed) ∧
    LoadSpec sys'.st.load sys'.acked ∧
    (∀ img infl, (img, infl) ∈ sys'.images .idle →
      ∃ out, recover img = .ok out ∧ LoadSpec out (sys'.acked ++ sys'.limbo)) ∧
    (sys'.limbo = sys.limbo ∨ sys'.limbo = sys.calls) ∧
    (sys'.st.repairRequired = false → sys'.limbo = [] ∧ (sys'.step (.flush .none)).2 = .ok) := by
  intro sys sys' committed
  have ha' : sys.alive = true := ha
  have hc' : sys.st.closed = false := hc
  have hstep : sys' = Sys.init.run (ops ++ [.flush ft]) := by
    show (sys.step (.flush ft)).1 = _
    rw [run_append]; rfl
  have e0 : (sys.step (.flush ft)).2 = (flushLocked sys.st sys.disk ft).out := by
    simp only [Sys.step, ha', Bool.not_true, Bool.false_eq_true, ↓reduceIte]
  have e2 : sys'.acked = (if committed = true then sys.acked ++ sys.calls else sys.acked) := by
    show (sys.step (.flush ft)).1.acked = (if (sys.step (.flush ft)).2.committed = true then _ else _)
    rw [e0]
    simp only [Sys.step, ha', Bool.not_true, Bool.false_eq_true, ↓reduceIte]
  have e3 : sys'.calls = (if committed = true then [] else sys.calls) := by
    show (sys.step (.flush ft)).1.calls = (if (sys.step (.flush ft)).2.committed = true then _ else _)
    rw [e0]
    simp only [Sys.step, ha', Bool.not_true, Bool.false_eq_true, ↓reduceIte]
  have e4 : sys'.st = (flushLocked sys.st sys.disk ft).st := by
    show (sys.step (.flush ft)).1.st = _
    simp only [Sys.step, ha', Bool.not_true, Bool.false_eq_true, ↓reduceIte]
  have e5 : sys'.alive = true := by
    show (sys.step (.flush ft)).1.alive = true
    simp only [Sys.step, ha', Bool.not_true, Bool.false_eq_true, ↓reduceIte]
  have e6 : sys'.removed = sys.removed ++ (flushLocked sys.st sys.disk ft).removed := by
    show (sys.step (.flush ft)).1.removed = _
    simp only [Sys.step, ha', Bool.not_true, Bool.false_eq_true, ↓reduceIte]
  have hcl : sys'.st.closed = false := by rw [e4, flush_closed_same]; exact hc'
  refine ⟨e2, ?_, ?_, ?_, ?_, ?_, ?_⟩
  · intro hcm
    refine ⟨?_, by rw [e3]; simp [hcm]⟩
    rw [e4]
    exact flush_committed_pending _ _ _ (by rw [← e0]; exact hcm)
  · intro hcm
    have o : (flushLocked sys.st sys.disk ft).out = .errNotCommitted := by
      rcases ho with h | h
      · rw [← e0]; exact h
      · have : committed = true := by show (sys.step (.flush ft)).2.committed = true; rw [h]; rfl
        rw [this] at hcm; cases hcm
    obtain ⟨_, hpd, _, hrm⟩ := flush_not_committed sys.st sys.disk ft hc' o
    exact ⟨by rw [e4]; exact hpd, by rw [e3]; simp [hcm], by rw [e6, hrm]; simp⟩
  · have := live_view_exact (ops ++ [.flush ft]) (by rw [← hstep]; exact e5) (by rw [← hstep]; exact hcl)
    rw [← hstep] at this
    exact this
  · intro img infl hm
    rw [hstep] at hm
    obtain ⟨out, r1, r2⟩ := recover_exact _ .idle img infl hm
    have hfl : infl = false := by
      obtain ⟨b, _, _, hb, _⟩ := mem_images hm
      simp only [Sys.bases, List.mem_singleton, Prod.mk.injEq] at hb
      exact hb.2
    subst hfl
    rw [← hstep] at r2
    exact ⟨out, r1, by simpa using r2⟩
  · show (sys.step (.flush ft)).1.limbo = sys.limbo ∨ (sys.step (.flush ft)).1.limbo = sys.calls
    simp only [Sys.step, ha', Bool.not_true, Bool.false_eq_true, ↓reduceIte]
    split
    · exact Or.inr rfl
    · exact Or.inl rfl
  · intro hrr
    refine ⟨?_, ?_⟩
    · have iv : Inv sys' := by rw [hstep]; exact inv_run _
      by_cases hl : sys'.limbo = []
      · exact hl
      · have := (iv.lim hl e5 hcl).1
        rw [hrr] at this; cases this
    · show (sys'.step (.flush .none)).2 = .ok
      simp only [Sys.step, e5, Bool.not_true, Bool.false_eq_true, ↓reduceIte]
      exact flush_none_ok _ _ hcl hrr

/-- **A restart clears a blocked writer.** Whatever the history (in particular after a failed
tail repair has set `repairRequired`), once the process has died and `NewTendermintWALStore` has run
again the store is open, not blocked, and a flush succeeds. -/
theorem restart_clears_repair_required (ops : List Op) (mask : List Bool) (alt : Nat) :
    let sys := Sys.init.run (ops ++ [.crash .idle 0 mask alt, .reopen])
    sys.alive = true ∧ sys.st.closed = false ∧ sys.st.repairRequired = false ∧
      (sys.step (.flush .none)).2 = .ok := by
  intro sys
  have hrun : sys = (((Sys.init.run ops).step (.crash .idle 0 mask alt)).1.step .reopen).1 := by
    show Sys.init.run _ = _
    rw [run_append]; rfl
  have icr := (inv_run ops).step (.crash .idle 0 mask alt)
  generalize hc : ((Sys.init.run ops).step (.crash .idle 0 mask alt)).1 = c at *
  have hdead : c.alive = false := by
    rw [← hc]
    simp [Sys.step, Sys.bases]
  obtain ⟨s', d', ho, _, _, _⟩ := open_inv icr.d
  obtain ⟨f1, f2, _⟩ := openStore_fresh _ _ _ ho
  have hre : (c.step .reopen).1 =
      { c with alive := true, st := s', disk := d', calls := [], acked := c.acked ++ c.limbo, limbo := [] } := by
    simp only [Sys.step, hdead, Bool.false_and, Bool.false_eq_true, ↓reduceIte, ho]
  rw [hrun, hre]
  refine ⟨rfl, f1, f2, ?_⟩
  simp only [Sys.step, Bool.not_true, Bool.false_eq_true, ↓reduceIte]
  exact flush_none_ok _ _ f1 f2

/-- **A `Close`, whatever it reports, is all-or-nothing and leaves a log the validator can start
from** — for every modelled failure (`Close` = the flush of what is pending, then `wal.close()`, then
`manager.Close()`; any of them can fail, `errors.Join`). The batch of the flush inside is acknowledged
as a whole or not at all (`committed`); the store is closed; every crash image from then on recovers
exactly the acknowledged history (plus the WHOLE batch in `limbo` after the double failure
`appendFullNoRepair`); and the restart — `NewTendermintWALStore` on the directory as `Close` left it —
succeeds, shows exactly that history, is not blocked even when the tail repair inside `Close` had
failed (`closeWriterNoRepair`, `appendNoRepair`), and its first flush succeeds.
`_partial`: the failure points listed in the header are not in `Fault`. -/
theorem close_all_or_nothing_restartable_partial (ops : List Op) (ft : Fault)
    (ha : (Sys.init.run ops).alive = true) (hc : (Sys.init.run ops).st.closed = false) :
    let sys := Sys.init.run ops
    let sys' := (sys.step (.close ft)).1
    let committed := (sys.step (.close ft)).2.committed
    let sys'' := (sys'.step .reopen).1
    sys'.acked = (if committed = true then sys.acked ++ sys.calls else sys.acked) ∧
    (sys'.limbo = sys.limbo ∨ sys'.limbo = sys.calls) ∧
    sys'.st.closed = true ∧
    (∀ img infl, (img, infl) ∈ sys'.images .idle →
      ∃ out, recover img = .ok out ∧ LoadSpec out (sys'.acked ++ sys'.limbo)) ∧
    (sys'.step .reopen).2 = .ok ∧ sys''.alive = true ∧ sys''.st.closed = false ∧
    sys''.st.repairRequired = false ∧ LoadSpec sys''.st.load (sys'.acked ++ sys'.limbo) ∧
    (sys''.step (.flush .none)).2 = .ok := by
  intro sys sys' committed sys''
  have ha' : sys.alive = true := ha
  have hc' : sys.st.closed = false := hc
  have hstep : sys' = Sys.init.run (ops ++ [.close ft]) := by
    show (sys.step (.close ft)).1 = _
    rw [run_append]; rfl
  have e0 : (sys.step (.close ft)).2 = (closeStore sys.st sys.disk ft).out := by
    simp only [Sys.step, ha', Bool.not_true, Bool.false_eq_true, ↓reduceIte]
  have e2 : sys'.acked = (if committed = true then sys.acked ++ sys.calls else sys.acked) := by
    show (sys.step (.close ft)).1.acked = (if (sys.step (.close ft)).2.committed = true then _ else _)
    rw [e0]
    simp only [Sys.step, ha', hc', Bool.not_true, Bool.false_eq_true, ↓reduceIte, Bool.not_false, Bool.and_true]
  have e4 : sys'.st = (closeStore sys.st sys.disk ft).st := by
    show (sys.step (.close ft)).1.st = _
    simp only [Sys.step, ha', Bool.not_true, Bool.false_eq_true, ↓reduceIte]
  have e5 : sys'.alive = true := by
    show (sys.step (.close ft)).1.alive = true
    simp only [Sys.step, ha', Bool.not_true, Bool.false_eq_true, ↓reduceIte]
  have hcl : sys'.st.closed = true := by
    rw [e4]; unfold closeStore; simp [hc']
  have iv : Inv sys' := by rw [hstep]; exact inv_run _
  -- the restart
  obtain ⟨s', d', ho, _, _, _⟩ := open_inv iv.d
  obtain ⟨f1, f2, _⟩ := openStore_fresh _ _ _ ho
  have hre : sys'.step .reopen =
      ({ sys' with alive := true, st := s', disk := d', calls := [], acked := sys'.acked ++ sys'.limbo, limbo := [] }, .ok) := by
    simp only [Sys.step, e5, hcl, Bool.not_true, Bool.and_false, Bool.false_eq_true, ↓reduceIte, ho]
  have hrun2 : sys'' = Sys.init.run (ops ++ [.close ft, .reopen]) := by
    show (sys'.step .reopen).1 = _
    have : ops ++ [.close ft, .reopen] = (ops ++ [.close ft]) ++ [.reopen] := by simp
    rw [this, run_append, ← hstep]; rfl
  have h2a : sys''.alive = true := by show (sys'.step .reopen).1.alive = true; rw [hre]
  have h2c : sys''.st.closed = false := by show (sys'.step .reopen).1.st.closed = false; rw [hre]; exact f1
  have h2r : sys''.st.repairRequired = false := by
    show (sys'.step .reopen).1.st.repairRequired = false; rw [hre]; exact f2
  have h2k : sys''.acked = sys'.acked ++ sys'.limbo := by show (sys'.step .reopen).1.acked = _; rw [hre]
  refine ⟨e2, ?_, hcl, ?_, by rw [hre], h2a, h2c, h2r, ?_, ?_⟩
  · show (sys.step (.close ft)).1.limbo = sys.limbo ∨ (sys.step (.close ft)).1.limbo = sys.calls
    simp only [Sys.step, ha', Bool.not_true, Bool.false_eq_true, ↓reduceIte]
    split
    · exact Or.inr rfl
    · exact Or.inl rfl
  · intro img infl hm
    rw [hstep] at hm
    obtain ⟨out, r1, r2⟩ := recover_exact _ .idle img infl hm
    have hfl : infl = false := by
      obtain ⟨b, _, _, hb, _⟩ := mem_images hm
      simp only [Sys.bases, List.mem_singleton, Prod.mk.injEq] at hb
      exact hb.2
    subst hfl
    rw [← hstep] at r2
    exact ⟨out, r1, by simpa using r2⟩
  · have := live_view_exact (ops ++ [.close ft, .reopen]) (by rw [← hrun2]; exact h2a) (by rw [← hrun2]; exact h2c)
    rw [← hrun2, h2k] at this
    exact this
  · show (sys''.step (.flush .none)).2 = .ok
    simp only [Sys.step, h2a, Bool.not_true, Bool.false_eq_true, ↓reduceIte]
    exact flush_none_ok _ _ h2c h2r

/-- **No batch is ever skipped on replay.** In every crash image of every history every log holds
batches with strictly increasing, positive sequence numbers and at least one record each, so Pebble's
reader (which silently drops a batch with `Count == 0` or a sequence number not above the last one it
returned) hands every batch on disk to `applyEncodedBatch`. -/
theorem no_batch_skipped (ops : List Op) (c : COp) (img : Disk) (infl : Bool)
    (h : (img, infl) ∈ (Sys.init.run ops).images c) (f : LogFile) (hf : f ∈ img.files) :
    f.visible = f.batches := by
  obtain ⟨b, mask, alt, hb, rfl⟩ := mem_images h
  exact ((((inv_run ops).bases c (b, infl) hb).resurrect mask alt).seq f hf).visible

/-- **A new log never takes the name of a log that exists.** On every reachable running store the
number `ensureWriter` gives to the next log (`nextWALNum`, computed at open as the highest number in
the directory + 1 and incremented per log) is above the number of every log in the directory, so
`manager.Create` never truncates a log that holds flushed batches. -/
theorem next_log_number_is_fresh (ops : List Op) (ha : (Sys.init.run ops).alive = true)
    (hc : (Sys.init.run ops).st.closed = false) (F : LogFile) (hF : F ∈ (Sys.init.run ops).disk.files) :
    F.num < (Sys.init.run ops).st.nextWAL :=
  ((inv_run ops).s ha hc).next F hF


/-- **The cleanup never removes a log that is still needed.** Every log file the store has
unlinked, at any point of any history, holds only records of heights that the acknowledged
history has pruned. -/
theorem gc_safe (ops : List Op) (F : LogFile) (hF : F ∈ (Sys.init.run ops).removed)
    (r : Rec) (hr : r ∈ recsOfFile F) : r.height ≤ maxPrune (Sys.init.run ops).acked :=
  (inv_run ops).rem F hF r hr

/-- … and the reason, on every reachable state of a running store: a log numbered below the bound
`cleanupObsoleteWALs` computes (`minLive`: the next log number, lowered to the smallest log some
live height references) holds no record above the prune watermark — a log that holds an entry of
an unpruned height is referenced by that height (exact reference counts). (For a store whose writer
is not blocked: a blocked store refuses every flush, so it never computes the bound.) -/
theorem gc_bound_spares_live_logs (ops : List Op) (ha : (Sys.init.run ops).alive = true)
    (hc : (Sys.init.run ops).st.closed = false) (hb : (Sys.init.run ops).st.repairRequired = false)
    (F : LogFile) (hF : F ∈ (Sys.init.run ops).disk.files)
    (hn : F.num < (Sys.init.run ops).st.minLive) (r : Rec) (hr : r ∈ recsOfFile F) :
    r.height ≤ (Sys.init.run ops).st.idx.pruned := by
  have i := (inv_run ops).s ha hc
  exact dead_is_low _ _ i.rwf (i.cov hb) F.num hn r (mem_pairsOf hF hr)

/-- **The store's prune watermark never goes back** — across any continuation of any history,
crashes and restarts included: `prunedUpToHeight` of the running store after `ops ++ more` is at
least what it was after `ops` (it equals the highest acknowledged prune, and acknowledged calls are
never forgotten). With `recover_exact`/`live_view_exact`: a pruned height stays dead. -/
theorem watermark_never_decreases (ops more : List Op)
    (ha : (Sys.init.run ops).alive = true) (hc : (Sys.init.run ops).st.closed = false)
    (ha' : (Sys.init.run (ops ++ more)).alive = true) (hc' : (Sys.init.run (ops ++ more)).st.closed = false) :
    (Sys.init.run ops).st.idx.pruned ≤ (Sys.init.run (ops ++ more)).st.idx.pruned := by
  rw [((inv_run ops).s ha hc).pruned, ((inv_run (ops ++ more)).s ha' hc').pruned]
  obtain ⟨t, ht⟩ := run_acked_prefix (Sys.init.run ops) more
  rw [run_append, ht, maxPrune_append]; omega

/-- `LoadSpec` determines the result: two lists that satisfy it for the same history are equal
(so the conclusions above are not satisfiable by anything but the intended list). -/
theorem loadSpec_unique (o₁ o₂ : List (Nat × List Nat)) (A : List Rec) (h₁ : LoadSpec o₁ A) (h₂ : LoadSpec o₂ A) :
    o₁ = o₂ :=
  loadSpec_unique' o₁ o₂ A h₁ h₂

/-! ### Height 0 (DESIGN §7 L8)

Full statement, FALSE for juno: `recover_exact` with `LoadSpecIdeal` (a height is pruned iff an
acknowledged prune call covers it) for all histories. juno encodes "nothing pruned" as watermark 0,
so an entry of height 0 is dropped by `SetWALEntry` and by replay. -/

/-- `recover_exact` against the ideal notion of "pruned", for histories whose entries all have
height ≥ 1 — which is every history juno's consensus can produce (its first height is
`chainHeight + 1`, consensus/consensus.go). -/
theorem recover_exact_ideal_partial (ops : List Op) (c : COp) (img : Disk) (infl : Bool)
    (h : (img, infl) ∈ (Sys.init.run ops).images c)
    (hp : HeightsPositive ((Sys.init.run ops).acked ++ (Sys.init.run ops).calls ++ (Sys.init.run ops).limbo)) :
    ∃ out, recover img = .ok out ∧
      LoadSpecIdeal out (if infl = true then (Sys.init.run ops).acked ++ (Sys.init.run ops).calls
                         else (Sys.init.run ops).acked ++ (Sys.init.run ops).limbo) := by
  obtain ⟨out, r1, r2⟩ := recover_exact ops c img infl h
  refine ⟨out, r1, r2.ideal ?_⟩
  split
  · exact fun h' e hm => hp h' e (List.mem_append_left _ hm)
  · intro h' e hm
    rcases List.mem_append.mp hm with hm | hm
    · exact hp h' e (List.mem_append_left _ (List.mem_append_left _ hm))
    · exact hp h' e (List.mem_append_right _ hm)

/-- The negation witness: `SetWALEntry` of height 0, `Flush` (returns nil), restart — the entry is
gone although no prune was ever requested. (Not reachable from juno's consensus.) -/
theorem height_zero_entry_lost :
    (Sys.init.run [.reopen, .set 0 7, .flush .none]).acked = [.entry 0 7] ∧
    ((Sys.init.run [.reopen, .set 0 7, .flush .none]).step (.flush .none)).2 = .ok ∧
    (recover (Sys.init.run [.reopen, .set 0 7, .flush .none]).disk).toOption = some [] ∧
    ¬ LoadSpecIdeal [] [.entry 0 7] := by
  refine ⟨by decide, by decide, by decide, ?_⟩
  intro h
  have := h.exact 0
  simp [prunedIdeal, entriesOf, AMap.get?] at this

/-! ### Aliasing (record.go `setEntry`) — fixed in juno b8b5501

`setEntry` used to share `Proposal.Value` / `Vote.ID` with the caller until Flush encoded the batch.
The model follows the repaired code (`Store.poke` changes nothing); what follows is the regression
witness for the code before the fix. The harness oracle `entry-mutated-after-set-is-persisted`
(no longer a known finding) reports the defect again should it come back. -/

/-- REGRESSION WITNESS, code before b8b5501 (`Store.pokeBefore_b8b5501`): the caller hands over an entry
with payload 10, writes payload 11 through the pointer it still holds, then flushes: payload 11 is what a
restart finds, for an acknowledged history that only ever contained payload 10 — whereas on the current
code (`Store.poke`) the same sequence recovers payload 10. -/
theorem aliasing_breaks_exactness_before_b8b5501 :
    let s0 := (Sys.init.run [.reopen, .set 1 10])
    let old := { s0 with st := s0.st.pokeBefore_b8b5501 0 11 }
    let cur := { s0 with st := s0.st.poke 0 11 }
    (old.step (.flush .none)).2 = .ok ∧ (old.step (.flush .none)).1.acked = [.entry 1 10] ∧
    (recover (old.step (.flush .none)).1.disk).toOption = some [(1, [11])] ∧ ¬ LoadSpec [(1, [11])] [.entry 1 10] ∧
    (recover (cur.step (.flush .none)).1.disk).toOption = some [(1, [10])] := by
  refine ⟨by decide, by decide, by decide, ?_, by decide⟩
  intro h
  have := h.exact 1
  simp [maxPrune, entriesOf, AMap.get?] at this

/-! ### The record payload codec (`codec.go`, `record.go`), byte level -/

/-- Decoding inverts encoding, for every record whose fields fit their Go types (`uint64`
limbs, a one-byte step). -/
theorem codec_roundtrip (p : Codec.Payload) (h : p.WF) : Codec.decode (Codec.encode p) = some p :=
  Codec.decode_encode p h

/-- The decoder accepts exact encodings only: a byte string that decodes to a record *is* the
encoding of that record — no truncated, extended or otherwise altered payload decodes. -/
theorem codec_canonical (bs : List UInt8) (p : Codec.Payload) (h : Codec.decode bs = some p) :
    Codec.encode p = bs ∧ p.WF :=
  Codec.decode_canonical bs p h

/-- **Codec ∘ log model.** The log model replays abstract records `Rec` (an entry = its height and
an opaque id). They are the image, under `toRec` (height = `GetHeight()` of the decoded entry, id =
any naming of payloads), of what the byte-level decoder returns for what the encoder wrote: decoding
a written batch record by record yields exactly the written records, in order. With an injective
naming, equal ids in `recover_exact` therefore mean equal entries, field by field. -/
theorem codec_model_composition (name : Codec.Payload → Nat) (ps : List Codec.Payload) (hw : ∀ p ∈ ps, p.WF) :
    (ps.map Codec.encode).filterMap (fun b => (Codec.decode b).map (toRec name)) = ps.map (toRec name) :=
  decode_batch name ps hw

example : Codec.decode (Codec.encode (.timeout 2 7 3)) = some (.timeout 2 7 3) := by decide
example : Codec.decode [1, 1, 7, 0, 0, 0, 0, 0, 0] = none := by decide          -- truncated
example : Codec.decode [1, 1, 7, 0, 0, 0, 0, 0, 0, 0, 0] = none := by decide    -- trailing byte
example : Codec.decode [2, 7, 0, 0, 0, 0, 0, 0, 0] = some (.prune 7) := by decide

/-! ### The batch layer (`codec.go: encodeBatch`, `replay.go: applyEncodedBatch`, Pebble's `batchrepr`) and the
watermark file (`prune_watermark.go`), byte level -/

/-- **What `encodeBatch` writes, `applyEncodedBatch` reads**: for every sequence number (a `uint64`),
every list of fewer than 2^32 well-typed records: the header gives back sequence number and count, the
five-byte value lengths are read back by `batchrepr.DecodeStr`, every record decodes to itself, in
order; no error class, no panic. -/
theorem batch_roundtrip (seq : Nat) (ps : List Codec.Payload) (hs : Codec.W64 seq) (hw : ∀ p ∈ ps, p.WF)
    (hc : ps.length < 4294967296) :
    Batch.applyBatch (Batch.encodeBatch seq (ps.map Codec.encode)) = .ok (seq, ps.length, ps) :=
  Batch.applyBatch_written seq ps hs hw hc

/-- **The bytes of a log refine the log model.** For a log written batch by batch (`bs` with the
sequence numbers `qs`), reading its records — including Pebble's silent skip of empty batches and of
sequence numbers that do not increase — hands to `applyEncodedBatch` exactly the batches, with exactly
the sequence numbers, that `visibleFrom` (the reader of `Model.lean`, on which `replayFile` and
`seqAfterFile` are built) yields for the abstract log; record for record under `toRec`. -/
theorem log_bytes_refine_model (name : Codec.Payload → Nat) (bs : List (List Codec.Payload)) (qs : List Nat)
    (last : Nat) (hb : ∀ b ∈ bs, (∀ p ∈ b, p.WF) ∧ b.length < 4294967296) (hq : ∀ q ∈ qs, Codec.W64 q) :
    ∃ out, Batch.readLog last (Batch.writtenLog bs qs) = .ok out ∧
      out.map (fun x => (x.2.map (toRec name), x.1)) = visibleFrom last (bs.map (·.map (toRec name))) qs := by
  obtain ⟨out, o1, o2⟩ := Batch.readLog_written name bs qs last hb hq
  have : Batch.toRec name = toRec name := by funext p; cases p <;> rfl
  rw [this] at o2
  exact ⟨out, o1, o2⟩

/-- The fuel that makes the loop of `applyEncodedBatch` structurally recursive never runs out: with
more fuel than bytes the result does not depend on it (every entry of a batch uses up at least one
byte). So `applyBatch` reports `iter` only where `batchrepr.Reader.Next` reports an error. -/
theorem batch_decoder_fuel_irrelevant (f1 f2 : Nat) (r : List UInt8) (seen count : Nat) (acc : List Codec.Payload)
    (h1 : r.length < f1) (h2 : r.length < f2) :
    Batch.applyLoop f1 r seen count acc = Batch.applyLoop f2 r seen count acc :=
  Batch.applyLoop_fuel f1 f2 r seen count acc h1 h2

/-- What `writePruneWatermark` writes (header + big-endian height), `loadPruneWatermark` reads. -/
theorem watermark_file_roundtrip (h : Nat) (hw : Codec.W64 h) : Batch.wmDecode (Batch.wmEncode h) = .ok h :=
  Batch.wmDecode_wmEncode h hw

/-- `loadPruneWatermark` accepts nothing but the exact 35 bytes `writePruneWatermark` produces for
that height: every other length is a size error, every other header a header error. -/
theorem watermark_file_canonical (bs : List UInt8) (h : Nat) (hd : Batch.wmDecode bs = .ok h) :
    bs = Batch.wmEncode h ∧ Codec.W64 h :=
  Batch.wmDecode_canonical bs h hd

/-- … and the composition with the log model: the model's `Disk.wm : Option Nat` ("a complete file or
none": the file is only ever put in place by a rename of a fully written and synced temporary file) read
through the byte-level loader is the watermark `openStore` starts the replay with. -/
theorem watermark_model_composition (wm : Option Nat) (hw : ∀ w, wm = some w → Codec.W64 w) :
    Batch.loadWatermark (wm.map Batch.wmEncode) = .ok (wm.getD 0) := by
  cases wm with
  | none => rfl
  | some w => exact Batch.wmDecode_wmEncode w (hw w rfl)

example : (Batch.applyBatch (Batch.encodeBatch 7 [Codec.encode (.start 3), Codec.encode (.prune 2)])).toOption =
    some (7, 2, [.start 3, .prune 2]) := by decide
-- a value length that lies (11 instead of 10 for the payload of a start record): `DecodeStr` → invalid
example : Batch.errOf (Batch.applyBatch ([7,0,0,0,0,0,0,0, 1,0,0,0] ++ [1, 4, 0,0,0,0, 0x8b,0x80,0x80,0x80,0] ++
    Codec.encode (.start 3))) = some .iter := by decide
-- a key length that runs past the end of the batch: the panic inside `batchrepr.DecodeStr`
example : Batch.errOf (Batch.applyBatch ([7,0,0,0,0,0,0,0, 1,0,0,0] ++ [1, 0x91])) = some .panic := by decide
-- count in the header ≠ number of entries; a kind other than Set; a record the payload codec rejects
example : Batch.errOf (Batch.applyBatch (Batch.encodeBatch 7 [Codec.encode (.start 3)] ++
    Batch.encodeRecord 1 (Codec.encode (.prune 2)))) = some .count := by decide
example : Batch.errOf (Batch.applyBatch ([7,0,0,0,0,0,0,0, 1,0,0,0] ++ [0, 4, 0,0,0,0])) = some .kind := by decide
example : Batch.errOf (Batch.applyBatch (Batch.encodeBatch 7 [[9, 9]])) = some .decode := by decide
-- Pebble's reader: a short record is corruption; count 0 and a repeated sequence number are skipped
example : Batch.errOf (Batch.readLog 0 [[1, 2, 3]]) = some .corruptHeader := by decide
example : (Batch.readLog 0 [Batch.encodeBatch 5 [Codec.encode (.start 3)], Batch.encodeBatch 5 [Codec.encode (.start 4)],
    Batch.encodeBatch 6 [], Batch.encodeBatch 9 [Codec.encode (.prune 1)]]).toOption =
    some [(5, [.start 3]), (9, [.prune 1])] := by decide
example : (Batch.wmDecode (Batch.wmEncode 256)).toOption = some 256 := by decide
example : Batch.errOf (Batch.wmDecode (Batch.wmEncode 256 ++ [0])) = some .size := by decide
example : Batch.errOf (Batch.wmDecode (Batch.wmEncode 256).tail) = some .size := by decide
example : Batch.errOf (Batch.wmDecode (74 :: (Batch.wmEncode 256).tail)) = some .header := by decide

/-! ### Non-vacuity: concrete histories that meet the hypotheses -/

/-- a history with two flushes, a prune and a restart -/
def demo : List Op :=
  [.reopen, .set 1 10, .set 2 11, .flush .none, .del 1, .set 2 12, .set 3 13, .flush .none, .close .none, .reopen,
   .set 3 14]

-- the flush in flight has 5 durable states here; at the last one the batch is on disk
example : ((Sys.init.run demo).bases (.flush .none)).length = 5 := by decide
example : (Sys.init.run demo).acked = [.entry 1 10, .entry 2 11, .prune 1, .entry 2 12, .entry 3 13] := by decide
example : (Sys.init.run demo).st.load = [(2, [11, 12]), (3, [13])] := by decide
example : (((Sys.init.run demo).bases (.flush .none)).map (fun p => (recover p.1).toOption)) =
    [some [(2, [11, 12]), (3, [13])], some [(2, [11, 12]), (3, [13])], some [(2, [11, 12]), (3, [13])],
     some [(2, [11, 12]), (3, [13])], some [(2, [11, 12]), (3, [13, 14])]] := by decide
-- both error outcomes occur (hypothesis `ho` of `failed_flush_all_or_nothing_partial`), with and
-- without a blocked writer afterwards
example : (Sys.init.run demo).alive = true ∧ (Sys.init.run demo).st.closed = false ∧
    ((Sys.init.run demo).step (.flush .append)).2 = .errNotCommitted ∧
    ((Sys.init.run demo).step (.flush .append)).1.st.repairRequired = false ∧
    ((Sys.init.run demo).step (.flush .appendNoRepair)).2 = .errNotCommitted ∧
    ((Sys.init.run demo).step (.flush .appendNoRepair)).1.st.repairRequired = true := by decide
example : ((Sys.init.run [.reopen, .set 1 10]).step (.flush .create)).2 = .errNotCommitted := by decide
-- the double failure that leaves a reported-failed batch on disk: the store is blocked and shows the
-- acknowledged history only; a later flush is refused; the restart brings the WHOLE batch back
example : ((Sys.init.run demo).step (.flush .appendFullNoRepair)).2 = .errNotCommitted ∧
    ((Sys.init.run demo).step (.flush .appendFullNoRepair)).1.st.repairRequired = true ∧
    ((Sys.init.run demo).step (.flush .appendFullNoRepair)).1.limbo = [.entry 3 14] ∧
    ((Sys.init.run demo).step (.flush .appendFullNoRepair)).1.st.load = [(2, [11, 12]), (3, [13])] := by decide
example : (Sys.init.run (demo ++ [.flush .appendFullNoRepair, .set 4 15, .flush .none])).limbo = [.entry 3 14] ∧
    (Sys.init.run (demo ++ [.flush .appendFullNoRepair, .set 4 15, .flush .none, .close .none, .reopen])).st.load =
      [(2, [11, 12]), (3, [13, 14])] ∧
    (Sys.init.run (demo ++ [.flush .appendFullNoRepair, .set 4 15, .flush .none, .close .none, .reopen])).acked =
      [.entry 1 10, .entry 2 11, .prune 1, .entry 2 12, .entry 3 13, .entry 3 14] := by decide
-- `manager.Close()` failing inside `Close`: the flush inside has committed, only the error differs
example : ((Sys.init.run demo).step (.close .closeManager)).2 = .errCommitted ∧
    ((Sys.init.run demo).step (.close .closeManager)).1.acked =
      [.entry 1 10, .entry 2 11, .prune 1, .entry 2 12, .entry 3 13, .entry 3 14] ∧
    ((Sys.init.run demo).step (.close .closeManager)).1.st.closed = true := by decide
-- `close_all_or_nothing_restartable_partial` on reachable states: a `Close` whose `wal.close()` fails and whose
-- tail repair fails too reports an error after the batch was committed, leaves a torn EOF trailer — and the
-- restart repairs it, shows the whole batch and can flush again; a `Close` whose append fails commits nothing
example : ((Sys.init.run demo).step (.close .closeWriterNoRepair)).2 = .errCommitted ∧
    ((Sys.init.run demo).step (.close .closeWriterNoRepair)).1.disk.files.map (·.garbage) = [false, true] ∧
    (((Sys.init.run demo).step (.close .closeWriterNoRepair)).1.step .reopen).2 = .ok ∧
    (((Sys.init.run demo).step (.close .closeWriterNoRepair)).1.step .reopen).1.st.load = [(2, [11, 12]), (3, [13, 14])] ∧
    ((Sys.init.run demo).step (.close .append)).2 = .errNotCommitted ∧
    (((Sys.init.run demo).step (.close .append)).1.step .reopen).1.st.load = [(2, [11, 12]), (3, [13])] := by decide
-- `next_log_number_is_fresh` / `no_batch_skipped`: the reachable state has logs, with batches
example : (Sys.init.run demo).disk.files.map (fun f => (f.num, f.batches.length, f.seqs)) = [(1, 2, [1, 3])] ∧
    (Sys.init.run demo).st.nextWAL = 2 := by decide
-- Pebble's reader skips a batch whose sequence number does not increase: the model represents it
example : ({ num := 1, batches := [[.entry 1 10], [.entry 1 11]], seqs := [1, 1] } : LogFile).visible = [[.entry 1 10]] := by
  decide
-- a directory in which an unlinked log came back: the watermark keeps its entries dead
example : (recover { files := [{ num := 1, batches := [[.entry 1 10, .prune 1]], seqs := [1] },
                               { num := 3, batches := [[.entry 2 11]], seqs := [1] }],
                     wm := some 1 }).toOption = some [(2, [11])] := by decide
example : (recover { files := [{ num := 1, batches := [[.entry 1 10]], seqs := [1] },
                               { num := 3, batches := [[.entry 2 11]], seqs := [1] }],
                     wm := some 1 }).toOption = some [(2, [11])] := by decide

/-! reachable states of the cleanup (no hand-made stores): three logs — one from an earlier process
lifetime, one left by a failed append, the current one — then 255 flushed prunes and a 256th pending -/
def pruneRun (n : Nat) : List Op :=
  (List.range n).flatMap (fun i => [.set (i + 1) i, .set (i + 2) (1000 + i), .del (i + 1), .flush .none])
def cleanupHistory : List Op :=
  [.reopen, .set 1 900, .flush .none, .close .none, .reopen, .set 1 901, .flush .append, .flush .none] ++
    pruneRun 255 ++ [.set 256 1, .del 256]

set_option maxRecDepth 100000

-- the flush that runs the cleanup passes through 12 durable states; at the last one all three logs
-- are unlinked but the unlinks are not durable: 8 subsets may come back (21 images in all)
example : (((Sys.init.run cleanupHistory).bases (.flush .none)).map
    (fun b => (b.1.files.map (·.num), b.1.zombies.map (·.num), b.1.wm))).getLast? = some ([], [1, 2, 3], some 256) := by
  decide
example : ((Sys.init.run cleanupHistory).images (.flush .none)).length = 21 := by decide
-- every one of them reopens to the acknowledged history (height 256 still alive) or, once the batch
-- in flight (an entry of 256 and the prune of 256) is on disk, to the empty log — although logs that
-- come back hold entries of pruned heights
example : (((Sys.init.run cleanupHistory).images (.flush .none)).map (fun p => ((recover p.1).toOption, p.2))).eraseDups =
    [(some [(256, [1254])], false), (some [], true)] := by decide
example : ((Sys.init.run (cleanupHistory ++ [.flush .none])).removed.map (·.num)) = [1, 2, 3] := by decide
-- the failures inside the cleanup, on this reachable state
example : ((Sys.init.run cleanupHistory).step (.flush (.unlink 1))).2 = .errCommitted ∧
    ((Sys.init.run cleanupHistory).step (.flush (.unlink 1))).1.disk.files.map (·.num) = [2, 3] ∧
    ((Sys.init.run cleanupHistory).step (.flush (.unlink 1))).1.st.known = [] ∧
    ((Sys.init.run cleanupHistory).step (.flush .rotate)).2 = .errCommitted ∧
    ((Sys.init.run cleanupHistory).step (.flush .watermark)).2 = .errCommitted ∧
    ((Sys.init.run cleanupHistory).step (.flush .wmSync)).2 = .errCommitted := by decide
-- two directory-sync failures in a row: three watermark values may be on disk after a crash
example : (((Sys.init.run (cleanupHistory ++ [.flush .wmSync, .del 257, .flush .wmSync])).images .idle).map (fun p => p.1.wm)) =
    [some 257, some 256, none] := by decide

/-! ## The physical layer (`Chunk.lean`): Pebble's chunk framing inside the blocks of a log file, the reader,
juno's tail repair and the offsets of `walWriter` — for EVERY block size `12 ≤ B ≤ 65536`, every 32-bit log
number and EVERY checksum function (`Cfg.OK`); the driver runs the model with `B = 32768` and Pebble's CRC-32C
and the harness compares bytes, offsets and repair lengths with the real files. -/

/-- **What the writer put into the file is what the reader finds.** The bytes of a log holding the records
`ps` (writer still open): a restart reads exactly `ps`, in order, then a clean end of the log; the tail
repair only shortens the file (block padding behind the last chunk), what it leaves reads as exactly `ps`
again and is left alone by another restart. -/
theorem chunk_log_reads_back (c : Chunk.Cfg) (hc : c.OK) (ps : List (List UInt8)) :
    Chunk.Recovered c (Chunk.frames c ps) ps ∧ (Chunk.scan c (Chunk.frames c ps)).st = .eof :=
  Chunk.frames_recovered c hc ps

/-- … and of a cleanly closed log (`LogWriter.Close` appended the EOF trailer, which every open strips). -/
theorem chunk_closed_log_reads_back (c : Chunk.Cfg) (hc : c.OK) (ps : List (List UInt8)) :
    Chunk.Recovered c (Chunk.frames c ps ++ Chunk.trailer c) ps ∧
      (Chunk.scan c (Chunk.frames c ps ++ Chunk.trailer c)).st = .eof :=
  Chunk.closed_recovered c hc ps

/-- **The last log cut at EVERY byte offset past the last synced record** (the quantifier of the property).
`ps` are the records synced so far, `p` is the batch in flight, of whose bytes (chunks, block padding between
and behind them — possibly many blocks) only the first `jcut` reached the disk. The restart reads exactly
`ps` or exactly `ps ++ [p]` — never a part of `p`, never anything else, never an error (`Recovered`: the
reader ends with `eof` or `invalid`, the repair cuts the file back and leaves a clean log that reads the
same). Nothing of `p` on disk: exactly `ps`; all of it: exactly `ps ++ [p]`. -/
theorem chunk_cut_anywhere (c : Chunk.Cfg) (hc : c.OK) (ps : List (List UInt8)) (p : List UInt8) (jcut : Nat)
    (hj : jcut ≤ (Chunk.emitRecord c (Chunk.emitAll c 0 ps).2 p).1.length) :
    (Chunk.Recovered c (Chunk.frames c ps ++ (Chunk.emitRecord c (Chunk.emitAll c 0 ps).2 p).1.take jcut) ps ∨
      Chunk.Recovered c (Chunk.frames c ps ++ (Chunk.emitRecord c (Chunk.emitAll c 0 ps).2 p).1.take jcut) (ps ++ [p])) ∧
    (jcut = 0 → Chunk.Recovered c (Chunk.frames c ps ++ (Chunk.emitRecord c (Chunk.emitAll c 0 ps).2 p).1.take jcut) ps ∧
      (Chunk.scan c (Chunk.frames c ps ++ (Chunk.emitRecord c (Chunk.emitAll c 0 ps).2 p).1.take jcut)).st = .eof) ∧
    (jcut = (Chunk.emitRecord c (Chunk.emitAll c 0 ps).2 p).1.length →
      Chunk.Recovered c (Chunk.frames c ps ++ (Chunk.emitRecord c (Chunk.emitAll c 0 ps).2 p).1.take jcut) (ps ++ [p]) ∧
      (Chunk.scan c (Chunk.frames c ps ++ (Chunk.emitRecord c (Chunk.emitAll c 0 ps).2 p).1.take jcut)).st = .eof) :=
  Chunk.cut_anywhere c hc ps p jcut hj

/-- **A crash inside the rotation or the close: the EOF trailer cut at EVERY byte** (the intermediate state
"torn EOF trailer" of the file rotation, `trail` in `Sys.bases`). The log holds its records and the first `t ≤ 11`
bytes of the trailer `LogWriter.Close` writes: a restart reads exactly the records — the reader ends with `eof`
or `invalid`, never an error, never a record more —, the tail repair cuts the file back, and what it leaves reads
the same with a clean end. -/
theorem chunk_trailer_cut_anywhere (c : Chunk.Cfg) (hc : c.OK) (ps : List (List UInt8)) (t : Nat) (ht : t ≤ 11) :
    Chunk.Recovered c (Chunk.frames c ps ++ (Chunk.trailer c).take t) ps :=
  Chunk.trailer_cut_recovered c hc ps t ht

/-- **The offsets of `walWriter` keep exactly the acknowledged bytes** ("appendSync remembers the synced
offset; failed appends truncate back to it"). For every sequence of events on one log — appends that succeed,
an append torn after ANY number of bytes with any part of the EOF trailer written by the `Close` inside
`abortUncommitted`, a sync reported as failed with the whole record in the file, a `close` / rotation writing
all or part of its trailer — the file left behind reads as exactly the records acknowledged before the first
failure or close (`ackedOf`), with a clean end: a flush that reports failure leaves NO byte of its batch, and
no acknowledged byte is lost. -/
theorem walwriter_offsets_keep_acked_bytes (c : Chunk.Cfg) (hc : c.OK) (evs : List Chunk.PEv) :
    Chunk.Recovered c (Chunk.PW.run c {} evs).file (Chunk.ackedOf evs) ∧
      (Chunk.scan c (Chunk.PW.run c {} evs).file).st = .eof :=
  Chunk.PW.run_recovered c hc evs

/-- … byte for byte: the file is the chunks of the acknowledged records, followed at most by one complete
EOF trailer. -/
theorem walwriter_file_is_acked_frames (c : Chunk.Cfg) (evs : List Chunk.PEv) :
    (Chunk.PW.run c {} evs).file = Chunk.frames c (Chunk.ackedOf evs) ∨
      (Chunk.PW.run c {} evs).file = Chunk.frames c (Chunk.ackedOf evs) ++ Chunk.trailer c := by
  simpa using Chunk.PW.run_file c evs {} [] (Chunk.PW.good_init c)

/-- The fuel that makes `Reader.nextChunk` structurally recursive never runs out — on ANY bytes, damaged or
not: the `fuel` error class is an artefact of the totalisation that no input reaches. -/
theorem chunk_reader_fuel_irrelevant (c : Chunk.Cfg) (hc : c.OK) (wf : Bool) (r : Chunk.RS) :
    Chunk.nextChunk c wf (2 * r.s.length + 3) r ≠ .error .fuel :=
  Chunk.nextChunk_fuel_ok c hc wf _ r (by have := Chunk.mu_le r; omega)

/-- **On ANY bytes whatsoever** (cut, flipped, zero-filled, junk — no hypothesis on the file) reading a log ends
with `io.EOF` or an invalid-record error, never in the `default:` branch of `recoverLatestWALTail` (the model
has no third class and its fuel never runs out), and the tail repair leaves a prefix of the file. -/
theorem chunk_scan_total_on_any_bytes (c : Chunk.Cfg) (hc : c.OK) (file : List UInt8) :
    ((Chunk.scan c file).st = .eof ∨ (Chunk.scan c file).st = .invalid) ∧
      ∃ n, Chunk.recoverTail c file = file.take n :=
  ⟨Chunk.scan_st_cases c hc file, Chunk.recoverTail_prefix c file⟩

/-- the configuration the driver runs (and the harness compares with the real files): 32 KiB blocks, Pebble's
CRC-32C — the theorems of this section apply to it for every log number -/
example (ln : Nat) : ({ B := 32768, logNum := ln % 4294967296, crc := Chunk.pebbleCrc } : Chunk.Cfg).OK :=
  ⟨by show 12 ≤ 32768; omega, by show 32768 ≤ 65536; omega, Nat.mod_lt _ (by decide), fun d => by
    show (_ : UInt32).toNat < Chunk.two32
    unfold Chunk.two32
    exact UInt32.toNat_lt _⟩

/-- a small configuration for the examples: 32-byte blocks, log 1, a toy checksum -/
def tinyCfg : Chunk.Cfg := { B := 32, logNum := 1, crc := fun d => (d.foldl (fun a b => (a * 31 + b.toNat) % 65521) 7) }

theorem tinyCfg_ok : tinyCfg.OK :=
  ⟨by decide, by decide, by decide, by
    intro d
    have : ∀ (l : List UInt8) (a : Nat), a < 65521 → l.foldl (fun a b => (a * 31 + b.toNat) % 65521) a < 65521 := by
      intro l
      induction l with
      | nil => intro a h; exact h
      | cons x xs ih => intro a _; exact ih _ (Nat.mod_lt _ (by decide))
    have := this d 7 (by decide)
    show d.foldl _ 7 < Chunk.two32
    unfold Chunk.two32; omega⟩

-- two records; the second (30 bytes) does not fit the 32-byte block: three chunks (7 + 21 + 2 bytes)
example : (Chunk.frames tinyCfg [[1, 2, 3], List.replicate 30 9]).length = 77 := by decide
example : (Chunk.scan tinyCfg (Chunk.frames tinyCfg [[1, 2, 3], List.replicate 30 9])).recs =
    [[1, 2, 3], List.replicate 30 9] := by decide
-- cut inside the second record: the first survives, the reader reports an invalid tail at offset 14 and
-- the repair cuts the file there
example : let r := Chunk.scan tinyCfg ((Chunk.frames tinyCfg [[1, 2, 3], List.replicate 30 9]).take 60)
    (r.recs, r.off, r.st) = ([[1, 2, 3]], 14, .invalid) := by decide
example : (Chunk.recoverTail tinyCfg ((Chunk.frames tinyCfg [[1, 2, 3], List.replicate 30 9]).take 60)).length = 14 := by
  decide
-- a torn append (17 of the record's bytes, 5 of the trailer's) is cut back; a clean close keeps the trailer
example : (Chunk.PW.run tinyCfg {} [.appendOk [1, 2, 3], .appendTorn (List.replicate 30 9) 17 5, .appendOk [4]]).file =
    Chunk.frames tinyCfg [[1, 2, 3]] := by decide
example : (Chunk.PW.run tinyCfg {} [.appendOk [1, 2, 3], .close 11]).file =
    Chunk.frames tinyCfg [[1, 2, 3]] ++ Chunk.trailer tinyCfg := by decide
-- junk: the reader stops with `invalid` at offset 0, the repair empties the file
example : let r := Chunk.scan tinyCfg [1, 2, 3, 4, 5, 6, 7, 8, 9, 10, 11, 12]
    (r.recs, r.off, r.st, (Chunk.recoverTail tinyCfg [1, 2, 3, 4, 5, 6, 7, 8, 9, 10, 11, 12]).length) = ([], 0, .invalid, 0) := by
  decide
-- 8 of the 11 trailer bytes: an invalid tail at offset 14, cut off by the repair
example : let f := Chunk.frames tinyCfg [[1, 2, 3]] ++ (Chunk.trailer tinyCfg).take 8
    ((Chunk.scan tinyCfg f).recs, (Chunk.scan tinyCfg f).off, (Chunk.scan tinyCfg f).st, (Chunk.recoverTail tinyCfg f).length) =
      ([[1, 2, 3]], 14, .invalid, 14) := by decide
example : Chunk.ackedOf [.appendOk [1, 2, 3], .appendTorn (List.replicate 30 9) 17 5, .appendOk [4]] = [[1, 2, 3]] := by
  decide

/-- **From the bytes of the FILE to the log model, with the batch in flight cut at any byte** (composition of
`chunk_cut_anywhere` with `log_bytes_refine_model`). A log written flush by flush (batches `bs`, sequence numbers
`qs`), the next batch `b` being appended when the machine stops after `jcut` bytes of its chunks: what
`NewTendermintWALStore` reads from the file and hands to `applyEncodedBatch` is exactly what the reader of the log
model (`visibleFrom`, on which `replayFile` is built) yields for the abstract log WITHOUT `b` or WITH ALL of `b` —
the two base states `torn` / `full` of the OS model of `Model.lean`; the tail repair does not change what is
read and leaves a clean end (so the next restart, and a log that is no longer the latest, read the same). -/
theorem log_file_cut_refines_model (c : Chunk.Cfg) (hc : c.OK) (name : Codec.Payload → Nat)
    (bs : List (List Codec.Payload)) (qs : List Nat) (b : List Codec.Payload) (q last jcut : Nat)
    (hlen : bs.length = qs.length)
    (hb : ∀ b' ∈ bs ++ [b], (∀ p ∈ b', p.WF) ∧ b'.length < 4294967296) (hq : ∀ q' ∈ qs ++ [q], Codec.W64 q')
    (hj : jcut ≤ (Chunk.emitRecord c (Chunk.emitAll c 0 (Batch.writtenLog bs qs)).2
      (Batch.encodeBatch q (b.map Codec.encode))).1.length) :
    let file := Chunk.frames c (Batch.writtenLog bs qs) ++ (Chunk.emitRecord c (Chunk.emitAll c 0 (Batch.writtenLog bs qs)).2
      (Batch.encodeBatch q (b.map Codec.encode))).1.take jcut
    (Chunk.scan c (Chunk.recoverTail c file)).recs = (Chunk.scan c file).recs ∧
    (Chunk.scan c (Chunk.recoverTail c file)).st = .eof ∧
    ∃ out, Batch.readLog last (Chunk.scan c file).recs = .ok out ∧
      (out.map (fun x => (x.2.map (toRec name), x.1)) = visibleFrom last (bs.map (·.map (toRec name))) qs ∨
       out.map (fun x => (x.2.map (toRec name), x.1)) =
         visibleFrom last ((bs ++ [b]).map (·.map (toRec name))) (qs ++ [q])) := by
  intro file
  rcases (chunk_cut_anywhere c hc (Batch.writtenLog bs qs) (Batch.encodeBatch q (b.map Codec.encode)) jcut hj).1 with h | h
  · obtain ⟨h1, _, _, h4, h5, _⟩ := h
    refine ⟨by rw [h4]; exact h1.symm, h5, ?_⟩
    obtain ⟨out, o1, o2⟩ := log_bytes_refine_model name bs qs last
      (fun b' hb' => hb b' (List.mem_append_left _ hb')) (fun q' hq' => hq q' (List.mem_append_left _ hq'))
    exact ⟨out, by show Batch.readLog last (Chunk.scan c file).recs = _; rw [h1]; exact o1, Or.inl o2⟩
  · obtain ⟨h1, _, _, h4, h5, _⟩ := h
    refine ⟨by rw [h4]; exact h1.symm, h5, ?_⟩
    obtain ⟨out, o1, o2⟩ := log_bytes_refine_model name (bs ++ [b]) (qs ++ [q]) last hb hq
    rw [Batch.writtenLog_snoc bs qs b q hlen] at o1
    exact ⟨out, by show Batch.readLog last (Chunk.scan c file).recs = _; rw [h1]; exact o1, Or.inr o2⟩


-- the hypotheses are satisfiable; and a concrete cut (20 of the 64 bytes of the second batch): the first survives
example := log_file_cut_refines_model tinyCfg tinyCfg_ok (fun _ => 0) [[.start 3]] [1] [.prune 2] 2 0 20 rfl
  (by intro b' hb'; simp at hb'; rcases hb' with rfl | rfl <;> simp [Codec.Payload.WF, Codec.W64])
  (by intro q' hq'; simp at hq'; rcases hq' with rfl | rfl <;> simp [Codec.W64]) (by decide)
example : (Chunk.scan tinyCfg (Chunk.frames tinyCfg (Batch.writtenLog [[.start 3]] [1]) ++
    (Chunk.emitRecord tinyCfg (Chunk.emitAll tinyCfg 0 (Batch.writtenLog [[.start 3]] [1])).2
      (Batch.encodeBatch 2 ([Codec.Payload.prune 2].map Codec.encode))).1.take 20)).recs = Batch.writtenLog [[.start 3]] [1] := by decide

end Juno.C14.Props
