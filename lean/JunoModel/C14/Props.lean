import JunoModel.C14.ProofsRun
import JunoModel.C14.ProofsCodec
/-!
C14 — property theorems (statements only; helper lemmas are in `Proofs*.lean`).
Every theorem in this module is an obligation listed in evidence/C14.json with its axioms.

Vocabulary (all in `Model.lean`). A history is a list of `Op`: `set h e` (SetWALEntry),
`del h` (DeleteWALEntries), `flush ft` / `close ft` (with an injected failure `ft`: none, the
append fails and the tail repair succeeds, the repair fails too, `manager.Create` fails, the
watermark write fails, the directory sync after the watermark rename fails, the rotation fails,
the unlink of the k-th obsolete log fails),
`reopen` (NewTendermintWALStore), `crash c i mask alt` (the process dies while operation `c` is at its
`i`-th durable state; the unlinks chosen by `mask`, not yet made durable by a directory sync, are
undone, and with `alt` an undurable watermark rename too). `Sys.init.run ops` is the state after the history: the store, the directory, and two
ghost lists of API calls — `acked`: the calls followed by a flush that committed (or brought back
by a recovery), `calls`: the calls since. `images c` are all crash images of the operation `c`
started now, each with the flag "the batch in flight is completely on disk". `recover img` is
LoadAllEntries after NewTendermintWALStore on that directory. `LoadSpec out A`: `out` is exactly
what the property allows after the acknowledged calls `A` (heights above the highest
acknowledged prune, each with all its acknowledged entries in call order; nothing else).

Height 0 (DESIGN §7 L8): the watermark value 0 means both "nothing pruned" and "pruned up to
0", so `maxPrune [] = 0` and height 0 always counts as pruned, in the code and in this
statement alike (`height_zero_never_stored`). juno's consensus starts at height
`chainHeight + 1 ≥ 1` (consensus/consensus.go:92), so no reachable history writes height 0.
-/
namespace Juno.C14.Props
open Juno.C14

/-- **Recovery is exact.** After any history — operations, injected failures, earlier crashes
and restarts — and for every crash image of whatever happens next (nothing, a flush, a close, a
restart; with any failure injected; at every intermediate durable state of the append, the
watermark write, the rotation and the removal of obsolete logs; with any subset of not yet
durable unlinks undone): reopening succeeds, and LoadAllEntries yields exactly the acknowledged
history — or, when the batch in flight had reached the disk completely, the acknowledged history
followed by that whole batch. Never an error, never a partial batch, never a pruned height,
never a lost entry. -/
theorem recover_exact (ops : List Op) (c : COp) (img : Disk) (infl : Bool)
    (h : (img, infl) ∈ (Sys.init.run ops).images c) :
    ∃ out, recover img = .ok out ∧
      LoadSpec out (if infl = true then (Sys.init.run ops).acked ++ (Sys.init.run ops).calls
                    else (Sys.init.run ops).acked) := by
  obtain ⟨b, mask, alt, hb, rfl⟩ := mem_images h
  exact ((inv_run ops).bases c (b, infl) hb).image_good mask alt

/-- The running store shows the same: between any two operations, LoadAllEntries of the open
store is exactly the acknowledged history (pending records are invisible until flushed). -/
theorem live_view_exact (ops : List Op) (ha : (Sys.init.run ops).alive = true)
    (hc : (Sys.init.run ops).st.closed = false) :
    LoadSpec (Sys.init.run ops).st.load (Sys.init.run ops).acked := by
  have i := (inv_run ops).s ha hc
  refine ⟨i.ewf.sorted, i.ewf.nonempty, ?_⟩
  intro h
  by_cases hh : h ≤ maxPrune (Sys.init.run ops).acked
  · simp only [hh, ↓reduceIte]
    exact i.ewf.view_low h (by rw [i.pruned]; exact hh)
  · simp only [hh, ↓reduceIte]
    exact i.view h (by omega)

/-- A restart never fails: whatever the history, `NewTendermintWALStore` on the directory it left
returns a store. -/
theorem reopen_never_fails (ops : List Op) : ((Sys.init.run ops).step .reopen).2 ≠ .openFailed := by
  obtain ⟨s', d', ho, _⟩ := open_inv (inv_run ops).d
  simp only [Sys.step]
  split
  · simp
  · rw [ho]; simp

/-- **A failed flush is not durable and does not break the log.** Whatever failure is injected
(the append fails with or without a successful tail repair, `manager.Create` fails, …): if a
flush reports that the batch is not committed, then nothing of the batch is acknowledged or
visible, the pending records are kept, every crash image from then on recovers to the history
acknowledged before — and, unless the tail repair failed as well (the store then refuses new
writers on purpose: `wal_writer.go` `repairRequired`), the very next flush succeeds. -/
theorem failed_flush_not_durable (ops : List Op) (ft : Fault)
    (ha : (Sys.init.run ops).alive = true) (hc : (Sys.init.run ops).st.closed = false)
    (ho : ((Sys.init.run ops).step (.flush ft)).2 = .errNotCommitted) :
    ((Sys.init.run ops).step (.flush ft)).1.acked = (Sys.init.run ops).acked ∧
    ((Sys.init.run ops).step (.flush ft)).1.calls = (Sys.init.run ops).calls ∧
    ((Sys.init.run ops).step (.flush ft)).1.st.pending = (Sys.init.run ops).st.pending ∧
    ((Sys.init.run ops).step (.flush ft)).1.st.load = (Sys.init.run ops).st.load ∧
    ((Sys.init.run ops).step (.flush ft)).1.removed = (Sys.init.run ops).removed ∧
    (∀ img infl, (img, infl) ∈ ((Sys.init.run ops).step (.flush ft)).1.images .idle →
      ∃ out, recover img = .ok out ∧ LoadSpec out (Sys.init.run ops).acked) ∧
    (((Sys.init.run ops).step (.flush ft)).1.st.repairRequired = false →
      (((Sys.init.run ops).step (.flush ft)).1.step (.flush .none)).2 = .ok) := by
  have o : (flushLocked (Sys.init.run ops).st (Sys.init.run ops).disk ft).out = .errNotCommitted := by
    simpa only [Sys.step, ha, Bool.not_true, Bool.false_eq_true, ↓reduceIte] using ho
  obtain ⟨hi, hpd, hcl, hrm⟩ := flush_not_committed (Sys.init.run ops).st (Sys.init.run ops).disk ft hc o
  have hstep : ((Sys.init.run ops).step (.flush ft)).1 = (Sys.init.run (ops ++ [.flush ft])) := by
    rw [run_append]; rfl
  have e2 : ((Sys.init.run ops).step (.flush ft)).1.acked = (Sys.init.run ops).acked := by
    simp only [Sys.step, ha, Bool.not_true, Bool.false_eq_true, ↓reduceIte, o, Outcome.committed]
  have e3 : ((Sys.init.run ops).step (.flush ft)).1.calls = (Sys.init.run ops).calls := by
    simp only [Sys.step, ha, Bool.not_true, Bool.false_eq_true, ↓reduceIte, o, Outcome.committed]
  have e4 : ((Sys.init.run ops).step (.flush ft)).1.st = (flushLocked (Sys.init.run ops).st (Sys.init.run ops).disk ft).st := by
    simp only [Sys.step, ha, Bool.not_true, Bool.false_eq_true, ↓reduceIte]
  have e5 : ((Sys.init.run ops).step (.flush ft)).1.alive = true := by
    simp only [Sys.step, ha, Bool.not_true, Bool.false_eq_true, ↓reduceIte]
  have e6 : ((Sys.init.run ops).step (.flush ft)).1.removed = (Sys.init.run ops).removed := by
    simp only [Sys.step, ha, Bool.not_true, Bool.false_eq_true, ↓reduceIte, hrm, List.append_nil]
  refine ⟨e2, e3, by rw [e4]; exact hpd, by rw [e4]; unfold Store.load; rw [hi], e6, ?_, ?_⟩
  · intro img infl hm
    rw [hstep] at hm
    obtain ⟨out, r1, r2⟩ := recover_exact _ .idle img infl hm
    have hfl : infl = false := by
      obtain ⟨b, _, _, hb, _⟩ := mem_images hm
      simp only [Sys.bases, List.mem_singleton, Prod.mk.injEq] at hb
      exact hb.2
    subst hfl
    rw [← hstep, e2] at r2
    exact ⟨out, r1, by simpa using r2⟩
  · intro hrr
    generalize ((Sys.init.run ops).step (.flush ft)).1 = sys' at *
    simp only [Sys.step, e5, Bool.not_true, Bool.false_eq_true, ↓reduceIte]
    exact flush_none_ok _ _ (by rw [e4]; exact hcl) hrr

/-- **The cleanup never removes a log that is still needed.** Every log file the store has
unlinked, at any point of any history, holds only records of heights that the acknowledged
history has pruned. -/
theorem gc_safe (ops : List Op) (F : LogFile) (hF : F ∈ (Sys.init.run ops).removed)
    (r : Rec) (hr : r ∈ recsOfFile F) : r.height ≤ maxPrune (Sys.init.run ops).acked :=
  (inv_run ops).rem F hF r hr

/-- The mechanism behind `gc_safe`, at the level of the reference counts: whenever the index
invariants hold, a log below the bound computed by `cleanupObsoleteWALs` (the smallest referenced
log number) contains no record above the prune watermark — a log with an entry of an unpruned
height is referenced by that height. -/
theorem gc_keeps_referenced_logs (s : Store) (ps : List (Nat × Rec)) (w : s.idx.RWF) (c : Covers s.idx ps)
    (n : Nat) (hn : n < s.minLive) (r : Rec) (hr : (n, r) ∈ ps) : r.height ≤ s.idx.pruned :=
  dead_is_low s ps w c n hn r hr

/-- **Pruning is monotone.** The acknowledged history only grows along any continuation, hence
its highest prune never decreases: a height that `recover_exact` excludes now stays excluded after
whatever operations, failures, crashes and restarts follow. -/
theorem prune_monotone (ops more : List Op) :
    (∃ t, (Sys.init.run (ops ++ more)).acked = (Sys.init.run ops).acked ++ t) ∧
    maxPrune (Sys.init.run ops).acked ≤ maxPrune (Sys.init.run (ops ++ more)).acked := by
  obtain ⟨t, ht⟩ := run_acked_prefix (Sys.init.run ops) more
  rw [run_append]
  refine ⟨⟨t, ht⟩, ?_⟩
  rw [ht, maxPrune_append]; omega

/-- `LoadSpec` determines the result: two lists that satisfy it for the same history are equal. -/
theorem loadSpec_unique (o₁ o₂ : List (Nat × List Nat)) (A : List Rec) (h₁ : LoadSpec o₁ A) (h₂ : LoadSpec o₂ A) :
    o₁ = o₂ :=
  loadSpec_unique' o₁ o₂ A h₁ h₂

/-- Replay of records (`updateIndexesFromCommittedRecords`, `applyEncodedRecord`) in closed form:
whatever log the records come from, the watermark becomes the highest prune seen, every height at
or below it is empty, every height above it gains exactly its entries, in order. -/
theorem replay_closed_form (x : Idx) (f : Nat) (rs : List Rec) (w : x.EWF) :
    (x.applyRecs f rs).pruned = max x.pruned (maxPrune rs) ∧
    ∀ h, (x.applyRecs f rs).view h =
      if h ≤ max x.pruned (maxPrune rs) then [] else x.view h ++ entriesOf h rs :=
  applyRecs_closed x f rs w

/-- Height 0 is never stored (DESIGN §7 L8): `SetWALEntry` of a height-0 entry on an open store
returns nil and buffers nothing, because `0 ≤ prunedUpToHeight` always holds; and no result that
satisfies `LoadSpec` has a height 0. Not a violation of C14 as stated with juno's own encoding of
"pruned"; unreachable in juno's consensus, whose first height is 1. -/
theorem height_zero_never_stored (s : Store) (hc : s.closed = false) (e : Nat) :
    s.setEntry 0 e = (s, .ok) ∧
    ∀ out A, LoadSpec out A → AMap.get? out 0 = none := by
  refine ⟨by unfold Store.setEntry; simp [hc], ?_⟩
  intro out A hs
  have := hs.exact 0
  simp only [Nat.zero_le, ↓reduceIte] at this
  cases hg : AMap.get? out 0 with
  | none => rfl
  | some v =>
    rw [hg] at this
    simp only [Option.getD_some] at this
    exact absurd this (hs.nonempty (0, v) (AMap.mem_of_get? _ _ _ hg))

/-! ### The record payload codec (`codec.go`, `record.go`), byte level -/

/-- Decoding inverts encoding, for every record whose fields fit their Go types (`uint64`
limbs, a one-byte step). -/
theorem codec_roundtrip (p : Codec.Payload) (h : p.WF) : Codec.decode (Codec.encode p) = some p :=
  Codec.decode_encode p h

/-- The decoder accepts exact encodings only: a byte string that decodes to a record *is* the
encoding of that record — no truncated, extended or otherwise altered payload decodes. -/
theorem codec_canonical (bs : List UInt8) (p : Codec.Payload) (h : Codec.decode bs = some p) :
    Codec.encode p = bs ∧ p.WF :=
  Codec.decode_canonical bs p h

/-- Under the framing hypothesis — every payload the log reader hands over is one that was
written (Pebble's chunk checksum; tested exhaustively on small records, not proved) — the decoder
never yields a record that was not written. -/
theorem codec_no_foreign_record (written : List Codec.Payload) (hw : ∀ q ∈ written, q.WF)
    (read : List (List UInt8)) (framing : ∀ b ∈ read, ∃ q ∈ written, b = Codec.encode q) :
    ∀ b ∈ read, ∀ p, Codec.decode b = some p → p ∈ written :=
  Codec.no_foreign_record written hw read framing

example : Codec.decode (Codec.encode (.timeout 2 7 3)) = some (.timeout 2 7 3) := by decide
example : Codec.decode [1, 1, 7, 0, 0, 0, 0, 0, 0] = none := by decide          -- truncated
example : Codec.decode [1, 1, 7, 0, 0, 0, 0, 0, 0, 0, 0] = none := by decide    -- trailing byte
example : Codec.decode [2, 7, 0, 0, 0, 0, 0, 0, 0] = some (.prune 7) := by decide

/-! ### Non-vacuity: concrete histories that meet the hypotheses -/

/-- a history with two flushes, a prune and a restart -/
def demo : List Op :=
  [.reopen, .set 1 10, .set 2 11, .flush .none, .del 1, .set 2 12, .set 3 13, .flush .none, .close .none, .reopen,
   .set 3 14]

-- the flush in flight has 5 durable states here; at the last one the batch is on disk
example : ((Sys.init.run demo).images (.flush .none)).length = 10 := by decide
example : (Sys.init.run demo).acked = [.entry 1 10, .entry 2 11, .prune 1, .entry 2 12, .entry 3 13] := by decide
example : (Sys.init.run demo).st.load = [(2, [11, 12]), (3, [13])] := by decide
example : (((Sys.init.run demo).bases (.flush .none)).map (fun p => (recover p.1).toOption)) =
    [some [(2, [11, 12]), (3, [13])], some [(2, [11, 12]), (3, [13])], some [(2, [11, 12]), (3, [13])],
     some [(2, [11, 12]), (3, [13])], some [(2, [11, 12]), (3, [13, 14])]] := by decide
-- hypotheses of `failed_flush_not_durable` are satisfiable, with and without a successful repair
example : (Sys.init.run demo).alive = true ∧ (Sys.init.run demo).st.closed = false ∧
    ((Sys.init.run demo).step (.flush .append)).2 = .errNotCommitted ∧
    ((Sys.init.run demo).step (.flush .append)).1.st.repairRequired = false ∧
    ((Sys.init.run demo).step (.flush .appendNoRepair)).2 = .errNotCommitted ∧
    ((Sys.init.run demo).step (.flush .appendNoRepair)).1.st.repairRequired = true := by decide
-- a directory in which an unlinked log came back: the watermark keeps its entries dead
example : (recover { files := [{ num := 1, batches := [[.entry 1 10, .prune 1]] }, { num := 3, batches := [[.entry 2 11]] }],
                     wm := some 1 }).toOption = some [(2, [11])] := by decide
example : (recover { files := [{ num := 1, batches := [[.entry 1 10]] }, { num := 3, batches := [[.entry 2 11]] }],
                     wm := some 1 }).toOption = some [(2, [11])] := by decide

-- the failures inside the cleanup, on a store whose next prune flush has reached the interval:
-- log 1 and log 2 are both obsolete (nothing references them), the watermark becomes 5
def demoStore : Store := { writer := some 2, nextWAL := 3, known := [1, 2], idx := { pruned := 5 }, sinceCleanup := 256 }
def demoDisk : Disk :=
  { files := [{ num := 1, batches := [[.entry 3 1, .prune 3]] }, { num := 2, batches := [[.prune 5]] }], wm := some 3 }
example : (cleanup demoStore demoDisk 2 .none).out = .ok ∧
    (cleanup demoStore demoDisk 2 .none).disk.files = [] ∧
    (cleanup demoStore demoDisk 2 .none).disk.wm = some 5 ∧ (cleanup demoStore demoDisk 2 .none).st.sinceCleanup = 0 := by decide
-- the second unlink fails: log 1 is gone, log 2 stays and is forgotten by the manager, the counter is kept
example : (cleanup demoStore demoDisk 2 (.unlink 1)).out = .errCommitted ∧
    (cleanup demoStore demoDisk 2 (.unlink 1)).disk.files.map (·.num) = [2] ∧
    (cleanup demoStore demoDisk 2 (.unlink 1)).disk.zombies.map (·.num) = [1] ∧
    (cleanup demoStore demoDisk 2 (.unlink 1)).st.known = [] ∧
    (cleanup demoStore demoDisk 2 (.unlink 1)).st.sinceCleanup = 256 := by decide
-- the directory sync after the rename fails: the new watermark is there but the old one may come back
example : (cleanup demoStore demoDisk 2 .wmSync).out = .errCommitted ∧
    (cleanup demoStore demoDisk 2 .wmSync).disk.wm = some 5 ∧
    (cleanup demoStore demoDisk 2 .wmSync).disk.wmAlt = some (some 3) ∧
    ((cleanup demoStore demoDisk 2 .wmSync).disk.resurrect [] true).wm = some 3 ∧
    (cleanup demoStore demoDisk 2 .wmSync).st.writer = some 2 := by decide
-- the rotation fails: everything else still happens, the flush reports the error
example : (cleanup demoStore demoDisk 2 .rotate).out = .errCommitted ∧
    (cleanup demoStore demoDisk 2 .rotate).disk.files = [] ∧ (cleanup demoStore demoDisk 2 .rotate).st.writer = none := by decide
-- manager.Create fails: not committed, nothing changed
example : ((Sys.init.run [.reopen, .set 1 10]).step (.flush .create)).2 = .errNotCommitted ∧
    ((Sys.init.run [.reopen, .set 1 10]).step (.flush .create)).1.disk = (Sys.init.run [.reopen, .set 1 10]).disk := by decide

end Juno.C14.Props
