import JunoModel.C14.Codec
/-! C14 — the record payload codec: decoding inverts encoding, and the decoder accepts nothing
but exact encodings. -/
namespace Juno.C14.Codec

theorem rd64_le64 (n : Nat) (h : W64 n) (rest : List UInt8) : rd64 (le64 n ++ rest) = some (n, rest) := by
  unfold W64 at h
  simp only [le64, by8, List.cons_append, List.nil_append, rd64, UInt8.toNat_ofNat']
  congr 2
  omega

theorem by8_toNat (b : UInt8) (x : Nat) : by8 (b.toNat + 256 * x) = b := by
  unfold by8
  have : (b.toNat + 256 * x) % 256 = b.toNat := by have := UInt8.toNat_lt b; omega
  rw [this]; simp

theorem rd64_inv (bs rest : List UInt8) (n : Nat) (h : rd64 bs = some (n, rest)) :
    bs = le64 n ++ rest ∧ W64 n := by
  match bs, h with
  | a :: b :: c :: d :: e :: f :: g :: hh :: r, h =>
    simp only [rd64, Option.some.injEq, Prod.mk.injEq] at h
    obtain ⟨hn, hr⟩ := h
    subst hr
    have ha := UInt8.toNat_lt a
    have hb := UInt8.toNat_lt b
    have hc := UInt8.toNat_lt c
    have hd := UInt8.toNat_lt d
    have he := UInt8.toNat_lt e
    have hf := UInt8.toNat_lt f
    have hg := UInt8.toNat_lt g
    have hh' := UInt8.toNat_lt hh
    refine ⟨?_, by unfold W64; omega⟩
    subst hn
    simp only [le64, List.cons_append, List.nil_append]
    have e0 := by8_toNat a (b.toNat + 256 * (c.toNat + 256 * (d.toNat + 256 * (e.toNat + 256 * (f.toNat + 256 * (g.toNat + 256 * hh.toNat))))))
    have d1 : (a.toNat + 256 * (b.toNat + 256 * (c.toNat + 256 * (d.toNat + 256 * (e.toNat + 256 * (f.toNat + 256 * (g.toNat + 256 * hh.toNat))))))) / 256
        = b.toNat + 256 * (c.toNat + 256 * (d.toNat + 256 * (e.toNat + 256 * (f.toNat + 256 * (g.toNat + 256 * hh.toNat))))) := by omega
    have d2 : (a.toNat + 256 * (b.toNat + 256 * (c.toNat + 256 * (d.toNat + 256 * (e.toNat + 256 * (f.toNat + 256 * (g.toNat + 256 * hh.toNat))))))) / 65536
        = c.toNat + 256 * (d.toNat + 256 * (e.toNat + 256 * (f.toNat + 256 * (g.toNat + 256 * hh.toNat)))) := by omega
    have d3 : (a.toNat + 256 * (b.toNat + 256 * (c.toNat + 256 * (d.toNat + 256 * (e.toNat + 256 * (f.toNat + 256 * (g.toNat + 256 * hh.toNat))))))) / 16777216
        = d.toNat + 256 * (e.toNat + 256 * (f.toNat + 256 * (g.toNat + 256 * hh.toNat))) := by omega
    have d4 : (a.toNat + 256 * (b.toNat + 256 * (c.toNat + 256 * (d.toNat + 256 * (e.toNat + 256 * (f.toNat + 256 * (g.toNat + 256 * hh.toNat))))))) / 4294967296
        = e.toNat + 256 * (f.toNat + 256 * (g.toNat + 256 * hh.toNat)) := by omega
    have d5 : (a.toNat + 256 * (b.toNat + 256 * (c.toNat + 256 * (d.toNat + 256 * (e.toNat + 256 * (f.toNat + 256 * (g.toNat + 256 * hh.toNat))))))) / 1099511627776
        = f.toNat + 256 * (g.toNat + 256 * hh.toNat) := by omega
    have d6 : (a.toNat + 256 * (b.toNat + 256 * (c.toNat + 256 * (d.toNat + 256 * (e.toNat + 256 * (f.toNat + 256 * (g.toNat + 256 * hh.toNat))))))) / 281474976710656
        = g.toNat + 256 * hh.toNat := by omega
    have d7 : (a.toNat + 256 * (b.toNat + 256 * (c.toNat + 256 * (d.toNat + 256 * (e.toNat + 256 * (f.toNat + 256 * (g.toNat + 256 * hh.toNat))))))) / 72057594037927936
        = hh.toNat := by omega
    rw [e0, d1, d2, d3, d4, d5, d6, d7, by8_toNat, by8_toNat, by8_toNat, by8_toNat, by8_toNat, by8_toNat]
    have : by8 hh.toNat = hh := by have := by8_toNat hh 0; simpa using this
    rw [this]

theorem rdLimbs_enc (l : Limbs) (h : l.WF) (rest : List UInt8) : rdLimbs (encLimbs l ++ rest) = some (l, rest) := by
  obtain ⟨ha, hb, hc, hd⟩ := h
  simp only [rdLimbs, encLimbs, List.append_assoc, rd64_le64 _ ha, rd64_le64 _ hb, rd64_le64 _ hc, rd64_le64 _ hd,
    Option.bind_eq_bind, Option.bind_some, Option.pure_def]

theorem rdLimbs_inv (bs rest : List UInt8) (l : Limbs) (h : rdLimbs bs = some (l, rest)) :
    bs = encLimbs l ++ rest ∧ l.WF := by
  simp only [rdLimbs, Option.bind_eq_bind, Option.pure_def] at h
  cases h1 : rd64 bs with
  | none => simp [h1] at h
  | some p1 =>
    obtain ⟨a, r1⟩ := p1
    simp only [h1, Option.bind_some] at h
    cases h2 : rd64 r1 with
    | none => simp [h2] at h
    | some p2 =>
      obtain ⟨b, r2⟩ := p2
      simp only [h2, Option.bind_some] at h
      cases h3 : rd64 r2 with
      | none => simp [h3] at h
      | some p3 =>
        obtain ⟨c, r3⟩ := p3
        simp only [h3, Option.bind_some] at h
        cases h4 : rd64 r3 with
        | none => simp [h4] at h
        | some p4 =>
          obtain ⟨d, r4⟩ := p4
          simp only [h4, Option.bind_some, Option.some.injEq, Prod.mk.injEq] at h
          obtain ⟨hl, hr⟩ := h
          subst hl hr
          obtain ⟨e1, w1⟩ := rd64_inv _ _ _ h1
          obtain ⟨e2, w2⟩ := rd64_inv _ _ _ h2
          obtain ⟨e3, w3⟩ := rd64_inv _ _ _ h3
          obtain ⟨e4, w4⟩ := rd64_inv _ _ _ h4
          refine ⟨?_, w1, w2, w3, w4⟩
          simp only [encLimbs, List.append_assoc]
          rw [e1, e2, e3, e4]

theorem rdHdr_enc (x : Hdr) (h : x.WF) (rest : List UInt8) : rdHdr (encHdr x ++ rest) = some (x, rest) := by
  obtain ⟨hh, hr, hs⟩ := h
  simp only [rdHdr, encHdr, List.append_assoc, rd64_le64 _ hh, rd64_le64 _ hr, rdLimbs_enc _ hs,
    Option.bind_eq_bind, Option.bind_some, Option.pure_def]

theorem rdHdr_inv (bs rest : List UInt8) (x : Hdr) (h : rdHdr bs = some (x, rest)) :
    bs = encHdr x ++ rest ∧ x.WF := by
  simp only [rdHdr, Option.bind_eq_bind, Option.pure_def] at h
  cases h1 : rd64 bs with
  | none => simp [h1] at h
  | some p1 =>
    obtain ⟨a, r1⟩ := p1
    simp only [h1, Option.bind_some] at h
    cases h2 : rd64 r1 with
    | none => simp [h2] at h
    | some p2 =>
      obtain ⟨b, r2⟩ := p2
      simp only [h2, Option.bind_some] at h
      cases h3 : rdLimbs r2 with
      | none => simp [h3] at h
      | some p3 =>
        obtain ⟨s, r3⟩ := p3
        simp only [h3, Option.bind_some, Option.some.injEq, Prod.mk.injEq] at h
        obtain ⟨hl, hr⟩ := h
        subst hl hr
        obtain ⟨e1, w1⟩ := rd64_inv _ _ _ h1
        obtain ⟨e2, w2⟩ := rd64_inv _ _ _ h2
        obtain ⟨e3, w3⟩ := rdLimbs_inv _ _ _ h3
        refine ⟨?_, w1, w2, w3⟩
        simp only [encHdr, List.append_assoc]
        rw [e1, e2, e3]

theorem rdOpt_enc (o : Option Limbs) (h : optWF o) (rest : List UInt8) : rdOpt (encOpt o ++ rest) = some (o, rest) := by
  cases o with
  | none => simp [encOpt, rdOpt]
  | some l =>
    have : (1 : UInt8) ≠ 0 := by decide
    simp only [encOpt, List.cons_append, rdOpt, this, ↓reduceIte, rdLimbs_enc l h, Option.map_some]

theorem rdOpt_inv (bs rest : List UInt8) (o : Option Limbs) (h : rdOpt bs = some (o, rest)) :
    bs = encOpt o ++ rest ∧ optWF o := by
  match bs, h with
  | p :: r, h =>
    simp only [rdOpt] at h
    by_cases h0 : p = 0
    · simp only [h0, ↓reduceIte, Option.some.injEq, Prod.mk.injEq] at h
      obtain ⟨rfl, rfl⟩ := h
      exact ⟨by simp [encOpt, h0], trivial⟩
    · simp only [h0, ↓reduceIte] at h
      by_cases h1 : p = 1
      · simp only [h1, ↓reduceIte, Option.map_eq_some_iff] at h
        obtain ⟨x, hx, he⟩ := h
        obtain ⟨l, r'⟩ := x
        simp only [Prod.mk.injEq] at he
        obtain ⟨rfl, rfl⟩ := he
        obtain ⟨e, w⟩ := rdLimbs_inv _ _ _ hx
        exact ⟨by simp [encOpt, h1, e], w⟩
      · simp [h1] at h

theorem done_some {α : Type} (x y : α) (r : List UInt8) (h : done x r = some y) : r = [] ∧ x = y := by
  cases r with
  | nil => simp only [done, Option.some.injEq] at h; exact ⟨rfl, h⟩
  | cons a r => simp [done] at h

/-- **Decoding inverts encoding** for every record whose fields fit their Go types. -/
theorem decode_encode (p : Payload) (h : p.WF) : decode (encode p) = some p := by
  have n21 : (2 : UInt8) ≠ 1 := by decide
  have n31 : (3 : UInt8) ≠ 1 := by decide
  have n32 : (3 : UInt8) ≠ 2 := by decide
  have n41 : (4 : UInt8) ≠ 1 := by decide
  have n42 : (4 : UInt8) ≠ 2 := by decide
  have n43 : (4 : UInt8) ≠ 3 := by decide
  have n51 : (5 : UInt8) ≠ 1 := by decide
  have n52 : (5 : UInt8) ≠ 2 := by decide
  have n53 : (5 : UInt8) ≠ 3 := by decide
  have n54 : (5 : UInt8) ≠ 4 := by decide
  cases p with
  | start hh =>
    have := rd64_le64 hh h []
    simp only [List.append_nil] at this
    simp [encode, decode, this, done]
  | proposal hdr vr v =>
    obtain ⟨w1, w2, w3⟩ := h
    have a1 := rdHdr_enc hdr w1 (le64 vr ++ encOpt v)
    have a2 := rd64_le64 vr w2 (encOpt v)
    have a3 := rdOpt_enc v w3 []
    simp only [List.append_nil] at a3
    simp [encode, decode, n21, a1, a2, a3, done]
  | prevote hdr id =>
    obtain ⟨w1, w3⟩ := h
    have a1 := rdHdr_enc hdr w1 (encOpt id)
    have a3 := rdOpt_enc id w3 []
    simp only [List.append_nil] at a3
    simp [encode, decode, n31, n32, a1, a3, done]
  | precommit hdr id =>
    obtain ⟨w1, w3⟩ := h
    have a1 := rdHdr_enc hdr w1 (encOpt id)
    have a3 := rdOpt_enc id w3 []
    simp only [List.append_nil] at a3
    simp [encode, decode, n41, n42, n43, a1, a3, done]
  | timeout step hh r =>
    obtain ⟨w0, w1, w2⟩ := h
    have a1 := rd64_le64 hh w1 (le64 r)
    have a2 := rd64_le64 r w2 []
    simp only [List.append_nil] at a2
    have hs : (by8 step).toNat = step := by unfold by8; simp; omega
    simp [encode, decode, n51, n52, n53, n54, a1, a2, done, hs]
  | prune hh =>
    have := rd64_le64 hh h []
    simp only [List.append_nil] at this
    simp [encode, decode, n21, this, done]

theorem by8_u8 (b : UInt8) : by8 b.toNat = b := by
  have := by8_toNat b 0; simpa using this

/-- **The decoder accepts nothing but exact encodings**: if a byte string decodes to a record,
it is the encoding of that record (and the record's fields fit their types). -/
theorem decode_canonical (bs : List UInt8) (p : Payload) (h : decode bs = some p) : encode p = bs ∧ p.WF := by
  match bs, h with
  | k :: bs, h =>
    simp only [decode] at h
    by_cases k1 : k = 1
    · subst k1
      simp only [↓reduceIte] at h
      match bs, h with
      | ek :: r, h =>
        simp only at h
        by_cases e1 : ek = 1
        · subst e1
          simp only [↓reduceIte, Option.bind_eq_bind] at h
          cases h1 : rd64 r with
          | none => simp [h1] at h
          | some q =>
            obtain ⟨hh, r1⟩ := q
            simp only [h1, Option.bind_some] at h
            obtain ⟨rfl, rfl⟩ := done_some _ _ _ h
            obtain ⟨e, w⟩ := rd64_inv _ _ _ h1
            exact ⟨by simp [encode, e], w⟩
        · by_cases e2 : ek = 2
          · subst e2
            simp only [e1, ↓reduceIte, Option.bind_eq_bind] at h
            cases h1 : rdHdr r with
            | none => simp [h1] at h
            | some q =>
              obtain ⟨hdr, r1⟩ := q
              simp only [h1, Option.bind_some] at h
              cases h2 : rd64 r1 with
              | none => simp [h2] at h
              | some q2 =>
                obtain ⟨vr, r2⟩ := q2
                simp only [h2, Option.bind_some] at h
                cases h3 : rdOpt r2 with
                | none => simp [h3] at h
                | some q3 =>
                  obtain ⟨v, r3⟩ := q3
                  simp only [h3, Option.bind_some] at h
                  obtain ⟨rfl, rfl⟩ := done_some _ _ _ h
                  obtain ⟨a1, w1⟩ := rdHdr_inv _ _ _ h1
                  obtain ⟨a2, w2⟩ := rd64_inv _ _ _ h2
                  obtain ⟨a3, w3⟩ := rdOpt_inv _ _ _ h3
                  refine ⟨?_, w1, w2, w3⟩
                  simp only [encode]
                  rw [a1, a2, a3]; simp
          · by_cases e3 : ek = 3
            · subst e3
              simp only [e1, e2, ↓reduceIte, Option.bind_eq_bind] at h
              cases h1 : rdHdr r with
              | none => simp [h1] at h
              | some q =>
                obtain ⟨hdr, r1⟩ := q
                simp only [h1, Option.bind_some] at h
                cases h3 : rdOpt r1 with
                | none => simp [h3] at h
                | some q3 =>
                  obtain ⟨v, r3⟩ := q3
                  simp only [h3, Option.bind_some] at h
                  obtain ⟨rfl, rfl⟩ := done_some _ _ _ h
                  obtain ⟨a1, w1⟩ := rdHdr_inv _ _ _ h1
                  obtain ⟨a3, w3⟩ := rdOpt_inv _ _ _ h3
                  refine ⟨?_, w1, w3⟩
                  simp only [encode]
                  rw [a1, a3]; simp
            · by_cases e4 : ek = 4
              · subst e4
                simp only [e1, e2, e3, ↓reduceIte, Option.bind_eq_bind] at h
                cases h1 : rdHdr r with
                | none => simp [h1] at h
                | some q =>
                  obtain ⟨hdr, r1⟩ := q
                  simp only [h1, Option.bind_some] at h
                  cases h3 : rdOpt r1 with
                  | none => simp [h3] at h
                  | some q3 =>
                    obtain ⟨v, r3⟩ := q3
                    simp only [h3, Option.bind_some] at h
                    obtain ⟨rfl, rfl⟩ := done_some _ _ _ h
                    obtain ⟨a1, w1⟩ := rdHdr_inv _ _ _ h1
                    obtain ⟨a3, w3⟩ := rdOpt_inv _ _ _ h3
                    refine ⟨?_, w1, w3⟩
                    simp only [encode]
                    rw [a1, a3]; simp
              · by_cases e5 : ek = 5
                · subst e5
                  simp only [e1, e2, e3, e4, ↓reduceIte] at h
                  match r, h with
                  | step :: r, h =>
                    simp only [Option.bind_eq_bind] at h
                    cases h1 : rd64 r with
                    | none => simp [h1] at h
                    | some q =>
                      obtain ⟨hh, r1⟩ := q
                      simp only [h1, Option.bind_some] at h
                      cases h2 : rd64 r1 with
                      | none => simp [h2] at h
                      | some q2 =>
                        obtain ⟨rr, r2⟩ := q2
                        simp only [h2, Option.bind_some] at h
                        obtain ⟨rfl, rfl⟩ := done_some _ _ _ h
                        obtain ⟨a1, w1⟩ := rd64_inv _ _ _ h1
                        obtain ⟨a2, w2⟩ := rd64_inv _ _ _ h2
                        refine ⟨?_, UInt8.toNat_lt step, w1, w2⟩
                        simp only [encode, by8_u8]
                        rw [a1, a2]; simp
                · simp [e1, e2, e3, e4, e5] at h
    · by_cases k2 : k = 2
      · subst k2
        simp only [k1, ↓reduceIte, Option.bind_eq_bind] at h
        cases h1 : rd64 bs with
        | none => simp [h1] at h
        | some q =>
          obtain ⟨hh, r1⟩ := q
          simp only [h1, Option.bind_some] at h
          obtain ⟨rfl, rfl⟩ := done_some _ _ _ h
          obtain ⟨e, w⟩ := rd64_inv _ _ _ h1
          exact ⟨by simp [encode, e], w⟩
      · simp [k1, k2] at h

/-- Consequently no decoded record is foreign: if every byte string the log reader hands over is
the encoding of a record that was written (the framing hypothesis: a chunk whose checksum
verifies carries the bytes that were written), every record the decoder yields was written. -/
theorem no_foreign_record (written : List Payload) (hw : ∀ q ∈ written, q.WF) (read : List (List UInt8))
    (framing : ∀ b ∈ read, ∃ q ∈ written, b = encode q) :
    ∀ b ∈ read, ∀ p, decode b = some p → p ∈ written := by
  intro b hb p hp
  obtain ⟨q, hq, rfl⟩ := framing b hb
  have := decode_encode q (hw q hq)
  rw [this] at hp
  cases hp
  exact hq

end Juno.C14.Codec
