import JunoModel.C14.Proofs
/-! C14 — the index: closed form of replaying records (`entries`, `pruned`). -/
namespace Juno.C14
open AMap

/-- entries of a height in the index (`entriesByHeight[h]`, `nil` when absent) -/
def Idx.view (x : Idx) (h : Nat) : List Nat := (get? x.entries h).getD []

theorem maxPrune_append (a b : List Rec) : maxPrune (a ++ b) = max (maxPrune a) (maxPrune b) := by
  induction a with
  | nil => simp [maxPrune]
  | cons r a ih =>
    cases r with
    | entry h e => simpa [maxPrune] using ih
    | prune h => simp only [List.cons_append, maxPrune, ih]; omega

theorem entriesOf_append (h : Nat) (a b : List Rec) : entriesOf h (a ++ b) = entriesOf h a ++ entriesOf h b := by
  induction a with
  | nil => simp [entriesOf]
  | cons r a ih =>
    cases r with
    | entry h' e => simp only [List.cons_append, entriesOf, ih]; split <;> simp
    | prune h' => simpa [entriesOf] using ih

/-- The part of the index invariant that concerns `entries`: ascending heights, no empty
entry list, nothing at or below the prune watermark. -/
structure Idx.EWF (x : Idx) : Prop where
  sorted : Sorted x.entries
  nonempty : ∀ p ∈ x.entries, p.2 ≠ []
  above : ∀ p ∈ x.entries, x.pruned < p.1

theorem Idx.EWF.view_low {x : Idx} (w : x.EWF) (h : Nat) (hh : h ≤ x.pruned) : x.view h = [] := by
  unfold Idx.view
  have : get? x.entries h = none := by
    cases hg : get? x.entries h with
    | none => rfl
    | some v =>
      have := w.above _ (mem_of_get? _ _ _ hg)
      simp at this; omega
  simp [this]

/-! #### addLiveEntry -/

theorem addLiveEntry_entries (x : Idx) (f h e : Nat) :
    (x.addLiveEntry f h e).entries = set x.entries h (x.view h ++ [e]) := by
  unfold Idx.addLiveEntry Idx.view
  simp only
  split <;> rfl

theorem addLiveEntry_pruned (x : Idx) (f h e : Nat) : (x.addLiveEntry f h e).pruned = x.pruned := by
  unfold Idx.addLiveEntry
  simp only
  split <;> rfl

theorem addLiveEntry_view (x : Idx) (f h e h' : Nat) :
    (x.addLiveEntry f h e).view h' = if h' = h then x.view h ++ [e] else x.view h' := by
  unfold Idx.view
  rw [addLiveEntry_entries, get?_set]
  split <;> simp [Idx.view]

theorem addLiveEntry_EWF (x : Idx) (f h e : Nat) (w : x.EWF) (hh : x.pruned < h) :
    (x.addLiveEntry f h e).EWF := by
  refine ⟨?_, ?_, ?_⟩
  · rw [addLiveEntry_entries]; exact sorted_set _ _ _ w.sorted
  · rw [addLiveEntry_entries]
    intro p hp
    rcases mem_set _ _ _ _ hp with rfl | hp
    · simp
    · exact w.nonempty p hp
  · rw [addLiveEntry_entries, addLiveEntry_pruned]
    intro p hp
    rcases mem_set _ _ _ _ hp with rfl | hp
    · exact hh
    · exact w.above p hp

/-! #### deleteLiveHeight, pruneUpTo -/

theorem deleteLiveHeight_entries (x : Idx) (h : Nat) : (x.deleteLiveHeight h).entries = erase x.entries h := rfl
theorem deleteLiveHeight_pruned (x : Idx) (h : Nat) : (x.deleteLiveHeight h).pruned = x.pruned := rfl

/-- the loop of `pruneLiveEntriesUpTo` over a list of heights -/
def pruneLoop (h : Nat) (ks : List Nat) (y : Idx) : Idx :=
  ks.foldl (fun y k => if k ≤ h then y.deleteLiveHeight k else y) y

theorem pruneLoop_pruned (h : Nat) (ks : List Nat) (y : Idx) : (pruneLoop h ks y).pruned = y.pruned := by
  induction ks generalizing y with
  | nil => rfl
  | cons k ks ih =>
    simp only [pruneLoop, List.foldl_cons] at ih ⊢
    rw [ih]; split <;> rfl

theorem pruneLoop_entries (h : Nat) (ks : List Nat) (y : Idx) :
    (pruneLoop h ks y).entries = y.entries.filter (fun p => !(decide (p.1 ∈ ks) && decide (p.1 ≤ h))) := by
  induction ks generalizing y with
  | nil =>
    simp only [pruneLoop, List.foldl_nil, List.not_mem_nil, decide_false, Bool.false_and, Bool.not_false]
    exact (List.filter_eq_self.mpr (fun _ _ => rfl)).symm
  | cons k ks ih =>
    simp only [pruneLoop, List.foldl_cons] at ih ⊢
    rw [ih]
    by_cases hk : k ≤ h
    · simp only [hk, ↓reduceIte, deleteLiveHeight_entries, erase, List.filter_filter]
      apply List.filter_congr
      intro p _
      by_cases hp : p.1 = k
      · simp [hp, hk]
      · have : (p.1 != k) = true := by simp [hp]
        simp [hp, this]
    · simp only [hk, ↓reduceIte]
      apply List.filter_congr
      intro p _
      by_cases hp : p.1 = k
      · simp [hp, hk]
      · simp [hp, List.mem_cons]

theorem pruneUpTo_pruned (x : Idx) (h : Nat) : (x.pruneUpTo h).pruned = max x.pruned h := by
  unfold Idx.pruneUpTo
  split
  · omega
  · have := pruneLoop_pruned h (keys x.entries) { x with pruned := h }
    simp only [pruneLoop] at this
    rw [this]; show h = max x.pruned h; omega

theorem pruneUpTo_entries (x : Idx) (h : Nat) (hh : x.pruned < h) :
    (x.pruneUpTo h).entries = x.entries.filter (fun p => !decide (p.1 ≤ h)) := by
  unfold Idx.pruneUpTo
  have : ¬ h ≤ x.pruned := by omega
  simp only [this, ↓reduceIte]
  have := pruneLoop_entries h (keys x.entries) { x with pruned := h }
  simp only [pruneLoop] at this
  rw [this]
  apply List.filter_congr
  intro p hp
  have : p.1 ∈ keys x.entries := List.mem_map_of_mem (f := (·.1)) hp
  simp [this]

theorem get?_filter_key (m : List (Nat × List Nat)) (q : Nat → Bool) (k : Nat) :
    get? (m.filter (fun p => q p.1)) k = if q k then get? m k else none := by
  induction m with
  | nil => simp
  | cons p m ih =>
    obtain ⟨a, b⟩ := p
    simp only [List.filter_cons]
    by_cases hq : q a = true
    · simp only [hq, ↓reduceIte, get?_cons, ih]
      by_cases hka : k = a
      · subst hka; simp [hq]
      · simp [hka]
    · simp only [hq, Bool.false_eq_true, ↓reduceIte, ih, get?_cons]
      by_cases hka : k = a
      · subst hka; simp [hq]
      · simp [hka]

theorem pruneUpTo_view (x : Idx) (h h' : Nat) (w : x.EWF) :
    (x.pruneUpTo h).view h' = if h' ≤ max x.pruned h then [] else x.view h' := by
  by_cases hh : h ≤ x.pruned
  · have : x.pruneUpTo h = x := by unfold Idx.pruneUpTo; simp [hh]
    rw [this]
    have hm : max x.pruned h = x.pruned := by omega
    rw [hm]
    split
    · exact w.view_low h' (by assumption)
    · rfl
  · have hlt : x.pruned < h := by omega
    unfold Idx.view
    rw [pruneUpTo_entries x h hlt, get?_filter_key x.entries (fun k => !decide (k ≤ h)) h']
    have hm : max x.pruned h = h := by omega
    rw [hm]
    by_cases hle : h' ≤ h <;> simp [hle]

theorem pruneUpTo_EWF (x : Idx) (h : Nat) (w : x.EWF) : (x.pruneUpTo h).EWF := by
  by_cases hh : h ≤ x.pruned
  · have : x.pruneUpTo h = x := by unfold Idx.pruneUpTo; simp [hh]
    rw [this]; exact w
  · have hlt : x.pruned < h := by omega
    refine ⟨?_, ?_, ?_⟩
    · rw [pruneUpTo_entries x h hlt]
      have := w.sorted
      unfold Sorted keys at *
      exact this.sublist (List.Sublist.map _ List.filter_sublist)
    · rw [pruneUpTo_entries x h hlt]
      intro p hp
      exact w.nonempty p (List.mem_filter.mp hp).1
    · rw [pruneUpTo_entries x h hlt, pruneUpTo_pruned]
      intro p hp
      have := (List.mem_filter.mp hp).2
      simp at this
      omega

/-! #### applyRec, applyRecs: the closed form -/

theorem applyRec_EWF (x : Idx) (f : Nat) (r : Rec) (w : x.EWF) : (x.applyRec f r).EWF := by
  cases r with
  | entry h e =>
    simp only [Idx.applyRec]
    split
    · exact w
    · exact addLiveEntry_EWF x f h e w (by omega)
  | prune h => exact pruneUpTo_EWF x h w

theorem applyRecs_EWF (x : Idx) (f : Nat) (rs : List Rec) (w : x.EWF) : (x.applyRecs f rs).EWF := by
  induction rs generalizing x with
  | nil => exact w
  | cons r rs ih => exact ih _ (applyRec_EWF x f r w)

/-- Replaying records `rs` (whatever the log they come from) on an index: the watermark becomes
the highest prune seen, every height at or below it is empty, every height above it has gained
exactly its entries of `rs`, in order. -/
theorem applyRecs_closed (x : Idx) (f : Nat) (rs : List Rec) (w : x.EWF) :
    (x.applyRecs f rs).pruned = max x.pruned (maxPrune rs) ∧
    ∀ h, (x.applyRecs f rs).view h =
      if h ≤ max x.pruned (maxPrune rs) then [] else x.view h ++ entriesOf h rs := by
  induction rs generalizing x with
  | nil =>
    refine ⟨by simp [Idx.applyRecs, maxPrune], ?_⟩
    intro h
    simp only [Idx.applyRecs, List.foldl_nil, maxPrune, Nat.max_zero, entriesOf, List.append_nil]
    split
    · exact w.view_low h (by assumption)
    · rfl
  | cons r rs ih =>
    have w1 := applyRec_EWF x f r w
    obtain ⟨ihp, ihv⟩ := ih (x.applyRec f r) w1
    have hstep : x.applyRecs f (r :: rs) = (x.applyRec f r).applyRecs f rs := rfl
    rw [hstep]
    cases r with
    | entry h e =>
      simp only [Idx.applyRec] at ihp ihv w1 ⊢
      by_cases hh : h ≤ x.pruned
      · simp only [hh, ↓reduceIte] at ihp ihv ⊢
        refine ⟨by simpa [maxPrune] using ihp, ?_⟩
        intro h'
        rw [ihv h']
        simp only [maxPrune, entriesOf]
        by_cases hc : h' ≤ max x.pruned (maxPrune rs)
        · simp [hc]
        · have : h ≠ h' := by omega
          simp [hc, this]
      · simp only [hh, ↓reduceIte] at ihp ihv ⊢
        rw [addLiveEntry_pruned] at ihp ihv
        refine ⟨by simpa [maxPrune] using ihp, ?_⟩
        intro h'
        rw [ihv h', addLiveEntry_view]
        simp only [maxPrune, entriesOf]
        by_cases hc : h' ≤ max x.pruned (maxPrune rs)
        · simp [hc]
        · by_cases e1 : h' = h
          · subst e1; simp [hc]
          · have : h ≠ h' := fun c => e1 c.symm
            simp [hc, e1, this]
    | prune h =>
      simp only [Idx.applyRec] at ihp ihv ⊢
      simp only [pruneUpTo_pruned] at ihp ihv
      refine ⟨by rw [ihp]; simp only [maxPrune]; omega, ?_⟩
      intro h'
      rw [ihv h', pruneUpTo_view x h h' w]
      have hm : max (max x.pruned h) (maxPrune rs) = max x.pruned (maxPrune (Rec.prune h :: rs)) := by
        simp only [maxPrune]; omega
      rw [hm]
      simp only [entriesOf]
      by_cases hgt : h' ≤ max x.pruned (maxPrune (Rec.prune h :: rs))
      · simp [hgt]
      · have : ¬ h' ≤ max x.pruned h := by
          simp only [maxPrune] at hgt; omega
        simp [hgt, this]

end Juno.C14
