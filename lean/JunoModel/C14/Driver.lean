import JunoModel.Common.Proto
import JunoModel.C14.Model
import JunoModel.C14.Codec
import JunoModel.C14.Batch
import JunoModel.C14.Chunk
/-! Line-protocol driver for the C14 model (`lake build c14drv`).

Requests (numbers are decimal):
  `decode <hex>` (record payload bytes -> what `decodeWALRecord` yields, `err` when it rejects)
  `encbatch <seq> | <record> | <record> …` the bytes `encodeBatch` produces (records in the form `decode` prints)
  `batch <hex>`                    `applyEncodedBatch` on the bytes: `ok <seq> <count> | <record> …`, `err:<class>`, `panic`
  `readlog <wm> <num>:<hex>,<hex>,… …`  NewTendermintWALStore over logs given by their complete records
  `wmenc <h>` / `wmdec <hex>`      the watermark file
  `frames <lognum> <0|1> <hex> <hex> …`  the bytes of a log holding these records (1: closed, with the EOF trailer)
  `emit <lognum> <pos> <hex>`      the bytes `LogWriter.SyncRecord` puts into the log for this record when the log is `pos` bytes long
  `scan <lognum> <hex>` / `scanq …` Pebble's record reader over the bytes of a log + juno's tail repair:
                                   `n=<records> starts=<offsets> off=<offset of the end> st=<eof|invalid> rep=<length after recoverLatestWALTail> recs <hex> …`
                                   (`scanq`: `lens=<lengths>` instead of the records)
  `blob <hex>`                     park a byte string; `scanq <lognum> ^a:b+<hex>+z<n>+…` then scans the concatenation of
                                   slices of it, literal bytes and runs of zeros
  `pw <lognum> <ev> …`             the offsets of `walWriter` over one log: `ok:<hex>` `torn:<k>:<t>:<hex>` `sf:<t>:<hex>` `close:<t>`
                                   → `file=<hex> synced=<n> open=<0|1>`
  `pending` / `nextseq`            the buffered records (`e:<h>:<e>` / `p:<h>`) and `nextBatchSeqNum` of the running store
  `set h e` | `del h` | `flush <fault>` | `close <fault>` | `open` | `load` | `disk`
  `bases <cop> <fault>`            every durable state of the operation: `<tag>|<disk>|<infl>` joined by ` ; `
  `img <cop> <fault> <i> <mask>`   the crash image and what a restart sees: `<disk> => <recover>`
  `crash <cop> <fault> <i> <mask>` the process dies, the directory becomes that image
with `<fault>` one of `none append norepair wm create wmsync rotate unlink:<k>`, `<cop>` one of `idle flush close open`,
`<mask>` a string of `0`/`1` (`-` when empty), prefixed with k times `~` to undo the undurable watermark renames back to the k-th remembered value. -/
open Juno.Proto Juno.C14

def fmtList (xs : List String) (sep : String) : String :=
  if xs.isEmpty then "-" else sep.intercalate xs

def fmtLoad (l : List (Nat × List Nat)) : String :=
  fmtList (l.map (fun p => toString p.1 ++ ":" ++ ",".intercalate (p.2.map toString))) ";"

def fmtFile (f : LogFile) : String :=
  toString f.num ++ "/" ++ toString f.batches.length ++ "/" ++ (if f.garbage then "g" else "c")

def fmtDisk (d : Disk) : String :=
  "files=" ++ fmtList (d.files.map fmtFile) "," ++ " zombies=" ++ fmtList (d.zombies.map fmtFile) ","
    ++ " wm=" ++ (match d.wm with | some w => toString w | none => "-")
    ++ " tmp=" ++ (if d.tmp then "1" else "0")
    ++ " alt=" ++ fmtList (d.wmAlt.map (fun w => match w with
      | none => "none"
      | some w => toString w)) ","

def fmtOut : Outcome → String
  | .ok => "ok"
  | .closed => "closed"
  | .errNotCommitted => "err-notcommitted"
  | .errCommitted => "err-committed"
  | .dead => "dead"
  | .bad => "bad-op"
  | .openFailed => "err-open"

def fmtRecover (r : Except OpenErr (List (Nat × List Nat))) : String :=
  match r with
  | .ok l => "ok " ++ fmtLoad l
  | .error .corruptLog => "err-open"

def parseFault (f : String) : Option Fault :=
  match f with
  | "none" => some .none
  | "append" => some .append
  | "norepair" => some .appendNoRepair
  | "wm" => some .watermark
  | "create" => some .create
  | "wmsync" => some .wmSync
  | "rotate" => some .rotate
  | "closewriter" => some .closeWriter
  | "closewriter-norepair" => some .closeWriterNoRepair
  | "fullnorepair" => some .appendFullNoRepair
  | "closemanager" => some .closeManager
  | _ =>
    match f.splitOn ":" with
    | ["unlink", k] => k.toNat?.map Fault.unlink
    | _ => none

def parseCOp (c : String) (ft : Fault) : Option COp :=
  match c with
  | "idle" => some .idle
  | "flush" => some (.flush ft)
  | "close" => some (.close ft)
  | "open" => some .reopen
  | _ => none

def parseBits (m : String) : Option (List Bool) :=
  if m == "-" then some [] else
  m.toList.foldr (fun c acc => match acc, c with
    | some l, '1' => some (true :: l)
    | some l, '0' => some (false :: l)
    | _, _ => none) (some [])

/-- `<mask>` preceded by `k` times `~`: the undurable watermark renames are undone back to the
`k`-th remembered content -/
def parseMask (m : String) : Option (List Bool × Nat) :=
  let k := (m.toList.takeWhile (· == '~')).length
  (parseBits (String.ofList (m.toList.drop k))).map (fun b => (b, k))

def fmtLimbs (l : Codec.Limbs) : String :=
  toString l.a ++ "," ++ toString l.b ++ "," ++ toString l.c ++ "," ++ toString l.d

def fmtOptLimbs : Option Codec.Limbs → String
  | none => "-"
  | some l => fmtLimbs l

def fmtHdr (x : Codec.Hdr) : String := toString x.h ++ " " ++ toString x.round ++ " " ++ fmtLimbs x.sender

/-- `decode <hex>`: what `decodeWALRecord` makes of a record payload -/
def fmtPayload : Option Codec.Payload → String
  | none => "err"
  | some (.start h) => "start " ++ toString h
  | some (.proposal hdr vr v) => "proposal " ++ fmtHdr hdr ++ " " ++ toString vr ++ " " ++ fmtOptLimbs v
  | some (.prevote hdr id) => "prevote " ++ fmtHdr hdr ++ " " ++ fmtOptLimbs id
  | some (.precommit hdr id) => "precommit " ++ fmtHdr hdr ++ " " ++ fmtOptLimbs id
  | some (.timeout st h r) => "timeout " ++ toString st ++ " " ++ toString h ++ " " ++ toString r
  | some (.prune h) => "prune " ++ toString h

def fmtPay (p : Codec.Payload) : String := fmtPayload (some p)

def parseLimbs (s : String) : Option Codec.Limbs :=
  match (s.splitOn ",").map String.toNat? with
  | [some a, some b, some c, some d] => some ⟨a, b, c, d⟩
  | _ => none

def parseOptLimbs (s : String) : Option (Option Codec.Limbs) :=
  if s == "-" then some none else (parseLimbs s).map some

/-- the inverse of `fmtPayload` (the harness renders a real entry in that form) -/
def parsePayload : List String → Option Codec.Payload
  | ["start", h] => h.toNat?.map .start
  | ["prune", h] => h.toNat?.map .prune
  | ["timeout", st, h, r] => do pure (.timeout (← st.toNat?) (← h.toNat?) (← r.toNat?))
  | ["proposal", h, r, s, vr, v] => do
    pure (.proposal ⟨← h.toNat?, ← r.toNat?, ← parseLimbs s⟩ (← vr.toNat?) (← parseOptLimbs v))
  | ["prevote", h, r, s, id] => do pure (.prevote ⟨← h.toNat?, ← r.toNat?, ← parseLimbs s⟩ (← parseOptLimbs id))
  | ["precommit", h, r, s, id] => do pure (.precommit ⟨← h.toNat?, ← r.toNat?, ← parseLimbs s⟩ (← parseOptLimbs id))
  | _ => none

/-- `a b | c d | e` → `[[a,b],[c,d],[e]]` (a leading `|` is allowed) -/
def splitBar (ws : List String) : List (List String) :=
  (ws.foldr (fun w acc => match acc with
    | [] => if w == "|" then [[]] else [[w]]
    | g :: gs => if w == "|" then [] :: g :: gs else (w :: g) :: gs) []).filter (fun g => !g.isEmpty)

def allSome {α : Type} : List (Option α) → Option (List α)
  | [] => some []
  | none :: _ => none
  | some a :: r => (allSome r).map (a :: ·)

def fmtRecErr : Batch.RecErr → String
  | .corruptHeader => "err:corrupt-header"
  | .missingHeader => "err:missing-header"
  | .iter => "err:iter"
  | .count => "err:count"
  | .kind => "err:kind"
  | .decode => "err:decode"
  | .panic => "panic"

/-- `<num>:<hex>,<hex>,…` (no record: `<num>:`) -/
def parseLog (t : String) : Option (Nat × List (List UInt8)) :=
  match t.splitOn ":" with
  | [n, rs] => do
    let n ← n.toNat?
    let recs ← if rs.isEmpty then some [] else allSome ((rs.splitOn ",").map hexToBytes?)
    pure (n, recs)
  | _ => none

def chunkCfg (ln : Nat) : Chunk.Cfg := { B := 32768, logNum := ln % 4294967296, crc := Chunk.pebbleCrc }

def fmtNats (l : List Nat) : String := fmtList (l.map toString) ","

def fmtCErr : Chunk.CErr → String
  | .eof => "eof"
  | .invalid => "invalid"
  | .fuel => "fuel"

def fmtScan (c : Chunk.Cfg) (file : List UInt8) (full : Bool) : String :=
  let r := Chunk.scan c file
  "n=" ++ toString r.recs.length ++ " starts=" ++ fmtNats r.starts ++ " off=" ++ toString r.off ++ " st=" ++ fmtCErr r.st
    ++ " rep=" ++ toString (Chunk.recoverTail c file).length
    ++ (if full then " recs" ++ String.join (r.recs.map (fun p => " " ++ bytesToHex p))
        else " lens=" ++ fmtNats (r.recs.map List.length))

def parsePEv (t : String) : Option Chunk.PEv :=
  match t.splitOn ":" with
  | ["ok", hx] => (hexToBytes? hx).map .appendOk
  | ["torn", k, tr, hx] => do pure (.appendTorn (← hexToBytes? hx) (← k.toNat?) (← tr.toNat?))
  | ["sf", tr, hx] => do pure (.appendSyncFail (← hexToBytes? hx) (← tr.toNat?))
  | ["close", tr] => tr.toNat?.map .close
  | _ => none

def run1 (s : Sys) (op : Op) : Sys × String :=
  let (s', o) := s.step op
  (s', fmtOut o)

def step (s : Sys) (line : String) : Sys × String :=
  match words line with
  | ["set", h, e] =>
    match h.toNat?, e.toNat? with
    | some h, some e => run1 s (.set h e)
    | _, _ => (s, "bad-op")
  | ["del", h] =>
    match h.toNat? with
    | some h => run1 s (.del h)
    | none => (s, "bad-op")
  | ["flush", ft] =>
    match parseFault ft with
    | some ft => run1 s (.flush ft)
    | none => (s, "bad-op")
  | ["close", ft] =>
    match parseFault ft with
    | some ft => run1 s (.close ft)
    | none => (s, "bad-op")
  | ["open"] => run1 s .reopen
  | ["decode", hx] =>
    match hexToBytes? hx with
    | some bs => (s, fmtPayload (Codec.decode bs))
    | none => (s, "bad-op")
  | "encbatch" :: seq :: rest =>
    match seq.toNat?, allSome ((splitBar rest).map parsePayload) with
    | some q, some ps => (s, bytesToHex (Batch.encodeBatch q (ps.map Codec.encode)))
    | _, _ => (s, "bad-op")
  | ["batch", hx] =>
    match hexToBytes? hx with
    | some bs =>
      match Batch.applyBatch bs with
      | .error e => (s, fmtRecErr e)
      | .ok (q, c, ps) => (s, "ok " ++ toString q ++ " " ++ toString c ++ String.join (ps.map (fun p => " | " ++ fmtPay p)))
    | none => (s, "bad-op")
  | "readlog" :: wm :: logs =>
    match wm.toNat?, allSome (logs.map parseLog) with
    | some wm, some logs =>
      match Batch.openLogs wm logs with
      | .error e => (s, fmtRecErr e)
      | .ok r => (s, "ok nextseq=" ++ toString r.nextSeq ++ String.join (r.load.map (fun p => " | " ++ fmtPay p)))
    | _, _ => (s, "bad-op")
  | "frames" :: ln :: tr :: recs =>
    match ln.toNat?, allSome (recs.map hexToBytes?) with
    | some ln, some ps =>
      if tr == "0" then (s, bytesToHex (Chunk.frames (chunkCfg ln) ps))
      else if tr == "1" then (s, bytesToHex (Chunk.frames (chunkCfg ln) ps ++ Chunk.trailer (chunkCfg ln)))
      else (s, "bad-op")
    | _, _ => (s, "bad-op")
  | ["emit", ln, pos, hx] =>
    match ln.toNat?, pos.toNat?, hexToBytes? hx with
    | some ln, some pos, some bs => (s, bytesToHex (Chunk.emitRecord (chunkCfg ln) (pos % 32768) bs).1)
    | _, _, _ => (s, "bad-op")
  | ["scan", ln, hx] =>
    match ln.toNat?, hexToBytes? hx with
    | some ln, some bs => (s, fmtScan (chunkCfg ln) bs true)
    | _, _ => (s, "bad-op")
  | ["scanq", ln, hx] =>
    match ln.toNat?, hexToBytes? hx with
    | some ln, some bs => (s, fmtScan (chunkCfg ln) bs false)
    | _, _ => (s, "bad-op")
  | "pw" :: ln :: evs =>
    match ln.toNat?, allSome (evs.map parsePEv) with
    | some ln, some evs =>
      let w := Chunk.PW.run (chunkCfg ln) {} evs
      (s, "file=" ++ bytesToHex w.file ++ " synced=" ++ toString w.synced ++ " open=" ++ (if w.isOpen then "1" else "0"))
    | _, _ => (s, "bad-op")
  | ["wmenc", h] =>
    match h.toNat? with
    | some h => (s, bytesToHex (Batch.wmEncode h))
    | none => (s, "bad-op")
  | ["wmdec", hx] =>
    match hexToBytes? hx with
    | some bs =>
      match Batch.wmDecode bs with
      | .ok h => (s, "ok " ++ toString h)
      | .error .size => (s, "err:size")
      | .error .header => (s, "err:header")
    | none => (s, "bad-op")
  | ["poke", i, e] =>
    match i.toNat?, e.toNat? with
    | some i, some e => if s.alive then ({ s with st := s.st.poke i e }, "ok") else (s, "dead")
    | _, _ => (s, "bad-op")
  | ["pending"] =>
    (s, if s.alive then fmtList (s.st.pending.map (fun r => match r with
      | .entry h e => "e:" ++ toString h ++ ":" ++ toString e
      | .prune h => "p:" ++ toString h)) "," else "dead")
  | ["nextseq"] => (s, if s.alive then toString s.st.nextSeq else "dead")
  | ["limbo"] => (s, toString s.limbo.length)
  | ["load"] => if s.alive then (s, fmtLoad s.st.load) else (s, "dead")
  | ["disk"] => (s, fmtDisk s.disk)
  | ["writer"] =>
    (s, if s.alive then (match s.st.writer with | some n => toString n | none => "-") else "-")
  | ["bases", c, ft] =>
    match parseFault ft with
    | some ft =>
      match parseCOp c ft with
      | some c =>
        let tags := match c with
          | .flush ft => if s.alive then flushTags s.st ft else ["pre"]
          | .close ft => if s.alive then closeTags s.st ft else ["pre"]
          | .reopen => ["pre", "repaired"]
          | .idle => ["pre"]
        let bs := s.bases c
        (s, fmtList ((List.zip (tags ++ List.replicate bs.length "?") bs).map
          (fun p => p.1 ++ "|" ++ fmtDisk p.2.1 ++ "|" ++ (if p.2.2 then "1" else "0"))) " ; ")
      | none => (s, "bad-op")
    | none => (s, "bad-op")
  | ["img", c, ft, i, m] =>
    match parseFault ft, i.toNat?, parseMask m with
    | some ft, some i, some m =>
      match parseCOp c ft with
      | some c =>
        match (s.bases c)[i]? with
        | some (b, infl) =>
          let im := b.resurrect m.1 m.2
          (s, fmtDisk im ++ " infl=" ++ (if infl then "1" else "0") ++ " => " ++ fmtRecover (recover im))
        | none => (s, "bad-op")
      | none => (s, "bad-op")
    | _, _, _ => (s, "bad-op")
  | ["crash", c, ft, i, m] =>
    match parseFault ft, i.toNat?, parseMask m with
    | some ft, some i, some m =>
      match parseCOp c ft with
      | some c => run1 s (.crash c i m.1 m.2)
      | none => (s, "bad-op")
    | _, _, _ => (s, "bad-op")
  | _ => (s, "bad-op")

/-- the driver's state: the system, and a byte string the harness has parked (`blob <hex>`) so that the many
damaged variants of one log file need not be sent whole each time -/
structure DState where
  sys : Sys := Sys.init
  blob : List UInt8 := []

/-- a byte string given as segments joined by `+`: `^a:b` (bytes a..b-1 of the parked string), `z<n>` (n zero
bytes), or hex -/
def parseSegs (blob : List UInt8) (t : String) : Option (List UInt8) :=
  (allSome ((t.splitOn "+").map (fun seg =>
    if seg.startsWith "^" then
      match (String.ofList (seg.toList.drop 1)).splitOn ":" with
      | [a, b] => do
        let a ← a.toNat?
        let b ← b.toNat?
        pure ((blob.drop a).take (b - a))
      | _ => none
    else if seg.startsWith "z" then (String.ofList (seg.toList.drop 1)).toNat?.map (fun n => List.replicate n (0 : UInt8))
    else hexToBytes? seg))).map List.flatten

def stepD (d : DState) (line : String) : DState × String :=
  match words line with
  | ["blob", hx] =>
    match hexToBytes? hx with
    | some bs => ({ d with blob := bs }, "ok " ++ toString bs.length)
    | none => (d, "bad-op")
  | ["scanq", ln, seg] =>
    if seg.startsWith "^" then
      match ln.toNat?, parseSegs d.blob seg with
      | some ln, some bs => (d, fmtScan (chunkCfg ln) bs false)
      | _, _ => (d, "bad-op")
    else
      let r := step d.sys line
      ({ d with sys := r.1 }, r.2)
  | _ =>
    let r := step d.sys line
    ({ d with sys := r.1 }, r.2)

def main : IO Unit := loop stepD {}
