import JunoModel.C14.ProofsFlush
/-! C14 — the invariant along every history (operations, failures, crashes, restarts), and what
follows for every crash image. -/
namespace Juno.C14
open AMap

theorem flushLocked_closed (s : Store) (d : Disk) (ft : Fault) (hc : s.closed = true) :
    flushLocked s d ft = ⟨s, d, .closed, [(d, false)], [], false⟩ := by
  unfold flushLocked; simp [hc]

theorem closeStore_closed (s : Store) (d : Disk) (ft : Fault) (hc : s.closed = true) :
    closeStore s d ft = ⟨s, d, .ok, [(d, false)], [], false⟩ := by
  unfold closeStore; simp [hc]

/-- a blocked writer with something to write: `flushLocked` refuses and touches nothing -/
theorem flushLocked_blocked (s : Store) (d : Disk) (ft : Fault) (hc : s.closed = false)
    (hr : s.repairRequired = true) (hp : s.pending ≠ []) :
    flushLocked s d ft = ⟨s, d, .errNotCommitted, [(d, false)], [], false⟩ := by
  have : s.pending.isEmpty = false := by
    cases h : s.pending with
    | nil => exact absurd h hp
    | cons a b => rfl
  unfold flushLocked; simp [hc, hr, this]

theorem closeOut_committed (c : Bool) (o : Outcome) :
    (if (c && decide (o = Outcome.ok)) = true then Outcome.errCommitted else o).committed = o.committed := by
  by_cases h : (c && decide (o = Outcome.ok)) = true
  · simp only [h, ↓reduceIte]
    have : o = Outcome.ok := by
      simp only [Bool.and_eq_true, decide_eq_true_eq] at h
      exact h.2
    rw [this]; rfl
  · simp only [h, Bool.false_eq_true, ↓reduceIte]

theorem closeStore_limbo (s : Store) (d : Disk) (ft : Fault) (hc : s.closed = false) :
    (closeStore s d ft).limbo = (flushLocked s d ft).limbo ∧
    (closeStore s d ft).out.committed = (flushLocked s d ft).out.committed := by
  unfold closeStore
  simp only [hc, Bool.false_eq_true, ↓reduceIte, closeOut_committed, and_self]

/-- `Close` from a state that satisfies the invariant -/
theorem close_ok {s : Store} {d : Disk} {A C : List Rec} (i : SInv s d A C) (di : DInv d A)
    (hc : s.closed = false) (ft : Fault) :
    (∀ b ∈ (closeStore s d ft).bases, DInv b.1 (if b.2 = true then A ++ C else A)) ∧
    DInv (closeStore s d ft).disk
      (if ((closeStore s d ft).out.committed || (closeStore s d ft).limbo) = true then A ++ C else A) ∧
    (∀ F ∈ (closeStore s d ft).removed,
      Low (maxPrune (if (closeStore s d ft).out.committed = true then A ++ C else A)) (recsOfFile F)) ∧
    (closeStore s d ft).st.closed = true ∧
    ((closeStore s d ft).limbo = true → (closeStore s d ft).out.committed = false) := by
  have f := flush_ok i di hc ft
  have hcl : (flushLocked s d ft).st.closed = false := by rw [f.closed]; exact hc
  have sf := f.sfin hcl
  -- the directory with a torn EOF trailer on the log being closed
  have dtr : DInv (match (flushLocked s d ft).st.writer with
      | some n => (flushLocked s d ft).disk.setGarbage n true
      | none => (flushLocked s d ft).disk)
      (if ((flushLocked s d ft).out.committed || (flushLocked s d ft).limbo) = true then A ++ C else A) := by
    cases hw : (flushLocked s d ft).st.writer with
    | none => exact f.dfin
    | some n =>
      simp only
      obtain ⟨pre, F, hf, hn⟩ := sf.wr n hw
      subst hn
      have hr := sf.wrr (by simp [hw])
      have hz := sf.wrz (by simp [hw])
      have hclean := sf.nogarb hr
      exact f.dfin.torn pre F hf (fun G hG => hclean G (by rw [hf]; exact List.mem_append_left _ hG)) hz
  have hlim : (flushLocked s d ft).limbo = true → (flushLocked s d ft).out.committed = false := by
    intro h; rw [(f.lim h).1]; rfl
  unfold closeStore
  simp only [hc, Bool.false_eq_true, ↓reduceIte, closeOut_committed]
  refine ⟨?_, ?_, f.rem, trivial, hlim⟩
  · intro b hb
    rcases List.mem_append.mp hb with h | h
    · exact f.bases b h
    · simp only [List.mem_cons, List.not_mem_nil, or_false] at h
      rcases h with rfl | rfl
      · exact dtr
      · exact f.dfin
  · split
    · exact dtr
    · exact f.dfin

theorem inv_init : Inv Sys.init := by
  refine ⟨⟨?_, ?_, ?_, ?_, ?_, ?_, ?_, ?_, by intro f hf; simp [Sys.init] at hf, by intro f hf; simp [Sys.init] at hf⟩, ?_, ?_,
    fun h => absurd rfl h⟩
  · simp [Sys.init, numsAsc]
  · intro f hf; simp [Sys.init] at hf
  · intro _; rfl
  · intro z hz; simp [Sys.init] at hz
  · exact Presents.nil
  · intro r hr; simp [Sys.init, recsOf] at hr
  · intro w hw; simp [Sys.init] at hw
  · intro w hw; simp [Sys.init] at hw
  · intro h; simp [Sys.init] at h
  · intro F hF; simp [Sys.init] at hF

theorem Low.mono_append {A C : List Rec} {rs : List Rec} (l : Low (maxPrune A) rs) : Low (maxPrune (A ++ C)) rs :=
  l.mono (by rw [maxPrune_append]; omega)

theorem Inv.d0 {sys : Sys} (i : Inv sys) (hl : sys.limbo = []) : DInv sys.disk sys.acked := by
  have := i.d; rwa [hl, List.append_nil] at this

/-- Every durable state an operation passes through satisfies the directory invariant, for the
acknowledged history — extended by the calls in flight when the batch is completely on disk, and
otherwise by the batch in limbo (if any). -/
theorem Inv.bases {sys : Sys} (i : Inv sys) (c : COp) :
    ∀ b ∈ sys.bases c, DInv b.1 (if b.2 = true then sys.acked ++ sys.calls else sys.acked ++ sys.limbo) := by
  intro b hb
  cases c with
  | idle =>
    simp only [Sys.bases, List.mem_singleton] at hb
    subst hb; simpa using i.d
  | flush ft =>
    simp only [Sys.bases] at hb
    by_cases ha : sys.alive = true
    · simp only [ha, ↓reduceIte] at hb
      by_cases hc : sys.st.closed = true
      · rw [flushLocked_closed _ _ _ hc] at hb
        simp only [List.mem_singleton] at hb
        subst hb; simpa using i.d
      · have hc' : sys.st.closed = false := by simpa using hc
        by_cases hl : sys.limbo = []
        · have := (flush_ok (i.s ha hc') (i.d0 hl) hc' ft).bases b hb
          simpa [hl] using this
        · obtain ⟨hr, hp⟩ := i.lim hl ha hc'
          rw [flushLocked_blocked _ _ _ hc' hr hp] at hb
          simp only [List.mem_singleton] at hb
          subst hb; simpa using i.d
    · simp only [ha, Bool.false_eq_true, ↓reduceIte, List.mem_singleton] at hb
      subst hb; simpa using i.d
  | close ft =>
    simp only [Sys.bases] at hb
    by_cases ha : sys.alive = true
    · simp only [ha, ↓reduceIte] at hb
      by_cases hc : sys.st.closed = true
      · rw [closeStore_closed _ _ _ hc] at hb
        simp only [List.mem_singleton] at hb
        subst hb; simpa using i.d
      · have hc' : sys.st.closed = false := by simpa using hc
        by_cases hl : sys.limbo = []
        · have := (close_ok (i.s ha hc') (i.d0 hl) hc' ft).1 b hb
          simpa [hl] using this
        · obtain ⟨hr, hp⟩ := i.lim hl ha hc'
          have hw : sys.st.writer = none := by
            cases h : sys.st.writer with
            | none => rfl
            | some n =>
              have := (i.s ha hc').wrr (by simp [h])
              rw [hr] at this; cases this
          unfold closeStore at hb
          simp only [hc', Bool.false_eq_true, ↓reduceIte, flushLocked_blocked _ _ _ hc' hr hp, hw,
            Outcome.committed, Bool.or_self, List.cons_append, List.nil_append, List.mem_cons,
            List.not_mem_nil, or_false, or_self] at hb
          subst hb; simpa using i.d
    · simp only [ha, Bool.false_eq_true, ↓reduceIte, List.mem_singleton] at hb
      subst hb; simpa using i.d
  | reopen =>
    simp only [Sys.bases] at hb
    split at hb
    · simp only [List.mem_singleton] at hb
      subst hb; simpa using i.d
    · simp only [List.mem_cons, List.not_mem_nil, or_false] at hb
      rcases hb with rfl | rfl
      · simpa using i.d
      · obtain ⟨s', d', ho, di', _, _⟩ := open_inv i.d
        rw [openStore_ok _ i.d.garb] at ho
        simp only [Except.ok.injEq, Prod.mk.injEq] at ho
        rw [← ho.2] at di'
        simpa using di'

theorem mergePrune_ne_nil (rs : List Rec) (h : Nat) (p : List Rec) (hm : mergePrune rs h = some p) : p ≠ [] := by
  induction rs generalizing p with
  | nil => cases hm
  | cons r rs ih =>
    cases r with
    | prune h' => simp only [mergePrune, Option.some.injEq] at hm; subst hm; simp
    | entry h' e =>
      simp only [mergePrune, Option.map_eq_some_iff] at hm
      obtain ⟨q, _, rfl⟩ := hm
      simp

theorem setEntry_blocked (s : Store) (h e : Nat) :
    (s.setEntry h e).1.repairRequired = s.repairRequired ∧ (s.pending ≠ [] → (s.setEntry h e).1.pending ≠ []) := by
  unfold Store.setEntry
  split
  · exact ⟨rfl, id⟩
  · split
    · exact ⟨rfl, id⟩
    · exact ⟨rfl, fun _ => by simp⟩

theorem deleteEntries_blocked (s : Store) (h : Nat) :
    (s.deleteEntries h).1.repairRequired = s.repairRequired ∧ (s.pending ≠ [] → (s.deleteEntries h).1.pending ≠ []) := by
  unfold Store.deleteEntries
  split
  · exact ⟨rfl, id⟩
  · split
    · exact ⟨rfl, id⟩
    · split
      · rename_i p hp
        exact ⟨rfl, fun _ => mergePrune_ne_nil _ _ _ hp⟩
      · exact ⟨rfl, fun _ => by simp⟩

/-- Every operation — with or without an injected failure — every crash and every restart
preserves the invariant. -/
theorem Inv.step {sys : Sys} (i : Inv sys) (op : Op) : Inv (sys.step op).1 := by
  cases op with
  | set h e =>
    simp only [Sys.step]
    by_cases ha : sys.alive = true
    · simp only [ha, Bool.not_true, Bool.false_eq_true, ↓reduceIte]
      by_cases hc : sys.st.closed = true
      · have : sys.st.setEntry h e = (sys.st, .closed) := by unfold Store.setEntry; simp [hc]
        rw [this]
        simp only [reduceCtorEq, ↓reduceIte]
        exact ⟨i.d, fun _ hcl => (by simp [hc] at hcl), i.rem, fun _ _ hcl => (by simp [hc] at hcl)⟩
      · have hc' : sys.st.closed = false := by simpa using hc
        obtain ⟨o, cl, si⟩ := setEntry_inv (i.s ha hc') hc' h e
        obtain ⟨b1, b2⟩ := setEntry_blocked sys.st h e
        refine ⟨i.d, ?_, i.rem, ?_⟩
        · intro _ _
          simp only [o, ↓reduceIte]
          exact si
        · intro hl _ _
          obtain ⟨hr, hp⟩ := i.lim hl ha hc'
          exact ⟨by rw [b1]; exact hr, b2 hp⟩
    · simp only [ha, Bool.not_false, ↓reduceIte]; exact i
  | del h =>
    simp only [Sys.step]
    by_cases ha : sys.alive = true
    · simp only [ha, Bool.not_true, Bool.false_eq_true, ↓reduceIte]
      by_cases hc : sys.st.closed = true
      · have : sys.st.deleteEntries h = (sys.st, .closed) := by unfold Store.deleteEntries; simp [hc]
        rw [this]
        simp only [reduceCtorEq, ↓reduceIte]
        exact ⟨i.d, fun _ hcl => (by simp [hc] at hcl), i.rem, fun _ _ hcl => (by simp [hc] at hcl)⟩
      · have hc' : sys.st.closed = false := by simpa using hc
        obtain ⟨o, cl, si⟩ := deleteEntries_inv (i.s ha hc') hc' h
        obtain ⟨b1, b2⟩ := deleteEntries_blocked sys.st h
        refine ⟨i.d, ?_, i.rem, ?_⟩
        · intro _ _
          simp only [o, ↓reduceIte]
          exact si
        · intro hl _ _
          obtain ⟨hr, hp⟩ := i.lim hl ha hc'
          exact ⟨by rw [b1]; exact hr, b2 hp⟩
    · simp only [ha, Bool.not_false, ↓reduceIte]; exact i
  | flush ft =>
    simp only [Sys.step]
    by_cases ha : sys.alive = true
    · simp only [ha, Bool.not_true, Bool.false_eq_true, ↓reduceIte]
      by_cases hc : sys.st.closed = true
      · rw [flushLocked_closed _ _ _ hc]
        simp only [Outcome.committed, Bool.false_eq_true, ↓reduceIte, List.append_nil]
        exact ⟨i.d, fun _ hcl => (by simp [hc] at hcl), i.rem, fun _ _ hcl => (by simp [hc] at hcl)⟩
      · have hc' : sys.st.closed = false := by simpa using hc
        by_cases hl : sys.limbo = []
        · have f := flush_ok (i.s ha hc') (i.d0 hl) hc' ft
          refine ⟨?_, fun _ hcl => f.sfin hcl, ?_, ?_⟩
          · show DInv _ ((if _ then _ else _) ++ (if _ then _ else _))
            cases hlm : (flushLocked sys.st sys.disk ft).limbo with
            | true =>
              have hd := f.dfin
              have ho := (f.lim hlm).1
              rw [hlm, ho] at hd
              rw [ho]
              simpa [Outcome.committed] using hd
            | false =>
              have hd := f.dfin
              rw [hlm] at hd
              simpa [hl] using hd
          · intro F hF
            rcases List.mem_append.mp hF with h | h
            · have := i.rem F h
              show Low (maxPrune (if _ then _ else _)) _
              split
              · exact this.mono_append
              · exact this
            · exact f.rem F h
          · intro hne _ _
            have hlm : (flushLocked sys.st sys.disk ft).limbo = true := by
              cases h : (flushLocked sys.st sys.disk ft).limbo with
              | true => rfl
              | false => exact absurd (by simp [h, hl]) hne
            obtain ⟨_, h2, h3, h4⟩ := f.lim hlm
            exact ⟨h2, by rw [h3]; exact h4⟩
        · obtain ⟨hr, hp⟩ := i.lim hl ha hc'
          rw [flushLocked_blocked _ _ _ hc' hr hp]
          simp only [Outcome.committed, Bool.false_eq_true, ↓reduceIte, List.append_nil]
          exact ⟨i.d, fun _ _ => i.s ha hc', i.rem, fun _ _ _ => ⟨hr, hp⟩⟩
    · simp only [ha, Bool.not_false, ↓reduceIte]; exact i
  | close ft =>
    simp only [Sys.step]
    by_cases ha : sys.alive = true
    · simp only [ha, Bool.not_true, Bool.false_eq_true, ↓reduceIte]
      by_cases hc : sys.st.closed = true
      · rw [closeStore_closed _ _ _ hc]
        simp only [hc, Bool.not_true, Bool.and_false, Bool.false_eq_true, ↓reduceIte, List.append_nil]
        exact ⟨i.d, fun _ hcl => (by simp [hc] at hcl), i.rem, fun _ _ hcl => (by simp [hc] at hcl)⟩
      · have hc' : sys.st.closed = false := by simpa using hc
        by_cases hl : sys.limbo = []
        · obtain ⟨_, df, rm, cl, lm⟩ := close_ok (i.s ha hc') (i.d0 hl) hc' ft
          simp only [hc', Bool.not_false, Bool.and_true]
          refine ⟨?_, fun _ hcl => (by rw [cl] at hcl; cases hcl), ?_, fun _ _ hcl => (by rw [cl] at hcl; cases hcl)⟩
          · show DInv _ ((if _ then _ else _) ++ (if _ then _ else _))
            cases hlm : (closeStore sys.st sys.disk ft).limbo with
            | true =>
              have ho := lm hlm
              rw [hlm, ho] at df
              rw [ho]
              simpa using df
            | false =>
              rw [hlm] at df
              simpa [hl] using df
          · intro F hF
            rcases List.mem_append.mp hF with h | h
            · have := i.rem F h
              show Low (maxPrune (if _ then _ else _)) _
              split
              · exact this.mono_append
              · exact this
            · exact rm F h
        · obtain ⟨hr, hp⟩ := i.lim hl ha hc'
          have hw : sys.st.writer = none := by
            cases h : sys.st.writer with
            | none => rfl
            | some n =>
              have := (i.s ha hc').wrr (by simp [h])
              rw [hr] at this; cases this
          have hcs : closeStore sys.st sys.disk ft =
              ⟨{ sys.st with closed := true, writer := none }, sys.disk, .errNotCommitted,
                [(sys.disk, false), (sys.disk, false), (sys.disk, false)], [], false⟩ := by
            unfold closeStore
            simp [hc', flushLocked_blocked _ _ _ hc' hr hp, hw, Outcome.committed]
          rw [hcs]
          simp only [Outcome.committed, Bool.false_and, Bool.false_eq_true, ↓reduceIte, List.append_nil]
          exact ⟨i.d, fun _ hcl => (by cases hcl), i.rem, fun _ _ hcl => (by cases hcl)⟩
    · simp only [ha, Bool.not_false, ↓reduceIte]; exact i
  | reopen =>
    simp only [Sys.step]
    split
    · exact i
    · obtain ⟨s', d', ho, di', si', cl'⟩ := open_inv i.d
      rw [ho]
      refine ⟨by simpa using di', fun _ _ => si', ?_, fun h => absurd rfl h⟩
      intro F hF
      exact (i.rem F hF).mono_append
  | crash c k mask alt =>
    simp only [Sys.step]
    cases hb : (sys.bases c)[k]? with
    | none => exact i
    | some b =>
      obtain ⟨bd, infl⟩ := b
      have hm : (bd, infl) ∈ sys.bases c := List.mem_of_getElem? hb
      have db := i.bases c (bd, infl) hm
      simp only at db ⊢
      refine ⟨by simpa using db.resurrect mask alt, fun h => (by cases h), ?_, fun h => absurd rfl h⟩
      intro F hF
      have := i.rem F hF
      show Low (maxPrune (if _ then _ else _)) _
      split
      · exact this.mono_append
      · exact this.mono_append

theorem inv_run (ops : List Op) : Inv (Sys.init.run ops) := by
  have key : ∀ (ops : List Op) (sys : Sys), Inv sys → Inv (sys.run ops) := by
    intro ops
    induction ops with
    | nil => intro sys i; exact i
    | cons o ops ih =>
      intro sys i
      exact ih _ (i.step o)
  exact key ops _ inv_init

theorem mem_images {sys : Sys} {c : COp} {img : Disk} {infl : Bool} (h : (img, infl) ∈ sys.images c) :
    ∃ b mask alt, (b, infl) ∈ sys.bases c ∧ img = b.resurrect mask alt := by
  unfold Sys.images at h
  obtain ⟨b, hb, hm⟩ := List.mem_flatMap.mp h
  obtain ⟨m, _, he⟩ := List.mem_flatMap.mp hm
  obtain ⟨alt, _, he'⟩ := List.mem_map.mp he
  simp only [Prod.mk.injEq] at he'
  obtain ⟨rfl, rfl⟩ := he'
  exact ⟨b.1, m, alt, hb, rfl⟩

end Juno.C14

namespace Juno.C14
open AMap

theorem ensureWriter_fields (s : Store) (d : Disk) :
    (ensureWriter s d).1.idx = s.idx ∧ (ensureWriter s d).1.pending = s.pending ∧
    (ensureWriter s d).1.closed = s.closed ∧ (ensureWriter s d).1.repairRequired = s.repairRequired := by
  unfold ensureWriter
  cases s.writer <;> simp

theorem cleanup_out_committed (s : Store) (d : Disk) (n : Nat) (ft : Fault) :
    (cleanup s d n ft).out ≠ .errNotCommitted := by
  unfold cleanup
  simp only
  split
  · simp
  · split <;> simp

/-- `flushLocked` without an injected failure on an open store whose writer is not blocked
returns `nil`. -/
theorem flush_none_ok (s : Store) (d : Disk) (hc : s.closed = false) (hr : s.repairRequired = false) :
    (flushLocked s d .none).out = .ok := by
  unfold flushLocked
  simp only [hc, hr, Bool.false_eq_true, ↓reduceIte, reduceCtorEq, decide_false, Bool.false_and]
  split
  · rfl
  · split
    · rfl
    · split
      · rfl
      · simp [cleanup, Fault.cleanupFails]

/-- A `flushLocked` that reports "not committed" changed neither the index nor the pending
records, and unlinked nothing. -/
theorem flush_not_committed (s : Store) (d : Disk) (ft : Fault) (hc : s.closed = false)
    (ho : (flushLocked s d ft).out = .errNotCommitted) :
    (flushLocked s d ft).st.idx = s.idx ∧ (flushLocked s d ft).st.pending = s.pending ∧
    (flushLocked s d ft).st.closed = false ∧ (flushLocked s d ft).removed = [] := by
  obtain ⟨e1, e2, e3, _⟩ := ensureWriter_fields s d
  unfold flushLocked at ho ⊢
  simp only [hc, Bool.false_eq_true, ↓reduceIte] at ho ⊢
  by_cases h1 : s.pending.isEmpty = true
  · simp [h1] at ho
  simp only [h1, Bool.false_eq_true, ↓reduceIte] at ho ⊢
  by_cases h2 : s.repairRequired = true
  · simp [h2, hc]
  simp only [h2, Bool.false_eq_true, ↓reduceIte] at ho ⊢
  by_cases h3 : (decide (ft = Fault.create) && s.writer.isNone) = true
  · simp [h3, hc]
  simp only [h3, Bool.false_eq_true, ↓reduceIte] at ho ⊢
  by_cases h4 : ft = Fault.append
  · simp [h4, e1, e2, e3, hc]
  simp only [h4, ↓reduceIte] at ho ⊢
  by_cases h5 : ft = Fault.appendNoRepair
  · simp [h5, e1, e2, e3, hc]
  simp only [h5, ↓reduceIte] at ho ⊢
  by_cases h5' : ft = Fault.appendFullNoRepair
  · simp [h5', e1, e2, e3, hc]
  simp only [h5', ↓reduceIte] at ho ⊢
  by_cases h6 : countPrunes s.pending = 0
  · simp [h6] at ho
  simp only [h6, ↓reduceIte] at ho ⊢
  by_cases h7 : s.sinceCleanup + countPrunes s.pending < cleanupInterval
  · simp [h7] at ho
  simp only [h7, ↓reduceIte] at ho ⊢
  by_cases h8 : ft = Fault.watermark
  · simp [h8] at ho
  simp only [h8, ↓reduceIte] at ho ⊢
  exact absurd ho (cleanup_out_committed _ _ _ _)

/-- the tags the driver prints are aligned with the durable states -/
theorem cleanupTags_length (s : Store) (d : Disk) (n : Nat) (ft : Fault) :
    (cleanupTags ft).length = (cleanup s d n ft).bases.length := by
  unfold cleanupTags cleanup
  simp only
  split <;> rfl

theorem flushTags_length (s : Store) (d : Disk) (ft : Fault) :
    (flushTags s ft).length = (flushLocked s d ft).bases.length := by
  unfold flushTags flushLocked
  by_cases h0 : s.closed = true
  · simp only [h0, ↓reduceIte]; rfl
  simp only [h0, Bool.false_eq_true, ↓reduceIte]
  by_cases h1 : s.pending.isEmpty = true
  · simp only [h1, ↓reduceIte]; rfl
  simp only [h1, Bool.false_eq_true, ↓reduceIte]
  by_cases h2 : s.repairRequired = true
  · simp only [h2, ↓reduceIte]; rfl
  simp only [h2, Bool.false_eq_true, ↓reduceIte]
  by_cases h3 : (decide (ft = Fault.create) && s.writer.isNone) = true
  · simp only [h3, ↓reduceIte]; rfl
  simp only [h3, Bool.false_eq_true, ↓reduceIte]
  by_cases h4 : ft = Fault.append
  · simp only [h4, ↓reduceIte]; rfl
  simp only [h4, ↓reduceIte]
  by_cases h5 : ft = Fault.appendNoRepair
  · simp only [h5, ↓reduceIte]; rfl
  simp only [h5, ↓reduceIte]
  by_cases h5' : ft = Fault.appendFullNoRepair
  · simp only [h5', ↓reduceIte]; rfl
  simp only [h5', ↓reduceIte]
  by_cases h6 : countPrunes s.pending = 0
  · simp only [h6, ↓reduceIte]; rfl
  simp only [h6, ↓reduceIte]
  by_cases h7 : s.sinceCleanup + countPrunes s.pending < cleanupInterval
  · simp only [h7, ↓reduceIte]; rfl
  simp only [h7, ↓reduceIte]
  by_cases h8 : ft = Fault.watermark
  · simp only [h8, ↓reduceIte]; rfl
  simp only [h8, ↓reduceIte, List.length_append]
  rw [← cleanupTags_length]
  rfl

theorem closeTags_length (s : Store) (d : Disk) (ft : Fault) :
    (closeTags s ft).length = (closeStore s d ft).bases.length := by
  unfold closeTags closeStore
  split
  · rfl
  · simp only [List.length_append, flushTags_length s d ft]
    rfl

theorem run_append (sys : Sys) (a b : List Op) : sys.run (a ++ b) = (sys.run a).run b := by
  simp [Sys.run, List.foldl_append]

/-- the acknowledged history only grows -/
theorem step_acked_prefix (sys : Sys) (op : Op) : ∃ t, (sys.step op).1.acked = sys.acked ++ t := by
  cases op with
  | set h e => simp only [Sys.step]; split <;> exact ⟨[], by simp⟩
  | del h => simp only [Sys.step]; split <;> exact ⟨[], by simp⟩
  | flush ft =>
    simp only [Sys.step]
    split
    · exact ⟨[], by simp⟩
    · simp only; split
      · exact ⟨_, rfl⟩
      · exact ⟨[], by simp⟩
  | close ft =>
    simp only [Sys.step]
    split
    · exact ⟨[], by simp⟩
    · simp only; split
      · exact ⟨_, rfl⟩
      · exact ⟨[], by simp⟩
  | reopen =>
    simp only [Sys.step]
    split
    · exact ⟨[], by simp⟩
    · split
      · exact ⟨_, rfl⟩
      · exact ⟨[], by simp⟩
  | crash c k m =>
    simp only [Sys.step]
    split
    · exact ⟨[], by simp⟩
    · simp only; split
      · exact ⟨_, rfl⟩
      · exact ⟨_, rfl⟩

theorem run_acked_prefix (sys : Sys) (ops : List Op) : ∃ t, (sys.run ops).acked = sys.acked ++ t := by
  induction ops generalizing sys with
  | nil => exact ⟨[], by simp [Sys.run]⟩
  | cons o ops ih =>
    obtain ⟨t1, h1⟩ := step_acked_prefix sys o
    obtain ⟨t2, h2⟩ := ih (sys.step o).1
    refine ⟨t1 ++ t2, ?_⟩
    have : sys.run (o :: ops) = (sys.step o).1.run ops := rfl
    rw [this, h2, h1, List.append_assoc]

/-- the two readings of `LoadSpec` agree: it pins the result down -/
theorem loadSpec_unique' (o₁ o₂ : List (Nat × List Nat)) (A : List Rec) (h₁ : LoadSpec o₁ A) (h₂ : LoadSpec o₂ A) :
    o₁ = o₂ := by
  apply ext_sorted o₁ o₂ h₁.sorted h₂.sorted
  intro k
  have e₁ := h₁.exact k
  have e₂ := h₂.exact k
  cases g₁ : get? o₁ k with
  | none =>
    cases g₂ : get? o₂ k with
    | none => rfl
    | some v₂ =>
      have := h₂.nonempty (k, v₂) (mem_of_get? _ _ _ g₂)
      rw [g₁] at e₁; rw [g₂] at e₂
      simp only [Option.getD_none, Option.getD_some] at e₁ e₂
      rw [← e₁] at e₂
      exact absurd e₂ this
  | some v₁ =>
    have n₁ := h₁.nonempty (k, v₁) (mem_of_get? _ _ _ g₁)
    cases g₂ : get? o₂ k with
    | none =>
      rw [g₁] at e₁; rw [g₂] at e₂
      simp only [Option.getD_none, Option.getD_some] at e₁ e₂
      rw [← e₂] at e₁
      exact absurd e₁ n₁
    | some v₂ =>
      rw [g₁] at e₁; rw [g₂] at e₂
      simp only [Option.getD_some] at e₁ e₂
      rw [e₁, e₂]

end Juno.C14
