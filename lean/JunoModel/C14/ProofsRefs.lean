import JunoModel.C14.ProofsDisk
/-! C14 — the reference counts (`walFilesByHeight`, `walHeightRefs`): a log that holds an entry
of an unpruned height is referenced, so the cleanup keeps it. -/
namespace Juno.C14
open AMap

/-- number of heights whose log set contains `f` -/
def cnt (f : Nat) : List (Nat × List Nat) → Nat
  | [] => 0
  | p :: m => (if f ∈ p.2 then 1 else 0) + cnt f m

def filesOf (x : Idx) (h : Nat) : List Nat := (get? x.filesBy h).getD []

theorem cnt_pos_of_mem (f : Nat) (m : List (Nat × List Nat)) (p : Nat × List Nat) (hp : p ∈ m) (hf : f ∈ p.2) :
    0 < cnt f m := by
  induction m with
  | nil => cases hp
  | cons q m ih =>
    rcases List.mem_cons.mp hp with rfl | h
    · simp only [cnt, hf, ↓reduceIte]; omega
    · have := ih h; simp only [cnt]; omega

theorem cnt_erase (f : Nat) (m : List (Nat × List Nat)) (k : Nat) (hs : Sorted m) :
    cnt f (erase m k) = cnt f m - (if f ∈ (get? m k).getD [] then 1 else 0) := by
  induction m with
  | nil => simp [erase, cnt]
  | cons q m ih =>
    obtain ⟨a, b⟩ := q
    have s := hs
    simp only [Sorted, keys, List.map_cons, List.pairwise_cons] at s
    by_cases hak : a = k
    · subst hak
      have hnot : a ∉ keys m := fun hm => by have := s.1 a hm; omega
      have hfil : erase ((a, b) :: m) a = m := by
        simp only [erase, List.filter_cons, bne_self_eq_false, Bool.false_eq_true, ↓reduceIte]
        apply List.filter_eq_self.mpr
        intro p hp
        have : p.1 ∈ keys m := List.mem_map_of_mem (f := (·.1)) hp
        have : p.1 ≠ a := fun c => hnot (c ▸ this)
        simp [this]
      rw [hfil]
      simp only [get?_cons, ↓reduceIte, Option.getD_some, cnt]
      split <;> omega
    · have hne : (a != k) = true := by simp [hak]
      have hka : k ≠ a := fun c => hak c.symm
      simp only [erase, List.filter_cons, hne, ↓reduceIte, cnt, get?_cons, hka] at ih ⊢
      rw [ih s.2]
      have : (if f ∈ (get? m k).getD [] then 1 else 0) ≤ cnt f m := by
        cases hg : get? m k with
        | none => simp
        | some v =>
          simp only [Option.getD_some]
          split
          · exact cnt_pos_of_mem f m (k, v) (mem_of_get? _ _ _ hg) (by assumption)
          · omega
      omega

theorem cnt_set (f : Nat) (m : List (Nat × List Nat)) (k : Nat) (v : List Nat) (hs : Sorted m) :
    cnt f (set m k v) + (if f ∈ (get? m k).getD [] then 1 else 0) = cnt f m + (if f ∈ v then 1 else 0) := by
  induction m with
  | nil => simp [AMap.set, cnt]
  | cons q m ih =>
    obtain ⟨a, b⟩ := q
    have s := hs
    simp only [Sorted, keys, List.map_cons, List.pairwise_cons] at s
    simp only [AMap.set]
    split
    · rename_i hlt
      have hka : k ≠ a := by omega
      have hnot : k ∉ keys m := fun hm => by have := s.1 k hm; omega
      simp only [cnt, get?_cons, hka, ↓reduceIte, get?_none_of_not_mem m k hnot, Option.getD_none, List.not_mem_nil]
      omega
    · split
      · subst_vars
        simp only [cnt, get?_cons, ↓reduceIte, Option.getD_some]
        omega
      · rename_i h1 h2
        simp only [cnt, get?_cons, h2, ↓reduceIte]
        have := ih s.2
        omega

/-- The part of the index invariant that concerns the reference counts. -/
structure Idx.RWF (x : Idx) : Prop where
  sortedF : Sorted x.filesBy
  nodupF : ∀ h fs, get? x.filesBy h = some fs → fs.Nodup
  refs : ∀ f, get? x.refs f = if cnt f x.filesBy = 0 then none else some (cnt f x.filesBy : Int)

theorem Idx.RWF.mem_refs {x : Idx} (w : x.RWF) (h f : Nat) (hf : f ∈ filesOf x h) : f ∈ keys x.refs := by
  unfold filesOf at hf
  cases hg : get? x.filesBy h with
  | none => simp [hg] at hf
  | some fs =>
    simp only [hg, Option.getD_some] at hf
    have hpos := cnt_pos_of_mem f x.filesBy (h, fs) (mem_of_get? _ _ _ hg) hf
    have := w.refs f
    have hne : cnt f x.filesBy ≠ 0 := by omega
    simp only [hne, ↓reduceIte] at this
    exact mem_keys_of_get? _ _ _ this

theorem empty_RWF (w : Nat) : ({ pruned := w } : Idx).RWF :=
  ⟨by simp [Sorted, keys], by simp, by simp [cnt]⟩

/-! #### addLiveEntry -/

theorem addLiveEntry_filesOf (x : Idx) (f h e h' : Nat) :
    filesOf (x.addLiveEntry f h e) h' =
      if h' = h ∧ f ∉ filesOf x h then filesOf x h ++ [f] else filesOf x h' := by
  unfold Idx.addLiveEntry filesOf
  simp only
  by_cases hc : ((get? x.filesBy h).getD []).contains f = true
  · simp only [hc, ↓reduceIte]
    have : f ∈ (get? x.filesBy h).getD [] := by simpa using hc
    simp [this]
  · simp only [hc, Bool.false_eq_true, ↓reduceIte, get?_set]
    have : f ∉ (get? x.filesBy h).getD [] := by simpa using hc
    by_cases e1 : h' = h
    · subst e1; simp [this]
    · simp [e1]

theorem addLiveEntry_RWF (x : Idx) (f h e : Nat) (w : x.RWF) : (x.addLiveEntry f h e).RWF := by
  unfold Idx.addLiveEntry
  simp only
  by_cases hc : ((get? x.filesBy h).getD []).contains f = true
  · simp only [hc, ↓reduceIte]
    exact ⟨w.sortedF, w.nodupF, w.refs⟩
  · simp only [hc, Bool.false_eq_true, ↓reduceIte]
    have hnot : f ∉ (get? x.filesBy h).getD [] := by simpa using hc
    refine ⟨sorted_set _ _ _ w.sortedF, ?_, ?_⟩
    · intro h' fs hg
      rw [get?_set] at hg
      split at hg
      · cases hg
        have nd : ((get? x.filesBy h).getD []).Nodup := by
          cases hg' : get? x.filesBy h with
          | none => simp
          | some v => simpa using w.nodupF h v hg'
        exact List.nodup_append.mpr ⟨nd, by simp, by
          intro a ha b hb
          simp only [List.mem_singleton] at hb
          subst hb
          exact fun c => hnot (c ▸ ha)⟩
      · exact w.nodupF h' fs hg
    · intro f'
      have hcnt := cnt_set f' x.filesBy h ((get? x.filesBy h).getD [] ++ [f]) w.sortedF
      rw [get?_set]
      have hr := w.refs f'
      by_cases e1 : f' = f
      · subst e1
        simp only [hnot, ↓reduceIte, List.mem_append, List.mem_singleton, or_true, Nat.add_zero] at hcnt
        simp only [↓reduceIte, hcnt]
        have hr' := w.refs f'
        by_cases hz : cnt f' x.filesBy = 0
        · simp [hz] at hr' ⊢; simp [hr']
        · simp only [hz, ↓reduceIte] at hr'
          simp [hr']
      · simp only [e1, ↓reduceIte]
        have : (if f' ∈ (get? x.filesBy h).getD [] ++ [f] then 1 else 0) = (if f' ∈ (get? x.filesBy h).getD [] then 1 else 0) := by
          simp [e1]
        rw [this] at hcnt
        have : cnt f' (set x.filesBy h ((get? x.filesBy h).getD [] ++ [f])) = cnt f' x.filesBy := by omega
        rw [this]; exact hr

/-! #### deleteLiveHeight -/

/-- what a decrement does to one count -/
def decOpt : Option Int → Option Int
  | some c => if c - 1 = 0 then none else some (c - 1)
  | none => some (-1)

theorem get?_decRef (refs : List (Nat × Int)) (f f' : Nat) :
    get? (decRef refs f) f' = if f' = f then decOpt (get? refs f) else get? refs f' := by
  unfold decRef
  simp only
  cases hg : get? refs f with
  | none =>
    have : ((none : Option Int).getD 0 - 1 = 0) = False := by simp
    simp only [this, ↓reduceIte, get?_set, decOpt]
    split <;> simp
  | some c =>
    simp only [Option.getD_some, decOpt]
    by_cases hc : c - 1 = 0
    · simp only [hc, ↓reduceIte, get?_erase]
    · simp only [hc, ↓reduceIte, get?_set]

theorem get?_foldl_decRef (fs : List Nat) (nd : fs.Nodup) (refs : List (Nat × Int)) (f' : Nat) :
    get? (fs.foldl decRef refs) f' = if f' ∈ fs then decOpt (get? refs f') else get? refs f' := by
  induction fs generalizing refs with
  | nil => simp
  | cons f fs ih =>
    have nd' := List.nodup_cons.mp nd
    simp only [List.foldl_cons]
    rw [ih nd'.2, get?_decRef]
    by_cases e1 : f' = f
    · subst e1
      simp [nd'.1]
    · by_cases e2 : f' ∈ fs
      · simp [e1, e2]
      · simp [e1, e2]

theorem deleteLiveHeight_filesBy (x : Idx) (h : Nat) : (x.deleteLiveHeight h).filesBy = erase x.filesBy h := rfl

theorem deleteLiveHeight_RWF (x : Idx) (h : Nat) (w : x.RWF) : (x.deleteLiveHeight h).RWF := by
  unfold Idx.deleteLiveHeight
  simp only
  refine ⟨sorted_erase _ _ w.sortedF, ?_, ?_⟩
  · intro h' fs hg
    rw [get?_erase] at hg
    split at hg
    · cases hg
    · exact w.nodupF h' fs hg
  · intro f'
    have nd : ((get? x.filesBy h).getD []).Nodup := by
      cases hg' : get? x.filesBy h with
      | none => simp
      | some v => simpa using w.nodupF h v hg'
    rw [get?_foldl_decRef _ nd, cnt_erase f' x.filesBy h w.sortedF, w.refs f']
    by_cases hm : f' ∈ (get? x.filesBy h).getD []
    · simp only [hm, ↓reduceIte]
      have hpos : 0 < cnt f' x.filesBy := by
        cases hg' : get? x.filesBy h with
        | none => simp [hg'] at hm
        | some v =>
          simp only [hg', Option.getD_some] at hm
          exact cnt_pos_of_mem f' x.filesBy (h, v) (mem_of_get? _ _ _ hg') hm
      have hne : cnt f' x.filesBy ≠ 0 := by omega
      simp only [hne, ↓reduceIte, decOpt]
      by_cases h1 : cnt f' x.filesBy = 1
      · simp [h1]
      · have : cnt f' x.filesBy - 1 ≠ 0 := by omega
        have h2 : ¬ ((cnt f' x.filesBy : Int) - 1 = 0) := by omega
        simp only [h2, ↓reduceIte, this]
        congr 1
        omega
    · simp [hm]

/-! #### pruneUpTo, applyRec -/

theorem pruneLoop_RWF (h : Nat) (ks : List Nat) (y : Idx) (w : y.RWF) : (pruneLoop h ks y).RWF := by
  induction ks generalizing y with
  | nil => exact w
  | cons k ks ih =>
    simp only [pruneLoop, List.foldl_cons] at ih ⊢
    apply ih
    split
    · exact deleteLiveHeight_RWF y k w
    · exact w

theorem pruneLoop_filesOf (h : Nat) (ks : List Nat) (y : Idx) (h' : Nat) (hh : h < h') :
    filesOf (pruneLoop h ks y) h' = filesOf y h' := by
  induction ks generalizing y with
  | nil => rfl
  | cons k ks ih =>
    simp only [pruneLoop, List.foldl_cons] at ih ⊢
    rw [ih]
    split
    · rename_i hk
      unfold filesOf
      rw [deleteLiveHeight_filesBy, get?_erase]
      have : h' ≠ k := by omega
      simp [this]
    · rfl

theorem pruneUpTo_RWF (x : Idx) (h : Nat) (w : x.RWF) : (x.pruneUpTo h).RWF := by
  unfold Idx.pruneUpTo
  split
  · exact w
  · exact pruneLoop_RWF h _ _ ⟨w.sortedF, w.nodupF, w.refs⟩

theorem pruneUpTo_filesOf (x : Idx) (h h' : Nat) (hh : (x.pruneUpTo h).pruned < h') :
    filesOf (x.pruneUpTo h) h' = filesOf x h' := by
  rw [pruneUpTo_pruned] at hh
  unfold Idx.pruneUpTo
  split
  · rfl
  · have := pruneLoop_filesOf h (keys x.entries) { x with pruned := h } h' (by omega)
    simp only [pruneLoop] at this
    rw [this]; rfl

theorem applyRec_RWF (x : Idx) (f : Nat) (r : Rec) (w : x.RWF) : (x.applyRec f r).RWF := by
  cases r with
  | entry h e =>
    simp only [Idx.applyRec]
    split
    · exact w
    · exact addLiveEntry_RWF x f h e w
  | prune h => exact pruneUpTo_RWF x h w

theorem applyRec_pruned_mono (x : Idx) (f : Nat) (r : Rec) : x.pruned ≤ (x.applyRec f r).pruned := by
  cases r with
  | entry h e =>
    simp only [Idx.applyRec]
    split
    · exact Nat.le_refl _
    · rw [addLiveEntry_pruned]; exact Nat.le_refl _
  | prune h => simp only [Idx.applyRec, pruneUpTo_pruned]; omega

/-! #### the logs cover the index -/

/-- `ps`: every record on disk with the number of the log it is in. Every entry of a height
above the watermark is in a log its height references; every prune is at or below the
watermark. -/
structure Covers (x : Idx) (ps : List (Nat × Rec)) : Prop where
  ents : ∀ n h e, (n, Rec.entry h e) ∈ ps → x.pruned < h → n ∈ filesOf x h
  prunes : ∀ n h, (n, Rec.prune h) ∈ ps → h ≤ x.pruned

theorem Covers.step {x : Idx} {ps : List (Nat × Rec)} (c : Covers x ps) (n : Nat) (r : Rec) :
    Covers (x.applyRec n r) (ps ++ [(n, r)]) := by
  have hmono := applyRec_pruned_mono x n r
  constructor
  · intro n' h e hm hh
    have hold : ∀ n' h e, (n', Rec.entry h e) ∈ ps → (x.applyRec n r).pruned < h → n' ∈ filesOf (x.applyRec n r) h := by
      intro n' h e hm hh
      have h0 := c.ents n' h e hm (by omega)
      cases r with
      | entry h2 e2 =>
        simp only [Idx.applyRec] at hh ⊢
        split
        · exact h0
        · rw [addLiveEntry_filesOf]
          split
          · rename_i hc
            rw [hc.1] at h0
            exact List.mem_append_left _ h0
          · exact h0
      | prune h2 =>
        simp only [Idx.applyRec] at hh ⊢
        rw [pruneUpTo_filesOf x h2 h hh]
        exact h0
    rcases List.mem_append.mp hm with h1 | h1
    · exact hold n' h e h1 hh
    · simp only [List.mem_singleton, Prod.mk.injEq] at h1
      obtain ⟨rfl, rfl⟩ := h1
      simp only [Idx.applyRec] at hh ⊢
      split
      · rename_i hle
        simp only [hle, ↓reduceIte] at hh
        omega
      · rw [addLiveEntry_filesOf]
        by_cases hc : n' ∈ filesOf x h
        · simp [hc]
        · simp [hc]
  · intro n' h hm
    rcases List.mem_append.mp hm with h1 | h1
    · have := c.prunes n' h h1; omega
    · simp only [List.mem_singleton, Prod.mk.injEq] at h1
      obtain ⟨rfl, rfl⟩ := h1
      simp only [Idx.applyRec, pruneUpTo_pruned]; omega

theorem Covers.steps {x : Idx} {ps : List (Nat × Rec)} (c : Covers x ps) (n : Nat) (rs : List Rec) :
    Covers (x.applyRecs n rs) (ps ++ rs.map (n, ·)) := by
  induction rs generalizing x ps with
  | nil => simpa [Idx.applyRecs] using c
  | cons r rs ih =>
    have := ih (c.step n r)
    simpa [Idx.applyRecs, List.append_assoc] using this

theorem applyRecs_RWF (x : Idx) (f : Nat) (rs : List Rec) (w : x.RWF) : (x.applyRecs f rs).RWF := by
  induction rs generalizing x with
  | nil => exact w
  | cons r rs ih => exact ih _ (applyRec_RWF x f r w)

/-- every record of the logs with the number of its log -/
def pairsOf (fs : List LogFile) : List (Nat × Rec) := fs.flatMap (fun F => (recsOfFile F).map (F.num, ·))

theorem replayFiles_RWF (x : Idx) (fs : List LogFile) (hs : ∀ f ∈ fs, SeqOK f) (w : x.RWF) : (replayFiles x fs).RWF := by
  induction fs generalizing x with
  | nil => exact w
  | cons f fs ih =>
    simp only [replayFiles, List.foldl_cons]
    apply ih _ (fun g hg => hs g (List.mem_cons_of_mem _ hg))
    rw [replayFile_eq _ _ (hs f List.mem_cons_self)]
    exact applyRecs_RWF x f.num _ w

theorem replayFiles_covers (x : Idx) (fs : List LogFile) (hs : ∀ f ∈ fs, SeqOK f) (ps : List (Nat × Rec)) (c : Covers x ps) :
    Covers (replayFiles x fs) (ps ++ pairsOf fs) := by
  induction fs generalizing x ps with
  | nil => simpa [replayFiles, pairsOf] using c
  | cons f fs ih =>
    have hstep : replayFiles x (f :: fs) = replayFiles (replayFile x f) fs := rfl
    rw [hstep, replayFile_eq _ _ (hs f List.mem_cons_self)]
    have := ih _ (fun g hg => hs g (List.mem_cons_of_mem _ hg)) _ (c.steps f.num (recsOfFile f))
    simpa [pairsOf, List.append_assoc] using this

/-- `cleanupObsoleteWALs` computes a bound that is at most every referenced log number. -/
theorem foldl_min_le (ks : List Nat) (m0 : Nat) : ks.foldl min m0 ≤ m0 ∧ ∀ k ∈ ks, ks.foldl min m0 ≤ k := by
  induction ks generalizing m0 with
  | nil => simp
  | cons k ks ih =>
    simp only [List.foldl_cons]
    obtain ⟨h1, h2⟩ := ih (min m0 k)
    refine ⟨by omega, ?_⟩
    intro k' hk'
    rcases List.mem_cons.mp hk' with rfl | h
    · omega
    · exact h2 k' h

/-- gc-safety at the level of the index: a log below `minLive` holds nothing above the watermark. -/
theorem dead_is_low (s : Store) (ps : List (Nat × Rec)) (w : s.idx.RWF) (c : Covers s.idx ps)
    (n : Nat) (hn : n < s.minLive) (r : Rec) (hr : (n, r) ∈ ps) : r.height ≤ s.idx.pruned := by
  cases r with
  | prune h => exact c.prunes n h hr
  | entry h e =>
    simp only [Rec.height]
    by_cases hh : h ≤ s.idx.pruned
    · exact hh
    · exfalso
      have hm := c.ents n h e hr (by omega)
      have hk := w.mem_refs h n hm
      unfold Store.minLive at hn
      simp only at hn
      exact Nat.lt_irrefl _ (Nat.lt_of_lt_of_le hn ((foldl_min_le _ _).2 n hk))

end Juno.C14
