import JunoModel.C14.Model
import JunoModel.C14.Codec
/-
C14 — byte-level model of the layer between the record payload codec and the log files:

* `codec.go: encodeBatch, putFixedUvarint32` — the batch a Flush hands to Pebble's WAL writer:
  `[seqNum:8 LE][count:4 LE]` then per record `[kind=Set:1][keyLen=4:1][key: record index, 4 BE]
  [valueLen: FIVE-byte uvarint][payload]`;
* `replay.go: applyEncodedBatch` with Pebble's `batchrepr.ReadHeader / Read / Reader.Next / DecodeStr`
  (v2.1.6) — how a restart takes such a batch apart again, including every error class and the
  panic `DecodeStr` runs into when a varint runs past the end of the batch (it reads through an
  unsafe pointer and then slices `data[n:]` with `n > len(data)`; an empty `data` panics at
  `&data[0]`);
* `wal/reader.go: virtualWALReader.NextRecord` — a record shorter than a batch header is
  corruption; a batch with `Count == 0` or a sequence number not above the last one returned is
  skipped silently;
* `replay.go: loadLogicalLog / loadExistingEntries` over the complete records of the logs;
* `prune_watermark.go: writePruneWatermark / loadPruneWatermark` — the bytes of the watermark file.

Pebble's chunk framing of records inside the 32 KiB blocks of a log (`record.LogWriter`) stays
abstract: a log is the list of its complete records.

Core Lean only: linked into the driver (`encbatch`, `batch`, `readlog`, `wmenc`, `wmdec`).
-/
namespace Juno.C14.Batch
open Juno.C14 Juno.C14.Codec

/-! ### encoding (`encodeBatch`) -/

/-- `putFixedUvarint32`: `byte(v)|0x80`, `byte(v>>7)|0x80`, `byte(v>>14)|0x80`, `byte(v>>21)|0x80`,
`byte(v>>28)` (`x | 0x80` of a byte = `x % 128 + 128`). -/
def putFixedUvarint32 (v : Nat) : List UInt8 :=
  [by8 (v % 128 + 128), by8 (v / 128 % 128 + 128), by8 (v / 16384 % 128 + 128), by8 (v / 2097152 % 128 + 128),
   by8 (v / 268435456)]

/-- `binary.LittleEndian.PutUint32` -/
def le32 (n : Nat) : List UInt8 := [by8 n, by8 (n / 256), by8 (n / 65536), by8 (n / 16777216)]

/-- `binary.BigEndian.PutUint32` -/
def be32 (n : Nat) : List UInt8 := [by8 (n / 16777216), by8 (n / 65536), by8 (n / 256), by8 n]

/-- `pebble.InternalKeyKindSet` -/
def kindSet : UInt8 := 1

/-- one record of the batch: `[kind][keyLen = 4][key = index, big endian][valueLen][payload]` -/
def encodeRecord (i : Nat) (payload : List UInt8) : List UInt8 :=
  kindSet :: 4 :: (be32 i ++ putFixedUvarint32 payload.length ++ payload)

def encodeRecords : Nat → List (List UInt8) → List UInt8
  | _, [] => []
  | i, p :: ps => encodeRecord i p ++ encodeRecords (i + 1) ps

/-- `encodeBatch(records, seqNum, _)` over the already encoded payloads of the records. -/
def encodeBatch (seq : Nat) (payloads : List (List UInt8)) : List UInt8 :=
  le64 seq ++ le32 payloads.length ++ encodeRecords 0 payloads

/-! ### decoding (`batchrepr`, `applyEncodedBatch`) -/

inductive Str where
  | ok (s rest : List UInt8)
  | invalid          -- the length exceeds what is left: `ok = false`
  | panic            -- the varint (or `&data[0]`) runs past the end of the slice
  deriving DecidableEq, Repr

/-- `data = data[n:]; if v > len(data) { return false }; return data[v:], data[:v]` -/
def cut (v : Nat) (data : List UInt8) : Str :=
  if v > data.length then .invalid else .ok (data.take v) (data.drop v)

/-- `batchrepr.DecodeStr`: a uvarint32 length (1 to 5 bytes; the fifth byte is taken whole and
shifted inside a uint32) followed by that many bytes. -/
def decodeStr : List UInt8 → Str
  | [] => .panic
  | a :: r =>
    if a.toNat < 128 then cut a.toNat r
    else match r with
    | [] => .panic
    | b :: r =>
      let a := a.toNat % 128
      if b.toNat < 128 then cut (b.toNat * 128 + a) r
      else match r with
      | [] => .panic
      | c :: r =>
        let b := b.toNat % 128
        if c.toNat < 128 then cut (c.toNat * 16384 + b * 128 + a) r
        else match r with
        | [] => .panic
        | d :: r =>
          let c := c.toNat % 128
          if d.toNat < 128 then cut (d.toNat * 2097152 + c * 16384 + b * 128 + a) r
          else match r with
          | [] => .panic
          | e :: r =>
            let d := d.toNat % 128
            cut (e.toNat * 268435456 % 4294967296 + d * 2097152 + c * 16384 + b * 128 + a) r

/-- `base.InternalKeyKindMax` -/
def kindMax : Nat := 24

/-- the kinds whose entry carries a value after the key (`Reader.Next`): Set, Merge, RangeDelete,
RangeKeySet, RangeKeyUnset, RangeKeyDelete, DeleteSized, Excise -/
def kindHasValue (k : Nat) : Bool :=
  k == 1 || k == 2 || k == 15 || k == 21 || k == 20 || k == 19 || k == 23 || k == 24

inductive NextRes where
  | done
  | item (kind : UInt8) (key value rest : List UInt8)
  | err
  | panic
  deriving DecidableEq, Repr

/-- `batchrepr.Reader.Next` -/
def next : List UInt8 → NextRes
  | [] => .done
  | k :: r =>
    if k.toNat > kindMax then .err
    else match decodeStr r with
    | .panic => .panic
    | .invalid => .err
    | .ok key rest =>
      if kindHasValue k.toNat then
        match decodeStr rest with
        | .panic => .panic
        | .invalid => .err
        | .ok v rest' => .item k key v rest'
      else .item k key [] rest

/-- how reading one record of a log can fail -/
inductive RecErr where
  | corruptHeader   -- `virtualWALReader`: the record is shorter than a batch header
  | missingHeader   -- `applyEncodedBatch: missing batch header` (shadowed by the reader's check)
  | iter            -- `applyEncodedBatch: iterate batch record`
  | count           -- `… batch header count %d does not match record count %d`
  | kind            -- `… unexpected batch key kind`
  | decode          -- `applyEncodedRecord: decode WAL envelope`
  | panic           -- `batchrepr.DecodeStr` indexes / slices out of range
  deriving DecidableEq, Repr

/-- `ReadHeader`: sequence number and count -/
def readHeader (bs : List UInt8) : Option (Nat × Nat) :=
  if bs.length < 12 then none
  else match rd64 bs with
    | some (seq, r) =>
      match r with
      | a :: b :: c :: d :: _ => some (seq, a.toNat + 256 * (b.toNat + 256 * (c.toNat + 256 * d.toNat)))
      | _ => none
    | none => none

/-- the loop of `applyEncodedBatch` (`fuel`: every entry uses up at least one byte). The records are
decoded one by one (`applyEncodedRecord`); the first failure ends the open. -/
def applyLoop : Nat → List UInt8 → Nat → Nat → List Payload → Except RecErr (List Payload)
  | 0, _, _, _, _ => .error .iter
  | fuel + 1, r, seen, count, acc =>
    match next r with
    | .panic => .error .panic
    | .err => .error .iter
    | .done => if seen ≠ count then .error .count else .ok acc.reverse
    | .item k _ v rest =>
      if k ≠ kindSet then .error .kind
      else match Codec.decode v with
        | none => .error .decode
        | some p => applyLoop fuel rest (seen + 1) count (p :: acc)

/-- `applyEncodedBatch`: header, then every entry. Yields sequence number, count and the decoded
records in order. -/
def applyBatch (bs : List UInt8) : Except RecErr (Nat × Nat × List Payload) :=
  match readHeader bs with
  | none => .error .missingHeader
  | some (seq, count) =>
    -- `batchrepr.Read`: nothing after the header gives the nil reader
    match applyLoop (bs.length + 1) (bs.drop 12) 0 count [] with
    | .ok ps => .ok (seq, count, ps)
    | .error e => .error e

/-- `loadLogicalLog` over the complete records of ONE log, with the filter of
`virtualWALReader.NextRecord` (`last`: the sequence number of the last batch it returned):
the batches that reach `applyEncodedBatch`, each with its sequence number. -/
def readLog : Nat → List (List UInt8) → Except RecErr (List (Nat × List Payload))
  | _, [] => .ok []
  | last, r :: rs =>
    match readHeader r with
    | none => .error .corruptHeader
    | some (seq, count) =>
      if count = 0 || decide (seq ≤ last) then readLog last rs
      else match applyBatch r with
        | .error e => .error e
        | .ok (_, _, ps) =>
          match readLog seq rs with
          | .error e => .error e
          | .ok out => .ok ((seq, ps) :: out)

/-- the error of a result, if any (for stating examples; `Except` has no decidable equality) -/
def errOf {ε α : Type} : Except ε α → Option ε
  | .error e => some e
  | .ok _ => none

/-! ### composition with the log model (`Model.lean`) -/

/-- the abstract record the log model replays: height and a name for the payload -/
def toRec (name : Payload → Nat) : Payload → Rec
  | .prune h => .prune h
  | p => .entry p.height (name p)

/-- a log file of the model from the bytes of its records, when they can be read -/
def fileOfRecords (name : Payload → Nat) (num : Nat) (records : List (List UInt8)) : Except RecErr LogFile :=
  match readLog 0 records with
  | .error e => .error e
  | .ok bs => .ok { num := num, batches := bs.map (fun b => b.2.map (toRec name)), seqs := bs.map (·.1) }

/-- `nextBatchSeqNum` after a restart: `applyEncodedBatch` raises it to `SeqNum + Count` (uint64
arithmetic: it wraps) of every batch it is handed -/
def nextSeqAfter (m : Nat) (bs : List (Nat × List Payload)) : Nat :=
  bs.foldl (fun m b => max m ((b.1 + b.2.length) % 18446744073709551616)) m

/-! ### `NewTendermintWALStore` over the records of all logs -/

/-- `loadExistingEntries`: the logs in order, each through its own reader -/
def readLogs : List (Nat × List (List UInt8)) → Except RecErr (List (Nat × List (Nat × List Payload)))
  | [] => .ok []
  | (n, rs) :: ls =>
    match readLog 0 rs with
    | .error e => .error e
    | .ok bs =>
      match readLogs ls with
      | .error e => .error e
      | .ok out => .ok ((n, bs) :: out)

/-- the records of one batch as the abstract records of the log model, an entry named by its
position `i, i+1, …` among all records replayed -/
def recsAt : Nat → List Payload → List Rec
  | _, [] => []
  | i, .prune h :: ps => .prune h :: recsAt (i + 1) ps
  | i, p :: ps => .entry p.height i :: recsAt (i + 1) ps

structure Replay where
  idx : Idx
  /-- `nextBatchSeqNum` -/
  nextSeq : Nat := 1
  /-- every record replayed so far, in order -/
  all : List Payload := []

/-- `applyEncodedBatch` on the index: the sequence number bookkeeping, then record by record -/
def Replay.batch (r : Replay) (num : Nat) (b : Nat × List Payload) : Replay :=
  { idx := r.idx.applyRecs num (recsAt r.all.length b.2), nextSeq := max r.nextSeq ((b.1 + b.2.length) % 18446744073709551616),
    all := r.all ++ b.2 }

/-- What `NewTendermintWALStore` makes of a directory whose logs hold the given complete records and
whose watermark file says `wm`: `recoverLatestWALTail` reads the latest log to its end first (a record
shorter than a batch header is the one error it can meet there), then `loadExistingEntries`. -/
def openLogs (wm : Nat) (logs : List (Nat × List (List UInt8))) : Except RecErr Replay :=
  if (logs.getLast?.map (fun l => l.2.any (fun r => decide (r.length < 12)))).getD false then .error .corruptHeader
  else match readLogs logs with
    | .error e => .error e
    | .ok ls =>
      .ok (ls.foldl (fun r l => l.2.foldl (fun r b => r.batch l.1 b) r) { idx := { pruned := wm } })

/-- `LoadAllEntries` of the store `openLogs` built: the replayed records that are still live, by height -/
def Replay.load (r : Replay) : List Payload :=
  (r.idx.entries.flatMap (·.2)).filterMap (fun i => r.all[i]?)

/-! ### the prune watermark file (`prune_watermark.go`) -/

/-- `pruneWatermarkHeader` = "juno-wal-prune-watermark-v1" -/
def wmHeader : List UInt8 :=
  [106, 117, 110, 111, 45, 119, 97, 108, 45, 112, 114, 117, 110, 101, 45, 119, 97, 116, 101, 114, 109, 97, 114, 107,
   45, 118, 49]

/-- `binary.BigEndian.PutUint64` -/
def be64 (n : Nat) : List UInt8 :=
  [by8 (n / 72057594037927936), by8 (n / 281474976710656), by8 (n / 1099511627776), by8 (n / 4294967296),
   by8 (n / 16777216), by8 (n / 65536), by8 (n / 256), by8 n]

/-- `binary.BigEndian.Uint64` -/
def rdBE64 : List UInt8 → Nat
  | a :: b :: c :: d :: e :: f :: g :: h :: _ =>
    h.toNat + 256 * (g.toNat + 256 * (f.toNat + 256 * (e.toNat + 256 * (d.toNat + 256 *
      (c.toNat + 256 * (b.toNat + 256 * a.toNat))))))
  | _ => 0

/-- the bytes `writePruneWatermark` puts into the temporary file -/
def wmEncode (h : Nat) : List UInt8 := wmHeader ++ be64 h

inductive WmErr where
  | size     -- `loadPruneWatermark: invalid watermark size`
  | header   -- `loadPruneWatermark: invalid watermark header`
  deriving DecidableEq, Repr

/-- `pruneWatermarkSize` -/
def wmSize : Nat := 35

/-- `loadPruneWatermark` on the content of the file -/
def wmDecode (bs : List UInt8) : Except WmErr Nat :=
  if bs.length ≠ wmSize then .error .size
  else if bs.take 27 ≠ wmHeader then .error .header
  else .ok (rdBE64 (bs.drop 27))

/-- `loadPruneWatermark`: no file means "nothing pruned" -/
def loadWatermark : Option (List UInt8) → Except WmErr Nat
  | none => .ok 0
  | some bs => wmDecode bs

end Juno.C14.Batch
