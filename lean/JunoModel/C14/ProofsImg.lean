import JunoModel.C14.ProofsRefs
/-! C14 — the directory invariant and why every crash image of a directory that satisfies it
reopens to the acknowledged history. -/
namespace Juno.C14
open AMap

/-- log numbers strictly ascending (the order of `wal.Scan`) -/
def numsAsc (fs : List LogFile) : Prop := (fs.map (·.num)).Pairwise (· < ·)

theorem numsAsc_append_last {pre : List LogFile} {F : LogFile} (h : numsAsc (pre ++ [F])) :
    numsAsc pre ∧ ∀ G ∈ pre, G.num < F.num := by
  unfold numsAsc at *
  rw [List.map_append, List.pairwise_append] at h
  refine ⟨h.1, ?_⟩
  intro G hG
  exact h.2.2 G.num (List.mem_map_of_mem (f := (·.num)) hG) F.num (by simp)

theorem numsAsc_snoc {pre : List LogFile} {F : LogFile} (h : numsAsc pre) (hlt : ∀ G ∈ pre, G.num < F.num) :
    numsAsc (pre ++ [F]) := by
  unfold numsAsc at *
  rw [List.map_append, List.pairwise_append]
  refine ⟨h, by simp, ?_⟩
  intro a ha b hb
  simp only [List.map_cons, List.map_nil, List.mem_singleton] at hb
  subst hb
  obtain ⟨G, hG, rfl⟩ := List.mem_map.mp ha
  exact hlt G hG

/-- updating "the log numbered `F.num`" touches only the last log -/
theorem map_upd_last (pre : List LogFile) (F : LogFile) (g : LogFile → LogFile)
    (h : ∀ G ∈ pre, G.num < F.num) :
    (pre ++ [F]).map (fun f => if f.num = F.num then g f else f) = pre ++ [g F] := by
  rw [List.map_append]
  congr 1
  · have : pre.map (fun f => if f.num = F.num then g f else f) = pre.map id := by
      apply List.map_congr_left
      intro G hG
      have := h G hG
      have : G.num ≠ F.num := by omega
      simp [this]
    rw [this, List.map_id]
  · simp

theorem recsOf_snoc (pre : List LogFile) (F : LogFile) : recsOf (pre ++ [F]) = recsOf pre ++ recsOfFile F := by
  simp [recsOf]

theorem pairsOf_snoc (pre : List LogFile) (F : LogFile) :
    pairsOf (pre ++ [F]) = pairsOf pre ++ (recsOfFile F).map (F.num, ·) := by
  simp [pairsOf]

/-- On an ascending list the logs below a bound are a prefix. -/
theorem asc_filter_split (fs : List LogFile) (m : Nat) (h : numsAsc fs) :
    fs = fs.filter (fun f => decide (f.num < m)) ++ fs.filter (fun f => !decide (f.num < m)) := by
  induction fs with
  | nil => rfl
  | cons F fs ih =>
    have h' : numsAsc fs := by unfold numsAsc at *; exact (List.pairwise_cons.mp h).2
    have hF : ∀ G ∈ fs, F.num < G.num := by
      intro G hG
      unfold numsAsc at h
      exact (List.pairwise_cons.mp h).1 G.num (List.mem_map_of_mem (f := (·.num)) hG)
    by_cases hlt : F.num < m
    · simp only [List.filter_cons, hlt, decide_true, ↓reduceIte, Bool.not_true, Bool.false_eq_true, List.cons_append]
      congr 1
      exact ih h'
    · have hnone : fs.filter (fun f => decide (f.num < m)) = [] := by
        apply List.filter_eq_nil_iff.mpr
        intro G hG
        have := hF G hG
        simp; omega
      have hall : fs.filter (fun f => !decide (f.num < m)) = fs := by
        apply List.filter_eq_self.mpr
        intro G hG
        have := hF G hG
        simp; omega
      simp [hlt, hnone, hall]

/-! #### resurrection -/

theorem mem_insertFile (z : LogFile) (fs : List LogFile) (G : LogFile) (hG : G ∈ insertFile z fs) : G = z ∨ G ∈ fs := by
  induction fs with
  | nil => simp [insertFile] at hG; exact Or.inl hG
  | cons F' fs ih' =>
    simp only [insertFile] at hG
    split at hG
    · rcases List.mem_cons.mp hG with rfl | hG
      · exact Or.inl rfl
      · exact Or.inr hG
    · split at hG
      · exact Or.inr hG
      · rcases List.mem_cons.mp hG with rfl | hG
        · exact Or.inr List.mem_cons_self
        · rcases ih' hG with h | h
          · exact Or.inl h
          · exact Or.inr (List.mem_cons_of_mem _ h)

theorem numsAsc_insertFile (z : LogFile) (fs : List LogFile) (h : numsAsc fs) : numsAsc (insertFile z fs) := by
  induction fs with
  | nil => simp [insertFile, numsAsc]
  | cons F fs ih =>
    have h' : numsAsc fs := by unfold numsAsc at *; exact (List.pairwise_cons.mp h).2
    have hF : ∀ x ∈ fs.map (·.num), F.num < x := by
      unfold numsAsc at h; exact (List.pairwise_cons.mp h).1
    simp only [insertFile]
    split
    · rename_i hlt
      unfold numsAsc at *
      simp only [List.map_cons, List.pairwise_cons, List.mem_cons] at h ⊢
      refine ⟨?_, h⟩
      intro x hx
      rcases hx with rfl | hx
      · exact hlt
      · have := hF x hx; omega
    · split
      · exact h
      · rename_i h1 h2
        have := ih h'
        unfold numsAsc at *
        simp only [List.map_cons, List.pairwise_cons]
        refine ⟨?_, this⟩
        intro x hx
        obtain ⟨G, hG, rfl⟩ := List.mem_map.mp hx
        rcases mem_insertFile z fs G hG with rfl | hG'
        · omega
        · exact hF G.num (List.mem_map_of_mem (f := (·.num)) hG')

/-- A log whose records are all at or below the watermark changes nothing a reader sees above
the watermark, wherever the directory order puts it. -/
theorem insertFile_sees (w : Nat) (z : LogFile) (fs : List LogFile) (l : Low w (recsOfFile z)) :
    maxPrune (recsOf fs) ≤ maxPrune (recsOf (insertFile z fs)) ∧
    maxPrune (recsOf (insertFile z fs)) ≤ max w (maxPrune (recsOf fs)) ∧
    ∀ h, w < h → entriesOf h (recsOf (insertFile z fs)) = entriesOf h (recsOf fs) := by
  induction fs with
  | nil =>
    have := l.maxPrune_le
    simp only [insertFile, recsOf, List.flatMap_cons, List.flatMap_nil, List.append_nil, maxPrune]
    refine ⟨by omega, by omega, ?_⟩
    intro h hh
    simp [l.entriesOf_nil h hh, entriesOf]
  | cons F fs ih =>
    obtain ⟨i1, i2, i3⟩ := ih
    have := l.maxPrune_le
    simp only [insertFile]
    split
    · simp only [recsOf_cons, maxPrune_append] at *
      refine ⟨by omega, by omega, ?_⟩
      intro h hh
      simp [entriesOf_append, l.entriesOf_nil h hh]
    · split
      · refine ⟨Nat.le_refl _, by omega, fun _ _ => rfl⟩
      · simp only [recsOf_cons, maxPrune_append] at *
        refine ⟨by omega, by omega, ?_⟩
        intro h hh
        simp [entriesOf_append, i3 h hh]

theorem Presents.insertFile {w : Nat} {fs : List LogFile} {A : List Rec} (z : LogFile)
    (p : Presents w (recsOf fs) A) (l : Low w (recsOfFile z)) : Presents w (recsOf (insertFile z fs)) A := by
  obtain ⟨i1, i2, i3⟩ := insertFile_sees w z fs l
  have hw := p.wm
  refine ⟨by omega, ?_⟩
  intro h hh
  rw [i3 h (by omega)]
  exact p.ents h hh

theorem mem_pick {α : Type} (mask : List Bool) (zs : List α) (a : α) (h : a ∈ pick mask zs) : a ∈ zs := by
  induction zs generalizing mask with
  | nil => cases mask with
    | nil => simp [pick] at h
    | cons b m => cases b <;> simp [pick] at h
  | cons z zs ih =>
    cases mask with
    | nil => simp [pick] at h
    | cons b m =>
      cases b
      · simp only [pick] at h; exact List.mem_cons_of_mem _ (ih m h)
      · simp only [pick, List.mem_cons] at h
        rcases h with rfl | h
        · exact List.mem_cons_self
        · exact List.mem_cons_of_mem _ (ih m h)

/-- What must hold of a directory for the history `A`. -/
structure DInv (d : Disk) (A : List Rec) : Prop where
  asc : numsAsc d.files
  garb : GarbageOnlyLast d.files
  zgarb : (∃ f ∈ d.files, f.garbage = true) → d.zombies = []
  zclean : ∀ z ∈ d.zombies, z.garbage = false
  pres : Presents d.wmVal (recsOf d.files) A
  zlow : Low d.wmVal (recsOf d.zombies)
  /-- the same for the watermark a crash may bring back -/
  presAlt : ∀ w ∈ d.wmAlt, Presents (w.getD 0) (recsOf d.files) A
  zlowAlt : ∀ w ∈ d.wmAlt, Low (w.getD 0) (recsOf d.zombies)
  /-- sequence numbers are well-formed in every log: Pebble's reader skips no batch -/
  seq : ∀ f ∈ d.files, SeqOK f
  zseq : ∀ z ∈ d.zombies, SeqOK z

theorem low_of_mem_recsOf {w : Nat} {zs : List LogFile} (l : Low w (recsOf zs)) (z : LogFile) (hz : z ∈ zs) :
    Low w (recsOfFile z) := by
  intro r hr
  apply l r
  unfold recsOf
  exact List.mem_flatMap.mpr ⟨z, hz, hr⟩

theorem foldr_insertFile_inv (w : Nat) (A : List Rec) (zs fs : List LogFile)
    (hz : ∀ z ∈ zs, Low w (recsOfFile z) ∧ z.garbage = false)
    (ha : numsAsc fs) (hp : Presents w (recsOf fs) A) (hg : ∀ f ∈ fs, f.garbage = false) :
    numsAsc (zs.foldr insertFile fs) ∧ Presents w (recsOf (zs.foldr insertFile fs)) A ∧
      ∀ f ∈ zs.foldr insertFile fs, f.garbage = false := by
  induction zs with
  | nil => exact ⟨ha, hp, hg⟩
  | cons z zs ih =>
    obtain ⟨i1, i2, i3⟩ := ih (fun z' hz' => hz z' (List.mem_cons_of_mem _ hz'))
    simp only [List.foldr_cons]
    refine ⟨numsAsc_insertFile z _ i1, i2.insertFile z (hz z List.mem_cons_self).1, ?_⟩
    intro f hf
    rcases mem_insertFile z _ f hf with rfl | h
    · exact (hz _ List.mem_cons_self).2
    · exact i3 f h

theorem mem_foldr_insertFile (zs fs : List LogFile) (f : LogFile) (h : f ∈ zs.foldr insertFile fs) : f ∈ zs ∨ f ∈ fs := by
  induction zs with
  | nil => exact Or.inr h
  | cons z zs ih =>
    simp only [List.foldr_cons] at h
    rcases mem_insertFile z _ f h with rfl | h'
    · exact Or.inl List.mem_cons_self
    · rcases ih h' with h'' | h''
      · exact Or.inl (List.mem_cons_of_mem _ h'')
      · exact Or.inr h''

theorem garbageOnlyLast_of_clean (fs : List LogFile) (h : ∀ f ∈ fs, f.garbage = false) : GarbageOnlyLast fs :=
  fun f hf => h f ((List.dropLast_sublist fs).subset hf)

/-- The invariant survives a crash: with any subset of the unlinked logs back (and an undurable
watermark rename undone or not), the directory still satisfies it, and nothing is pending any more. -/
theorem DInv.resurrect {d : Disk} {A : List Rec} (i : DInv d A) (mask : List Bool) (alt : Nat) :
    DInv (d.resurrect mask alt) A := by
  -- the watermark the image ends up with, and what is known about it
  have hw : ∃ w, (d.resurrect mask alt).wm = w ∧ Presents (w.getD 0) (recsOf d.files) A ∧
      Low (w.getD 0) (recsOf d.zombies) := by
    cases alt with
    | zero => exact ⟨d.wm, rfl, i.pres, i.zlow⟩
    | succ k =>
      cases ha : d.wmAlt[k]? with
      | none => exact ⟨d.wm, by simp [Disk.resurrect, ha], i.pres, i.zlow⟩
      | some w =>
        have hm : w ∈ d.wmAlt := List.mem_of_getElem? ha
        exact ⟨w, by simp [Disk.resurrect, ha], i.presAlt w hm, i.zlowAlt w hm⟩
  obtain ⟨w, hwm, hp, hl⟩ := hw
  have hwv : (d.resurrect mask alt).wmVal = w.getD 0 := by unfold Disk.wmVal; rw [hwm]
  by_cases hz : d.zombies = []
  · have hf : (d.resurrect mask alt).files = d.files := by
      unfold Disk.resurrect
      rw [hz]
      cases mask with
      | nil => simp [pick]
      | cons b m => cases b <;> simp [pick]
    refine ⟨by rw [hf]; exact i.asc, by rw [hf]; exact i.garb, fun _ => rfl, by simp [Disk.resurrect], ?_, ?_, ?_, ?_,
      by rw [hf]; exact i.seq, by simp [Disk.resurrect]⟩
    · rw [hwv, hf]; exact hp
    · simp [Disk.resurrect, recsOf, Low]
    · intro w' hw'; simp [Disk.resurrect] at hw'
    · intro w' hw'; simp [Disk.resurrect] at hw'
  · have hclean : ∀ f ∈ d.files, f.garbage = false := by
      intro f hf
      cases hg : f.garbage with
      | false => rfl
      | true => exact absurd (i.zgarb ⟨f, hf, hg⟩) hz
    have hzs : ∀ z ∈ pick mask d.zombies, Low (w.getD 0) (recsOfFile z) ∧ z.garbage = false := by
      intro z hzm
      have := mem_pick mask d.zombies z hzm
      exact ⟨low_of_mem_recsOf hl z this, i.zclean z this⟩
    obtain ⟨j1, j2, j3⟩ := foldr_insertFile_inv (w.getD 0) A (pick mask d.zombies) d.files hzs i.asc hp hclean
    refine ⟨j1, garbageOnlyLast_of_clean _ j3, fun _ => rfl, by simp [Disk.resurrect], ?_, ?_, ?_, ?_, ?_,
      by simp [Disk.resurrect]⟩
    · rw [hwv]; exact j2
    · simp [Disk.resurrect, recsOf, Low]
    · intro w' hw'; simp [Disk.resurrect] at hw'
    · intro w' hw'; simp [Disk.resurrect] at hw'
    · intro f hf
      rcases mem_foldr_insertFile _ _ f hf with h | h
      · exact i.zseq f (mem_pick mask d.zombies f h)
      · exact i.seq f h

/-- Every crash image of a directory that satisfies the invariant for `A` reopens without
error and `LoadAllEntries` yields exactly `A`. -/
theorem DInv.image_good {d : Disk} {A : List Rec} (i : DInv d A) (mask : List Bool) (alt : Nat) :
    ∃ out, recover (d.resurrect mask alt) = .ok out ∧ LoadSpec out A := by
  have j := i.resurrect mask alt
  exact recover_of_presents _ A j.garb j.seq j.pres

end Juno.C14
