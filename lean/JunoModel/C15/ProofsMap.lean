import JunoModel.C15.ProofsOrder
/-! Finite-map lemmas: `get` after `put`/`del`/`delRange`, sortedness is preserved. -/
namespace Juno.C15

variable {α : Type}

@[simp] theorem SMap.get_nil (k : Key) : SMap.get ([] : SMap α) k = none := rfl
@[simp] theorem SMap.get_cons (k' : Key) (v : α) (r : SMap α) (k : Key) :
    SMap.get ((k', v) :: r) k = if k' = k then some v else SMap.get r k := rfl

theorem SMap.get_put (m : SMap α) (k : Key) (v : α) (k' : Key) :
    (m.put k v).get k' = if k = k' then some v else m.get k' := by
  induction m with
  | nil => simp [SMap.put, SMap.get]
  | cons x r ih =>
    obtain ⟨kx, vx⟩ := x
    simp only [SMap.put]
    by_cases h1 : lexLt k kx = true
    · simp [h1, SMap.get]
    · simp only [h1, if_false]
      by_cases h2 : k = kx
      · subst h2
        simp only [if_true, SMap.get]
        by_cases h3 : k = k' <;> simp [h3]
      · simp only [h2, if_false, SMap.get, ih]
        by_cases h3 : kx = k'
        · subst h3; simp [h2]
        · simp [h3, ih]

theorem SMap.get_filter (m : SMap α) (f : Key → Bool) (k : Key) :
    SMap.get (m.filter (fun x => f x.1)) k = if f k then m.get k else none := by
  induction m with
  | nil => simp [SMap.get]
  | cons x r ih =>
    obtain ⟨kx, vx⟩ := x
    simp only [List.filter]
    by_cases hk : kx = k
    · subst hk
      cases hf : f kx <;> simp [hf, SMap.get, ih]
    · cases hf : f kx <;> simp [hf, SMap.get, ih, hk]

theorem SMap.get_del (m : SMap α) (k k' : Key) :
    (m.del k).get k' = if k = k' then none else m.get k' := by
  unfold SMap.del
  rw [SMap.get_filter m (fun x => !(x == k)) k']
  by_cases h : k = k'
  · subst h; simp
  · have : ¬ k' = k := fun e => h e.symm
    simp [h, this]

theorem SMap.get_delRange (m : SMap α) (s e k : Key) :
    (m.delRange s e).get k = if inRange s e k then none else m.get k := by
  unfold SMap.delRange
  rw [SMap.get_filter m (fun x => !(inRange s e x)) k]
  cases inRange s e k <;> simp

/-- strictly increasing keys -/
def Sorted (m : SMap α) : Prop := m.Pairwise (fun a b => lexLt a.1 b.1 = true)

theorem Sorted.nil : Sorted ([] : SMap α) := List.Pairwise.nil

theorem Sorted.filter {m : SMap α} (h : Sorted m) (f : Key × α → Bool) : Sorted (m.filter f) :=
  List.Pairwise.filter _ h

theorem Sorted.del {m : SMap α} (h : Sorted m) (k : Key) : Sorted (m.del k) := h.filter _
theorem Sorted.delRange {m : SMap α} (h : Sorted m) (s e : Key) : Sorted (m.delRange s e) := h.filter _

theorem SMap.mem_put {m : SMap α} {k : Key} {v : α} {x : Key × α} (hx : x ∈ m.put k v) :
    x = (k, v) ∨ x ∈ m := by
  induction m with
  | nil => simp [SMap.put] at hx; exact Or.inl hx
  | cons y r ih =>
    obtain ⟨ky, vy⟩ := y
    simp only [SMap.put] at hx
    by_cases h1 : lexLt k ky = true
    · rw [if_pos h1] at hx
      rcases List.mem_cons.mp hx with h | h
      · exact Or.inl h
      · exact Or.inr h
    · rw [if_neg h1] at hx
      by_cases h2 : k = ky
      · rw [if_pos h2] at hx
        rcases List.mem_cons.mp hx with h | h
        · exact Or.inl h
        · exact Or.inr (List.mem_cons_of_mem _ h)
      · rw [if_neg h2] at hx
        rcases List.mem_cons.mp hx with h | h
        · exact Or.inr (by rw [h]; exact List.mem_cons_self)
        · rcases ih h with h' | h'
          · exact Or.inl h'
          · exact Or.inr (List.mem_cons_of_mem _ h')

theorem Sorted.put {m : SMap α} (h : Sorted m) (k : Key) (v : α) : Sorted (m.put k v) := by
  induction m with
  | nil => simp [SMap.put, Sorted]
  | cons y r ih =>
    obtain ⟨ky, vy⟩ := y
    have hr : Sorted r := (List.pairwise_cons.mp h).2
    have hy : ∀ x ∈ r, lexLt ky x.1 = true := (List.pairwise_cons.mp h).1
    simp only [SMap.put]
    by_cases h1 : lexLt k ky = true
    · simp only [h1, if_true]
      refine List.pairwise_cons.mpr ⟨?_, h⟩
      intro x hx
      rcases List.mem_cons.mp hx with e | e
      · subst e; exact h1
      · exact lexLt_trans _ _ _ h1 (hy x e)
    · simp only [h1, if_false]
      by_cases h2 : k = ky
      · subst h2
        simp only [if_true]
        exact List.pairwise_cons.mpr ⟨hy, hr⟩
      · simp only [h2, if_false]
        refine List.pairwise_cons.mpr ⟨?_, ih hr⟩
        intro x hx
        rcases SMap.mem_put hx with e | e
        · subst e
          have h1' : lexLt k ky = false := by simpa using h1
          cases h3 : lexLt ky k
          · exact absurd (lexLt_total k ky h1' h3) h2
          · rfl
        · exact hy x e

/-- membership and lookup agree on sorted maps -/
theorem Sorted.get_eq_some {m : SMap α} (h : Sorted m) (k : Key) (v : α) :
    m.get k = some v ↔ (k, v) ∈ m := by
  induction m with
  | nil => simp [SMap.get]
  | cons y r ih =>
    obtain ⟨ky, vy⟩ := y
    have hr : Sorted r := (List.pairwise_cons.mp h).2
    have hy : ∀ x ∈ r, lexLt ky x.1 = true := (List.pairwise_cons.mp h).1
    simp only [SMap.get, List.mem_cons]
    by_cases hk : ky = k
    · subst hk
      simp only [if_true]
      constructor
      · intro e; cases e; exact Or.inl rfl
      · intro e
        rcases e with e | e
        · cases e; rfl
        · exact absurd rfl (lexLt_ne (hy _ e))
    · simp only [hk, if_false, ih hr]
      constructor
      · exact Or.inr
      · intro e
        rcases e with e | e
        · cases e; exact absurd rfl hk
        · exact e

end Juno.C15
