import JunoModel.C15.ProofsMap
/-! Batches: db/memory's `writes`/`writeMap`/materialised `DeleteRange` against the op log. -/
namespace Juno.C15

/-- the last write to `k` in a `writes` list -/
def lastWrite : List MWrite → Key → Option MWrite
  | [], _ => none
  | w :: rest, k =>
    match lastWrite rest k with
    | some x => some x
    | none => if w.key = k then some w else none

/-- what a write makes visible -/
def MWrite.view (w : MWrite) : Option Val := if w.delete then none else some w.value

theorem lastWrite_append (ws : List MWrite) (w : MWrite) (k : Key) :
    lastWrite (ws ++ [w]) k = if w.key = k then some w else lastWrite ws k := by
  induction ws with
  | nil => simp [lastWrite]
  | cons x r ih =>
    simp only [List.cons_append, lastWrite, ih]
    by_cases h : w.key = k
    · simp [h]
    · simp [h]

theorem MWrite.apply_get (d : KV) (w : MWrite) (k : Key) :
    (w.apply d).get k = if w.key = k then w.view else d.get k := by
  unfold MWrite.apply MWrite.view
  cases hd : w.delete
  · simp [SMap.get_put]
  · simp [SMap.get_del]

theorem foldl_apply_get (ws : List MWrite) (d : KV) (k : Key) :
    (ws.foldl MWrite.apply d).get k =
      match lastWrite ws k with
      | some w => w.view
      | none => d.get k := by
  induction ws generalizing d with
  | nil => simp [lastWrite]
  | cons w r ih =>
    simp only [List.foldl_cons, ih, lastWrite]
    cases h : lastWrite r k with
    | some x => simp
    | none =>
      simp only [MWrite.apply_get]
      by_cases hk : w.key = k <;> simp [hk]

/-- `writeMap` holds, for every key, the last entry of `writes` for that key -/
def wmOK (b : MBatch) : Prop := ∀ k, b.writeMap.get k = lastWrite b.writes k

theorem wmOK_empty : wmOK ⟨[], [], 0⟩ := fun _ => rfl

theorem wmOK_put {b : MBatch} (h : wmOK b) (k : Key) (v : Val) : wmOK (b.put k v) := by
  intro k'
  simp only [MBatch.put, SMap.get_put, lastWrite_append, h k']

theorem wmOK_del {b : MBatch} (h : wmOK b) (k : Key) : wmOK (b.del k) := by
  intro k'
  simp only [MBatch.del, SMap.get_put, lastWrite_append, h k']

/-- reads through an indexed batch see the batch's own writes over the store: `batch.Get` (write
map first, then the store) is the lookup in the store with the batch applied. -/
theorem mbget_eq_flush {b : MBatch} (h : wmOK b) (d : KV) (k : Key) :
    b.get d k = (b.flush d).get k := by
  unfold MBatch.get MBatch.flush
  rw [foldl_apply_get, h k]
  cases lastWrite b.writes k with
  | none => rfl
  | some w => simp [MWrite.view]

theorem flush_put (b : MBatch) (d : KV) (k : Key) (v : Val) :
    (b.put k v).flush d = (b.flush d).put k v := by
  simp [MBatch.flush, MBatch.put, List.foldl_append, MWrite.apply]

theorem flush_del (b : MBatch) (d : KV) (k : Key) :
    (b.del k).flush d = (b.flush d).del k := by
  simp [MBatch.flush, MBatch.del, List.foldl_append, MWrite.apply]

theorem applyLog_append (d : KV) (log : List LogOp) (o : LogOp) :
    applyLog d (log ++ [o]) = o.apply (applyLog d log) := by
  simp [applyLog, List.foldl_append]

theorem sorted_applyLog {d : KV} (h : Sorted d) (log : List LogOp) : Sorted (applyLog d log) := by
  induction log generalizing d with
  | nil => exact h
  | cons o r ih =>
    simp only [applyLog, List.foldl_cons]
    apply ih
    cases o <;> simp only [LogOp.apply]
    · exact h.put _ _
    · exact h.del _
    · exact h.delRange _ _

theorem sorted_flush {d : KV} (h : Sorted d) (b : MBatch) : Sorted (b.flush d) := by
  unfold MBatch.flush
  generalize b.writes = ws
  induction ws generalizing d with
  | nil => exact h
  | cons w r ih =>
    simp only [List.foldl_cons]
    apply ih
    unfold MWrite.apply
    cases w.delete
    · exact h.put _ _
    · exact h.del _

/-! ### the materialised DeleteRange -/

theorem foldl_del_flush (ks : KV) (b : MBatch) (d : KV) :
    (ks.foldl (fun b x => b.del x.1) b).flush d = ks.foldl (fun m x => m.del x.1) (b.flush d) := by
  induction ks generalizing b with
  | nil => rfl
  | cons x r ih => simp only [List.foldl_cons, ih, flush_del]

theorem foldl_del_wmOK (ks : KV) {b : MBatch} (h : wmOK b) :
    wmOK (ks.foldl (fun b x => b.del x.1) b) := by
  induction ks generalizing b with
  | nil => exact h
  | cons x r ih => exact ih (wmOK_del h _)

/-- deleting, one by one, the keys selected by a predicate on keys = filtering them out -/
theorem foldl_del_filter (c : KV) (P : Key → Bool) :
    (c.filter (fun x => P x.1)).foldl (fun m x => m.del x.1) c = c.filter (fun x => !P x.1) := by
  have gen : ∀ (ks m : KV), (∀ y ∈ ks, P y.1 = true) →
      (∀ x ∈ m, P x.1 = true → ∃ y ∈ ks, y.1 = x.1) →
      ks.foldl (fun m x => m.del x.1) m = m.filter (fun x => !P x.1) := by
    intro ks
    induction ks with
    | nil =>
      intro m _ h2
      simp only [List.foldl_nil]
      symm
      apply List.filter_eq_self.mpr
      intro x hx
      cases hp : P x.1
      · rfl
      · obtain ⟨y, hy, _⟩ := h2 x hx hp
        cases hy
    | cons y r ih =>
      intro m h1 h2
      simp only [List.foldl_cons]
      rw [ih (m.del y.1)]
      · unfold SMap.del
        rw [List.filter_filter]
        apply List.filter_congr
        intro x _
        have hy : P y.1 = true := h1 y List.mem_cons_self
        by_cases e : x.1 = y.1
        · simp [e, hy]
        · simp [e]
      · intro z hz; exact h1 z (List.mem_cons_of_mem _ hz)
      · intro x hx hp
        unfold SMap.del at hx
        have hx' := List.mem_filter.mp hx
        obtain ⟨z, hz, e⟩ := h2 x hx'.1 hp
        rcases List.mem_cons.mp hz with e' | e'
        · subst e'
          have : (x.1 == z.1) = false := by simpa using hx'.2
          simp [e] at this
        · exact ⟨z, e', e⟩
  apply gen
  · intro y hy; exact (List.mem_filter.mp hy).2
  · intro x hx hp; exact ⟨x, List.mem_filter.mpr ⟨hx, hp⟩, rfl⟩

/-- on a sorted list whose keys are all `>= s`: "while key < e" = "keys in [s, e)" -/
theorem takeWhile_eq_filter_of_ge (s e : Key) (l : KV) (hs : Sorted l)
    (hge : ∀ x ∈ l, lexLe s x.1 = true) :
    l.takeWhile (fun x => lexLt x.1 e) = l.filter (fun x => inRange s e x.1) := by
  induction l with
  | nil => rfl
  | cons x r ih =>
    have hr : Sorted r := (List.pairwise_cons.mp hs).2
    have hx : ∀ y ∈ r, lexLt x.1 y.1 = true := (List.pairwise_cons.mp hs).1
    have hsx : lexLe s x.1 = true := hge x List.mem_cons_self
    have hger : ∀ y ∈ r, lexLe s y.1 = true := fun y hy => hge y (List.mem_cons_of_mem _ hy)
    cases hlt : lexLt x.1 e
    · -- x >= e: everything after is >= e too
      have : r.filter (fun y => inRange s e y.1) = [] := by
        apply List.filter_eq_nil_iff.mpr
        intro y hy
        have h1 : lexLe e x.1 = true := by simp [lexLe, hlt]
        have h2 : lexLt e y.1 = true := lexLt_of_le_of_lt h1 (hx y hy)
        simp [inRange, lexLt_asymm _ _ h2]
      rw [List.takeWhile_cons, List.filter_cons]
      simp only [hlt, inRange, Bool.and_false, Bool.false_eq_true, if_false]
      exact this.symm
    · rw [List.takeWhile_cons, List.filter_cons]
      simp only [hlt, inRange, hsx, Bool.and_self, if_true, ih hr hger]

/-- the keys `batch.DeleteRange` visits (seek to `s`, continue while `< e`) are the keys in range -/
theorem rangeKeys_eq_filter (s e : Key) (c : KV) (hs : Sorted c) :
    (c.drop (seekIdx s c)).takeWhile (fun x => lexLt x.1 e) = c.filter (fun x => inRange s e x.1) := by
  induction c with
  | nil => rfl
  | cons x r ih =>
    obtain ⟨k, v⟩ := x
    have hr : Sorted r := (List.pairwise_cons.mp hs).2
    have hx : ∀ y ∈ r, lexLt k y.1 = true := (List.pairwise_cons.mp hs).1
    cases hle : lexLe s k
    · -- k < s: skipped by the seek, not in range
      simp only [seekIdx, hle, Bool.false_eq_true, if_false, List.drop_succ_cons]
      rw [ih hr, List.filter_cons]
      simp only [inRange, hle, Bool.false_and, Bool.false_eq_true, if_false]
    · simp only [seekIdx, hle, if_true, List.drop_zero]
      apply takeWhile_eq_filter_of_ge s e _ hs
      intro y hy
      rcases List.mem_cons.mp hy with e' | e'
      · subst e'; exact hle
      · exact lexLe_of_lt (lexLt_of_le_of_lt hle (hx y e'))

theorem memBound_nil_false (k : Key) : memBound [] false k = true := by
  simp [memBound, lexLe_nil]

theorem seekIdx_le (t : Key) (c : KV) : seekIdx t c ≤ c.length := by
  induction c with
  | nil => simp [seekIdx]
  | cons x r ih =>
    obtain ⟨k, v⟩ := x
    simp only [seekIdx, List.length_cons]
    split <;> omega

theorem delLoop_eq (e : Key) (c : KV) :
    ∀ (fuel j : Nat) (b : MBatch) (pos : Bool), j ≤ c.length → c.length - j < fuel →
      memDelRangeLoop e fuel ⟨c, (j : Int), pos⟩ (decide (j < c.length)) b =
        ((c.drop j).takeWhile (fun x => lexLt x.1 e)).foldl (fun b x => b.del x.1) b := by
  intro fuel
  induction fuel with
  | zero => intro j b pos _ h; omega
  | succ f ih =>
    intro j b pos hj hf
    by_cases hlt : j < c.length
    · have hvalid : (⟨c, (j : Int), pos⟩ : MIter).valid = true := by
        simp [MIter.valid]; omega
      have hkv : (⟨c, (j : Int), pos⟩ : MIter).kv = some c[j] := by
        simp [MIter.kv, hvalid, List.getElem?_eq_getElem hlt]
      have hdrop : c.drop j = c[j] :: c.drop (j + 1) := (List.drop_eq_getElem_cons hlt)
      simp only [memDelRangeLoop, hlt, decide_true, if_true, hkv]
      rw [hdrop]
      cases hk : lexLt c[j].1 e
      · simp [lexLe, hk, List.takeWhile]
      · have hnext : (MIter.next ⟨c, (j : Int), pos⟩) =
            (⟨c, ((j + 1 : Nat) : Int), true⟩, decide (j + 1 < c.length)) := by
          have h1 : ((j : Int) < (c.length : Int)) := by omega
          have h2 : (decide (0 ≤ (j : Int) + 1) && decide ((j : Int) + 1 < (c.length : Int))) =
              decide (j + 1 < c.length) := by
            rw [Bool.eq_iff_iff]; simp only [Bool.and_eq_true, decide_eq_true_eq]; omega
          simp only [MIter.next, MIter.valid, h1, if_true, h2]
          simp
        simp only [lexLe, hk, Bool.not_true, if_false, hnext, List.takeWhile, List.foldl_cons]
        exact ih (j + 1) _ true (by omega) (by omega)
    · have : j = c.length := by omega
      subst this
      simp [memDelRangeLoop, List.drop_length]

/-- `batch.DeleteRange` of db/memory: what gets recorded -/
theorem mDelRange_eq (d : KV) (b : MBatch) (s e : Key) (hd : Sorted d) :
    b.delRange d s e =
      ((b.flush d).filter (fun x => inRange s e x.1)).foldl (fun b x => b.del x.1) b := by
  have hc := sorted_flush hd b
  unfold MBatch.delRange
  simp only [MIter.mk', MIter.seek]
  have hkeys : (b.flush d).filter (fun x => memBound [] false x.1) = b.flush d := by
    apply List.filter_eq_self.mpr
    intro x _; exact memBound_nil_false x.1
  simp only [hkeys]
  have := delLoop_eq e (b.flush d) ((b.flush d).length + 1) (seekIdx s (b.flush d)) b true
    (seekIdx_le _ _) (by omega)
  rw [this, rangeKeys_eq_filter s e _ hc]

theorem flush_mDelRange (d : KV) (b : MBatch) (s e : Key) (hd : Sorted d) :
    (b.delRange d s e).flush d = (b.flush d).delRange s e := by
  rw [mDelRange_eq d b s e hd, foldl_del_flush, foldl_del_filter]
  rfl

theorem wmOK_mDelRange (d : KV) {b : MBatch} (h : wmOK b) (s e : Key) (hd : Sorted d) :
    wmOK (b.delRange d s e) := by
  rw [mDelRange_eq d b s e hd]
  exact foldl_del_wmOK _ h

end Juno.C15
