/-
C15 — model of juno's key/value store contract (db/database.go, db/batch.go, db/iterator.go,
db/snapshot.go, db/memory/*, db/dbutils/bound.go).
Core Lean only: this file is linked into the driver executable.

Two implementations of one interface (`Impl`) are given:
* `specImpl` — the contract: ordered map, batch = op log applied at `Write`, iterator = range
  `[prefix, UpperBound(prefix))` with positions unpositioned / before / at i / after.
  This is what the Pebble wrappers are compared against.
* `memImpl cfg` — a transcription of `db/memory`: batch = ordered `writes` list + `writeMap`,
  `DeleteRange` on a batch materialised at call time through an iterator over a flushed copy,
  iterator = key list + `curInd` integer arithmetic (−1 … len(keys) and beyond).
  `cfg` switches the four places where the code as it is today leaves the contract (see `Cfg`);
  the harness probes the real code and tells the driver which variant it is looking at.

A Go `map[string][]byte` is modelled as the canonical finite map (association list sorted by
key), so `sort.Strings` over the collected keys is the identity in the model.
-/
namespace Juno.C15

abbrev Key := List UInt8
abbrev Val := List UInt8

/-- Lexicographic `<` on byte strings (Go's `bytes.Compare(a, b) < 0`, string `<`). -/
def lexLt : Key → Key → Bool
  | [], [] => false
  | [], _ :: _ => true
  | _ :: _, [] => false
  | a :: as, b :: bs => if a < b then true else if b < a then false else lexLt as bs

/-- `bytes.Compare(a, b) <= 0`. -/
def lexLe (a b : Key) : Bool := !lexLt b a

/-- `strings.HasPrefix(k, p)` / `bytes.HasPrefix`. -/
def hasPrefix : Key → Key → Bool
  | _, [] => true
  | [], _ :: _ => false
  | k :: ks, p :: ps => k == p && hasPrefix ks ps

/-- `dbutils.UpperBound`: the shortest byte string greater than every string with prefix `p`;
`none` is Go's `nil` (prefix empty or all `0xff`: there is no such bound). -/
def upperBound : Key → Option Key
  | [] => none
  | b :: rest =>
    match upperBound rest with
    | some u => some (b :: u)
    | none => if b == 255 then none else some [b + 1]

/-! ## Finite maps -/

/-- Finite map from keys, kept sorted by key (invariant `Sorted`, proved in `Proofs`). -/
abbrev SMap (α : Type) := List (Key × α)
abbrev KV := SMap Val

def SMap.get {α : Type} : SMap α → Key → Option α
  | [], _ => none
  | (k', v) :: r, k => if k' = k then some v else SMap.get r k

def SMap.put {α : Type} : SMap α → Key → α → SMap α
  | [], k, v => [(k, v)]
  | (k', v') :: r, k, v =>
    if lexLt k k' then (k, v) :: (k', v') :: r
    else if k = k' then (k, v) :: r
    else (k', v') :: SMap.put r k v

def SMap.del {α : Type} (m : SMap α) (k : Key) : SMap α := m.filter (fun x => !(x.1 == k))

/-- `start <= k && k < end` (start inclusive, end exclusive). -/
def inRange (s e k : Key) : Bool := lexLe s k && lexLt k e

def SMap.delRange {α : Type} (m : SMap α) (s e : Key) : SMap α := m.filter (fun x => !(inRange s e x.1))

/-! ## Which variant of `db/memory` is modelled -/

/-- Each flag is `false` for the code as found at the pinned commit and `true` once the
corresponding repair (proposed-fixes/C15-*.diff) is in the tree. -/
structure Cfg where
  /-- `NewIterator(p, true)` with `UpperBound(p) = nil` treats the missing bound as unbounded
  (today: compares `k < ""`, which is never true). -/
  nilUbFix : Bool
  /-- `NewIterator(p, _)` uses `p` as a lower bound like Pebble (today: `strings.HasPrefix`). -/
  lowerBoundFix : Bool
  /-- `Prev` before the first key stays invalid (today: `curInd == -1` re-runs `First`). -/
  prevFix : Bool
  /-- `Next` past the end stays at `len(keys)` (today: `curInd++` unconditionally). -/
  nextClamp : Bool
  deriving DecidableEq, Repr

def Cfg.asFound : Cfg := ⟨false, false, false, false⟩
def Cfg.repaired : Cfg := ⟨true, true, true, true⟩

/-! ## Iteration bounds -/

/-- Contract / Pebble: lower bound `p`, upper bound `UpperBound(p)` when requested and not nil. -/
def specBound (p : Key) (wub : Bool) (k : Key) : Bool :=
  lexLe p k &&
    (match (if wub then upperBound p else none) with
     | none => true
     | some u => lexLt k u)

/-- `db/memory/db.go` `NewIterator`: `strings.HasPrefix(k, pr) && (!withUpperBound || k < ub)` with
`ub = string(upperBound)` (the empty string when `UpperBound` returned nil). -/
def memBound (cfg : Cfg) (p : Key) (wub : Bool) (k : Key) : Bool :=
  let ub : Option Key := if wub then upperBound p else none
  let ubs : Key := ub.getD []
  (if cfg.lowerBoundFix then lexLe p k else hasPrefix k p) &&
    (!wub || (cfg.nilUbFix && ub.isNone) || lexLt k ubs)

/-- Index of the first entry whose key is `>= t` (length of the list if there is none):
the loop of `iterator.Seek`. -/
def seekIdx (t : Key) : KV → Nat
  | [] => 0
  | (k, _) :: r => if lexLe t k then 0 else seekIdx t r + 1

/-! ## Results -/

/-- Result of a read or write. -/
inductive ROut
  | ok | notfound | val (v : Val) | bool (b : Bool) | errClosed | errCb | panic | badHandle
  | list (xs : List (Key × Val)) | vnil | errInvalid | badOp
  deriving DecidableEq, Repr

inductive Out
  | r (x : ROut)
  | handle (n : Nat)
  | size (n : Nat)
  /-- a positioning call: returned bool, then `Valid()`/`Key()`/`Value()` -/
  | pos (ret : Bool) (cur : Option (Key × Val))
  /-- `Update`/`Write` helper: results of the calls made inside the callback, then the result -/
  | upd (inner : List ROut) (res : ROut)
  deriving DecidableEq, Repr

/-! ## The interface both implementations provide -/

structure Impl (B I : Type) where
  bempty : B
  bput : B → Key → Val → B
  bdel : B → Key → B
  /-- first argument: the store content at the time of the call -/
  bdelRange : KV → B → Key → Key → B
  bget : KV → B → Key → Option Val
  /-- apply the batch to a store content (`Write`; also what an iterator over the batch sees) -/
  bflush : KV → B → KV
  bsize : B → Nat
  imk : KV → Key → Bool → I
  ifirst : I → I × Bool
  inext : I → I × Bool
  iprev : I → I × Bool
  iseek : I → Key → I × Bool
  icur : I → Option (Key × Val)
  /-- `Value()` on an iterator that is not valid (outside the contract) -/
  invalidValue : ROut

/-! ## Spec -/

inductive LogOp
  | put (k : Key) (v : Val) | del (k : Key) | delRange (s e : Key)
  deriving DecidableEq, Repr

def LogOp.apply (d : KV) : LogOp → KV
  | .put k v => d.put k v
  | .del k => d.del k
  | .delRange s e => d.delRange s e

def applyLog (d : KV) (log : List LogOp) : KV := log.foldl LogOp.apply d

def LogOp.isRange : LogOp → Bool
  | .delRange _ _ => true
  | _ => false

/-- Spec batch: the log of operations (and the size counter of the Pebble wrapper, which does not
count `DeleteRange`). -/
structure SBatch where
  log : List LogOp
  size : Nat
  deriving Repr

inductive Pos
  | unpos | before | at (i : Nat) | after
  deriving DecidableEq, Repr

structure SIter where
  keys : KV
  pos : Pos
  deriving Repr

def SIter.cur (it : SIter) : Option (Key × Val) :=
  match it.pos with
  | .at i => it.keys[i]?
  | _ => none

def SIter.ret (it : SIter) : SIter × Bool := (it, it.cur.isSome)

def SIter.first (it : SIter) : SIter :=
  { it with pos := if 0 < it.keys.length then .at 0 else .after }

def SIter.next (it : SIter) : SIter :=
  match it.pos with
  | .unpos => it.first
  | .before => it.first
  | .at i => { it with pos := if i + 1 < it.keys.length then .at (i + 1) else .after }
  | .after => it

def SIter.prev (it : SIter) : SIter :=
  match it.pos with
  | .unpos => it.first
  | .before => it
  | .at 0 => { it with pos := .before }
  | .at (i + 1) => { it with pos := .at i }
  | .after => { it with pos := if 0 < it.keys.length then .at (it.keys.length - 1) else .before }

def SIter.seek (it : SIter) (t : Key) : SIter :=
  let j := seekIdx t it.keys
  { it with pos := if j < it.keys.length then .at j else .after }

def specImpl : Impl SBatch SIter where
  bempty := ⟨[], 0⟩
  bput b k v := ⟨b.log ++ [.put k v], b.size + k.length + v.length⟩
  bdel b k := ⟨b.log ++ [.del k], b.size + k.length⟩
  bdelRange _ b s e := ⟨b.log ++ [.delRange s e], b.size⟩
  bget d b k := (applyLog d b.log).get k
  bflush d b := applyLog d b.log
  bsize b := b.size
  imk d p u := ⟨d.filter (fun x => specBound p u x.1), .unpos⟩
  ifirst it := it.first.ret
  inext it := it.next.ret
  iprev it := it.prev.ret
  iseek it t := (it.seek t).ret
  icur it := it.cur
  invalidValue := .vnil

/-! ## Mem: transcription of db/memory -/

/-- `keyValue` of db/memory/batch.go. -/
structure MWrite where
  key : Key
  value : Val
  delete : Bool
  deriving DecidableEq, Repr

/-- `batch` of db/memory/batch.go (`db` pointer left out: the store content is passed in). -/
structure MBatch where
  writes : List MWrite
  writeMap : SMap MWrite
  size : Nat
  deriving Repr

def MBatch.put (b : MBatch) (k : Key) (v : Val) : MBatch :=
  let kv : MWrite := ⟨k, v, false⟩
  ⟨b.writes ++ [kv], b.writeMap.put k kv, b.size + k.length + v.length⟩

def MBatch.del (b : MBatch) (k : Key) : MBatch :=
  let kv : MWrite := ⟨k, [], true⟩
  ⟨b.writes ++ [kv], b.writeMap.put k kv, b.size + k.length⟩

/-- `batch.Get`/`batch.Has`: the write map first, then the store. -/
def MBatch.get (d : KV) (b : MBatch) (k : Key) : Option Val :=
  match b.writeMap.get k with
  | some w => if w.delete then none else some w.value
  | none => d.get k

def MWrite.apply (d : KV) (w : MWrite) : KV :=
  if w.delete then d.del w.key else d.put w.key w.value

/-- the loop of `batch.Write` -/
def MBatch.flush (d : KV) (b : MBatch) : KV := b.writes.foldl MWrite.apply d

/-- `iterator` of db/memory/iterator.go (`keys`/`values` zipped). `positioned` exists only in the
repaired variant (`cfg.prevFix`); it is maintained but never read otherwise. -/
structure MIter where
  keys : KV
  cur : Int
  positioned : Bool
  deriving Repr

def MIter.valid (it : MIter) : Bool := 0 ≤ it.cur && it.cur < it.keys.length

def MIter.kv (it : MIter) : Option (Key × Val) :=
  if it.valid then it.keys[it.cur.toNat]? else none

def MIter.first (it : MIter) : MIter × Bool :=
  let it' : MIter := { it with cur := 0, positioned := true }
  (it', it'.valid)

def MIter.prev (cfg : Cfg) (it : MIter) : MIter × Bool :=
  if cfg.prevFix then
    if !it.positioned then it.first
    else if it.cur ≤ 0 then ({ it with cur := -1 }, false)
    else ({ it with cur := it.cur - 1 }, true)
  else
    if it.cur == 0 then ({ it with cur := -1, positioned := true }, false)
    else if it.cur == -1 then it.first
    else ({ it with cur := it.cur - 1, positioned := true }, true)

def MIter.next (cfg : Cfg) (it : MIter) : MIter × Bool :=
  let c : Int := if cfg.nextClamp && !(it.cur < it.keys.length) then it.cur else it.cur + 1
  let it' : MIter := { it with cur := c, positioned := true }
  (it', it'.valid)

def MIter.seek (it : MIter) (t : Key) : MIter × Bool :=
  let j := seekIdx t it.keys
  ({ it with cur := j, positioned := true }, decide (j < it.keys.length))

def MIter.mk' (cfg : Cfg) (d : KV) (p : Key) (wub : Bool) : MIter :=
  ⟨d.filter (fun x => memBound cfg p wub x.1), -1, false⟩

/-- the loop of `batch.DeleteRange`: `for ok := it.Seek(start); ok; ok = it.Next()` -/
def memDelRangeLoop (cfg : Cfg) (e : Key) : Nat → MIter → Bool → MBatch → MBatch
  | 0, _, _, b => b
  | fuel + 1, it, ok, b =>
    if ok then
      match it.kv with
      | some (k, _) =>
        if lexLe e k then b
        else
          let r := it.next cfg
          memDelRangeLoop cfg e fuel r.1 r.2 (b.del k)
      | none => b
    else b

/-- `batch.DeleteRange`: iterate over a flushed copy (`b.NewIterator(nil, false)`), seek to `start`,
stop at `end`, record a `Delete` per key found — i.e. materialised at call time. -/
def MBatch.delRange (cfg : Cfg) (d : KV) (b : MBatch) (s e : Key) : MBatch :=
  let content := b.flush d
  let it := MIter.mk' cfg content [] false
  let r := it.seek s
  memDelRangeLoop cfg e (content.length + 1) r.1 r.2 b

def memImpl (cfg : Cfg) : Impl MBatch MIter where
  bempty := ⟨[], [], 0⟩
  bput := MBatch.put
  bdel := MBatch.del
  bdelRange := MBatch.delRange cfg
  bget := MBatch.get
  bflush := MBatch.flush
  bsize b := b.size
  imk := MIter.mk' cfg
  ifirst it := it.first
  inext := MIter.next cfg
  iprev := MIter.prev cfg
  iseek := MIter.seek
  icur := MIter.kv
  invalidValue := .errInvalid

/-! ## Worlds and operations -/

inductive Src
  | db | batch (n : Nat) | snap (n : Nat)
  deriving DecidableEq, Repr

/-- Calls made inside an `Update`/`Write` callback. -/
inductive BOp
  | put (k : Key) (v : Val) | del (k : Key) | delRange (s e : Key)
  | get (k : Key) (fail : Bool) | has (k : Key) | scan (p : Key) (u : Bool)
  deriving DecidableEq, Repr

inductive Op
  | put (k : Key) (v : Val) | del (k : Key) | delRange (s e : Key)
  | get (src : Src) (k : Key) (fail : Bool) | has (src : Src) (k : Key)
  | iter (src : Src) (p : Key) (u : Bool) | scan (src : Src) (p : Key) (u : Bool)
  | newBatch (idx : Bool)
  | bput (b : Nat) (k : Key) (v : Val) | bdel (b : Nat) (k : Key) | bdelRange (b : Nat) (s e : Key)
  | bsize (b : Nat) | bwrite (b : Nat) | bclose (b : Nat)
  | snap | sclose (s : Nat)
  | first (i : Nat) | next (i : Nat) | prev (i : Nat) | seek (i : Nat) (t : Key)
  | value (i : Nat) | iclose (i : Nat)
  | update (idx fail : Bool) (ops : List BOp)
  | close
  deriving DecidableEq, Repr

/-- One backend while a sequence runs. Handle tables are total functions; `none` = closed or never
allocated. Iterators distinguish "no such handle" (`none`) from "closed" (`some none`). -/
structure World (B I : Type) where
  db : Option KV
  batches : Nat → Option (B × Bool)
  nb : Nat
  snaps : Nat → Option KV
  ns : Nat
  iters : Nat → Option (Option I)
  ni : Nat
  /-- where iterator `i` was created from (ghost: only the contract predicate reads it) -/
  iorigin : Nat → Src

def World.init {B I : Type} : World B I := ⟨some [], fun _ => none, 0, fun _ => none, 0, fun _ => none, 0, fun _ => .db⟩

def upd {α : Type} (f : Nat → α) (i : Nat) (x : α) : Nat → α := fun j => if j = i then x else f j

def readGet (o : Option Val) (fail : Bool) : ROut :=
  match o with
  | none => .notfound
  | some v => if fail then .errCb else .val v

section
variable {B I : Type} (M : Impl B I)

def scanLoop : Nat → I → Bool → List (Key × Val)
  | 0, _, _ => []
  | fuel + 1, it, ok =>
    if ok then
      match M.icur it with
      | some kv =>
        let r := M.inext it
        kv :: scanLoop fuel r.1 r.2
      | none => []
    else []

/-- `it := NewIterator(p, u); for ok := it.First(); ok; ok = it.Next() { collect }; it.Close()` -/
def scan (content : KV) (p : Key) (u : Bool) : List (Key × Val) :=
  let r := M.ifirst (M.imk content p u)
  scanLoop M (content.length + 1) r.1 r.2

/-- what a reader sees: `.inl` = error, `.inr (get, content for iteration)` -/
def World.read (w : World B I) : Src → Sum ROut ((Key → Option Val) × KV)
  | .db =>
    match w.db with
    | none => .inl .errClosed
    | some d => .inr (d.get, d)
  | .snap n =>
    match w.snaps n with
    | none => .inl .badHandle
    | some d => .inr (d.get, d)
  | .batch n =>
    match w.batches n with
    | some (b, true) => .inr (M.bget (w.db.getD []) b, M.bflush (w.db.getD []) b)
    | some (_, false) => .inl .badHandle
    | none => .inl .errClosed

def runInner (base : KV) (idx : Bool) : List BOp → B → B × List ROut
  | [], b => (b, [])
  | op :: rest, b =>
    let (b', o) : B × ROut :=
      match op with
      | .put k v => (M.bput b k v, .ok)
      | .del k => (M.bdel b k, .ok)
      | .delRange s e => (M.bdelRange base b s e, .ok)
      | .get k fail => (b, if idx then readGet (M.bget base b k) fail else .badOp)
      | .has k => (b, if idx then .bool (M.bget base b k).isSome else .badOp)
      | .scan p u => (b, if idx then .list (scan M (M.bflush base b) p u) else .badOp)
    let r := runInner base idx rest b'
    (r.1, o :: r.2)

def movePos (w : World B I) (i : Nat) (f : I → I × Bool) : World B I × Out :=
  match w.iters i with
  | none => (w, .r .badHandle)
  | some none => (w, .r .panic)
  | some (some it) =>
    let r := f it
    ({ w with iters := upd w.iters i (some (some r.1)) }, .pos r.2 (M.icur r.1))

def step (w : World B I) : Op → World B I × Out
  | .put k v =>
    match w.db with
    | none => (w, .r .errClosed)
    | some d => ({ w with db := some (d.put k v) }, .r .ok)
  | .del k =>
    match w.db with
    | none => (w, .r .errClosed)
    | some d => ({ w with db := some (d.del k) }, .r .ok)
  | .delRange s e =>
    match w.db with
    | none => (w, .r .errClosed)
    | some d => ({ w with db := some (d.delRange s e) }, .r .ok)
  | .get src k fail =>
    match w.read M src with
    | .inl e => (w, .r e)
    | .inr (g, _) => (w, .r (readGet (g k) fail))
  | .has src k =>
    match w.read M src with
    | .inl e => (w, .r e)
    | .inr (g, _) => (w, .r (.bool (g k).isSome))
  | .iter src p u =>
    match w.read M src with
    | .inl e => ({ w with ni := w.ni + 1 }, .r e)
    | .inr (_, c) =>
      ({ w with iters := upd w.iters w.ni (some (some (M.imk c p u))), ni := w.ni + 1,
                iorigin := upd w.iorigin w.ni src }, .handle w.ni)
  | .scan src p u =>
    match w.read M src with
    | .inl e => (w, .r e)
    | .inr (_, c) => (w, .r (.list (scan M c p u)))
  | .newBatch idx =>
    ({ w with batches := upd w.batches w.nb (some (M.bempty, idx)), nb := w.nb + 1 }, .handle w.nb)
  | .bput b k v =>
    match w.batches b with
    | none => (w, .r .errClosed)
    | some (x, idx) => ({ w with batches := upd w.batches b (some (M.bput x k v, idx)) }, .r .ok)
  | .bdel b k =>
    match w.batches b with
    | none => (w, .r .errClosed)
    | some (x, idx) => ({ w with batches := upd w.batches b (some (M.bdel x k, idx)) }, .r .ok)
  | .bdelRange b s e =>
    match w.batches b with
    | none => (w, .r .errClosed)
    | some (x, idx) =>
      ({ w with batches := upd w.batches b (some (M.bdelRange (w.db.getD []) x s e, idx)) }, .r .ok)
  | .bsize b =>
    match w.batches b with
    | none => (w, .size 0)
    | some (x, _) => (w, .size (M.bsize x))
  | .bwrite b =>
    match w.batches b with
    | none => (w, .r .errClosed)
    | some (x, _) =>
      match w.db with
      | none => (w, .r .errClosed)
      | some d => ({ w with db := some (M.bflush d x), batches := upd w.batches b none }, .r .ok)
  | .bclose b =>
    match w.batches b with
    | none => (w, .r .errClosed)
    | some _ => ({ w with batches := upd w.batches b none }, .r .ok)
  | .snap =>
    match w.db with
    | none => (w, .r .panic)
    | some d => ({ w with snaps := upd w.snaps w.ns (some d), ns := w.ns + 1 }, .handle w.ns)
  | .sclose s =>
    match w.snaps s with
    | none => (w, .r .badHandle)
    | some _ => ({ w with snaps := upd w.snaps s none }, .r .ok)
  | .first i => movePos M w i M.ifirst
  | .next i => movePos M w i M.inext
  | .prev i => movePos M w i M.iprev
  | .seek i t => movePos M w i (fun it => M.iseek it t)
  | .value i =>
    match w.iters i with
    | none => (w, .r .badHandle)
    | some none => (w, .r .errClosed)
    | some (some it) =>
      match M.icur it with
      | some (_, v) => (w, .r (.val v))
      | none => (w, .r M.invalidValue)
  | .iclose i =>
    match w.iters i with
    | none => (w, .r .badHandle)
    | some none => (w, .r .errClosed)
    | some (some _) => ({ w with iters := upd w.iters i (some none) }, .r .ok)
  | .update idx fail ops =>
    match w.db with
    | none => (w, .upd [] .errClosed)
    | some d =>
      let r := runInner M d idx ops M.bempty
      if fail then (w, .upd r.2 .errCb)
      else ({ w with db := some (M.bflush d r.1) }, .upd r.2 .ok)
  | .close => ({ w with db := none }, .r .ok)

/-- outputs of a whole sequence -/
def run : World B I → List Op → List Out
  | _, [] => []
  | w, op :: rest =>
    let r := step M w op
    r.2 :: run r.1 rest

/-- final state of a whole sequence -/
def exec : World B I → List Op → World B I
  | w, [] => w
  | w, op :: rest => exec (step M w op).1 rest

end

/-! ## The contract boundary

`stepOK cfg w op` is evaluated on the *spec* world reached so far; `inContract cfg ops` holds when
every step of the sequence passes. Outside of it are (a) uses the interface documentation rules
out, and (b) for each `Cfg` flag that is `false`, the inputs on which db/memory as found leaves the
contract (each is a recorded finding with a witness in `Props`). -/

def noRange (b : SBatch) : Bool := b.log.all (fun o => !o.isRange)

/-- every live batch other than `except` has no `DeleteRange` pending -/
def othersNoRange (w : World SBatch SIter) (except : Option Nat) : Bool :=
  (List.range w.nb).all fun n =>
    if some n = except then true
    else match w.batches n with
      | some (b, _) => noRange b
      | none => true

/-- no live iterator was created from `src` (Pebble: an iterator must be closed before the batch
or snapshot it reads from) -/
def noLiveIterFrom (w : World SBatch SIter) (src : Src) : Bool :=
  (List.range w.ni).all fun n =>
    match w.iters n with
    | some (some _) => w.iorigin n != src
    | _ => true

def noLiveReaders (w : World SBatch SIter) : Bool :=
  (List.range w.ni).all (fun n => match w.iters n with | some (some _) => false | _ => true) &&
  (List.range w.ns).all (fun n => (w.snaps n).isNone)

/-- arguments of `NewIterator` on which db/memory (variant `cfg`) and the contract agree -/
def iterArgsOK (cfg : Cfg) (p : Key) (u : Bool) : Bool :=
  (cfg.lowerBoundFix || u || p == []) &&
  (cfg.nilUbFix || !u || (upperBound p).isSome)

def innerOK (cfg : Cfg) : BOp → Bool
  | .scan p u => iterArgsOK cfg p u
  | _ => true

def srcOpen (w : World SBatch SIter) : Src → Bool
  | .db => true
  | _ => w.db.isSome

def stepOK (cfg : Cfg) (w : World SBatch SIter) : Op → Bool
  | .put _ _ | .del _ | .delRange _ _ => othersNoRange w none
  | .get src _ _ | .has src _ => srcOpen w src
  | .iter src p u | .scan src p u => srcOpen w src && iterArgsOK cfg p u
  | .bdelRange _ _ _ => w.db.isSome
  | .bsize b => match w.batches b with | some (x, _) => noRange x | none => true
  | .bwrite b => othersNoRange w (some b) && noLiveIterFrom w (.batch b)
  | .bclose b => noLiveIterFrom w (.batch b)
  | .first _ | .seek _ _ | .iclose _ => w.db.isSome
  | .next i =>
    w.db.isSome &&
    match w.iters i with
    | some (some it) => cfg.nextClamp || it.pos != .after
    | _ => true
  | .prev i =>
    w.db.isSome &&
    match w.iters i with
    | some (some it) => cfg.prevFix || it.pos != .before
    | _ => true
  | .value i =>
    w.db.isSome &&
    match w.iters i with
    | some (some it) => it.cur.isSome
    | _ => true
  | .update _ fail ops => (fail || othersNoRange w none) && ops.all (innerOK cfg)
  | .close => noLiveReaders w && othersNoRange w none
  | .sclose s => w.db.isSome && noLiveIterFrom w (.snap s)
  | _ => true

def inContract (cfg : Cfg) : World SBatch SIter → List Op → Bool
  | _, [] => true
  | w, op :: rest => stepOK cfg w op && inContract cfg (step specImpl w op).1 rest

end Juno.C15
