/-
C15 — model of juno's key/value store contract (db/database.go, db/memory/*, db/dbutils/bound.go).
Core Lean only: this file is linked into the driver executable.
-/
namespace Juno.C15

abbrev Key := List UInt8
abbrev Val := List UInt8

/-- Lexicographic `<` on byte strings (Go's `bytes.Compare(a, b) < 0`, string `<`). -/
def lexLt : Key → Key → Bool
  | [], [] => false
  | [], _ :: _ => true
  | _ :: _, [] => false
  | a :: as, b :: bs => if a < b then true else if b < a then false else lexLt as bs

/-- `bytes.Compare(a, b) <= 0`. -/
def lexLe (a b : Key) : Bool := !lexLt b a

/-- `strings.HasPrefix(k, p)` / `bytes.HasPrefix`. -/
def hasPrefix : Key → Key → Bool
  | _, [] => true
  | [], _ :: _ => false
  | k :: ks, p :: ps => k == p && hasPrefix ks ps

/-- `dbutils.UpperBound`: the shortest byte string greater than every string with prefix `p`;
`none` is Go's `nil` (prefix empty or all `0xff`: there is no such bound). -/
def upperBound : Key → Option Key
  | [] => none
  | b :: rest =>
    match upperBound rest with
    | some u => some (b :: u)
    | none => if b == 255 then none else some [b + 1]

end Juno.C15
