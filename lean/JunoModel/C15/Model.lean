/-
C15 — model of juno's key/value store contract (db/database.go, db/batch.go, db/iterator.go,
db/snapshot.go, db/memory/*, db/pebblev2/* = db/pebble/*, db/dbutils/bound.go).
Core Lean only: this file is linked into the driver executable.

Three implementations of one interface (`Impl`) run under one generic `step`:
* `specImpl` — the contract: ordered map, batch = op log applied at `Write`, iterator = range
  `[prefix, UpperBound(prefix))` with positions unpositioned / before / at i / after.
* `memImpl c` — a transcription of `db/memory` BEFORE 36de10a: batch = ordered `writes` list +
  `writeMap`, `DeleteRange` on a batch materialised at call time through an iterator over a flushed
  copy (finding F5, repaired); iterator = key list + `curInd` integer arithmetic + `positioned` (current).
  `c.cbUnlocked` says whether `Get` runs its callback after releasing the store lock (it does since
  94ab97c; before, a callback that writes to the store deadlocked); the harness probes both. The batch
  as it is NOW (`DeleteRange` recorded as a range) is `mem2Impl` in ModelRange.lean, which shares store,
  snapshot and iterator with `memImpl`; `db.BufferBatch` and `CalculatePrefixSize` are in ModelBuf.lean,
  stacks of `db.BufferBatch` / `db.SyncBatch` in ModelStack.lean.
* `pebImpl` — a transcription of the Pebble wrappers `db/pebblev2/{db,batch,iterator,snapshot}.go`
  (`db/pebble/*` is the same text) over an abstract engine (`E*`: ordered map, batch = op log with an
  `indexed` flag, iterator with lower/upper bound and raw `First/Next/Prev/SeekGE`, errors
  `ErrNotFound`/`ErrNotIndexed`): the `positioned` flag, bound construction, error translation, the
  size counter live here.

A Go `map[string][]byte` is modelled as the canonical finite map (association list sorted by
key), so `sort.Strings` over the collected keys is the identity in the model.
-/
namespace Juno.C15

abbrev Key := List UInt8
abbrev Val := List UInt8

/-- Lexicographic `<` on byte strings (Go's `bytes.Compare(a, b) < 0`, string `<`). -/
def lexLt : Key → Key → Bool
  | [], [] => false
  | [], _ :: _ => true
  | _ :: _, [] => false
  | a :: as, b :: bs => if a < b then true else if b < a then false else lexLt as bs

/-- `bytes.Compare(a, b) <= 0`. -/
def lexLe (a b : Key) : Bool := !lexLt b a

/-- `strings.HasPrefix(k, p)` / `bytes.HasPrefix`. -/
def hasPrefix : Key → Key → Bool
  | _, [] => true
  | [], _ :: _ => false
  | k :: ks, p :: ps => k == p && hasPrefix ks ps

/-- `dbutils.UpperBound`: the shortest byte string greater than every string with prefix `p`;
`none` is Go's `nil` (prefix empty or all `0xff`: there is no such bound). -/
def upperBound : Key → Option Key
  | [] => none
  | b :: rest =>
    match upperBound rest with
    | some u => some (b :: u)
    | none => if b == 255 then none else some [b + 1]

/-- The loop of `dbutils.UpperBound` AS WRITTEN in db/dbutils/bound.go:
`for i := len(prefix) - 1; i >= 0; i-- { if prefix[i] == maxByte { continue }; ub = make([]byte, i+1);
copy(ub, prefix); ub[i]++; return ub }; return nil` — the counter `n` here is Go's `i + 1`. Bytes equal
to `0xff` are skipped from the end; at the first other byte the prefix is CUT right after it
(`make([]byte, i+1)`) and that byte is incremented. `upperBoundGo_eq` (ProofsBound.lean): it is the
recursive `upperBound` above. The driver answers `ub P` with this function. -/
def upperBoundLoop (p : Key) : Nat → Option Key
  | 0 => none
  | i + 1 =>
    if p.getD i 0 == 255 then upperBoundLoop p i
    else some (p.take i ++ [p.getD i 0 + 1])

def upperBoundGo (p : Key) : Option Key := upperBoundLoop p p.length

/-! ## Finite maps -/

/-- Finite map from keys, kept sorted by key (invariant `Sorted`, proved in `Proofs`). -/
abbrev SMap (α : Type) := List (Key × α)
abbrev KV := SMap Val

def SMap.get {α : Type} : SMap α → Key → Option α
  | [], _ => none
  | (k', v) :: r, k => if k' = k then some v else SMap.get r k

def SMap.put {α : Type} : SMap α → Key → α → SMap α
  | [], k, v => [(k, v)]
  | (k', v') :: r, k, v =>
    if lexLt k k' then (k, v) :: (k', v') :: r
    else if k = k' then (k, v) :: r
    else (k', v') :: SMap.put r k v

def SMap.del {α : Type} (m : SMap α) (k : Key) : SMap α := m.filter (fun x => !(x.1 == k))

/-- `start <= k && k < end` (start inclusive, end exclusive). -/
def inRange (s e k : Key) : Bool := lexLe s k && lexLt k e

def SMap.delRange {α : Type} (m : SMap α) (s e : Key) : SMap α := m.filter (fun x => !(inRange s e x.1))

/-! ## Iteration bounds -/

/-- Pebble `IterOptions{LowerBound: lower, UpperBound: upper}` (`upper = none` is Go's nil). -/
def engineBound (lower : Key) (upper : Option Key) (k : Key) : Bool :=
  lexLe lower k && (match upper with | none => true | some u => lexLt k u)

/-- The contract: lower bound `p`, upper bound `UpperBound(p)` when requested and not nil. -/
def specBound (p : Key) (wub : Bool) (k : Key) : Bool :=
  engineBound p (if wub then upperBound p else none) k

/-- `db/memory/db.go` `NewIterator`: `k >= pr && (upperBound == nil || k < ub)` with
`upperBound = UpperBound(prefix)` only when requested, `ub = string(upperBound)`. -/
def memBound (p : Key) (wub : Bool) (k : Key) : Bool :=
  let ub : Option Key := if wub then upperBound p else none
  lexLe p k && (ub.isNone || lexLt k (ub.getD []))

/-- Index of the first entry whose key is `>= t` (length of the list if there is none):
the loop of `iterator.Seek` / Pebble's `SeekGE`. -/
def seekIdx (t : Key) : KV → Nat
  | [] => 0
  | (k, _) :: r => if lexLe t k then 0 else seekIdx t r + 1

/-! ## Results -/

/-- Result of a read or write. -/
inductive ROut
  | ok | notfound | val (v : Val) | bool (b : Bool) | errClosed | errCb | panic | badHandle
  | list (xs : List (Key × Val)) | vnil | errInvalid | badOp | errNotIndexed | hang | key (k : Key)
  deriving DecidableEq, Repr

/-- Result of a lookup before the callback runs. -/
inductive RGet
  | val (v : Val) | notfound | err (e : ROut)
  deriving DecidableEq, Repr

def RGet.ofOption : Option Val → RGet
  | some v => .val v
  | none => .notfound

inductive Out
  | r (x : ROut)
  | handle (n : Nat)
  | size (n : Nat)
  /-- a positioning call: returned bool, then `Valid()`/`Key()`/`Value()` -/
  | pos (ret : Bool) (cur : Option (Key × Val))
  /-- `Update`/`Write` helper: results of the calls made inside the callback, then the result -/
  | upd (inner : List ROut) (res : ROut)
  deriving DecidableEq, Repr

/-! ## The interface the three implementations provide

`idx` arguments carry how the batch was created (`NewIndexedBatch` vs `NewBatch`); the store
content is passed in (`d`), the handle tables and the open/closed store live in `World`. -/

structure Impl (B I : Type) where
  bempty : Bool → B
  bput : B → Key → Val → B
  bdel : B → Key → B
  /-- first argument: the store content at the time of the call -/
  bdelRange : KV → B → Key → Key → B
  bget : Bool → KV → B → Key → RGet
  bhas : Bool → KV → B → Key → ROut
  /-- what `batch.NewIterator` iterates over -/
  bview : Bool → KV → B → Sum ROut KV
  /-- apply the batch to a store content (`Write`) -/
  bflush : KV → B → KV
  bsize : B → Nat
  /-- store reads -/
  dget : KV → Key → RGet
  dhas : KV → Key → ROut
  /-- snapshot reads; `sclosed` = any read of a snapshot after its `Close` -/
  sget : KV → Key → RGet
  shas : KV → Key → ROut
  sclosed : ROut
  imk : KV → Key → Bool → I
  ifirst : I → I × Bool
  inext : I → I × Bool
  iprev : I → I × Bool
  iseek : I → Key → I × Bool
  icur : I → Option (Key × Val)
  /-- `Value()` on an iterator that is not valid (outside the contract) -/
  invalidValue : ROut
  /-- may a `Get` callback write to the store (false: the call never returns) -/
  reentrant : Bool

/-! ## Spec -/

inductive LogOp
  | put (k : Key) (v : Val) | del (k : Key) | delRange (s e : Key)
  deriving DecidableEq, Repr

def LogOp.apply (d : KV) : LogOp → KV
  | .put k v => d.put k v
  | .del k => d.del k
  | .delRange s e => d.delRange s e

def applyLog (d : KV) (log : List LogOp) : KV := log.foldl LogOp.apply d

def LogOp.isRange : LogOp → Bool
  | .delRange _ _ => true
  | _ => false

/-- Contract batch: the log of operations and the size counter (a `DeleteRange` counts nothing).
`mlog` is a GHOST read only by the boundary predicate `f5Free`: the same log with every
`DeleteRange` replaced, at the time of the call, by point deletes of the keys then visible in the
range — what db/memory records. No output of `specImpl` depends on it. -/
structure SBatch where
  log : List LogOp
  mlog : List LogOp
  size : Nat
  deriving Repr

inductive Pos
  | unpos | before | at (i : Nat) | after
  deriving DecidableEq, Repr

structure SIter where
  keys : KV
  pos : Pos
  deriving Repr

def SIter.cur (it : SIter) : Option (Key × Val) :=
  match it.pos with
  | .at i => it.keys[i]?
  | _ => none

def SIter.ret (it : SIter) : SIter × Bool := (it, it.cur.isSome)

def SIter.first (it : SIter) : SIter :=
  { it with pos := if 0 < it.keys.length then .at 0 else .after }

def SIter.last (it : SIter) : SIter :=
  { it with pos := if 0 < it.keys.length then .at (it.keys.length - 1) else .before }

def SIter.next (it : SIter) : SIter :=
  match it.pos with
  | .unpos => it.first
  | .before => it.first
  | .at i => { it with pos := if i + 1 < it.keys.length then .at (i + 1) else .after }
  | .after => it

def SIter.prev (it : SIter) : SIter :=
  match it.pos with
  | .unpos => it.first
  | .before => it
  | .at 0 => { it with pos := .before }
  | .at (i + 1) => { it with pos := .at i }
  | .after => it.last

def SIter.seek (it : SIter) (t : Key) : SIter :=
  let j := seekIdx t it.keys
  { it with pos := if j < it.keys.length then .at j else .after }

def rangeDeletes (content : KV) (s e : Key) : List LogOp :=
  (content.filter (fun x => inRange s e x.1)).map (fun x => LogOp.del x.1)

def specImpl : Impl SBatch SIter where
  bempty _ := ⟨[], [], 0⟩
  bput b k v := ⟨b.log ++ [.put k v], b.mlog ++ [.put k v], b.size + k.length + v.length⟩
  bdel b k := ⟨b.log ++ [.del k], b.mlog ++ [.del k], b.size + k.length⟩
  bdelRange d b s e := ⟨b.log ++ [.delRange s e], b.mlog ++ rangeDeletes (applyLog d b.mlog) s e, b.size⟩
  bget idx d b k := if idx then .ofOption ((applyLog d b.log).get k) else .err .badHandle
  bhas idx d b k := if idx then .bool ((applyLog d b.log).get k).isSome else .badHandle
  bview idx d b := if idx then .inr (applyLog d b.log) else .inl .badHandle
  bflush d b := applyLog d b.log
  bsize b := b.size
  dget d k := .ofOption (d.get k)
  dhas d k := .bool (d.get k).isSome
  sget d k := .ofOption (d.get k)
  shas d k := .bool (d.get k).isSome
  sclosed := .badHandle
  imk d p u := ⟨d.filter (fun x => specBound p u x.1), .unpos⟩
  ifirst it := it.first.ret
  inext it := it.next.ret
  iprev it := it.prev.ret
  iseek it t := (it.seek t).ret
  icur it := it.cur
  invalidValue := .vnil
  reentrant := true

/-! ## Pebble: abstract engine … -/

inductive EErr
  | notFound | notIndexed
  deriving DecidableEq, Repr

/-- `pebble.DB.Get` / `pebble.Snapshot.Get` -/
def engineGet (d : KV) (k : Key) : Except EErr Val :=
  match d.get k with
  | some v => .ok v
  | none => .error .notFound

/-- `pebble.Batch`: op log; only an indexed batch can be read -/
structure EBatch where
  log : List LogOp
  indexed : Bool
  deriving Repr

def EBatch.get (d : KV) (b : EBatch) (k : Key) : Except EErr Val :=
  if b.indexed then engineGet (applyLog d b.log) k else .error .notIndexed

/-- `pebble.Iterator` over the entries within the bounds; raw moves (no wrapper logic):
`Next` on a fresh iterator is `First`, `Prev` on a fresh iterator is `Last`. -/
structure EIter where
  keys : KV
  pos : Pos
  deriving Repr

def EIter.valid (it : EIter) : Bool :=
  match it.pos with
  | .at i => i < it.keys.length
  | _ => false

def EIter.kv (it : EIter) : Option (Key × Val) :=
  match it.pos with
  | .at i => it.keys[i]?
  | _ => none

def EIter.first (it : EIter) : EIter × Bool :=
  let it' : EIter := { it with pos := if 0 < it.keys.length then .at 0 else .after }
  (it', it'.valid)

def EIter.last (it : EIter) : EIter × Bool :=
  let it' : EIter := { it with pos := if 0 < it.keys.length then .at (it.keys.length - 1) else .before }
  (it', it'.valid)

def EIter.next (it : EIter) : EIter × Bool :=
  match it.pos with
  | .unpos => it.first
  | .before => it.first
  | .at i =>
    let it' : EIter := { it with pos := if i + 1 < it.keys.length then .at (i + 1) else .after }
    (it', it'.valid)
  | .after => (it, false)

def EIter.prev (it : EIter) : EIter × Bool :=
  match it.pos with
  | .unpos => it.last
  | .before => (it, false)
  | .at 0 => ({ it with pos := .before }, false)
  | .at (i + 1) =>
    let it' : EIter := { it with pos := .at i }
    (it', it'.valid)
  | .after => it.last

def EIter.seekGE (it : EIter) (t : Key) : EIter × Bool :=
  let j := seekIdx t it.keys
  let it' : EIter := { it with pos := if j < it.keys.length then .at j else .after }
  (it', it'.valid)

def engineNewIter (d : KV) (lower : Key) (upper : Option Key) : EIter :=
  ⟨d.filter (fun x => engineBound lower upper x.1), .unpos⟩

/-! ## … and the juno wrappers over it (db/pebblev2/*.go; db/pebble/*.go is the same text) -/

/-- `batch` of db/pebblev2/batch.go -/
structure PBatch where
  batch : EBatch
  size : Nat
  deriving Repr

/-- `iterator` of db/pebblev2/iterator.go -/
structure PIter where
  iter : EIter
  positioned : Bool
  deriving Repr

/-- error translation of `Get` (DB, batch, snapshot): `ErrNotFound` becomes `db.ErrKeyNotFound`,
any other error is returned as is -/
def pebGet : Except EErr Val → RGet
  | .ok v => .val v
  | .error .notFound => .notfound
  | .error .notIndexed => .err .errNotIndexed

/-- error translation of `Has`: `ErrNotFound` becomes `(false, nil)` -/
def pebHas : Except EErr Val → ROut
  | .ok _ => .bool true
  | .error .notFound => .bool false
  | .error .notIndexed => .errNotIndexed

def PIter.first (it : PIter) : PIter × Bool :=
  let r := it.iter.first
  ({ iter := r.1, positioned := true }, r.2)

def PIter.prev (it : PIter) : PIter × Bool :=
  if !it.positioned then it.first
  else
    let r := it.iter.prev
    ({ it with iter := r.1 }, r.2)

def PIter.next (it : PIter) : PIter × Bool :=
  if !it.positioned then it.first
  else
    let r := it.iter.next
    ({ it with iter := r.1 }, r.2)

def PIter.seek (it : PIter) (t : Key) : PIter × Bool :=
  let r := it.iter.seekGE t
  ({ iter := r.1, positioned := true }, r.2)

/-- `iterOpt := &pebble.IterOptions{LowerBound: prefix}; if withUpperBound { iterOpt.UpperBound =
dbutils.UpperBound(prefix) }` -/
def pebNewIter (d : KV) (p : Key) (wub : Bool) : PIter :=
  ⟨engineNewIter d p (if wub then upperBound p else none), false⟩

def pebImpl : Impl PBatch PIter where
  bempty idx := ⟨⟨[], idx⟩, 0⟩
  bput b k v := ⟨{ b.batch with log := b.batch.log ++ [.put k v] }, b.size + k.length + v.length⟩
  bdel b k := ⟨{ b.batch with log := b.batch.log ++ [.del k] }, b.size + k.length⟩
  bdelRange _ b s e := ⟨{ b.batch with log := b.batch.log ++ [.delRange s e] }, b.size⟩
  bget _ d b k := pebGet (b.batch.get d k)
  bhas _ d b k := pebHas (b.batch.get d k)
  bview _ d b := if b.batch.indexed then .inr (applyLog d b.batch.log) else .inl .errNotIndexed
  bflush d b := applyLog d b.batch.log
  bsize b := b.size
  dget d k := pebGet (engineGet d k)
  dhas d k := pebHas (engineGet d k)
  sget d k := pebGet (engineGet d k)
  shas d k := pebHas (engineGet d k)
  sclosed := .panic
  imk := pebNewIter
  ifirst it := it.first
  inext it := it.next
  iprev it := it.prev
  iseek it t := it.seek t
  icur it := it.iter.kv
  invalidValue := .vnil
  reentrant := true

/-! ## Mem: transcription of db/memory -/

/-- Which variant of `db/memory` is modelled (probed on the real code by the harness). -/
structure MemCfg where
  /-- `Database.Get` / `batch.Get` call the callback after releasing `d.lock` (today they hold the
  read lock across the callback, so a callback that writes to the store never returns). -/
  cbUnlocked : Bool
  deriving DecidableEq, Repr

/-- `keyValue` of db/memory/batch.go. -/
structure MWrite where
  key : Key
  value : Val
  delete : Bool
  deriving DecidableEq, Repr

/-- `batch` of db/memory/batch.go (`db` pointer left out: the store content is passed in). -/
structure MBatch where
  writes : List MWrite
  writeMap : SMap MWrite
  size : Nat
  deriving Repr

def MBatch.put (b : MBatch) (k : Key) (v : Val) : MBatch :=
  let kv : MWrite := ⟨k, v, false⟩
  ⟨b.writes ++ [kv], b.writeMap.put k kv, b.size + k.length + v.length⟩

def MBatch.del (b : MBatch) (k : Key) : MBatch :=
  let kv : MWrite := ⟨k, [], true⟩
  ⟨b.writes ++ [kv], b.writeMap.put k kv, b.size + k.length⟩

/-- `batch.Get`/`batch.Has`: the write map first, then the store. -/
def MBatch.get (d : KV) (b : MBatch) (k : Key) : Option Val :=
  match b.writeMap.get k with
  | some w => if w.delete then none else some w.value
  | none => d.get k

def MWrite.apply (d : KV) (w : MWrite) : KV :=
  if w.delete then d.del w.key else d.put w.key w.value

/-- the loop of `batch.Write` -/
def MBatch.flush (d : KV) (b : MBatch) : KV := b.writes.foldl MWrite.apply d

/-- `iterator` of db/memory/iterator.go (`keys`/`values` zipped). -/
structure MIter where
  keys : KV
  cur : Int
  positioned : Bool
  deriving Repr

def MIter.valid (it : MIter) : Bool := 0 ≤ it.cur && it.cur < it.keys.length

def MIter.kv (it : MIter) : Option (Key × Val) :=
  if it.valid then it.keys[it.cur.toNat]? else none

def MIter.first (it : MIter) : MIter × Bool :=
  let it' : MIter := { it with cur := 0, positioned := true }
  (it', it'.valid)

def MIter.prev (it : MIter) : MIter × Bool :=
  if !it.positioned then it.first
  else if it.cur ≤ 0 then ({ it with cur := -1 }, false)
  else ({ it with cur := it.cur - 1 }, true)

def MIter.next (it : MIter) : MIter × Bool :=
  let c : Int := if it.cur < it.keys.length then it.cur + 1 else it.cur
  let it' : MIter := { it with cur := c, positioned := true }
  (it', it'.valid)

def MIter.seek (it : MIter) (t : Key) : MIter × Bool :=
  let j := seekIdx t it.keys
  ({ it with cur := j, positioned := true }, decide (j < it.keys.length))

def MIter.mk' (d : KV) (p : Key) (wub : Bool) : MIter :=
  ⟨d.filter (fun x => memBound p wub x.1), -1, false⟩

/-- the loop of `batch.DeleteRange`: `for ok := it.Seek(start); ok; ok = it.Next()` -/
def memDelRangeLoop (e : Key) : Nat → MIter → Bool → MBatch → MBatch
  | 0, _, _, b => b
  | fuel + 1, it, ok, b =>
    if ok then
      match it.kv with
      | some (k, _) =>
        if lexLe e k then b
        else
          let r := it.next
          memDelRangeLoop e fuel r.1 r.2 (b.del k)
      | none => b
    else b

/-- `batch.DeleteRange`: iterate over a flushed copy (`b.NewIterator(nil, false)`), seek to `start`,
stop at `end`, record a `Delete` per key found — i.e. materialised at call time. -/
def MBatch.delRange (d : KV) (b : MBatch) (s e : Key) : MBatch :=
  let content := b.flush d
  let it := MIter.mk' content [] false
  let r := it.seek s
  memDelRangeLoop e (content.length + 1) r.1 r.2 b

def memImpl (c : MemCfg) : Impl MBatch MIter where
  bempty _ := ⟨[], [], 0⟩
  bput := MBatch.put
  bdel := MBatch.del
  bdelRange := MBatch.delRange
  bget _ d b k := .ofOption (b.get d k)
  bhas _ d b k := .bool (b.get d k).isSome
  bview _ d b := .inr (b.flush d)
  bflush := MBatch.flush
  bsize b := b.size
  dget d k := .ofOption (d.get k)
  dhas d k := .bool (d.get k).isSome
  sget d k := .ofOption (d.get k)
  shas d k := .bool (d.get k).isSome
  sclosed := .errClosed
  imk := MIter.mk'
  ifirst it := it.first
  inext := MIter.next
  iprev := MIter.prev
  iseek := MIter.seek
  icur := MIter.kv
  invalidValue := .errInvalid
  reentrant := c.cbUnlocked

/-! ## Worlds and operations -/

inductive Src
  | db | batch (n : Nat) | snap (n : Nat)
  deriving DecidableEq, Repr

/-- Calls made inside an `Update`/`Write` callback. -/
inductive BOp
  | put (k : Key) (v : Val) | del (k : Key) | delRange (s e : Key)
  | get (k : Key) (fail : Bool) | has (k : Key) | scan (p : Key) (u : Bool)
  deriving DecidableEq, Repr

inductive Op
  | put (k : Key) (v : Val) | del (k : Key) | delRange (s e : Key)
  | get (src : Src) (k : Key) (fail : Bool) | has (src : Src) (k : Key)
  /-- `Get(k, cb)` whose callback, when called, does `store.Put(k2, v2)` -/
  | getw (src : Src) (k k2 : Key) (v2 : Val)
  | iter (src : Src) (p : Key) (u : Bool) | scan (src : Src) (p : Key) (u : Bool)
  /-- `for it.Seek(t), it.Prev(); it.Valid(); it.Prev()`: reverse iteration from `t` -/
  | rscan (src : Src) (p : Key) (u : Bool) (t : Key)
  | newBatch (idx : Bool)
  | bput (b : Nat) (k : Key) (v : Val) | bdel (b : Nat) (k : Key) | bdelRange (b : Nat) (s e : Key)
  | bsize (b : Nat) | bwrite (b : Nat) | bclose (b : Nat)
  | snap | sclose (s : Nat)
  | first (i : Nat) | next (i : Nat) | prev (i : Nat) | seek (i : Nat) (t : Key)
  | value (i : Nat) | key (i : Nat) | iclose (i : Nat)
  | update (idx fail : Bool) (ops : List BOp)
  /-- close and reopen a durable store / flush it to disk: no observable effect -/
  | reopen
  | close
  deriving DecidableEq, Repr

/-- One backend while a sequence runs. Handle tables are total functions. Batches: `none` = closed
(or, at indices `>= nb`, never allocated). Snapshots and iterators: `none` = no such handle,
`some none` = closed. -/
structure World (B I : Type) where
  db : Option KV
  batches : Nat → Option (B × Bool)
  nb : Nat
  snaps : Nat → Option (Option KV)
  ns : Nat
  iters : Nat → Option (Option I)
  ni : Nat
  /-- where iterator `i` was created from (ghost: only the contract predicate reads it) -/
  iorigin : Nat → Src

def World.init {B I : Type} : World B I :=
  ⟨some [], fun _ => none, 0, fun _ => none, 0, fun _ => none, 0, fun _ => .db⟩

def upd {α : Type} (f : Nat → α) (i : Nat) (x : α) : Nat → α := fun j => if j = i then x else f j

def readGet (g : RGet) (fail : Bool) : ROut :=
  match g with
  | .notfound => .notfound
  | .err e => e
  | .val v => if fail then .errCb else .val v

section
variable {B I : Type} (M : Impl B I)

def scanLoop : Nat → I → Bool → List (Key × Val)
  | 0, _, _ => []
  | fuel + 1, it, ok =>
    if ok then
      match M.icur it with
      | some kv =>
        let r := M.inext it
        kv :: scanLoop fuel r.1 r.2
      | none => []
    else []

/-- `it := NewIterator(p, u); for ok := it.First(); ok; ok = it.Next() { collect }; it.Close()` -/
def scan (content : KV) (p : Key) (u : Bool) : List (Key × Val) :=
  let r := M.ifirst (M.imk content p u)
  scanLoop M (content.length + 1) r.1 r.2

def rscanLoop : Nat → I → Bool → List (Key × Val)
  | 0, _, _ => []
  | fuel + 1, it, ok =>
    if ok then
      match M.icur it with
      | some kv =>
        let r := M.iprev it
        kv :: rscanLoop fuel r.1 r.2
      | none => []
    else []

/-- `it.Seek(t); for ok := it.Prev(); ok; ok = it.Prev() { collect }` -/
def rscan (content : KV) (p : Key) (u : Bool) (t : Key) : List (Key × Val) :=
  let s := M.iseek (M.imk content p u) t
  let r := M.iprev s.1
  rscanLoop M (content.length + 1) r.1 r.2

/-- what a reader of `src` works on: `.inl` = error, `.inr (lookup, has, content for iteration)` -/
def World.read (w : World B I) : Src → Sum ROut ((Key → RGet) × (Key → ROut) × Sum ROut KV)
  | .db =>
    match w.db with
    | none => .inl .errClosed
    | some d => .inr (M.dget d, M.dhas d, .inr d)
  | .snap n =>
    match w.snaps n with
    | none => .inl .badHandle
    | some none => .inl M.sclosed
    | some (some d) => .inr (M.sget d, M.shas d, .inr d)
  | .batch n =>
    match w.batches n with
    | some (b, idx) =>
      .inr (M.bget idx (w.db.getD []) b, M.bhas idx (w.db.getD []) b, M.bview idx (w.db.getD []) b)
    | none => .inl (if n < w.nb then .errClosed else .badHandle)

def runInner (base : KV) (idx : Bool) : List BOp → B → B × List ROut
  | [], b => (b, [])
  | op :: rest, b =>
    let (b', o) : B × ROut :=
      match op with
      | .put k v => (M.bput b k v, .ok)
      | .del k => (M.bdel b k, .ok)
      | .delRange s e => (M.bdelRange base b s e, .ok)
      | .get k fail => (b, if idx then readGet (M.bget idx base b k) fail else .badOp)
      | .has k => (b, if idx then M.bhas idx base b k else .badOp)
      | .scan p u =>
        (b, if idx then
              (match M.bview idx base b with
               | .inr c => .list (scan M c p u)
               | .inl e => e)
            else .badOp)
    let r := runInner base idx rest b'
    (r.1, o :: r.2)

def movePos (w : World B I) (i : Nat) (f : I → I × Bool) : World B I × Out :=
  match w.iters i with
  | none => (w, .r .badHandle)
  | some none => (w, .r .panic)
  | some (some it) =>
    let r := f it
    ({ w with iters := upd w.iters i (some (some r.1)) }, .pos r.2 (M.icur r.1))

def batchGone (w : World B I) (b : Nat) : Out := .r (if b < w.nb then .errClosed else .badHandle)

def step (w : World B I) : Op → World B I × Out
  | .put k v =>
    match w.db with
    | none => (w, .r .errClosed)
    | some d => ({ w with db := some (d.put k v) }, .r .ok)
  | .del k =>
    match w.db with
    | none => (w, .r .errClosed)
    | some d => ({ w with db := some (d.del k) }, .r .ok)
  | .delRange s e =>
    match w.db with
    | none => (w, .r .errClosed)
    | some d => ({ w with db := some (d.delRange s e) }, .r .ok)
  | .get src k fail =>
    match w.read M src with
    | .inl e => (w, .r e)
    | .inr (g, _, _) => (w, .r (readGet (g k) fail))
  | .has src k =>
    match w.read M src with
    | .inl e => (w, .r e)
    | .inr (_, h, _) => (w, .r (h k))
  | .getw src k k2 v2 =>
    match w.read M src with
    | .inl e => (w, .r e)
    | .inr (g, _, _) =>
      match g k with
      | .val v =>
        if M.reentrant then
          match w.db with
          | some d => ({ w with db := some (d.put k2 v2) }, .r (.val v))
          | none => (w, .r .errClosed)
        else (w, .r .hang)
      | .notfound => (w, .r .notfound)
      | .err e => (w, .r e)
  | .iter src p u =>
    match w.read M src with
    | .inl e => ({ w with ni := w.ni + 1 }, .r e)
    | .inr (_, _, .inl e) => ({ w with ni := w.ni + 1 }, .r e)
    | .inr (_, _, .inr c) =>
      ({ w with iters := upd w.iters w.ni (some (some (M.imk c p u))), ni := w.ni + 1,
                iorigin := upd w.iorigin w.ni src }, .handle w.ni)
  | .scan src p u =>
    match w.read M src with
    | .inl e => (w, .r e)
    | .inr (_, _, .inl e) => (w, .r e)
    | .inr (_, _, .inr c) => (w, .r (.list (scan M c p u)))
  | .rscan src p u t =>
    match w.read M src with
    | .inl e => (w, .r e)
    | .inr (_, _, .inl e) => (w, .r e)
    | .inr (_, _, .inr c) => (w, .r (.list (rscan M c p u t)))
  | .newBatch idx =>
    ({ w with batches := upd w.batches w.nb (some (M.bempty idx, idx)), nb := w.nb + 1 }, .handle w.nb)
  | .bput b k v =>
    match w.batches b with
    | none => (w, batchGone w b)
    | some (x, idx) => ({ w with batches := upd w.batches b (some (M.bput x k v, idx)) }, .r .ok)
  | .bdel b k =>
    match w.batches b with
    | none => (w, batchGone w b)
    | some (x, idx) => ({ w with batches := upd w.batches b (some (M.bdel x k, idx)) }, .r .ok)
  | .bdelRange b s e =>
    match w.batches b with
    | none => (w, batchGone w b)
    | some (x, idx) =>
      ({ w with batches := upd w.batches b (some (M.bdelRange (w.db.getD []) x s e, idx)) }, .r .ok)
  | .bsize b =>
    match w.batches b with
    | none => (w, if b < w.nb then .size 0 else .r .badHandle)
    | some (x, _) => (w, .size (M.bsize x))
  | .bwrite b =>
    match w.batches b with
    | none => (w, batchGone w b)
    | some (x, _) =>
      match w.db with
      | none => (w, .r .errClosed)
      | some d => ({ w with db := some (M.bflush d x), batches := upd w.batches b none }, .r .ok)
  | .bclose b =>
    match w.batches b with
    | none => (w, batchGone w b)
    | some _ => ({ w with batches := upd w.batches b none }, .r .ok)
  | .snap =>
    match w.db with
    | none => (w, .r .panic)
    | some d => ({ w with snaps := upd w.snaps w.ns (some (some d)), ns := w.ns + 1 }, .handle w.ns)
  | .sclose s =>
    match w.snaps s with
    | none => (w, .r .badHandle)
    | some none => (w, .r .badHandle)
    | some (some _) => ({ w with snaps := upd w.snaps s (some none) }, .r .ok)
  | .first i => movePos M w i M.ifirst
  | .next i => movePos M w i M.inext
  | .prev i => movePos M w i M.iprev
  | .seek i t => movePos M w i (fun it => M.iseek it t)
  | .value i =>
    match w.iters i with
    | none => (w, .r .badHandle)
    | some none => (w, .r .errClosed)
    | some (some it) =>
      match M.icur it with
      | some (_, v) => (w, .r (.val v))
      | none => (w, .r M.invalidValue)
  | .key i =>
    match w.iters i with
    | none => (w, .r .badHandle)
    | some none => (w, .r .panic)
    | some (some it) =>
      match M.icur it with
      | some (k, _) => (w, .r (.key k))
      | none => (w, .r .vnil)
  | .iclose i =>
    match w.iters i with
    | none => (w, .r .badHandle)
    | some none => (w, .r .errClosed)
    | some (some _) => ({ w with iters := upd w.iters i (some none) }, .r .ok)
  | .update idx fail ops =>
    match w.db with
    | none => (w, .upd [] .errClosed)
    | some d =>
      let r := runInner M d idx ops (M.bempty idx)
      if fail then (w, .upd r.2 .errCb)
      else ({ w with db := some (M.bflush d r.1) }, .upd r.2 .ok)
  | .reopen =>
    match w.db with
    | none => (w, .r .errClosed)
    | some _ => (w, .r .ok)
  | .close => ({ w with db := none }, .r .ok)

/-- outputs of a whole sequence -/
def run : World B I → List Op → List Out
  | _, [] => []
  | w, op :: rest =>
    let r := step M w op
    r.2 :: run r.1 rest

/-- final state of a whole sequence -/
def exec : World B I → List Op → World B I
  | w, [] => w
  | w, op :: rest => exec (step M w op).1 rest

end

/-! ## The contract boundary

Three separate, decidable predicates, all evaluated on the CONTRACT's own state:
* `documented w op` — what db/iterator.go, db/batch.go and Pebble rule out (no reference to any
  implementation defect);
* `memOK c op` — the inputs on which db/memory (variant `c`) is known to misbehave for a reason
  other than F5: a `Get` callback that writes to the store while `c.cbUnlocked = false`;
* `f5Free w'` — evaluated on the state AFTER the step: for every live batch, applying what db/memory
  has recorded (`mlog`, ranges materialised at call time) to the present store gives the same
  content as applying the contract's log. It fails exactly when the store gained, inside a range a
  live batch deleted earlier, a key that the batch has not seen (finding F5).
-/

def noRange (b : SBatch) : Bool := b.log.all (fun o => !o.isRange)

/-- no live iterator was created from `src` (Pebble: an iterator must be closed before the batch
or snapshot it reads from) -/
def noLiveIterFrom (w : World SBatch SIter) (src : Src) : Bool :=
  (List.range w.ni).all fun n =>
    match w.iters n with
    | some (some _) => w.iorigin n != src
    | _ => true

def noLiveIters (w : World SBatch SIter) : Bool :=
  (List.range w.ni).all (fun n => match w.iters n with | some (some _) => false | _ => true)

def noLiveSnaps (w : World SBatch SIter) : Bool :=
  (List.range w.ns).all (fun n => match w.snaps n with | some (some _) => false | _ => true)

def noLiveBatches (w : World SBatch SIter) : Bool :=
  (List.range w.nb).all (fun n => (w.batches n).isNone)

/-- reads from `src` are inside the contract: handles only while the store is open, batches only
when indexed, snapshots only before their `Close` -/
def srcOK (w : World SBatch SIter) : Src → Bool
  | .db => true
  | .batch n =>
    w.db.isSome && (match w.batches n with | some (_, idx) => idx | none => true)
  | .snap n =>
    w.db.isSome && (match w.snaps n with | some none => false | _ => true)

def documented (w : World SBatch SIter) : Op → Bool
  | .get src _ _ | .has src _ | .iter src _ _ | .scan src _ _ | .rscan src _ _ _ => srcOK w src
  | .getw src _ _ _ => srcOK w src && (match src with | .snap _ => false | _ => true)
  | .bdelRange _ _ _ => w.db.isSome
  | .bsize b => match w.batches b with | some (x, _) => noRange x | none => true
  | .bwrite b => noLiveIterFrom w (.batch b)
  | .bclose b => noLiveIterFrom w (.batch b)
  | .sclose s => w.db.isSome && noLiveIterFrom w (.snap s)
  | .first _ | .seek _ _ | .iclose _ | .next _ | .prev _ => w.db.isSome
  | .value i | .key i =>
    w.db.isSome &&
    match w.iters i with
    | some (some it) => it.cur.isSome
    | _ => true
  | .reopen => noLiveIters w && noLiveSnaps w && noLiveBatches w
  | .close => noLiveIters w && noLiveSnaps w
  | _ => true

def memOK (c : MemCfg) : Op → Bool
  | .getw _ _ _ _ => c.cbUnlocked
  | _ => true

def batchAgrees (d : KV) (b : SBatch) : Bool := applyLog d b.mlog == applyLog d b.log

def f5Free (w : World SBatch SIter) : Bool :=
  match w.db with
  | none => true
  | some d =>
    (List.range w.nb).all fun n =>
      match w.batches n with
      | some (b, _) => batchAgrees d b
      | none => true

/-- every step is inside the documented contract -/
def inDocumented : World SBatch SIter → List Op → Bool
  | _, [] => true
  | w, op :: rest => documented w op && inDocumented (step specImpl w op).1 rest

/-- … and db/memory (variant `c`) is not on one of its known defects -/
def inContract (c : MemCfg) : World SBatch SIter → List Op → Bool
  | _, [] => true
  | w, op :: rest =>
    documented w op && memOK c op && f5Free (step specImpl w op).1 &&
      inContract c (step specImpl w op).1 rest

end Juno.C15
