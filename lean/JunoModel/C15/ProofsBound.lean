import JunoModel.C15.ProofsOrder
/-! `dbutils.UpperBound`: the loop as written in Go is the recursive definition; the bound is the LEAST
byte string above every key with the prefix; for an all-`0xff` (or empty) prefix there is none. -/
namespace Juno.C15

theorem upperBoundLoop_cons (b : UInt8) (rest : Key) : ∀ n : Nat,
    upperBoundLoop (b :: rest) (n + 1) =
      match upperBoundLoop rest n with
      | some u => some (b :: u)
      | none => if b == 255 then none else some [b + 1] := by
  intro n
  induction n with
  | zero => simp [upperBoundLoop]
  | succ n ih =>
    rw [show upperBoundLoop (b :: rest) (n + 1 + 1) =
      (if (b :: rest).getD (n + 1) 0 == 255 then upperBoundLoop (b :: rest) (n + 1)
       else some ((b :: rest).take (n + 1) ++ [(b :: rest).getD (n + 1) 0 + 1])) from rfl]
    rw [show upperBoundLoop rest (n + 1) =
      (if rest.getD n 0 == 255 then upperBoundLoop rest n
       else some (rest.take n ++ [rest.getD n 0 + 1])) from rfl]
    have hg : (b :: rest).getD (n + 1) 0 = rest.getD n 0 := by simp [List.getD]
    rw [hg]
    by_cases h : (rest.getD n 0 == 255) = true
    · simp only [h, if_true]; exact ih
    · simp only [h]; simp

/-- the Go loop computes the recursive `upperBound` -/
theorem upperBoundGo_eq (p : Key) : upperBoundGo p = upperBound p := by
  induction p with
  | nil => rfl
  | cons b rest ih =>
    unfold upperBoundGo at ih ⊢
    rw [List.length_cons, upperBoundLoop_cons, ih]
    conv => rhs; unfold upperBound
    cases upperBound rest <;> rfl

/-- every key with prefix `p` is below the bound, and the bound is the least such byte string -/
theorem upperBound_least_aux (p u : Key) (hu : upperBound p = some u) :
    (∀ k, hasPrefix k p = true → lexLt k u = true) ∧
    (∀ u', (∀ k, hasPrefix k p = true → lexLt k u' = true) → lexLe u u' = true) := by
  have spec := hasPrefix_iff_range p
  simp only [hu] at spec
  refine ⟨fun k hk => ((spec k).mp hk).2, ?_⟩
  intro u' hall
  -- if u' < u then, being above p itself, u' has the prefix, hence u' < u'
  cases hlt : lexLt u' u with
  | false => simp [lexLe, hlt]
  | true =>
    have hp : hasPrefix p p = true := (spec p).mpr ⟨lexLe_refl p, by
      have := (hasPrefix_iff_range p p)
      simp only [hu] at this
      have hpp : hasPrefix p p = true := by
        clear spec hall hlt hu this
        induction p with
        | nil => rfl
        | cons x xs ih => simp [hasPrefix, ih]
      exact (this.mp hpp).2⟩
    have h1 : lexLt p u' = true := hall p hp
    have h2 : hasPrefix u' p = true := (spec u').mpr ⟨lexLe_of_lt h1, hlt⟩
    have h3 := hall u' h2
    simp [lexLt_irrefl] at h3

/-- no bound: for an empty or all-`0xff` prefix no byte string is above every key with the prefix -/
theorem upperBound_unbounded_aux (p : Key) (hu : upperBound p = none) (u' : Key) :
    ∃ k, hasPrefix k p = true ∧ lexLe u' k = true := by
  have spec := hasPrefix_iff_range p
  simp only [hu, and_true] at spec
  cases h : lexLe p u' with
  | true => exact ⟨u', (spec u').mpr h, lexLe_refl u'⟩
  | false =>
    refine ⟨p, (spec p).mpr (lexLe_refl p), ?_⟩
    have h' : lexLt u' p = true := by
      cases hh : lexLt u' p with
      | true => rfl
      | false => simp [lexLe, hh] at h
    exact lexLe_of_lt h'

end Juno.C15
