import JunoModel.C15.ProofsProps
import JunoModel.C15.ModelRange
/-! The repaired db/memory batch (`mem2Impl`: `DeleteRange` recorded as a range) simulates the
contract on the whole documented contract — no F5 exclusion. -/
namespace Juno.C15

theorem markRange_get (s e : Key) (wm : SMap MWrite) (k : Key) :
    (markRange s e wm).get k =
      (wm.get k).map (fun w => if inRange s e k then (⟨k, [], true⟩ : MWrite) else w) := by
  induction wm with
  | nil => rfl
  | cons x r ih =>
    obtain ⟨kx, w⟩ := x
    simp only [markRange, List.map_cons, SMap.get_cons] at ih ⊢
    by_cases hk : kx = k
    · subst hk
      cases inRange s e kx <;> simp
    · cases inRange s e kx <;> simp [hk, ih]

theorem inRanges_append (rs : List (Key × Key)) (s e k : Key) :
    inRanges (rs ++ [(s, e)]) k = (inRanges rs k || inRange s e k) := by
  simp [inRanges, List.any_append]

/-- reads of the batch = lookup in the store with the batch's writes applied, on EVERY store -/
def m2OK (b : M2Batch) : Prop := ∀ (d : KV) (k : Key), b.get d k = (applyLog d b.writes).get k

theorem m2OK_empty : m2OK ⟨[], [], [], 0⟩ := fun _ _ => rfl

theorem m2OK_put {b : M2Batch} (h : m2OK b) (k : Key) (v : Val) : m2OK (b.put k v) := by
  intro d k'
  have hb := h d k'
  simp only [M2Batch.get, M2Batch.put, SMap.get_put, applyLog_append, LogOp.apply] at hb ⊢
  by_cases e : k = k'
  · simp [e]
  · simp only [e, if_false]; exact hb

theorem m2OK_del {b : M2Batch} (h : m2OK b) (k : Key) : m2OK (b.del k) := by
  intro d k'
  have hb := h d k'
  simp only [M2Batch.get, M2Batch.del, SMap.get_put, applyLog_append, LogOp.apply, SMap.get_del] at hb ⊢
  by_cases e : k = k'
  · simp [e]
  · simp only [e, if_false]; exact hb

theorem m2OK_delRange {b : M2Batch} (h : m2OK b) (s e : Key) : m2OK (b.delRange s e) := by
  intro d k
  have hb := h d k
  simp only [M2Batch.get, M2Batch.delRange, markRange_get, applyLog_append, LogOp.apply,
    SMap.get_delRange, inRanges_append] at hb ⊢
  rw [← hb]
  cases hw : b.writeMap.get k with
  | none =>
    simp only [Option.map_none]
    cases inRange s e k <;> cases inRanges b.ranges k <;> simp
  | some w =>
    simp only [Option.map_some]
    cases inRange s e k <;> simp

theorem m2_flush_eq (d : KV) (b : M2Batch) : b.flush d = applyLog d b.writes := rfl

/-- repaired db/memory batch `mb` represents contract batch `sb`: same log, same size, reads right -/
def rbM2 (_ : Bool) (_ : Option KV) (mb : M2Batch) (sb : SBatch) : Prop :=
  mb.writes = sb.log ∧ m2OK mb ∧ mb.size = sb.size

def mem2Sim (c : MemCfg) : Sim (mem2Impl c) where
  rb := rbM2
  ri := RI
  okOp := memOK c
  needF5 := false
  empty := fun _ _ => ⟨rfl, m2OK_empty, rfl⟩
  put := fun k v h => ⟨by simp [mem2Impl, M2Batch.put, specImpl, h.1], m2OK_put h.2.1 k v,
    by simp [mem2Impl, M2Batch.put, specImpl, h.2.2]⟩
  del := fun k h => ⟨by simp [mem2Impl, M2Batch.del, specImpl, h.1], m2OK_del h.2.1 k,
    by simp [mem2Impl, M2Batch.del, specImpl, h.2.2]⟩
  delRange := fun s e _ h => ⟨by simp [mem2Impl, M2Batch.delRange, specImpl, h.1], m2OK_delRange h.2.1 s e,
    by simp [mem2Impl, M2Batch.delRange, specImpl, h.2.2]⟩
  get := fun {d mb sb} k _ h => by
    show RGet.ofOption (M2Batch.get d mb k) = RGet.ofOption ((applyLog d sb.log).get k)
    rw [h.2.1 d k, h.1]
  has := fun {d mb sb} k _ h => by
    show ROut.bool (M2Batch.get d mb k).isSome = ROut.bool ((applyLog d sb.log).get k).isSome
    rw [h.2.1 d k, h.1]
  view := fun {d mb sb} _ h => by
    show (Sum.inr (M2Batch.flush d mb) : Sum ROut KV) = Sum.inr (applyLog d sb.log)
    rw [m2_flush_eq, h.1]
  flush := fun {i d mb sb} _ h => by
    show M2Batch.flush d mb = applyLog d sb.log
    rw [m2_flush_eq, h.1]
  size := fun _ _ h _ => h.2.2
  rebase := fun _ h _ => h
  dget := fun _ _ => rfl
  dhas := fun _ _ => rfl
  sget := fun _ _ => rfl
  shas := fun _ _ => rfl
  mkIter := RI_mk
  first := fun h => first_sim h
  next := fun h => next_sim h
  prev := fun h => prev_sim h
  seek := fun t h => seek_sim h t
  cur := fun h => RI_cur h
  reent := fun _ _ _ _ h => h

/-- the boundary of the repaired variant: the documented contract and (only while the `Get`
callback still runs under the store lock) no re-entrant callback -/
def inDocumentedRE (c : MemCfg) : World SBatch SIter → List Op → Bool
  | _, [] => true
  | w, op :: rest => documented w op && memOK c op && inDocumentedRE c (step specImpl w op).1 rest

theorem inBoundary_mem2 (c : MemCfg) : ∀ (ops : List Op) (w : World SBatch SIter),
    inBoundary (mem2Sim c) w ops = inDocumentedRE c w ops := by
  intro ops
  induction ops with
  | nil => intro w; rfl
  | cons op rest ih =>
    intro w
    simp only [inBoundary, inDocumentedRE, ih]
    simp [mem2Sim]

theorem inDocumentedRE_unlocked : ∀ (ops : List Op) (w : World SBatch SIter),
    inDocumentedRE ⟨true⟩ w ops = inDocumented w ops := by
  intro ops
  induction ops with
  | nil => intro w; rfl
  | cons op rest ih =>
    intro w
    simp only [inDocumentedRE, inDocumented, ih]
    cases op <;> simp [memOK]

theorem inDocumentedRE_of_inContract (c : MemCfg) : ∀ (ops : List Op) (w : World SBatch SIter),
    inContract c w ops = true → inDocumentedRE c w ops = true := by
  intro ops
  induction ops with
  | nil => intro w _; rfl
  | cons op rest ih =>
    intro w h
    simp only [inContract, Bool.and_eq_true] at h
    simp only [inDocumentedRE, Bool.and_eq_true]
    exact ⟨⟨h.1.1.1, h.1.1.2⟩, ih _ h.2⟩

theorem inDocumented_of_inDocumentedRE (c : MemCfg) : ∀ (ops : List Op) (w : World SBatch SIter),
    inDocumentedRE c w ops = true → inDocumented w ops = true := by
  intro ops
  induction ops with
  | nil => intro w _; rfl
  | cons op rest ih =>
    intro w h
    simp only [inDocumentedRE, Bool.and_eq_true] at h
    simp only [inDocumented, Bool.and_eq_true]
    exact ⟨h.1.1, ih _ h.2⟩

/-- the repaired batch built by issuing the calls of `log` -/
def mem2Build : List LogOp → M2Batch → M2Batch
  | [], b => b
  | .put k v :: rest, b => mem2Build rest (b.put k v)
  | .del k :: rest, b => mem2Build rest (b.del k)
  | .delRange s e :: rest, b => mem2Build rest (b.delRange s e)

theorem mem2Build_ok : ∀ (log : List LogOp) (b : M2Batch), m2OK b →
    m2OK (mem2Build log b) ∧ (mem2Build log b).writes = b.writes ++ log := by
  intro log
  induction log with
  | nil => intro b h; exact ⟨h, by simp [mem2Build]⟩
  | cons o rest ih =>
    intro b h
    cases o with
    | put k v =>
      obtain ⟨h1, h2⟩ := ih _ (m2OK_put h k v)
      exact ⟨h1, by rw [mem2Build, h2]; simp [M2Batch.put]⟩
    | del k =>
      obtain ⟨h1, h2⟩ := ih _ (m2OK_del h k)
      exact ⟨h1, by rw [mem2Build, h2]; simp [M2Batch.del]⟩
    | delRange s e =>
      obtain ⟨h1, h2⟩ := ih _ (m2OK_delRange h s e)
      exact ⟨h1, by rw [mem2Build, h2]; simp [M2Batch.delRange]⟩

end Juno.C15
