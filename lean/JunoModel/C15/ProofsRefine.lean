import JunoModel.C15.ProofsStep
/-! `step_sim`: every in-contract step preserves the simulation and produces equal outputs. -/
namespace Juno.C15

theorem step_sim (cfg : Cfg) {wm : World MBatch MIter} {ws : World SBatch SIter} (h : R wm ws)
    (op : Op) (hok : stepOK cfg ws op = true) :
    (step (memImpl cfg) wm op).2 = (step specImpl ws op).2 ∧
    R (step (memImpl cfg) wm op).1 (step specImpl ws op).1 := by
  cases op with
  | put k v =>
    simp only [step, h.db]
    cases hd : ws.db with
    | none => exact ⟨by first | rfl | trivial, h⟩
    | some d =>
      refine ⟨by first | rfl | trivial, ?_⟩
      have := R_commit h (d.put k v) ((h.sorted d hd).put k v) none (by simpa [stepOK] using hok)
      simpa only [commit_none_eq] using this
  | del k =>
    simp only [step, h.db]
    cases hd : ws.db with
    | none => exact ⟨by first | rfl | trivial, h⟩
    | some d =>
      refine ⟨by first | rfl | trivial, ?_⟩
      have := R_commit h (d.del k) ((h.sorted d hd).del k) none (by simpa [stepOK] using hok)
      simpa only [commit_none_eq] using this
  | delRange s e =>
    simp only [step, h.db]
    cases hd : ws.db with
    | none => exact ⟨by first | rfl | trivial, h⟩
    | some d =>
      refine ⟨by first | rfl | trivial, ?_⟩
      have := R_commit h (d.delRange s e) ((h.sorted d hd).delRange s e) none (by simpa [stepOK] using hok)
      simpa only [commit_none_eq] using this
  | get src k fail =>
    simp only [step]
    rcases read_sim cfg h src with ⟨e, h1, h2⟩ | ⟨g1, g2, c, h1, h2, hg⟩
    · rw [h1, h2]; exact ⟨by first | rfl | trivial, h⟩
    · rw [h1, h2]; simp only [hg k]; exact ⟨by first | rfl | trivial, h⟩
  | has src k =>
    simp only [step]
    rcases read_sim cfg h src with ⟨e, h1, h2⟩ | ⟨g1, g2, c, h1, h2, hg⟩
    · rw [h1, h2]; exact ⟨by first | rfl | trivial, h⟩
    · rw [h1, h2]; simp only [hg k]; exact ⟨by first | rfl | trivial, h⟩
  | scan src p u =>
    have hargs : iterArgsOK cfg p u = true := by
      simp only [stepOK, Bool.and_eq_true] at hok; exact hok.2
    simp only [step]
    rcases read_sim cfg h src with ⟨e, h1, h2⟩ | ⟨g1, g2, c, h1, h2, hg⟩
    · rw [h1, h2]; exact ⟨by first | rfl | trivial, h⟩
    · rw [h1, h2]; simp only [scan_sim cfg c p u hargs]; exact ⟨by first | rfl | trivial, h⟩
  | iter src p u =>
    have hargs : iterArgsOK cfg p u = true := by
      simp only [stepOK, Bool.and_eq_true] at hok; exact hok.2
    simp only [step]
    rcases read_sim cfg h src with ⟨e, h1, h2⟩ | ⟨g1, g2, c, h1, h2, hg⟩
    · rw [h1, h2]
      exact ⟨by first | rfl | trivial, { h with ni := (by first | rfl | simp [h.ni]) }⟩
    · rw [h1, h2]
      simp only [h.ni]
      refine ⟨by first | rfl | trivial, ?_⟩
      have hri : RIo (some (some ((memImpl cfg).imk c p u))) (some (some (specImpl.imk c p u))) :=
        RI_mk cfg c p u hargs
      have := R_setiter h ws.ni (some ((memImpl cfg).imk c p u)) (some (specImpl.imk c p u)) hri
        (upd ws.iorigin ws.ni src)
      exact { this with ni := (by first | rfl | simp [h.ni]) }
  | newBatch idx =>
    simp only [step, h.nb]
    refine ⟨by first | rfl | trivial, ?_⟩
    exact {
      db := h.db, sorted := h.sorted, nb := (by first | rfl | simp [h.nb]), ns := h.ns, ni := h.ni,
      snaps := h.snaps,
      batches := by
        intro n
        by_cases hn : n = ws.nb
        · subst hn; simp only [upd_same]; exact ⟨by first | rfl | trivial, RB_empty _⟩
        · simp only [upd_other _ _ _ hn]; exact h.batches n
      fresh := by
        intro n hn
        have : n ≠ ws.nb := by
          have : ws.nb + 1 ≤ n := hn
          omega
        simp only [upd_other _ _ _ this]
        exact h.fresh n (by have : ws.nb + 1 ≤ n := hn; omega)
      iters := h.iters }
  | bput b k v =>
    cases hsb : ws.batches b with
    | none =>
      simp only [step, hsb, (batches_none_iff h b).mpr hsb]; exact ⟨by first | rfl | trivial, h⟩
    | some y =>
      obtain ⟨sb, j⟩ := y
      obtain ⟨mb, hm, hrb⟩ := batches_some h hsb
      simp only [step, hm, hsb]
      exact ⟨by first | rfl | trivial, R_setbatch h b (by rw [hsb]; simp) _ _ j (RB_put hrb k v)⟩
  | bdel b k =>
    cases hsb : ws.batches b with
    | none =>
      simp only [step, hsb, (batches_none_iff h b).mpr hsb]; exact ⟨by first | rfl | trivial, h⟩
    | some y =>
      obtain ⟨sb, j⟩ := y
      obtain ⟨mb, hm, hrb⟩ := batches_some h hsb
      simp only [step, hm, hsb]
      exact ⟨by first | rfl | trivial, R_setbatch h b (by rw [hsb]; simp) _ _ j (RB_del hrb k)⟩
  | bdelRange b s e =>
    cases hsb : ws.batches b with
    | none =>
      simp only [step, hsb, (batches_none_iff h b).mpr hsb]; exact ⟨by first | rfl | trivial, h⟩
    | some y =>
      obtain ⟨sb, j⟩ := y
      obtain ⟨mb, hm, hrb⟩ := batches_some h hsb
      have hbase : wm.db.getD [] = ws.db.getD [] := by rw [h.db]
      simp only [step, hm, hsb, hbase]
      exact ⟨by first | rfl | trivial, R_setbatch h b (by rw [hsb]; simp) _ _ j (RB_delRange cfg (sorted_base h.sorted) hrb s e)⟩
  | bsize b =>
    cases hsb : ws.batches b with
    | none =>
      simp only [step, hsb, (batches_none_iff h b).mpr hsb]; exact ⟨by first | rfl | trivial, h⟩
    | some y =>
      obtain ⟨sb, j⟩ := y
      obtain ⟨mb, hm, hrb⟩ := batches_some h hsb
      simp only [step, hm, hsb]
      have hn : noRange sb = true := by simpa [stepOK, hsb] using hok
      refine ⟨?_, h⟩
      show Out.size mb.size = Out.size sb.size
      rw [(hrb.2.2 hn).2]
  | bwrite b =>
    cases hsb : ws.batches b with
    | none =>
      simp only [step, hsb, (batches_none_iff h b).mpr hsb]; exact ⟨by first | rfl | trivial, h⟩
    | some y =>
      obtain ⟨sb, j⟩ := y
      obtain ⟨mb, hm, hrb⟩ := batches_some h hsb
      cases hd : ws.db with
      | none => simp only [step, hm, hsb, h.db, hd]; exact ⟨by first | rfl | trivial, h⟩
      | some d =>
        simp only [step, hm, hsb, h.db, hd]
        refine ⟨by first | rfl | trivial, ?_⟩
        have hfl : (memImpl cfg).bflush d mb = specImpl.bflush d sb := by
          have := hrb.2.1
          rw [hd] at this
          exact this
        have hno : othersNoRange ws (some b) = true := by
          simp only [stepOK, Bool.and_eq_true] at hok; exact hok.1
        have := R_commit h (specImpl.bflush d sb) (sorted_applyLog (h.sorted d hd) sb.log) (some b) hno
        rw [hfl]
        simpa only [commit_some_eq] using this
  | bclose b =>
    cases hsb : ws.batches b with
    | none =>
      simp only [step, hsb, (batches_none_iff h b).mpr hsb]; exact ⟨by first | rfl | trivial, h⟩
    | some y =>
      obtain ⟨sb, j⟩ := y
      obtain ⟨mb, hm, hrb⟩ := batches_some h hsb
      simp only [step, hm, hsb]
      exact ⟨by first | rfl | trivial, R_closebatch h b⟩
  | snap =>
    simp only [step, h.db]
    cases hd : ws.db with
    | none => exact ⟨by first | rfl | trivial, h⟩
    | some d =>
      simp only [h.ns, h.snaps]
      exact ⟨by first | rfl | trivial, {
        db := rfl
        sorted := by intro d' hd'; cases hd'; exact h.sorted d hd
        nb := h.nb, ns := rfl, ni := h.ni, snaps := rfl
        batches := by
          intro n
          have := h.batches n
          rw [hd] at this
          exact this
        fresh := h.fresh
        iters := h.iters }⟩
  | sclose s =>
    simp only [step, h.snaps]
    cases ws.snaps s with
    | none => exact ⟨by first | rfl | trivial, h⟩
    | some d => exact ⟨by first | rfl | trivial, { h with snaps := rfl }⟩
  | first i =>
    exact movePos_sim cfg h i _ _ (fun mi si _ hri => first_sim hri)
  | next i =>
    refine movePos_sim cfg h i _ _ (fun mi si hsi hri => next_sim cfg hri ?_)
    simp only [stepOK, hsi, Bool.and_eq_true, Bool.or_eq_true] at hok
    rcases hok.2 with hc | hc
    · exact Or.inl hc
    · exact Or.inr (by simpa using hc)
  | prev i =>
    refine movePos_sim cfg h i _ _ (fun mi si hsi hri => prev_sim cfg hri ?_)
    simp only [stepOK, hsi, Bool.and_eq_true, Bool.or_eq_true] at hok
    rcases hok.2 with hc | hc
    · exact Or.inl hc
    · exact Or.inr (by simpa using hc)
  | seek i t =>
    exact movePos_sim cfg h i _ _ (fun mi si _ hri => seek_sim hri t)
  | value i =>
    have hi := h.iters i
    simp only [step]
    cases hm : wm.iters i with
    | none =>
      cases hs : ws.iters i with
      | none => exact ⟨by first | rfl | trivial, h⟩
      | some y => rw [hm, hs] at hi; cases y <;> exact hi.elim
    | some x =>
      cases x with
      | none =>
        cases hs : ws.iters i with
        | none => rw [hm, hs] at hi; exact hi.elim
        | some y =>
          cases y with
          | none => exact ⟨by first | rfl | trivial, h⟩
          | some si => rw [hm, hs] at hi; exact hi.elim
      | some mi =>
        cases hs : ws.iters i with
        | none => rw [hm, hs] at hi; exact hi.elim
        | some y =>
          cases y with
          | none => rw [hm, hs] at hi; exact hi.elim
          | some si =>
            rw [hm, hs] at hi
            have hcur : (memImpl cfg).icur mi = specImpl.icur si := RI_cur hi
            have hsome : si.cur.isSome = true := by
              simp only [stepOK, hs, Bool.and_eq_true] at hok; exact hok.2
            simp only [hcur]
            cases hc : specImpl.icur si with
            | none =>
              have : si.cur = none := hc
              rw [this] at hsome; cases hsome
            | some kv => exact ⟨by first | rfl | trivial, h⟩
  | iclose i =>
    have hi := h.iters i
    simp only [step]
    cases hm : wm.iters i with
    | none =>
      cases hs : ws.iters i with
      | none => exact ⟨by first | rfl | trivial, h⟩
      | some y => rw [hm, hs] at hi; cases y <;> exact hi.elim
    | some x =>
      cases x with
      | none =>
        cases hs : ws.iters i with
        | none => rw [hm, hs] at hi; exact hi.elim
        | some y =>
          cases y with
          | none => exact ⟨by first | rfl | trivial, h⟩
          | some si => rw [hm, hs] at hi; exact hi.elim
      | some mi =>
        cases hs : ws.iters i with
        | none => rw [hm, hs] at hi; exact hi.elim
        | some y =>
          cases y with
          | none => rw [hm, hs] at hi; exact hi.elim
          | some si =>
            exact ⟨by first | rfl | trivial, R_setiter h i none none trivial ws.iorigin⟩
  | update idx fail ops =>
    simp only [step, h.db]
    cases hd : ws.db with
    | none => exact ⟨by first | rfl | trivial, h⟩
    | some d =>
      simp only [stepOK, Bool.and_eq_true, Bool.or_eq_true] at hok
      have hin := runInner_sim cfg d (h.sorted d hd) idx ops _ _ (RB_empty (cfg := cfg) d) hok.2
      cases fail with
      | true =>
        simp only [if_true]
        exact ⟨by rw [hin.1], h⟩
      | false =>
        simp only [Bool.false_eq_true, if_false]
        refine ⟨by rw [hin.1], ?_⟩
        have hno : othersNoRange ws none = true := by
          rcases hok.1 with hc | hc
          · cases hc
          · exact hc
        have hfl : (memImpl cfg).bflush d (runInner (memImpl cfg) d idx ops (memImpl cfg).bempty).1 =
            specImpl.bflush d (runInner specImpl d idx ops specImpl.bempty).1 := hin.2.2.1
        have := R_commit h (specImpl.bflush d (runInner specImpl d idx ops specImpl.bempty).1)
          (sorted_applyLog (h.sorted d hd) _) none hno
        rw [hfl]
        simpa only [commit_none_eq] using this
  | close =>
    simp only [step]
    refine ⟨by first | rfl | trivial, ?_⟩
    have hno : othersNoRange ws none = true := by
      simp only [stepOK, Bool.and_eq_true] at hok; exact hok.2
    exact {
      db := rfl
      sorted := by intro d hd; cases hd
      nb := h.nb, ns := h.ns, ni := h.ni, snaps := h.snaps
      batches := by
        intro n
        have hb := h.batches n
        cases hm : wm.batches n with
        | none =>
          cases hsb : ws.batches n with
          | none => trivial
          | some y => rw [hm, hsb] at hb; exact hb.elim
        | some x =>
          cases hsb : ws.batches n with
          | none => rw [hm, hsb] at hb; exact hb.elim
          | some y =>
            obtain ⟨mb, i⟩ := x
            obtain ⟨sb, j⟩ := y
            rw [hm, hsb] at hb
            exact ⟨hb.1, RB_change hb.2 (othersNoRange_get h.fresh hno hsb (by simp)) _⟩
      fresh := h.fresh
      iters := h.iters }

end Juno.C15
