import JunoModel.C15.ProofsBuf
/-!
C15 — REGRESSION: db/memory BEFORE 36de10a (`memImpl`: `batch.DeleteRange` materialised at call time,
finding F5) and before 94ab97c (`⟨false⟩`: `Get` called back under the store lock, finding RE). Until round
4 these were the obligations for the code in /repo (`Props.lean`); with both repairs applied they describe
OLD code: what was provable about it (refinement inside an exact, decidable boundary), the witnesses of the
two defects, and the exactness of the boundary. Not obligations (this module is not in `props_modules`).
The harness probes the variant on the real code: if the old behaviour comes back, the driver answers with
`memImpl` again and the violation is reported under its old signature (now in the `fixed` list: unlisted).
The theorems for the current code are `memory_refines_contract`, `memory_equals_pebble`,
`batch_equals_log_any_store` in Props.lean.
-/
namespace Juno.C15.Regress
open Juno.C15

/-- (as in Props.lean) -/
theorem pebble_wrapper_refines_contract (ops : List Op) (h : inDocumented World.init ops = true) :
    run pebImpl World.init ops = run specImpl World.init ops :=
  (run_sim pebSim ops _ _ (R_init pebSim) (by rw [inBoundary_peb]; exact h)).1

/-
FULL-STRENGTH STATEMENT (does NOT hold for the current code; see the two `memory_defect_*` witnesses):

  theorem mem_refines_spec (ops) (h : inDocumented World.init ops = true) :
      run (memImpl ⟨false⟩) World.init ops = run specImpl World.init ops

Proved instead, for EVERY op sequence: equality of all outputs inside `inContract c`, which besides
the documented contract excludes exactly
  (F5)  steps after which, for some live batch, the point deletes db/memory recorded for its
        `DeleteRange` calls no longer have the effect of those ranges on the present store
        (`f5Free`; `f5_boundary_is_exact` shows it is the precise condition, `f5_boundary_not_coarse`
        that a store write under a pending but unaffected range stays inside);
  (RE)  `Get` with a callback that writes to the store, unless `c.cbUnlocked`.
-/
theorem mem_refines_spec_partial (c : MemCfg) (ops : List Op)
    (h : inContract c World.init ops = true) :
    run (memImpl c) World.init ops = run specImpl World.init ops :=
  (run_sim (memSim c) ops _ _ (R_init (memSim c)) (by rw [inBoundary_mem]; exact h)).1

/-- THE PROPERTY: db/memory and the Pebble wrappers answer every op of every sequence identically
(inside the boundary above). -/
theorem memory_equals_pebble_partial (c : MemCfg) (ops : List Op)
    (h : inContract c World.init ops = true) :
    run (memImpl c) World.init ops = run pebImpl World.init ops := by
  rw [mem_refines_spec_partial c ops h,
    pebble_wrapper_refines_contract ops (inDocumented_of_inContract c ops _ h)]

/-- F5 witness: `b.DeleteRange("", ff); db.Put(01); b.Write(); scan` — `01` survives on memory. -/
theorem memory_defect_batch_deleterange :
    run (memImpl ⟨true⟩) World.init
      [.newBatch false, .bdelRange 0 [] [255], .put [1] [9], .bwrite 0, .scan .db [] false] ≠
    run pebImpl World.init
      [.newBatch false, .bdelRange 0 [] [255], .put [1] [9], .bwrite 0, .scan .db [] false] := by decide

/-- RE witness: `db.Put(01); db.Get(01, func(v) { return db.Put(02, v) })` never returns on memory
(`hang`), returns the value and stores `02` on Pebble. -/
theorem memory_defect_get_callback_write :
    run (memImpl ⟨false⟩) World.init [.put [1] [7], .getw .db [1] [2] [7], .has .db [2]] ≠
    run pebImpl World.init [.put [1] [7], .getw .db [1] [2] [7], .has .db [2]] := by decide

/-- the two witnesses are outside the boundary; with `cbUnlocked` the second one is inside -/
theorem witnesses_outside_boundary :
    inContract ⟨true⟩ World.init
      [.newBatch false, .bdelRange 0 [] [255], .put [1] [9], .bwrite 0, .scan .db [] false] = false ∧
    inContract ⟨false⟩ World.init [.put [1] [7], .getw .db [1] [2] [7], .has .db [2]] = false ∧
    inContract ⟨true⟩ World.init [.put [1] [7], .getw .db [1] [2] [7], .has .db [2]] = true := by decide

/-- The F5 clause is the exact condition: for a db/memory batch that recorded what the contract's
ghost says (`writes = mlog`), flushing it onto a store `d` gives the contract's result iff
`batchAgrees d` — so a step excluded by `f5Free` is one after which `Write` (or a scan of the batch)
differs between memory and Pebble, and a step not excluded is one after which it does not. -/
theorem f5_boundary_is_exact (mb : MBatch) (sb : SBatch) (d : KV)
    (hw : mb.writes = sb.mlog.map LogOp.toWrite) (hp : pointOnly sb.mlog) :
    mb.flush d = applyLog d sb.log ↔ batchAgrees d sb = true := by
  unfold MBatch.flush
  rw [hw, flush_mlog _ hp d]
  simp [batchAgrees]

/-- … and it is not coarse: store writes while another live batch holds a `DeleteRange` stay inside
the boundary as long as they do not land in a range the batch emptied (the reviewer's example and a
range that misses the written key), and the outputs agree. -/
theorem f5_boundary_not_coarse :
    inContract ⟨false⟩ World.init [.newBatch false, .bdelRange 0 [5] [5], .put [1] [9], .bwrite 0, .scan .db [] false] = true ∧
    inContract ⟨false⟩ World.init
      [.put [3] [3], .newBatch true, .bdelRange 0 [2] [4], .put [7] [9], .del [3], .get (.batch 0) [7] false,
       .bwrite 0, .scan .db [] false] = true := by decide


/-! ### the old batch -/


/-- Later operations win (db/memory `writes` list): after `Write`, a key holds what the LAST entry
of the batch for that key says (value, or absent for a delete); untouched keys keep the store's. -/
theorem later_wins_memory (b : MBatch) (d : KV) (k : Key) :
    (b.flush d).get k =
      match lastWrite b.writes k with
      | some w => if w.delete then none else some w.value
      | none => d.get k := by
  unfold MBatch.flush
  rw [foldl_apply_get]
  cases lastWrite b.writes k <;> rfl

/-- `Write` = the op log: for a db/memory batch built by any list of `Put`/`Delete`/`DeleteRange`
calls over a store that does not change meanwhile, flushing gives the log applied in order. (Over a
store that changes, this is `mem_refines_spec_partial`; it fails exactly on F5.) -/
theorem batch_flush_equals_log_fixed_store (d : KV) (hd : Sorted d) (log : List LogOp) :
    (memBuild d log ((memImpl ⟨false⟩).bempty true)).flush d = applyLog d log := by
  obtain ⟨sb', h1, h2⟩ := memBuild_rb d hd log _ _ ((memSim ⟨false⟩).empty true (some d))
  rw [rbM_flush h2 d, h2.2.2.2.1 d rfl, h1]; rfl

/-- Indexed batches read their own writes over the store: `batch.Get(k)` of db/memory (write map
first, then the store) = lookup of `k` in the store with the batch's op log applied. -/
theorem indexed_reads_own_writes (d : KV) (hd : Sorted d) (log : List LogOp) (k : Key) :
    (memBuild d log ((memImpl ⟨false⟩).bempty true)).get d k = (applyLog d log).get k := by
  obtain ⟨sb', h1, h2⟩ := memBuild_rb d hd log _ _ ((memSim ⟨false⟩).empty true (some d))
  rw [rbM_get k h2, h1]; rfl

end Juno.C15.Regress
