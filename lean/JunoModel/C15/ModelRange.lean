import JunoModel.C15.Model
/-!
C15 — second variant of the db/memory batch (db/memory/batch.go once the repair of finding F5,
`proposed-fixes/C15-memory-batch-deleterange-recorded-as-range.diff`, is in the tree): `DeleteRange`
records the RANGE as one entry of `writes` (and of `ranges`), marks the batch's own earlier writes inside
it as deleted in `writeMap`, and `Write` deletes whatever the store holds in the range at that time.
`Get`/`Has`: `writeMap` first, then the recorded ranges, then the store.
Which of the two variants (`memImpl` = ranges materialised at call time, `mem2Impl` = this one) the
code is, is probed by the harness on the real db/memory. Core Lean only (linked into the driver).
-/
namespace Juno.C15

/-- `batch` of db/memory/batch.go, repaired variant. `writes` entries are `keyValue`s with the
`rangeDelete`/`end` fields: exactly a `LogOp`. -/
structure M2Batch where
  writes : List LogOp
  writeMap : SMap MWrite
  ranges : List (Key × Key)
  size : Nat
  deriving Repr

/-- `batch.inDeletedRange` -/
def inRanges (rs : List (Key × Key)) (k : Key) : Bool := rs.any (fun r => inRange r.1 r.2 k)

def M2Batch.put (b : M2Batch) (k : Key) (v : Val) : M2Batch :=
  ⟨b.writes ++ [.put k v], b.writeMap.put k ⟨k, v, false⟩, b.ranges, b.size + k.length + v.length⟩

def M2Batch.del (b : M2Batch) (k : Key) : M2Batch :=
  ⟨b.writes ++ [.del k], b.writeMap.put k ⟨k, [], true⟩, b.ranges, b.size + k.length⟩

/-- `for k := range b.writeMap { if kv.covers(k) { b.writeMap[k] = keyValue{key: k, delete: true} } }` -/
def markRange (s e : Key) (wm : SMap MWrite) : SMap MWrite :=
  wm.map (fun x => if inRange s e x.1 then (x.1, (⟨x.1, [], true⟩ : MWrite)) else x)

/-- `batch.DeleteRange`: the store is not looked at; the size counter does not move. -/
def M2Batch.delRange (b : M2Batch) (s e : Key) : M2Batch :=
  ⟨b.writes ++ [.delRange s e], markRange s e b.writeMap, b.ranges ++ [(s, e)], b.size⟩

/-- `batch.Get`/`batch.Has`: write map, then recorded ranges, then the store. -/
def M2Batch.get (d : KV) (b : M2Batch) (k : Key) : Option Val :=
  match b.writeMap.get k with
  | some w => if w.delete then none else some w.value
  | none => if inRanges b.ranges k then none else d.get k

/-- the loop of `batch.Write`: a range entry deletes every key of the store inside it, a delete
entry the key, a put entry stores the value — `LogOp.apply`, in order. -/
def M2Batch.flush (d : KV) (b : M2Batch) : KV := b.writes.foldl LogOp.apply d

def mem2Impl (c : MemCfg) : Impl M2Batch MIter where
  bempty _ := ⟨[], [], [], 0⟩
  bput := M2Batch.put
  bdel := M2Batch.del
  bdelRange _ b s e := b.delRange s e
  bget _ d b k := .ofOption (b.get d k)
  bhas _ d b k := .bool (b.get d k).isSome
  bview _ d b := .inr (b.flush d)
  bflush := M2Batch.flush
  bsize b := b.size
  dget d k := .ofOption (d.get k)
  dhas d k := .bool (d.get k).isSome
  sget d k := .ofOption (d.get k)
  shas d k := .bool (d.get k).isSome
  sclosed := .errClosed
  imk := MIter.mk'
  ifirst it := it.first
  inext := MIter.next
  iprev := MIter.prev
  iseek := MIter.seek
  icur := MIter.kv
  invalidValue := .errInvalid
  reentrant := c.cbUnlocked

end Juno.C15
