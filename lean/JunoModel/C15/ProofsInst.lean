import JunoModel.C15.ProofsStep
/-! The two instances of `Sim`: db/memory and the Pebble wrappers both simulate the contract. -/
namespace Juno.C15

/-! ### db/memory -/

/-- what db/memory appends to `writes` for a point operation -/
def LogOp.toWrite : LogOp → MWrite
  | .put k v => ⟨k, v, false⟩
  | .del k => ⟨k, [], true⟩
  | .delRange s _ => ⟨s, [], true⟩

def pointOnly (l : List LogOp) : Prop := ∀ o ∈ l, o.isRange = false

theorem toWrite_apply (d : KV) (o : LogOp) (h : o.isRange = false) : (o.toWrite).apply d = o.apply d := by
  cases o <;> simp [LogOp.toWrite, MWrite.apply, LogOp.apply, LogOp.isRange] at h ⊢

theorem flush_mlog (l : List LogOp) (hp : pointOnly l) (d : KV) :
    (l.map LogOp.toWrite).foldl MWrite.apply d = applyLog d l := by
  induction l generalizing d with
  | nil => rfl
  | cons o r ih =>
    simp only [List.map_cons, List.foldl_cons, applyLog]
    rw [toWrite_apply d o (hp o List.mem_cons_self)]
    exact ih (fun x hx => hp x (List.mem_cons_of_mem _ hx)) _

/-- db/memory batch `mb` represents contract batch `sb`: its `writes` are the contract's ghost
`mlog`, and on the present store that point-wise log has the effect of the real log -/
def rbM (_ : Bool) (od : Option KV) (mb : MBatch) (sb : SBatch) : Prop :=
  wmOK mb ∧ mb.writes = sb.mlog.map LogOp.toWrite ∧ pointOnly sb.mlog ∧
  (∀ d, od = some d → applyLog d sb.mlog = applyLog d sb.log) ∧ (noRange sb = true → mb.size = sb.size)

theorem rbM_flush {i : Bool} {od : Option KV} {mb : MBatch} {sb : SBatch} (h : rbM i od mb sb) (d : KV) :
    mb.flush d = applyLog d sb.mlog := by
  unfold MBatch.flush
  rw [h.2.1]
  exact flush_mlog _ h.2.2.1 d

theorem noRange_append (log mlog mlog' : List LogOp) (sz sz' : Nat) (o : LogOp) :
    noRange ⟨log ++ [o], mlog, sz⟩ = (noRange ⟨log, mlog', sz'⟩ && !o.isRange) := by
  simp [noRange, List.all_append]

theorem pointOnly_append {l r : List LogOp} (hl : pointOnly l) (hr : pointOnly r) : pointOnly (l ++ r) := by
  intro o ho
  rcases List.mem_append.mp ho with h | h
  · exact hl o h
  · exact hr o h

theorem foldl_del_writes (ks : KV) (b : MBatch) :
    (ks.foldl (fun b x => b.del x.1) b).writes = b.writes ++ ks.map (fun x => (⟨x.1, [], true⟩ : MWrite)) := by
  induction ks generalizing b with
  | nil => simp
  | cons x r ih =>
    simp only [List.foldl_cons, List.map_cons]
    rw [ih (b.del x.1)]
    simp [MBatch.del]

theorem applyLog_rangeDeletes (c : KV) (s e : Key) :
    applyLog c (rangeDeletes c s e) = c.delRange s e := by
  unfold applyLog rangeDeletes
  rw [List.foldl_map]
  exact foldl_del_filter c (inRange s e)

theorem applyLog_append_list (d : KV) (l r : List LogOp) : applyLog d (l ++ r) = applyLog (applyLog d l) r := by
  simp [applyLog, List.foldl_append]

theorem rbM_put {i od mb sb} (k : Key) (v : Val) (h : rbM i od mb sb) :
    rbM i od (mb.put k v) (specImpl.bput sb k v) := by
  obtain ⟨h1, h2, h3, h4, h5⟩ := h
  refine ⟨wmOK_put h1 k v, ?_, ?_, ?_, ?_⟩
  · simp [MBatch.put, specImpl, h2, LogOp.toWrite]
  · exact pointOnly_append h3 (by intro o ho; simp at ho; subst ho; rfl)
  · intro d hd
    show applyLog d (sb.mlog ++ [.put k v]) = applyLog d (sb.log ++ [.put k v])
    rw [applyLog_append, applyLog_append, h4 d hd]
  · intro hn
    have hn' : noRange sb = true := by
      have := noRange_append sb.log (sb.mlog ++ [.put k v]) sb.mlog (sb.size + k.length + v.length) sb.size (.put k v)
      simp only [specImpl] at hn
      rw [this] at hn
      simpa [LogOp.isRange] using hn
    show mb.size + k.length + v.length = sb.size + k.length + v.length
    rw [h5 hn']

theorem rbM_del {i od mb sb} (k : Key) (h : rbM i od mb sb) :
    rbM i od (mb.del k) (specImpl.bdel sb k) := by
  obtain ⟨h1, h2, h3, h4, h5⟩ := h
  refine ⟨wmOK_del h1 k, ?_, ?_, ?_, ?_⟩
  · simp [MBatch.del, specImpl, h2, LogOp.toWrite]
  · exact pointOnly_append h3 (by intro o ho; simp at ho; subst ho; rfl)
  · intro d hd
    show applyLog d (sb.mlog ++ [.del k]) = applyLog d (sb.log ++ [.del k])
    rw [applyLog_append, applyLog_append, h4 d hd]
  · intro hn
    have hn' : noRange sb = true := by
      have := noRange_append sb.log (sb.mlog ++ [.del k]) sb.mlog (sb.size + k.length) sb.size (.del k)
      simp only [specImpl] at hn
      rw [this] at hn
      simpa [LogOp.isRange] using hn
    show mb.size + k.length = sb.size + k.length
    rw [h5 hn']

theorem rbM_delRange {i d mb sb} (s e : Key) (hd : Sorted d) (h : rbM i (some d) mb sb) :
    rbM i (some d) (mb.delRange d s e) (specImpl.bdelRange d sb s e) := by
  have hfl := rbM_flush h d
  obtain ⟨h1, h2, h3, h4, h5⟩ := h
  refine ⟨wmOK_mDelRange d h1 s e hd, ?_, ?_, ?_, ?_⟩
  · rw [mDelRange_eq d mb s e hd, foldl_del_writes, hfl, h2]
    simp [specImpl, rangeDeletes, LogOp.toWrite, List.map_map, Function.comp_def]
  · apply pointOnly_append h3
    intro o ho
    simp only [rangeDeletes, List.mem_map] at ho
    obtain ⟨x, _, rfl⟩ := ho
    rfl
  · intro d' hd'
    cases hd'
    show applyLog d (sb.mlog ++ rangeDeletes (applyLog d sb.mlog) s e) = applyLog d (sb.log ++ [.delRange s e])
    rw [applyLog_append_list, applyLog_rangeDeletes, applyLog_append, h4 d rfl]
    rfl
  · intro hn
    have := noRange_append sb.log (sb.mlog ++ rangeDeletes (applyLog d sb.mlog) s e) sb.mlog sb.size sb.size (.delRange s e)
    simp only [specImpl] at hn
    rw [this] at hn
    simp [LogOp.isRange] at hn

theorem rbM_get {d mb sb} (k : Key) (h : rbM true (some d) mb sb) :
    mb.get d k = (applyLog d sb.log).get k := by
  rw [mbget_eq_flush h.1, rbM_flush h d, h.2.2.2.1 d rfl]

def memSim (c : MemCfg) : Sim (memImpl c) where
  rb := rbM
  ri := RI
  okOp := memOK c
  needF5 := true
  empty := fun _ _ => ⟨wmOK_empty, rfl, (fun o ho => by cases ho), fun _ _ => rfl, fun _ => rfl⟩
  put := fun k v h => rbM_put k v h
  del := fun k h => rbM_del k h
  delRange := fun s e hd h => rbM_delRange s e hd h
  get := fun k _ h => by
    show RGet.ofOption (MBatch.get _ _ k) = RGet.ofOption _
    rw [rbM_get k h]
  has := fun k _ h => by
    show ROut.bool (MBatch.get _ _ k).isSome = ROut.bool _
    rw [rbM_get k h]
  view := fun {d mb sb} _ h => by
    show (Sum.inr (MBatch.flush d mb) : Sum ROut KV) = Sum.inr (applyLog d sb.log)
    rw [rbM_flush h d, h.2.2.2.1 d rfl]
  flush := fun {i d mb sb} _ h => by
    show MBatch.flush d mb = applyLog d sb.log
    rw [rbM_flush h d, h.2.2.2.1 d rfl]
  size := fun _ _ h hn => h.2.2.2.2 hn
  rebase := fun od' h hag => ⟨h.1, h.2.1, h.2.2.1, fun d hd => by
    have := hag rfl d hd
    simpa [batchAgrees] using this, h.2.2.2.2⟩
  dget := fun _ _ => rfl
  dhas := fun _ _ => rfl
  sget := fun _ _ => rfl
  shas := fun _ _ => rfl
  mkIter := RI_mk
  first := fun h => first_sim h
  next := fun h => next_sim h
  prev := fun h => prev_sim h
  seek := fun t h => seek_sim h t
  cur := fun h => RI_cur h
  reent := fun _ _ _ _ h => h

/-! ### the Pebble wrappers -/

def rbP (i : Bool) (_ : Option KV) (pb : PBatch) (sb : SBatch) : Prop :=
  pb.batch.log = sb.log ∧ pb.batch.indexed = i ∧ pb.size = sb.size

def pebSim : Sim pebImpl where
  rb := rbP
  ri := RPI
  okOp := fun _ => true
  needF5 := false
  empty := fun _ _ => ⟨rfl, rfl, rfl⟩
  put := fun k v h => ⟨by simp [pebImpl, specImpl, h.1], h.2.1, by simp [pebImpl, specImpl, h.2.2]⟩
  del := fun k h => ⟨by simp [pebImpl, specImpl, h.1], h.2.1, by simp [pebImpl, specImpl, h.2.2]⟩
  delRange := fun s e _ h => ⟨by simp [pebImpl, specImpl, h.1], h.2.1, by simp [pebImpl, specImpl, h.2.2]⟩
  get := fun {d pb sb} k _ h => by
    show pebGet (EBatch.get d pb.batch k) = RGet.ofOption ((applyLog d sb.log).get k)
    simp only [EBatch.get, h.2.1, if_true, h.1, pebGet_engineGet]
  has := fun {d pb sb} k _ h => by
    show pebHas (EBatch.get d pb.batch k) = ROut.bool ((applyLog d sb.log).get k).isSome
    simp only [EBatch.get, h.2.1, if_true, h.1, pebHas_engineGet]
  view := fun {d pb sb} _ h => by
    show (if pb.batch.indexed = true then Sum.inr (applyLog d pb.batch.log) else Sum.inl ROut.errNotIndexed) =
      (Sum.inr (applyLog d sb.log) : Sum ROut KV)
    simp [h.2.1, h.1]
  flush := fun {i d pb sb} _ h => by
    show applyLog d pb.batch.log = applyLog d sb.log
    rw [h.1]
  size := fun _ _ h _ => h.2.2
  rebase := fun _ h _ => h
  dget := fun d k => pebGet_engineGet d k
  dhas := fun d k => pebHas_engineGet d k
  sget := fun d k => pebGet_engineGet d k
  shas := fun d k => pebHas_engineGet d k
  mkIter := RPI_mk
  first := fun h => pfirst_sim h
  next := fun h => pnext_sim h
  prev := fun h => pprev_sim h
  seek := fun t h => pseek_sim h t
  cur := fun h => RPI_cur h
  reent := fun _ _ _ _ _ => rfl

end Juno.C15
