import JunoModel.C15.ProofsBatch
/-! Iterators: db/memory's `curInd` arithmetic against the positions of the contract; bounds. -/
namespace Juno.C15

/-! ### bounds -/

theorem memBound_eq_specBound (p : Key) (u : Bool) (k : Key) : memBound p u k = specBound p u k := by
  unfold memBound specBound engineBound
  cases u
  · simp
  · simp only [if_true]
    cases upperBound p <;> simp

theorem mk_keys_eq (d : KV) (p : Key) (u : Bool) :
    (MIter.mk' d p u).keys = (specImpl.imk d p u).keys := by
  simp only [MIter.mk', specImpl]
  apply List.filter_congr
  intro x _
  exact memBound_eq_specBound p u x.1

/-! ### positions -/

/-- db/memory iterator state `mi` represents contract iterator state `si` -/
def RI (mi : MIter) (si : SIter) : Prop :=
  mi.keys = si.keys ∧
  match si.pos with
  | .unpos => mi.cur = -1 ∧ mi.positioned = false
  | .before => mi.cur = -1 ∧ mi.positioned = true
  | .at i => mi.cur = (i : Int) ∧ i < si.keys.length ∧ mi.positioned = true
  | .after => mi.cur = (si.keys.length : Int) ∧ mi.positioned = true

theorem RI_mk (d : KV) (p : Key) (u : Bool) : RI (MIter.mk' d p u) (specImpl.imk d p u) := by
  refine ⟨mk_keys_eq d p u, ?_⟩
  simp [specImpl, MIter.mk']

theorem RI_cur {mi : MIter} {si : SIter} (h : RI mi si) : mi.kv = si.cur := by
  obtain ⟨hk, hp⟩ := h
  unfold MIter.kv MIter.valid SIter.cur
  rw [hk]
  cases hpos : si.pos with
  | unpos => simp only [hpos] at hp; simp [hp.1]
  | before => simp only [hpos] at hp; simp [hp.1]
  | «at» i =>
    simp only [hpos] at hp
    have h1 : (0 : Int) ≤ (i : Int) := by omega
    have h2 : ((i : Int) < (si.keys.length : Int)) := by omega
    simp [hp.1, h1, h2]
  | after =>
    simp only [hpos] at hp
    simp [hp.1]

theorem valid_eq_kv_isSome (it : MIter) : it.valid = it.kv.isSome := by
  unfold MIter.kv
  cases hv : it.valid
  · simp
  · simp only [if_true]
    simp only [MIter.valid, Bool.and_eq_true, decide_eq_true_eq] at hv
    have : it.cur.toNat < it.keys.length := by omega
    simp [List.getElem?_eq_getElem this]

theorem first_sim {mi : MIter} {si : SIter} (h : RI mi si) :
    RI mi.first.1 si.first ∧ mi.first.2 = si.first.cur.isSome := by
  obtain ⟨hk, _⟩ := h
  have hR : RI mi.first.1 si.first := by
    refine ⟨hk, ?_⟩
    simp only [MIter.first, SIter.first]
    by_cases hn : 0 < si.keys.length
    · simp [hn]
    · have : si.keys.length = 0 := by omega
      simp [this]
  refine ⟨hR, ?_⟩
  rw [← RI_cur hR, ← valid_eq_kv_isSome]
  rfl

theorem seek_sim {mi : MIter} {si : SIter} (h : RI mi si) (t : Key) :
    RI (mi.seek t).1 (si.seek t) ∧ (mi.seek t).2 = (si.seek t).cur.isSome := by
  obtain ⟨hk, _⟩ := h
  have hle := seekIdx_le t si.keys
  have hR : RI (mi.seek t).1 (si.seek t) := by
    refine ⟨hk, ?_⟩
    simp only [MIter.seek, SIter.seek, hk]
    by_cases hn : seekIdx t si.keys < si.keys.length
    · simp [hn]
    · have : seekIdx t si.keys = si.keys.length := by omega
      simp [this]
  refine ⟨hR, ?_⟩
  rw [← RI_cur hR, ← valid_eq_kv_isSome]
  simp only [MIter.seek, MIter.valid, hk]
  rw [Bool.eq_iff_iff]
  simp only [Bool.and_eq_true, decide_eq_true_eq]
  omega

theorem next_keys (mi : MIter) : mi.next.1.keys = mi.keys := rfl

theorem snext_keys (si : SIter) : si.next.keys = si.keys := by
  unfold SIter.next SIter.first
  cases si.pos <;> rfl

theorem sprev_keys (si : SIter) : si.prev.keys = si.keys := by
  unfold SIter.prev SIter.first SIter.last
  cases si.pos with
  | «at» i => cases i <;> rfl
  | _ => rfl

theorem next_sim {mi : MIter} {si : SIter} (h : RI mi si) :
    RI mi.next.1 si.next ∧ mi.next.2 = si.next.cur.isSome := by
  have hR : RI mi.next.1 si.next := by
    obtain ⟨hk, hp⟩ := h
    refine ⟨by rw [next_keys, snext_keys, hk], ?_⟩
    cases hpos : si.pos with
    | unpos =>
      simp only [hpos] at hp
      simp only [MIter.next, SIter.next, hpos, SIter.first, hp.1, hk]
      by_cases hn : 0 < si.keys.length
      · have : ((-1 : Int) < (si.keys.length : Int)) := by omega
        simp [hn, this]
      · have h0 : si.keys.length = 0 := by omega
        simp [h0]
    | before =>
      simp only [hpos] at hp
      simp only [MIter.next, SIter.next, hpos, SIter.first, hp.1, hk]
      by_cases hn : 0 < si.keys.length
      · have : ((-1 : Int) < (si.keys.length : Int)) := by omega
        simp [hn, this]
      · have h0 : si.keys.length = 0 := by omega
        simp [h0]
    | «at» i =>
      simp only [hpos] at hp
      have h2 : ((i : Int) < (si.keys.length : Int)) := by omega
      simp only [MIter.next, SIter.next, hpos, hp.1, hk, h2, if_true]
      by_cases hn : i + 1 < si.keys.length
      · simp [hn]
      · have : i + 1 = si.keys.length := by omega
        simp [hn]; omega
    | after =>
      simp only [hpos] at hp
      simp [MIter.next, SIter.next, hpos, hp.1, hk]
  refine ⟨hR, ?_⟩
  rw [← RI_cur hR, ← valid_eq_kv_isSome]
  rfl

theorem prev_sim {mi : MIter} {si : SIter} (h : RI mi si) :
    RI mi.prev.1 si.prev ∧ mi.prev.2 = si.prev.cur.isSome := by
  have hf := first_sim h
  obtain ⟨hk, hp⟩ := h
  cases hpos : si.pos with
  | unpos =>
    simp only [hpos] at hp
    have e1 : mi.prev = mi.first := by simp [MIter.prev, hp.2]
    have e2 : si.prev = si.first := by simp [SIter.prev, hpos]
    rw [e1, e2]; exact hf
  | before =>
    simp only [hpos] at hp
    have e2 : si.prev = si := by simp [SIter.prev, hpos]
    rw [e2]
    simp only [MIter.prev, hp.2, Bool.not_true, Bool.false_eq_true, if_false, hp.1]
    refine ⟨⟨hk, ?_⟩, ?_⟩
    · simp [hpos, hp.2]
    · simp [SIter.cur, hpos]
  | «at» i =>
    simp only [hpos] at hp
    cases i with
    | zero =>
      have e2 : si.prev = { si with pos := .before } := by simp [SIter.prev, hpos]
      rw [e2]
      refine ⟨⟨?_, ?_⟩, ?_⟩
      · simp [MIter.prev, hp.1, hp.2.2, hk]
      · simp [MIter.prev, hp.1, hp.2.2]
      · simp [MIter.prev, hp.1, hp.2.2, SIter.cur]
    | succ j =>
      have e2 : si.prev = { si with pos := .at j } := by simp [SIter.prev, hpos]
      rw [e2]
      have hj : j < si.keys.length := by omega
      have hne : ¬ ((j : Int) + 1 ≤ 0) := by omega
      refine ⟨⟨?_, ?_⟩, ?_⟩
      · simp [MIter.prev, hp.1, hp.2.2, hk, hne]
      · simp [MIter.prev, hp.1, hp.2.2, hne, hj]
      · simp [MIter.prev, hp.1, hp.2.2, hne, SIter.cur, List.getElem?_eq_getElem hj]
  | after =>
    simp only [hpos] at hp
    by_cases hn : 0 < si.keys.length
    · have e2 : si.prev = { si with pos := .at (si.keys.length - 1) } := by simp [SIter.prev, SIter.last, hpos, hn]
      rw [e2]
      have hj : si.keys.length - 1 < si.keys.length := by omega
      have hne : ¬ ((si.keys.length : Int) ≤ 0) := by omega
      have hcast : (si.keys.length : Int) - 1 = ((si.keys.length - 1 : Nat) : Int) := by omega
      have hnil : ¬ si.keys = [] := by intro e; simp [e] at hn
      refine ⟨⟨?_, ?_⟩, ?_⟩
      · simp [MIter.prev, hp.1, hp.2, hk, hne, hnil]
      · simp [MIter.prev, hp.1, hp.2, hne, hj, hcast, hnil]
      · simp [MIter.prev, hp.1, hp.2, hne, SIter.cur, List.getElem?_eq_getElem hj, hnil]
    · have h0 : si.keys.length = 0 := by omega
      have e2 : si.prev = { si with pos := .before } := by simp [SIter.prev, SIter.last, hpos, h0]
      rw [e2]
      refine ⟨⟨?_, ?_⟩, ?_⟩
      · simp [MIter.prev, hp.1, hp.2, hk, h0]
      · simp [MIter.prev, hp.1, hp.2, h0]
      · simp [MIter.prev, hp.1, hp.2, h0, SIter.cur]

end Juno.C15
