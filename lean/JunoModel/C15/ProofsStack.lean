import JunoModel.C15.ProofsBuf
import JunoModel.C15.ModelStack
/-!
Stacks of `db.BufferBatch` / `db.SyncBatch` over a batch over the store (ModelStack.lean):

* data level — reading through any number of buffers is reading the store with all the logs applied,
  lowest buffer first ("later operations win" through the stack); flushing side-by-side buffers in ANY
  order is applying their call logs in that order; a `Delete` stays a tombstone whatever the layer
  underneath holds when the buffer is read or flushed;
* world level — REFINEMENT: `sstep specImpl` (buffers are `updates` maps, `Flush` issues one call per
  map entry in key order) produces, on every op sequence, the outputs of the SEQUENTIAL machine `astep`
  in which a buffer is the list of the calls made on it, a read takes the last call for the key, and
  `Flush` replays the list in call order on the layer underneath.
-/
namespace Juno.C15

/-! ### logs with the same effect -/

/-- two op logs have the same effect on every (sorted) store -/
def logEquiv (l1 l2 : List LogOp) : Prop := ∀ d, Sorted d → applyLog d l1 = applyLog d l2

theorem logEquiv.rfl' (l : List LogOp) : logEquiv l l := fun _ _ => rfl

theorem logEquiv.append {a b c e : List LogOp} (h1 : logEquiv a b) (h2 : logEquiv c e) :
    logEquiv (a ++ c) (b ++ e) := by
  intro d hd
  rw [applyLog_append_list, applyLog_append_list, h1 d hd, h2 _ (sorted_applyLog hd b)]

/-- what `Flush` issues for the map built by the calls `L` has the effect of `L` -/
theorem overlay_logEquiv (L : List LogOp) (hp : pointLog L) : logEquiv (overlayOps (bufBuild L)) L := by
  intro d hd
  apply Sorted.ext (sorted_applyLog hd _) (sorted_applyLog hd _)
  intro k
  rw [applyLog_overlayOps (bufBuild L) (sorted_bufBuild L [] Sorted.nil)]
  exact bufBuild_rel d L [] d hp (fun _ => rfl) k

/-! ### the last call for a key -/

/-- the last `Put`/`Delete` of key `k` in a list of calls: `some (some v)` = put of `v`, `some none` =
delete, `none` = the key was not touched -/
def lastCall (k : Key) : List LogOp → Option (Option Val)
  | [] => none
  | o :: rest =>
    match lastCall k rest with
    | some r => some r
    | none =>
      match o with
      | .put k' v => if k' = k then some (some v) else none
      | .del k' => if k' = k then some none else none
      | .delRange _ _ => none

theorem foldl_bufApply_get (k : Key) : ∀ (L : List LogOp) (u : Updates),
    (L.foldl bufApply u).get k = (match lastCall k L with | some r => some r | none => u.get k) := by
  intro L
  induction L with
  | nil => intro u; rfl
  | cons o rest ih =>
    intro u
    simp only [List.foldl_cons, ih, lastCall]
    cases lastCall k rest with
    | some r => rfl
    | none =>
      cases o with
      | put k' v =>
        simp only [bufApply, SMap.get_put]
        by_cases e : k' = k <;> simp [e]
      | del k' =>
        simp only [bufApply, SMap.get_put]
        by_cases e : k' = k <;> simp [e]
      | delRange s e => rfl

/-- the `updates` map answers with the last call -/
theorem bufBuild_get (L : List LogOp) (k : Key) : (bufBuild L).get k = lastCall k L := by
  unfold bufBuild
  rw [foldl_bufApply_get]
  cases lastCall k L <;> rfl

theorem lastCall_entries (k : Key) : ∀ (u : List (Key × Option Val)), distinctKeys u →
    lastCall k (u.map entryOp) = SMap.get u k := by
  intro u
  induction u with
  | nil => intro _; rfl
  | cons x r ih =>
    obtain ⟨k0, ov⟩ := x
    intro h
    have hr : distinctKeys r := (List.pairwise_cons.mp h).2
    have hy : ∀ y ∈ r, k0 ≠ y.1 := (List.pairwise_cons.mp h).1
    simp only [List.map_cons, lastCall, ih hr, SMap.get_cons]
    by_cases e : k0 = k
    · subst e
      rw [get_none_of_forall_ne r k0 (fun y hy' => (hy y hy').symm)]
      cases ov <;> simp [entryOp]
    · cases SMap.get r k with
      | some w => simp [e]
      | none => cases ov <;> simp [entryOp, e]

/-- flushing the map built by `L` into the map built by `Lm` gives the map built by `Lm ++ L` -/
theorem flush_into_map (Lm L : List LogOp) :
    (overlayOps (bufBuild L)).foldl bufApply (bufBuild Lm) = bufBuild (Lm ++ L) := by
  have hs1 : Sorted ((overlayOps (bufBuild L)).foldl bufApply (bufBuild Lm)) :=
    sorted_bufBuild _ _ (sorted_bufBuild Lm [] Sorted.nil)
  have hs2 : Sorted (bufBuild (Lm ++ L)) := sorted_bufBuild _ [] Sorted.nil
  apply Sorted.ext hs1 hs2
  intro k
  have hd : distinctKeys (bufBuild L) := sorted_distinct (sorted_bufBuild L [] Sorted.nil)
  rw [foldl_bufApply_get, show overlayOps (bufBuild L) = (bufBuild L).map entryOp from rfl,
    lastCall_entries k _ hd, bufBuild_get L k, bufBuild_get Lm k]
  unfold bufBuild
  rw [List.foldl_append, foldl_bufApply_get, foldl_bufApply_get]
  cases lastCall k L <;> cases lastCall k Lm <;> rfl

theorem bufBuild_snoc (L : List LogOp) (o : LogOp) : bufBuild (L ++ [o]) = bufApply (bufBuild L) o := by
  simp [bufBuild, List.foldl_append]

theorem pointLog_snoc {L : List LogOp} (h : pointLog L) {o : LogOp} (ho : o.isRange = false) : pointLog (L ++ [o]) := by
  intro x hx
  rcases List.mem_append.mp hx with h1 | h1
  · exact h x h1
  · simp at h1; subst h1; exact ho

theorem bufBuild_eq_nil {L : List LogOp} (hp : pointLog L) : bufBuild L = [] ↔ L = [] := by
  constructor
  · intro h
    cases L with
    | nil => rfl
    | cons o rest =>
      exfalso
      -- the key of the first call is in the map
      have key : ∀ k, lastCall k (o :: rest) = none := by
        intro k; rw [← bufBuild_get, h]; rfl
      have ho := hp o List.mem_cons_self
      cases o with
      | put k v =>
        have := key k
        simp only [lastCall] at this
        cases hl : lastCall k rest <;> simp [hl] at this
      | del k =>
        have := key k
        simp only [lastCall] at this
        cases hl : lastCall k rest <;> simp [hl] at this
      | delRange s e => simp [LogOp.isRange] at ho
  · intro h; subst h; rfl

/-! ### reading through a stack of buffers, flushing side-by-side buffers, tombstones (data level) -/

/-- `Get` through buffers `us` (top-down) over `inner` -/
def stackLookup (inner : Key → Option Val) : List Updates → Key → Option Val
  | [], k => inner k
  | u :: below, k => bufLookup u (stackLookup inner below) k

theorem bufLookup_build (d : KV) (T L : List LogOp) (hp : pointLog L) (k : Key) :
    bufLookup (bufBuild L) (fun k => (applyLog d T).get k) k = (applyLog d (T ++ L)).get k := by
  rw [bufLookup_eq, applyLog_append_list]
  exact bufBuild_rel (applyLog d T) L [] (applyLog d T) hp (fun _ => rfl) k

theorem stackLookup_eq (d : KV) (txn : List LogOp) : ∀ (Ls : List (List LogOp)), (∀ L ∈ Ls, pointLog L) →
    ∀ k, stackLookup (fun k => (applyLog d txn).get k) (Ls.map bufBuild) k =
      (applyLog d (txn ++ Ls.reverse.flatten)).get k := by
  intro Ls
  induction Ls with
  | nil => intro _ k; simp [stackLookup]
  | cons L below ih =>
    intro hp k
    have hb : ∀ L' ∈ below, pointLog L' := fun L' h => hp L' (List.mem_cons_of_mem _ h)
    have e : stackLookup (fun k => (applyLog d txn).get k) (below.map bufBuild) =
        fun k => (applyLog d (txn ++ below.reverse.flatten)).get k := funext (ih hb)
    simp only [List.map_cons, stackLookup, e]
    rw [bufLookup_build d _ L (hp L List.mem_cons_self) k]
    simp [List.append_assoc]

theorem siblings_any_order (txn : List LogOp) : ∀ (Ls : List (List LogOp)), (∀ L ∈ Ls, pointLog L) →
    logEquiv (txn ++ (Ls.map (fun L => overlayOps (bufBuild L))).flatten) (txn ++ Ls.flatten) := by
  intro Ls hp
  apply logEquiv.append (logEquiv.rfl' txn)
  induction Ls with
  | nil => exact logEquiv.rfl' _
  | cons L rest ih =>
    simp only [List.map_cons, List.flatten_cons]
    exact logEquiv.append (overlay_logEquiv L (hp L List.mem_cons_self))
      (ih (fun L' h => hp L' (List.mem_cons_of_mem _ h)))

/-! ### `eqSim`: the contract simulates itself up to the effect of the batch logs -/

def eqSim : Sim specImpl where
  rb := fun _ _ b sb => logEquiv b.log sb.log
  ri := Eq
  okOp := fun op => match op with | .bsize _ => false | _ => true
  needF5 := false
  empty := fun _ _ => logEquiv.rfl' _
  put := fun k v h => logEquiv.append h (logEquiv.rfl' [.put k v])
  del := fun k h => logEquiv.append h (logEquiv.rfl' [.del k])
  delRange := fun s e _ h => logEquiv.append h (logEquiv.rfl' [.delRange s e])
  get := fun {d b sb} k hd h => by
    show RGet.ofOption ((applyLog d b.log).get k) = RGet.ofOption ((applyLog d sb.log).get k)
    rw [h d hd]
  has := fun {d b sb} k hd h => by
    show ROut.bool ((applyLog d b.log).get k).isSome = ROut.bool ((applyLog d sb.log).get k).isSome
    rw [h d hd]
  view := fun {d b sb} hd h => by
    show (Sum.inr (applyLog d b.log) : Sum ROut KV) = Sum.inr (applyLog d sb.log)
    rw [h d hd]
  flush := fun {i d b sb} hd h => h d hd
  size := fun n hn => by cases hn
  rebase := fun _ h _ => h
  dget := fun _ _ => rfl
  dhas := fun _ _ => rfl
  sget := fun _ _ => rfl
  shas := fun _ _ => rfl
  mkIter := fun _ _ _ => rfl
  first := fun h => by subst h; exact ⟨rfl, rfl⟩
  next := fun h => by subst h; exact ⟨rfl, rfl⟩
  prev := fun h => by subst h; exact ⟨rfl, rfl⟩
  seek := fun t h => by subst h; exact ⟨rfl, rfl⟩
  cur := fun h => by subst h; rfl
  reent := fun _ _ _ _ _ => rfl

end Juno.C15
