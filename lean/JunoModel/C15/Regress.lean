import JunoModel.C15.Model
/-!
C15 — REGRESSION WITNESSES for defects of juno that have been repaired in /repo. Each definition
below is the OLD code (named `…_before_<commit>`), each theorem shows on a concrete input that the
old code left the contract where the current transcription (`Model.lean`) does not. Nothing here is
an obligation about the current tree (this module is not in `props_modules`); the harness raises an
unlisted VIOLATION if the behaviour comes back (checked by reverting each commit).
-/
namespace Juno.C15.Regress
open Juno.C15

/-- db/memory `NewIterator` before c576a14: `strings.HasPrefix(k, pr) && (!withUpperBound || k < ub)`
with `ub = ""` for a nil bound. -/
def memBound_before_c576a14 (p : Key) (wub : Bool) (k : Key) : Bool :=
  let ub : Option Key := if wub then upperBound p else none
  hasPrefix k p && (!wub || lexLt k (ub.getD []))

theorem nil_upper_bound_before_c576a14 :
    memBound_before_c576a14 [255, 255] true [255, 255] = false ∧ memBound [255, 255] true [255, 255] = true ∧
    specBound [255, 255] true [255, 255] = true := by decide

theorem prefix_filter_before_c576a14 :
    memBound_before_c576a14 [1] false [2] = false ∧ memBound [1] false [2] = true ∧ specBound [1] false [2] = true := by
  decide

/-- db/memory `iterator.Prev` before cbe1291: `curInd == -1` re-ran `First`. -/
def prev_before_cbe1291 (it : MIter) : MIter × Bool :=
  if it.cur == 0 then ({ it with cur := -1 }, false)
  else if it.cur == -1 then it.first
  else ({ it with cur := it.cur - 1 }, true)

/-- db/memory `iterator.Next` before cbe1291: `curInd++` unconditionally. -/
def next_before_cbe1291 (it : MIter) : MIter × Bool :=
  let it' : MIter := { it with cur := it.cur + 1 }
  (it', it'.valid)

/-- `First, Prev, Prev`: valid again before the repair, invalid now -/
theorem prev_before_first_before_cbe1291 :
    let it : MIter := ⟨[([0], [1])], -1, false⟩
    (prev_before_cbe1291 (prev_before_cbe1291 it.first.1).1).2 = true ∧ (it.first.1.prev.1.prev).2 = false := by
  decide

/-- `Seek(past end), Next, Prev`: returned true on an invalid position before the repair -/
theorem next_past_end_before_cbe1291 :
    let it : MIter := ⟨[([0], [1])], -1, false⟩
    let old := prev_before_cbe1291 (next_before_cbe1291 (it.seek [9]).1).1
    let new := ((it.seek [9]).1.next.1.prev)
    (old.2 = true ∧ old.1.kv = none) ∧ (new.2 = true ∧ new.1.kv = some ([0], [1])) := by
  decide

/-- Pebble wrappers' `snapshot.Has` before 8fcc30d: any engine error was returned, also
`ErrNotFound`. -/
def snapshotHas_before_8fcc30d : Except EErr Val → ROut
  | .ok _ => .bool true
  | .error _ => .errInvalid

theorem snapshot_has_before_8fcc30d :
    snapshotHas_before_8fcc30d (engineGet [] [3]) ≠ specImpl.shas [] [3] ∧ pebImpl.shas [] [3] = specImpl.shas [] [3] := by
  decide

end Juno.C15.Regress
