import JunoModel.C15.ModelBuf
/-!
C15 — STACKS of wrappers over the storage contract: any number of `db.BufferBatch` (db/bufferbatch.go)
and `db.SyncBatch` (db/syncbatch.go) values over one indexed batch, over each other, side by side over
the same batch (core/deprecatedstate keeps one `BufferBatch` per contract over ONE shared batch and
flushes them one after the other), with the store and the batch at the bottom changing in between.
Generic over the implementation `M` of the storage interface, like `xstep`. Core Lean only (linked into
the driver).

A wrapper holds a pointer to what it wraps (`BufferBatch.txn`, `SyncBatch.batch`), fixed at
construction. Following the pointers from a layer gives its CHAIN — the BUFFERS below it, top-down — and
the batch at the bottom; the chain is computed once, when the layer is made (`lnew`), and every call
walks it:

* `SyncBatch`: every method takes the lock and calls the same method of what it wraps — the model passes
  the call down unchanged, which is why a `SyncBatch` does not appear in any chain: a call on it enters
  at the first buffer below it (the lock is not modelled; concurrency is a test, not a theorem, for C15);
* `BufferBatch.Put/Delete`: the `updates` map only (nil entry = tombstone; nil MAP after `Write`: panic);
* `BufferBatch.Get`: the map, else the call goes down;
* `BufferBatch.Flush`: one `Put`/`Delete` on what it wraps per entry (first error ends the loop), the map
  stays;
* `BufferBatch.Write`: `Flush`, `updates = nil`, then `Write` of what it wraps (which, for a
  `BufferBatch` underneath, flushes in turn — down to the batch, whose `Write` commits to the store);
* `BufferBatch.Close`: `Close` of what it wraps; `Has`, `NewIterator`, `Size`, `DeleteRange`: panic.
-/
namespace Juno.C15

/-- what a wrapper wraps: a batch of the store (by handle) or an earlier layer -/
inductive Under
  | batch (b : Nat)
  | layer (n : Nat)
  deriving DecidableEq, Repr

inductive LKind
  | buf | sync
  deriving DecidableEq, Repr

/-- one `db.BufferBatch` / `db.SyncBatch` value. `chain`, `base`: the BUFFERS below it (top-down; the
`SyncBatch`es in between pass every call on) and the batch at the bottom. `updates` (BufferBatch only):
`none` = the nil map after `Write`. -/
structure Layer where
  kind : LKind
  chain : List Nat
  base : Nat
  updates : Option Updates
  deriving Repr

/-- a world of `M` (with the single wrappers of `xstep`) plus the table of layers -/
structure SWorld (B I : Type) where
  bw : BWorld B I
  layers : Nat → Option Layer
  nl : Nat

def SWorld.init {B I : Type} : SWorld B I := ⟨BWorld.init, fun _ => none, 0⟩

/-- the methods of `db.IndexedBatch` -/
inductive Call
  | put (k : Key) (v : Val) | del (k : Key) | delRange (s e : Key)
  | get (k : Key) (fail : Bool) | has (k : Key) | scan (p : Key) (u : Bool)
  | size | write | close
  deriving DecidableEq, Repr

/-- the call on the batch at the bottom of a chain -/
def baseOp (b : Nat) : Call → Op
  | .put k v => .bput b k v
  | .del k => .bdel b k
  | .delRange s e => .bdelRange b s e
  | .get k f => .get (.batch b) k f
  | .has k => .has (.batch b) k
  | .scan p u => .scan (.batch b) p u
  | .size => .bsize b
  | .write => .bwrite b
  | .close => .bclose b

inductive SOp
  | base (x : XOp)
  /-- `db.NewBufferBatch(under)` / `db.NewSyncBatch(under)` -/
  | lnew (kind : LKind) (under : Under)
  /-- a method of `db.IndexedBatch` called on layer `n` -/
  | lcall (n : Nat) (c : Call)
  /-- `BufferBatch.Flush` (no such method on a `SyncBatch`) -/
  | lflush (n : Nat)
  deriving DecidableEq, Repr

/-- `Put` / `Delete` as calls -/
def callOf : LogOp → Call
  | .put k v => .put k v
  | .del k => .del k
  | .delRange s e => .delRange s e

/-- calls made one after the other on a target `f`; the first error (or panic) ends the loop and is the
result -/
def replayCalls {σ : Type} (f : σ → Call → σ × Out) : List Call → σ → σ × Out
  | [], s => (s, .r .ok)
  | c :: rest, s =>
    let r := f s c
    if outOk r.2 then replayCalls f rest r.1 else r

/-- the calls `BufferBatch.Flush` makes on what the buffer wraps: `for key, val := range b.updates` —
`txn.Delete(key)` for a nil entry, `txn.Put(key, val)` otherwise (`overlayOps`, ModelBuf.lean) -/
def flushCalls (u : Updates) : List Call := (overlayOps u).map callOf

section
variable {B I : Type} (M : Impl B I)

def SWorld.setUpdates (sw : SWorld B I) (n : Nat) (l : Layer) (u : Option Updates) : SWorld B I :=
  { sw with layers := upd sw.layers n (some { l with updates := u }) }

/-- a call that enters the stack at the topmost buffer of `chain` (buffer handles, top-down) over batch
`base` -/
def chainOp (base : Nat) : List Nat → Call → SWorld B I → SWorld B I × Out
  | [], c, sw =>
    let r := step M sw.bw.w (baseOp base c)
    ({ sw with bw := { sw.bw with w := r.1 } }, r.2)
  | n :: rest, c, sw =>
    match sw.layers n with
    | none => (sw, .r .badHandle)
    | some l =>
      match c with
      | .put k v =>
        match l.updates with
        | none => (sw, .r .panic)   -- assignment to an entry of a nil map
        | some u => (sw.setUpdates n l (some (u.put k (some v))), .r .ok)
      | .del k =>
        match l.updates with
        | none => (sw, .r .panic)
        | some u => (sw.setUpdates n l (some (u.put k none)), .r .ok)
      | .get k fail =>
        match (l.updates.getD []).get k with
        | some (some v) => (sw, .r (readGet (.val v) fail))
        | some none => (sw, .r .notfound)
        | none => chainOp base rest (.get k fail) sw
      | .write =>
        let r := replayCalls (fun s c' => chainOp base rest c' s) (flushCalls (l.updates.getD [])) sw
        if outOk r.2 then chainOp base rest .write (r.1.setUpdates n l none) else r
      | .close => chainOp base rest .close sw
      | .delRange _ _ | .has _ | .scan _ _ | .size => (sw, .r .panic)   -- "should not be called"

def sstep (sw : SWorld B I) : SOp → SWorld B I × Out
  | .base x =>
    let r := xstep M sw.bw x
    ({ sw with bw := r.1 }, r.2)
  | .lnew kind under =>
    let made : Option Layer :=
      match under with
      | .batch b => if b < sw.bw.w.nb then some ⟨kind, [], b, some []⟩ else none
      | .layer m =>
        match sw.layers m with
        | some l => some ⟨kind, (match l.kind with | .buf => m :: l.chain | .sync => l.chain), l.base, some []⟩
        | none => none
    match made with
    | some l => ({ sw with layers := upd sw.layers sw.nl (some l), nl := sw.nl + 1 }, .handle sw.nl)
    | none => ({ sw with nl := sw.nl + 1 }, .r .badHandle)
  | .lcall n c =>
    match sw.layers n with
    | none => (sw, .r .badHandle)
    | some l => chainOp M l.base (match l.kind with | .buf => n :: l.chain | .sync => l.chain) c sw
  | .lflush n =>
    match sw.layers n with
    | none => (sw, .r .badHandle)
    | some l =>
      match l.kind with
      | .sync => (sw, .r .badHandle)
      | .buf => replayCalls (fun s c' => chainOp M l.base l.chain c' s) (flushCalls (l.updates.getD [])) sw

def srun : SWorld B I → List SOp → List Out
  | _, [] => []
  | sw, op :: rest =>
    let r := sstep M sw op
    r.2 :: srun r.1 rest

def sexec : SWorld B I → List SOp → SWorld B I
  | sw, [] => sw
  | sw, op :: rest => sexec (sstep M sw op).1 rest

end

/-- the documented-contract predicate of a call on a layer is that of the same call on the batch at the
bottom of its chain (evaluated on the contract's world, like `documented`) -/
def ldocumented (sw : SWorld SBatch SIter) (n : Nat) (c : Call) : Bool :=
  match sw.layers n with
  | none => true
  | some l => documented sw.bw.w (baseOp l.base c)

end Juno.C15
