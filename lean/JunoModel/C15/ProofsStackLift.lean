import JunoModel.C15.ProofsStackSim
/-!
Stacks of wrappers over an IMPLEMENTATION `M` of the storage interface (db/memory, the Pebble wrappers)
answer like the same stacks over the contract: `sstep M` against `sstep specImpl`, for every `M` with a
simulation `S : Sim M` that needs no F5 exclusion. The layers are the same on both sides (they are Go code
above the storage interface); only the calls that reach the batch at the bottom differ, and those are
covered by `step_sim`.
-/
namespace Juno.C15

/-- the documented-contract predicate of the stack ops, evaluated on the contract's own state: ops of the
storage interface as in `documented`; a call on a layer as the same call on the batch at the bottom of its
chain (`ldocumented`); the single wrappers of `xstep` are not part of this language -/
def sdoc (ss : SWorld SBatch SIter) : SOp → Bool
  | .base (.base op) => documented ss.bw.w op
  | .base _ => false
  | .lnew _ _ => true
  | .lcall n c => ldocumented ss n c
  | .lflush _ => true

section
variable {B I : Type} {M : Impl B I} (S : Sim M)

/-- … and the inputs `M` is known to misbehave on (`S.okOp`: for db/memory the re-entrant `Get` callback
while it calls back under the lock; nothing for the Pebble wrappers) -/
def sokOp (ss : SWorld SBatch SIter) : SOp → Bool
  | .base (.base op) => S.okOp op
  | .lcall n c =>
    match ss.layers n with
    | none => true
    | some l => S.okOp (baseOp l.base c)
  | _ => true

def inStackDoc : SWorld SBatch SIter → List SOp → Bool
  | _, [] => true
  | ss, op :: rest => sdoc ss op && sokOp S ss op && inStackDoc (sstep specImpl ss op).1 rest

structure RX (sm : SWorld B I) (ss : SWorld SBatch SIter) : Prop where
  w : R S sm.bw.w ss.bw.w
  layers : sm.layers = ss.layers
  nl : sm.nl = ss.nl

theorem RX_init : RX S (SWorld.init : SWorld B I) (SWorld.init : SWorld SBatch SIter) where
  w := R_init S
  layers := rfl
  nl := rfl

/-- the iterator tables of two contract worlds agree (all that `documented` reads for `Write`/`Close`
of a batch) -/
def sameIters (w w' : World SBatch SIter) : Prop :=
  w'.ni = w.ni ∧ w'.iters = w.iters ∧ w'.iorigin = w.iorigin

theorem sameIters.refl (w : World SBatch SIter) : sameIters w w := ⟨rfl, rfl, rfl⟩

theorem sameIters.trans {a b c : World SBatch SIter} (h1 : sameIters a b) (h2 : sameIters b c) : sameIters a c :=
  ⟨h2.1.trans h1.1, h2.2.1.trans h1.2.1, h2.2.2.trans h1.2.2⟩

theorem doc_bwrite_congr {w w' : World SBatch SIter} (h : sameIters w w') (b : Nat) :
    documented w' (.bwrite b) = documented w (.bwrite b) := by
  obtain ⟨h1, h2, h3⟩ := h
  simp only [documented, noLiveIterFrom, h1, h2, h3]

theorem sameIters_bput (w : World SBatch SIter) (b : Nat) (k : Key) (v : Val) :
    sameIters w (step specImpl w (.bput b k v)).1 := by
  simp only [step]
  cases w.batches b with
  | none => exact sameIters.refl w
  | some x => obtain ⟨x, idx⟩ := x; exact ⟨rfl, rfl, rfl⟩

theorem sameIters_bdel (w : World SBatch SIter) (b : Nat) (k : Key) :
    sameIters w (step specImpl w (.bdel b k)).1 := by
  simp only [step]
  cases w.batches b with
  | none => exact sameIters.refl w
  | some x => obtain ⟨x, idx⟩ := x; exact ⟨rfl, rfl, rfl⟩

variable (hnf : S.needF5 = false)
include hnf

/-- `Put` / `Delete` entering a chain: absorbed by the first buffer, or made on the batch at the bottom -/
theorem chainPutDel_lift (base : Nat) (chain : List Nat) (c : Call)
    (hc : (∃ k v, c = .put k v) ∨ (∃ k, c = .del k))
    {sm : SWorld B I} {ss : SWorld SBatch SIter} (h : RX S sm ss)
    (hok : S.okOp (baseOp base c) = true) :
    (chainOp M base chain c sm).2 = (chainOp specImpl base chain c ss).2 ∧
    RX S (chainOp M base chain c sm).1 (chainOp specImpl base chain c ss).1 ∧
    sameIters ss.bw.w (chainOp specImpl base chain c ss).1.bw.w := by
  cases chain with
  | nil =>
    rcases hc with ⟨k, v, rfl⟩ | ⟨k, rfl⟩
    · have := step_sim S h.w (.bput base k v) rfl hok (by intro hn; rw [hnf] at hn; cases hn)
      exact ⟨this.1, ⟨this.2, h.layers, h.nl⟩, sameIters_bput _ _ _ _⟩
    · have := step_sim S h.w (.bdel base k) rfl hok (by intro hn; rw [hnf] at hn; cases hn)
      exact ⟨this.1, ⟨this.2, h.layers, h.nl⟩, sameIters_bdel _ _ _⟩
  | cons n rest =>
    rcases hc with ⟨k, v, rfl⟩ | ⟨k, rfl⟩
    · cases hs : ss.layers n with
      | none => simp only [chainOp, h.layers, hs]; exact ⟨trivial, h, sameIters.refl _⟩
      | some l =>
        cases hu : l.updates with
        | none => simp only [chainOp, h.layers, hs, hu]; exact ⟨trivial, h, sameIters.refl _⟩
        | some u =>
          simp only [chainOp, h.layers, hs, hu]
          refine ⟨trivial, ⟨h.w, ?_, h.nl⟩, sameIters.refl _⟩
          simp only [SWorld.setUpdates, h.layers]
    · cases hs : ss.layers n with
      | none => simp only [chainOp, h.layers, hs]; exact ⟨trivial, h, sameIters.refl _⟩
      | some l =>
        cases hu : l.updates with
        | none => simp only [chainOp, h.layers, hs, hu]; exact ⟨trivial, h, sameIters.refl _⟩
        | some u =>
          simp only [chainOp, h.layers, hs, hu]
          refine ⟨trivial, ⟨h.w, ?_, h.nl⟩, sameIters.refl _⟩
          simp only [SWorld.setUpdates, h.layers]

/-- the calls of a `Flush`, in lockstep on both sides -/
theorem replay_lift (base : Nat) (chain : List Nat) : ∀ (ops : List LogOp), pointLog ops →
    (∀ o ∈ ops, S.okOp (baseOp base (callOf o)) = true) →
    ∀ {sm : SWorld B I} {ss : SWorld SBatch SIter}, RX S sm ss →
    (replayCalls (fun s c => chainOp M base chain c s) (ops.map callOf) sm).2 =
      (replayCalls (fun s c => chainOp specImpl base chain c s) (ops.map callOf) ss).2 ∧
    RX S (replayCalls (fun s c => chainOp M base chain c s) (ops.map callOf) sm).1
      (replayCalls (fun s c => chainOp specImpl base chain c s) (ops.map callOf) ss).1 ∧
    sameIters ss.bw.w (replayCalls (fun s c => chainOp specImpl base chain c s) (ops.map callOf) ss).1.bw.w := by
  intro ops
  induction ops with
  | nil => intro _ _ sm ss h; exact ⟨rfl, h, sameIters.refl _⟩
  | cons o rest ih =>
    intro hp hok sm ss h
    have hp' : pointLog rest := fun x hx => hp x (List.mem_cons_of_mem _ hx)
    have hok' : ∀ o' ∈ rest, S.okOp (baseOp base (callOf o')) = true := fun o' h' => hok o' (List.mem_cons_of_mem _ h')
    have ho := hp o List.mem_cons_self
    have hc : (∃ k v, callOf o = .put k v) ∨ (∃ k, callOf o = .del k) := by
      cases o with
      | put k v => exact Or.inl ⟨k, v, rfl⟩
      | del k => exact Or.inr ⟨k, rfl⟩
      | delRange s e => simp [LogOp.isRange] at ho
    have h1 := chainPutDel_lift S hnf base chain (callOf o) hc h (hok o List.mem_cons_self)
    simp only [List.map_cons, replayCalls_cons]
    rw [h1.1]
    by_cases hk : outOk (chainOp specImpl base chain (callOf o) ss).2 = true
    · simp only [hk, if_true]
      have h2 := ih hp' hok' h1.2.1
      exact ⟨h2.1, h2.2.1, sameIters.trans h1.2.2 h2.2.2⟩
    · simp only [hk]
      exact ⟨h1.1, h1.2.1, h1.2.2⟩

variable (hput : ∀ b k v, S.okOp (.bput b k v) = true) (hdel : ∀ b k, S.okOp (.bdel b k) = true)
include hput hdel

omit hnf in
theorem okOp_callOf (base : Nat) (u : Updates) : ∀ o ∈ overlayOps u, S.okOp (baseOp base (callOf o)) = true := by
  intro o ho
  have hp := overlayOps_point u o ho
  cases o with
  | put k v => exact hput base k v
  | del k => exact hdel base k
  | delRange s e => simp [LogOp.isRange] at hp

/-- any call entering a chain -/
theorem chainOp_lift (base : Nat) : ∀ (chain : List Nat) (c : Call) {sm : SWorld B I} {ss : SWorld SBatch SIter},
    RX S sm ss → documented ss.bw.w (baseOp base c) = true → S.okOp (baseOp base c) = true →
    (chainOp M base chain c sm).2 = (chainOp specImpl base chain c ss).2 ∧
    RX S (chainOp M base chain c sm).1 (chainOp specImpl base chain c ss).1 := by
  intro chain
  induction chain with
  | nil =>
    intro c sm ss h hdoc hok
    have := step_sim S h.w (baseOp base c) hdoc hok (by intro hn; rw [hnf] at hn; cases hn)
    exact ⟨this.1, ⟨this.2, h.layers, h.nl⟩⟩
  | cons n rest ih =>
    intro c sm ss h hdoc hok
    cases hs : ss.layers n with
    | none => simp only [chainOp, h.layers, hs]; exact ⟨trivial, h⟩
    | some l =>
      cases c with
      | put k v =>
        have := chainPutDel_lift S hnf base (n :: rest) (.put k v) (Or.inl ⟨k, v, rfl⟩) h hok
        exact ⟨this.1, this.2.1⟩
      | del k =>
        have := chainPutDel_lift S hnf base (n :: rest) (.del k) (Or.inr ⟨k, rfl⟩) h hok
        exact ⟨this.1, this.2.1⟩
      | get k fail =>
        cases hg : (l.updates.getD []).get k with
        | none => simp only [chainOp, h.layers, hs, hg]; exact ih (.get k fail) h hdoc hok
        | some r =>
          cases r with
          | none => simp only [chainOp, h.layers, hs, hg]; exact ⟨trivial, h⟩
          | some v => simp only [chainOp, h.layers, hs, hg]; exact ⟨trivial, h⟩
      | write =>
        have hf := replay_lift S hnf base rest (overlayOps (l.updates.getD [])) (overlayOps_point _)
          (okOp_callOf S hput hdel base _) h
        simp only [chainOp, h.layers, hs, flushCalls]
        have hkm : outOk (replayCalls (fun s c' => chainOp M base rest c' s)
            ((overlayOps (l.updates.getD [])).map callOf) sm).2 =
          outOk (replayCalls (fun s c' => chainOp specImpl base rest c' s)
            ((overlayOps (l.updates.getD [])).map callOf) ss).2 := by rw [hf.1]
        by_cases hk : outOk (replayCalls (fun s c' => chainOp specImpl base rest c' s)
            ((overlayOps (l.updates.getD [])).map callOf) ss).2 = true
        · simp only [hkm, hk, if_true]
          apply ih .write
          · exact ⟨hf.2.1.w, by simp only [SWorld.setUpdates, hf.2.1.layers], hf.2.1.nl⟩
          · have := doc_bwrite_congr hf.2.2 base
            simp only [baseOp] at hdoc ⊢
            simp only [SWorld.setUpdates]
            rw [this]; exact hdoc
          · exact hok
        · simp only [hkm, hk]
          exact ⟨hf.1, hf.2.1⟩
      | close =>
        simp only [chainOp, h.layers, hs]
        exact ih .close h hdoc hok
      | delRange s e => simp only [chainOp, h.layers, hs]; exact ⟨trivial, h⟩
      | has k => simp only [chainOp, h.layers, hs]; exact ⟨trivial, h⟩
      | scan p u => simp only [chainOp, h.layers, hs]; exact ⟨trivial, h⟩
      | size => simp only [chainOp, h.layers, hs]; exact ⟨trivial, h⟩

theorem sstep_lift {sm : SWorld B I} {ss : SWorld SBatch SIter} (h : RX S sm ss) (op : SOp)
    (hdoc : sdoc ss op = true) (hok : sokOp S ss op = true) :
    (sstep M sm op).2 = (sstep specImpl ss op).2 ∧ RX S (sstep M sm op).1 (sstep specImpl ss op).1 := by
  cases op with
  | base x =>
    cases x with
    | base o =>
      have := step_sim S h.w o hdoc hok (by intro hn; rw [hnf] at hn; cases hn)
      simp only [sstep, xstep]
      exact ⟨this.1, ⟨this.2, h.layers, h.nl⟩⟩
    | newBuf => simp [sdoc] at hdoc
    | bufPut b k v => simp [sdoc] at hdoc
    | bufDel b k => simp [sdoc] at hdoc
    | bufGet b k f => simp [sdoc] at hdoc
    | bufFlush b => simp [sdoc] at hdoc
    | bufWrite b => simp [sdoc] at hdoc
    | bufClose b => simp [sdoc] at hdoc
    | bufOther b => simp [sdoc] at hdoc
  | lnew kind under =>
    cases under with
    | batch b =>
      by_cases hb : b < ss.bw.w.nb
      · simp only [sstep, h.layers, h.nl, h.w.nb, hb, if_true]; exact ⟨trivial, ⟨h.w, rfl, rfl⟩⟩
      · simp only [sstep, h.layers, h.nl, h.w.nb, hb, if_false]; exact ⟨trivial, ⟨h.w, rfl, rfl⟩⟩
    | layer m =>
      cases hs : ss.layers m with
      | none => simp only [sstep, h.layers, h.nl, hs]; exact ⟨trivial, ⟨h.w, rfl, rfl⟩⟩
      | some l => simp only [sstep, h.layers, h.nl, hs]; exact ⟨trivial, ⟨h.w, rfl, rfl⟩⟩
  | lcall n c =>
    cases hs : ss.layers n with
    | none => simp only [sstep, h.layers, hs]; exact ⟨trivial, h⟩
    | some l =>
      simp only [sdoc, ldocumented, hs] at hdoc
      simp only [sokOp, hs] at hok
      simp only [sstep, h.layers, hs]
      exact chainOp_lift S hnf hput hdel l.base _ c h hdoc hok
  | lflush n =>
    cases hs : ss.layers n with
    | none => simp only [sstep, h.layers, hs]; exact ⟨trivial, h⟩
    | some l =>
      cases hk : l.kind with
      | sync => simp only [sstep, h.layers, hs, hk]; exact ⟨trivial, h⟩
      | buf =>
        have hf := replay_lift S hnf l.base l.chain (overlayOps (l.updates.getD [])) (overlayOps_point _)
          (okOp_callOf S hput hdel l.base _) h
        simp only [sstep, h.layers, hs, hk, flushCalls]
        exact ⟨hf.1, hf.2.1⟩

theorem srun_lift : ∀ (ops : List SOp) (sm : SWorld B I) (ss : SWorld SBatch SIter), RX S sm ss →
    inStackDoc S ss ops = true → srun M sm ops = srun specImpl ss ops := by
  intro ops
  induction ops with
  | nil => intro _ _ _ _; rfl
  | cons op rest ih =>
    intro sm ss h hc
    simp only [inStackDoc, Bool.and_eq_true] at hc
    have hs := sstep_lift S hnf hput hdel h op hc.1.1 hc.1.2
    simp only [srun]
    rw [hs.1, ih _ _ hs.2 hc.2]

end

/-- every step is inside the documented contract of the stack language -/
def inStackDocumented : SWorld SBatch SIter → List SOp → Bool
  | _, [] => true
  | ss, op :: rest => sdoc ss op && inStackDocumented (sstep specImpl ss op).1 rest

theorem inStackDoc_of_okTrue {B I : Type} {M : Impl B I} (S : Sim M) (hall : ∀ op, S.okOp op = true) :
    ∀ (ops : List SOp) (ss : SWorld SBatch SIter), inStackDoc S ss ops = inStackDocumented ss ops := by
  intro ops
  induction ops with
  | nil => intro ss; rfl
  | cons op rest ih =>
    intro ss
    have hok : sokOp S ss op = true := by
      cases op with
      | base x => cases x <;> simp [sokOp, hall]
      | lnew kind under => rfl
      | lcall n c =>
        simp only [sokOp]
        cases ss.layers n with
        | none => rfl
        | some l => exact hall _
      | lflush n => rfl
    simp only [inStackDoc, inStackDocumented, hok, Bool.and_true, ih]

theorem memOK_true (op : Op) : memOK ⟨true⟩ op = true := by cases op <;> rfl

end Juno.C15
