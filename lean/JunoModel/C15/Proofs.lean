import JunoModel.C15.Model
/-! Helper lemmas for C15 (the property statements themselves are in `Props.lean`). -/
namespace Juno.C15

theorem lexLt_irrefl (a : Key) : lexLt a a = false := by
  induction a with
  | nil => rfl
  | cons x xs ih => simp [lexLt, ih]

theorem u8_lt_succ (b : UInt8) (h : b ≠ 255) : b < b + 1 := by
  have : b.toNat ≠ 255 := fun h' => h (UInt8.toNat_inj.mp (by simpa using h'))
  have hb := b.toNat_lt
  rw [UInt8.lt_iff_toNat_lt, UInt8.toNat_add]
  simp
  omega

theorem u8_lt_succ_iff (k b : UInt8) (h : b ≠ 255) : k < b + 1 ↔ ¬ b < k := by
  have : b.toNat ≠ 255 := fun h' => h (UInt8.toNat_inj.mp (by simpa using h'))
  have hb := b.toNat_lt
  rw [UInt8.lt_iff_toNat_lt, UInt8.lt_iff_toNat_lt, UInt8.toNat_add]
  simp
  omega

theorem upperBound_none_iff (p : Key) : upperBound p = none ↔ ∀ b ∈ p, b = 255 := by
  induction p with
  | nil => simp [upperBound]
  | cons b rest ih =>
    unfold upperBound
    cases h : upperBound rest with
    | some u =>
      simp only [reduceCtorEq, false_iff]
      intro hall
      have := ih.mpr (fun x hx => hall x (List.mem_cons_of_mem _ hx))
      simp [h] at this
    | none =>
      have hr := ih.mp h
      by_cases hb : b = 255
      · simp [hb]; exact hr
      · simp [hb]

end Juno.C15

namespace Juno.C15

/-- `lexLt k u` where `u = upperBound p`, characterised together with `lexLe p k`. -/
theorem hasPrefix_iff_range (p : Key) : ∀ k : Key,
    hasPrefix k p = true ↔
      (lexLe p k = true ∧ (match upperBound p with | none => True | some u => lexLt k u = true)) := by
  induction p with
  | nil =>
    intro k
    cases k <;> simp [hasPrefix, lexLe, lexLt, upperBound]
  | cons b rest ih =>
    intro k
    cases k with
    | nil =>
      simp [hasPrefix, lexLe, lexLt]
    | cons c ks =>
      have ihk := ih ks
      unfold upperBound
      simp only [hasPrefix, lexLe, lexLt, Bool.and_eq_true, beq_iff_eq]
      by_cases hcb : c = b
      · subst hcb
        have hirr : ¬ (c < c) := by simp
        cases hu : upperBound rest with
        | some u =>
          simp only [hu] at ihk
          simp [hirr, lexLe, lexLt] at ihk ⊢
          exact ihk
        | none =>
          simp only [hu] at ihk
          by_cases hff : c = 255
          · subst hff
            simp [lexLe] at ihk ⊢
            exact ihk
          · have hlt : c < c + 1 := u8_lt_succ c hff
            simp [hff, lexLt, hlt, lexLe] at ihk ⊢
            exact ihk
      · -- first byte differs: no prefix; show the range condition fails
        have hne : ¬ (c = b) := hcb
        simp only [hne, false_and, false_iff]
        intro ⟨hle, hub⟩
        by_cases hlt : c < b
        · simp [hlt] at hle
        · have hgt : b < c := by
            rcases Nat.lt_trichotomy b.toNat c.toNat with h | h | h
            · exact UInt8.lt_iff_toNat_lt.mpr h
            · exact absurd (UInt8.toNat_inj.mp h).symm hcb
            · exact absurd (UInt8.lt_iff_toNat_lt.mpr h) hlt
          cases hu : upperBound rest with
          | some u =>
            simp [hu, lexLt, hlt, hgt] at hub
          | none =>
            by_cases hff : b = 255
            · subst hff
              have := c.toNat_lt
              have h2 := UInt8.lt_iff_toNat_lt.mp hgt
              simp at h2
              omega
            · simp only [hu, hff] at hub
              have := (u8_lt_succ_iff c b hff)
              simp [lexLt] at hub
              rcases hub with h1 | ⟨_, h2⟩
              · exact (this.mp h1) hgt
              · cases ks <;> simp [lexLt] at h2

end Juno.C15
