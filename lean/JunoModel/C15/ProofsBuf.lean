import JunoModel.C15.ProofsRange
import JunoModel.C15.ModelBuf
/-! `db.BufferBatch`: the overlay map + `Flush` amount to the log of the `Put`/`Delete` calls;
`CalculatePrefixSize` counts exactly the entries in range. -/
namespace Juno.C15

/-! ### extensionality of sorted maps -/

theorem Sorted.get_head_none {α : Type} {k : Key} {v : α} {r : SMap α} (h : Sorted ((k, v) :: r)) :
    SMap.get r k = none := by
  have hy : ∀ x ∈ r, lexLt k x.1 = true := (List.pairwise_cons.mp h).1
  have hr : Sorted r := (List.pairwise_cons.mp h).2
  cases hg : SMap.get r k with
  | none => rfl
  | some w =>
    have := (hr.get_eq_some k w).mp hg
    exact absurd rfl (lexLt_ne (hy _ this))

theorem Sorted.get_lt_none {α : Type} {k : Key} {m : SMap α} (h : Sorted m)
    (hlt : ∀ x ∈ m, lexLt k x.1 = true) : SMap.get m k = none := by
  cases hg : SMap.get m k with
  | none => rfl
  | some w =>
    have := (h.get_eq_some k w).mp hg
    exact absurd rfl (lexLt_ne (hlt _ this))

/-- two sorted maps with the same lookups are the same list -/
theorem Sorted.ext {α : Type} : ∀ {m1 m2 : SMap α}, Sorted m1 → Sorted m2 →
    (∀ k, SMap.get m1 k = SMap.get m2 k) → m1 = m2 := by
  intro m1
  induction m1 with
  | nil =>
    intro m2 _ h2 he
    cases m2 with
    | nil => rfl
    | cons y r =>
      obtain ⟨ky, vy⟩ := y
      have := he ky
      simp [SMap.get] at this
  | cons x r1 ih =>
    obtain ⟨kx, vx⟩ := x
    intro m2 h1 h2 he
    have hr1 : Sorted r1 := (List.pairwise_cons.mp h1).2
    have hx : ∀ z ∈ r1, lexLt kx z.1 = true := (List.pairwise_cons.mp h1).1
    cases m2 with
    | nil =>
      have := he kx
      simp [SMap.get] at this
    | cons y r2 =>
      obtain ⟨ky, vy⟩ := y
      have hr2 : Sorted r2 := (List.pairwise_cons.mp h2).2
      have hy : ∀ z ∈ r2, lexLt ky z.1 = true := (List.pairwise_cons.mp h2).1
      -- the two heads have the same key
      have hk : kx = ky := by
        cases h12 : lexLt kx ky with
        | true =>
          -- kx is below every key of m2: m2.get kx = none, but m1.get kx = some vx
          have hn : SMap.get ((ky, vy) :: r2) kx = none := by
            apply h2.get_lt_none
            intro z hz
            rcases List.mem_cons.mp hz with e | e
            · subst e; exact h12
            · exact lexLt_trans _ _ _ h12 (hy z e)
          have := he kx
          rw [hn] at this
          simp [SMap.get] at this
        | false =>
          cases h21 : lexLt ky kx with
          | true =>
            have hn : SMap.get ((kx, vx) :: r1) ky = none := by
              apply h1.get_lt_none
              intro z hz
              rcases List.mem_cons.mp hz with e | e
              · subst e; exact h21
              · exact lexLt_trans _ _ _ h21 (hx z e)
            have := he ky
            rw [hn] at this
            simp [SMap.get] at this
          | false => exact lexLt_total kx ky h12 h21
      subst hk
      have hv : vx = vy := by
        have := he kx
        simpa [SMap.get] using this
      subst hv
      congr 1
      apply ih hr1 hr2
      intro k
      by_cases e : kx = k
      · subst e
        rw [h1.get_head_none, h2.get_head_none]
      · have := he k
        simpa [SMap.get, e] using this

/-! ### the overlay -/

/-- what an entry of `updates`, or else the wrapped batch, makes visible -/
def viewOr (x : Option (Option Val)) (fallback : Option Val) : Option Val :=
  match x with
  | some ov => ov
  | none => fallback

theorem bufLookup_eq (u : Updates) (inner : Key → Option Val) (k : Key) :
    bufLookup u inner k = viewOr (u.get k) (inner k) := rfl

def pointLog (l : List LogOp) : Prop := ∀ o ∈ l, o.isRange = false

/-- invariant of the `Put`/`Delete` calls: the overlay over `base` shows what the log applied to `base`
holds -/
theorem bufBuild_rel (base : KV) : ∀ (log : List LogOp) (u : Updates) (d : KV), pointLog log →
    (∀ k, viewOr (u.get k) (base.get k) = d.get k) →
    ∀ k, viewOr ((log.foldl bufApply u).get k) (base.get k) = (applyLog d log).get k := by
  intro log
  induction log with
  | nil => intro u d _ h; exact h
  | cons o rest ih =>
    intro u d hp h
    have hp' : pointLog rest := fun x hx => hp x (List.mem_cons_of_mem _ hx)
    simp only [List.foldl_cons, applyLog]
    apply ih _ _ hp'
    intro k
    have ho := hp o List.mem_cons_self
    cases o with
    | put k0 v =>
      simp only [bufApply, LogOp.apply, SMap.get_put]
      by_cases e : k0 = k
      · simp [e, viewOr]
      · simp only [e, if_false]; exact h k
    | del k0 =>
      simp only [bufApply, LogOp.apply, SMap.get_put, SMap.get_del]
      by_cases e : k0 = k
      · simp [e, viewOr]
      · simp only [e, if_false]; exact h k
    | delRange s e => simp [LogOp.isRange] at ho

theorem sorted_bufBuild : ∀ (log : List LogOp) (u : Updates), Sorted u → Sorted (log.foldl bufApply u) := by
  intro log
  induction log with
  | nil => intro u h; exact h
  | cons o rest ih =>
    intro u h
    simp only [List.foldl_cons]
    apply ih
    cases o with
    | put k v => exact h.put _ _
    | del k => exact h.put _ _
    | delRange s e => exact h

/-- what `Flush` issues, applied to a store: every key of the overlay gets the overlay's verdict -/
theorem applyLog_overlayOps : ∀ (u : Updates), Sorted u → ∀ (d : KV) (k : Key),
    (applyLog d (overlayOps u)).get k = viewOr (u.get k) (d.get k) := by
  intro u
  induction u with
  | nil => intro _ d k; rfl
  | cons x r ih =>
    obtain ⟨k0, ov⟩ := x
    intro hs d k
    have hr : Sorted r := (List.pairwise_cons.mp hs).2
    have hcons : applyLog d (overlayOps ((k0, ov) :: r)) = applyLog ((entryOp (k0, ov)).apply d) (overlayOps r) := rfl
    rw [hcons, ih hr, SMap.get_cons]
    by_cases e : k0 = k
    · subst e
      rw [hs.get_head_none]
      cases ov with
      | some v => simp [viewOr, entryOp, LogOp.apply, SMap.get_put]
      | none => simp [viewOr, entryOp, LogOp.apply, SMap.get_del]
    · simp only [e, if_false]
      cases hg : SMap.get r k with
      | some w => rfl
      | none =>
        cases ov with
        | some v => simp [viewOr, entryOp, LogOp.apply, SMap.get_put, e]
        | none => simp [viewOr, entryOp, LogOp.apply, SMap.get_del, e]

theorem overlayOps_point (u : Updates) : pointLog (overlayOps u) := by
  intro o ho
  simp only [overlayOps, List.mem_map] at ho
  obtain ⟨x, _, rfl⟩ := ho
  obtain ⟨k, ov⟩ := x
  cases ov <;> rfl

/-! ### the flush loop on the contract -/

theorem spec_bput_live {w : World SBatch SIter} {b : Nat} {sb : SBatch} {idx : Bool}
    (h : w.batches b = some (sb, idx)) (k : Key) (v : Val) :
    step specImpl w (.bput b k v) =
      ({ w with batches := upd w.batches b (some (specImpl.bput sb k v, idx)) }, .r .ok) := by
  simp [step, h]

theorem spec_bdel_live {w : World SBatch SIter} {b : Nat} {sb : SBatch} {idx : Bool}
    (h : w.batches b = some (sb, idx)) (k : Key) :
    step specImpl w (.bdel b k) =
      ({ w with batches := upd w.batches b (some (specImpl.bdel sb k, idx)) }, .r .ok) := by
  simp [step, h]

/-- `Flush` on a live wrapped batch appends `overlayOps updates` to its log, touches nothing else and
succeeds -/
theorem spec_flushLoop (b : Nat) (idx : Bool) : ∀ (u : Updates) (w : World SBatch SIter) (sb : SBatch),
    w.batches b = some (sb, idx) →
    ∃ sb', (bufFlushLoop specImpl b u w) =
        ({ w with batches := upd w.batches b (some (sb', idx)) }, .r .ok) ∧
      sb'.log = sb.log ++ overlayOps u := by
  intro u
  induction u with
  | nil =>
    intro w sb h
    refine ⟨sb, ?_, by simp [overlayOps]⟩
    simp only [bufFlushLoop]
    congr 1
    cases w
    simp only [World.mk.injEq, true_and] at *
    refine ⟨?_, trivial⟩
    funext n
    by_cases e : n = b
    · subst e; simp [h]
    · simp [upd, e]
  | cons x r ih =>
    obtain ⟨k0, ov⟩ := x
    intro w sb h
    cases ov with
    | some v =>
      have hst := spec_bput_live h k0 v
      simp only [bufFlushLoop, hst, outOk, if_true]
      obtain ⟨sb', h1, h2⟩ := ih { w with batches := upd w.batches b (some (specImpl.bput sb k0 v, idx)) }
        (specImpl.bput sb k0 v) (by simp)
      refine ⟨sb', ?_, ?_⟩
      · rw [h1]
        congr 1
        simp only [World.mk.injEq, true_and]
        refine ⟨?_, trivial⟩
        funext n
        by_cases e : n = b
        · subst e; simp
        · simp [upd, e]
      · rw [h2]; simp [specImpl, overlayOps, entryOp]
    | none =>
      have hst := spec_bdel_live h k0
      simp only [bufFlushLoop, hst, outOk, if_true]
      obtain ⟨sb', h1, h2⟩ := ih { w with batches := upd w.batches b (some (specImpl.bdel sb k0, idx)) }
        (specImpl.bdel sb k0) (by simp)
      refine ⟨sb', ?_, ?_⟩
      · rw [h1]
        congr 1
        simp only [World.mk.injEq, true_and]
        refine ⟨?_, trivial⟩
        funext n
        by_cases e : n = b
        · subst e; simp
        · simp [upd, e]
      · rw [h2]; simp [specImpl, overlayOps, entryOp]

/-! ### CalculatePrefixSize -/

def sumSizes (l : List (Key × Val)) : Nat := (l.map (fun x => x.1.length + x.2.length)).sum

section
variable {B I : Type} {M : Impl B I} (S : Sim M)

theorem prefixSizeLoop_sim : ∀ (fuel : Nat) (mi : I) (si : SIter) (acc : Nat × Nat), S.ri mi si →
    prefixSizeLoop M fuel mi acc =
      (acc.1 + (scanLoop specImpl fuel si si.cur.isSome).length,
       acc.2 + sumSizes (scanLoop specImpl fuel si si.cur.isSome)) := by
  intro fuel
  induction fuel with
  | zero => intro mi si acc _; simp [prefixSizeLoop, scanLoop, sumSizes]
  | succ f ih =>
    intro mi si acc h
    cases hc : si.cur with
    | none =>
      have hm : M.icur mi = none := by rw [S.cur h, hc]
      simp [prefixSizeLoop, scanLoop, hm, sumSizes]
    | some kv =>
      obtain ⟨k, v⟩ := kv
      have hm : M.icur mi = some (k, v) := by rw [S.cur h, hc]
      have hs : specImpl.icur si = some (k, v) := hc
      have hn := S.next h
      have e2 : specImpl.inext si = (si.next, si.next.cur.isSome) := rfl
      simp only [prefixSizeLoop, hm, scanLoop, Option.isSome_some, if_true, hs, e2]
      rw [ih _ _ _ hn.1]
      simp only [List.length_cons, sumSizes, List.map_cons, List.sum_cons]
      congr 1 <;> omega

include S in
/-- `CalculatePrefixSize` over an iterator of `M`: number and byte size of the entries in range -/
theorem prefixSize_eq (c : KV) (p : Key) (u : Bool) :
    prefixSize M c p u =
      ((c.filter (fun x => specBound p u x.1)).length, sumSizes (c.filter (fun x => specBound p u x.1))) := by
  unfold prefixSize
  have hf := S.first (S.mkIter c p u)
  rw [prefixSizeLoop_sim S _ _ _ (0, 0) hf.1]
  have hsc := spec_scan c p u
  unfold scan at hsc
  have e2 : specImpl.ifirst (specImpl.imk c p u) =
      ((specImpl.imk c p u).first, (specImpl.imk c p u).first.cur.isSome) := rfl
  rw [e2] at hsc
  simp only at hsc
  rw [hsc]
  simp

end

end Juno.C15

namespace Juno.C15

/-- `Write` of a `BufferBatch` on the contract: flush, drop the map, write the wrapped batch -/
theorem spec_bufWrite (bw : BWorld SBatch SIter) (b : Nat) (u : Updates) (sb : SBatch) (idx : Bool) (d : KV)
    (hu : bw.bufs b = some (some u)) (hb : bw.w.batches b = some (sb, idx)) (hd : bw.w.db = some d) :
    (xstep specImpl bw (.bufWrite b)).2 = .r .ok ∧
    (xstep specImpl bw (.bufWrite b)).1.w.db = some (applyLog d (sb.log ++ overlayOps u)) ∧
    (xstep specImpl bw (.bufWrite b)).1.bufs b = some none ∧
    (xstep specImpl bw (.bufWrite b)).1.w.batches b = none := by
  obtain ⟨sb', h1, h2⟩ := spec_flushLoop b idx u bw.w sb hb
  simp only [xstep, hu, Option.getD_some, h1, outOk, if_true]
  simp [step, hd, upd, specImpl, h2]

end Juno.C15

/-! ### the order in which `Flush` visits the map does not matter -/
namespace Juno.C15

def distinctKeys (l : List (Key × Option Val)) : Prop := l.Pairwise (fun a b => a.1 ≠ b.1)

theorem get_none_of_forall_ne {α : Type} (r : SMap α) (k : Key) (h : ∀ x ∈ r, x.1 ≠ k) : SMap.get r k = none := by
  induction r with
  | nil => rfl
  | cons x r ih =>
    obtain ⟨kx, vx⟩ := x
    have h1 : kx ≠ k := h (kx, vx) List.mem_cons_self
    simp only [SMap.get_cons, h1, if_false]
    exact ih (fun y hy => h y (List.mem_cons_of_mem _ hy))

theorem distinct_get_eq_some {l : List (Key × Option Val)} (h : distinctKeys l) (k : Key) (v : Option Val) :
    SMap.get l k = some v ↔ (k, v) ∈ l := by
  induction l with
  | nil => simp [SMap.get]
  | cons y r ih =>
    obtain ⟨ky, vy⟩ := y
    have hr : distinctKeys r := (List.pairwise_cons.mp h).2
    have hy : ∀ x ∈ r, ky ≠ x.1 := (List.pairwise_cons.mp h).1
    simp only [SMap.get_cons, List.mem_cons]
    by_cases hk : ky = k
    · subst hk
      simp only [if_true]
      constructor
      · intro e; cases e; exact Or.inl rfl
      · intro e
        rcases e with e | e
        · cases e; rfl
        · exact absurd rfl (hy _ e)
    · simp only [hk, if_false, ih hr]
      constructor
      · exact Or.inr
      · intro e
        rcases e with e | e
        · cases e; exact absurd rfl hk
        · exact e

theorem applyLog_entries (l : List (Key × Option Val)) (h : distinctKeys l) : ∀ (d : KV) (k : Key),
    (applyLog d (l.map entryOp)).get k = viewOr (SMap.get l k) (d.get k) := by
  induction l with
  | nil => intro d k; rfl
  | cons x r ih =>
    obtain ⟨k0, ov⟩ := x
    intro d k
    have hr : distinctKeys r := (List.pairwise_cons.mp h).2
    have hy : ∀ y ∈ r, k0 ≠ y.1 := (List.pairwise_cons.mp h).1
    have hcons : applyLog d (((k0, ov) :: r).map entryOp) = applyLog ((entryOp (k0, ov)).apply d) (r.map entryOp) := rfl
    rw [hcons, ih hr, SMap.get_cons]
    by_cases e : k0 = k
    · subst e
      rw [get_none_of_forall_ne r k0 (fun y hy' => (hy y hy').symm)]
      cases ov with
      | some v => simp [viewOr, entryOp, LogOp.apply, SMap.get_put]
      | none => simp [viewOr, entryOp, LogOp.apply, SMap.get_del]
    · simp only [e, if_false]
      cases hg : SMap.get r k with
      | some w => rfl
      | none =>
        cases ov with
        | some v => simp [viewOr, entryOp, LogOp.apply, SMap.get_put, e]
        | none => simp [viewOr, entryOp, LogOp.apply, SMap.get_del, e]

theorem sorted_distinct {u : Updates} (h : Sorted u) : distinctKeys u :=
  List.Pairwise.imp (fun hlt => lexLt_ne hlt) h

theorem perm_get_eq {l u : List (Key × Option Val)} (hp : l.Perm u) (hu : distinctKeys u) (k : Key) :
    SMap.get l k = SMap.get u k := by
  have hl : distinctKeys l := (hp.pairwise_iff (fun h => fun e => h e.symm)).mpr hu
  apply Option.ext
  intro v
  rw [distinct_get_eq_some hl, distinct_get_eq_some hu]
  exact hp.mem_iff

theorem sorted_entries_applyLog {d : KV} (hd : Sorted d) (l : List (Key × Option Val)) :
    Sorted (applyLog d (l.map entryOp)) := sorted_applyLog hd _

end Juno.C15
