import JunoModel.C15.ProofsIter
/-! Scans (`First`, then `Next` until invalid): db/memory agrees with the contract; the contract
scan lists exactly the keys inside the bounds, in order. -/
namespace Juno.C15

theorem pos_of_cur_some {si : SIter} {kv : Key × Val} (h : si.cur = some kv) : si.pos ≠ .after := by
  intro e; simp [SIter.cur, e] at h

theorem scanLoop_sim (cfg : Cfg) : ∀ (fuel : Nat) (mi : MIter) (si : SIter), RI mi si →
    scanLoop (memImpl cfg) fuel mi si.cur.isSome = scanLoop specImpl fuel si si.cur.isSome := by
  intro fuel
  induction fuel with
  | zero => intro mi si _; rfl
  | succ f ih =>
    intro mi si h
    cases hc : si.cur with
    | none => simp [scanLoop]
    | some kv =>
      have hm : (memImpl cfg).icur mi = some kv := by
        show mi.kv = some kv
        rw [RI_cur h, hc]
      have hs : specImpl.icur si = some kv := hc
      have hn := next_sim cfg h (Or.inr (pos_of_cur_some hc))
      simp only [scanLoop, Option.isSome_some, if_true, hm, hs]
      have e1 : (memImpl cfg).inext mi = mi.next cfg := rfl
      have e2 : specImpl.inext si = (si.next, si.next.cur.isSome) := rfl
      rw [e1, e2, hn.2]
      congr 1
      exact ih _ _ hn.1

theorem scan_sim (cfg : Cfg) (c : KV) (p : Key) (u : Bool) (hok : iterArgsOK cfg p u = true) :
    scan (memImpl cfg) c p u = scan specImpl c p u := by
  unfold scan
  have hR := RI_mk cfg c p u hok
  have hf := first_sim hR
  have e1 : (memImpl cfg).ifirst ((memImpl cfg).imk c p u) = (MIter.mk' cfg c p u).first := rfl
  have e2 : specImpl.ifirst (specImpl.imk c p u) =
      ((specImpl.imk c p u).first, (specImpl.imk c p u).first.cur.isSome) := rfl
  rw [e1, e2]
  show scanLoop (memImpl cfg) (c.length + 1) (MIter.mk' cfg c p u).first.1 (MIter.mk' cfg c p u).first.2 =
    scanLoop specImpl (c.length + 1) (specImpl.imk c p u).first (specImpl.imk c p u).first.cur.isSome
  rw [hf.2]
  exact scanLoop_sim cfg _ _ _ hf.1

theorem spec_scanLoop_at (ks : KV) : ∀ (fuel i : Nat), i < ks.length → ks.length - i ≤ fuel →
    scanLoop specImpl fuel ⟨ks, .at i⟩ true = ks.drop i := by
  intro fuel
  induction fuel with
  | zero => intro i h1 h2; omega
  | succ f ih =>
    intro i h1 h2
    have hcur : specImpl.icur ⟨ks, .at i⟩ = some ks[i] := by
      show (ks[i]? : Option (Key × Val)) = some ks[i]
      exact List.getElem?_eq_getElem h1
    simp only [scanLoop, if_true, hcur]
    rw [List.drop_eq_getElem_cons h1]
    congr 1
    by_cases hn : i + 1 < ks.length
    · have e : specImpl.inext ⟨ks, .at i⟩ = (⟨ks, .at (i + 1)⟩, true) := by
        simp [specImpl, SIter.next, SIter.ret, SIter.cur, hn, List.getElem?_eq_getElem hn]
      rw [e]
      exact ih (i + 1) hn (by omega)
    · have e : specImpl.inext ⟨ks, .at i⟩ = (⟨ks, .after⟩, false) := by
        simp [specImpl, SIter.next, SIter.ret, SIter.cur, hn]
      rw [e]
      have : ks.drop (i + 1) = [] := List.drop_eq_nil_of_le (by omega)
      rw [this]
      cases f <;> simp [scanLoop]

/-- the contract scan lists exactly the entries whose key lies within the bounds, in store order -/
theorem spec_scan (c : KV) (p : Key) (u : Bool) :
    scan specImpl c p u = c.filter (fun x => specBound p u x.1) := by
  unfold scan
  have hlen : (c.filter (fun x => specBound p u x.1)).length ≤ c.length := List.length_filter_le _ _
  generalize hks : c.filter (fun x => specBound p u x.1) = ks at hlen
  have e0 : specImpl.imk c p u = ⟨ks, .unpos⟩ := by simp [specImpl, hks]
  rw [e0]
  by_cases hn : 0 < ks.length
  · have e : specImpl.ifirst ⟨ks, .unpos⟩ = (⟨ks, .at 0⟩, true) := by
      simp [specImpl, SIter.first, SIter.ret, SIter.cur, hn, List.getElem?_eq_getElem hn]
    rw [e]
    simpa using spec_scanLoop_at ks (c.length + 1) 0 hn (by omega)
  · have h0 : ks = [] := by
      cases ks with
      | nil => rfl
      | cons x r => simp at hn
    subst h0
    have e : specImpl.ifirst ⟨[], .unpos⟩ = (⟨[], .after⟩, false) := by
      simp [specImpl, SIter.first, SIter.ret, SIter.cur]
    rw [e]
    simp [scanLoop]

end Juno.C15
