import JunoModel.C15.Proofs
namespace Juno.C15

theorem u8_eq_of_not_lt {a b : UInt8} (h1 : ¬ a < b) (h2 : ¬ b < a) : a = b := by
  apply UInt8.toNat_inj.mp
  rw [UInt8.lt_iff_toNat_lt] at h1 h2
  omega

theorem lexLt_trans : ∀ (a b c : Key), lexLt a b = true → lexLt b c = true → lexLt a c = true
  | [], [], _, h, _ => by simp [lexLt] at h
  | [], _ :: _, [], _, h => by simp [lexLt] at h
  | [], _ :: _, _ :: _, _, _ => by simp [lexLt]
  | _ :: _, [], _, h, _ => by simp [lexLt] at h
  | _ :: _, _ :: _, [], _, h => by simp [lexLt] at h
  | x :: a, y :: b, z :: c, h1, h2 => by
    have ih := lexLt_trans a b c
    simp only [lexLt] at h1 h2 ⊢
    by_cases hxy : x < y
    · by_cases hyz : y < z
      · have : x < z := by rw [UInt8.lt_iff_toNat_lt] at *; omega
        simp [this]
      · by_cases hzy : z < y
        · simp [hyz, hzy] at h2
        · have := u8_eq_of_not_lt hyz hzy; subst this; simp [hxy]
    · by_cases hyx : y < x
      · simp [hxy, hyx] at h1
      · have := u8_eq_of_not_lt hxy hyx; subst this
        simp only [hxy, if_false] at h1
        by_cases hyz : x < z
        · simp [hyz]
        · by_cases hzy : z < x
          · simp [hyz, hzy] at h2
          · simp only [hyz, hzy, if_false] at h2 ⊢
            exact ih h1 h2

theorem lexLt_asymm : ∀ (a b : Key), lexLt a b = true → lexLt b a = false
  | [], [], h => by simp [lexLt] at h
  | [], _ :: _, _ => by simp [lexLt]
  | _ :: _, [], h => by simp [lexLt] at h
  | x :: a, y :: b, h => by
    have ih := lexLt_asymm a b
    simp only [lexLt] at h ⊢
    by_cases hxy : x < y
    · have : ¬ y < x := by rw [UInt8.lt_iff_toNat_lt] at *; omega
      simp [this, hxy]
    · by_cases hyx : y < x
      · simp [hxy, hyx] at h
      · simp only [hxy, hyx, if_false] at h ⊢
        exact ih h

theorem lexLt_total : ∀ (a b : Key), lexLt a b = false → lexLt b a = false → a = b
  | [], [], _, _ => rfl
  | [], _ :: _, h, _ => by simp [lexLt] at h
  | _ :: _, [], _, h => by simp [lexLt] at h
  | x :: a, y :: b, h1, h2 => by
    have ih := lexLt_total a b
    simp only [lexLt] at h1 h2
    by_cases hxy : x < y
    · simp [hxy] at h1
    · by_cases hyx : y < x
      · simp [hyx] at h2
      · have := u8_eq_of_not_lt hxy hyx; subst this
        simp only [hxy, if_false] at h1 h2
        rw [ih h1 h2]

theorem lexLe_refl (a : Key) : lexLe a a = true := by simp [lexLe, lexLt_irrefl]

theorem lexLt_of_le_of_lt {a b c : Key} (h1 : lexLe a b = true) (h2 : lexLt b c = true) : lexLt a c = true := by
  simp only [lexLe, Bool.not_eq_true'] at h1
  cases h : lexLt a b
  · have := lexLt_total a b h h1; subst this; exact h2
  · exact lexLt_trans a b c h h2

theorem lexLt_of_lt_of_le {a b c : Key} (h1 : lexLt a b = true) (h2 : lexLe b c = true) : lexLt a c = true := by
  simp only [lexLe, Bool.not_eq_true'] at h2
  cases h : lexLt b c
  · have := lexLt_total b c h h2; subst this; exact h1
  · exact lexLt_trans a b c h1 h

theorem lexLe_of_lt {a b : Key} (h : lexLt a b = true) : lexLe a b = true := by
  simp [lexLe, lexLt_asymm a b h]

theorem lexLe_trans {a b c : Key} (h1 : lexLe a b = true) (h2 : lexLe b c = true) : lexLe a c = true := by
  cases h : lexLt c a
  · simp [lexLe, h]
  · have := lexLt_of_lt_of_le h h1
    simp [lexLe, this] at h2

theorem lexLt_ne {a b : Key} (h : lexLt a b = true) : a ≠ b := by
  intro e; subst e; simp [lexLt_irrefl] at h

theorem lexLe_nil (k : Key) : lexLe [] k = true := by cases k <;> simp [lexLe, lexLt]
theorem hasPrefix_nil (k : Key) : hasPrefix k [] = true := by cases k <;> simp [hasPrefix]

end Juno.C15
