import JunoModel.C15.ProofsInst
/-! Lemmas behind the property theorems of `Props.lean`. -/
namespace Juno.C15

/-! ### refinement over whole sequences -/

/-- the boundary for an implementation with `S : Sim M` -/
def inBoundary {B I : Type} {M : Impl B I} (S : Sim M) : World SBatch SIter → List Op → Bool
  | _, [] => true
  | w, op :: rest =>
    documented w op && S.okOp op && (!S.needF5 || f5Free (step specImpl w op).1) &&
      inBoundary S (step specImpl w op).1 rest

theorem run_sim {B I : Type} {M : Impl B I} (S : Sim M) :
    ∀ (ops : List Op) (wm : World B I) (ws : World SBatch SIter),
    R S wm ws → inBoundary S ws ops = true →
    run M wm ops = run specImpl ws ops ∧ R S (exec M wm ops) (exec specImpl ws ops) := by
  intro ops
  induction ops with
  | nil => intro wm ws h _; exact ⟨rfl, h⟩
  | cons op rest ih =>
    intro wm ws h hc
    simp only [inBoundary, Bool.and_eq_true, Bool.or_eq_true, Bool.not_eq_true'] at hc
    have hs := step_sim S h op hc.1.1.1 hc.1.1.2 (by
      intro hn
      rcases hc.1.2 with h' | h'
      · rw [hn] at h'; cases h'
      · exact h')
    have := ih _ _ hs.2 hc.2
    simp only [run, exec]
    exact ⟨by rw [hs.1, this.1], this.2⟩

theorem inBoundary_mem (c : MemCfg) : ∀ (ops : List Op) (w : World SBatch SIter),
    inBoundary (memSim c) w ops = inContract c w ops := by
  intro ops
  induction ops with
  | nil => intro w; rfl
  | cons op rest ih =>
    intro w
    simp only [inBoundary, inContract, ih]
    rfl

theorem inBoundary_peb : ∀ (ops : List Op) (w : World SBatch SIter),
    inBoundary pebSim w ops = inDocumented w ops := by
  intro ops
  induction ops with
  | nil => intro w; rfl
  | cons op rest ih =>
    intro w
    simp only [inBoundary, inDocumented, ih]
    simp [pebSim]

/-- inside db/memory's boundary is inside the documented contract -/
theorem inDocumented_of_inContract (c : MemCfg) : ∀ (ops : List Op) (w : World SBatch SIter),
    inContract c w ops = true → inDocumented w ops = true := by
  intro ops
  induction ops with
  | nil => intro w _; rfl
  | cons op rest ih =>
    intro w h
    simp only [inContract, Bool.and_eq_true] at h
    simp only [inDocumented, Bool.and_eq_true]
    exact ⟨h.1.1.1, ih _ h.2⟩

/-! ### the contract's scans -/

theorem spec_scanLoop_at (ks : KV) : ∀ (fuel i : Nat), i < ks.length → ks.length - i ≤ fuel →
    scanLoop specImpl fuel ⟨ks, .at i⟩ true = ks.drop i := by
  intro fuel
  induction fuel with
  | zero => intro i h1 h2; omega
  | succ f ih =>
    intro i h1 h2
    have hcur : specImpl.icur ⟨ks, .at i⟩ = some ks[i] := by
      show (ks[i]? : Option (Key × Val)) = some ks[i]
      exact List.getElem?_eq_getElem h1
    simp only [scanLoop, if_true, hcur]
    rw [List.drop_eq_getElem_cons h1]
    congr 1
    by_cases hn : i + 1 < ks.length
    · have e : specImpl.inext ⟨ks, .at i⟩ = (⟨ks, .at (i + 1)⟩, true) := by
        simp [specImpl, SIter.next, SIter.ret, SIter.cur, hn]
      rw [e]
      exact ih (i + 1) hn (by omega)
    · have e : specImpl.inext ⟨ks, .at i⟩ = (⟨ks, .after⟩, false) := by
        simp [specImpl, SIter.next, SIter.ret, SIter.cur, hn]
      rw [e]
      have : ks.drop (i + 1) = [] := List.drop_eq_nil_of_le (by omega)
      rw [this]
      cases f <;> simp [scanLoop]

/-- the contract scan lists exactly the entries whose key lies within the bounds, in store order -/
theorem spec_scan (c : KV) (p : Key) (u : Bool) :
    scan specImpl c p u = c.filter (fun x => specBound p u x.1) := by
  unfold scan
  have hlen : (c.filter (fun x => specBound p u x.1)).length ≤ c.length := List.length_filter_le _ _
  generalize hks : c.filter (fun x => specBound p u x.1) = ks at hlen
  have e0 : specImpl.imk c p u = ⟨ks, .unpos⟩ := by simp [specImpl, hks]
  rw [e0]
  by_cases hn : 0 < ks.length
  · have e : specImpl.ifirst ⟨ks, .unpos⟩ = (⟨ks, .at 0⟩, true) := by
      simp [specImpl, SIter.first, SIter.ret, SIter.cur, hn]
    rw [e]
    simpa using spec_scanLoop_at ks (c.length + 1) 0 hn (by omega)
  · have h0 : ks = [] := by
      cases ks with
      | nil => rfl
      | cons x r => simp at hn
    subst h0
    have e : specImpl.ifirst ⟨[], .unpos⟩ = (⟨[], .after⟩, false) := by
      simp [specImpl, SIter.first, SIter.ret, SIter.cur]
    rw [e]
    simp [scanLoop]

theorem spec_rscanLoop_at (ks : KV) : ∀ (fuel i : Nat), i < ks.length → i + 1 ≤ fuel →
    rscanLoop specImpl fuel ⟨ks, .at i⟩ true = (ks.take (i + 1)).reverse := by
  intro fuel
  induction fuel with
  | zero => intro i h1 h2; omega
  | succ f ih =>
    intro i h1 h2
    have hcur : specImpl.icur ⟨ks, .at i⟩ = some ks[i] := by
      show (ks[i]? : Option (Key × Val)) = some ks[i]
      exact List.getElem?_eq_getElem h1
    simp only [rscanLoop, if_true, hcur]
    rw [List.take_succ, List.getElem?_eq_getElem h1]
    simp only [Option.toList_some, List.reverse_append, List.reverse_cons, List.reverse_nil, List.nil_append,
      List.singleton_append]
    congr 1
    cases i with
    | zero =>
      have e : specImpl.iprev ⟨ks, .at 0⟩ = (⟨ks, .before⟩, false) := by
        simp [specImpl, SIter.prev, SIter.ret, SIter.cur]
      rw [e]
      cases f <;> simp [rscanLoop]
    | succ j =>
      have hj : j < ks.length := by omega
      have e : specImpl.iprev ⟨ks, .at (j + 1)⟩ = (⟨ks, .at j⟩, true) := by
        simp [specImpl, SIter.prev, SIter.ret, SIter.cur, hj]
      rw [e]
      exact ih j hj (by omega)

/-- the contract's reverse iteration from `t` lists, last to first, the entries in range that come
before the seek position -/
theorem spec_rscan (c : KV) (p : Key) (u : Bool) (t : Key) :
    rscan specImpl c p u t =
      ((c.filter (fun x => specBound p u x.1)).take (seekIdx t (c.filter (fun x => specBound p u x.1)))).reverse := by
  unfold rscan
  have hlen : (c.filter (fun x => specBound p u x.1)).length ≤ c.length := List.length_filter_le _ _
  generalize hks : c.filter (fun x => specBound p u x.1) = ks at hlen
  have e0 : specImpl.imk c p u = ⟨ks, .unpos⟩ := by simp [specImpl, hks]
  rw [e0]
  have hle := seekIdx_le t ks
  generalize hj : seekIdx t ks = j at hle
  have es : (specImpl.iseek ⟨ks, .unpos⟩ t).1 = ⟨ks, if j < ks.length then .at j else .after⟩ := by
    simp [specImpl, SIter.seek, SIter.ret, hj]
  show rscanLoop specImpl (c.length + 1) (specImpl.iprev (specImpl.iseek ⟨ks, .unpos⟩ t).1).1
      (specImpl.iprev (specImpl.iseek ⟨ks, .unpos⟩ t).1).2 = _
  rw [es]
  cases j with
  | zero =>
    by_cases hn : 0 < ks.length
    · have e : specImpl.iprev ⟨ks, if 0 < ks.length then .at 0 else .after⟩ = (⟨ks, .before⟩, false) := by
        simp [specImpl, SIter.prev, SIter.ret, SIter.cur, hn]
      rw [e]; simp [rscanLoop]
    · have h0 : ks = [] := by
        cases ks with
        | nil => rfl
        | cons x r => simp at hn
      subst h0
      simp [specImpl, SIter.prev, SIter.last, SIter.ret, SIter.cur, rscanLoop]
  | succ i =>
    have hi : i < ks.length := by omega
    by_cases hn : i + 1 < ks.length
    · have e : specImpl.iprev ⟨ks, if i + 1 < ks.length then .at (i + 1) else .after⟩ = (⟨ks, .at i⟩, true) := by
        simp [specImpl, SIter.prev, SIter.ret, SIter.cur, hn, hi]
      rw [e]
      exact spec_rscanLoop_at ks (c.length + 1) i hi (by omega)
    · have hlast : ks.length - 1 = i := by omega
      have hpos : 0 < ks.length := by omega
      have e : specImpl.iprev ⟨ks, if i + 1 < ks.length then .at (i + 1) else .after⟩ = (⟨ks, .at i⟩, true) := by
        simp [specImpl, SIter.prev, SIter.last, SIter.ret, SIter.cur, hn, hi, hpos, hlast]
      rw [e]
      exact spec_rscanLoop_at ks (c.length + 1) i hi (by omega)

/-! ### seek -/

theorem seekIdx_before (t : Key) (ks : KV) : ∀ (i : Nat) (_ : i < seekIdx t ks) (hi : i < ks.length),
    lexLt ks[i].1 t = true := by
  induction ks with
  | nil => intro i h; simp [seekIdx] at h
  | cons x r ih =>
    obtain ⟨k, v⟩ := x
    intro i h hi
    simp only [seekIdx] at h
    cases hle : lexLe t k
    · simp only [hle, Bool.false_eq_true, if_false] at h
      cases i with
      | zero =>
        simp only [List.getElem_cons_zero]
        simpa [lexLe] using hle
      | succ j =>
        simp only [List.getElem_cons_succ]
        exact ih j (by omega) (by simpa using hi)
    · simp [hle] at h

theorem seekIdx_at (t : Key) (ks : KV) (h : seekIdx t ks < ks.length) :
    lexLe t (ks[seekIdx t ks]).1 = true := by
  induction ks with
  | nil => simp at h
  | cons x r ih =>
    obtain ⟨k, v⟩ := x
    cases hle : lexLe t k
    · have e : seekIdx t ((k, v) :: r) = seekIdx t r + 1 := by simp [seekIdx, hle]
      have h' : seekIdx t r < r.length := by rw [e] at h; simpa using h
      simp only [e, List.getElem_cons_succ]
      exact ih h'
    · have e : seekIdx t ((k, v) :: r) = 0 := by simp [seekIdx, hle]
      simp only [e, List.getElem_cons_zero]
      exact hle

theorem sorted_getElem_le {ks : KV} (hs : Sorted ks) {i j : Nat} (hij : i ≤ j) (hj : j < ks.length) :
    lexLe (ks[i]'(by omega)).1 ks[j].1 = true := by
  by_cases e : i = j
  · subst e; exact lexLe_refl _
  · have hlt : i < j := by omega
    exact lexLe_of_lt (List.pairwise_iff_getElem.mp hs i j (by omega) hj hlt)

theorem seek_least_aux (ks : KV) (hs : Sorted ks) (t : Key) :
    (∀ h : seekIdx t ks < ks.length,
      lexLe t (ks[seekIdx t ks]).1 = true ∧ ∀ x ∈ ks, lexLe t x.1 = true → lexLe (ks[seekIdx t ks]).1 x.1 = true) ∧
    (¬ seekIdx t ks < ks.length → ∀ x ∈ ks, lexLt x.1 t = true) := by
  constructor
  · intro h
    refine ⟨seekIdx_at t ks h, ?_⟩
    intro x hx hle
    obtain ⟨i, hi, rfl⟩ := List.getElem_of_mem hx
    by_cases hlt : i < seekIdx t ks
    · have := seekIdx_before t ks i hlt hi
      simp [lexLe, this] at hle
    · exact sorted_getElem_le hs (by omega) hi
  · intro h x hx
    obtain ⟨i, hi, rfl⟩ := List.getElem_of_mem hx
    exact seekIdx_before t ks i (by omega) hi

/-- on a sorted list the entries before the seek position are exactly those with key `< t` -/
theorem take_seekIdx_eq_filter (t : Key) (ks : KV) (hs : Sorted ks) :
    ks.take (seekIdx t ks) = ks.filter (fun x => lexLt x.1 t) := by
  induction ks with
  | nil => rfl
  | cons x r ih =>
    obtain ⟨k, v⟩ := x
    have hr : Sorted r := (List.pairwise_cons.mp hs).2
    have hx : ∀ y ∈ r, lexLt k y.1 = true := (List.pairwise_cons.mp hs).1
    cases hle : lexLe t k
    · have hlt : lexLt k t = true := by simpa [lexLe] using hle
      simp only [seekIdx, hle, Bool.false_eq_true, if_false, List.take_succ_cons, List.filter_cons, hlt, if_true, ih hr]
    · have hnlt : lexLt k t = false := by simpa [lexLe] using hle
      have : r.filter (fun y => lexLt y.1 t) = [] := by
        apply List.filter_eq_nil_iff.mpr
        intro y hy
        have h2 : lexLt t y.1 = true := lexLt_of_le_of_lt hle (hx y hy)
        simp [lexLt_asymm _ _ h2]
      simp only [seekIdx, hle, if_true, List.take_zero, List.filter_cons, hnlt, Bool.false_eq_true, if_false, this]

/-! ### positions of the contract iterator -/

theorem snext_after_stays (si : SIter) (h : si.next.cur = none) : si.next.next.cur = none := by
  have hpos : si.next.pos = .after ∨ ∃ i, si.next.pos = .at i ∧ i < si.keys.length := by
    cases hp : si.pos with
    | unpos => by_cases hn : 0 < si.keys.length <;> simp [SIter.next, SIter.first, hp, hn]
    | before => by_cases hn : 0 < si.keys.length <;> simp [SIter.next, SIter.first, hp, hn]
    | «at» i => by_cases hn : i + 1 < si.keys.length <;> simp [SIter.next, hp, hn]
    | after => simp [SIter.next, hp]
  rcases hpos with hp | ⟨i, hp, hi⟩
  · have : si.next.next = si.next := by
      generalize si.next = s' at hp
      simp [SIter.next, hp]
    rw [this]; exact h
  · have hk : si.next.keys = si.keys := snext_keys si
    have : si.next.cur = some (si.keys[i]) := by
      unfold SIter.cur
      rw [hp]
      simp only [hk]
      exact List.getElem?_eq_getElem hi
    rw [this] at h; cases h

/-! ### reachable stores are sorted -/

/-- ops that may change the store content -/
def Op.commits : Op → Bool
  | .put _ _ | .del _ | .delRange _ _ | .bwrite _ | .close | .getw _ _ _ _ => true
  | .update _ fail _ => !fail
  | _ => false

theorem movePos_db {B I : Type} (M : Impl B I) (w : World B I) (i : Nat) (f : I → I × Bool) :
    (movePos M w i f).1.db = w.db := by
  unfold movePos
  cases w.iters i with
  | none => rfl
  | some x => cases x <;> rfl

theorem step_db_of_not_commits {B I : Type} (M : Impl B I) (w : World B I) (op : Op) (h : op.commits = false) :
    (step M w op).1.db = w.db := by
  cases op <;> simp only [Op.commits, Bool.true_eq_false, Bool.not_eq_false'] at h <;> simp only [step]
  all_goals first
    | exact movePos_db M w _ _
    | rfl
    | (subst h; split <;> rfl)
    | (split <;> first | rfl | (split <;> first | rfl | (split <;> rfl)))

theorem spec_step_sorted (w : World SBatch SIter) (op : Op) (h : ∀ d, w.db = some d → Sorted d) :
    ∀ d, (step specImpl w op).1.db = some d → Sorted d := by
  by_cases hc : op.commits = false
  · rw [step_db_of_not_commits specImpl w op hc]; exact h
  · intro d e
    cases op <;> simp only [Op.commits, Bool.not_eq_false'] at hc <;> simp only [step] at e
    case put k v =>
      cases hd : w.db with
      | none => simp only [hd] at e; cases e
      | some d0 => simp only [hd, Option.some.injEq] at e; subst e; exact (h d0 hd).put k v
    case del k =>
      cases hd : w.db with
      | none => simp only [hd] at e; cases e
      | some d0 => simp only [hd, Option.some.injEq] at e; subst e; exact (h d0 hd).del k
    case delRange a b =>
      cases hd : w.db with
      | none => simp only [hd] at e; cases e
      | some d0 => simp only [hd, Option.some.injEq] at e; subst e; exact (h d0 hd).delRange a b
    case getw src k k2 v2 =>
      cases hr : w.read specImpl src with
      | inl e' => simp only [hr] at e; exact h d e
      | inr x =>
        obtain ⟨g, hh, v⟩ := x
        simp only [hr] at e
        cases hg : g k with
        | notfound => simp only [hg] at e; exact h d e
        | err e' => simp only [hg] at e; exact h d e
        | val vv =>
          have hsre : specImpl.reentrant = true := rfl
          simp only [hg, hsre, if_true] at e
          cases hd : w.db with
          | none => simp only [hd] at e; cases e
          | some d0 => simp only [hd, Option.some.injEq] at e; subst e; exact (h d0 hd).put k2 v2
    case bwrite b =>
      cases hb : w.batches b with
      | none => simp only [hb] at e; exact h d e
      | some x =>
        cases hd : w.db with
        | none => simp only [hb, hd] at e; cases e
        | some d0 => simp only [hb, hd, Option.some.injEq] at e; subst e; exact sorted_applyLog (h d0 hd) _
    case update idx fail ops =>
      cases hd : w.db with
      | none => simp only [hd] at e; cases e
      | some d0 =>
        cases fail with
        | true => simp at hc
        | false =>
          simp only [hd, Bool.false_eq_true, if_false, Option.some.injEq] at e
          subst e; exact sorted_applyLog (h d0 hd) _
    case close => cases e
    all_goals simp at hc

theorem spec_exec_sorted : ∀ (ops : List Op) (w : World SBatch SIter), (∀ d, w.db = some d → Sorted d) →
    ∀ d, (exec specImpl w ops).db = some d → Sorted d := by
  intro ops
  induction ops with
  | nil => intro w h; exact h
  | cons op rest ih => intro w h; exact ih _ (spec_step_sorted w op h)

/-! ### batches built from an op list over a fixed store -/

/-- the db/memory batch obtained by issuing the calls of `log` over a store content `d` -/
def memBuild (d : KV) : List LogOp → MBatch → MBatch
  | [], b => b
  | .put k v :: rest, b => memBuild d rest (b.put k v)
  | .del k :: rest, b => memBuild d rest (b.del k)
  | .delRange s e :: rest, b => memBuild d rest (b.delRange d s e)

theorem memBuild_rb (d : KV) (hd : Sorted d) : ∀ (log : List LogOp) (mb : MBatch) (sb : SBatch),
    rbM true (some d) mb sb → ∃ sb', sb'.log = sb.log ++ log ∧ rbM true (some d) (memBuild d log mb) sb' := by
  intro log
  induction log with
  | nil => intro mb sb h; exact ⟨sb, by simp, h⟩
  | cons o rest ih =>
    intro mb sb h
    cases o with
    | put k v =>
      obtain ⟨sb', h1, h2⟩ := ih _ _ (rbM_put k v h)
      exact ⟨sb', by rw [h1]; simp [specImpl], h2⟩
    | del k =>
      obtain ⟨sb', h1, h2⟩ := ih _ _ (rbM_del k h)
      exact ⟨sb', by rw [h1]; simp [specImpl], h2⟩
    | delRange s e =>
      obtain ⟨sb', h1, h2⟩ := ih _ _ (rbM_delRange s e hd h)
      exact ⟨sb', by rw [h1]; simp [specImpl], h2⟩

end Juno.C15
