import JunoModel.C15.ProofsRefine
/-! Lemmas behind the property theorems of `Props.lean`. -/
namespace Juno.C15

/-! ### refinement over whole sequences -/

theorem run_sim (cfg : Cfg) : ∀ (ops : List Op) (wm : World MBatch MIter) (ws : World SBatch SIter),
    R wm ws → inContract cfg ws ops = true →
    run (memImpl cfg) wm ops = run specImpl ws ops ∧ R (exec (memImpl cfg) wm ops) (exec specImpl ws ops) := by
  intro ops
  induction ops with
  | nil => intro wm ws h _; exact ⟨rfl, h⟩
  | cons op rest ih =>
    intro wm ws h hc
    simp only [inContract, Bool.and_eq_true] at hc
    have hs := step_sim cfg h op hc.1
    have := ih _ _ hs.2 hc.2
    simp only [run, exec]
    exact ⟨by rw [hs.1, this.1], this.2⟩

/-! ### the store only changes at commit points -/

/-- ops that may change the store content -/
def Op.commits : Op → Bool
  | .put _ _ | .del _ | .delRange _ _ | .bwrite _ | .close => true
  | .update _ fail _ => !fail
  | _ => false

section
variable {B I : Type} (M : Impl B I)

theorem movePos_db (w : World B I) (i : Nat) (f : I → I × Bool) : (movePos M w i f).1.db = w.db := by
  unfold movePos
  cases w.iters i with
  | none => rfl
  | some x => cases x <;> rfl

theorem movePos_snaps (w : World B I) (i : Nat) (f : I → I × Bool) :
    (movePos M w i f).1.snaps = w.snaps ∧ (movePos M w i f).1.ns = w.ns := by
  unfold movePos
  cases w.iters i with
  | none => exact ⟨rfl, rfl⟩
  | some x => cases x <;> exact ⟨rfl, rfl⟩

theorem step_db_of_not_commits (w : World B I) (op : Op) (h : op.commits = false) :
    (step M w op).1.db = w.db := by
  cases op <;> simp only [Op.commits, Bool.true_eq_false, Bool.not_eq_false'] at h <;> simp only [step]
  all_goals first
    | exact movePos_db M w _ _
    | rfl
    | (subst h; split <;> rfl)
    | (split <;> first | rfl | (split <;> first | rfl | (split <;> rfl)))

theorem exec_db_of_no_commit : ∀ (ops : List Op) (w : World B I), (ops.all (fun o => !o.commits)) = true →
    (exec M w ops).db = w.db := by
  intro ops
  induction ops with
  | nil => intro w _; rfl
  | cons op rest ih =>
    intro w h
    simp only [List.all_cons, Bool.and_eq_true, Bool.not_eq_true'] at h
    simp only [exec]
    rw [ih _ h.2, step_db_of_not_commits M w op h.1]

/-! ### snapshots -/

theorem step_snap_stable (w : World B I) (op : Op) (s : Nat) (hs : s < w.ns) (hne : op ≠ .sclose s) :
    (step M w op).1.snaps s = w.snaps s ∧ s < (step M w op).1.ns := by
  cases op <;> simp only [step]
  case snap =>
    split
    · exact ⟨rfl, hs⟩
    · refine ⟨?_, Nat.lt_succ_of_lt hs⟩
      exact upd_other _ _ _ (Nat.ne_of_lt hs)
  case sclose s' =>
    have : s ≠ s' := by intro e; subst e; exact hne rfl
    split
    · exact ⟨rfl, hs⟩
    · exact ⟨upd_other _ _ _ this, hs⟩
  case first i => have := movePos_snaps M w i M.ifirst; exact ⟨by rw [this.1], by rw [this.2]; exact hs⟩
  case next i => have := movePos_snaps M w i M.inext; exact ⟨by rw [this.1], by rw [this.2]; exact hs⟩
  case prev i => have := movePos_snaps M w i M.iprev; exact ⟨by rw [this.1], by rw [this.2]; exact hs⟩
  case seek i t =>
    have := movePos_snaps M w i (fun it => M.iseek it t); exact ⟨by rw [this.1], by rw [this.2]; exact hs⟩
  all_goals first
    | exact ⟨rfl, hs⟩
    | exact ⟨trivial, hs⟩
    | (split <;> first | exact ⟨rfl, hs⟩ | (split <;> first | exact ⟨rfl, hs⟩ | (split <;> exact ⟨rfl, hs⟩)))

theorem exec_snap_stable : ∀ (ops : List Op) (w : World B I) (s : Nat), s < w.ns →
    (∀ op ∈ ops, op ≠ .sclose s) → (exec M w ops).snaps s = w.snaps s := by
  intro ops
  induction ops with
  | nil => intro w s _ _; rfl
  | cons op rest ih =>
    intro w s hs hne
    have h1 := step_snap_stable M w op s hs (hne op List.mem_cons_self)
    simp only [exec]
    rw [ih _ s h1.2 (fun o ho => hne o (List.mem_cons_of_mem _ ho)), h1.1]

end

/-! ### iterators are copies -/

/-- ops that address iterator `i` -/
def Op.onIter (i : Nat) : Op → Bool
  | .first j | .next j | .prev j | .seek j _ | .iclose j => j == i
  | _ => false

section
variable {B I : Type} (M : Impl B I)

theorem movePos_iters_other (w : World B I) (j i : Nat) (f : I → I × Bool) (h : i ≠ j) :
    (movePos M w j f).1.iters i = w.iters i ∧ (movePos M w j f).1.ni = w.ni := by
  unfold movePos
  split
  · exact ⟨rfl, rfl⟩
  · exact ⟨rfl, rfl⟩
  · exact ⟨upd_other _ _ _ h, rfl⟩

theorem step_iter_stable (w : World B I) (op : Op) (i : Nat) (hi : i < w.ni) (hne : op.onIter i = false) :
    (step M w op).1.iters i = w.iters i ∧ i < (step M w op).1.ni := by
  cases op <;> simp only [Op.onIter, beq_eq_false_iff_ne, ne_eq] at hne <;> simp only [step]
  case iter src p u =>
    split
    · exact ⟨rfl, Nat.lt_succ_of_lt hi⟩
    · exact ⟨upd_other _ _ _ (Nat.ne_of_lt hi), Nat.lt_succ_of_lt hi⟩
  case first j =>
    have := movePos_iters_other M w j i M.ifirst (fun e => hne e.symm); exact ⟨this.1, by rw [this.2]; exact hi⟩
  case next j =>
    have := movePos_iters_other M w j i M.inext (fun e => hne e.symm); exact ⟨this.1, by rw [this.2]; exact hi⟩
  case prev j =>
    have := movePos_iters_other M w j i M.iprev (fun e => hne e.symm); exact ⟨this.1, by rw [this.2]; exact hi⟩
  case seek j t =>
    have := movePos_iters_other M w j i (fun it => M.iseek it t) (fun e => hne e.symm)
    exact ⟨this.1, by rw [this.2]; exact hi⟩
  case iclose j =>
    have hji : i ≠ j := fun e => hne e.symm
    split
    · exact ⟨rfl, hi⟩
    · exact ⟨rfl, hi⟩
    · exact ⟨upd_other _ _ _ hji, hi⟩
  all_goals first
    | exact ⟨rfl, hi⟩
    | exact ⟨trivial, hi⟩
    | (split <;> first | exact ⟨rfl, hi⟩ | (split <;> first | exact ⟨rfl, hi⟩ | (split <;> exact ⟨rfl, hi⟩)))

theorem exec_iter_stable : ∀ (ops : List Op) (w : World B I) (i : Nat), i < w.ni →
    (ops.all (fun o => !o.onIter i)) = true → (exec M w ops).iters i = w.iters i := by
  intro ops
  induction ops with
  | nil => intro w i _ _; rfl
  | cons op rest ih =>
    intro w i hi h
    simp only [List.all_cons, Bool.and_eq_true, Bool.not_eq_true'] at h
    have h1 := step_iter_stable M w op i hi h.1
    simp only [exec]
    rw [ih _ i h1.2 h.2, h1.1]

end

/-! ### batches built from an op list -/

/-- the db/memory batch obtained by issuing the calls of `log` over a store content `d` -/
def memBuild (cfg : Cfg) (d : KV) : List LogOp → MBatch → MBatch
  | [], b => b
  | .put k v :: rest, b => memBuild cfg d rest (b.put k v)
  | .del k :: rest, b => memBuild cfg d rest (b.del k)
  | .delRange s e :: rest, b => memBuild cfg d rest (b.delRange cfg d s e)

theorem memBuild_RB (cfg : Cfg) (d : KV) (hd : Sorted d) : ∀ (log : List LogOp) (mb : MBatch) (sb : SBatch),
    RB d mb sb → ∃ sz, RB d (memBuild cfg d log mb) ⟨sb.log ++ log, sz⟩ := by
  intro log
  induction log with
  | nil => intro mb sb h; exact ⟨sb.size, by simpa [memBuild] using h⟩
  | cons o rest ih =>
    intro mb sb h
    cases o with
    | put k v =>
      obtain ⟨sz, hsz⟩ := ih _ _ (RB_put h k v)
      exact ⟨sz, by simpa [memBuild, specImpl] using hsz⟩
    | del k =>
      obtain ⟨sz, hsz⟩ := ih _ _ (RB_del h k)
      exact ⟨sz, by simpa [memBuild, specImpl] using hsz⟩
    | delRange s e =>
      obtain ⟨sz, hsz⟩ := ih _ _ (RB_delRange cfg hd h s e)
      exact ⟨sz, by simpa [memBuild, specImpl] using hsz⟩

/-! ### seek -/

theorem seekIdx_before (t : Key) (ks : KV) : ∀ (i : Nat) (h : i < seekIdx t ks) (hi : i < ks.length),
    lexLt ks[i].1 t = true := by
  induction ks with
  | nil => intro i h; simp [seekIdx] at h
  | cons x r ih =>
    obtain ⟨k, v⟩ := x
    intro i h hi
    simp only [seekIdx] at h
    cases hle : lexLe t k
    · simp only [hle, Bool.false_eq_true, if_false] at h
      cases i with
      | zero =>
        simp only [List.getElem_cons_zero]
        simpa [lexLe] using hle
      | succ j =>
        simp only [List.getElem_cons_succ]
        exact ih j (by omega) (by simpa using hi)
    · simp [hle] at h

theorem seekIdx_at (t : Key) (ks : KV) (h : seekIdx t ks < ks.length) :
    lexLe t (ks[seekIdx t ks]).1 = true := by
  induction ks with
  | nil => simp at h
  | cons x r ih =>
    obtain ⟨k, v⟩ := x
    cases hle : lexLe t k
    · have e : seekIdx t ((k, v) :: r) = seekIdx t r + 1 := by simp [seekIdx, hle]
      have h' : seekIdx t r < r.length := by rw [e] at h; simpa using h
      simp only [e, List.getElem_cons_succ]
      exact ih h'
    · have e : seekIdx t ((k, v) :: r) = 0 := by simp [seekIdx, hle]
      simp only [e, List.getElem_cons_zero]
      exact hle

theorem sorted_getElem_le {ks : KV} (hs : Sorted ks) {i j : Nat} (hij : i ≤ j) (hj : j < ks.length) :
    lexLe (ks[i]'(by omega)).1 ks[j].1 = true := by
  by_cases e : i = j
  · subst e; exact lexLe_refl _
  · have hlt : i < j := by omega
    exact lexLe_of_lt (List.pairwise_iff_getElem.mp hs i j (by omega) hj hlt)

theorem seek_least_aux (ks : KV) (hs : Sorted ks) (t : Key) :
    (∀ h : seekIdx t ks < ks.length,
      lexLe t (ks[seekIdx t ks]).1 = true ∧ ∀ x ∈ ks, lexLe t x.1 = true → lexLe (ks[seekIdx t ks]).1 x.1 = true) ∧
    (¬ seekIdx t ks < ks.length → ∀ x ∈ ks, lexLt x.1 t = true) := by
  constructor
  · intro h
    refine ⟨seekIdx_at t ks h, ?_⟩
    intro x hx hle
    obtain ⟨i, hi, rfl⟩ := List.getElem_of_mem hx
    by_cases hlt : i < seekIdx t ks
    · have := seekIdx_before t ks i hlt hi
      simp [lexLe, this] at hle
    · exact sorted_getElem_le hs (by omega) hi
  · intro h x hx
    obtain ⟨i, hi, rfl⟩ := List.getElem_of_mem hx
    exact seekIdx_before t ks i (by omega) hi

/-! ### reachable stores are sorted -/

theorem spec_step_sorted (w : World SBatch SIter) (op : Op) (h : ∀ d, w.db = some d → Sorted d) :
    ∀ d, (step specImpl w op).1.db = some d → Sorted d := by
  by_cases hc : op.commits = false
  · rw [step_db_of_not_commits specImpl w op hc]; exact h
  · intro d e
    cases op <;> simp only [Op.commits, Bool.not_eq_false'] at hc <;> simp only [step] at e
    case put k v =>
      cases hd : w.db with
      | none => simp only [hd] at e; cases e
      | some d0 => simp only [hd, Option.some.injEq] at e; subst e; exact (h d0 hd).put k v
    case del k =>
      cases hd : w.db with
      | none => simp only [hd] at e; cases e
      | some d0 => simp only [hd, Option.some.injEq] at e; subst e; exact (h d0 hd).del k
    case delRange a b =>
      cases hd : w.db with
      | none => simp only [hd] at e; cases e
      | some d0 => simp only [hd, Option.some.injEq] at e; subst e; exact (h d0 hd).delRange a b
    case bwrite b =>
      cases hb : w.batches b with
      | none => simp only [hb] at e; exact h d e
      | some x =>
        cases hd : w.db with
        | none => simp only [hb, hd] at e; cases e
        | some d0 => simp only [hb, hd, Option.some.injEq] at e; subst e; exact sorted_applyLog (h d0 hd) _
    case update idx fail ops =>
      cases hd : w.db with
      | none => simp only [hd] at e; cases e
      | some d0 =>
        cases fail with
        | true => simp at hc
        | false =>
          simp only [hd, Bool.false_eq_true, if_false, Option.some.injEq] at e
          subst e; exact sorted_applyLog (h d0 hd) _
    case close => cases e
    all_goals simp at hc

theorem spec_exec_sorted : ∀ (ops : List Op) (w : World SBatch SIter), (∀ d, w.db = some d → Sorted d) →
    ∀ d, (exec specImpl w ops).db = some d → Sorted d := by
  intro ops
  induction ops with
  | nil => intro w h; exact h
  | cons op rest ih => intro w h; exact ih _ (spec_step_sorted w op h)

end Juno.C15
