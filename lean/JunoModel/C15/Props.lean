import JunoModel.C15.ProofsBuf
import JunoModel.C15.ProofsBound
import JunoModel.C15.ProofsStackSim
import JunoModel.C15.ProofsStackLift
/-!
C15 — property theorems (statements only; helper lemmas are in `Proofs*.lean`).
Every theorem in this module is an obligation listed in evidence/C15.json with its axioms.

Vocabulary (all defined in `Model.lean`):
* `mem2Impl c` — transcription of db/memory as it is in /repo (batch.DeleteRange recorded as a range;
  `c.cbUnlocked` = whether `Get` runs its callback outside the store lock — both probed on the real code;
  `memImpl`, the variant with ranges materialised at call time, is old code: RegressF5.lean);
* `pebImpl` — transcription of the Pebble wrappers db/pebblev2 = db/pebble over an abstract engine;
* `specImpl` — the contract (ordered map; batch = op log applied at `Write`; iterator over
  `[prefix, UpperBound(prefix))` with positions unpositioned / before / at i / after);
* `run M w ops` — the outputs of an op sequence, `exec M w ops` — the final state;
* `inDocumented w ops` — every step is inside the documented contract (`documented`, no reference to
  any implementation); `inDocumentedRE c w ops` — additionally no re-entrant `Get` callback unless
  `c.cbUnlocked` (= `inDocumented` for the probed `⟨true⟩`).

Frame facts that hold for every `Impl` by construction of `step` (an unwritten batch does not touch
the store, a snapshot / iterator table entry is not touched by other ops, a failing helper callback
returns the state unchanged) are NOT listed as obligations: they say nothing about the Go code. Those
clauses of the property are carried by the refinement theorems below (sequences with batches,
snapshots, iterators, helpers) and by the harness.
-/
namespace Juno.C15.Props
open Juno.C15

/-! ## dbutils.UpperBound -/

/-- `dbutils.UpperBound` is exact: a key has prefix `p` iff it lies in `[p, upperBound p)`,
where a missing bound (`nil`: empty or all-`0xff` prefix) means "unbounded above". -/
theorem upperBound_spec (p k : Key) :
    hasPrefix k p = true ↔
      (lexLe p k = true ∧ (match upperBound p with | none => True | some u => lexLt k u = true)) :=
  hasPrefix_iff_range p k

/-- Go returns `nil` exactly for prefixes made of `0xff` bytes only (including the empty one). -/
theorem upperBound_nil_iff (p : Key) : upperBound p = none ↔ ∀ b ∈ p, b = 255 :=
  upperBound_none_iff p

/-- The loop of `dbutils.UpperBound` as written in db/dbutils/bound.go (`upperBoundGo`: skip the trailing
`0xff` bytes, CUT the prefix after the first other byte and increment it — what the driver answers with
and the harness compares, exhaustively on all prefixes of length <= 3 over {00,01,fe,ff}, with the real
function) computes the recursive `upperBound` the theorems are stated for. -/
theorem upperBound_go_transcription (p : Key) : upperBoundGo p = upperBound p := upperBoundGo_eq p

/-- For a prefix that is not all `0xff`: `UpperBound p` is above every key with the prefix AND it is the
LEAST such byte string — any `u'` above every key with the prefix is `>=` it. (A bound that is merely large
enough, e.g. one that keeps the trailing `0xff` bytes, lets keys of the next prefixes into a bounded
iterator or a prefix range delete.) -/
theorem upperBound_least (p u : Key) (hu : upperBound p = some u) :
    (∀ k, hasPrefix k p = true → lexLt k u = true) ∧
    (∀ u', (∀ k, hasPrefix k p = true → lexLt k u' = true) → lexLe u u' = true) :=
  upperBound_least_aux p u hu

/-- … and for an empty or all-`0xff` prefix (`nil`) there is no bound at all: whatever `u'` one takes, some
key with the prefix is `>= u'`. -/
theorem upperBound_unbounded (p : Key) (hu : upperBound p = none) (u' : Key) :
    ∃ k, hasPrefix k p = true ∧ lexLe u' k = true :=
  upperBound_unbounded_aux p hu u'

/-! ## The backends give identical results -/

/-- The Pebble wrappers (positioned flag, bound construction, `ErrNotFound` translation, size
counter, indexed flag) implement the contract on EVERY op sequence inside the documented contract —
full strength, no defect exclusion. (The engine underneath is an assumption, compared by the
harness.) -/
theorem pebble_wrapper_refines_contract (ops : List Op) (h : inDocumented World.init ops = true) :
    run pebImpl World.init ops = run specImpl World.init ops :=
  (run_sim pebSim ops _ _ (R_init pebSim) (by rw [inBoundary_peb]; exact h)).1

/-! ## db/memory (`mem2Impl`, ModelRange.lean: the code in /repo since 36de10a — `batch.DeleteRange` records
the range itself — and 94ab97c — `Get` calls back outside the store lock, `c.cbUnlocked`)

The harness probes both variants on the real code; the transcriptions of the OLD code (`memImpl`: ranges
materialised at call time, finding F5) and what was provable about it (`*_partial`, the exact F5 boundary)
are in RegressF5.lean. -/

/-- db/memory refines the contract on EVERY op sequence inside the documented contract (plus, only for the
variant whose `Get` calls back under the store lock, no re-entrant callback). -/
theorem memory_refines_contract (c : MemCfg) (ops : List Op)
    (h : inDocumentedRE c World.init ops = true) :
    run (mem2Impl c) World.init ops = run specImpl World.init ops :=
  (run_sim (mem2Sim c) ops _ _ (R_init (mem2Sim c)) (by rw [inBoundary_mem2]; exact h)).1

/-- THE PROPERTY at full strength: db/memory (as it is in /repo: callback outside the lock, range recorded
as a range) answers every op of every sequence inside the documented contract exactly as the Pebble
wrappers do. No defect exclusion. -/
theorem memory_equals_pebble (ops : List Op) (h : inDocumented World.init ops = true) :
    run (mem2Impl ⟨true⟩) World.init ops = run pebImpl World.init ops := by
  rw [memory_refines_contract ⟨true⟩ ops (by rw [inDocumentedRE_unlocked]; exact h),
    pebble_wrapper_refines_contract ops h]

/-- The db/memory batch, reads and `Write`, on EVERY store — also one that changed after the calls were
made: a batch built by any list of `Put`/`Delete`/`DeleteRange` reads as the store with the log applied
(indexed batches read their own writes over the database; later operations win), and `Write` applies the
log in order. -/
theorem batch_equals_log_any_store (c : MemCfg) (log : List LogOp) (d : KV) (k : Key) :
    (mem2Build log ((mem2Impl c).bempty true)).get d k = (applyLog d log).get k ∧
    (mem2Build log ((mem2Impl c).bempty true)).flush d = applyLog d log := by
  obtain ⟨h1, h2⟩ := mem2Build_ok log _ m2OK_empty
  have hw : (mem2Build log ((mem2Impl c).bempty true)).writes = log := by
    rw [show (mem2Impl c).bempty true = (⟨[], [], [], 0⟩ : M2Batch) from rfl, h2]; rfl
  exact ⟨by rw [show (mem2Impl c).bempty true = (⟨[], [], [], 0⟩ : M2Batch) from rfl, h1 d k, h2]; rfl,
    by rw [m2_flush_eq, hw]⟩

/-- the replay of finding F5 (fixed by 36de10a) and the `Size()`-after-`DeleteRange` difference: db/memory
answers as the wrappers do -/
theorem f5_witness_resolved :
    run (mem2Impl ⟨true⟩) World.init
      [.newBatch false, .bdelRange 0 [] [255], .put [1] [9], .bsize 0, .bwrite 0, .scan .db [] false] =
    run pebImpl World.init
      [.newBatch false, .bdelRange 0 [] [255], .put [1] [9], .bsize 0, .bwrite 0, .scan .db [] false] := by decide

/-! ## db.BufferBatch (db/bufferbatch.go) and CalculatePrefixSize (db/pebble*/db.go) -/

/-- `BufferBatch.Get` reads the buffer's own writes over the wrapped indexed batch: after any list
`log` of `Put`/`Delete` calls on the buffer, the lookup (`updates` map first — a nil entry is a deletion —
then the wrapped batch, whose log is `txn`) is the lookup in the store with `txn` and then `log`
applied in order (later calls win). -/
theorem buffer_reads_own_writes (d : KV) (txn log : List LogOp) (hp : pointLog log) (k : Key) :
    bufLookup (bufBuild log) (fun k => (applyLog d txn).get k) k = (applyLog d (txn ++ log)).get k := by
  rw [bufLookup_eq, applyLog_append_list]
  exact bufBuild_rel (applyLog d txn) log [] (applyLog d txn) hp (fun _ => rfl) k

/-- `BufferBatch.Flush` + `Write` = the log: the `Put`/`Delete` calls `Flush` issues on the wrapped
batch (one per entry of `updates`) have, after the wrapped batch's earlier log `txn` and on every store,
exactly the effect of the buffer's own calls applied in order. -/
theorem buffer_flush_equals_log (d : KV) (hd : Sorted d) (txn log : List LogOp) (hp : pointLog log) :
    applyLog d (txn ++ overlayOps (bufBuild log)) = applyLog d (txn ++ log) := by
  rw [applyLog_append_list, applyLog_append_list]
  have hs := sorted_applyLog hd txn
  apply Sorted.ext (sorted_applyLog hs _) (sorted_applyLog hs _)
  intro k
  have hsb : Sorted (bufBuild log) := sorted_bufBuild log [] Sorted.nil
  rw [applyLog_overlayOps (bufBuild log) hsb]
  exact bufBuild_rel (applyLog d txn) log [] (applyLog d txn) hp (fun _ => rfl) k

/-- Go iterates `updates` in an unspecified order; the model's `Flush` takes key order. It does not
matter: issuing the entries of the map in ANY order (any permutation `l` of the map) leaves, on every
store, the same content as the model's order. -/
theorem buffer_flush_order_irrelevant (d : KV) (hd : Sorted d) (u : Updates) (hu : Sorted u)
    (l : List (Key × Option Val)) (hp : l.Perm u) :
    applyLog d (l.map entryOp) = applyLog d (overlayOps u) := by
  have hdu := sorted_distinct hu
  have hdl : distinctKeys l := (hp.pairwise_iff (fun h => fun e => h e.symm)).mpr hdu
  apply Sorted.ext (sorted_applyLog hd _) (sorted_applyLog hd _)
  intro k
  rw [applyLog_entries l hdl, show overlayOps u = u.map entryOp from rfl, applyLog_entries u hdu,
    perm_get_eq hp hdu]

/-- `BufferBatch.Write` as a step of the layered model on the contract: with the wrapped batch live
(log `sb.log`), the store open (`d`) and `updates = u`, it succeeds, leaves the store at
`sb.log ++ overlayOps u` applied to `d`, drops the map (`updates = nil`) and closes the wrapped batch. -/
theorem buffer_write_step (bw : BWorld SBatch SIter) (b : Nat) (u : Updates) (sb : SBatch) (idx : Bool) (d : KV)
    (hu : bw.bufs b = some (some u)) (hb : bw.w.batches b = some (sb, idx)) (hd : bw.w.db = some d) :
    (xstep specImpl bw (.bufWrite b)).2 = .r .ok ∧
    (xstep specImpl bw (.bufWrite b)).1.w.db = some (applyLog d (sb.log ++ overlayOps u)) ∧
    (xstep specImpl bw (.bufWrite b)).1.bufs b = some none ∧
    (xstep specImpl bw (.bufWrite b)).1.w.batches b = none :=
  spec_bufWrite bw b u sb idx d hu hb hd

/-- `CalculatePrefixSize(prefix, withUpperBound)`: the count is the number of entries of the store in
`[prefix, UpperBound(prefix))` and the size the sum of their key and value lengths — on the wrappers'
iterator, on db/memory's and on the contract's. -/
theorem prefix_size_exact (c : MemCfg) (content : KV) (p : Key) (u : Bool) :
    let out := content.filter (fun x => specBound p u x.1)
    prefixSize pebImpl content p u = (out.length, sumSizes out) ∧
    prefixSize (mem2Impl c) content p u = (out.length, sumSizes out) := by
  exact ⟨prefixSize_eq pebSim content p u, prefixSize_eq (mem2Sim c) content p u⟩

/-! ## Stacks of wrappers over the contract (ModelStack.lean)

Any number of `db.BufferBatch` / `db.SyncBatch` values over one indexed batch, over each other or side by
side (core/deprecatedstate: one buffer per contract over ONE shared batch), with the store and the
layers underneath changing between the buffered calls and the flush. -/

/-- "Later operations win" through a STACK: `Get` through buffers (top-down) built by the call lists `Ls`
over a batch with log `txn` over store `d` = lookup in `d` with `txn`, then the lists from the LOWEST
buffer up, applied in order. -/
theorem stack_reads_later_wins (d : KV) (txn : List LogOp) (Ls : List (List LogOp))
    (hp : ∀ L ∈ Ls, pointLog L) (k : Key) :
    stackLookup (fun k => (applyLog d txn).get k) (Ls.map bufBuild) k =
      (applyLog d (txn ++ Ls.reverse.flatten)).get k :=
  stackLookup_eq d txn Ls hp k

/-- Side-by-side buffers over one batch, flushed in ANY order (`Ls` lists them in flush order): what the
flushes issue on the batch (one call per map entry each) has, after the batch's log `txn` — WHATEVER it
holds by then — and on every store, the effect of the buffers' call lists applied in flush order. -/
theorem stack_flush_any_order (d : KV) (hd : Sorted d) (txn : List LogOp) (Ls : List (List LogOp))
    (hp : ∀ L ∈ Ls, pointLog L) :
    applyLog d (txn ++ (Ls.map (fun L => overlayOps (bufBuild L))).flatten) = applyLog d (txn ++ Ls.flatten) :=
  siblings_any_order txn Ls hp d hd

/-- A `Delete` stays a tombstone: after any calls `log` and then `Delete k`, the buffer answers "not found"
for `k` whatever the layer underneath (`inner`) holds — now or later —, and `Flush` after ANY log `txn` of
the wrapped batch (it may have gained `k` after the `Delete`) leaves `k` absent from every store. (The
"cancel a pending put instead of recording the delete" shortcut breaks exactly this.) -/
theorem buffer_tombstone_survives (log : List LogOp) (hp : pointLog log) (k : Key) :
    (∀ inner : Key → Option Val, bufLookup (bufBuild (log ++ [.del k])) inner k = none) ∧
    (∀ (d : KV), Sorted d → ∀ txn : List LogOp,
      (applyLog d (txn ++ overlayOps (bufBuild (log ++ [.del k])))).get k = none) := by
  have hp' : pointLog (log ++ [.del k]) := pointLog_snoc hp rfl
  constructor
  · intro inner
    rw [bufLookup_eq, bufBuild_get]
    have : lastCall k (log ++ [.del k]) = some none := by
      induction log with
      | nil => simp [lastCall]
      | cons o rest ih =>
        have := ih (fun x hx => hp x (List.mem_cons_of_mem _ hx)) (pointLog_snoc (fun x hx => hp x (List.mem_cons_of_mem _ hx)) rfl)
        simp only [List.cons_append, lastCall, this]
    rw [this]; rfl
  · intro d hd txn
    rw [logEquiv.append (logEquiv.rfl' txn) (overlay_logEquiv _ hp') d hd, ← List.append_assoc, applyLog_append]
    simp [LogOp.apply, SMap.get_del]

/-- REFINEMENT — a stack of buffers over a batch over a store behaves like the sequential application of
the operations in flush order. For EVERY op sequence (`inStackContract`: store / batch / snapshot /
iterator ops inside the documented contract, every call on every layer, every `lnew`/`lflush`; not
`Size()`, see `stack_size_differs`): the model of the real wrappers over the contract (`sstep specImpl`:
buffers are `updates` maps with nil tombstones, `Flush` issues one call per map entry in key order —
Go: in map order, `buffer_flush_order_irrelevant`) gives exactly the outputs of the sequential machine
`astep` (a buffer is the LIST of the calls made on it; `Get` = the last call for the key, else the layer
underneath at that moment; `Flush` replays the list in call order on the layer underneath). -/
theorem stack_refines_sequential (ops : List SOp) (h : inStackContract AWorld.init ops = true) :
    srun specImpl SWorld.init ops = arun AWorld.init ops :=
  srun_sim ops _ _ RS_init h

/-- Stacks of wrappers over db/memory answer like the same stacks over the contract: every op sequence of
the stack language inside the documented contract (`inStackDoc`: storage ops as in `documented`, a call on a
layer as the same call on the batch at the bottom of its chain; for db/memory additionally no re-entrant
`Get` callback unless `c.cbUnlocked`). -/
theorem stack_memory_refines_contract (c : MemCfg) (ops : List SOp)
    (h : inStackDoc (mem2Sim c) SWorld.init ops = true) :
    srun (mem2Impl c) SWorld.init ops = srun specImpl SWorld.init ops :=
  srun_lift (mem2Sim c) rfl (fun _ _ _ => rfl) (fun _ _ => rfl) ops _ _ (RX_init _) h

/-- … and so do stacks over the Pebble wrappers. -/
theorem stack_pebble_refines_contract (ops : List SOp) (h : inStackDocumented SWorld.init ops = true) :
    srun pebImpl SWorld.init ops = srun specImpl SWorld.init ops :=
  srun_lift pebSim rfl (fun _ _ _ => rfl) (fun _ _ => rfl) ops _ _ (RX_init _)
    (by rw [inStackDoc_of_okTrue pebSim (fun _ => rfl)]; exact h)

/-- THE PROPERTY for stacks of wrappers: over db/memory (as in /repo) and over the Pebble wrappers, every
store / batch / snapshot / iterator op and every call on every `BufferBatch` / `SyncBatch` of every stack
answers identically, for every op sequence inside the documented contract. -/
theorem stack_memory_equals_pebble (ops : List SOp) (h : inStackDocumented SWorld.init ops = true) :
    srun (mem2Impl ⟨true⟩) SWorld.init ops = srun pebImpl SWorld.init ops := by
  rw [stack_memory_refines_contract ⟨true⟩ ops (by rw [inStackDoc_of_okTrue (mem2Sim ⟨true⟩) memOK_true]; exact h),
    stack_pebble_refines_contract ops h]

/-- why `Size()` is outside `stack_refines_sequential`: the real buffer issues one call per KEY, the
sequential machine one per CALL, so the byte counter of the wrapped batch differs after a flush -/
theorem stack_size_differs :
    srun specImpl SWorld.init [.base (.base (.newBatch true)), .lnew .buf (.batch 0), .lcall 0 (.put [1] [7]),
      .lcall 0 (.put [1] [8]), .lflush 0, .base (.base (.bsize 0))] ≠
    arun AWorld.init [.base (.base (.newBatch true)), .lnew .buf (.batch 0), .lcall 0 (.put [1] [7]),
      .lcall 0 (.put [1] [8]), .lflush 0, .base (.base (.bsize 0))] := by decide

/-! ## Iteration (all three implementations, forward and backward) -/

/-- `First`, then `Next` until invalid, yields exactly the entries of the store whose key lies in
`[p, UpperBound(p))` (no upper bound if not requested or nil), in strictly increasing key order —
on db/memory, on the Pebble wrappers and in the contract, for all arguments. -/
theorem iteration_exact (c : MemCfg) (content : KV) (hc : Sorted content) (p : Key) (u : Bool) :
    let out := content.filter (fun x => specBound p u x.1)
    scan (mem2Impl c) content p u = out ∧ scan pebImpl content p u = out ∧ scan specImpl content p u = out ∧
    out.Pairwise (fun a b => lexLt a.1 b.1 = true) ∧
    (∀ k v, (k, v) ∈ out ↔
      (content.get k = some v ∧ lexLe p k = true ∧
        (u = true → ∀ w, upperBound p = some w → lexLt k w = true))) := by
  refine ⟨by rw [scan_sim (mem2Sim c), spec_scan], by rw [scan_sim pebSim, spec_scan], spec_scan _ _ _,
    hc.filter _, ?_⟩
  intro k v
  rw [List.mem_filter, ← hc.get_eq_some]
  simp only [specBound, engineBound, Bool.and_eq_true]
  cases u
  · simp
  · cases hub : upperBound p <;> simp [hub]

/-- Reverse iteration (`Seek(t)`, then `Prev` until invalid — the shape `valueAt` /
`lastUpdatedBlockNumber` use): yields exactly the entries in range with key `< t`, greatest first —
on all three. With `t` above every key this is the whole range backwards. -/
theorem reverse_iteration_exact (c : MemCfg) (content : KV) (hc : Sorted content) (p : Key) (u : Bool) (t : Key) :
    let out := ((content.filter (fun x => specBound p u x.1)).filter (fun x => lexLt x.1 t)).reverse
    rscan (mem2Impl c) content p u t = out ∧ rscan pebImpl content p u t = out ∧
    rscan specImpl content p u t = out := by
  have hs : rscan specImpl content p u t =
      ((content.filter (fun x => specBound p u x.1)).filter (fun x => lexLt x.1 t)).reverse := by
    rw [spec_rscan, take_seekIdx_eq_filter t _ (hc.filter _)]
  exact ⟨by rw [rscan_sim (mem2Sim c), hs], by rw [rscan_sim pebSim, hs], hs⟩

/-- `Seek(t)` then `Prev` lands on the greatest key `< t` of the range (in particular: seek past the
end, then `Prev`, gives the last key), or is invalid if there is none — db/memory and wrappers. -/
theorem prev_greatest_below (c : MemCfg) (content : KV) (hc : Sorted content) (p : Key) (u : Bool) (t : Key) :
    let below := (content.filter (fun x => specBound p u x.1)).filter (fun x => lexLt x.1 t)
    (mem2Impl c).icur ((mem2Impl c).iprev ((mem2Impl c).iseek ((mem2Impl c).imk content p u) t).1).1 = below.getLast? ∧
    pebImpl.icur (pebImpl.iprev (pebImpl.iseek (pebImpl.imk content p u) t).1).1 = below.getLast? := by
  have key : ∀ {B I : Type} {M : Impl B I} (S : Sim M),
      M.icur (M.iprev (M.iseek (M.imk content p u) t).1).1 =
        ((content.filter (fun x => specBound p u x.1)).filter (fun x => lexLt x.1 t)).getLast? := by
    intro B I M S
    have h1 := S.seek t (S.mkIter content p u)
    have h2 := S.prev h1.1
    rw [S.cur h2.1, ← take_seekIdx_eq_filter t _ (hc.filter _)]
    generalize hks : content.filter (fun x => specBound p u x.1) = ks
    have e0 : specImpl.imk content p u = ⟨ks, .unpos⟩ := by simp [specImpl, hks]
    rw [e0]
    have hle := seekIdx_le t ks
    simp only [SIter.seek]
    generalize seekIdx t ks = j at hle ⊢
    cases j with
    | zero =>
      by_cases hn : 0 < ks.length
      · simp [SIter.seek, SIter.prev, SIter.cur, hn]
      · have h0 : ks = [] := by
          cases ks with
          | nil => rfl
          | cons x r => simp at hn
        subst h0
        simp [SIter.seek, SIter.prev, SIter.last, SIter.cur]
    | succ i =>
      have hi : i < ks.length := by omega
      have hlast : (ks.take (i + 1)).getLast? = ks[i]? := by
        rw [List.getLast?_eq_getElem?]
        simp [List.length_take, Nat.min_eq_left (by omega : i + 1 ≤ ks.length), List.getElem?_take]
      rw [hlast]
      by_cases hn : i + 1 < ks.length
      · simp [SIter.seek, SIter.prev, SIter.cur, hn]
      · have hl : ks.length - 1 = i := by omega
        have hpos : 0 < ks.length := by omega
        simp [SIter.seek, SIter.prev, SIter.last, SIter.cur, hn, hpos, hl]
  exact ⟨key (mem2Sim c), key pebSim⟩

/-- `Next`: once invalid the iterator remains invalid (db/iterator.go) — for every db/memory resp.
wrapper iterator state that represents a contract state (all reachable ones do). -/
theorem next_invalid_stays_invalid (mi : MIter) (pi : PIter) (si si' : SIter) (hm : RI mi si) (hp : RPI pi si') :
    (mi.next.2 = false → mi.next.1.next.2 = false) ∧ (pi.next.2 = false → pi.next.1.next.2 = false) := by
  constructor
  · intro h
    have h1 := next_sim hm
    have h2 := next_sim h1.1
    rw [h2.2]
    rw [h1.2] at h
    have := snext_after_stays si (by simpa using h)
    simp [this]
  · intro h
    have h1 := pnext_sim hp
    have h2 := pnext_sim h1.1
    rw [h2.2]
    rw [h1.2] at h
    have := snext_after_stays si' (by simpa using h)
    simp [this]

/-- … lifted to every reachable state: after ANY op sequence inside the documented contract, every live
iterator of db/memory and of the Pebble wrappers has the property — `Next` returned false once, it
returns false again (and the iterator shows no entry). -/
theorem next_invalid_stays_invalid_reachable (c : MemCfg) (ops : List Op) (i : Nat)
    (h : inDocumentedRE c World.init ops = true) :
    (∀ mi, (exec (mem2Impl c) World.init ops).iters i = some (some mi) →
      mi.next.2 = false → mi.next.1.next.2 = false ∧ mi.next.1.next.1.kv = none) ∧
    (∀ pi, (exec pebImpl World.init ops).iters i = some (some pi) →
      pi.next.2 = false → pi.next.1.next.2 = false ∧ pi.next.1.next.1.iter.kv = none) := by
  have hdoc : inDocumented World.init ops = true := inDocumented_of_inDocumentedRE c ops _ h
  have r2 := (run_sim (mem2Sim c) ops _ _ (R_init (mem2Sim c)) (by rw [inBoundary_mem2]; exact h)).2.iters i
  have r3 := (run_sim pebSim ops _ _ (R_init pebSim) (by rw [inBoundary_peb]; exact hdoc)).2.iters i
  have key : ∀ (mi : MIter) (si : SIter), RI mi si → mi.next.2 = false →
      mi.next.1.next.2 = false ∧ mi.next.1.next.1.kv = none := by
    intro mi si hm hf
    have h1 := next_sim hm
    have h2 := next_sim h1.1
    rw [h1.2] at hf
    have hs := snext_after_stays si (by simpa using hf)
    exact ⟨by rw [h2.2]; simp [hs], by rw [RI_cur h2.1]; exact hs⟩
  refine ⟨?_, ?_⟩
  · intro mi hmi
    rw [hmi] at r2
    cases hs : (exec specImpl World.init ops).iters i with
    | none => rw [hs] at r2; exact r2.elim
    | some y =>
      cases y with
      | none => rw [hs] at r2; exact r2.elim
      | some si => rw [hs] at r2; exact key mi si r2
  · intro pi hpi
    rw [hpi] at r3
    cases hs : (exec specImpl World.init ops).iters i with
    | none => rw [hs] at r3; exact r3.elim
    | some y =>
      cases y with
      | none => rw [hs] at r3; exact r3.elim
      | some si =>
        rw [hs] at r3
        intro hf
        have h1 := pnext_sim r3
        have h2 := pnext_sim h1.1
        rw [h1.2] at hf
        have hs' := snext_after_stays si (by simpa using hf)
        exact ⟨by rw [h2.2]; simp [hs'], by rw [RPI_cur h2.1]; exact hs'⟩

/-- `Seek(t)` lands on the least key `>= t` of the iterator's range, or makes the iterator invalid
when every key is `< t` (db/memory iterator). -/
theorem seek_least (it : MIter) (hs : Sorted it.keys) (t : Key) :
    match (it.seek t).1.kv with
    | some (k, _) => lexLe t k = true ∧ ∀ x ∈ it.keys, lexLe t x.1 = true → lexLe k x.1 = true
    | none => ∀ x ∈ it.keys, lexLt x.1 t = true := by
  have haux := seek_least_aux it.keys hs t
  have hle := seekIdx_le t it.keys
  by_cases h : seekIdx t it.keys < it.keys.length
  · have hkv : (it.seek t).1.kv = some (it.keys[seekIdx t it.keys]) := by
      have h2 : ((seekIdx t it.keys : Int) < (it.keys.length : Int)) := by omega
      simp [MIter.seek, MIter.kv, MIter.valid, h2]
    rw [hkv]
    exact haux.1 h
  · have hkv : (it.seek t).1.kv = none := by
      have h2 : ¬ ((seekIdx t it.keys : Int) < (it.keys.length : Int)) := by omega
      simp [MIter.seek, MIter.kv, MIter.valid, h2]
    rw [hkv]
    exact haux.2 h

/-- … and the Pebble wrapper's `Seek` lands on the same entry as db/memory's, whatever the two
iterators did before, as long as they represent the same contract iterator. -/
theorem seek_same_entry (mi : MIter) (pi : PIter) (si : SIter) (hm : RI mi si) (hp : RPI pi si) (t : Key) :
    (mi.seek t).1.kv = (pi.seek t).1.iter.kv ∧ (mi.seek t).2 = (pi.seek t).2 := by
  have h1 := seek_sim hm t
  have h2 := pseek_sim hp t
  exact ⟨by rw [RI_cur h1.1, RPI_cur h2.1], by rw [h1.2, h2.2]⟩

/-- stores reachable by the contract are sorted (so the iteration theorems apply to them) -/
theorem reachable_store_sorted (ops : List Op) (d : KV)
    (h : (exec specImpl World.init ops).db = some d) : Sorted d :=
  spec_exec_sorted ops World.init (by intro d e; cases e; exact Sorted.nil) d h

/-! ## Non-vacuity -/

example : upperBound [1, 255, 255] = some [2] := by decide
example : upperBound [255, 255] = none := by decide
example : hasPrefix [1, 255, 7] [1, 255] = true ∧ lexLt [1, 255, 7] [2] = true := by decide

/-- a sequence inside the boundary of the current code that uses every kind of handle, an
`0xff`-terminated and an all-`0xff` prefix, `First,Prev,Prev`, `Next` past the end then `Prev`, a
lower-bound-only iterator, reverse iteration, both helpers, reopen and close -/
def sampleOps : List Op :=
  [.put [1, 255] [7], .put [1, 255, 0] [], .put [2] [8], .put [] [9],
   .newBatch true, .bput 0 [1] [1], .bdelRange 0 [2] [3], .get (.batch 0) [2] false, .snap,
   .bwrite 0, .iter .db [1, 255] true, .first 0, .prev 0, .prev 0, .next 0, .next 0, .next 0, .next 0, .prev 0,
   .seek 0 [1, 255, 0], .key 0, .scan (.snap 0) [] true, .scan .db [1] false, .rscan .db [] false [255],
   .scan .db [255] true, .update true true [.put [5] [5], .get [5] false],
   .update false false [.del []], .iclose 0, .sclose 0, .reopen, .close, .get .db [1] false]

example : inDocumented World.init sampleOps = true := by decide
example : run specImpl World.init sampleOps =
    [.r .ok, .r .ok, .r .ok, .r .ok, .handle 0, .r .ok, .r .ok, .r .notfound, .handle 0, .r .ok, .handle 0,
     .pos true (some ([1, 255], [7])), .pos false none, .pos false none, .pos true (some ([1, 255], [7])),
     .pos true (some ([1, 255, 0], [])), .pos false none, .pos false none, .pos true (some ([1, 255, 0], [])),
     .pos true (some ([1, 255, 0], [])), .r (.key [1, 255, 0]),
     .r (.list [([], [9]), ([1, 255], [7]), ([1, 255, 0], []), ([2], [8])]),
     .r (.list [([1], [1]), ([1, 255], [7]), ([1, 255, 0], [])]),
     .r (.list [([1, 255, 0], []), ([1, 255], [7]), ([1], [1]), ([], [9])]),
     .r (.list []),
     .upd [.ok, .val [5]] .errCb, .upd [.ok] .ok, .r .ok, .r .ok, .r .ok, .r .ok, .r .errClosed] := by decide
example : run (mem2Impl ⟨true⟩) World.init sampleOps = run pebImpl World.init sampleOps := by decide
/-- the replay of (fixed) finding F5 is inside the documented contract -/
example : inDocumented World.init
    [.newBatch false, .bdelRange 0 [] [255], .put [1] [9], .bwrite 0, .scan .db [] false] = true := by decide
example : inDocumentedRE ⟨false⟩ World.init sampleOps = true := by decide
example : (mem2Build [.put [1] [1], .put [3] [3], .delRange [1] [3], .put [2] [2]] ⟨[], [], [], 0⟩).get [([1, 5], [7])] [1, 5] = none ∧
    (mem2Build [.put [1] [1], .put [3] [3], .delRange [1] [3], .put [2] [2]] ⟨[], [], [], 0⟩).flush [([1, 5], [7])] =
      [([2], [2]), ([3], [3])] := by decide
/-- BufferBatch: `Put 01; Delete 02; Put 02; Delete 01` over a wrapped batch that holds `Put 01` -/
example : pointLog [.put [1] [7], .del [2], .put [2] [], .del [1]] := by
  intro o ho; simp at ho; rcases ho with h | h | h | h <;> subst h <;> rfl
example : overlayOps (bufBuild [.put [1] [7], .del [2], .put [2] [], .del [1]]) = [.del [1], .put [2] []] := by decide
/-- a layered sequence: buffer over an indexed batch, read through, flush alone, write, use after write -/
example : xrun specImpl BWorld.init
    [.base (.put [1] [1]), .newBuf, .bufPut 0 [2] [2], .bufDel 0 [1], .bufGet 0 [1] false, .bufGet 0 [2] false,
     .bufGet 0 [3] false, .base (.get (.batch 0) [2] false), .bufFlush 0, .base (.get (.batch 0) [2] false),
     .bufOther 0, .bufWrite 0, .base (.scan .db [] false), .bufPut 0 [5] [5], .bufGet 0 [2] false, .bufWrite 0] =
    [.r .ok, .handle 0, .r .ok, .r .ok, .r .notfound, .r (.val [2]), .r .notfound, .r .notfound, .r .ok,
     .r (.val [2]), .r .panic, .r .ok, .r (.list [([2], [2])]), .r .panic, .r .errClosed, .r .errClosed] := by decide
example : (match (exec (mem2Impl ⟨true⟩) World.init [.put [1] [1], .iter .db [] false, .first 0]).iters 0 with
    | some (some mi) => !mi.next.2
    | _ => false) = true := by decide
example : inDocumentedRE ⟨true⟩ World.init [.put [1] [1], .iter .db [] false, .first 0] = true := by decide
example : [([2], some [2]), ([1], none)].Perm ([([1], none), ([2], some [2])] : List (Key × Option Val)) :=
  List.Perm.swap _ _ _
example : prefixSize pebImpl [([1], [1, 1]), ([1, 255], []), ([2], [9])] [1] true = (2, 5) := by decide
example : Sorted ([([], [9]), ([1, 255], [7]), ([2], [8])] : KV) := by
  simp [Sorted, lexLt]
example : RI (MIter.mk' [([1], [1])] [] false) (specImpl.imk [([1], [1])] [] false) ∧
    RPI (pebNewIter [([1], [1])] [] false) (specImpl.imk [([1], [1])] [] false) :=
  ⟨RI_mk _ _ _, RPI_mk _ _ _⟩

/-! non-vacuity: UpperBound -/
example : upperBoundGo [1, 2, 255] = some [1, 3] ∧ upperBoundGo [1, 255, 255] = some [2] ∧ upperBoundGo [255, 255] = none := by decide
example : upperBound [1, 254, 255] = some [1, 255] ∧ hasPrefix [1, 254, 255, 9] [1, 254, 255] = true ∧
    lexLt [1, 254, 255, 9] [1, 255] = true ∧ lexLt [1, 255] [1, 255, 255] = true := by decide
example : upperBound [255] = none ∧ hasPrefix [255, 3] [255] = true := by decide

/-! non-vacuity: stacks -/
/-- two buffers over a batch that holds `Put 02`: the upper deletes what the lower puts -/
example : stackLookup (fun k => (applyLog [([3], [3])] [.put [2] [2]]).get k)
      ([[.put [1] [9], .del [1]], [.put [1] [1], .del [2]]].map bufBuild) [1] = none ∧
    stackLookup (fun k => (applyLog [([3], [3])] [.put [2] [2]]).get k)
      ([[.put [1] [9], .del [1]], [.put [1] [1], .del [2]]].map bufBuild) [2] = none ∧
    stackLookup (fun k => (applyLog [([3], [3])] [.put [2] [2]]).get k)
      ([[.put [1] [9], .del [1]], [.put [1] [1], .del [2]]].map bufBuild) [3] = some [3] := by decide
example : ∀ L ∈ [[LogOp.put [1] [9], .del [1]], [.put [1] [1], .del [2]]], pointLog L := by
  intro L hL; simp at hL; rcases hL with h | h <;> subst h <;> intro o ho <;> simp at ho <;> rcases ho with h | h <;> subst h <;> rfl
/-- the tombstone scenario on the layered model: `Put k; Delete k` on the buffer while `k` is absent
underneath, THEN `k` reaches the wrapped batch: the buffer still answers not-found and `Write` deletes it -/
def tombstoneOps : List SOp :=
  [.base (.base (.newBatch true)), .lnew .buf (.batch 0), .lcall 0 (.put [1] [10]), .lcall 0 (.del [1]),
   .base (.base (.bput 0 [1] [11])), .lcall 0 (.get [1] false), .base (.base (.get (.batch 0) [1] false)),
   .lcall 0 .write, .base (.base (.scan .db [] false))]
example : srun specImpl SWorld.init tombstoneOps =
    [.handle 0, .handle 0, .r .ok, .r .ok, .r .ok, .r .notfound, .r (.val [11]), .r .ok, .r (.list [])] := by decide
example : inStackContract AWorld.init tombstoneOps = true := by decide
example : inStackDocumented SWorld.init tombstoneOps = true := by decide
example : srun (mem2Impl ⟨true⟩) SWorld.init tombstoneOps = srun specImpl SWorld.init tombstoneOps := by decide
/-- three buffers over one batch flushed 2, 0, 1; a `SyncBatch` in between; `Write` from the top of a chain -/
def siblingOps : List SOp :=
  [.base (.base (.put [1] [1])), .base (.base (.newBatch true)), .lnew .buf (.batch 0), .lnew .buf (.batch 0), .lnew .sync (.batch 0),
   .lnew .buf (.layer 2), .lcall 0 (.put [1] [10]), .lcall 1 (.del [1]), .lcall 3 (.put [2] [13]), .lcall 3 (.get [1] false),
   .lflush 3, .lflush 0, .lcall 3 (.get [1] false), .lflush 1, .lcall 2 (.scan [] false), .lcall 3 (.has [1]),
   .lcall 3 .write, .base (.base (.scan .db [] false)), .lcall 3 (.put [5] [5]), .lcall 0 (.get [2] false)]
example : inStackContract AWorld.init siblingOps = true := by decide
example : inStackDocumented SWorld.init siblingOps = true := by decide
example : inStackDoc (mem2Sim ⟨false⟩) SWorld.init siblingOps = true := by decide
example : srun specImpl SWorld.init siblingOps =
    [.r .ok, .handle 0, .handle 0, .handle 1, .handle 2, .handle 3, .r .ok, .r .ok, .r .ok, .r (.val [1]),
     .r .ok, .r .ok, .r (.val [10]), .r .ok, .r (.list [([2], [13])]), .r .panic,
     .r .ok, .r (.list [([2], [13])]), .r .panic, .r .errClosed] := by decide
example : Sorted ([([3], [3])] : KV) := by simp [Sorted]

end Juno.C15.Props
