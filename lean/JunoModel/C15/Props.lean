import JunoModel.C15.Proofs
/-!
C15 — property theorems (statements only; helper lemmas are in `Proofs.lean`).
Every theorem in this module is an obligation listed in evidence/C15.json with its axioms.
-/
namespace Juno.C15.Props
open Juno.C15

/-- `dbutils.UpperBound` is exact: a key has prefix `p` iff it lies in `[p, upperBound p)`,
where a missing bound (`nil`: empty or all-`0xff` prefix) means "unbounded above". This is the
fact every prefix scan of every backend relies on. -/
theorem upperBound_spec (p k : Key) :
    hasPrefix k p = true ↔
      (lexLe p k = true ∧ (match upperBound p with | none => True | some u => lexLt k u = true)) :=
  hasPrefix_iff_range p k

/-- Go returns `nil` exactly for prefixes made of `0xff` bytes only (including the empty one). -/
theorem upperBound_nil_iff (p : Key) : upperBound p = none ↔ ∀ b ∈ p, b = 255 :=
  upperBound_none_iff p

-- non-vacuity: concrete instances of both sides
example : upperBound [1, 255, 255] = some [2] := by decide
example : upperBound [255, 255] = none := by decide
example : hasPrefix [1, 255, 7] [1, 255] = true ∧ lexLt [1, 255, 7] [2] = true := by decide

end Juno.C15.Props
