import JunoModel.C15.ProofsProps
/-!
C15 — property theorems (statements only; helper lemmas are in `Proofs*.lean`).
Every theorem in this module is an obligation listed in evidence/C15.json with its axioms.

Vocabulary (all defined in `Model.lean`):
* `specImpl` — the contract (ordered map; batch = op log applied at `Write`; iterator over
  `[prefix, UpperBound(prefix))` with positions unpositioned / before / at i / after);
* `memImpl cfg` — transcription of db/memory; `cfg : Cfg` says which of the four iterator repairs
  are present in the tree (`Cfg.asFound` = the pinned commit, all flags false);
* `run M w ops` — the outputs of an op sequence, `exec M w ops` — the final state;
* `inContract cfg w ops` — the explicit, decidable contract boundary (`stepOK`, per step, evaluated
  on the contract's own state).
-/
namespace Juno.C15.Props
open Juno.C15

/-! ## dbutils.UpperBound -/

/-- `dbutils.UpperBound` is exact: a key has prefix `p` iff it lies in `[p, upperBound p)`,
where a missing bound (`nil`: empty or all-`0xff` prefix) means "unbounded above". This is the
fact every prefix scan of every backend relies on. -/
theorem upperBound_spec (p k : Key) :
    hasPrefix k p = true ↔
      (lexLe p k = true ∧ (match upperBound p with | none => True | some u => lexLt k u = true)) :=
  hasPrefix_iff_range p k

/-- Go returns `nil` exactly for prefixes made of `0xff` bytes only (including the empty one). -/
theorem upperBound_nil_iff (p : Key) : upperBound p = none ↔ ∀ b ∈ p, b = 255 :=
  upperBound_none_iff p

/-! ## Refinement: db/memory gives the outputs of the contract -/

/-
FULL-STRENGTH STATEMENT (does NOT hold for the code as found; see the `memory_defect_*` witnesses):

  theorem mem_refines_spec (ops : List Op) (h : documented ops) :
      run (memImpl Cfg.asFound) World.init ops = run specImpl World.init ops

where `documented` only rules out what db/iterator.go, db/batch.go and Pebble rule out (`Value()`
of an invalid iterator, handles used after `Close` of the store, closing the store / a batch / a
snapshot with live iterators on it, `Size()` after `DeleteRange`).
What is proved instead, for EVERY op sequence and every variant `cfg` of db/memory: equality of all
outputs inside the boundary `inContract cfg`, which in addition excludes
  (1) `NewIterator(p, true)`  with `UpperBound(p) = nil`      unless `cfg.nilUbFix`,
  (2) `NewIterator(p, false)` with `p ≠ ""`                   unless `cfg.lowerBoundFix`,
  (3) `Prev` on an iterator that is before the first key      unless `cfg.prevFix`,
  (4) `Next` on an iterator that is past the last key         unless `cfg.nextClamp`,
  (5) changing the store (or closing it) while another live batch holds a `DeleteRange` — for
      every `cfg`: db/memory materialises the range when `DeleteRange` is called.
With `Cfg.repaired` (proposed-fixes/C15-memory-iterator.diff applied) only (5) is missing.
-/
theorem mem_refines_spec_partial (cfg : Cfg) (ops : List Op)
    (h : inContract cfg World.init ops = true) :
    run (memImpl cfg) World.init ops = run specImpl World.init ops :=
  (run_sim cfg ops _ _ R_init h).1

/-- the same from any pair of related states (e.g. in the middle of a sequence) -/
theorem mem_refines_spec_from_partial (cfg : Cfg) (ops : List Op)
    (wm : World MBatch MIter) (ws : World SBatch SIter) (hR : R wm ws)
    (h : inContract cfg ws ops = true) :
    run (memImpl cfg) wm ops = run specImpl ws ops :=
  (run_sim cfg ops wm ws hR h).1

/-! ### the five places where db/memory as found leaves the contract: concrete witnesses -/

/-- (1) `put ffff 06; scan db ffff withUpperBound` — memory `[]`, contract `[ffff=06]` -/
theorem memory_defect_nil_upper_bound :
    run (memImpl Cfg.asFound) World.init [.put [255, 255] [6], .scan .db [255, 255] true] ≠
    run specImpl World.init [.put [255, 255] [6], .scan .db [255, 255] true] := by decide

/-- (2) `put 02 04; scan db 01 noUpperBound` — memory `[]`, contract `[02=04]` -/
theorem memory_defect_prefix_filter :
    run (memImpl Cfg.asFound) World.init [.put [2] [4], .scan .db [1] false] ≠
    run specImpl World.init [.put [2] [4], .scan .db [1] false] := by decide

/-- (3) `First, Prev, Prev` — memory is back on the first key, contract stays invalid -/
theorem memory_defect_prev_before_first :
    run (memImpl Cfg.asFound) World.init [.put [0] [1], .iter .db [] false, .first 0, .prev 0, .prev 0] ≠
    run specImpl World.init [.put [0] [1], .iter .db [] false, .first 0, .prev 0, .prev 0] := by decide

/-- (4) `Seek(past end), Next, Prev` — memory returns true on an invalid position -/
theorem memory_defect_next_past_end :
    run (memImpl Cfg.asFound) World.init [.put [0] [1], .iter .db [] false, .seek 0 [9], .next 0, .prev 0] ≠
    run specImpl World.init [.put [0] [1], .iter .db [] false, .seek 0 [9], .next 0, .prev 0] := by decide

/-- (5) `b.DeleteRange("", ff); db.Put(01); b.Write()` — `01` survives on memory (every `cfg`) -/
theorem memory_defect_batch_deleterange :
    run (memImpl Cfg.repaired) World.init
      [.newBatch false, .bdelRange 0 [] [255], .put [1] [9], .bwrite 0, .scan .db [] false] ≠
    run specImpl World.init
      [.newBatch false, .bdelRange 0 [] [255], .put [1] [9], .bwrite 0, .scan .db [] false] := by decide

/-- with the iterator repairs, the witnesses (1)–(4) are inside the boundary (so
`mem_refines_spec_partial Cfg.repaired` covers them) … -/
theorem repaired_covers_iterator_witnesses :
    inContract Cfg.repaired World.init [.put [255, 255] [6], .scan .db [255, 255] true] = true ∧
    inContract Cfg.repaired World.init [.put [2] [4], .scan .db [1] false] = true ∧
    inContract Cfg.repaired World.init [.put [0] [1], .iter .db [] false, .first 0, .prev 0, .prev 0] = true ∧
    inContract Cfg.repaired World.init [.put [0] [1], .iter .db [] false, .seek 0 [9], .next 0, .prev 0] = true := by
  decide

/-- … and as found they are outside of it, as is (5) for every variant. -/
theorem asFound_excludes_witnesses :
    inContract Cfg.asFound World.init [.put [255, 255] [6], .scan .db [255, 255] true] = false ∧
    inContract Cfg.asFound World.init [.put [2] [4], .scan .db [1] false] = false ∧
    inContract Cfg.asFound World.init [.put [0] [1], .iter .db [] false, .first 0, .prev 0, .prev 0] = false ∧
    inContract Cfg.asFound World.init [.put [0] [1], .iter .db [] false, .seek 0 [9], .next 0, .prev 0] = false ∧
    inContract Cfg.repaired World.init
      [.newBatch false, .bdelRange 0 [] [255], .put [1] [9], .bwrite 0, .scan .db [] false] = false := by
  decide

/-! ## Batches -/

/-- All-or-nothing, part 1: no operation other than a direct write, `Write` of a batch, a
successful `Update`/`Write` helper or `Close` changes the store — in particular nothing a batch
records is visible in the store before `Write` (any implementation of the interface, any sequence). -/
theorem batch_atomic_nothing_before_write {B I : Type} (M : Impl B I) (w : World B I) (ops : List Op)
    (h : ops.all (fun o => !o.commits) = true) : (exec M w ops).db = w.db :=
  exec_db_of_no_commit M ops w h

/-- All-or-nothing, part 2 (db/memory): `Write` replaces the store content, in one step, by the
content with every recorded write applied in order, and closes the batch. -/
theorem batch_atomic_write_applies_all (cfg : Cfg) (w : World MBatch MIter) (b : Nat) (x : MBatch) (i : Bool)
    (d : KV) (hb : w.batches b = some (x, i)) (hd : w.db = some d) :
    (step (memImpl cfg) w (.bwrite b)).1.db = some (x.writes.foldl MWrite.apply d) ∧
    (step (memImpl cfg) w (.bwrite b)).1.batches b = none := by
  simp [step, hb, hd, memImpl, MBatch.flush]

/-- … and that content is the contract's: for a batch built by any list of `Put`/`Delete`/
`DeleteRange` calls over an unchanged store `d`, flushing the db/memory batch gives exactly the op
log applied to `d` in order. -/
theorem batch_atomic (cfg : Cfg) (d : KV) (hd : Sorted d) (log : List LogOp) :
    (memBuild cfg d log (memImpl cfg).bempty).flush d = applyLog d log := by
  obtain ⟨sz, h⟩ := memBuild_RB cfg d hd log _ _ (RB_empty (cfg := cfg) d)
  simpa [specImpl] using h.2.1

/-- Later operations win (contract log): the last operation of a batch decides the key it touches
and leaves every other key as the earlier operations left it. -/
theorem later_wins (d : KV) (log : List LogOp) (k : Key) (v : Val) (s e k' : Key) :
    (applyLog d (log ++ [.put k v])).get k = some v ∧
    (applyLog d (log ++ [.del k])).get k = none ∧
    (inRange s e k = true → (applyLog d (log ++ [.delRange s e])).get k = none) ∧
    (k ≠ k' → (applyLog d (log ++ [.put k v])).get k' = (applyLog d log).get k') ∧
    (k ≠ k' → (applyLog d (log ++ [.del k])).get k' = (applyLog d log).get k') ∧
    (inRange s e k' = false → (applyLog d (log ++ [.delRange s e])).get k' = (applyLog d log).get k') := by
  simp only [applyLog_append, LogOp.apply, SMap.get_put, SMap.get_del, SMap.get_delRange]
  refine ⟨by simp, by simp, ?_, ?_, ?_, ?_⟩
  · intro h; simp [h]
  · intro h; simp [h]
  · intro h; simp [h]
  · intro h; simp [h]

/-- Later operations win (db/memory `writes` list): after `Write`, a key holds what the LAST entry
of the batch for that key says (value, or absent for a delete); untouched keys keep the store's. -/
theorem later_wins_memory (b : MBatch) (d : KV) (k : Key) :
    (b.flush d).get k =
      match lastWrite b.writes k with
      | some w => if w.delete then none else some w.value
      | none => d.get k := by
  unfold MBatch.flush
  rw [foldl_apply_get]
  cases lastWrite b.writes k <;> rfl

/-- Indexed batches read their own writes over the store: for a db/memory batch built by any list
of calls over store content `d`, `batch.Get(k)` (write map first, then the store) returns what the
contract says — the lookup of `k` in `d` with the batch's op log applied. -/
theorem indexed_reads_own_writes (cfg : Cfg) (d : KV) (hd : Sorted d) (log : List LogOp) (k : Key) :
    (memBuild cfg d log (memImpl cfg).bempty).get d k = (applyLog d log).get k := by
  obtain ⟨sz, h⟩ := memBuild_RB cfg d hd log _ _ (RB_empty (cfg := cfg) d)
  simpa [specImpl] using RB_get h k

/-! ## Snapshots, helpers -/

/-- A snapshot is unaffected by anything that happens later: whatever sequence of operations runs
(on any implementation), as long as that snapshot is not closed, reads from it answer from the
content captured at creation. -/
theorem snapshot_isolated {B I : Type} (M : Impl B I) (w : World B I) (s : Nat) (d : KV) (ops : List Op)
    (hs : s < w.ns) (hd : w.snaps s = some d) (hne : ∀ op ∈ ops, op ≠ .sclose s) (k : Key) (fail : Bool)
    (p : Key) (u : Bool) :
    (step M (exec M w ops) (.get (.snap s) k fail)).2 = .r (readGet (d.get k) fail) ∧
    (step M (exec M w ops) (.has (.snap s) k)).2 = .r (.bool (d.get k).isSome) ∧
    (step M (exec M w ops) (.scan (.snap s) p u)).2 = .r (.list (scan M d p u)) := by
  have := exec_snap_stable M ops w s hs hne
  simp [step, World.read, this, hd]

/-- the snapshot taken by `NewSnapshot` holds the store content of that moment -/
theorem snapshot_captures {B I : Type} (M : Impl B I) (w : World B I) (d : KV) (hd : w.db = some d) :
    (step M w .snap).1.snaps w.ns = some d ∧ w.ns < (step M w .snap).1.ns := by
  simp [step, hd]

/-- Copy-on-iterate: an iterator is unaffected by anything that happens later — whatever sequence
of operations runs (on any implementation) that does not position or close that iterator, its keys,
values and position stay as they were (in particular after writes to the store it was created from). -/
theorem iterator_isolated {B I : Type} (M : Impl B I) (w : World B I) (i : Nat) (ops : List Op)
    (hi : i < w.ni) (hne : ops.all (fun o => !o.onIter i) = true) :
    (exec M w ops).iters i = w.iters i :=
  exec_iter_stable M ops w i hi hne

/-- `Update` / `Write` helper whose callback fails: nothing at all is applied — the whole state
is unchanged, whatever the callback did with its batch. -/
theorem failed_callback_no_effect {B I : Type} (M : Impl B I) (w : World B I) (idx : Bool) (ops : List BOp) :
    (step M w (.update idx true ops)).1 = w := by
  simp only [step]
  cases w.db <;> rfl

/-- … and when it succeeds, exactly the batch built by the callback is applied (db/memory = contract). -/
theorem successful_callback_applies_batch (cfg : Cfg) (w : World MBatch MIter) (d : KV) (hd : w.db = some d)
    (idx : Bool) (ops : List BOp) :
    (step (memImpl cfg) w (.update idx false ops)).1.db =
      some ((runInner (memImpl cfg) d idx ops (memImpl cfg).bempty).1.flush d) := by
  simp [step, hd, memImpl]

/-! ## Iteration -/

/-- Iterating (`First`, then `Next` until invalid) yields exactly the entries of the store whose key
lies in `[p, UpperBound(p))` (no upper bound if not requested or nil), in strictly increasing key
order — for the contract on all arguments, for db/memory on the arguments inside the boundary. -/
theorem iteration_exact (cfg : Cfg) (c : KV) (hc : Sorted c) (p : Key) (u : Bool) :
    let out := scan specImpl c p u
    out.Pairwise (fun a b => lexLt a.1 b.1 = true) ∧
    (∀ k v, (k, v) ∈ out ↔
      (c.get k = some v ∧ lexLe p k = true ∧
        (u = true → ∀ w, upperBound p = some w → lexLt k w = true))) ∧
    (iterArgsOK cfg p u = true → scan (memImpl cfg) c p u = out) := by
  refine ⟨?_, ?_, fun hok => scan_sim cfg c p u hok⟩
  · rw [spec_scan]; exact hc.filter _
  · intro k v
    rw [spec_scan, List.mem_filter, ← hc.get_eq_some]
    simp only [specBound, Bool.and_eq_true]
    cases u
    · simp
    · cases hub : upperBound p <;> simp [hub]

/-- stores reachable by the contract are sorted (so `iteration_exact` applies to them) -/
theorem reachable_store_sorted (ops : List Op) (d : KV)
    (h : (exec specImpl World.init ops).db = some d) : Sorted d :=
  spec_exec_sorted ops World.init (by intro d e; cases e; exact Sorted.nil) d h

/-- `Seek(t)` lands on the least key `>= t` of the iterator's range, or makes the iterator invalid
when every key is `< t` (db/memory iterator; the contract iterator has the same index). -/
theorem seek_least (it : MIter) (hs : Sorted it.keys) (t : Key) :
    match (it.seek t).1.kv with
    | some (k, _) => lexLe t k = true ∧ ∀ x ∈ it.keys, lexLe t x.1 = true → lexLe k x.1 = true
    | none => ∀ x ∈ it.keys, lexLt x.1 t = true := by
  have haux := seek_least_aux it.keys hs t
  have hle := seekIdx_le t it.keys
  by_cases h : seekIdx t it.keys < it.keys.length
  · have hkv : (it.seek t).1.kv = some (it.keys[seekIdx t it.keys]) := by
      have h2 : ((seekIdx t it.keys : Int) < (it.keys.length : Int)) := by omega
      simp [MIter.seek, MIter.kv, MIter.valid, h2, List.getElem?_eq_getElem h]
    rw [hkv]
    exact haux.1 h
  · have hkv : (it.seek t).1.kv = none := by
      have h2 : ¬ ((seekIdx t it.keys : Int) < (it.keys.length : Int)) := by omega
      simp [MIter.seek, MIter.kv, MIter.valid, h2]
    rw [hkv]
    exact haux.2 h

/-- the contract iterator seeks to the same index -/
theorem seek_same_index (mi : MIter) (si : SIter) (h : RI mi si) (t : Key) :
    RI (mi.seek t).1 (si.seek t) ∧ (mi.seek t).1.kv = (si.seek t).cur :=
  ⟨(seek_sim h t).1, RI_cur (seek_sim h t).1⟩

/-! ## Non-vacuity -/

example : upperBound [1, 255, 255] = some [2] := by decide
example : upperBound [255, 255] = none := by decide
example : hasPrefix [1, 255, 7] [1, 255] = true ∧ lexLt [1, 255, 7] [2] = true := by decide

/-- a sequence inside the as-found boundary that uses every kind of handle and an `0xff`-terminated
prefix, and on which the outputs are not trivial -/
def sampleOps : List Op :=
  [.put [1, 255] [7], .put [1, 255, 0] [], .put [2] [8], .put [] [9],
   .newBatch true, .bput 0 [1] [1], .bdelRange 0 [2] [3], .get (.batch 0) [2] false, .snap,
   .bwrite 0, .iter .db [1, 255] true, .first 0, .next 0, .next 0, .prev 0, .seek 0 [1, 255, 0],
   .scan (.snap 0) [] false, .scan .db [1] true, .update true true [.put [5] [5], .get [5] false],
   .update false false [.del []], .iclose 0, .sclose 0, .close, .get .db [1] false]

example : inContract Cfg.asFound World.init sampleOps = true := by decide
example : run specImpl World.init sampleOps =
    [.r .ok, .r .ok, .r .ok, .r .ok, .handle 0, .r .ok, .r .ok, .r .notfound, .handle 0, .r .ok, .handle 0,
     .pos true (some ([1, 255], [7])), .pos true (some ([1, 255, 0], [])), .pos false none,
     .pos true (some ([1, 255, 0], [])), .pos true (some ([1, 255, 0], [])),
     .r (.list [([], [9]), ([1, 255], [7]), ([1, 255, 0], []), ([2], [8])]),
     .r (.list [([1], [1]), ([1, 255], [7]), ([1, 255, 0], [])]),
     .upd [.ok, .val [5]] .errCb, .upd [.ok] .ok, .r .ok, .r .ok, .r .ok, .r .errClosed] := by decide
example : Sorted ([([], [9]), ([1, 255], [7]), ([2], [8])] : KV) := by
  simp [Sorted, lexLt]
example : iterArgsOK Cfg.asFound [1, 255] true = true ∧ iterArgsOK Cfg.repaired [255] true = true := by decide

end Juno.C15.Props
