import JunoModel.C15.ProofsIter
/-! The Pebble wrappers (`positioned` flag over the raw engine iterator, error translation) against
the contract. -/
namespace Juno.C15

/-- wrapper iterator `pi` represents contract iterator `si` -/
def RPI (pi : PIter) (si : SIter) : Prop :=
  pi.iter.keys = si.keys ∧
  (match si.pos with
   | .unpos => pi.positioned = false ∧ pi.iter.pos = .unpos
   | .at i => pi.positioned = true ∧ pi.iter.pos = .at i ∧ i < si.keys.length
   | p => pi.positioned = true ∧ pi.iter.pos = p)

theorem RPI_mk (d : KV) (p : Key) (u : Bool) : RPI (pebNewIter d p u) (specImpl.imk d p u) := by
  refine ⟨rfl, ?_⟩
  simp [specImpl, pebNewIter, engineNewIter]

theorem evalid_eq (it : EIter) : it.valid = it.kv.isSome := by
  unfold EIter.valid EIter.kv
  cases it.pos with
  | «at» i =>
    by_cases h : i < it.keys.length
    · simp [h, List.getElem?_eq_getElem h]
    · simp [h]
  | _ => rfl

theorem RPI_cur {pi : PIter} {si : SIter} (h : RPI pi si) : pi.iter.kv = si.cur := by
  obtain ⟨hk, hp⟩ := h
  unfold EIter.kv SIter.cur
  rw [hk]
  cases hpos : si.pos <;> simp only [hpos] at hp <;> simp [hp]

/-- generic: an engine move that lands on the same position as the contract move -/
theorem RPI_of_pos {it : EIter} {si' : SIter} (hk : it.keys = si'.keys) (hpos : it.pos = si'.pos)
    (hne : si'.pos ≠ .unpos) (hlt : ∀ i, si'.pos = .at i → i < si'.keys.length) :
    RPI ⟨it, true⟩ si' := by
  refine ⟨hk, ?_⟩
  cases h : si'.pos with
  | unpos => exact absurd h hne
  | before => simp [hpos, h]
  | «at» i => simp [hpos, h, hlt i h]
  | after => simp [hpos, h]

theorem pfirst_sim {pi : PIter} {si : SIter} (h : RPI pi si) :
    RPI pi.first.1 si.first ∧ pi.first.2 = si.first.cur.isSome := by
  obtain ⟨hk, _⟩ := h
  have hR : RPI pi.first.1 si.first := by
    apply RPI_of_pos
    · exact hk
    · simp [PIter.first, EIter.first, SIter.first, hk]
    · simp only [SIter.first]; split <;> simp
    · intro i hi
      simp only [SIter.first] at hi ⊢
      split at hi <;> simp at hi
      omega
  refine ⟨hR, ?_⟩
  rw [← RPI_cur hR]
  simp [PIter.first, EIter.first, evalid_eq]

theorem pseek_sim {pi : PIter} {si : SIter} (h : RPI pi si) (t : Key) :
    RPI (pi.seek t).1 (si.seek t) ∧ (pi.seek t).2 = (si.seek t).cur.isSome := by
  obtain ⟨hk, _⟩ := h
  have hR : RPI (pi.seek t).1 (si.seek t) := by
    apply RPI_of_pos
    · exact hk
    · simp [PIter.seek, EIter.seekGE, SIter.seek, hk]
    · simp only [SIter.seek]; split <;> simp
    · intro i hi
      simp only [SIter.seek] at hi ⊢
      split at hi <;> simp at hi
      omega
  refine ⟨hR, ?_⟩
  rw [← RPI_cur hR]
  simp [PIter.seek, EIter.seekGE, evalid_eq]

theorem pnext_sim {pi : PIter} {si : SIter} (h : RPI pi si) :
    RPI pi.next.1 si.next ∧ pi.next.2 = si.next.cur.isSome := by
  have hf := pfirst_sim h
  obtain ⟨hk, hp⟩ := h
  cases hpos : si.pos with
  | unpos =>
    simp only [hpos] at hp
    have e1 : pi.next = pi.first := by simp [PIter.next, hp.1]
    have e2 : si.next = si.first := by simp [SIter.next, hpos]
    rw [e1, e2]; exact hf
  | before =>
    simp only [hpos] at hp
    have e2 : si.next = si.first := by simp [SIter.next, hpos]
    have e1 : pi.next = pi.first := by
      simp [PIter.next, hp.1, EIter.next, hp.2, PIter.first]
    rw [e1, e2]; exact hf
  | «at» i =>
    simp only [hpos] at hp
    have hR : RPI pi.next.1 si.next := by
      have : pi.next.1 = ⟨(pi.iter.next).1, true⟩ := by simp [PIter.next, hp.1]
      rw [this]
      apply RPI_of_pos
      · simp [EIter.next, hp.2.1, SIter.next, hpos, hk]
      · simp [EIter.next, hp.2.1, SIter.next, hpos, hk]
      · simp only [SIter.next, hpos]; split <;> simp
      · intro j hj
        simp only [SIter.next, hpos] at hj ⊢
        split at hj <;> simp at hj
        omega
    refine ⟨hR, ?_⟩
    rw [← RPI_cur hR]
    simp [PIter.next, hp.1, EIter.next, hp.2.1, evalid_eq]
  | after =>
    simp only [hpos] at hp
    have e2 : si.next = si := by simp [SIter.next, hpos]
    rw [e2]
    refine ⟨⟨?_, ?_⟩, ?_⟩
    · simp [PIter.next, hp.1, EIter.next, hp.2, hk]
    · simp [PIter.next, hp.1, EIter.next, hp.2, hpos]
    · simp [PIter.next, hp.1, EIter.next, hp.2, SIter.cur, hpos]

theorem pprev_sim {pi : PIter} {si : SIter} (h : RPI pi si) :
    RPI pi.prev.1 si.prev ∧ pi.prev.2 = si.prev.cur.isSome := by
  have hf := pfirst_sim h
  obtain ⟨hk, hp⟩ := h
  cases hpos : si.pos with
  | unpos =>
    simp only [hpos] at hp
    have e1 : pi.prev = pi.first := by simp [PIter.prev, hp.1]
    have e2 : si.prev = si.first := by simp [SIter.prev, hpos]
    rw [e1, e2]; exact hf
  | before =>
    simp only [hpos] at hp
    have e2 : si.prev = si := by simp [SIter.prev, hpos]
    rw [e2]
    refine ⟨⟨?_, ?_⟩, ?_⟩
    · simp [PIter.prev, hp.1, EIter.prev, hp.2, hk]
    · simp [PIter.prev, hp.1, EIter.prev, hp.2, hpos]
    · simp [PIter.prev, hp.1, EIter.prev, hp.2, SIter.cur, hpos]
  | «at» i =>
    simp only [hpos] at hp
    cases i with
    | zero =>
      have e2 : si.prev = { si with pos := .before } := by simp [SIter.prev, hpos]
      rw [e2]
      refine ⟨⟨?_, ?_⟩, ?_⟩
      · simp [PIter.prev, hp.1, EIter.prev, hp.2.1, hk]
      · simp [PIter.prev, hp.1, EIter.prev, hp.2.1]
      · simp [PIter.prev, hp.1, EIter.prev, hp.2.1, SIter.cur]
    | succ j =>
      have e2 : si.prev = { si with pos := .at j } := by simp [SIter.prev, hpos]
      rw [e2]
      have hj : j < si.keys.length := by omega
      have hj' : j < pi.iter.keys.length := by rw [hk]; exact hj
      refine ⟨⟨?_, ?_⟩, ?_⟩
      · simp [PIter.prev, hp.1, EIter.prev, hp.2.1, hk]
      · simp [PIter.prev, hp.1, EIter.prev, hp.2.1, hj]
      · simp [PIter.prev, hp.1, EIter.prev, hp.2.1, SIter.cur, EIter.valid, hj', List.getElem?_eq_getElem hj]
  | after =>
    simp only [hpos] at hp
    have e2 : si.prev = si.last := by simp [SIter.prev, hpos]
    rw [e2]
    have hR : RPI pi.prev.1 si.last := by
      have : pi.prev.1 = ⟨(pi.iter.last).1, true⟩ := by simp [PIter.prev, hp.1, EIter.prev, hp.2]
      rw [this]
      apply RPI_of_pos
      · simp [EIter.last, SIter.last, hk]
      · simp [EIter.last, SIter.last, hk]
      · simp only [SIter.last]; split <;> simp
      · intro j hj
        simp only [SIter.last] at hj ⊢
        split at hj <;> simp at hj
        omega
    refine ⟨hR, ?_⟩
    rw [← RPI_cur hR]
    simp [PIter.prev, hp.1, EIter.prev, hp.2, EIter.last, evalid_eq]

/-! ### error translation -/

theorem pebGet_engineGet (d : KV) (k : Key) : pebGet (engineGet d k) = RGet.ofOption (d.get k) := by
  unfold engineGet
  cases d.get k <;> rfl

theorem pebHas_engineGet (d : KV) (k : Key) : pebHas (engineGet d k) = ROut.bool (d.get k).isSome := by
  unfold engineGet
  cases d.get k <;> rfl

end Juno.C15
