import JunoModel.C15.ProofsScan
/-! World-level simulation: db/memory (variant `cfg`) refines the contract on every step that is
inside the contract boundary `stepOK cfg`. -/
namespace Juno.C15

/-! ### batches -/

/-- db/memory batch `mb` represents contract batch `sb` over store content `d` -/
def RB (d : KV) (mb : MBatch) (sb : SBatch) : Prop :=
  wmOK mb ∧ mb.flush d = applyLog d sb.log ∧
  (noRange sb = true → (∀ d', mb.flush d' = applyLog d' sb.log) ∧ mb.size = sb.size)

theorem noRange_append (log : List LogOp) (sz sz' : Nat) (o : LogOp) :
    noRange ⟨log ++ [o], sz⟩ = (noRange ⟨log, sz'⟩ && !o.isRange) := by
  simp [noRange, List.all_append]

theorem RB_empty (d : KV) : RB d (memImpl cfg).bempty specImpl.bempty := by
  refine ⟨wmOK_empty, rfl, fun _ => ⟨fun _ => rfl, rfl⟩⟩

theorem RB_put {d : KV} {mb : MBatch} {sb : SBatch} (h : RB d mb sb) (k : Key) (v : Val) :
    RB d (mb.put k v) (specImpl.bput sb k v) := by
  obtain ⟨h1, h2, h3⟩ := h
  refine ⟨wmOK_put h1 k v, ?_, ?_⟩
  · show (mb.put k v).flush d = applyLog d (sb.log ++ [.put k v])
    rw [flush_put, applyLog_append, h2]; rfl
  · intro hn
    have hn' : noRange sb = true := by
      have := noRange_append sb.log (sb.size + k.length + v.length) sb.size (.put k v)
      simp only [specImpl] at hn
      rw [this] at hn
      simpa [LogOp.isRange] using hn
    obtain ⟨h4, h5⟩ := h3 hn'
    refine ⟨fun d' => ?_, ?_⟩
    · show (mb.put k v).flush d' = applyLog d' (sb.log ++ [.put k v])
      rw [flush_put, applyLog_append, h4]; rfl
    · show mb.size + k.length + v.length = sb.size + k.length + v.length
      rw [h5]

theorem RB_del {d : KV} {mb : MBatch} {sb : SBatch} (h : RB d mb sb) (k : Key) :
    RB d (mb.del k) (specImpl.bdel sb k) := by
  obtain ⟨h1, h2, h3⟩ := h
  refine ⟨wmOK_del h1 k, ?_, ?_⟩
  · show (mb.del k).flush d = applyLog d (sb.log ++ [.del k])
    rw [flush_del, applyLog_append, h2]; rfl
  · intro hn
    have hn' : noRange sb = true := by
      have := noRange_append sb.log (sb.size + k.length) sb.size (.del k)
      simp only [specImpl] at hn
      rw [this] at hn
      simpa [LogOp.isRange] using hn
    obtain ⟨h4, h5⟩ := h3 hn'
    refine ⟨fun d' => ?_, ?_⟩
    · show (mb.del k).flush d' = applyLog d' (sb.log ++ [.del k])
      rw [flush_del, applyLog_append, h4]; rfl
    · show mb.size + k.length = sb.size + k.length
      rw [h5]

theorem RB_delRange (cfg : Cfg) {d : KV} (hd : Sorted d) {mb : MBatch} {sb : SBatch} (h : RB d mb sb)
    (s e : Key) : RB d (mb.delRange cfg d s e) (specImpl.bdelRange d sb s e) := by
  obtain ⟨h1, h2, _⟩ := h
  refine ⟨wmOK_mDelRange cfg d h1 s e hd, ?_, ?_⟩
  · show (mb.delRange cfg d s e).flush d = applyLog d (sb.log ++ [.delRange s e])
    rw [flush_mDelRange cfg d mb s e hd, applyLog_append, h2]; rfl
  · intro hn
    have := noRange_append sb.log sb.size sb.size (.delRange s e)
    simp only [specImpl] at hn
    rw [this] at hn
    simp [LogOp.isRange] at hn

theorem RB_get {d : KV} {mb : MBatch} {sb : SBatch} (h : RB d mb sb) (k : Key) :
    mb.get d k = specImpl.bget d sb k := by
  show mb.get d k = (applyLog d sb.log).get k
  rw [mbget_eq_flush h.1, h.2.1]

theorem RB_change {d : KV} {mb : MBatch} {sb : SBatch} (h : RB d mb sb) (hn : noRange sb = true)
    (d' : KV) : RB d' mb sb :=
  ⟨h.1, (h.2.2 hn).1 d', h.2.2⟩

def RBo (d : KV) : Option (MBatch × Bool) → Option (SBatch × Bool) → Prop
  | none, none => True
  | some (mb, i), some (sb, j) => i = j ∧ RB d mb sb
  | _, _ => False

def RIo : Option (Option MIter) → Option (Option SIter) → Prop
  | none, none => True
  | some none, some none => True
  | some (some mi), some (some si) => RI mi si
  | _, _ => False

structure R (wm : World MBatch MIter) (ws : World SBatch SIter) : Prop where
  db : wm.db = ws.db
  sorted : ∀ d, ws.db = some d → Sorted d
  nb : wm.nb = ws.nb
  ns : wm.ns = ws.ns
  ni : wm.ni = ws.ni
  snaps : wm.snaps = ws.snaps
  batches : ∀ n, RBo (ws.db.getD []) (wm.batches n) (ws.batches n)
  fresh : ∀ n, ws.nb ≤ n → ws.batches n = none
  iters : ∀ n, RIo (wm.iters n) (ws.iters n)

theorem R_init : R (World.init : World MBatch MIter) (World.init : World SBatch SIter) where
  db := rfl
  sorted := by intro d h; cases h; exact Sorted.nil
  nb := rfl
  ns := rfl
  ni := rfl
  snaps := rfl
  batches := fun _ => trivial
  fresh := fun _ _ => rfl
  iters := fun _ => trivial

@[simp] theorem upd_same {α : Type} (f : Nat → α) (i : Nat) (x : α) : upd f i x i = x := by simp [upd]
theorem upd_other {α : Type} (f : Nat → α) (i : Nat) (x : α) {j : Nat} (h : j ≠ i) : upd f i x j = f j := by
  simp [upd, h]

theorem sorted_base {ws : World SBatch SIter} (h : ∀ d, ws.db = some d → Sorted d) :
    Sorted (ws.db.getD []) := by
  cases hd : ws.db with
  | none => exact Sorted.nil
  | some d => exact h d hd

/-- what `othersNoRange` gives for one live batch -/
theorem othersNoRange_get {ws : World SBatch SIter} {exc : Option Nat}
    (hfresh : ∀ n, ws.nb ≤ n → ws.batches n = none)
    (h : othersNoRange ws exc = true) {n : Nat} {sb : SBatch} {i : Bool}
    (hn : ws.batches n = some (sb, i)) (hne : some n ≠ exc) : noRange sb = true := by
  have hlt : n < ws.nb := by
    by_cases hl : n < ws.nb
    · exact hl
    · have := hfresh n (by omega); rw [this] at hn; cases hn
  unfold othersNoRange at h
  have := List.all_eq_true.mp h n (List.mem_range.mpr hlt)
  simp only [hne, if_false, hn] at this
  exact this

/-- the store content changes (direct write, helper, or `Write` of batch `exc`, which is closed) -/
theorem R_commit {wm : World MBatch MIter} {ws : World SBatch SIter} (h : R wm ws)
    (d' : KV) (hs : Sorted d') (exc : Option Nat) (hno : othersNoRange ws exc = true) :
    R { wm with db := some d', batches := fun n => if some n = exc then none else wm.batches n }
      { ws with db := some d', batches := fun n => if some n = exc then none else ws.batches n } where
  db := rfl
  sorted := by intro d hd; cases hd; exact hs
  nb := h.nb
  ns := h.ns
  ni := h.ni
  snaps := h.snaps
  batches := by
    intro n
    by_cases hn : some n = exc
    · simp only [hn, if_true]; trivial
    · simp only [hn, if_false]
      have hb := h.batches n
      cases hm : wm.batches n with
      | none =>
        cases hsb : ws.batches n with
        | none => trivial
        | some y => rw [hm, hsb] at hb; exact hb.elim
      | some x =>
        cases hsb : ws.batches n with
        | none => rw [hm, hsb] at hb; exact hb.elim
        | some y =>
          obtain ⟨mb, i⟩ := x
          obtain ⟨sb, j⟩ := y
          rw [hm, hsb] at hb
          exact ⟨hb.1, RB_change hb.2 (othersNoRange_get h.fresh hno hsb hn) _⟩
  fresh := by
    intro n hn
    by_cases he : some n = exc
    · simp [he]
    · simp only [he, if_false]; exact h.fresh n hn
  iters := h.iters

theorem batches_none_iff {wm : World MBatch MIter} {ws : World SBatch SIter} (h : R wm ws) (n : Nat) :
    wm.batches n = none ↔ ws.batches n = none := by
  have hb := h.batches n
  cases hm : wm.batches n <;> cases hsb : ws.batches n <;> rw [hm, hsb] at hb <;> simp [RBo] at hb ⊢

/-- both tables hold related live batches at `n` -/
theorem batches_some {wm : World MBatch MIter} {ws : World SBatch SIter} (h : R wm ws) {n : Nat}
    {sb : SBatch} {j : Bool} (hs : ws.batches n = some (sb, j)) :
    ∃ mb, wm.batches n = some (mb, j) ∧ RB (ws.db.getD []) mb sb := by
  have hb := h.batches n
  rw [hs] at hb
  cases hm : wm.batches n with
  | none => rw [hm] at hb; exact hb.elim
  | some x =>
    obtain ⟨mb, i⟩ := x
    rw [hm] at hb
    exact ⟨mb, by rw [hb.1], hb.2⟩

/-- one live batch is replaced by related successors -/
theorem R_setbatch {wm : World MBatch MIter} {ws : World SBatch SIter} (h : R wm ws) (b : Nat)
    (hlive : ws.batches b ≠ none) (mb : MBatch) (sb : SBatch) (i : Bool)
    (hrb : RB (ws.db.getD []) mb sb) :
    R { wm with batches := upd wm.batches b (some (mb, i)) }
      { ws with batches := upd ws.batches b (some (sb, i)) } where
  db := h.db
  sorted := h.sorted
  nb := h.nb
  ns := h.ns
  ni := h.ni
  snaps := h.snaps
  batches := by
    intro n
    by_cases hn : n = b
    · subst hn; simp only [upd_same]; exact ⟨rfl, hrb⟩
    · simp only [upd_other _ _ _ hn]; exact h.batches n
  fresh := by
    intro n hn
    have : n ≠ b := by
      intro e; subst e; exact hlive (h.fresh n hn)
    simp only [upd_other _ _ _ this]; exact h.fresh n hn
  iters := h.iters

theorem R_closebatch {wm : World MBatch MIter} {ws : World SBatch SIter} (h : R wm ws) (b : Nat) :
    R { wm with batches := upd wm.batches b none } { ws with batches := upd ws.batches b none } where
  db := h.db
  sorted := h.sorted
  nb := h.nb
  ns := h.ns
  ni := h.ni
  snaps := h.snaps
  batches := by
    intro n
    by_cases hn : n = b
    · subst hn; simp only [upd_same]; trivial
    · simp only [upd_other _ _ _ hn]; exact h.batches n
  fresh := by
    intro n hn
    by_cases he : n = b
    · subst he; simp
    · simp only [upd_other _ _ _ he]; exact h.fresh n hn
  iters := h.iters

theorem R_setiter {wm : World MBatch MIter} {ws : World SBatch SIter} (h : R wm ws) (i : Nat)
    (mi : Option MIter) (si : Option SIter) (hri : RIo (some mi) (some si)) (org : Nat → Src) :
    R { wm with iters := upd wm.iters i (some mi) }
      { ws with iters := upd ws.iters i (some si), iorigin := org } where
  db := h.db
  sorted := h.sorted
  nb := h.nb
  ns := h.ns
  ni := h.ni
  snaps := h.snaps
  batches := h.batches
  fresh := h.fresh
  iters := by
    intro n
    by_cases hn : n = i
    · subst hn; simp only [upd_same]; exact hri
    · simp only [upd_other _ _ _ hn]; exact h.iters n

end Juno.C15
