import JunoModel.C15.ProofsPeb
/-! Generic simulation of an implementation `M` by the contract `specImpl`: what has to be shown
locally (`Sim`), scans, and the world-level relation `R`. -/
namespace Juno.C15

/-- Local obligations that make `M` simulate `specImpl`. `rb idx od b sb`: batch `b` of `M`
represents contract batch `sb` (created with flag `idx`) while the store is `od`. -/
structure Sim {B I : Type} (M : Impl B I) where
  rb : Bool → Option KV → B → SBatch → Prop
  ri : I → SIter → Prop
  okOp : Op → Bool
  needF5 : Bool
  empty : ∀ i od, rb i od (M.bempty i) (specImpl.bempty i)
  put : ∀ {i od b sb} (k v), rb i od b sb → rb i od (M.bput b k v) (specImpl.bput sb k v)
  del : ∀ {i od b sb} (k), rb i od b sb → rb i od (M.bdel b k) (specImpl.bdel sb k)
  delRange : ∀ {i d b sb} (s e), Sorted d → rb i (some d) b sb →
    rb i (some d) (M.bdelRange d b s e) (specImpl.bdelRange d sb s e)
  get : ∀ {d b sb} (k), Sorted d → rb true (some d) b sb → M.bget true d b k = specImpl.bget true d sb k
  has : ∀ {d b sb} (k), Sorted d → rb true (some d) b sb → M.bhas true d b k = specImpl.bhas true d sb k
  view : ∀ {d b sb}, Sorted d → rb true (some d) b sb → M.bview true d b = specImpl.bview true d sb
  flush : ∀ {i d b sb}, Sorted d → rb i (some d) b sb → M.bflush d b = specImpl.bflush d sb
  /-- (only asked for where `Size()` is inside the boundary of `M`: `okOp (.bsize n)`) -/
  size : ∀ {i od b sb} (n : Nat), okOp (.bsize n) = true → rb i od b sb → noRange sb = true → M.bsize b = sb.size
  rebase : ∀ {i od b sb} (od'), rb i od b sb →
    (needF5 = true → ∀ d', od' = some d' → batchAgrees d' sb = true) → rb i od' b sb
  dget : ∀ d k, M.dget d k = specImpl.dget d k
  dhas : ∀ d k, M.dhas d k = specImpl.dhas d k
  sget : ∀ d k, M.sget d k = specImpl.sget d k
  shas : ∀ d k, M.shas d k = specImpl.shas d k
  mkIter : ∀ d p u, ri (M.imk d p u) (specImpl.imk d p u)
  first : ∀ {mi si}, ri mi si → ri (M.ifirst mi).1 si.first ∧ (M.ifirst mi).2 = si.first.cur.isSome
  next : ∀ {mi si}, ri mi si → ri (M.inext mi).1 si.next ∧ (M.inext mi).2 = si.next.cur.isSome
  prev : ∀ {mi si}, ri mi si → ri (M.iprev mi).1 si.prev ∧ (M.iprev mi).2 = si.prev.cur.isSome
  seek : ∀ {mi si} (t), ri mi si → ri (M.iseek mi t).1 (si.seek t) ∧ (M.iseek mi t).2 = (si.seek t).cur.isSome
  cur : ∀ {mi si}, ri mi si → M.icur mi = si.cur
  reent : ∀ s k k2 v2, okOp (.getw s k k2 v2) = true → M.reentrant = true

section
variable {B I : Type} {M : Impl B I} (S : Sim M)

/-! ### scans -/

theorem scanLoop_sim : ∀ (fuel : Nat) (mi : I) (si : SIter), S.ri mi si →
    scanLoop M fuel mi si.cur.isSome = scanLoop specImpl fuel si si.cur.isSome := by
  intro fuel
  induction fuel with
  | zero => intro mi si _; rfl
  | succ f ih =>
    intro mi si h
    cases hc : si.cur with
    | none => simp [scanLoop]
    | some kv =>
      have hm : M.icur mi = some kv := by rw [S.cur h, hc]
      have hs : specImpl.icur si = some kv := hc
      have hn := S.next h
      simp only [scanLoop, Option.isSome_some, if_true, hm, hs]
      have e2 : specImpl.inext si = (si.next, si.next.cur.isSome) := rfl
      rw [e2, hn.2]
      congr 1
      exact ih _ _ hn.1

include S in
theorem scan_sim (c : KV) (p : Key) (u : Bool) : scan M c p u = scan specImpl c p u := by
  unfold scan
  have hf := S.first (S.mkIter c p u)
  have e2 : specImpl.ifirst (specImpl.imk c p u) =
      ((specImpl.imk c p u).first, (specImpl.imk c p u).first.cur.isSome) := rfl
  rw [e2]
  show scanLoop M (c.length + 1) (M.ifirst (M.imk c p u)).1 (M.ifirst (M.imk c p u)).2 =
    scanLoop specImpl (c.length + 1) (specImpl.imk c p u).first (specImpl.imk c p u).first.cur.isSome
  rw [hf.2]
  exact scanLoop_sim S _ _ _ hf.1

theorem rscanLoop_sim : ∀ (fuel : Nat) (mi : I) (si : SIter), S.ri mi si →
    rscanLoop M fuel mi si.cur.isSome = rscanLoop specImpl fuel si si.cur.isSome := by
  intro fuel
  induction fuel with
  | zero => intro mi si _; rfl
  | succ f ih =>
    intro mi si h
    cases hc : si.cur with
    | none => simp [rscanLoop]
    | some kv =>
      have hm : M.icur mi = some kv := by rw [S.cur h, hc]
      have hs : specImpl.icur si = some kv := hc
      have hn := S.prev h
      simp only [rscanLoop, Option.isSome_some, if_true, hm, hs]
      have e2 : specImpl.iprev si = (si.prev, si.prev.cur.isSome) := rfl
      rw [e2, hn.2]
      congr 1
      exact ih _ _ hn.1

include S in
theorem rscan_sim (c : KV) (p : Key) (u : Bool) (t : Key) : rscan M c p u t = rscan specImpl c p u t := by
  unfold rscan
  have hs := S.seek t (S.mkIter c p u)
  have hp := S.prev hs.1
  have e1 : specImpl.iseek (specImpl.imk c p u) t =
      ((specImpl.imk c p u).seek t, ((specImpl.imk c p u).seek t).cur.isSome) := rfl
  have e2 : specImpl.iprev ((specImpl.imk c p u).seek t) =
      (((specImpl.imk c p u).seek t).prev, ((specImpl.imk c p u).seek t).prev.cur.isSome) := rfl
  rw [e1]
  show rscanLoop M (c.length + 1) (M.iprev (M.iseek (M.imk c p u) t).1).1 (M.iprev (M.iseek (M.imk c p u) t).1).2 =
    rscanLoop specImpl (c.length + 1) (specImpl.iprev ((specImpl.imk c p u).seek t)).1
      (specImpl.iprev ((specImpl.imk c p u).seek t)).2
  rw [e2, hp.2]
  exact rscanLoop_sim S _ _ _ hp.1

/-! ### worlds -/

def RBo (od : Option KV) : Option (B × Bool) → Option (SBatch × Bool) → Prop
  | none, none => True
  | some (mb, i), some (sb, j) => i = j ∧ S.rb j od mb sb
  | _, _ => False

def RIo : Option (Option I) → Option (Option SIter) → Prop
  | none, none => True
  | some none, some none => True
  | some (some mi), some (some si) => S.ri mi si
  | _, _ => False

structure R (wm : World B I) (ws : World SBatch SIter) : Prop where
  db : wm.db = ws.db
  sorted : ∀ d, ws.db = some d → Sorted d
  nb : wm.nb = ws.nb
  ns : wm.ns = ws.ns
  ni : wm.ni = ws.ni
  snaps : wm.snaps = ws.snaps
  batches : ∀ n, RBo S ws.db (wm.batches n) (ws.batches n)
  fresh : ∀ n, ws.nb ≤ n → ws.batches n = none
  iters : ∀ n, RIo S (wm.iters n) (ws.iters n)

theorem R_init : R S (World.init : World B I) (World.init : World SBatch SIter) where
  db := rfl
  sorted := by intro d h; cases h; exact Sorted.nil
  nb := rfl
  ns := rfl
  ni := rfl
  snaps := rfl
  batches := fun _ => trivial
  fresh := fun _ _ => rfl
  iters := fun _ => trivial

end

@[simp] theorem upd_same {α : Type} (f : Nat → α) (i : Nat) (x : α) : upd f i x i = x := by simp [upd]
theorem upd_other {α : Type} (f : Nat → α) (i : Nat) (x : α) {j : Nat} (h : j ≠ i) : upd f i x j = f j := by
  simp [upd, h]

theorem sorted_base {ws : World SBatch SIter} (h : ∀ d, ws.db = some d → Sorted d) :
    Sorted (ws.db.getD []) := by
  cases hd : ws.db with
  | none => exact Sorted.nil
  | some d => exact h d hd

/-- what `f5Free` gives for one live batch -/
theorem f5Free_get {ws : World SBatch SIter} (hfresh : ∀ n, ws.nb ≤ n → ws.batches n = none)
    (h : f5Free ws = true) {d : KV} (hd : ws.db = some d) {n : Nat} {sb : SBatch} {i : Bool}
    (hn : ws.batches n = some (sb, i)) : batchAgrees d sb = true := by
  have hlt : n < ws.nb := by
    by_cases hl : n < ws.nb
    · exact hl
    · have := hfresh n (by omega); rw [this] at hn; cases hn
  unfold f5Free at h
  rw [hd] at h
  have := List.all_eq_true.mp h n (List.mem_range.mpr hlt)
  simp only [hn] at this
  exact this

section
variable {B I : Type} {M : Impl B I} (S : Sim M)

theorem batches_none_iff {wm : World B I} {ws : World SBatch SIter} (h : R S wm ws) (n : Nat) :
    wm.batches n = none ↔ ws.batches n = none := by
  have hb := h.batches n
  cases hm : wm.batches n <;> cases hsb : ws.batches n <;> rw [hm, hsb] at hb <;> simp [RBo] at hb ⊢

theorem batches_some {wm : World B I} {ws : World SBatch SIter} (h : R S wm ws) {n : Nat}
    {sb : SBatch} {j : Bool} (hs : ws.batches n = some (sb, j)) :
    ∃ mb, wm.batches n = some (mb, j) ∧ S.rb j ws.db mb sb := by
  have hb := h.batches n
  rw [hs] at hb
  cases hm : wm.batches n with
  | none => rw [hm] at hb; exact hb.elim
  | some x =>
    obtain ⟨mb, i⟩ := x
    rw [hm] at hb
    exact ⟨mb, by rw [hb.1], hb.2⟩

/-- the store content changes to `od'` (and batch `exc`, if any, is closed); every remaining live
batch is re-based -/
theorem R_commit {wm : World B I} {ws : World SBatch SIter} (h : R S wm ws)
    (od' : Option KV) (hs : ∀ d, od' = some d → Sorted d) (exc : Option Nat)
    (hag : S.needF5 = true → ∀ n sb i d', some n ≠ exc → ws.batches n = some (sb, i) → od' = some d' →
      batchAgrees d' sb = true) :
    R S { wm with db := od', batches := fun n => if some n = exc then none else wm.batches n }
        { ws with db := od', batches := fun n => if some n = exc then none else ws.batches n } where
  db := rfl
  sorted := hs
  nb := h.nb
  ns := h.ns
  ni := h.ni
  snaps := h.snaps
  batches := by
    intro n
    by_cases hn : some n = exc
    · simp only [hn, if_true]; trivial
    · simp only [hn, if_false]
      have hb := h.batches n
      cases hm : wm.batches n with
      | none =>
        cases hsb : ws.batches n with
        | none => trivial
        | some y => rw [hm, hsb] at hb; exact hb.elim
      | some x =>
        cases hsb : ws.batches n with
        | none => rw [hm, hsb] at hb; exact hb.elim
        | some y =>
          obtain ⟨mb, i⟩ := x
          obtain ⟨sb, j⟩ := y
          rw [hm, hsb] at hb
          exact ⟨hb.1, S.rebase od' hb.2 (fun hf d' hd' => hag hf n sb j d' hn hsb hd')⟩
  fresh := by
    intro n hn
    by_cases he : some n = exc
    · simp [he]
    · simp only [he, if_false]; exact h.fresh n hn
  iters := h.iters

theorem R_setbatch {wm : World B I} {ws : World SBatch SIter} (h : R S wm ws) (b : Nat)
    (hlive : ws.batches b ≠ none) (mb : B) (sb : SBatch) (i : Bool)
    (hrb : S.rb i ws.db mb sb) :
    R S { wm with batches := upd wm.batches b (some (mb, i)) }
        { ws with batches := upd ws.batches b (some (sb, i)) } where
  db := h.db
  sorted := h.sorted
  nb := h.nb
  ns := h.ns
  ni := h.ni
  snaps := h.snaps
  batches := by
    intro n
    by_cases hn : n = b
    · subst hn; simp only [upd_same]; exact ⟨rfl, hrb⟩
    · simp only [upd_other _ _ _ hn]; exact h.batches n
  fresh := by
    intro n hn
    have : n ≠ b := by
      intro e; subst e; exact hlive (h.fresh n hn)
    simp only [upd_other _ _ _ this]; exact h.fresh n hn
  iters := h.iters

theorem R_closebatch {wm : World B I} {ws : World SBatch SIter} (h : R S wm ws) (b : Nat) :
    R S { wm with batches := upd wm.batches b none } { ws with batches := upd ws.batches b none } where
  db := h.db
  sorted := h.sorted
  nb := h.nb
  ns := h.ns
  ni := h.ni
  snaps := h.snaps
  batches := by
    intro n
    by_cases hn : n = b
    · subst hn; simp only [upd_same]; trivial
    · simp only [upd_other _ _ _ hn]; exact h.batches n
  fresh := by
    intro n hn
    by_cases he : n = b
    · subst he; simp
    · simp only [upd_other _ _ _ he]; exact h.fresh n hn
  iters := h.iters

theorem R_setiter {wm : World B I} {ws : World SBatch SIter} (h : R S wm ws) (i : Nat)
    (mi : Option I) (si : Option SIter) (hri : RIo S (some mi) (some si)) (org : Nat → Src) :
    R S { wm with iters := upd wm.iters i (some mi) }
        { ws with iters := upd ws.iters i (some si), iorigin := org } where
  db := h.db
  sorted := h.sorted
  nb := h.nb
  ns := h.ns
  ni := h.ni
  snaps := h.snaps
  batches := h.batches
  fresh := h.fresh
  iters := by
    intro n
    by_cases hn : n = i
    · subst hn; simp only [upd_same]; exact hri
    · simp only [upd_other _ _ _ hn]; exact h.iters n

theorem commit_none_eq {α : Type} (f : Nat → Option α) :
    (fun n => if some n = (none : Option Nat) then none else f n) = f := by
  funext n; simp

theorem commit_some_eq {α : Type} (f : Nat → Option α) (b : Nat) :
    (fun n => if some n = some b then none else f n) = upd f b none := by
  funext n
  by_cases h : n = b
  · subst h; simp
  · simp [upd, h]

end

end Juno.C15
