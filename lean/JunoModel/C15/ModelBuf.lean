import JunoModel.C15.Model
/-!
C15 — `db.BufferBatch` (db/bufferbatch.go) as a layer over ANY implementation `M` of the storage
interface: the `updates` map (a nil entry marks a deletion; the whole map is nil after `Write`), reads
that look at `updates` before the wrapped indexed batch, `Flush` (one `Put`/`Delete` on the wrapped batch
per entry), `Write` (= `Flush`, drop the map, `Write` of the wrapped batch), `Close`, and the four methods
that panic. Also `CalculatePrefixSize` of db/pebble*/db.go. Core Lean only (linked into the driver).

A Go `map[string][]byte` is the canonical finite map (sorted association list): `Flush` visits the
entries in key order here and in an unspecified order in Go; the keys are distinct, so every order gives
the same wrapped batch up to the order of writes to DIFFERENT keys (`buffer_flush_equals_log` shows that
the result of writing it does not depend on it).
-/
namespace Juno.C15

/-- `BufferBatch.updates`: `none` as a value is Go's nil slice, the deletion marker -/
abbrev Updates := SMap (Option Val)

/-- a world of `M` plus, per batch handle, the `updates` map of the `BufferBatch` wrapped around that
batch: `none` = the batch is not wrapped, `some none` = `updates == nil` (after `Write`) -/
structure BWorld (B I : Type) where
  w : World B I
  bufs : Nat → Option (Option Updates)

def BWorld.init {B I : Type} : BWorld B I := ⟨World.init, fun _ => none⟩

inductive XOp
  | base (op : Op)
  /-- `db.NewBufferBatch(store.NewIndexedBatch())` -/
  | newBuf
  | bufPut (b : Nat) (k : Key) (v : Val)
  | bufDel (b : Nat) (k : Key)
  | bufGet (b : Nat) (k : Key) (fail : Bool)
  | bufFlush (b : Nat)
  | bufWrite (b : Nat)
  | bufClose (b : Nat)
  /-- `Has`, `NewIterator`, `Size`, `DeleteRange`: `panic("should not be called")` -/
  | bufOther (b : Nat)
  deriving DecidableEq, Repr

def outOk : Out → Bool
  | .r .ok => true
  | _ => false

section
variable {B I : Type} (M : Impl B I)

/-- the loop of `BufferBatch.Flush`: `txn.Delete(key)` for a nil entry, `txn.Put(key, val)` otherwise;
the first error is returned -/
def bufFlushLoop (b : Nat) : List (Key × Option Val) → World B I → World B I × Out
  | [], w => (w, .r .ok)
  | (k, ov) :: rest, w =>
    let r := step M w (match ov with | some v => Op.bput b k v | none => Op.bdel b k)
    if outOk r.2 then bufFlushLoop b rest r.1 else r

def xstep (bw : BWorld B I) : XOp → BWorld B I × Out
  | .base op =>
    let r := step M bw.w op
    ({ bw with w := r.1 }, r.2)
  | .newBuf =>
    let r := step M bw.w (.newBatch true)
    ({ w := r.1, bufs := upd bw.bufs bw.w.nb (some (some [])) }, r.2)
  | .bufPut b k v =>
    match bw.bufs b with
    | none => (bw, .r .badHandle)
    | some none => (bw, .r .panic)   -- assignment to an entry of a nil map
    | some (some u) => ({ bw with bufs := upd bw.bufs b (some (some (u.put k (some v)))) }, .r .ok)
  | .bufDel b k =>
    match bw.bufs b with
    | none => (bw, .r .badHandle)
    | some none => (bw, .r .panic)
    | some (some u) => ({ bw with bufs := upd bw.bufs b (some (some (u.put k none))) }, .r .ok)
  | .bufGet b k fail =>
    match bw.bufs b with
    | none => (bw, .r .badHandle)
    | some ou =>
      match (ou.getD []).get k with
      | some (some v) => (bw, .r (readGet (.val v) fail))
      | some none => (bw, .r .notfound)
      | none =>
        let r := step M bw.w (.get (.batch b) k fail)
        ({ bw with w := r.1 }, r.2)
  | .bufFlush b =>
    match bw.bufs b with
    | none => (bw, .r .badHandle)
    | some ou =>
      let r := bufFlushLoop M b (ou.getD []) bw.w
      ({ bw with w := r.1 }, r.2)
  | .bufWrite b =>
    match bw.bufs b with
    | none => (bw, .r .badHandle)
    | some ou =>
      let r := bufFlushLoop M b (ou.getD []) bw.w
      if outOk r.2 then
        let r2 := step M r.1 (.bwrite b)
        ({ w := r2.1, bufs := upd bw.bufs b (some none) }, r2.2)
      else ({ bw with w := r.1 }, r.2)
  | .bufClose b =>
    match bw.bufs b with
    | none => (bw, .r .badHandle)
    | some _ =>
      let r := step M bw.w (.bclose b)
      ({ bw with w := r.1 }, r.2)
  | .bufOther b =>
    match bw.bufs b with
    | none => (bw, .r .badHandle)
    | some _ => (bw, .r .panic)

def xrun : BWorld B I → List XOp → List Out
  | _, [] => []
  | bw, op :: rest =>
    let r := xstep M bw op
    r.2 :: xrun r.1 rest

/-- `CalculatePrefixSize` (db/pebblev2/db.go, db/pebble/db.go): `for it.First(); it.Valid(); it.Next()`
adding `len(Key) + len(Value)` per entry; returns (count, bytes) -/
def prefixSizeLoop : Nat → I → Nat × Nat → Nat × Nat
  | 0, _, acc => acc
  | fuel + 1, it, acc =>
    match M.icur it with
    | some (k, v) => prefixSizeLoop fuel (M.inext it).1 (acc.1 + 1, acc.2 + (k.length + v.length))
    | none => acc

def prefixSize (content : KV) (p : Key) (u : Bool) : Nat × Nat :=
  prefixSizeLoop M (content.length + 1) (M.ifirst (M.imk content p u)).1 (0, 0)

end

/-! ### the overlay as data (what the theorems of `ProofsBuf` talk about) -/

/-- `Put` / `Delete` on a `BufferBatch` -/
def bufApply (u : Updates) : LogOp → Updates
  | .put k v => u.put k (some v)
  | .del k => u.put k none
  | .delRange _ _ => u   -- (panics in Go; not part of any statement)

/-- the `updates` map after the calls of `log` -/
def bufBuild (log : List LogOp) : Updates := log.foldl bufApply []

/-- what `Flush` issues on the wrapped batch -/
def entryOp (x : Key × Option Val) : LogOp :=
  match x.2 with
  | some v => .put x.1 v
  | none => .del x.1

def overlayOps (u : Updates) : List LogOp := u.map entryOp

/-- `BufferBatch.Get` as a function of the map and of what the wrapped batch answers -/
def bufLookup (u : Updates) (inner : Key → Option Val) (k : Key) : Option Val :=
  match u.get k with
  | some ov => ov
  | none => inner k

end Juno.C15
