import JunoModel.C15.ProofsStack
/-!
The SEQUENTIAL machine for stacks of wrappers and the refinement `sstep specImpl ⊑ astep`.

In `astep` a `BufferBatch` is the LIST of the `Put`/`Delete` calls made on it, in call order: `Get` takes
the last call for the key (else asks the layer underneath at that moment), `Flush` replays the list in
call order on the layer underneath, `Write` = `Flush`, drop the list, `Write` underneath. The batches and
the store at the bottom are the contract's (`step specImpl`).
-/
namespace Juno.C15

structure ALayer where
  kind : LKind
  chain : List Nat
  base : Nat
  /-- the calls made on the buffer, in call order; `none` after `Write` -/
  log : Option (List LogOp)

structure AWorld where
  w : World SBatch SIter
  layers : Nat → Option ALayer
  nl : Nat

def AWorld.init : AWorld := ⟨World.init, fun _ => none, 0⟩

def AWorld.setLog (aw : AWorld) (n : Nat) (l : ALayer) (L : Option (List LogOp)) : AWorld :=
  { aw with layers := upd aw.layers n (some { l with log := L }) }

def achainOp (base : Nat) : List Nat → Call → AWorld → AWorld × Out
  | [], c, aw =>
    let r := step specImpl aw.w (baseOp base c)
    ({ aw with w := r.1 }, r.2)
  | n :: rest, c, aw =>
    match aw.layers n with
    | none => (aw, .r .badHandle)
    | some l =>
      match c with
      | .put k v =>
        match l.log with
        | none => (aw, .r .panic)
        | some L => (aw.setLog n l (some (L ++ [.put k v])), .r .ok)
      | .del k =>
        match l.log with
        | none => (aw, .r .panic)
        | some L => (aw.setLog n l (some (L ++ [.del k])), .r .ok)
      | .get k fail =>
        match lastCall k (l.log.getD []) with
        | some (some v) => (aw, .r (readGet (.val v) fail))
        | some none => (aw, .r .notfound)
        | none => achainOp base rest (.get k fail) aw
      | .write =>
        let r := replayCalls (fun s c' => achainOp base rest c' s) ((l.log.getD []).map callOf) aw
        if outOk r.2 then achainOp base rest .write (r.1.setLog n l none) else r
      | .close => achainOp base rest .close aw
      | .delRange _ _ | .has _ | .scan _ _ | .size => (aw, .r .panic)

def astep (aw : AWorld) : SOp → AWorld × Out
  | .base (.base op) =>
    let r := step specImpl aw.w op
    ({ aw with w := r.1 }, r.2)
  | .base _ => (aw, .r .badOp)   -- (the single wrappers of `xstep` are not part of this machine)
  | .lnew kind under =>
    let made : Option ALayer :=
      match under with
      | .batch b => if b < aw.w.nb then some ⟨kind, [], b, some []⟩ else none
      | .layer m =>
        match aw.layers m with
        | some l => some ⟨kind, (match l.kind with | .buf => m :: l.chain | .sync => l.chain), l.base, some []⟩
        | none => none
    match made with
    | some l => ({ aw with layers := upd aw.layers aw.nl (some l), nl := aw.nl + 1 }, .handle aw.nl)
    | none => ({ aw with nl := aw.nl + 1 }, .r .badHandle)
  | .lcall n c =>
    match aw.layers n with
    | none => (aw, .r .badHandle)
    | some l => achainOp l.base (match l.kind with | .buf => n :: l.chain | .sync => l.chain) c aw
  | .lflush n =>
    match aw.layers n with
    | none => (aw, .r .badHandle)
    | some l =>
      match l.kind with
      | .sync => (aw, .r .badHandle)
      | .buf => replayCalls (fun s c' => achainOp l.base l.chain c' s) ((l.log.getD []).map callOf) aw

def arun : AWorld → List SOp → List Out
  | _, [] => []
  | aw, op :: rest =>
    let r := astep aw op
    r.2 :: arun r.1 rest

/-- the op language of the refinement: ops of the store / batches / snapshots / iterators inside the
documented contract, and every call on a layer; NOT `Size()` of a batch (the real buffer issues one call
per KEY, the sequential machine one per CALL: the byte counters differ, see `stack_size_differs`) and not
the single wrappers of `xstep` -/
def okS (aw : AWorld) : SOp → Bool
  | .base (.base op) => documented aw.w op && eqSim.okOp op
  | .base _ => false
  | .lcall _ .size => false
  | _ => true

def inStackContract : AWorld → List SOp → Bool
  | _, [] => true
  | aw, op :: rest => okS aw op && inStackContract (astep aw op).1 rest

/-! ### the relation -/

def LRel : Option Layer → Option ALayer → Prop
  | none, none => True
  | some l, some a =>
    l.kind = a.kind ∧ l.chain = a.chain ∧ l.base = a.base ∧ l.updates = a.log.map bufBuild ∧
      (∀ L, a.log = some L → pointLog L)
  | _, _ => False

structure RS (sw : SWorld SBatch SIter) (aw : AWorld) : Prop where
  w : R eqSim sw.bw.w aw.w
  nl : sw.nl = aw.nl
  layers : ∀ n, LRel (sw.layers n) (aw.layers n)

theorem RS_init : RS SWorld.init AWorld.init where
  w := R_init eqSim
  nl := rfl
  layers := fun _ => trivial

theorem LRel.getD {l : Layer} {a : ALayer} (h : LRel (some l) (some a)) :
    l.updates.getD [] = bufBuild (a.log.getD []) ∧ pointLog (a.log.getD []) := by
  obtain ⟨_, _, _, hu, hp⟩ := h
  cases hl : a.log with
  | none => rw [hl] at hu; simp [hu]; exact ⟨rfl, fun o ho => by cases ho⟩
  | some L => rw [hl] at hu; simp [hu]; exact hp L hl

/-! ### calls on the batch at the bottom -/

theorem sorted_getD {ws : World SBatch SIter} (h : ∀ d, ws.db = some d → Sorted d) : Sorted (ws.db.getD []) :=
  sorted_base h

/-- reading batch `b` in two related worlds -/
theorem read_batch_eq {w1 w2 : World SBatch SIter} (h : R eqSim w1 w2) (b : Nat) :
    w1.read specImpl (.batch b) = w2.read specImpl (.batch b) := by
  have hsd : Sorted (w2.db.getD []) := sorted_getD h.sorted
  simp only [World.read, h.db, h.nb]
  cases hsb : w2.batches b with
  | none => rw [(batches_none_iff eqSim h b).mpr hsb]
  | some y =>
    obtain ⟨sb, j⟩ := y
    obtain ⟨mb, hm, hrb⟩ := batches_some eqSim h hsb
    rw [hm]
    have e : applyLog (w2.db.getD []) mb.log = applyLog (w2.db.getD []) sb.log := hrb _ hsd
    simp only [specImpl, e]

/-- the calls a chain makes on the batch at the bottom (all but `Size()`) keep the two worlds related
and answer alike — no documented-contract hypothesis is needed here, both sides are the contract -/
theorem base_sim {w1 w2 : World SBatch SIter} (h : R eqSim w1 w2) (b : Nat) (c : Call) (hc : c ≠ .size) :
    (step specImpl w1 (baseOp b c)).2 = (step specImpl w2 (baseOp b c)).2 ∧
    R eqSim (step specImpl w1 (baseOp b c)).1 (step specImpl w2 (baseOp b c)).1 := by
  cases c with
  | size => exact absurd rfl hc
  | put k v => exact step_sim eqSim h (.bput b k v) rfl rfl (by intro hn; cases hn)
  | del k => exact step_sim eqSim h (.bdel b k) rfl rfl (by intro hn; cases hn)
  | get k fail =>
    simp only [baseOp, step, read_batch_eq h b]
    cases w2.read specImpl (.batch b) with
    | inl e => exact ⟨by first | rfl | trivial, h⟩
    | inr x => exact ⟨by first | rfl | trivial, h⟩
  | has k =>
    simp only [baseOp, step, read_batch_eq h b]
    cases w2.read specImpl (.batch b) with
    | inl e => exact ⟨by first | rfl | trivial, h⟩
    | inr x => exact ⟨by first | rfl | trivial, h⟩
  | scan p u =>
    simp only [baseOp, step, read_batch_eq h b]
    cases w2.read specImpl (.batch b) with
    | inl e => exact ⟨by first | rfl | trivial, h⟩
    | inr x =>
      obtain ⟨_, _, v⟩ := x
      cases v with
      | inl e => exact ⟨by first | rfl | trivial, h⟩
      | inr c => exact ⟨by first | rfl | trivial, h⟩
  | delRange s e =>
    cases hsb : w2.batches b with
    | none =>
      simp only [baseOp, step, batchGone, hsb, (batches_none_iff eqSim h b).mpr hsb, h.nb]
      exact ⟨by first | rfl | trivial, h⟩
    | some y =>
      obtain ⟨sb, j⟩ := y
      obtain ⟨mb, hm, hrb⟩ := batches_some eqSim h hsb
      simp only [baseOp, step, hm, hsb]
      refine ⟨by first | rfl | trivial, ?_⟩
      apply R_setbatch eqSim h b (by rw [hsb]; simp)
      exact logEquiv.append hrb (logEquiv.rfl' _)
  | write =>
    cases hsb : w2.batches b with
    | none =>
      simp only [baseOp, step, batchGone, hsb, (batches_none_iff eqSim h b).mpr hsb, h.nb]
      exact ⟨by first | rfl | trivial, h⟩
    | some y =>
      obtain ⟨sb, j⟩ := y
      obtain ⟨mb, hm, hrb⟩ := batches_some eqSim h hsb
      cases hd : w2.db with
      | none => simp only [baseOp, step, hm, hsb, h.db, hd]; exact ⟨by first | rfl | trivial, h⟩
      | some d =>
        have hsd := h.sorted d hd
        have e : applyLog d mb.log = applyLog d sb.log := hrb d hsd
        simp only [baseOp, step, hm, hsb, h.db, hd]
        refine ⟨by first | rfl | trivial, ?_⟩
        have := R_commit eqSim h (some (specImpl.bflush d sb))
          (by intro d' e'; cases e'; exact sorted_applyLog hsd sb.log) (some b) (by intro hn; cases hn)
        rw [commit_some_eq, commit_some_eq] at this
        have e2 : specImpl.bflush d mb = specImpl.bflush d sb := e
        rw [e2]
        exact this
  | close =>
    cases hsb : w2.batches b with
    | none =>
      simp only [baseOp, step, batchGone, hsb, (batches_none_iff eqSim h b).mpr hsb, h.nb]
      exact ⟨by first | rfl | trivial, h⟩
    | some y =>
      obtain ⟨sb, j⟩ := y
      obtain ⟨mb, hm, hrb⟩ := batches_some eqSim h hsb
      simp only [baseOp, step, hm, hsb]
      exact ⟨by first | rfl | trivial, R_closebatch eqSim h b⟩

/-! ### replaying calls on the batch at the bottom -/

def baseReplay (b : Nat) : List Call → World SBatch SIter → World SBatch SIter × Out :=
  replayCalls (fun w c => step specImpl w (baseOp b c))

theorem baseReplay_nil (b : Nat) (w : World SBatch SIter) : baseReplay b [] w = (w, .r .ok) := rfl

theorem baseReplay_cons (b : Nat) (c : Call) (cs : List Call) (w : World SBatch SIter) :
    baseReplay b (c :: cs) w =
      (if outOk (step specImpl w (baseOp b c)).2 then baseReplay b cs (step specImpl w (baseOp b c)).1
       else step specImpl w (baseOp b c)) := rfl

/-- on a live batch every `Put`/`Delete` succeeds and the calls are appended to its log -/
theorem baseReplay_live (b : Nat) (idx : Bool) : ∀ (ops : List LogOp), pointLog ops →
    ∀ (w : World SBatch SIter) (sb : SBatch), w.batches b = some (sb, idx) →
    ∃ sb', baseReplay b (ops.map callOf) w = ({ w with batches := upd w.batches b (some (sb', idx)) }, .r .ok) ∧
      sb'.log = sb.log ++ ops := by
  intro ops
  induction ops with
  | nil =>
    intro _ w sb h
    refine ⟨sb, ?_, by simp⟩
    simp only [List.map_nil, baseReplay_nil]
    congr 1
    cases w
    simp only [World.mk.injEq, true_and] at *
    refine ⟨?_, trivial⟩
    funext n
    by_cases e : n = b
    · subst e; simp [h]
    · simp [upd, e]
  | cons o rest ih =>
    intro hp w sb h
    have hp' : pointLog rest := fun x hx => hp x (List.mem_cons_of_mem _ hx)
    have ho := hp o List.mem_cons_self
    cases o with
    | delRange s e => simp [LogOp.isRange] at ho
    | put k v =>
      have hst := spec_bput_live h k v
      simp only [List.map_cons, callOf, baseReplay_cons, baseOp, hst, outOk, if_true]
      obtain ⟨sb', h1, h2⟩ := ih hp' { w with batches := upd w.batches b (some (specImpl.bput sb k v, idx)) }
        (specImpl.bput sb k v) (by simp)
      refine ⟨sb', ?_, ?_⟩
      · rw [h1]
        congr 1
        simp only [World.mk.injEq, true_and]
        refine ⟨?_, trivial⟩
        funext n
        by_cases e : n = b
        · subst e; simp
        · simp [upd, e]
      · rw [h2]; simp [specImpl]
    | del k =>
      have hst := spec_bdel_live h k
      simp only [List.map_cons, callOf, baseReplay_cons, baseOp, hst, outOk, if_true]
      obtain ⟨sb', h1, h2⟩ := ih hp' { w with batches := upd w.batches b (some (specImpl.bdel sb k, idx)) }
        (specImpl.bdel sb k) (by simp)
      refine ⟨sb', ?_, ?_⟩
      · rw [h1]
        congr 1
        simp only [World.mk.injEq, true_and]
        refine ⟨?_, trivial⟩
        funext n
        by_cases e : n = b
        · subst e; simp
        · simp [upd, e]
      · rw [h2]; simp [specImpl]

theorem outOk_batchGone (w : World SBatch SIter) (b : Nat) : outOk (batchGone w b) = false := by
  unfold batchGone
  split <;> rfl

/-- on a batch that is gone the first call fails and ends the loop -/
theorem baseReplay_gone (b : Nat) (w : World SBatch SIter) (h : w.batches b = none) :
    ∀ (ops : List LogOp), pointLog ops → ops ≠ [] → baseReplay b (ops.map callOf) w = (w, batchGone w b) := by
  intro ops hp hne
  cases ops with
  | nil => exact absurd rfl hne
  | cons o rest =>
    have ho := hp o List.mem_cons_self
    cases o with
    | delRange s e => simp [LogOp.isRange] at ho
    | put k v =>
      have hst : step specImpl w (.bput b k v) = (w, batchGone w b) := by simp [step, h]
      simp only [List.map_cons, callOf, baseReplay_cons, baseOp, hst, outOk_batchGone]
      simp
    | del k =>
      have hst : step specImpl w (.bdel b k) = (w, batchGone w b) := by simp [step, h]
      simp only [List.map_cons, callOf, baseReplay_cons, baseOp, hst, outOk_batchGone]
      simp

theorem replayCalls_cons {σ : Type} (f : σ → Call → σ × Out) (c : Call) (cs : List Call) (s : σ) :
    replayCalls f (c :: cs) s = (if outOk (f s c).2 then replayCalls f cs (f s c).1 else f s c) := rfl

theorem replay_lift_s (b : Nat) : ∀ (cs : List Call) (sw : SWorld SBatch SIter),
    replayCalls (fun s c => chainOp specImpl b [] c s) cs sw =
      ({ sw with bw := { sw.bw with w := (baseReplay b cs sw.bw.w).1 } }, (baseReplay b cs sw.bw.w).2) := by
  intro cs
  induction cs with
  | nil => intro sw; rfl
  | cons c rest ih =>
    intro sw
    have hc : chainOp specImpl b [] c sw =
        ({ sw with bw := { sw.bw with w := (step specImpl sw.bw.w (baseOp b c)).1 } },
          (step specImpl sw.bw.w (baseOp b c)).2) := rfl
    rw [replayCalls_cons, baseReplay_cons]
    simp only [hc]
    by_cases hk : outOk (step specImpl sw.bw.w (baseOp b c)).2 = true
    · simp only [hk, if_true]
      rw [ih]
    · simp only [hk]
      rfl

theorem replay_lift_a (b : Nat) : ∀ (cs : List Call) (aw : AWorld),
    replayCalls (fun s c => achainOp b [] c s) cs aw =
      ({ aw with w := (baseReplay b cs aw.w).1 }, (baseReplay b cs aw.w).2) := by
  intro cs
  induction cs with
  | nil => intro aw; rfl
  | cons c rest ih =>
    intro aw
    have hc : achainOp b [] c aw =
        ({ aw with w := (step specImpl aw.w (baseOp b c)).1 }, (step specImpl aw.w (baseOp b c)).2) := rfl
    rw [replayCalls_cons, baseReplay_cons]
    simp only [hc]
    by_cases hk : outOk (step specImpl aw.w (baseOp b c)).2 = true
    · simp only [hk, if_true]
      rw [ih]
    · simp only [hk]
      rfl

/-! ### replaying calls on a buffer -/

theorem Layer.eta_updates (lm : Layer) (um : Option Updates) (h : lm.updates = um) : { lm with updates := um } = lm := by
  cases lm; simp only at h; subst h; rfl

theorem ALayer.eta_log (am : ALayer) (L : Option (List LogOp)) (h : am.log = L) : { am with log := L } = am := by
  cases am; simp only at h; subst h; rfl

/-- replaying `Put`/`Delete` calls on a live buffer `m`: every call succeeds and lands in its map -/
theorem replay_buf_s (base m : Nat) (rest' : List Nat) : ∀ (ops : List LogOp), pointLog ops →
    ∀ (sw : SWorld SBatch SIter) (lm : Layer) (um : Updates), sw.layers m = some lm → lm.updates = some um →
    ∃ sw', replayCalls (fun s c => chainOp specImpl base (m :: rest') c s) (ops.map callOf) sw = (sw', .r .ok) ∧
      sw'.bw = sw.bw ∧ sw'.nl = sw.nl ∧
      sw'.layers m = some { lm with updates := some (ops.foldl bufApply um) } ∧
      ∀ n, n ≠ m → sw'.layers n = sw.layers n := by
  intro ops
  induction ops with
  | nil =>
    intro _ sw lm um h1 h2
    exact ⟨sw, rfl, rfl, rfl, by rw [h1, List.foldl_nil, Layer.eta_updates lm _ h2], fun _ _ => rfl⟩
  | cons o rest ih =>
    intro hp sw lm um h1 h2
    have hp' : pointLog rest := fun x hx => hp x (List.mem_cons_of_mem _ hx)
    have ho := hp o List.mem_cons_self
    cases o with
    | delRange s e => simp [LogOp.isRange] at ho
    | put k v =>
      have hc : chainOp specImpl base (m :: rest') (.put k v) sw =
          (sw.setUpdates m lm (some (um.put k (some v))), .r .ok) := by
        simp only [chainOp, h1, h2]
      obtain ⟨sw', e1, e2, e3, e4, e5⟩ := ih hp' (sw.setUpdates m lm (some (um.put k (some v))))
        { lm with updates := some (um.put k (some v)) } (um.put k (some v))
        (by simp [SWorld.setUpdates]) rfl
      refine ⟨sw', ?_, ?_, ?_, ?_, ?_⟩
      · rw [List.map_cons, replayCalls_cons]
        simp only [callOf, hc, outOk, if_true]
        exact e1
      · rw [e2]; rfl
      · rw [e3]; rfl
      · rw [e4]; rfl
      · intro n hn; rw [e5 n hn]; simp [SWorld.setUpdates, upd, hn]
    | del k =>
      have hc : chainOp specImpl base (m :: rest') (.del k) sw =
          (sw.setUpdates m lm (some (um.put k none)), .r .ok) := by
        simp only [chainOp, h1, h2]
      obtain ⟨sw', e1, e2, e3, e4, e5⟩ := ih hp' (sw.setUpdates m lm (some (um.put k none)))
        { lm with updates := some (um.put k none) } (um.put k none)
        (by simp [SWorld.setUpdates]) rfl
      refine ⟨sw', ?_, ?_, ?_, ?_, ?_⟩
      · rw [List.map_cons, replayCalls_cons]
        simp only [callOf, hc, outOk, if_true]
        exact e1
      · rw [e2]; rfl
      · rw [e3]; rfl
      · rw [e4]; rfl
      · intro n hn; rw [e5 n hn]; simp [SWorld.setUpdates, upd, hn]

theorem replay_buf_a (base m : Nat) (rest' : List Nat) : ∀ (ops : List LogOp), pointLog ops →
    ∀ (aw : AWorld) (am : ALayer) (Lm : List LogOp), aw.layers m = some am → am.log = some Lm →
    ∃ aw', replayCalls (fun s c => achainOp base (m :: rest') c s) (ops.map callOf) aw = (aw', .r .ok) ∧
      aw'.w = aw.w ∧ aw'.nl = aw.nl ∧
      aw'.layers m = some { am with log := some (Lm ++ ops) } ∧
      ∀ n, n ≠ m → aw'.layers n = aw.layers n := by
  intro ops
  induction ops with
  | nil =>
    intro _ aw am Lm h1 h2
    exact ⟨aw, rfl, rfl, rfl, by rw [h1, List.append_nil, ALayer.eta_log am _ h2], fun _ _ => rfl⟩
  | cons o rest ih =>
    intro hp aw am Lm h1 h2
    have hp' : pointLog rest := fun x hx => hp x (List.mem_cons_of_mem _ hx)
    have ho := hp o List.mem_cons_self
    cases o with
    | delRange s e => simp [LogOp.isRange] at ho
    | put k v =>
      have hc : achainOp base (m :: rest') (.put k v) aw =
          (aw.setLog m am (some (Lm ++ [.put k v])), .r .ok) := by
        simp only [achainOp, h1, h2]
      obtain ⟨aw', e1, e2, e3, e4, e5⟩ := ih hp' (aw.setLog m am (some (Lm ++ [.put k v])))
        { am with log := some (Lm ++ [.put k v]) } (Lm ++ [.put k v])
        (by simp [AWorld.setLog]) rfl
      refine ⟨aw', ?_, ?_, ?_, ?_, ?_⟩
      · rw [List.map_cons, replayCalls_cons]
        simp only [callOf, hc, outOk, if_true]
        exact e1
      · rw [e2]; rfl
      · rw [e3]; rfl
      · rw [e4]; simp
      · intro n hn; rw [e5 n hn]; simp [AWorld.setLog, upd, hn]
    | del k =>
      have hc : achainOp base (m :: rest') (.del k) aw =
          (aw.setLog m am (some (Lm ++ [.del k])), .r .ok) := by
        simp only [achainOp, h1, h2]
      obtain ⟨aw', e1, e2, e3, e4, e5⟩ := ih hp' (aw.setLog m am (some (Lm ++ [.del k])))
        { am with log := some (Lm ++ [.del k]) } (Lm ++ [.del k])
        (by simp [AWorld.setLog]) rfl
      refine ⟨aw', ?_, ?_, ?_, ?_, ?_⟩
      · rw [List.map_cons, replayCalls_cons]
        simp only [callOf, hc, outOk, if_true]
        exact e1
      · rw [e2]; rfl
      · rw [e3]; rfl
      · rw [e4]; simp
      · intro n hn; rw [e5 n hn]; simp [AWorld.setLog, upd, hn]

/-- a buffer whose map is nil (after `Write`): the first `Put`/`Delete` panics -/
theorem replay_dead_s (base m : Nat) (rest' : List Nat) (ops : List LogOp) (hp : pointLog ops) (hne : ops ≠ [])
    (sw : SWorld SBatch SIter) (lm : Layer) (h1 : sw.layers m = some lm) (h2 : lm.updates = none) :
    replayCalls (fun s c => chainOp specImpl base (m :: rest') c s) (ops.map callOf) sw = (sw, .r .panic) := by
  cases ops with
  | nil => exact absurd rfl hne
  | cons o rest =>
    have ho := hp o List.mem_cons_self
    cases o with
    | delRange s e => simp [LogOp.isRange] at ho
    | put k v =>
      have hc : chainOp specImpl base (m :: rest') (.put k v) sw = (sw, .r .panic) := by simp only [chainOp, h1, h2]
      rw [List.map_cons, replayCalls_cons]; simp only [callOf, hc, outOk]; simp
    | del k =>
      have hc : chainOp specImpl base (m :: rest') (.del k) sw = (sw, .r .panic) := by simp only [chainOp, h1, h2]
      rw [List.map_cons, replayCalls_cons]; simp only [callOf, hc, outOk]; simp

theorem replay_dead_a (base m : Nat) (rest' : List Nat) (ops : List LogOp) (hp : pointLog ops) (hne : ops ≠ [])
    (aw : AWorld) (am : ALayer) (h1 : aw.layers m = some am) (h2 : am.log = none) :
    replayCalls (fun s c => achainOp base (m :: rest') c s) (ops.map callOf) aw = (aw, .r .panic) := by
  cases ops with
  | nil => exact absurd rfl hne
  | cons o rest =>
    have ho := hp o List.mem_cons_self
    cases o with
    | delRange s e => simp [LogOp.isRange] at ho
    | put k v =>
      have hc : achainOp base (m :: rest') (.put k v) aw = (aw, .r .panic) := by simp only [achainOp, h1, h2]
      rw [List.map_cons, replayCalls_cons]; simp only [callOf, hc, outOk]; simp
    | del k =>
      have hc : achainOp base (m :: rest') (.del k) aw = (aw, .r .panic) := by simp only [achainOp, h1, h2]
      rw [List.map_cons, replayCalls_cons]; simp only [callOf, hc, outOk]; simp

theorem replay_missing_s (base m : Nat) (rest' : List Nat) (cs : List Call) (hne : cs ≠ [])
    (sw : SWorld SBatch SIter) (h1 : sw.layers m = none) :
    replayCalls (fun s c => chainOp specImpl base (m :: rest') c s) cs sw = (sw, .r .badHandle) := by
  cases cs with
  | nil => exact absurd rfl hne
  | cons c rest =>
    have hc : chainOp specImpl base (m :: rest') c sw = (sw, .r .badHandle) := by simp only [chainOp, h1]
    rw [replayCalls_cons]; simp only [hc, outOk]; simp

theorem replay_missing_a (base m : Nat) (rest' : List Nat) (cs : List Call) (hne : cs ≠ [])
    (aw : AWorld) (h1 : aw.layers m = none) :
    replayCalls (fun s c => achainOp base (m :: rest') c s) cs aw = (aw, .r .badHandle) := by
  cases cs with
  | nil => exact absurd rfl hne
  | cons c rest =>
    have hc : achainOp base (m :: rest') c aw = (aw, .r .badHandle) := by simp only [achainOp, h1]
    rw [replayCalls_cons]; simp only [hc, outOk]; simp

/-! ### `Flush`: one call per map entry in key order against the call list in call order -/

theorem overlayOps_ne_nil {L : List LogOp} (hp : pointLog L) (hne : L ≠ []) : overlayOps (bufBuild L) ≠ [] := by
  intro h
  apply hne
  apply (bufBuild_eq_nil hp).mp
  cases hb : bufBuild L with
  | nil => rfl
  | cons x r => rw [hb] at h; simp [overlayOps] at h

theorem flush_sim (base : Nat) (rest : List Nat) (L : List LogOp) (hL : pointLog L)
    {sw : SWorld SBatch SIter} {aw : AWorld} (h : RS sw aw) :
    (replayCalls (fun s c => chainOp specImpl base rest c s) (flushCalls (bufBuild L)) sw).2 =
      (replayCalls (fun s c => achainOp base rest c s) (L.map callOf) aw).2 ∧
    RS (replayCalls (fun s c => chainOp specImpl base rest c s) (flushCalls (bufBuild L)) sw).1
       (replayCalls (fun s c => achainOp base rest c s) (L.map callOf) aw).1 := by
  have hO : pointLog (overlayOps (bufBuild L)) := overlayOps_point _
  by_cases hne : L = []
  · subst hne
    exact ⟨rfl, h⟩
  have hne' := overlayOps_ne_nil hL hne
  unfold flushCalls
  cases rest with
  | nil =>
    rw [replay_lift_s, replay_lift_a]
    cases hb : aw.w.batches base with
    | none =>
      have hb1 := (batches_none_iff eqSim h.w base).mpr hb
      rw [baseReplay_gone base _ hb1 _ hO hne', baseReplay_gone base _ hb _ hL hne]
      refine ⟨?_, ⟨h.w, h.nl, h.layers⟩⟩
      simp only [batchGone, h.w.nb]
    | some y =>
      obtain ⟨sb, idx⟩ := y
      obtain ⟨mb, hm, hrb⟩ := batches_some eqSim h.w hb
      obtain ⟨mb', e1, l1⟩ := baseReplay_live base idx _ hO sw.bw.w mb hm
      obtain ⟨sb', e2, l2⟩ := baseReplay_live base idx _ hL aw.w sb hb
      rw [e1, e2]
      refine ⟨rfl, ⟨?_, h.nl, h.layers⟩⟩
      apply R_setbatch eqSim h.w base (by rw [hb]; simp)
      show logEquiv mb'.log sb'.log
      rw [l1, l2]
      exact logEquiv.append hrb (overlay_logEquiv L hL)
  | cons m rest' =>
    have hl := h.layers m
    cases hs : sw.layers m with
    | none =>
      cases ha : aw.layers m with
      | some am => rw [hs, ha] at hl; exact hl.elim
      | none =>
        rw [replay_missing_s base m rest' _ (by simpa using hne') sw hs,
          replay_missing_a base m rest' _ (by simpa using hne) aw ha]
        exact ⟨rfl, h⟩
    | some lm =>
      cases ha : aw.layers m with
      | none => rw [hs, ha] at hl; exact hl.elim
      | some am =>
        rw [hs, ha] at hl
        obtain ⟨hk, hch, hbs, hu, hpl⟩ := hl
        cases hlog : am.log with
        | none =>
          rw [hlog] at hu
          rw [replay_dead_s base m rest' _ hO hne' sw lm hs hu, replay_dead_a base m rest' _ hL hne aw am ha hlog]
          exact ⟨rfl, h⟩
        | some Lm =>
          rw [hlog] at hu
          obtain ⟨sw', e1, e2, e3, e4, e5⟩ := replay_buf_s base m rest' _ hO sw lm (bufBuild Lm) hs hu
          obtain ⟨aw', f1, f2, f3, f4, f5⟩ := replay_buf_a base m rest' _ hL aw am Lm ha hlog
          rw [e1, f1]
          refine ⟨rfl, ⟨by rw [e2, f2]; exact h.w, by rw [e3, f3]; exact h.nl, ?_⟩⟩
          intro n
          by_cases hn : n = m
          · subst hn
            rw [e4, f4]
            refine ⟨hk, hch, hbs, ?_, ?_⟩
            · simp only [Option.map_some, flush_into_map]
            · intro L' hL'
              simp only [Option.some.injEq] at hL'
              subst hL'
              intro o ho
              rcases List.mem_append.mp ho with h1 | h1
              · exact hpl Lm hlog o h1
              · exact hL o h1
          · rw [e5 n hn, f5 n hn]; exact h.layers n

/-! ### a call entering a chain -/

theorem RS_set {sw : SWorld SBatch SIter} {aw : AWorld} (h : RS sw aw) (n : Nat) (l : Layer) (a : ALayer)
    (u : Option Updates) (Lo : Option (List LogOp))
    (hrel : LRel (some { l with updates := u }) (some { a with log := Lo })) :
    RS (sw.setUpdates n l u) (aw.setLog n a Lo) where
  w := h.w
  nl := h.nl
  layers := by
    intro n'
    by_cases e : n' = n
    · subst e; simp only [SWorld.setUpdates, AWorld.setLog, upd_same]; exact hrel
    · simp only [SWorld.setUpdates, AWorld.setLog, upd_other _ _ _ e]; exact h.layers n'

theorem chainOp_sim (base : Nat) : ∀ (chain : List Nat) (c : Call), c ≠ .size →
    ∀ {sw : SWorld SBatch SIter} {aw : AWorld}, RS sw aw →
    (chainOp specImpl base chain c sw).2 = (achainOp base chain c aw).2 ∧
    RS (chainOp specImpl base chain c sw).1 (achainOp base chain c aw).1 := by
  intro chain
  induction chain with
  | nil =>
    intro c hc sw aw h
    have := base_sim h.w base c hc
    exact ⟨this.1, ⟨this.2, h.nl, h.layers⟩⟩
  | cons n rest ih =>
    intro c hc sw aw h
    have hl := h.layers n
    cases hs : sw.layers n with
    | none =>
      cases ha : aw.layers n with
      | some a => rw [hs, ha] at hl; exact hl.elim
      | none => simp only [chainOp, achainOp, hs, ha]; exact ⟨by first | rfl | trivial, h⟩
    | some l =>
      cases ha : aw.layers n with
      | none => rw [hs, ha] at hl; exact hl.elim
      | some a =>
        rw [hs, ha] at hl
        have hgd := LRel.getD hl
        obtain ⟨hk, hch, hbs, hu, hpl⟩ := hl
        cases c with
        | size => exact absurd rfl hc
        | put k v =>
          cases hlog : a.log with
          | none =>
            rw [hlog] at hu
            simp only [chainOp, achainOp, hs, ha, hu, hlog]; exact ⟨by first | rfl | trivial, h⟩
          | some L =>
            rw [hlog] at hu
            simp only [Option.map_some] at hu
            simp only [chainOp, achainOp, hs, ha, hu, hlog]
            refine ⟨by first | rfl | trivial, RS_set h n l a _ _ ⟨hk, hch, hbs, ?_, ?_⟩⟩
            · simp only [Option.map_some, bufBuild_snoc, bufApply]
            · intro L' hL'
              simp only [Option.some.injEq] at hL'
              subst hL'
              exact pointLog_snoc (hpl L hlog) rfl
        | del k =>
          cases hlog : a.log with
          | none =>
            rw [hlog] at hu
            simp only [chainOp, achainOp, hs, ha, hu, hlog]; exact ⟨by first | rfl | trivial, h⟩
          | some L =>
            rw [hlog] at hu
            simp only [Option.map_some] at hu
            simp only [chainOp, achainOp, hs, ha, hu, hlog]
            refine ⟨by first | rfl | trivial, RS_set h n l a _ _ ⟨hk, hch, hbs, ?_, ?_⟩⟩
            · simp only [Option.map_some, bufBuild_snoc, bufApply]
            · intro L' hL'
              simp only [Option.some.injEq] at hL'
              subst hL'
              exact pointLog_snoc (hpl L hlog) rfl
        | get k fail =>
          simp only [chainOp, achainOp, hs, ha, hgd.1, bufBuild_get]
          cases lastCall k (a.log.getD []) with
          | none => exact ih (.get k fail) (by intro e; cases e) h
          | some r =>
            cases r with
            | none => exact ⟨by first | rfl | trivial, h⟩
            | some v => exact ⟨by first | rfl | trivial, h⟩
        | write =>
          have hf := flush_sim base rest (a.log.getD []) hgd.2 h
          simp only [chainOp, achainOp, hs, ha, hgd.1]
          rw [hf.1]
          by_cases hok : outOk (replayCalls (fun s c' => achainOp base rest c' s) ((a.log.getD []).map callOf) aw).2 = true
          · simp only [hok, if_true]
            apply ih .write (by intro e; cases e)
            exact RS_set hf.2 n l a none none ⟨hk, hch, hbs, rfl, by intro L' hL'; cases hL'⟩
          · simp only [hok]
            exact ⟨hf.1, hf.2⟩
        | close =>
          simp only [chainOp, achainOp, hs, ha]
          exact ih .close (by intro e; cases e) h
        | delRange s e => simp only [chainOp, achainOp, hs, ha]; exact ⟨by first | rfl | trivial, h⟩
        | has k => simp only [chainOp, achainOp, hs, ha]; exact ⟨by first | rfl | trivial, h⟩
        | scan p u => simp only [chainOp, achainOp, hs, ha]; exact ⟨by first | rfl | trivial, h⟩

/-! ### one step, whole sequences -/

theorem sstep_sim {sw : SWorld SBatch SIter} {aw : AWorld} (h : RS sw aw) (op : SOp) (hok : okS aw op = true) :
    (sstep specImpl sw op).2 = (astep aw op).2 ∧ RS (sstep specImpl sw op).1 (astep aw op).1 := by
  cases op with
  | base x =>
    cases x with
    | base o =>
      simp only [okS, Bool.and_eq_true] at hok
      have := step_sim eqSim h.w o hok.1 hok.2 (by intro hn; cases hn)
      simp only [sstep, astep, xstep]
      exact ⟨this.1, ⟨this.2, h.nl, h.layers⟩⟩
    | newBuf => simp [okS] at hok
    | bufPut b k v => simp [okS] at hok
    | bufDel b k => simp [okS] at hok
    | bufGet b k f => simp [okS] at hok
    | bufFlush b => simp [okS] at hok
    | bufWrite b => simp [okS] at hok
    | bufClose b => simp [okS] at hok
    | bufOther b => simp [okS] at hok
  | lnew kind under =>
    clear hok
    have fin : ∀ (m1 : Option Layer) (m2 : Option ALayer), LRel m1 m2 →
        ((match m1 with
          | some l => (({ sw with layers := upd sw.layers sw.nl (some l), nl := sw.nl + 1 } : SWorld SBatch SIter), Out.handle sw.nl)
          | none => ({ sw with nl := sw.nl + 1 }, .r .badHandle)).2 =
         (match m2 with
          | some l => (({ aw with layers := upd aw.layers aw.nl (some l), nl := aw.nl + 1 } : AWorld), Out.handle aw.nl)
          | none => ({ aw with nl := aw.nl + 1 }, .r .badHandle)).2) ∧
        RS (match m1 with
          | some l => (({ sw with layers := upd sw.layers sw.nl (some l), nl := sw.nl + 1 } : SWorld SBatch SIter), Out.handle sw.nl)
          | none => ({ sw with nl := sw.nl + 1 }, .r .badHandle)).1
         (match m2 with
          | some l => (({ aw with layers := upd aw.layers aw.nl (some l), nl := aw.nl + 1 } : AWorld), Out.handle aw.nl)
          | none => ({ aw with nl := aw.nl + 1 }, .r .badHandle)).1 := by
      intro m1 m2 hmade
      cases m1 with
      | none =>
        cases m2 with
        | some a => exact hmade.elim
        | none => exact ⟨rfl, ⟨h.w, by simp [h.nl], h.layers⟩⟩
      | some l =>
        cases m2 with
        | none => exact hmade.elim
        | some a =>
          refine ⟨by simp [h.nl], ⟨h.w, by simp [h.nl], ?_⟩⟩
          intro n
          simp only [h.nl]
          by_cases e : n = aw.nl
          · subst e; simp only [upd_same]; exact hmade
          · simp only [upd_other _ _ _ e]; exact h.layers n
    cases under with
    | batch b =>
      simp only [sstep, astep]
      apply fin
      simp only [h.w.nb]
      by_cases hb : b < aw.w.nb
      · simp only [hb, if_true]
        exact ⟨rfl, rfl, rfl, rfl, by intro L hL; cases hL; intro o ho; cases ho⟩
      · simp only [hb, if_false]; trivial
    | layer m =>
      simp only [sstep, astep]
      apply fin
      have hl := h.layers m
      cases hs : sw.layers m with
      | none =>
        cases ha : aw.layers m with
        | some a => rw [hs, ha] at hl; exact hl.elim
        | none => trivial
      | some l =>
        cases ha : aw.layers m with
        | none => rw [hs, ha] at hl; exact hl.elim
        | some a =>
          rw [hs, ha] at hl
          obtain ⟨hk, hch, hbs, _, _⟩ := hl
          exact ⟨rfl, by rw [hk, hch]; rfl, hbs, rfl, by intro L hL; cases hL; intro o ho; cases ho⟩
  | lcall n c =>
    have hc : c ≠ .size := by
      intro e; subst e; simp [okS] at hok
    have hl := h.layers n
    cases hs : sw.layers n with
    | none =>
      cases ha : aw.layers n with
      | some a => rw [hs, ha] at hl; exact hl.elim
      | none => simp only [sstep, astep, hs, ha]; exact ⟨by first | rfl | trivial, h⟩
    | some l =>
      cases ha : aw.layers n with
      | none => rw [hs, ha] at hl; exact hl.elim
      | some a =>
        rw [hs, ha] at hl
        obtain ⟨hk, hch, hbs, _, _⟩ := hl
        simp only [sstep, astep, hs, ha, hk, hch, hbs]
        exact chainOp_sim a.base _ c hc h
  | lflush n =>
    have hl := h.layers n
    cases hs : sw.layers n with
    | none =>
      cases ha : aw.layers n with
      | some a => rw [hs, ha] at hl; exact hl.elim
      | none => simp only [sstep, astep, hs, ha]; exact ⟨by first | rfl | trivial, h⟩
    | some l =>
      cases ha : aw.layers n with
      | none => rw [hs, ha] at hl; exact hl.elim
      | some a =>
        rw [hs, ha] at hl
        have hgd := LRel.getD hl
        obtain ⟨hk, hch, hbs, _, _⟩ := hl
        simp only [sstep, astep, hs, ha, hk, hch, hbs, hgd.1]
        cases a.kind with
        | sync => exact ⟨by first | rfl | trivial, h⟩
        | buf => exact flush_sim a.base a.chain (a.log.getD []) hgd.2 h

theorem srun_sim : ∀ (ops : List SOp) (sw : SWorld SBatch SIter) (aw : AWorld), RS sw aw →
    inStackContract aw ops = true → srun specImpl sw ops = arun aw ops := by
  intro ops
  induction ops with
  | nil => intro _ _ _ _; rfl
  | cons op rest ih =>
    intro sw aw h hc
    simp only [inStackContract, Bool.and_eq_true] at hc
    have hs := sstep_sim h op hc.1
    simp only [srun, arun]
    rw [hs.1, ih _ _ hs.2 hc.2]

end Juno.C15
