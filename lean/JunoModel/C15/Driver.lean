import JunoModel.Common.Proto
import JunoModel.C15.Model
import JunoModel.C15.ModelRange
import JunoModel.C15.ModelBuf
import JunoModel.C15.ModelStack
/-!
Line-protocol driver for the C15 model (`lake build c15drv`).

  cfg a [r]        choose the db/memory variant (a = cbUnlocked; r = 1: batch.DeleteRange recorded as a range,
                   `mem2Impl` of ModelRange.lean = the code now; r = 0: materialised at call time, `memImpl`, the
                   code before 36de10a), reset. Default without `cfg`: 1 1
  reset            fresh worlds
  ub P | hasprefix K P
  newbuf | bufput B K V | bufdel B K | bufget B K F | bufflush B | bufwrite B | bufclose B | bufother B
                   db.BufferBatch around indexed batch B (ModelBuf.lean); same answer format as <op>
  psize P U        CalculatePrefixSize(P, U): `n:<count>:<bytes>` per model
  lnew buf|sync bN|lM   db.NewBufferBatch / db.NewSyncBatch over batch N or over layer M (ModelStack.lean)
  lput L K V | ldel L K | ldelrange L S E | lget L K F | lhas L K | lscan L P U | lsize L | lwrite L | lclose L
                   the methods of db.IndexedBatch on layer L;  lflush L = BufferBatch.Flush
  <op>             one storage operation (see harness/cmd/c15/ops.go); answer:
                   `<Mem model> | <Peb model> | <Spec> | <d><m><f>` with d = step is inside the documented
                   contract, m = db/memory not on its re-entrancy defect, f = `f5Free` after the step
-/
open Juno.Proto Juno.C15

structure St where
  cfg : MemCfg
  /-- which transcription of the db/memory batch answers in the first column -/
  rangeLog : Bool
  mem : SWorld MBatch MIter
  mem2 : SWorld M2Batch MIter
  peb : SWorld PBatch PIter
  spec : SWorld SBatch SIter

def St.init (cfg : MemCfg) (rangeLog : Bool := false) : St :=
  ⟨cfg, rangeLog, SWorld.init, SWorld.init, SWorld.init, SWorld.init⟩

def showKV (x : Key × Val) : String := bytesToHex x.1 ++ "=" ++ bytesToHex x.2

def showR : ROut → String
  | .ok => "ok"
  | .notfound => "notfound"
  | .val v => "val:" ++ bytesToHex v
  | .bool b => if b then "true" else "false"
  | .errClosed => "err:closed"
  | .errCb => "err:cb"
  | .panic => "panic"
  | .badHandle => "bad-handle"
  | .list xs => "[" ++ ",".intercalate (xs.map showKV) ++ "]"
  | .vnil => "nil"
  | .errInvalid => "err:invalid"
  | .badOp => "bad-op"
  | .errNotIndexed => "err:not-indexed"
  | .hang => "hang"
  | .key k => "key:" ++ bytesToHex k

def showOut : Out → String
  | .r x => showR x
  | .handle n => "h:" ++ toString n
  | .size n => "n:" ++ toString n
  | .pos ret cur =>
    (if ret then "T " else "F ") ++ (match cur with | some kv => showKV kv | none => "invalid")
  | .upd inner res =>
    (if inner.isEmpty then "" else ";".intercalate (inner.map showR) ++ " ") ++ "-> " ++ showR res

def bool? (s : String) : Option Bool :=
  if s == "1" then some true else if s == "0" then some false else none

def src? (s : String) : Option Src :=
  if s == "db" then some .db
  else match s.toList with
    | 'b' :: rest => (String.ofList rest).toNat?.map .batch
    | 's' :: rest => (String.ofList rest).toNat?.map .snap
    | _ => none

def inner? (s : String) : Option BOp :=
  match s.splitOn ":" with
  | ["put", k, v] => do pure (.put (← hexToBytes? k) (← hexToBytes? v))
  | ["del", k] => do pure (.del (← hexToBytes? k))
  | ["delrange", a, b] => do pure (.delRange (← hexToBytes? a) (← hexToBytes? b))
  | ["get", k, f] => do pure (.get (← hexToBytes? k) (← bool? f))
  | ["has", k] => do pure (.has (← hexToBytes? k))
  | ["scan", p, u] => do pure (.scan (← hexToBytes? p) (← bool? u))
  | _ => none

def inners? (s : String) : Option (List BOp) :=
  if s == "." then some [] else (s.splitOn ";").mapM inner?

def op? : List String → Option Op
  | ["put", k, v] => do pure (.put (← hexToBytes? k) (← hexToBytes? v))
  | ["del", k] => do pure (.del (← hexToBytes? k))
  | ["delrange", a, b] => do pure (.delRange (← hexToBytes? a) (← hexToBytes? b))
  | ["get", s, k, f] => do pure (.get (← src? s) (← hexToBytes? k) (← bool? f))
  | ["has", s, k] => do pure (.has (← src? s) (← hexToBytes? k))
  | ["iter", s, p, u] => do pure (.iter (← src? s) (← hexToBytes? p) (← bool? u))
  | ["scan", s, p, u] => do pure (.scan (← src? s) (← hexToBytes? p) (← bool? u))
  | ["rscan", s, p, u, t] => do pure (.rscan (← src? s) (← hexToBytes? p) (← bool? u) (← hexToBytes? t))
  | ["getw", s, k, k2, v2] => do pure (.getw (← src? s) (← hexToBytes? k) (← hexToBytes? k2) (← hexToBytes? v2))
  | ["key", i] => do pure (.key (← i.toNat?))
  | ["reopen"] => some .reopen
  | ["newbatch", i] => do pure (.newBatch (← bool? i))
  | ["bput", b, k, v] => do pure (.bput (← b.toNat?) (← hexToBytes? k) (← hexToBytes? v))
  | ["bdel", b, k] => do pure (.bdel (← b.toNat?) (← hexToBytes? k))
  | ["bdelrange", b, s, e] => do pure (.bdelRange (← b.toNat?) (← hexToBytes? s) (← hexToBytes? e))
  | ["bsize", b] => do pure (.bsize (← b.toNat?))
  | ["bwrite", b] => do pure (.bwrite (← b.toNat?))
  | ["bclose", b] => do pure (.bclose (← b.toNat?))
  | ["snap"] => some .snap
  | ["sclose", s] => do pure (.sclose (← s.toNat?))
  | ["first", i] => do pure (.first (← i.toNat?))
  | ["next", i] => do pure (.next (← i.toNat?))
  | ["prev", i] => do pure (.prev (← i.toNat?))
  | ["seek", i, t] => do pure (.seek (← i.toNat?) (← hexToBytes? t))
  | ["value", i] => do pure (.value (← i.toNat?))
  | ["iclose", i] => do pure (.iclose (← i.toNat?))
  | ["update", i, f, ops] => do pure (.update (← bool? i) (← bool? f) (← inners? ops))
  | ["close"] => some .close
  | _ => none

def xop? : List String → Option XOp
  | ["newbuf"] => some .newBuf
  | ["bufput", b, k, v] => do pure (.bufPut (← b.toNat?) (← hexToBytes? k) (← hexToBytes? v))
  | ["bufdel", b, k] => do pure (.bufDel (← b.toNat?) (← hexToBytes? k))
  | ["bufget", b, k, f] => do pure (.bufGet (← b.toNat?) (← hexToBytes? k) (← bool? f))
  | ["bufflush", b] => do pure (.bufFlush (← b.toNat?))
  | ["bufwrite", b] => do pure (.bufWrite (← b.toNat?))
  | ["bufclose", b] => do pure (.bufClose (← b.toNat?))
  | ["bufother", b] => do pure (.bufOther (← b.toNat?))
  | ws => (op? ws).map .base

/-- the contract predicate of a `BufferBatch` call is that of the call it makes on the wrapped batch -/
def xdocumented (w : World SBatch SIter) : XOp → Bool
  | .base op => documented w op
  | .newBuf => documented w (.newBatch true)
  | .bufPut b k v => documented w (.bput b k v)
  | .bufDel b k => documented w (.bdel b k)
  | .bufGet b k f => documented w (.get (.batch b) k f)
  | .bufWrite b => documented w (.bwrite b)
  | .bufClose b => documented w (.bclose b)
  | .bufFlush _ | .bufOther _ => true

def xmemOK (c : MemCfg) : XOp → Bool
  | .base op => memOK c op
  | _ => true

def under? (s : String) : Option Under :=
  match s.toList with
  | 'b' :: rest => (String.ofList rest).toNat?.map .batch
  | 'l' :: rest => (String.ofList rest).toNat?.map .layer
  | _ => none

def sop? : List String → Option SOp
  | ["lnew", "buf", u] => do pure (.lnew .buf (← under? u))
  | ["lnew", "sync", u] => do pure (.lnew .sync (← under? u))
  | ["lput", l, k, v] => do pure (.lcall (← l.toNat?) (.put (← hexToBytes? k) (← hexToBytes? v)))
  | ["ldel", l, k] => do pure (.lcall (← l.toNat?) (.del (← hexToBytes? k)))
  | ["ldelrange", l, a, b] => do pure (.lcall (← l.toNat?) (.delRange (← hexToBytes? a) (← hexToBytes? b)))
  | ["lget", l, k, f] => do pure (.lcall (← l.toNat?) (.get (← hexToBytes? k) (← bool? f)))
  | ["lhas", l, k] => do pure (.lcall (← l.toNat?) (.has (← hexToBytes? k)))
  | ["lscan", l, p, u] => do pure (.lcall (← l.toNat?) (.scan (← hexToBytes? p) (← bool? u)))
  | ["lsize", l] => do pure (.lcall (← l.toNat?) .size)
  | ["lwrite", l] => do pure (.lcall (← l.toNat?) .write)
  | ["lclose", l] => do pure (.lcall (← l.toNat?) .close)
  | ["lflush", l] => do pure (.lflush (← l.toNat?))
  | ws => (xop? ws).map .base

def sdocumented (sw : SWorld SBatch SIter) : SOp → Bool
  | .base x => xdocumented sw.bw.w x
  | .lnew _ _ => true
  | .lcall n c => ldocumented sw n c
  | .lflush _ => true

def smemOK (c : MemCfg) : SOp → Bool
  | .base x => xmemOK c x
  | _ => true

def showSize {B I : Type} (M : Impl B I) (w : World B I) (p : Key) (u : Bool) : String :=
  match w.db with
  | none => "err:closed"
  | some d => let r := prefixSize M d p u; "n:" ++ toString r.1 ++ ":" ++ toString r.2

def stepLine (s : St) (line : String) : St × String :=
  match words line with
  | ["ub", p] =>
    match hexToBytes? p with
    | some bs => (s, match upperBoundGo bs with | none => "nil" | some u => bytesToHex u)
    | none => (s, "bad-op")
  | ["hasprefix", k, p] =>
    match hexToBytes? k, hexToBytes? p with
    | some k, some p => (s, toString (hasPrefix k p))
    | _, _ => (s, "bad-op")
  | ["reset"] => (St.init s.cfg s.rangeLog, "ok")
  | ["cfg", a] =>
    match bool? a with
    | some a => (St.init ⟨a⟩, "ok")
    | none => (s, "bad-op")
  | ["cfg", a, r] =>
    match bool? a, bool? r with
    | some a, some r => (St.init ⟨a⟩ r, "ok")
    | _, _ => (s, "bad-op")
  | ["psize", p, u] =>
    match hexToBytes? p, bool? u with
    | some p, some u =>
      (s, (if s.rangeLog then showSize (mem2Impl s.cfg) s.mem2.bw.w p u else showSize (memImpl s.cfg) s.mem.bw.w p u) ++ " | " ++
        showSize pebImpl s.peb.bw.w p u ++ " | " ++ showSize specImpl s.spec.bw.w p u ++ " | 111")
    | _, _ => (s, "bad-op")
  | ws =>
    match sop? ws with
    | none => (s, "bad-op")
    | some op =>
      let d := sdocumented s.spec op
      let m := smemOK s.cfg op
      let rm := sstep (memImpl s.cfg) s.mem op
      let rm2 := sstep (mem2Impl s.cfg) s.mem2 op
      let rp := sstep pebImpl s.peb op
      let rs := sstep specImpl s.spec op
      let f := f5Free rs.1.bw.w
      let b := fun (x : Bool) => if x then "1" else "0"
      ({ s with mem := rm.1, mem2 := rm2.1, peb := rp.1, spec := rs.1 },
        showOut (if s.rangeLog then rm2.2 else rm.2) ++ " | " ++ showOut rp.2 ++ " | " ++ showOut rs.2 ++ " | " ++ b d ++ b m ++ b f)

/-- default: db/memory as it is in /repo (callback outside the lock, range recorded); the harness sends
`cfg` with what it probed on the real code before the first op -/
def main : IO Unit := loop stepLine (St.init ⟨true⟩ true)
