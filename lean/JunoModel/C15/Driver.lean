import JunoModel.Common.Proto
import JunoModel.C15.Model
/-! Line-protocol driver for the C15 model (`lake build c15drv`). -/
open Juno.Proto Juno.C15

def step (s : Unit) (line : String) : Unit × String :=
  match words line with
  | ["ub", p] =>
    match hexToBytes? p with
    | some bs => (s, match upperBound bs with | none => "nil" | some u => bytesToHex u)
    | none => (s, "bad-op")
  | ["hasprefix", k, p] =>
    match hexToBytes? k, hexToBytes? p with
    | some k, some p => (s, toString (hasPrefix k p))
    | _, _ => (s, "bad-op")
  | _ => (s, "bad-op")

def main : IO Unit := loop step ()
