import JunoModel.C15.ProofsSim
/-! One step of db/memory (variant `cfg`) against one step of the contract. -/
namespace Juno.C15

theorem commit_none_eq {α : Type} (f : Nat → Option α) :
    (fun n => if some n = (none : Option Nat) then none else f n) = f := by
  funext n; simp

theorem commit_some_eq {α : Type} (f : Nat → Option α) (b : Nat) :
    (fun n => if some n = some b then none else f n) = upd f b none := by
  funext n
  by_cases h : n = b
  · subst h; simp
  · simp [upd, h]

/-- readers see the same thing -/
theorem read_sim (cfg : Cfg) {wm : World MBatch MIter} {ws : World SBatch SIter} (h : R wm ws)
    (src : Src) :
    (∃ e, wm.read (memImpl cfg) src = .inl e ∧ ws.read specImpl src = .inl e) ∨
    (∃ g1 g2 c, wm.read (memImpl cfg) src = .inr (g1, c) ∧ ws.read specImpl src = .inr (g2, c) ∧
      ∀ k, g1 k = g2 k) := by
  cases src with
  | db =>
    simp only [World.read, h.db]
    cases ws.db with
    | none => exact Or.inl ⟨_, rfl, rfl⟩
    | some d => exact Or.inr ⟨_, _, _, rfl, rfl, fun _ => rfl⟩
  | snap n =>
    simp only [World.read, h.snaps]
    cases ws.snaps n with
    | none => exact Or.inl ⟨_, rfl, rfl⟩
    | some d => exact Or.inr ⟨_, _, _, rfl, rfl, fun _ => rfl⟩
  | batch n =>
    simp only [World.read, h.db]
    cases hsb : ws.batches n with
    | none =>
      rw [(batches_none_iff h n).mpr hsb]
      exact Or.inl ⟨_, rfl, rfl⟩
    | some y =>
      obtain ⟨sb, j⟩ := y
      obtain ⟨mb, hm, hrb⟩ := batches_some h hsb
      rw [hm]
      cases j with
      | false => exact Or.inl ⟨_, rfl, rfl⟩
      | true =>
        refine Or.inr ⟨_, _, _, ?_, rfl, fun k => RB_get hrb k⟩
        show Sum.inr (MBatch.get (ws.db.getD []) mb, MBatch.flush (ws.db.getD []) mb) = _
        rw [hrb.2.1]; rfl

/-- the calls made inside an `Update`/`Write` callback -/
theorem runInner_sim (cfg : Cfg) (d : KV) (hd : Sorted d) (idx : Bool) :
    ∀ (ops : List BOp) (mb : MBatch) (sb : SBatch), RB d mb sb → ops.all (innerOK cfg) = true →
      (runInner (memImpl cfg) d idx ops mb).2 = (runInner specImpl d idx ops sb).2 ∧
      RB d (runInner (memImpl cfg) d idx ops mb).1 (runInner specImpl d idx ops sb).1 := by
  intro ops
  induction ops with
  | nil => intro mb sb h _; exact ⟨rfl, h⟩
  | cons op rest ih =>
    intro mb sb h hok
    simp only [List.all_cons, Bool.and_eq_true] at hok
    obtain ⟨hok1, hok2⟩ := hok
    cases op with
    | put k v =>
      have := ih _ _ (RB_put h k v) hok2
      simp only [runInner]
      exact ⟨by rw [show (memImpl cfg).bput mb k v = mb.put k v from rfl, this.1], this.2⟩
    | del k =>
      have := ih _ _ (RB_del h k) hok2
      simp only [runInner]
      exact ⟨by rw [show (memImpl cfg).bdel mb k = mb.del k from rfl, this.1], this.2⟩
    | delRange s e =>
      have := ih _ _ (RB_delRange cfg hd h s e) hok2
      simp only [runInner]
      exact ⟨by rw [show (memImpl cfg).bdelRange d mb s e = mb.delRange cfg d s e from rfl, this.1], this.2⟩
    | get k fail =>
      have := ih _ _ h hok2
      simp only [runInner]
      rw [show (memImpl cfg).bget d mb k = mb.get d k from rfl, RB_get h k, this.1]
      exact ⟨rfl, this.2⟩
    | has k =>
      have := ih _ _ h hok2
      simp only [runInner]
      rw [show (memImpl cfg).bget d mb k = mb.get d k from rfl, RB_get h k, this.1]
      exact ⟨rfl, this.2⟩
    | scan p u =>
      have := ih _ _ h hok2
      simp only [runInner]
      rw [show (memImpl cfg).bflush d mb = mb.flush d from rfl, h.2.1,
        scan_sim cfg _ p u (by simpa [innerOK] using hok1), this.1]
      exact ⟨rfl, this.2⟩

/-- a positioning call on iterator `i` -/
theorem movePos_sim (cfg : Cfg) {wm : World MBatch MIter} {ws : World SBatch SIter} (h : R wm ws)
    (i : Nat) (fm : MIter → MIter × Bool) (fs : SIter → SIter × Bool)
    (hf : ∀ mi si, ws.iters i = some (some si) → RI mi si →
      RI (fm mi).1 (fs si).1 ∧ (fm mi).2 = (fs si).2) :
    (movePos (memImpl cfg) wm i fm).2 = (movePos specImpl ws i fs).2 ∧
    R (movePos (memImpl cfg) wm i fm).1 (movePos specImpl ws i fs).1 := by
  have hi := h.iters i
  unfold movePos
  cases hm : wm.iters i with
  | none =>
    cases hs : ws.iters i with
    | none => exact ⟨rfl, h⟩
    | some y => rw [hm, hs] at hi; cases y <;> exact hi.elim
  | some x =>
    cases x with
    | none =>
      cases hs : ws.iters i with
      | none => rw [hm, hs] at hi; exact hi.elim
      | some y =>
        cases y with
        | none => exact ⟨rfl, h⟩
        | some si => rw [hm, hs] at hi; exact hi.elim
    | some mi =>
      cases hs : ws.iters i with
      | none => rw [hm, hs] at hi; exact hi.elim
      | some y =>
        cases y with
        | none => rw [hm, hs] at hi; exact hi.elim
        | some si =>
          rw [hm, hs] at hi
          have := hf mi si hs hi
          refine ⟨?_, ?_⟩
          · show Out.pos (fm mi).2 (MIter.kv (fm mi).1) = Out.pos (fs si).2 (SIter.cur (fs si).1)
            rw [this.2, RI_cur this.1]
          · exact R_setiter h i (some (fm mi).1) (some (fs si).1) this.1 ws.iorigin

end Juno.C15
