import JunoModel.C15.ProofsSim
/-! One step of an implementation `M` (with `S : Sim M`) against one step of the contract. -/
namespace Juno.C15

section
variable {B I : Type} {M : Impl B I} (S : Sim M)

/-- readers see the same thing -/
theorem read_sim {wm : World B I} {ws : World SBatch SIter} (h : R S wm ws)
    (src : Src) (hsrc : srcOK ws src = true) :
    (∃ e, wm.read M src = .inl e ∧ ws.read specImpl src = .inl e) ∨
    (∃ g1 h1 g2 h2 v, wm.read M src = .inr (g1, h1, v) ∧ ws.read specImpl src = .inr (g2, h2, v) ∧
      (∀ k, g1 k = g2 k) ∧ (∀ k, h1 k = h2 k)) := by
  cases src with
  | db =>
    simp only [World.read, h.db]
    cases ws.db with
    | none => exact Or.inl ⟨_, rfl, rfl⟩
    | some d => exact Or.inr ⟨_, _, _, _, _, rfl, rfl, S.dget d, S.dhas d⟩
  | snap n =>
    simp only [World.read, h.snaps]
    cases hsn : ws.snaps n with
    | none => exact Or.inl ⟨_, rfl, rfl⟩
    | some o =>
      cases o with
      | none => simp [srcOK, hsn] at hsrc
      | some d => exact Or.inr ⟨_, _, _, _, _, rfl, rfl, S.sget d, S.shas d⟩
  | batch n =>
    simp only [srcOK, Bool.and_eq_true] at hsrc
    obtain ⟨hopen, hidx⟩ := hsrc
    cases hd : ws.db with
    | none => simp [hd] at hopen
    | some d =>
      simp only [World.read, h.db, hd, h.nb]
      cases hsb : ws.batches n with
      | none =>
        rw [(batches_none_iff S h n).mpr hsb]
        exact Or.inl ⟨_, rfl, rfl⟩
      | some y =>
        obtain ⟨sb, j⟩ := y
        obtain ⟨mb, hm, hrb⟩ := batches_some S h hsb
        rw [hm]
        have hj : j = true := by simpa [hsb] using hidx
        subst hj
        rw [hd] at hrb
        refine Or.inr ⟨_, _, _, _, _, ?_, rfl, fun k => S.get k (h.sorted d hd) hrb, fun k => S.has k (h.sorted d hd) hrb⟩
        simp only [Option.getD_some, S.view (h.sorted d hd) hrb]

/-- the calls made inside an `Update`/`Write` callback -/
theorem runInner_sim (d : KV) (hd : Sorted d) (idx : Bool) :
    ∀ (ops : List BOp) (mb : B) (sb : SBatch), S.rb idx (some d) mb sb →
      (runInner M d idx ops mb).2 = (runInner specImpl d idx ops sb).2 ∧
      S.rb idx (some d) (runInner M d idx ops mb).1 (runInner specImpl d idx ops sb).1 := by
  intro ops
  induction ops with
  | nil => intro mb sb h; exact ⟨rfl, h⟩
  | cons op rest ih =>
    intro mb sb h
    cases op with
    | put k v =>
      have := ih _ _ (S.put k v h)
      simp only [runInner]
      exact ⟨by rw [this.1], this.2⟩
    | del k =>
      have := ih _ _ (S.del k h)
      simp only [runInner]
      exact ⟨by rw [this.1], this.2⟩
    | delRange s e =>
      have := ih _ _ (S.delRange s e hd h)
      simp only [runInner]
      exact ⟨by rw [this.1], this.2⟩
    | get k fail =>
      have := ih _ _ h
      simp only [runInner]
      cases idx with
      | false => simp only [Bool.false_eq_true, if_false]; exact ⟨by rw [this.1], this.2⟩
      | true => simp only [if_true, S.get k hd h]; exact ⟨by rw [this.1], this.2⟩
    | has k =>
      have := ih _ _ h
      simp only [runInner]
      cases idx with
      | false => simp only [Bool.false_eq_true, if_false]; exact ⟨by rw [this.1], this.2⟩
      | true => simp only [if_true, S.has k hd h]; exact ⟨by rw [this.1], this.2⟩
    | scan p u =>
      have := ih _ _ h
      simp only [runInner]
      cases idx with
      | false => simp only [Bool.false_eq_true, if_false]; exact ⟨by rw [this.1], this.2⟩
      | true =>
        simp only [if_true, S.view hd h]
        cases specImpl.bview true d sb with
        | inl e => exact ⟨by rw [this.1], this.2⟩
        | inr c => simp only [scan_sim S c p u]; exact ⟨by rw [this.1], this.2⟩

/-- a positioning call on iterator `i` -/
theorem movePos_sim {wm : World B I} {ws : World SBatch SIter} (h : R S wm ws)
    (i : Nat) (fm : I → I × Bool) (fs : SIter → SIter × Bool)
    (hf : ∀ mi si, S.ri mi si → S.ri (fm mi).1 (fs si).1 ∧ (fm mi).2 = (fs si).2) :
    (movePos M wm i fm).2 = (movePos specImpl ws i fs).2 ∧
    R S (movePos M wm i fm).1 (movePos specImpl ws i fs).1 := by
  have hi := h.iters i
  unfold movePos
  cases hm : wm.iters i with
  | none =>
    cases hs : ws.iters i with
    | none => exact ⟨rfl, h⟩
    | some y => rw [hm, hs] at hi; cases y <;> exact hi.elim
  | some x =>
    cases x with
    | none =>
      cases hs : ws.iters i with
      | none => rw [hm, hs] at hi; exact hi.elim
      | some y =>
        cases y with
        | none => exact ⟨rfl, h⟩
        | some si => rw [hm, hs] at hi; exact hi.elim
    | some mi =>
      cases hs : ws.iters i with
      | none => rw [hm, hs] at hi; exact hi.elim
      | some y =>
        cases y with
        | none => rw [hm, hs] at hi; exact hi.elim
        | some si =>
          rw [hm, hs] at hi
          have := hf mi si hi
          refine ⟨?_, ?_⟩
          · show Out.pos (fm mi).2 (M.icur (fm mi).1) = Out.pos (fs si).2 (SIter.cur (fs si).1)
            rw [this.2, S.cur this.1]
          · exact R_setiter S h i (some (fm mi).1) (some (fs si).1) this.1 ws.iorigin

/-- iterator table lookups agree in shape -/
theorem iters_cases {wm : World B I} {ws : World SBatch SIter} (h : R S wm ws) (i : Nat) :
    (wm.iters i = none ∧ ws.iters i = none) ∨ (wm.iters i = some none ∧ ws.iters i = some none) ∨
    (∃ mi si, wm.iters i = some (some mi) ∧ ws.iters i = some (some si) ∧ S.ri mi si) := by
  have hi := h.iters i
  cases hm : wm.iters i with
  | none =>
    cases hs : ws.iters i with
    | none => exact Or.inl ⟨rfl, rfl⟩
    | some y => rw [hm, hs] at hi; cases y <;> exact hi.elim
  | some x =>
    cases x with
    | none =>
      cases hs : ws.iters i with
      | none => rw [hm, hs] at hi; exact hi.elim
      | some y =>
        cases y with
        | none => exact Or.inr (Or.inl ⟨rfl, rfl⟩)
        | some si => rw [hm, hs] at hi; exact hi.elim
    | some mi =>
      cases hs : ws.iters i with
      | none => rw [hm, hs] at hi; exact hi.elim
      | some y =>
        cases y with
        | none => rw [hm, hs] at hi; exact hi.elim
        | some si => rw [hm, hs] at hi; exact Or.inr (Or.inr ⟨mi, si, rfl, rfl, hi⟩)

/-- the post-state agreement `R_commit` needs, from `f5Free` of the contract's post-state -/
theorem agree_of_f5 {ws ws' : World SBatch SIter} (hfresh : ∀ n, ws'.nb ≤ n → ws'.batches n = none)
    (hf5 : S.needF5 = true → f5Free ws' = true) (exc : Option Nat)
    (hb : ∀ n, some n ≠ exc → ws'.batches n = ws.batches n) :
    S.needF5 = true → ∀ n sb i d', some n ≠ exc → ws.batches n = some (sb, i) → ws'.db = some d' →
      batchAgrees d' sb = true := by
  intro hn n sb i d' hne hsb hd'
  exact f5Free_get hfresh (hf5 hn) hd' (by rw [hb n hne]; exact hsb)

theorem step_sim {wm : World B I} {ws : World SBatch SIter} (h : R S wm ws)
    (op : Op) (hdoc : documented ws op = true) (hok : S.okOp op = true)
    (hf5 : S.needF5 = true → f5Free (step specImpl ws op).1 = true) :
    (step M wm op).2 = (step specImpl ws op).2 ∧ R S (step M wm op).1 (step specImpl ws op).1 := by
  cases op with
  | put k v =>
    cases hd : ws.db with
    | none => simp only [step, h.db, hd]; exact ⟨by first | rfl | trivial, h⟩
    | some d =>
      simp only [step, hd] at hf5
      simp only [step, h.db, hd]
      refine ⟨by first | rfl | trivial, ?_⟩
      have := R_commit S h (some (d.put k v)) (by intro d' e; cases e; exact (h.sorted d hd).put k v) none
        (fun hn n sb i d' hne hsb he => by
          cases he
          exact f5Free_get (ws := { ws with db := some (d.put k v) }) h.fresh (hf5 hn) rfl hsb)
      simpa only [commit_none_eq] using this
  | del k =>
    cases hd : ws.db with
    | none => simp only [step, h.db, hd]; exact ⟨by first | rfl | trivial, h⟩
    | some d =>
      simp only [step, hd] at hf5
      simp only [step, h.db, hd]
      refine ⟨by first | rfl | trivial, ?_⟩
      have := R_commit S h (some (d.del k)) (by intro d' e; cases e; exact (h.sorted d hd).del k) none
        (fun hn n sb i d' hne hsb he => by
          cases he
          exact f5Free_get (ws := { ws with db := some (d.del k) }) h.fresh (hf5 hn) rfl hsb)
      simpa only [commit_none_eq] using this
  | delRange s e =>
    cases hd : ws.db with
    | none => simp only [step, h.db, hd]; exact ⟨by first | rfl | trivial, h⟩
    | some d =>
      simp only [step, hd] at hf5
      simp only [step, h.db, hd]
      refine ⟨by first | rfl | trivial, ?_⟩
      have := R_commit S h (some (d.delRange s e)) (by intro d' e'; cases e'; exact (h.sorted d hd).delRange s e) none
        (fun hn n sb i d' hne hsb he => by
          cases he
          exact f5Free_get (ws := { ws with db := some (d.delRange s e) }) h.fresh (hf5 hn) rfl hsb)
      simpa only [commit_none_eq] using this
  | get src k fail =>
    simp only [step]
    rcases read_sim S h src (by simpa [documented] using hdoc) with ⟨e, h1, h2⟩ | ⟨g1, h1', g2, h2', v, h1, h2, hg, hh⟩
    · rw [h1, h2]; exact ⟨by first | rfl | trivial, h⟩
    · rw [h1, h2]; simp only [hg k]; exact ⟨by first | rfl | trivial, h⟩
  | has src k =>
    simp only [step]
    rcases read_sim S h src (by simpa [documented] using hdoc) with ⟨e, h1, h2⟩ | ⟨g1, h1', g2, h2', v, h1, h2, hg, hh⟩
    · rw [h1, h2]; exact ⟨by first | rfl | trivial, h⟩
    · rw [h1, h2]; simp only [hh k]; exact ⟨by first | rfl | trivial, h⟩
  | getw src k k2 v2 =>
    have hsrc : srcOK ws src = true := by
      simp only [documented, Bool.and_eq_true] at hdoc; exact hdoc.1
    have hre : M.reentrant = true := S.reent src k k2 v2 hok
    rcases read_sim S h src hsrc with ⟨e, h1, h2⟩ | ⟨g1, h1', g2, h2', v, h1, h2, hg, hh⟩
    · simp only [step, h1, h2]; exact ⟨by first | rfl | trivial, h⟩
    · simp only [step, h1, h2, hg k, hre, if_true] at hf5 ⊢
      have hsre : specImpl.reentrant = true := rfl
      simp only [hsre, if_true] at hf5 ⊢
      cases hgk : g2 k with
      | notfound => exact ⟨by first | rfl | trivial, h⟩
      | err e => exact ⟨by first | rfl | trivial, h⟩
      | val vv =>
        simp only [hgk] at hf5 ⊢
        cases hd : ws.db with
        | none => simp only [h.db, hd]; exact ⟨by first | rfl | trivial, h⟩
        | some d =>
          simp only [hd] at hf5
          simp only [h.db, hd]
          refine ⟨by first | rfl | trivial, ?_⟩
          have := R_commit S h (some (d.put k2 v2)) (by intro d' e; cases e; exact (h.sorted d hd).put k2 v2) none
            (fun hn n sb i d' hne hsb he => by
              cases he
              exact f5Free_get (ws := { ws with db := some (d.put k2 v2) }) h.fresh (hf5 hn) rfl hsb)
          simpa only [commit_none_eq] using this
  | scan src p u =>
    simp only [step]
    rcases read_sim S h src (by simpa [documented] using hdoc) with ⟨e, h1, h2⟩ | ⟨g1, h1', g2, h2', v, h1, h2, hg, hh⟩
    · rw [h1, h2]; exact ⟨by first | rfl | trivial, h⟩
    · rw [h1, h2]
      cases v with
      | inl e => exact ⟨by first | rfl | trivial, h⟩
      | inr c => simp only [scan_sim S c p u]; exact ⟨by first | rfl | trivial, h⟩
  | rscan src p u t =>
    simp only [step]
    rcases read_sim S h src (by simpa [documented] using hdoc) with ⟨e, h1, h2⟩ | ⟨g1, h1', g2, h2', v, h1, h2, hg, hh⟩
    · rw [h1, h2]; exact ⟨by first | rfl | trivial, h⟩
    · rw [h1, h2]
      cases v with
      | inl e => exact ⟨by first | rfl | trivial, h⟩
      | inr c => simp only [rscan_sim S c p u t]; exact ⟨by first | rfl | trivial, h⟩
  | iter src p u =>
    simp only [step]
    rcases read_sim S h src (by simpa [documented] using hdoc) with ⟨e, h1, h2⟩ | ⟨g1, h1', g2, h2', v, h1, h2, hg, hh⟩
    · rw [h1, h2]
      exact ⟨by first | rfl | trivial, { h with ni := (by first | rfl | simp [h.ni]) }⟩
    · rw [h1, h2]
      cases v with
      | inl e => exact ⟨by first | rfl | trivial, { h with ni := (by first | rfl | simp [h.ni]) }⟩
      | inr c =>
        simp only [h.ni]
        refine ⟨by first | rfl | trivial, ?_⟩
        have hri : RIo S (some (some (M.imk c p u))) (some (some (specImpl.imk c p u))) := S.mkIter c p u
        have := R_setiter S h ws.ni (some (M.imk c p u)) (some (specImpl.imk c p u)) hri
          (upd ws.iorigin ws.ni src)
        exact { this with ni := (by first | rfl | simp [h.ni]) }
  | newBatch idx =>
    simp only [step, h.nb]
    refine ⟨by first | rfl | trivial, ?_⟩
    exact {
      db := h.db, sorted := h.sorted, nb := (by first | rfl | simp [h.nb]), ns := h.ns, ni := h.ni,
      snaps := h.snaps,
      batches := by
        intro n
        by_cases hn : n = ws.nb
        · subst hn; simp only [upd_same]; exact ⟨rfl, S.empty _ _⟩
        · simp only [upd_other _ _ _ hn]; exact h.batches n
      fresh := by
        intro n hn
        have : n ≠ ws.nb := by
          have : ws.nb + 1 ≤ n := hn
          omega
        simp only [upd_other _ _ _ this]
        exact h.fresh n (by have : ws.nb + 1 ≤ n := hn; omega)
      iters := h.iters }
  | bput b k v =>
    cases hsb : ws.batches b with
    | none =>
      simp only [step, batchGone, hsb, (batches_none_iff S h b).mpr hsb, h.nb]; exact ⟨by first | rfl | trivial, h⟩
    | some y =>
      obtain ⟨sb, j⟩ := y
      obtain ⟨mb, hm, hrb⟩ := batches_some S h hsb
      simp only [step, hm, hsb]
      exact ⟨by first | rfl | trivial, R_setbatch S h b (by rw [hsb]; simp) _ _ j (S.put k v hrb)⟩
  | bdel b k =>
    cases hsb : ws.batches b with
    | none =>
      simp only [step, batchGone, hsb, (batches_none_iff S h b).mpr hsb, h.nb]; exact ⟨by first | rfl | trivial, h⟩
    | some y =>
      obtain ⟨sb, j⟩ := y
      obtain ⟨mb, hm, hrb⟩ := batches_some S h hsb
      simp only [step, hm, hsb]
      exact ⟨by first | rfl | trivial, R_setbatch S h b (by rw [hsb]; simp) _ _ j (S.del k hrb)⟩
  | bdelRange b s e =>
    cases hsb : ws.batches b with
    | none =>
      simp only [step, batchGone, hsb, (batches_none_iff S h b).mpr hsb, h.nb]; exact ⟨by first | rfl | trivial, h⟩
    | some y =>
      obtain ⟨sb, j⟩ := y
      obtain ⟨mb, hm, hrb⟩ := batches_some S h hsb
      cases hd : ws.db with
      | none => simp [documented, hd] at hdoc
      | some d =>
        have hb1 : wm.db.getD [] = d := by rw [h.db, hd]; rfl
        have hb2 : ws.db.getD [] = d := by rw [hd]; rfl
        simp only [step, hm, hsb, hb1, hb2]
        rw [hd] at hrb
        have := R_setbatch S h b (by rw [hsb]; simp) (M.bdelRange d mb s e) (specImpl.bdelRange d sb s e) j
          (by rw [hd]; exact S.delRange s e (h.sorted d hd) hrb)
        exact ⟨by first | rfl | trivial, this⟩
  | bsize b =>
    cases hsb : ws.batches b with
    | none =>
      simp only [step, hsb, (batches_none_iff S h b).mpr hsb, h.nb]; exact ⟨by first | rfl | trivial, h⟩
    | some y =>
      obtain ⟨sb, j⟩ := y
      obtain ⟨mb, hm, hrb⟩ := batches_some S h hsb
      simp only [step, hm, hsb]
      have hn : noRange sb = true := by simpa [documented, hsb] using hdoc
      refine ⟨?_, h⟩
      show Out.size (M.bsize mb) = Out.size sb.size
      rw [S.size b hok hrb hn]
  | bwrite b =>
    cases hsb : ws.batches b with
    | none =>
      simp only [step, batchGone, hsb, (batches_none_iff S h b).mpr hsb, h.nb]; exact ⟨by first | rfl | trivial, h⟩
    | some y =>
      obtain ⟨sb, j⟩ := y
      obtain ⟨mb, hm, hrb⟩ := batches_some S h hsb
      cases hd : ws.db with
      | none => simp only [step, hm, hsb, h.db, hd]; exact ⟨by first | rfl | trivial, h⟩
      | some d =>
        simp only [step, hsb, hd] at hf5
        simp only [step, hm, hsb, h.db, hd]
        refine ⟨by first | rfl | trivial, ?_⟩
        rw [hd] at hrb
        have hfl : M.bflush d mb = specImpl.bflush d sb := S.flush (h.sorted d hd) hrb
        have := R_commit S h (some (specImpl.bflush d sb))
          (by intro d' e; cases e; exact sorted_applyLog (h.sorted d hd) sb.log) (some b)
          (fun hn n sb' i d' hne hsb' he => by
            cases he
            have hnb : n ≠ b := fun e => hne (by rw [e])
            exact f5Free_get (ws := { ws with db := some (specImpl.bflush d sb), batches := upd ws.batches b none })
              (by
                intro m hm'
                by_cases hmb : m = b
                · subst hmb; simp
                · simp only [upd_other _ _ _ hmb]; exact h.fresh m hm')
              (hf5 hn) rfl (n := n) (sb := sb') (i := i)
              (by show upd ws.batches b none n = some (sb', i); rw [upd_other _ _ _ hnb]; exact hsb'))
        rw [hfl]
        simpa only [commit_some_eq] using this
  | bclose b =>
    cases hsb : ws.batches b with
    | none =>
      simp only [step, batchGone, hsb, (batches_none_iff S h b).mpr hsb, h.nb]; exact ⟨by first | rfl | trivial, h⟩
    | some y =>
      obtain ⟨sb, j⟩ := y
      obtain ⟨mb, hm, hrb⟩ := batches_some S h hsb
      simp only [step, hm, hsb]
      exact ⟨by first | rfl | trivial, R_closebatch S h b⟩
  | snap =>
    simp only [step, h.db]
    cases hd : ws.db with
    | none => exact ⟨by first | rfl | trivial, h⟩
    | some d =>
      simp only [h.ns, h.snaps]
      exact ⟨by first | rfl | trivial, {
        db := rfl
        sorted := by intro d' hd'; cases hd'; exact h.sorted d hd
        nb := h.nb, ns := rfl, ni := h.ni, snaps := rfl
        batches := by
          intro n
          have := h.batches n
          rw [hd] at this
          exact this
        fresh := h.fresh
        iters := h.iters }⟩
  | sclose s =>
    simp only [step, h.snaps]
    cases ws.snaps s with
    | none => exact ⟨by first | rfl | trivial, h⟩
    | some o =>
      cases o with
      | none => exact ⟨by first | rfl | trivial, h⟩
      | some d => exact ⟨by first | rfl | trivial, { h with snaps := rfl }⟩
  | first i => exact movePos_sim S h i _ _ (fun mi si hri => S.first hri)
  | next i => exact movePos_sim S h i _ _ (fun mi si hri => S.next hri)
  | prev i => exact movePos_sim S h i _ _ (fun mi si hri => S.prev hri)
  | seek i t => exact movePos_sim S h i _ _ (fun mi si hri => S.seek t hri)
  | value i =>
    simp only [step]
    rcases iters_cases S h i with ⟨h1, h2⟩ | ⟨h1, h2⟩ | ⟨mi, si, h1, h2, hri⟩
    · rw [h1, h2]; exact ⟨by first | rfl | trivial, h⟩
    · rw [h1, h2]; exact ⟨by first | rfl | trivial, h⟩
    · rw [h1, h2]
      have hsome : si.cur.isSome = true := by
        simp only [documented, h2, Bool.and_eq_true] at hdoc; exact hdoc.2
      have hcur : M.icur mi = specImpl.icur si := S.cur hri
      simp only [hcur]
      cases hc : specImpl.icur si with
      | none =>
        have : si.cur = none := hc
        rw [this] at hsome; cases hsome
      | some kv => exact ⟨by first | rfl | trivial, h⟩
  | key i =>
    simp only [step]
    rcases iters_cases S h i with ⟨h1, h2⟩ | ⟨h1, h2⟩ | ⟨mi, si, h1, h2, hri⟩
    · rw [h1, h2]; exact ⟨by first | rfl | trivial, h⟩
    · rw [h1, h2]; exact ⟨by first | rfl | trivial, h⟩
    · rw [h1, h2]
      have hcur : M.icur mi = specImpl.icur si := S.cur hri
      simp only [hcur]
      cases specImpl.icur si <;> exact ⟨by first | rfl | trivial, h⟩
  | iclose i =>
    simp only [step]
    rcases iters_cases S h i with ⟨h1, h2⟩ | ⟨h1, h2⟩ | ⟨mi, si, h1, h2, hri⟩
    · rw [h1, h2]; exact ⟨by first | rfl | trivial, h⟩
    · rw [h1, h2]; exact ⟨by first | rfl | trivial, h⟩
    · rw [h1, h2]; exact ⟨by first | rfl | trivial, R_setiter S h i none none trivial ws.iorigin⟩
  | update idx fail ops =>
    cases hd : ws.db with
    | none => simp only [step, h.db, hd]; exact ⟨by first | rfl | trivial, h⟩
    | some d =>
      simp only [step, hd] at hf5
      simp only [step, h.db, hd]
      have hin := runInner_sim S d (h.sorted d hd) idx ops _ _ (S.empty idx (some d))
      cases fail with
      | true =>
        simp only [if_true]
        exact ⟨by rw [hin.1], h⟩
      | false =>
        simp only [Bool.false_eq_true, if_false] at hf5 ⊢
        refine ⟨by rw [hin.1], ?_⟩
        have hfl : M.bflush d (runInner M d idx ops (M.bempty idx)).1 =
            specImpl.bflush d (runInner specImpl d idx ops (specImpl.bempty idx)).1 := S.flush (h.sorted d hd) hin.2
        have := R_commit S h (some (specImpl.bflush d (runInner specImpl d idx ops (specImpl.bempty idx)).1))
          (by intro d' e; cases e; exact sorted_applyLog (h.sorted d hd) _) none
          (fun hn n sb i d' hne hsb he => by
            cases he
            exact f5Free_get
              (ws := { ws with db := some (specImpl.bflush d (runInner specImpl d idx ops (specImpl.bempty idx)).1) })
              h.fresh (hf5 hn) rfl hsb)
        rw [hfl]
        simpa only [commit_none_eq] using this
  | reopen =>
    simp only [step, h.db]
    cases ws.db <;> exact ⟨by first | rfl | trivial, h⟩
  | close =>
    simp only [step]
    refine ⟨by first | rfl | trivial, ?_⟩
    have := R_commit S h none (by intro d e; cases e) none (fun _ n sb i d' _ _ he => by cases he)
    simpa only [commit_none_eq] using this

end

end Juno.C15
