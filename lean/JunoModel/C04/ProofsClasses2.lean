import JunoModel.C04.ProofsClasses
/-!
C04 helper lemmas, part 8b: the class part of `State.Revert` undoes the class part of `State.Update`
(both backends share it), with or without the repair that also removes the classes registered for
deployed contracts (`Cfg.removeImplicitClasses`, /repo commit 64c1acb).
-/
set_option linter.unusedSectionVars false
namespace Juno.C04
open Map

theorem ok_bind {α β : Type} (a : α) (f : α → Except Err β) : (Except.ok a >>= f) = f a := rfl

/-- Facts about the class buckets before the block and about the class sections of the block. -/
structure ClassesOK (cfg : Cfg) (s : State) (casm' : Map Nat CasmMeta) (b : Block) : Prop where
  sCl : Sorted s.classes
  sTr : Sorted s.classTrie
  classAt : ∀ c r, Map.get s.classes c = some r → r.declaredAt < b.number
  trieSub : ∀ c v, Map.get s.classTrie c = some v → (Map.get s.classes c).isSome = true
  dDecl : Sorted b.diff.declV1
  dMig : Sorted b.diff.migrated
  dDefs : Sorted b.classes
  /-- only the legacy `removeDeclaredClasses` (as found) needs it, see `legacy_duplicate_declaration_counterexample` -/
  nodup : cfg.dupTolerant = false → (b.diff.declV0 ++ Map.keys b.diff.declV1).Nodup
  known0 : ∀ c ∈ b.diff.declV0, (Map.get s.classes c).isSome = true ∨ (Map.get b.classes c).isSome = true
  decl1 : ∀ c h, Map.get b.diff.declV1 c = some h →
    Map.get s.classes c = none ∧ ∃ d, Map.get b.classes c = some d ∧ d.sierra = true
  /-- every supplied class definition is listed as declared or — with the repair 64c1acb — is the
  class of a contract the block deploys (what sync supplies); without the repair the second kind
  survives the revert, see `implicit_class_survives_revert` -/
  defsListed : ∀ c d, Map.get b.classes c = some d →
    c ∈ b.diff.declV0 ++ Map.keys b.diff.declV1 ∨
      (cfg.removeImplicitClasses = true ∧ c ∈ b.diff.deployed.map (·.2))
  migOK : ∀ c y, Map.get b.diff.migrated c = some y →
    ∃ md, Map.get casm' c = some md ∧ md.migratedAt ≠ 0 ∧
      Map.get s.classTrie c = some ({ md with migratedAt := 0 } : CasmMeta).casmHash

theorem removeImplicit_spec (n : Nat) (L : List Nat) {s : State} (hsc : Sorted s.classes) (hst : Sorted s.classTrie) :
    (removeImplicit n s L).contracts = s.contracts ∧ (removeImplicit n s L).storage = s.storage ∧
    (removeImplicit n s L).hStorage = s.hStorage ∧ (removeImplicit n s L).hNonce = s.hNonce ∧
    (removeImplicit n s L).hClass = s.hClass ∧ Sorted (removeImplicit n s L).classes ∧
    Sorted (removeImplicit n s L).classTrie ∧
    (∀ c, Map.get (removeImplicit n s L).classes c =
      if c ∈ L ∧ ((Map.get s.classes c).map (·.declaredAt)) = some n then none else Map.get s.classes c) ∧
    (∀ c, Map.get (removeImplicit n s L).classTrie c =
      if c ∈ L ∧ ((Map.get s.classes c).map (fun r => (r.declaredAt, r.defn.sierra))) = some (n, true) then none
      else Map.get s.classTrie c) := by
  induction L generalizing s with
  | nil => exact ⟨rfl, rfl, rfl, rfl, rfl, hsc, hst, fun c => by simp [removeImplicit], fun c => by simp [removeImplicit]⟩
  | cons c0 L ih =>
    cases hg : Map.get s.classes c0 with
    | none =>
      obtain ⟨e1, e2, e3, e4, e5, e6, e7, hgc, hgt⟩ := ih hsc hst
      have hstep : removeImplicit n s (c0 :: L) = removeImplicit n s L := by simp only [removeImplicit, hg]
      rw [hstep]
      refine ⟨e1, e2, e3, e4, e5, e6, e7, ?_, ?_⟩
      · intro c
        rw [hgc c]
        by_cases hc : c = c0
        · subst hc; simp [hg]
        · simp [hc]
      · intro c
        rw [hgt c]
        by_cases hc : c = c0
        · subst hc; simp [hg]
        · simp [hc]
    | some r =>
      by_cases hat : r.declaredAt = n
      · have hs1c : Sorted (Map.del s.classes c0) := sorted_del hsc c0
        have hs1t : Sorted (if r.defn.sierra then Map.del s.classTrie c0 else s.classTrie) := by
          split
          · exact sorted_del hst c0
          · exact hst
        obtain ⟨e1, e2, e3, e4, e5, e6, e7, hgc, hgt⟩ :=
          ih (s := { s with classes := Map.del s.classes c0,
                            classTrie := if r.defn.sierra then Map.del s.classTrie c0 else s.classTrie }) hs1c hs1t
        have hstep : removeImplicit n s (c0 :: L) =
            removeImplicit n { s with classes := Map.del s.classes c0,
                                      classTrie := if r.defn.sierra then Map.del s.classTrie c0 else s.classTrie } L := by
          simp only [removeImplicit, hg, hat, if_true]
        rw [hstep]
        refine ⟨e1, e2, e3, e4, e5, e6, e7, ?_, ?_⟩
        · intro c
          rw [hgc c]
          show (if c ∈ L ∧ ((Map.get (Map.del s.classes c0) c).map (·.declaredAt)) = some n then none
                else Map.get (Map.del s.classes c0) c) = _
          by_cases hc : c = c0
          · subst hc; simp [get_del_self hsc, hg, hat]
          · rw [get_del_ne s.classes hc]; simp [hc]
        · intro c
          rw [hgt c]
          show (if c ∈ L ∧ ((Map.get (Map.del s.classes c0) c).map (fun r => (r.declaredAt, r.defn.sierra))) = some (n, true) then none
                else Map.get (if r.defn.sierra then Map.del s.classTrie c0 else s.classTrie) c) = _
          by_cases hc : c = c0
          · subst hc
            simp only [get_del_self hsc, Option.map_none, false_and, and_false, if_false, List.mem_cons, true_or, true_and, hg,
              Option.map_some, hat]
            cases hsi : r.defn.sierra with
            | true => simp [get_del_self hst]
            | false => simp
          · rw [get_del_ne s.classes hc]
            have : Map.get (if r.defn.sierra then Map.del s.classTrie c0 else s.classTrie) c = Map.get s.classTrie c := by
              split
              · exact get_del_ne s.classTrie hc
              · rfl
            rw [this]; simp [hc]
      · obtain ⟨e1, e2, e3, e4, e5, e6, e7, hgc, hgt⟩ := ih hsc hst
        have hstep : removeImplicit n s (c0 :: L) = removeImplicit n s L := by simp only [removeImplicit, hg, hat, if_false]
        rw [hstep]
        refine ⟨e1, e2, e3, e4, e5, e6, e7, ?_, ?_⟩
        · intro c
          rw [hgc c]
          by_cases hc : c = c0
          · subst hc; simp [hg, hat]
          · simp [hc]
        · intro c
          rw [hgt c]
          by_cases hc : c = c0
          · subst hc; simp [hg, hat]
          · simp [hc]

theorem revertClasses_inverse {cfg : Cfg}
    {s : State} {b : Block} {casm' : Map Nat CasmMeta} (ok : ClassesOK cfg s casm' b) (s' : State)
    (hCl : s'.classes = registerClasses b.number s.classes b.classes)
    (hTr : s'.classTrie = updateClassTrie s.classTrie b) :
    revertClasses cfg b.number b.diff casm' s' = .ok { s' with classes := s.classes, classTrie := s.classTrie } := by
  obtain ⟨sCl', gCl⟩ := registerClasses_spec b.number ok.dDefs ok.sCl
  obtain ⟨sT1, gT1⟩ := declTrie_spec b.classes ok.dDecl ok.sTr
  have sTr' : Sorted (updateClassTrie s.classTrie b) := sorted_setAll sT1 _
  have gTr : ∀ c, Map.get (updateClassTrie s.classTrie b) c =
      match Map.get b.diff.migrated c with
      | some h => some h
      | none => match Map.get b.diff.declV1 c with
        | some h => if Map.has b.classes c = true then some h else Map.get s.classTrie c
        | none => Map.get s.classTrie c := by
    intro c
    unfold updateClassTrie
    rw [get_setAll ok.dMig, gT1 c]
    cases Map.get b.diff.migrated c <;> rfl
  -- every listed class is known after the update
  have hknown : ∀ c ∈ b.diff.declV0 ++ Map.keys b.diff.declV1, (Map.get s'.classes c).isSome = true := by
    intro c hc
    rw [hCl, gCl c]
    rcases List.mem_append.1 hc with h0 | h1
    · rcases ok.known0 c h0 with h | h
      · cases hg : Map.get s.classes c with
        | none => rw [hg] at h; cases h
        | some r => rfl
      · cases hg : Map.get s.classes c with
        | some r => rfl
        | none =>
          cases hd : Map.get b.classes c with
          | none => rw [hd] at h; cases h
          | some d => rfl
    · obtain ⟨x, hx⟩ := (mem_keys_iff ok.dDecl c).1 h1
      obtain ⟨hn, d, hd, _⟩ := ok.decl1 c x hx
      rw [hn, hd]; rfl
  obtain ⟨s1, hok, e1, e2, e3, e4, e5, sc1, st1, gc1, gt1⟩ :
      ∃ s1, removeDeclared cfg.dupTolerant b.number s'.classes s' (b.diff.declV0 ++ Map.keys b.diff.declV1) = .ok s1 ∧
        s1.contracts = s'.contracts ∧ s1.storage = s'.storage ∧ s1.hStorage = s'.hStorage ∧ s1.hNonce = s'.hNonce ∧
        s1.hClass = s'.hClass ∧ Sorted s1.classes ∧ Sorted s1.classTrie ∧
        (∀ c, Map.get s1.classes c =
          if c ∈ b.diff.declV0 ++ Map.keys b.diff.declV1 ∧ ((Map.get s'.classes c).map (·.declaredAt)) = some b.number then none
          else Map.get s'.classes c) ∧
        (∀ c, Map.get s1.classTrie c =
          if c ∈ b.diff.declV0 ++ Map.keys b.diff.declV1 ∧
              ((Map.get s'.classes c).map (fun r => (r.declaredAt, r.defn.sierra))) = some (b.number, true) then none
          else Map.get s'.classTrie c) := by
    cases ht : cfg.dupTolerant with
    | true =>
      exact removeDeclared_spec_tol b.number s'.classes _ (s := s') (by rw [hCl]; exact sCl') (by rw [hTr]; exact sTr') hknown
    | false =>
      exact removeDeclared_spec b.number s'.classes (ok.nodup ht) (s := s') (by rw [hCl]; exact sCl') (by rw [hTr]; exact sTr') hknown
  -- classes are back
  -- the optional removal of the classes registered for deployed contracts
  obtain ⟨sI, f1, f2, f3, f4, f5, f6, scI, stI, gcI, gtI⟩ :
      ∃ sI : State, sI = (if cfg.removeImplicitClasses then removeImplicit b.number s1 (b.diff.deployed.map (·.2)) else s1) ∧
        sI.contracts = s1.contracts ∧ sI.storage = s1.storage ∧ sI.hStorage = s1.hStorage ∧ sI.hNonce = s1.hNonce ∧
        sI.hClass = s1.hClass ∧ Sorted sI.classes ∧ Sorted sI.classTrie ∧
        (∀ c, Map.get sI.classes c =
          if cfg.removeImplicitClasses = true ∧ c ∈ b.diff.deployed.map (·.2) ∧
              ((Map.get s1.classes c).map (·.declaredAt)) = some b.number then none else Map.get s1.classes c) ∧
        (∀ c, Map.get sI.classTrie c =
          if cfg.removeImplicitClasses = true ∧ c ∈ b.diff.deployed.map (·.2) ∧
              ((Map.get s1.classes c).map (fun r => (r.declaredAt, r.defn.sierra))) = some (b.number, true) then none
          else Map.get s1.classTrie c) := by
    by_cases hf : cfg.removeImplicitClasses = true
    · obtain ⟨a1, a2, a3, a4, a5, a6, a7, a8, a9⟩ := removeImplicit_spec b.number (b.diff.deployed.map (·.2)) sc1 st1
      refine ⟨_, rfl, ?_⟩
      simp only [hf, if_true, true_and]
      exact ⟨a1, a2, a3, a4, a5, a6, a7, a8, a9⟩
    · refine ⟨_, rfl, ?_⟩
      simp only [hf, if_false, false_and]
      exact ⟨rfl, rfl, rfl, rfl, rfl, sc1, st1, fun _ => rfl, fun _ => rfl⟩
  have hclasses : sI.classes = s.classes := by
    apply ext scI ok.sCl
    intro c
    rw [gcI c, gc1 c, hCl, gCl c]
    cases hg : Map.get s.classes c with
    | some r =>
      have := ok.classAt c r hg
      have hne : ¬ (r.declaredAt = b.number) := by omega
      simp [hne]
    | none =>
      cases hd : Map.get b.classes c with
      | none => simp
      | some d =>
        rcases ok.defsListed c d hd with h | ⟨hf, hm⟩
        · simp [h]
        · by_cases hl : c ∈ b.diff.declV0 ++ Map.keys b.diff.declV1
          · simp [hl]
          · simp [hl, hf, hm]
  -- unmigrate
  have hmigAll : ∀ c y, Map.get b.diff.migrated c = some y → ∃ md, Map.get casm' c = some md ∧ md.migratedAt ≠ 0 := by
    intro c y hcy
    obtain ⟨md, h1, h2, _⟩ := ok.migOK c y hcy
    exact ⟨md, h1, h2⟩
  obtain ⟨tr, htr, str, gtr⟩ := unmigrateTrie_spec casm' ok.dMig stI hmigAll
  have hnoTrie : ∀ c, Map.get s.classes c = none → Map.get s.classTrie c = none := by
    intro c hn
    cases ht : Map.get s.classTrie c with
    | none => rfl
    | some v =>
      have := ok.trieSub c v ht
      rw [hn] at this; cases this
  have htrie : tr = s.classTrie := by
    apply ext str ok.sTr
    intro c
    rw [gtr c]
    cases hm : Map.get b.diff.migrated c with
    | some y =>
      obtain ⟨md, h1, h2, h3⟩ := ok.migOK c y hm
      simp only [h1, Option.map_some, h3]
    | none =>
      simp only []
      rw [gtI c, gt1 c, gc1 c, hCl, gCl c, hTr, gTr c, hm]
      cases hd1 : Map.get b.diff.declV1 c with
      | some x =>
        obtain ⟨hn, d, hd, hsi⟩ := ok.decl1 c x hd1
        have hmem : c ∈ b.diff.declV0 ++ Map.keys b.diff.declV1 :=
          List.mem_append.2 (Or.inr ((mem_keys_iff ok.dDecl c).2 ⟨x, hd1⟩))
        simp [hn, hd, hsi, hmem, hnoTrie c hn]
      | none =>
        simp only []
        cases hg : Map.get s.classes c with
        | some r =>
          have := ok.classAt c r hg
          have hne : ¬ (r.declaredAt = b.number) := by omega
          simp [hne]
        | none =>
          simp only [hnoTrie c hg, ite_self]
  unfold revertClasses
  rw [hok, ok_bind]
  show (unmigrateTrie casm' (if cfg.removeImplicitClasses then removeImplicit b.number s1 (b.diff.deployed.map (·.2)) else s1).classTrie
          b.diff.migrated >>= _) = _
  rw [← f1, htr, ok_bind]
  show Except.ok (⟨sI.contracts, sI.storage, sI.classes, tr, sI.hStorage, sI.hNonce, sI.hClass⟩ : State) = Except.ok _
  rw [f2, f3, f4, f5, f6, hclasses, htrie]
  show Except.ok (⟨s1.contracts, s1.storage, s.classes, s.classTrie, s1.hStorage, s1.hNonce, s1.hClass⟩ : State) = Except.ok _
  rw [e1, e2, e3, e4, e5]

end Juno.C04
