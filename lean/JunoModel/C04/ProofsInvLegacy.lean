import JunoModel.C04.ProofsInvCasm
/-!
C04 helper lemmas, part 14: the invariant of the legacy state and of the CASM/class-trie link, and
that `State.Update` + `storeCasmHashMetadata` maintain it.
-/
set_option linter.unusedSectionVars false
namespace Juno.C04
open Map

/-- Invariant of the state buckets (either backend) at a node whose next block number is `n`. -/
structure StateInv (s : State) (casm : Map Nat CasmMeta) (n : Nat) : Prop where
  sC : Sorted s.contracts
  sSt : Sorted s.storage
  sCl : Sorted s.classes
  sTr : Sorted s.classTrie
  sHS : Sorted s.hStorage
  sHN : Sorted s.hNonce
  sHC : Sorted s.hClass
  sCasm : Sorted casm
  aboveS : ∀ p m, n ≤ m → Map.get s.hStorage (p, m) = none
  aboveN : ∀ a m, n ≤ m → Map.get s.hNonce (a, m) = none
  aboveC : ∀ a m, n ≤ m → Map.get s.hClass (a, m) = none
  nonzero : ∀ p v, Map.get s.storage p = some v → v ≠ 0
  owned : ∀ a k v, Map.get s.storage (a, k) = some v → (Map.get s.contracts a).isSome = true
  genesis : n = 0 → s.contracts = []
  classAt : ∀ c r, Map.get s.classes c = some r → r.declaredAt < n
  trieSub : ∀ c v, Map.get s.classTrie c = some v → (Map.get s.classes c).isSome = true
  /-- the class-trie leaf of a class that is not migrated is the hash its metadata names -/
  casmLink : ∀ c md, Map.get casm c = some md → md.migratedAt = 0 → Map.get s.classTrie c = some md.casmHash

/-- The facts about a new block that juno does not check itself (the protocol guarantees them). -/
structure BlockOK (cfg : Cfg) (nd : Node) (b : Block) : Prop where
  fresh : Fresh nd b
  casmFresh : ∀ c x, Map.get b.diff.declV1 c = some x → Map.get nd.casm c = none
  migVer : b.ver < 2 → b.diff.migrated = []
  dDep : Sorted b.diff.deployed
  dRep : Sorted b.diff.replaced
  dNon : Sorted b.diff.nonces
  dSto : Sorted b.diff.storage
  dDecl : Sorted b.diff.declV1
  dMig : Sorted b.diff.migrated
  dDefs : Sorted b.classes
  depNotSys : ∀ a c, Map.get b.diff.deployed a = some c → isSys a = false
  known0 : ∀ c ∈ b.diff.declV0, (Map.get nd.st.classes c).isSome = true ∨ (Map.get b.classes c).isSome = true
  decl1 : ∀ c h, Map.get b.diff.declV1 c = some h →
    Map.get nd.st.classes c = none ∧ ∃ d, Map.get b.classes c = some d ∧ d.sierra = true
  defsListed : ∀ c d, Map.get b.classes c = some d →
    c ∈ b.diff.declV0 ++ Map.keys b.diff.declV1 ∨
      (cfg.removeImplicitClasses = true ∧ c ∈ b.diff.deployed.map (·.2))

theorem declMeta_casmHash (n : Nat) (b : Block) (c x : Nat) : (declMeta n b c x).casmHash = x := by
  unfold declMeta
  by_cases hv : b.ver ≥ 2 <;> simp [hv, CasmMeta.casmHash]

theorem classTrie_update_get {s : State} {b : Block} (hsd : Sorted b.diff.declV1) (hsm : Sorted b.diff.migrated)
    (hst : Sorted s.classTrie) :
    Sorted (updateClassTrie s.classTrie b) ∧
    ∀ c, Map.get (updateClassTrie s.classTrie b) c =
      match Map.get b.diff.migrated c with
      | some h => some h
      | none => match Map.get b.diff.declV1 c with
        | some h => if Map.has b.classes c = true then some h else Map.get s.classTrie c
        | none => Map.get s.classTrie c := by
  obtain ⟨sT1, gT1⟩ := declTrie_spec b.classes hsd hst
  refine ⟨sorted_setAll sT1 _, ?_⟩
  intro c
  unfold updateClassTrie
  rw [get_setAll hsm, gT1 c]
  cases Map.get b.diff.migrated c <;> rfl

/-- class part of the invariant after `Update` (shared by both backends) -/
theorem classes_inv_step {s : State} {casm casm' : Map Nat CasmMeta} {b : Block}
    (inv : StateInv s casm b.number) (hsd : Sorted b.diff.declV1) (hsm : Sorted b.diff.migrated) (hdefs : Sorted b.classes)
    (hmv : b.ver < 2 → b.diff.migrated = [])
    (hdecl : ∀ c h, Map.get b.diff.declV1 c = some h →
      Map.get s.classes c = none ∧ ∃ d, Map.get b.classes c = some d ∧ d.sierra = true)
    (hfresh : ∀ c x, Map.get b.diff.declV1 c = some x → Map.get casm c = none)
    (hsc : storeCasm b.number b casm = .ok casm') :
    Sorted (registerClasses b.number s.classes b.classes) ∧ Sorted (updateClassTrie s.classTrie b) ∧ Sorted casm' ∧
    (∀ c r, Map.get (registerClasses b.number s.classes b.classes) c = some r → r.declaredAt < b.number + 1) ∧
    (∀ c v, Map.get (updateClassTrie s.classTrie b) c = some v →
      (Map.get (registerClasses b.number s.classes b.classes) c).isSome = true) ∧
    (∀ c md, Map.get casm' c = some md → md.migratedAt = 0 →
      Map.get (updateClassTrie s.classTrie b) c = some md.casmHash) := by
  obtain ⟨sCl', gCl⟩ := registerClasses_spec b.number hdefs inv.sCl
  obtain ⟨sTr', gTr⟩ := classTrie_update_get hsd hsm inv.sTr
  obtain ⟨sCa', gCa, hmig⟩ := storeCasm_info b.number inv.sCasm hsd hsm hmv hsc
  refine ⟨sCl', sTr', sCa', ?_, ?_, ?_⟩
  · intro c r hr
    rw [gCl c] at hr
    cases hg : Map.get s.classes c with
    | some r0 =>
      rw [hg] at hr
      cases hr
      have := inv.classAt c _ hg
      omega
    | none =>
      rw [hg] at hr
      cases hd : Map.get b.classes c with
      | none => rw [hd] at hr; cases hr
      | some d => rw [hd] at hr; cases hr; simp
  · intro c v hv
    rw [gTr c] at hv
    rw [gCl c]
    have hpre : ∀ v, Map.get s.classTrie c = some v →
        (match Map.get s.classes c with
          | some r => some r
          | none => (Map.get b.classes c).map (fun d => (⟨b.number, d⟩ : ClassRec))).isSome = true := by
      intro v hv
      have := inv.trieSub c v hv
      cases hg : Map.get s.classes c with
      | none => rw [hg] at this; cases this
      | some r => rfl
    cases hm : Map.get b.diff.migrated c with
    | some y =>
      obtain ⟨md, hmd, hm0, _, _⟩ := hmig c y hm
      exact hpre _ (inv.casmLink c md hmd hm0)
    | none =>
      rw [hm] at hv
      cases hd : Map.get b.diff.declV1 c with
      | some x =>
        obtain ⟨hn, d, hdd, _⟩ := hdecl c x hd
        rw [hn, hdd]; rfl
      | none =>
        rw [hd] at hv
        exact hpre v hv
  · intro c md hmd hm0
    rw [gCa c] at hmd
    rw [gTr c]
    cases hm : Map.get b.diff.migrated c with
    | some y =>
      rw [hm] at hmd
      obtain ⟨md0, hmd0, _, _, hn⟩ := hmig c y hm
      rw [hmd0] at hmd
      simp only [Option.map_some] at hmd
      cases hmd
      simp at hm0
      omega
    | none =>
      rw [hm] at hmd
      simp only []
      cases hd : Map.get b.diff.declV1 c with
      | some x =>
        rw [hd] at hmd
        cases hmd
        obtain ⟨_, d, hdd, _⟩ := hdecl c x hd
        have hh : Map.has b.classes c = true := by unfold Map.has; rw [hdd]; rfl
        simp only [hh, if_true]
        rw [declMeta_casmHash]
      | none =>
        rw [hd] at hmd
        exact inv.casmLink c md hmd hm0

/-- presence of contracts along the forward steps -/
theorem contracts_forward_some {n : Nat} {b : Block} {s0 cs0 cs1 cs2 cs3 : Map Nat Contract}
    (hs : Sorted s0) (dDep : Sorted b.diff.deployed) (dRep : Sorted b.diff.replaced) (dNon : Sorted b.diff.nonces)
    (h0 : applyDeployed n s0 b.diff.deployed = .ok cs0)
    (h1 : applyReplaced cs0 b.diff.replaced = .ok cs1)
    (h2 : applyNonces cs1 b.diff.nonces = .ok cs2)
    (h3 : touchStorage n cs2 b.diff.storage = .ok cs3) :
    Sorted cs3 ∧ (∀ a, (Map.get s0 a).isSome = true → (Map.get cs3 a).isSome = true) ∧
    (∀ a, a ∈ addrsOf b.diff.storage → (Map.get cs3 a).isSome = true) := by
  obtain ⟨sc0, g0, f0⟩ := applyDeployed_spec n dDep hs h0
  unfold applyReplaced at h1
  unfold applyNonces at h2
  obtain ⟨sc1, g1, _⟩ := updAll_spec _ _ _ dRep sc0 h1
  obtain ⟨sc2, g2, _⟩ := updAll_spec _ _ _ dNon sc1 h2
  obtain ⟨sc3, g3, f3⟩ := touchStorage_spec n b.diff.storage sc2 h3
  have p01 : ∀ a, (Map.get cs0 a).isSome = true → (Map.get cs2 a).isSome = true := by
    intro a h
    rw [g2 a, g1 a]
    cases hg : Map.get cs0 a with
    | none => rw [hg] at h; cases h
    | some ct => cases Map.get b.diff.nonces a <;> cases Map.get b.diff.replaced a <;> rfl
  have p23 : ∀ a, (Map.get cs2 a).isSome = true → (Map.get cs3 a).isSome = true := by
    intro a h
    rw [g3 a]
    cases hg : Map.get cs2 a with
    | none => rw [hg] at h; cases h
    | some ct => simp
  refine ⟨sc3, ?_, ?_⟩
  · intro a h
    apply p23; apply p01
    rw [g0 a]
    cases hd : Map.get b.diff.deployed a with
    | some c => rfl
    | none => exact h
  · intro a ha
    rw [g3 a]
    rcases f3 a ha with h | h
    · cases hg : Map.get cs2 a with
      | none => rw [hg] at h; cases h
      | some ct => simp
    · cases hg : Map.get cs2 a with
      | none => simp [h, ha]
      | some ct => simp

theorem mem_addrsOf_of_get {sto : Map (Nat × Nat) Nat} {a k v : Nat} (h : Map.get sto (a, k) = some v) :
    a ∈ addrsOf sto := by
  unfold addrsOf
  exact List.mem_map.2 ⟨((a, k), v), mem_keys_of_get h, rfl⟩

/-- `State.Update` of the legacy backend (and `storeCasmHashMetadata`) maintain the invariant. -/
theorem legacy_update_inv {cfg : Cfg} (hleg : cfg.legacy = true) (hpu : cfg.legacyPurgeOnUpdate = false)
    {s s' : State} {casm casm' : Map Nat CasmMeta} {b : Block}
    (inv : StateInv s casm b.number)
    (dDep : Sorted b.diff.deployed) (dRep : Sorted b.diff.replaced) (dNon : Sorted b.diff.nonces)
    (dSto : Sorted b.diff.storage) (hsd : Sorted b.diff.declV1) (hsm : Sorted b.diff.migrated) (hdefs : Sorted b.classes)
    (hmv : b.ver < 2 → b.diff.migrated = [])
    (hdecl : ∀ c h, Map.get b.diff.declV1 c = some h →
      Map.get s.classes c = none ∧ ∃ d, Map.get b.classes c = some d ∧ d.sierra = true)
    (hfresh : ∀ c x, Map.get b.diff.declV1 c = some x → Map.get casm c = none)
    (hsc : storeCasm b.number b casm = .ok casm')
    (h : updateState cfg b s = .ok s') : StateInv s' casm' (b.number + 1) := by
  obtain ⟨_, _, cs0, cs1, cs2, cs3, h0, h1, h2, h3, hs'⟩ := legacy_forward hleg hpu h
  obtain ⟨k1, k2, k3, k4, k5, k6⟩ := classes_inv_step inv hsd hsm hdefs hmv hdecl hfresh hsc
  obtain ⟨sc3, pS, pA⟩ := contracts_forward_some inv.sC dDep dRep dNon h0 h1 h2 h3
  obtain ⟨wS, sHS', gHS⟩ := writeStorageLegacy_spec b.number true dSto inv.sSt inv.sHS
  obtain ⟨sSt', gSt⟩ := writeStorage_spec inv.sSt dSto
  obtain ⟨sHN', gHN⟩ := logOld_spec b.number cs1 (·.nonce) (Map.keys b.diff.nonces) inv.sHN
  obtain ⟨sHC', gHC⟩ := logOld_spec b.number cs0 (·.classHash) (Map.keys b.diff.replaced) inv.sHC
  subst hs'
  refine { sC := sc3, sSt := by rw [wS]; exact sSt', sCl := k1, sTr := k2, sHS := sHS', sHN := sHN', sHC := sHC', sCasm := k3,
           aboveS := ?_, aboveN := ?_, aboveC := ?_, nonzero := ?_, owned := ?_, genesis := fun h => by omega,
           classAt := k4, trieSub := k5, casmLink := k6 }
  · intro p m hm
    show Map.get (writeStorageLegacy b.number s.storage s.hStorage true b.diff.storage).2 (p, m) = none
    rw [gHS p m]
    have hne : ¬ m = b.number := by omega
    cases Map.get b.diff.storage p <;> simp [hne, inv.aboveS p m (by omega)]
  · intro a m hm
    show Map.get (logOld b.number cs1 (·.nonce) s.hNonce (Map.keys b.diff.nonces)) (a, m) = none
    rw [gHN a m]
    have hne : ¬ m = b.number := by omega
    simp [hne, inv.aboveN a m (by omega)]
  · intro a m hm
    show Map.get (logOld b.number cs0 (·.classHash) s.hClass (Map.keys b.diff.replaced)) (a, m) = none
    rw [gHC a m]
    have hne : ¬ m = b.number := by omega
    simp [hne, inv.aboveC a m (by omega)]
  · intro p v hv
    have hv' : Map.get (writeStorage s.storage b.diff.storage) p = some v := by rw [← wS]; exact hv
    rw [gSt p] at hv'
    cases hd : Map.get b.diff.storage p with
    | none => rw [hd] at hv'; exact inv.nonzero p v hv'
    | some x =>
      rw [hd] at hv'
      by_cases hx : x = 0
      · simp [hx] at hv'
      · simp [hx] at hv'; omega
  · intro a k v hv
    have hv' : Map.get (writeStorage s.storage b.diff.storage) (a, k) = some v := by rw [← wS]; exact hv
    rw [gSt (a, k)] at hv'
    show (Map.get cs3 a).isSome = true
    cases hd : Map.get b.diff.storage (a, k) with
    | none => rw [hd] at hv'; exact pS a (inv.owned a k v hv')
    | some x => exact pA a (mem_addrsOf_of_get hd)

end Juno.C04
