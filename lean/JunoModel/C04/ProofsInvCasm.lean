import JunoModel.C04.ProofsLegacy3
/-!
C04 helper lemmas, part 13: what a successful `storeCasmHashMetadata` tells about the metadata
bucket, and that `insert` maintains the invariant of the running event filter.
-/
set_option linter.unusedSectionVars false
namespace Juno.C04
open Map

/-- the metadata `storeCasm` writes for a declared Sierra class -/
def declMeta (n : Nat) (b : Block) (c x : Nat) : CasmMeta :=
  if b.ver ≥ 2 then ⟨n, x, 0, none⟩ else ⟨n, ((Map.get b.classes c).map (·.v2)).getD 0, 0, some x⟩

theorem storeCasm_info {casm casm' : Map Nat CasmMeta} {b : Block} (n : Nat)
    (hs : Sorted casm) (hsd : Sorted b.diff.declV1) (hsm : Sorted b.diff.migrated)
    (hmv : b.ver < 2 → b.diff.migrated = [])
    (h : storeCasm n b casm = .ok casm') :
    Sorted casm' ∧
    (∀ c, Map.get casm' c =
      match Map.get b.diff.migrated c with
      | some _ => (Map.get casm c).map (fun md => { md with migratedAt := n })
      | none => match Map.get b.diff.declV1 c with
        | some x => some (declMeta n b c x)
        | none => Map.get casm c) ∧
    (∀ c y, Map.get b.diff.migrated c = some y →
      ∃ md, Map.get casm c = some md ∧ md.migratedAt = 0 ∧ Map.get b.diff.declV1 c = none ∧ 0 < n) := by
  unfold storeCasm at h
  by_cases hv : b.ver ≥ 2
  · simp only [hv, if_true] at h
    split at h
    rotate_left
    · cases h
    have hc1 : Sorted (setAll casm (b.diff.declV1.map (fun e => (e.1, (⟨n, e.2, 0, none⟩ : CasmMeta))))) :=
      sorted_setAll hs _
    obtain ⟨hs', hget, hall⟩ := updAll_spec _ _ _ hsm hc1 h
    have hpos : ∀ c y, Map.get b.diff.migrated c = some y →
        ∃ md, Map.get casm c = some md ∧ md.migratedAt = 0 ∧ Map.get b.diff.declV1 c = none ∧ 0 < n := by
      intro k y hky
      obtain ⟨v, hv1, hbad⟩ := hall k y hky
      rw [get_setAll_mapVal hsd] at hv1
      cases hx : Map.get b.diff.declV1 k with
      | some x =>
        rw [hx] at hv1
        cases hv1
        simp at hbad
      | none =>
        rw [hx] at hv1
        simp only [Bool.or_eq_false_iff, decide_eq_false_iff_not, Nat.not_le, Nat.not_lt, Nat.le_zero_eq] at hbad
        exact ⟨v, hv1, hbad.2, rfl, by omega⟩
    refine ⟨hs', ?_, hpos⟩
    intro c
    rw [hget c, get_setAll_mapVal hsd]
    cases hm : Map.get b.diff.migrated c with
    | some y =>
      obtain ⟨md, hmd, _, hd, _⟩ := hpos c y hm
      simp only [hd, hmd]
    | none =>
      simp only []
      cases hd : Map.get b.diff.declV1 c with
      | none => rfl
      | some x => simp [declMeta, hv]
  · simp only [hv, if_false] at h
    have hmig : b.diff.migrated = [] := hmv (by omega)
    split at h
    · cases h
      refine ⟨sorted_setAll hs _, ?_, ?_⟩
      · intro c
        rw [get_setAll_mapVal hsd, hmig]
        simp only [Map.get]
        cases hd : Map.get b.diff.declV1 c with
        | none => rfl
        | some x => simp [declMeta, hv]
      · intro c y hcy
        rw [hmig] at hcy
        simp [Map.get] at hcy
    · cases h

/-- Invariant of the running event filter and the persisted windows at a node whose next block
number is `n`. -/
structure FilterInv (cfg : Cfg) (f : Filter) (p : Map Nat (Map Nat Nat)) (n : Nat) : Prop where
  wpos : 0 < cfg.window
  next : f.next = n
  lo : f.fromBlock ≤ n
  hi : n ≤ f.fromBlock + cfg.window - 1
  aligned : f.fromBlock % cfg.window = 0
  sb : Sorted f.blooms
  sp : Sorted p
  bloomsAbove : ∀ m, n ≤ m → Map.get f.blooms m = none
  noAbove : ∀ m, f.fromBlock ≤ m → Map.get p m = none

theorem FilterInv.toOK {cfg : Cfg} {f : Filter} {p : Map Nat (Map Nat Nat)} {n : Nat} (h : FilterInv cfg f p n) :
    FilterOK cfg f p n :=
  ⟨h.wpos, h.next, h.lo, h.hi, h.aligned, h.sb, h.sp, h.bloomsAbove n (Nat.le_refl _), h.noAbove _ (Nat.le_refl _),
    h.noAbove _ (by have := h.lo; omega)⟩

theorem filterInsert_inv {cfg : Cfg} {f f' : Filter} {p p' : Map Nat (Map Nat Nat)} {bloom n : Nat}
    (inv : FilterInv cfg f p n) (h : filterInsert cfg f p bloom n = .ok (f', p')) : FilterInv cfg f' p' (n + 1) := by
  obtain ⟨wpos, hnext, lo, hi, hal, sb, sp, hba, hna⟩ := inv
  unfold filterInsert at h
  have hr : (n < f.fromBlock || f.fromBlock + cfg.window - 1 < n) = false := by
    simp only [Bool.or_eq_false_iff, decide_eq_false_iff_not]; omega
  simp only [hr, Bool.false_eq_true, if_false] at h
  have sb' : Sorted (if bloom = 0 then f.blooms else Map.set f.blooms n bloom) := by
    split
    · exact sb
    · exact sorted_set sb _ _
  by_cases hlast : n = f.fromBlock + cfg.window - 1
  · simp only [hlast, if_true] at h
    injection h with h
    injection h with hf hp
    subst hf; subst hp
    refine ⟨wpos, by simp [hlast], by simp [hlast], by simp only [hlast]; omega, ?_, trivial, sorted_set sp _ _, fun _ _ => rfl, ?_⟩
    · show (f.fromBlock + cfg.window - 1 + 1) % cfg.window = 0
      have : f.fromBlock + cfg.window - 1 + 1 = f.fromBlock + cfg.window := by omega
      rw [this, Nat.add_mod_right]; exact hal
    · intro m hm
      have hm' : f.fromBlock + cfg.window - 1 + 1 ≤ m := hm
      have hne : m ≠ f.fromBlock := by omega
      rw [get_set_ne _ _ hne]
      exact hna m (by omega)
  · simp only [hlast, if_false] at h
    injection h with h
    injection h with hf hp
    subst hf; subst hp
    refine ⟨wpos, rfl, by simp only []; omega, by simp only []; omega, hal, sb', sp, ?_, hna⟩
    intro m hm
    show Map.get (if bloom = 0 then f.blooms else Map.set f.blooms n bloom) m = none
    split
    · exact hba m (by omega)
    · rw [get_set_ne _ _ (by omega : m ≠ n)]; exact hba m (by omega)

end Juno.C04
