import JunoModel.C04.ProofsInvNew
import JunoModel.C04.ProofsInv
/-!
C04 helper lemmas, part 15: the node invariant, its preservation by `Store`, and the nodes reachable
by `Store`/`RevertHead` from the empty node (`Good`).
-/
set_option linter.unusedSectionVars false
namespace Juno.C04
open Map

theorem store_parts {cfg : Cfg} {nd nd' : Node} {b : Block} (h : store cfg nd b = .ok nd') :
    ∃ st' casm' f' p',
      b.number = nd.nextNumber ∧
      updateState cfg b nd.st = .ok st' ∧ storeCasm b.number b nd.casm = .ok casm' ∧
      filterInsert cfg nd.running nd.persisted b.bloom b.number = .ok (f', p') ∧
      nd' = { height := some b.number,
              headers := Map.set nd.headers b.number ⟨b.hash, b.parent, b.ver, b.bloom, b.payload, b.newRoot⟩,
              numByHash := Map.set nd.numByHash b.hash b.number,
              blockTxs := Map.set nd.blockTxs b.number b.txs,
              txLoc := indexTxs b.number nd.txLoc b.txs,
              l1msg := indexL1 nd.l1msg b.txs,
              sus := Map.set nd.sus b.number ⟨b.diff, b.oldRoot, b.newRoot⟩,
              commitments := Map.set nd.commitments b.number b.payload,
              casm := casm', persisted := p', running := f', st := st' } := by
  unfold store at h
  cases hsucc : checkSuccession nd b with
  | error e => simp [hsucc, bind, Except.bind] at h
  | ok u =>
    have hn : b.number = nd.nextNumber := checkSuccession_number hsucc
    cases hus : updateState cfg b nd.st with
    | error e => simp [hsucc, hus, bind, Except.bind] at h
    | ok st' =>
      cases hsc : storeCasm b.number b nd.casm with
      | error e => simp [hsucc, hus, hsc, bind, Except.bind] at h
      | ok casm' =>
        cases hfi : filterInsert cfg nd.running nd.persisted b.bloom b.number with
        | error e => simp [hsucc, hus, hsc, hfi, bind, Except.bind] at h
        | ok fp =>
          obtain ⟨f', p'⟩ := fp
          simp only [hsucc, hus, hsc, hfi, bind, Except.bind, pure, Except.pure] at h
          injection h with h
          exact ⟨st', casm', f', p', hn, rfl, rfl, rfl, h.symm⟩

/-- The invariant of a node. -/
structure NodeInv (cfg : Cfg) (nd : Node) : Prop where
  index : IndexWF nd
  filter : FilterInv cfg nd.running nd.persisted nd.nextNumber
  state : StateInv nd.st nd.casm nd.nextNumber
  newInv : cfg.legacy = false → NewInv nd.st nd.nextNumber

theorem init_NodeInv (cfg : Cfg) (hw : 0 < cfg.window) : NodeInv cfg Node.init where
  index := init_IndexWF
  filter := ⟨hw, rfl, Nat.le_refl _, by show 0 ≤ 0 + cfg.window - 1; omega, Nat.zero_mod _, trivial, trivial,
    fun _ _ => rfl, fun _ _ => rfl⟩
  state := ⟨trivial, trivial, trivial, trivial, trivial, trivial, trivial, trivial, fun _ _ _ => rfl, fun _ _ _ => rfl,
    fun _ _ _ => rfl, fun p v h => by simp [Node.init, State.empty, Map.get] at h,
    fun a k v h => by simp [Node.init, State.empty, Map.get] at h, fun _ => rfl,
    fun c r h => by simp [Node.init, State.empty, Map.get] at h,
    fun c v h => by simp [Node.init, State.empty, Map.get] at h,
    fun c md h => by simp [Node.init, Map.get] at h⟩
  newInv := fun _ =>
    { histS := fun p m _ => by
        rw [valueAtNew_none _ _ _ (fun _ => rfl)]; rfl
      histN := fun p m _ => by
        rw [valueAtNew_none _ _ _ (fun _ => rfl)]; rfl
      histC := fun p m _ => by
        rw [valueAtNew_none _ _ _ (fun _ => rfl)]; rfl
      sysNonEmpty := fun a _ h => by simp [Node.init, State.empty, Map.get] at h }

/-- The situations in which the code as found cannot undo a block (each with a proved
counterexample in `Props.lean`). -/
structure Safe (cfg : Cfg) (nd : Node) (b : Block) : Prop where
  /-- legacy backend: no system contract with empty storage exists (`revert_total_legacy_counterexample`) -/
  noEmptySys : cfg.legacy = true → ∀ a, isSys a = true → (Map.get nd.st.contracts a).isSome = true →
    storageEmpty nd.st.storage a = false
  /-- new backend: the block does not leave an existing system contract with empty storage
  (`newstate_system_contract_height_counterexample`) -/
  noSysEmptied : cfg.legacy = false → ∀ a, isSys a = true → (Map.get nd.st.contracts a).isSome = true →
    storageEmpty (writeStorage nd.st.storage b.diff.storage) a = false
  /-- before 702b167: the block does not close a filter window (`reopened_window_kept_before_702b167`) -/
  window : cfg.dropReopenedWindow = true ∨ b.number ≠ nd.running.fromBlock + cfg.window - 1

theorem store_inv {cfg : Cfg} (hc : cfg.asFound) {nd nd' : Node} {b : Block}
    (inv : NodeInv cfg nd) (ok : BlockOK cfg nd b) (safe : Safe cfg nd b) (h : store cfg nd b = .ok nd') : NodeInv cfg nd' := by
  obtain ⟨hidx, hnext⟩ := store_preserves_IndexWF inv.index h
  obtain ⟨st', casm', f', p', hn, hus, hsc, hfi, hnd⟩ := store_parts h
  have sinv : StateInv nd.st nd.casm b.number := hn ▸ inv.state
  have finv : FilterInv cfg nd.running nd.persisted b.number := hn ▸ inv.filter
  have f'' := filterInsert_inv finv hfi
  cases hleg : cfg.legacy with
  | true =>
    obtain ⟨_, hpu, _⟩ := hc.2 hleg
    have s' := legacy_update_inv hleg hpu sinv ok.dDep ok.dRep ok.dNon ok.dSto ok.dDecl ok.dMig ok.dDefs ok.migVer
      ok.decl1 ok.casmFresh hsc hus
    refine ⟨hidx, ?_, ?_, fun h => by rw [hleg] at h; cases h⟩
    · rw [hnext, ← hn, hnd]; exact f''
    · rw [hnext, ← hn, hnd]; exact s'
  | false =>
    have ninv : NewInv nd.st b.number := hn ▸ inv.newInv hleg
    obtain ⟨s', n'⟩ := new_update_inv hleg sinv ninv ok.dDep ok.dRep ok.dNon ok.dSto ok.dDecl ok.dMig ok.dDefs ok.migVer
      ok.decl1 ok.casmFresh ok.depNotSys (safe.noSysEmptied hleg) hsc hus
    refine ⟨hidx, ?_, ?_, fun _ => ?_⟩
    · rw [hnext, ← hn, hnd]; exact f''
    · rw [hnext, ← hn, hnd]; exact s'
    · rw [hnext, ← hn, hnd]; exact n'

/-- From the invariant and the protocol facts to the hypotheses of the one-step theorem. -/
theorem stepOK_of_inv {cfg : Cfg} (hc : cfg.asFound) {nd nd' : Node} {b : Block}
    (inv : NodeInv cfg nd) (ok : BlockOK cfg nd b) (safe : Safe cfg nd b)
    (h : store cfg nd b = .ok nd') : StepOK cfg nd b := by
  obtain ⟨st', casm', f', p', hn, hus, hsc, hfi, hnd⟩ := store_parts h
  have sinv : StateInv nd.st nd.casm b.number := hn ▸ inv.state
  have finv : FilterInv cfg nd.running nd.persisted b.number := hn ▸ inv.filter
  refine { index := inv.index, fresh := ok.fresh,
           casm := ⟨sinv.sCasm, ok.dDecl, ok.dMig, ok.casmFresh, ok.migVer⟩,
           filter := finv.toOK, window := safe.window, state := ?_ }
  intro casm'' hsc'' st'' hus''
  obtain ⟨_, gCa, hmig⟩ := storeCasm_info b.number sinv.sCasm ok.dDecl ok.dMig ok.migVer hsc''
  have cls : ClassesOK cfg nd.st casm'' b :=
    { sCl := sinv.sCl, sTr := sinv.sTr, classAt := sinv.classAt, trieSub := sinv.trieSub,
      dDecl := ok.dDecl, dMig := ok.dMig, dDefs := ok.dDefs, nodup := fun h => absurd hc.dupTolerant (by simp [h]), known0 := ok.known0, decl1 := ok.decl1,
      defsListed := ok.defsListed,
      migOK := fun c y hcy => by
        obtain ⟨md, hmd, hm0, _, hpos⟩ := hmig c y hcy
        refine ⟨{ md with migratedAt := b.number }, ?_, ?_, ?_⟩
        · rw [gCa c, hcy, hmd]; rfl
        · show b.number ≠ 0; omega
        · have := sinv.casmLink c md hmd hm0
          rw [this]
          cases md
          simp_all }
  cases hleg : cfg.legacy with
  | true =>
    obtain ⟨hfix, hpu, _⟩ := hc.2 hleg
    exact legacy_revert_update hleg hfix hpu
      { toClassesOK := cls,
        sC := sinv.sC, sSt := sinv.sSt, sHS := sinv.sHS, sHN := sinv.sHN, sHC := sinv.sHC,
        aboveS := sinv.aboveS, aboveN := sinv.aboveN, aboveC := sinv.aboveC, nonzero := sinv.nonzero, owned := sinv.owned,
        genesis := sinv.genesis, noEmptySys := safe.noEmptySys hleg, dDep := ok.dDep, dRep := ok.dRep, dNon := ok.dNon,
        dSto := ok.dSto, depNotSys := ok.depNotSys } hus''
  | false =>
    have ninv : NewInv nd.st b.number := hn ▸ inv.newInv hleg
    exact new_revert_update hleg
      { toClassesOK := cls,
        sC := sinv.sC, sSt := sinv.sSt, sHS := sinv.sHS, sHN := sinv.sHN, sHC := sinv.sHC,
        aboveS := sinv.aboveS, aboveN := sinv.aboveN, aboveC := sinv.aboveC, nonzero := sinv.nonzero, owned := sinv.owned,
        genesis := sinv.genesis, histS := ninv.histS, histN := ninv.histN, histC := ninv.histC,
        sysNonEmpty := ninv.sysNonEmpty, noSysEmptied := safe.noSysEmptied hleg,
        dDep := ok.dDep, dRep := ok.dRep, dNon := ok.dNon, dSto := ok.dSto, depNotSys := ok.depNotSys } hus''

/-- What a history must respect when it stores block `b` on node `nd`: the protocol facts
(`BlockOK`) and the exclusions of `Safe`. -/
structure StoreOK (cfg : Cfg) (nd : Node) (b : Block) : Prop where
  block : BlockOK cfg nd b
  safe : Safe cfg nd b

/-- The nodes reachable from the empty node by successful `Store`s of acceptable blocks. (That
`RevertHead` never leaves this set is `good_revert`.) -/
inductive Good (cfg : Cfg) : Node → Prop where
  | init : Good cfg Node.init
  | store {nd nd' : Node} {b : Block} : Good cfg nd → StoreOK cfg nd b → store cfg nd b = .ok nd' → Good cfg nd'

theorem good_inv {cfg : Cfg} (hc : cfg.asFound) {nd : Node} (g : Good cfg nd) : NodeInv cfg nd := by
  induction g with
  | init => exact init_NodeInv cfg hc.1
  | store _ ok h ih => exact store_inv hc ih ok.block ok.safe h

theorem store_height {cfg : Cfg} {nd nd' : Node} {b : Block} (h : store cfg nd b = .ok nd') : nd'.height = some b.number := by
  obtain ⟨_, _, _, _, _, _, _, _, hnd⟩ := store_parts h
  rw [hnd]

/-- `RevertHead` succeeds on every reachable node that has a head, and leads to a reachable node:
the one before the head block was stored. -/
theorem good_revert {cfg : Cfg} (hc : cfg.asFound) {nd' : Node} (g : Good cfg nd')
    (hh : nd'.height ≠ none) : ∃ nd, revert cfg nd' = .ok nd ∧ Good cfg nd := by
  cases g with
  | init => exact absurd rfl hh
  | store g0 ok h =>
    rename_i nd b
    have inv := good_inv hc g0
    have hstep := stepOK_of_inv hc inv ok.block ok.safe h
    exact ⟨nd, revert_store_step hstep h, g0⟩

inductive Op where
  | store (b : Block)
  | revert

/-- one operation; a failing operation leaves the node unchanged (everything is in one batch) -/
def step (cfg : Cfg) (nd : Node) : Op → Node
  | .store b => match store cfg nd b with | .ok nd' => nd' | .error _ => nd
  | .revert => match revert cfg nd with | .ok nd' => nd' | .error _ => nd

def run (cfg : Cfg) (nd : Node) (ops : List Op) : Node := ops.foldl (step cfg) nd

/-- every block the history stores successfully is acceptable on the node it is stored on -/
def HistOK (cfg : Cfg) : Node → List Op → Prop
  | _, [] => True
  | nd, .store b :: ops => (∀ nd', store cfg nd b = .ok nd' → StoreOK cfg nd b) ∧ HistOK cfg (step cfg nd (.store b)) ops
  | nd, .revert :: ops => HistOK cfg (step cfg nd .revert) ops

theorem revert_noHead {cfg : Cfg} {nd : Node} (h : nd.height = none) : revert cfg nd = .error .noHead := by
  unfold revert
  simp [h, bind, Except.bind, throw, throwThe, MonadExceptOf.throw]

theorem step_good {cfg : Cfg} (hc : cfg.asFound) {nd : Node} (g : Good cfg nd) (op : Op)
    (hop : match op with | .store b => (∀ nd', store cfg nd b = .ok nd' → StoreOK cfg nd b) | .revert => True) :
    Good cfg (step cfg nd op) := by
  cases op with
  | store b =>
    simp only [step]
    cases hs : store cfg nd b with
    | error e => exact g
    | ok nd' => exact Good.store g (hop nd' hs) hs
  | revert =>
    simp only [step]
    cases hh : nd.height with
    | none => rw [revert_noHead hh]; exact g
    | some x =>
      obtain ⟨nd0, hr, g0⟩ := good_revert hc g (by rw [hh]; intro e; cases e)
      rw [hr]; exact g0

/-- Reachability: every node a valid history of stores and reverts produces from a reachable node is
reachable (hence satisfies the invariant and can be reverted). -/
theorem run_good {cfg : Cfg} (hc : cfg.asFound) (ops : List Op) :
    ∀ {nd : Node}, Good cfg nd → HistOK cfg nd ops → Good cfg (run cfg nd ops) := by
  induction ops with
  | nil => intro nd g _; exact g
  | cons op ops ih =>
    intro nd g hok
    cases op with
    | store b =>
      obtain ⟨h1, h2⟩ := hok
      exact ih (step_good hc g (.store b) h1) h2
    | revert => exact ih (step_good hc g .revert trivial) hok

/-- per-step acceptability along a chain of blocks -/
def ChainStoreOK (cfg : Cfg) : Node → List Block → Prop
  | _, [] => True
  | nd, b :: bs => StoreOK cfg nd b ∧ ∀ nd', store cfg nd b = .ok nd' → ChainStoreOK cfg nd' bs

theorem revertN_storeAll_good {cfg : Cfg} (hc : cfg.asFound) (bs : List Block) :
    ∀ {nd ndA : Node}, Good cfg nd → ChainStoreOK cfg nd bs → storeAll cfg nd bs = .ok ndA →
      revertN cfg ndA bs.length = .ok nd ∧ Good cfg ndA := by
  induction bs with
  | nil =>
    intro nd ndA g _ h
    simp only [storeAll] at h
    cases h
    exact ⟨rfl, g⟩
  | cons b bs ih =>
    intro nd ndA g hok h
    obtain ⟨hstep, hrest⟩ := hok
    simp only [storeAll] at h
    cases hs : store cfg nd b with
    | error e => rw [hs] at h; cases h
    | ok nd1 =>
      rw [hs] at h
      have g1 := Good.store g hstep hs
      obtain ⟨h1, gA⟩ := ih g1 (hrest nd1 hs) h
      refine ⟨?_, gA⟩
      show (match revertN cfg ndA bs.length with | .ok nd' => revert cfg nd' | .error e => .error e) = _
      rw [h1]
      exact revert_store_step (stepOK_of_inv hc (good_inv hc g) hstep.block hstep.safe hs) hs

/-! ### The chain a history leaves behind -/

/-- successful stores push their block, successful reverts pop the head block -/
def netStep (cfg : Cfg) (p : Node × List Block) : Op → Node × List Block
  | .store b => match store cfg p.1 b with | .ok nd' => (nd', b :: p.2) | .error _ => p
  | .revert => match revert cfg p.1 with | .ok nd' => (nd', p.2.tail) | .error _ => p

/-- the blocks (oldest first) that were stored and not reverted afterwards -/
def net (cfg : Cfg) (ops : List Op) : List Block := ((ops.foldl (netStep cfg) (Node.init, [])).2).reverse

/-- `nd` is what storing the blocks `st` (newest first) on the empty node gives, every step acceptable -/
inductive Hist (cfg : Cfg) : Node → List Block → Prop where
  | init : Hist cfg Node.init []
  | store {nd nd' : Node} {st : List Block} {b : Block} :
      Hist cfg nd st → StoreOK cfg nd b → store cfg nd b = .ok nd' → Hist cfg nd' (b :: st)

theorem hist_good {cfg : Cfg} {nd : Node} {st : List Block} (h : Hist cfg nd st) : Good cfg nd := by
  induction h with
  | init => exact Good.init
  | store _ ok hs ih => exact Good.store ih ok hs

theorem storeAll_snoc (cfg : Cfg) (bs : List Block) (b : Block) :
    ∀ (nd nd1 nd2 : Node), storeAll cfg nd bs = .ok nd1 → store cfg nd1 b = .ok nd2 → storeAll cfg nd (bs ++ [b]) = .ok nd2 := by
  induction bs with
  | nil =>
    intro nd nd1 nd2 h1 h2
    simp only [storeAll] at h1
    cases h1
    simp only [List.nil_append, storeAll, h2]
  | cons x xs ih =>
    intro nd nd1 nd2 h1 h2
    simp only [storeAll] at h1
    cases hx : store cfg nd x with
    | error e => rw [hx] at h1; cases h1
    | ok ndx =>
      rw [hx] at h1
      simp only [List.cons_append, storeAll, hx]
      exact ih ndx nd1 nd2 h1 h2

theorem hist_storeAll {cfg : Cfg} {nd : Node} {st : List Block} (h : Hist cfg nd st) :
    storeAll cfg Node.init st.reverse = .ok nd := by
  induction h with
  | init => rfl
  | store _ _ hs ih =>
    rw [List.reverse_cons]
    exact storeAll_snoc cfg _ _ _ _ _ ih hs

theorem netStep_hist {cfg : Cfg} (hc : cfg.asFound) {nd : Node} {st : List Block} (h : Hist cfg nd st) (op : Op)
    (hop : match op with | .store b => (∀ nd', store cfg nd b = .ok nd' → StoreOK cfg nd b) | .revert => True) :
    Hist cfg (netStep cfg (nd, st) op).1 (netStep cfg (nd, st) op).2 ∧ (netStep cfg (nd, st) op).1 = step cfg nd op := by
  cases op with
  | store b =>
    simp only [netStep, step]
    cases hs : store cfg nd b with
    | error e => exact ⟨h, rfl⟩
    | ok nd' => exact ⟨Hist.store h (hop nd' hs) hs, rfl⟩
  | revert =>
    simp only [netStep, step]
    cases h with
    | init =>
      rw [revert_noHead (cfg := cfg) (nd := Node.init) rfl]
      exact ⟨Hist.init, rfl⟩
    | store h0 ok hs =>
      rename_i nd0 st0 b
      have hstep := stepOK_of_inv hc (good_inv hc (hist_good h0)) ok.block ok.safe hs
      rw [revert_store_step hstep hs]
      exact ⟨h0, rfl⟩

/-- A history from a node with known chain: the node reached is the one the history computes with
failing operations skipped, and its chain is the net chain. -/
theorem foldl_netStep {cfg : Cfg} (hc : cfg.asFound) (ops : List Op) :
    ∀ {nd : Node} {st : List Block}, Hist cfg nd st → HistOK cfg nd ops →
      Hist cfg (ops.foldl (netStep cfg) (nd, st)).1 (ops.foldl (netStep cfg) (nd, st)).2 ∧
      (ops.foldl (netStep cfg) (nd, st)).1 = run cfg nd ops := by
  induction ops with
  | nil => intro nd st h _; exact ⟨h, rfl⟩
  | cons op ops ih =>
    intro nd st h hok
    cases op with
    | store b =>
      obtain ⟨h1, h2⟩ := hok
      obtain ⟨hh, he⟩ := netStep_hist hc h (.store b) h1
      have := ih (nd := (netStep cfg (nd, st) (.store b)).1) (st := (netStep cfg (nd, st) (.store b)).2) hh (by rw [he]; exact h2)
      simp only [List.foldl_cons, run]
      rw [← he]
      exact this
    | revert =>
      obtain ⟨hh, he⟩ := netStep_hist hc h .revert trivial
      have := ih (nd := (netStep cfg (nd, st) .revert).1) (st := (netStep cfg (nd, st) .revert).2) hh (by rw [he]; exact hok)
      simp only [List.foldl_cons, run]
      rw [← he]
      exact this

/-! ### Helpers for the concrete instances in `Props.lean` (non-vacuity) -/

def nodeOf (r : Except Err Node) : Node := match r with | .ok n => n | .error _ => Node.init
theorem eq_ok_nodeOf {r : Except Err Node} (h : r.toOption.isSome = true) : r = .ok (nodeOf r) := by
  cases r with
  | ok n => rfl
  | error e => cases h

theorem withRoots_eq (cfg : Cfg) (nd : Node) (b : Block) :
    ∃ r1 r2, withRoots cfg nd b = { b with oldRoot := r1, newRoot := r2 } := by
  unfold withRoots
  dsimp only
  split
  · exact ⟨_, _, rfl⟩
  · exact ⟨_, _, rfl⟩

/-- `StoreOK` does not look at the two roots. -/
theorem storeOK_withRoots {cfg : Cfg} {nd : Node} {b : Block} (ok : StoreOK cfg nd b) :
    StoreOK cfg nd (withRoots cfg nd b) := by
  obtain ⟨r1, r2, h⟩ := withRoots_eq cfg nd b
  rw [h]
  exact ⟨⟨⟨ok.block.fresh.hash, ok.block.fresh.txs, ok.block.fresh.msgs⟩, ok.block.casmFresh, ok.block.migVer,
      ok.block.dDep, ok.block.dRep, ok.block.dNon, ok.block.dSto, ok.block.dDecl, ok.block.dMig, ok.block.dDefs,
      ok.block.depNotSys, ok.block.known0, ok.block.decl1, ok.block.defsListed⟩,
    ⟨ok.safe.noEmptySys, ok.safe.noSysEmptied, ok.safe.window⟩⟩

theorem sys_cases {a : Nat} (h : isSys a = true) : a = 1 ∨ a = 2 := by
  simpa [isSys] using h

theorem all_of_get {κ ν : Type} [DecidableEq κ] [KOrd κ] {m : Map κ ν} {P : κ → ν → Prop} (h : ∀ e ∈ m, P e.1 e.2) :
    ∀ k v, Map.get m k = some v → P k v :=
  fun k v hg => h (k, v) (mem_keys_of_get hg)


end Juno.C04
