import JunoModel.C04.ProofsNew
/-!
C04 helper lemmas, part 17: new backend, `State.Revert` after `State.Update` gives back the state.
-/
set_option linter.unusedSectionVars false
namespace Juno.C04
open Map

/-- writing history entries of block `n` does not change the entries of other blocks -/
theorem get_setAll_block_ne {P : Type} [DecidableEq P] [KOrd P] (h : Map (P × Nat) Nat) (d : List (P × Nat)) (n : Nat)
    (p : P) (j : Nat) (hj : j ≠ n) :
    Map.get (setAll h (d.map (fun e => ((e.1, n), e.2)))) (p, j) = Map.get h (p, j) := by
  apply get_setAll_notin
  intro hm
  simp only [List.map_map, List.mem_map, Function.comp] at hm
  obtain ⟨e, _, he⟩ := hm
  injection he with _ h2
  exact hj h2.symm

theorem valueAtNew_setAll_below {P : Type} [DecidableEq P] [KOrd P] (h : Map (P × Nat) Nat) (d : List (P × Nat)) (n : Nat)
    (p : P) (m : Nat) (hm : m < n) :
    valueAtNew (setAll h (d.map (fun e => ((e.1, n), e.2)))) p m = valueAtNew h p m :=
  valueAtNew_congr _ _ p m (fun j hj => get_setAll_block_ne h d n p j (by omega))

/-- Hypotheses for the new backend: class facts, invariants of the contract, storage and history
buckets before the block (incl. "the latest history entry is the current value"), block facts. -/
structure NewOK (cfg : Cfg) (s : State) (casm' : Map Nat CasmMeta) (b : Block) : Prop
    extends ClassesOK cfg s casm' b where
  sC : Sorted s.contracts
  sSt : Sorted s.storage
  sHS : Sorted s.hStorage
  sHN : Sorted s.hNonce
  sHC : Sorted s.hClass
  aboveS : ∀ p m, b.number ≤ m → Map.get s.hStorage (p, m) = none
  aboveN : ∀ a m, b.number ≤ m → Map.get s.hNonce (a, m) = none
  aboveC : ∀ a m, b.number ≤ m → Map.get s.hClass (a, m) = none
  nonzero : ∀ p v, Map.get s.storage p = some v → v ≠ 0
  owned : ∀ a k v, Map.get s.storage (a, k) = some v → (Map.get s.contracts a).isSome = true
  genesis : b.number = 0 → s.contracts = []
  histS : ∀ p m, b.number ≤ m + 1 → (valueAtNew s.hStorage p m).getD 0 = (Map.get s.storage p).getD 0
  histN : ∀ a m, b.number ≤ m + 1 → (valueAtNew s.hNonce a m).getD 0 = ((Map.get s.contracts a).map (·.nonce)).getD 0
  histC : ∀ a m, b.number ≤ m + 1 → (valueAtNew s.hClass a m).getD 0 = ((Map.get s.contracts a).map (·.classHash)).getD 0
  sysNonEmpty : ∀ a, isSys a = true → (Map.get s.contracts a).isSome = true → storageEmpty s.storage a = false
  /-- the block does not leave an existing system contract with empty storage (then `commit`
  removes the record and a revert re-creates it with another deployment height, see
  `newstate_system_contract_height_counterexample`) -/
  noSysEmptied : ∀ a, isSys a = true → (Map.get s.contracts a).isSome = true →
    storageEmpty (writeStorage s.storage b.diff.storage) a = false
  dDep : Sorted b.diff.deployed
  dRep : Sorted b.diff.replaced
  dNon : Sorted b.diff.nonces
  dSto : Sorted b.diff.storage
  depNotSys : ∀ a c, Map.get b.diff.deployed a = some c → isSys a = false

theorem new_reverseDiff {cfg : Cfg} (hleg : cfg.legacy = false)
    {s : State} {b : Block} {casm' : Map Nat CasmMeta} (ok : NewOK cfg s casm' b) (s' : State)
    (hHS : s'.hStorage = Map.setAll s.hStorage (b.diff.storage.map (fun e => ((e.1, b.number), e.2))))
    (hHN : s'.hNonce = Map.setAll s.hNonce (b.diff.nonces.map (fun e => ((e.1, b.number), e.2))))
    (hHC : s'.hClass = Map.setAll (Map.setAll s.hClass (b.diff.deployed.map (fun e => ((e.1, b.number), e.2))))
                        (b.diff.replaced.map (fun e => ((e.1, b.number), e.2)))) :
    reverseDiff cfg b.number b.diff s' = .ok
      { Diff.empty with
        storage := b.diff.storage.map (fun e => (e.1, if b.number = 0 then 0 else oldS s e.1)),
        nonces := b.diff.nonces.map (fun e => (e.1, if b.number = 0 then 0 else ((Map.get s.contracts e.1).map (·.nonce)).getD 0)),
        replaced := b.diff.replaced.map (fun e => (e.1, if b.number = 0 then 0 else ((Map.get s.contracts e.1).map (·.classHash)).getD 0)) } := by
  unfold reverseDiff
  have e1 : b.diff.storage.mapM (revStorage cfg b.number s') =
      .ok (b.diff.storage.map (fun e => (e.1, if b.number = 0 then 0 else oldS s e.1))) := by
    apply mapM_ok
    intro e _
    unfold revStorage
    by_cases hn : b.number = 0
    · simp [hn]; rfl
    · simp only [hn, if_false, hleg, Bool.false_eq_true]
      rw [hHS, valueAtNew_setAll_below _ _ _ _ _ (by omega), ok.histS e.1 (b.number - 1) (by omega)]
      rfl
  have e2 : b.diff.nonces.mapM (revField cfg b.number s'.hNonce) =
      .ok (b.diff.nonces.map (fun e => (e.1, if b.number = 0 then 0 else ((Map.get s.contracts e.1).map (·.nonce)).getD 0))) := by
    apply mapM_ok
    intro e _
    unfold revField
    by_cases hn : b.number = 0
    · simp [hn]; rfl
    · simp only [hn, if_false, hleg, Bool.false_eq_true]
      rw [hHN, valueAtNew_setAll_below _ _ _ _ _ (by omega), ok.histN e.1 (b.number - 1) (by omega)]
      rfl
  have e3 : b.diff.replaced.mapM (revField cfg b.number s'.hClass) =
      .ok (b.diff.replaced.map (fun e => (e.1, if b.number = 0 then 0 else ((Map.get s.contracts e.1).map (·.classHash)).getD 0))) := by
    apply mapM_ok
    intro e _
    unfold revField
    by_cases hn : b.number = 0
    · simp [hn]; rfl
    · simp only [hn, if_false, hleg, Bool.false_eq_true]
      rw [hHC, valueAtNew_setAll_below _ _ _ _ _ (by omega), valueAtNew_setAll_below _ _ _ _ _ (by omega),
        ok.histC e.1 (b.number - 1) (by omega)]
      rfl
  rw [e1, ok_bind, e2, ok_bind, e3, ok_bind]
  rfl

theorem new_contracts_inverse {cfg : Cfg} {s s2 : State} {b : Block} {casm' : Map Nat CasmMeta} (ok : NewOK cfg s casm' b)
    {cs0 cs1 cs2 cs3 : Map Nat Contract}
    (h0 : applyDeployed b.number s.contracts b.diff.deployed = .ok cs0)
    (h1 : applyReplaced cs0 b.diff.replaced = .ok cs1)
    (h2 : applyNonces cs1 b.diff.nonces = .ok cs2)
    (h3 : touchStorage b.number cs2 b.diff.storage = .ok cs3)
    (s2C : Sorted s2.contracts)
    (g2C : ∀ a, Map.get s2.contracts a =
      if isSys a = true ∧ touched b.diff a = true ∧ storageEmpty (writeStorage s.storage b.diff.storage) a = true then none
      else Map.get cs3 a)
    (e2S : s2.storage = writeStorage s.storage b.diff.storage)
    (e2Cl : s2.classes = s.classes) (e2Tr : s2.classTrie = s.classTrie)
    (e2HS : s2.hStorage = Map.setAll s.hStorage (b.diff.storage.map (fun e => ((e.1, b.number), e.2))))
    (e2HN : s2.hNonce = Map.setAll s.hNonce (b.diff.nonces.map (fun e => ((e.1, b.number), e.2))))
    (e2HC : s2.hClass = Map.setAll (Map.setAll s.hClass (b.diff.deployed.map (fun e => ((e.1, b.number), e.2))))
                        (b.diff.replaced.map (fun e => ((e.1, b.number), e.2)))) :
    revertContractsNew b.number b.diff
      { Diff.empty with
        storage := b.diff.storage.map (fun e => (e.1, if b.number = 0 then 0 else oldS s e.1)),
        nonces := b.diff.nonces.map (fun e => (e.1, if b.number = 0 then 0 else ((Map.get s.contracts e.1).map (·.nonce)).getD 0)),
        replaced := b.diff.replaced.map (fun e => (e.1, if b.number = 0 then 0 else ((Map.get s.contracts e.1).map (·.classHash)).getD 0)) }
      s2 = .ok s := by
  obtain ⟨sc0, g0, f0⟩ := applyDeployed_spec b.number ok.dDep ok.sC h0
  have h1' := h1
  have h2' := h2
  unfold applyReplaced at h1'
  unfold applyNonces at h2'
  obtain ⟨sc1, g1, f1⟩ := updAll_spec _ _ _ ok.dRep sc0 h1'
  obtain ⟨sc2, g2, f2⟩ := updAll_spec _ _ _ ok.dNon sc1 h2'
  obtain ⟨sc3, g3, f3⟩ := touchStorage_spec b.number b.diff.storage sc2 h3
  obtain ⟨_, pS, pA⟩ := contracts_forward_some ok.sC ok.dDep ok.dRep ok.dNon h0 h1 h2 h3
  obtain ⟨sSt', gSt⟩ := writeStorage_spec ok.sSt ok.dSto
  have sRR := sorted_mapVal ok.dRep (fun e : Nat × Nat => if b.number = 0 then 0 else ((Map.get s.contracts e.1).map (·.classHash)).getD 0)
  have sRN := sorted_mapVal ok.dNon (fun e : Nat × Nat => if b.number = 0 then 0 else ((Map.get s.contracts e.1).map (·.nonce)).getD 0)
  have sRS := sorted_mapVal ok.dSto (fun e : (Nat × Nat) × Nat => if b.number = 0 then 0 else oldS s e.1)
  -- a contract that existed before the block is still there after the forward purge
  have keep : ∀ a, (Map.get s.contracts a).isSome = true → Map.get s2.contracts a = Map.get cs3 a := by
    intro a ha
    rw [g2C a]
    by_cases hsys : isSys a = true
    · have := ok.noSysEmptied a hsys ha
      simp [this]
    · simp [hsys]
  -- a replaced / nonce-changed contract existed in cs0 and is not a purged one
  have dep_or_pre : ∀ a, (Map.get cs0 a).isSome = true →
      (Map.get b.diff.deployed a).isSome = true ∨ (Map.get s.contracts a).isSome = true := by
    intro a h
    rw [g0 a] at h
    cases hd : Map.get b.diff.deployed a with
    | some c => left; rfl
    | none => rw [hd] at h; right; exact h
  have cs3_some_of_cs0 : ∀ a, (Map.get cs0 a).isSome = true → (Map.get cs3 a).isSome = true := by
    intro a h
    rcases dep_or_pre a h with hd | hp
    · have : (Map.get cs2 a).isSome = true := by
        rw [g2 a, g1 a]
        cases hg : Map.get cs0 a with
        | none => rw [hg] at h; cases h
        | some ct => cases Map.get b.diff.nonces a <;> cases Map.get b.diff.replaced a <;> rfl
      rw [g3 a]
      cases hg : Map.get cs2 a with
      | none => rw [hg] at this; cases this
      | some ct => simp
    · exact pS a hp
  have s2_some_of_cs0 : ∀ a, (Map.get cs0 a).isSome = true → (Map.get s2.contracts a).isSome = true := by
    intro a h
    have h3' := cs3_some_of_cs0 a h
    rcases dep_or_pre a h with hd | hp
    · rw [g2C a]
      cases hdd : Map.get b.diff.deployed a with
      | none => rw [hdd] at hd; cases hd
      | some c => simp [ok.depNotSys a c hdd]; exact h3'
    · rw [keep a hp]; exact h3'
  -- step 1: replaced
  obtain ⟨c1, hc1⟩ := updAll_succeeds (fun (_ : Contract) (_ : Nat) => false) (fun ct c => { ct with classHash := c })
    Err.contractMissing sRR (m := s2.contracts) (by
      intro a x hax
      rw [get_mapVal] at hax
      cases hr : Map.get b.diff.replaced a with
      | none => rw [hr] at hax; cases hax
      | some c =>
        obtain ⟨v, hv, _⟩ := f1 a c hr
        have := s2_some_of_cs0 a (by rw [hv]; rfl)
        cases hg : Map.get s2.contracts a with
        | none => rw [hg] at this; cases this
        | some ct => exact ⟨ct, rfl, rfl⟩)
  obtain ⟨sC1, gC1, _⟩ := updAll_spec _ _ _ sRR s2C hc1
  have q1 : ∀ a, (Map.get s2.contracts a).isSome = true → (Map.get c1 a).isSome = true := by
    intro a h
    rw [gC1 a]
    cases hg : Map.get s2.contracts a with
    | none => rw [hg] at h; cases h
    | some ct =>
      cases Map.get (b.diff.replaced.map (fun e => (e.1, if b.number = 0 then 0 else ((Map.get s.contracts e.1).map (·.classHash)).getD 0))) a <;> rfl
  obtain ⟨c2, hc2⟩ := updAll_succeeds (fun (_ : Contract) (_ : Nat) => false) (fun ct x => { ct with nonce := x })
    Err.contractMissing sRN (m := c1) (by
      intro a x hax
      rw [get_mapVal] at hax
      cases hr : Map.get b.diff.nonces a with
      | none => rw [hr] at hax; cases hax
      | some c =>
        obtain ⟨v, hv, _⟩ := f2 a c hr
        have hcs0 : (Map.get cs0 a).isSome = true := by
          rw [g1 a] at hv
          cases hg : Map.get cs0 a with
          | none =>
            rw [hg] at hv
            cases hrr : Map.get b.diff.replaced a <;> (rw [hrr] at hv; cases hv)
          | some ct => rfl
        have := q1 a (s2_some_of_cs0 a hcs0)
        cases hg : Map.get c1 a with
        | none => rw [hg] at this; cases this
        | some ct => exact ⟨ct, rfl, rfl⟩)
  obtain ⟨sC2, gC2, _⟩ := updAll_spec _ _ _ sRN sC1 hc2
  have haddr : addrsOf (b.diff.storage.map (fun e => (e.1, if b.number = 0 then 0 else oldS s e.1))) = addrsOf b.diff.storage :=
    addrsOf_mapVal _ _
  -- touchStorage on the reverse diff: every address is there or is a (purged) system contract
  have hall3 : ∀ a, a ∈ addrsOf b.diff.storage → (Map.get c2 a).isSome = true ∨ isSys a = true := by
    intro a ha
    by_cases hsys : isSys a = true
    · right; exact hsys
    · left
      have h3' := pA a ha
      have : Map.get s2.contracts a = Map.get cs3 a := by rw [g2C a]; simp [hsys]
      have hs2 : (Map.get s2.contracts a).isSome = true := by rw [this]; exact h3'
      have := q1 a hs2
      rw [gC2 a]
      cases hg : Map.get c1 a with
      | none => rw [hg] at this; cases this
      | some ct =>
        cases Map.get (b.diff.nonces.map (fun e => (e.1, if b.number = 0 then 0 else ((Map.get s.contracts e.1).map (·.nonce)).getD 0))) a <;> rfl
  obtain ⟨c3, hc3⟩ := touchStorage_succeeds b.number
    (b.diff.storage.map (fun e => (e.1, if b.number = 0 then 0 else oldS s e.1))) (cs := c2)
    (fun a ha => hall3 a (haddr ▸ ha))
  obtain ⟨sC3, gC3, _⟩ := touchStorage_spec b.number _ sC2 hc3
  -- storage after the reverse writes
  obtain ⟨sW, gW⟩ := writeStorage_spec sSt' sRS
  have hstor : writeStorage (writeStorage s.storage b.diff.storage)
      (b.diff.storage.map (fun e => (e.1, if b.number = 0 then 0 else oldS s e.1))) = s.storage := by
    apply ext sW ok.sSt
    intro p
    rw [gW p, get_mapVal, gSt p]
    cases hp : Map.get b.diff.storage p with
    | none => rfl
    | some v =>
      simp only [Option.map_some]
      by_cases hn : b.number = 0
      · have hc := ok.genesis hn
        have : Map.get s.storage p = none := by
          cases hg : Map.get s.storage p with
          | none => rfl
          | some x =>
            have := ok.owned p.1 p.2 x (by simpa using hg)
            rw [hc] at this; cases this
        simp [hn, this]
      · simp only [hn, if_false, oldS]
        cases hg : Map.get s.storage p with
        | none => simp
        | some x => simp [ok.nonzero p x hg]
  have hfilt : Map.filterK s.storage (fun k => !(Map.has b.diff.deployed k.1)) = s.storage := by
    apply ext (sorted_filterK ok.sSt _) ok.sSt
    intro p
    rw [get_filterK]
    cases hh : Map.has b.diff.deployed p.1 with
    | false => rfl
    | true =>
      simp only [Bool.not_true, Bool.false_eq_true, if_false]
      unfold Map.has at hh
      cases hd : Map.get b.diff.deployed p.1 with
      | none => rw [hd] at hh; cases hh
      | some c =>
        have hnone := f0 p.1 c hd
        cases hg : Map.get s.storage p with
        | none => rfl
        | some x =>
          have := ok.owned p.1 p.2 x (by simpa using hg)
          rw [hnone] at this; cases this
  -- contracts before the final system-contract purge
  have hcs4 : ∀ a, Map.get (delAll c3 (Map.keys b.diff.deployed)) a =
      if (Map.get s.contracts a).isNone && isSys a && decide (a ∈ addrsOf b.diff.storage) then some ⟨0, 0, b.number⟩
      else Map.get s.contracts a := by
    intro a
    rw [get_delAll sC3]
    by_cases hd : a ∈ Map.keys b.diff.deployed
    · obtain ⟨c, hc⟩ := (mem_keys_iff ok.dDep a).1 hd
      simp [hd, f0 a c hc, ok.depNotSys a c hc]
    · have hdn : Map.get b.diff.deployed a = none := by
        cases hx : Map.get b.diff.deployed a with
        | none => rfl
        | some c => exact absurd ((mem_keys_iff ok.dDep a).2 ⟨c, hx⟩) hd
      have e0 : Map.get cs0 a = Map.get s.contracts a := by rw [g0 a, hdn]
      simp only [hd, if_false]
      rw [gC3 a, haddr, gC2 a, gC1 a, get_mapVal, get_mapVal]
      cases hs : Map.get s.contracts a with
      | some ct =>
        have hn0 : b.number ≠ 0 := by
          intro hn
          have := ok.genesis hn
          rw [this] at hs; cases hs
        rw [keep a (by rw [hs]; rfl), g3 a, g2 a, g1 a, e0, hs]
        simp only [hn0, if_false, Option.isNone_some, Bool.false_and, Bool.false_eq_true]
        cases hr : Map.get b.diff.replaced a with
        | none =>
          cases hnn : Map.get b.diff.nonces a with
          | none => simp
          | some x => simp [hs]
        | some c =>
          cases hnn : Map.get b.diff.nonces a with
          | none => simp [hs]
          | some x => simp [hs]
      | none =>
        have hr : Map.get b.diff.replaced a = none := by
          cases hx : Map.get b.diff.replaced a with
          | none => rfl
          | some c =>
            obtain ⟨v, hv, _⟩ := f1 a c hx
            rw [e0, hs] at hv; cases hv
        have hnn : Map.get b.diff.nonces a = none := by
          cases hx : Map.get b.diff.nonces a with
          | none => rfl
          | some c =>
            obtain ⟨v, hv, _⟩ := f2 a c hx
            rw [g1 a, hr, e0, hs] at hv; cases hv
        have hcs3 : Map.get cs3 a = if isSys a && decide (a ∈ addrsOf b.diff.storage) then some ⟨0, 0, b.number⟩ else none := by
          rw [g3 a, g2 a, g1 a, hnn, hr, e0, hs]
          simp
        simp only [hr, hnn, Option.map_none, Option.isNone_none, Bool.true_and]
        rw [g2C a, hcs3]
        by_cases hc : (isSys a && decide (a ∈ addrsOf b.diff.storage)) = true
        · simp only [hc, if_true]
          split <;> simp [hc]
        · simp only [hc, if_false]
          split <;> simp [hc]
  have sC4 : Sorted (delAll c3 (Map.keys b.diff.deployed)) := sorted_delAll sC3 _
  obtain ⟨u1, u2, u3, u4, u5, u6, u7, u8⟩ := purgeSysNew_spec { b.diff with deployed := [] }
    { s2 with contracts := delAll c3 (Map.keys b.diff.deployed),
              storage := Map.filterK (writeStorage s2.storage
                (b.diff.storage.map (fun e => (e.1, if b.number = 0 then 0 else oldS s e.1))))
                (fun k => !(Map.has b.diff.deployed k.1)) } sC4
  dsimp only at u1 u2 u3 u4 u5 u6 u7 u8
  have hstor2 : Map.filterK (writeStorage s2.storage
      (b.diff.storage.map (fun e => (e.1, if b.number = 0 then 0 else oldS s e.1))))
      (fun k => !(Map.has b.diff.deployed k.1)) = s.storage := by
    rw [e2S, hstor, hfilt]
  unfold revertContractsNew
  simp only []
  unfold applyReplaced applyNonces
  rw [hc1, ok_bind, hc2, ok_bind, hc3, ok_bind]
  have eqS : ∀ (P Q : State), P.contracts = Q.contracts → P.storage = Q.storage → P.classes = Q.classes →
      P.classTrie = Q.classTrie → P.hStorage = Q.hStorage → P.hNonce = Q.hNonce → P.hClass = Q.hClass → P = Q := by
    intro P Q h1 h2 h3 h4 h5 h6 h7
    cases P; cases Q
    simp only [State.mk.injEq]
    exact ⟨h1, h2, h3, h4, h5, h6, h7⟩
  show Except.ok _ = Except.ok s
  congr 1
  apply eqS
  · -- contracts
    apply ext u7 ok.sC
    intro a
    show Map.get (purgeSysNew _ _).contracts a = _
    rw [u8 a, hstor2, hcs4 a]
    cases hs : Map.get s.contracts a with
    | some ct =>
      by_cases hsys : isSys a = true
      · have := ok.sysNonEmpty a hsys (by rw [hs]; rfl)
        simp [this]
      · simp [hsys]
    | none =>
      have hempty : storageEmpty s.storage a = true := by
        rw [storageEmpty_iff]
        intro k
        cases hg : Map.get s.storage (a, k) with
        | none => rfl
        | some v =>
          have := ok.owned a k v hg
          rw [hs] at this; cases this
      by_cases hc : (isSys a && decide (a ∈ addrsOf b.diff.storage)) = true
      · have hc' := hc
        simp only [Bool.and_eq_true, decide_eq_true_eq] at hc'
        have hsys : isSys a = true := hc'.1
        have hmem : a ∈ addrsOf b.diff.storage := hc'.2
        have ht : touched { b.diff with deployed := [] } a = true :=
          (touched_false_iff _ a).2 (Or.inr (Or.inr (Or.inr hmem)))
        simp [hsys, ht, hempty]
      · have : (Option.isNone (none : Option Contract) && isSys a && decide (a ∈ addrsOf b.diff.storage)) = false := by
          simp only [Option.isNone_none, Bool.true_and]
          cases hh : (isSys a && decide (a ∈ addrsOf b.diff.storage)) with
          | false => rfl
          | true => exact absurd hh hc
        rw [this]
        simp
  · show (purgeSysNew _ _).storage = _
    rw [u1, hstor2]
  · show (purgeSysNew _ _).classes = _
    rw [u2]; exact e2Cl
  · show (purgeSysNew _ _).classTrie = _
    rw [u3]; exact e2Tr
  · -- storage history
    show Map.delAll s2.hStorage (histKeys b.number (Map.keys b.diff.storage)) = s.hStorage
    rw [e2HS]
    have : histKeys b.number (Map.keys b.diff.storage) =
        (b.diff.storage.map (fun e => ((e.1, b.number), e.2))).map Prod.fst := by
      unfold histKeys Map.keys
      simp [List.map_map, Function.comp]
    rw [this]
    apply delAll_setAll_absent ok.sHS
    intro e he
    obtain ⟨x, _, rfl⟩ := List.mem_map.1 he
    exact ok.aboveS x.1 b.number (Nat.le_refl _)
  · show Map.delAll (Map.delAll s2.hNonce (histKeys1 b.number (Map.keys b.diff.nonces))) (histKeys1 b.number (Map.keys b.diff.deployed)) = s.hNonce
    rw [e2HN]
    have : histKeys1 b.number (Map.keys b.diff.nonces) =
        (b.diff.nonces.map (fun e => ((e.1, b.number), e.2))).map Prod.fst := by
      unfold histKeys1 Map.keys
      simp [List.map_map, Function.comp]
    rw [this, delAll_setAll_absent ok.sHN _ (by
      intro e he
      obtain ⟨x, _, rfl⟩ := List.mem_map.1 he
      exact ok.aboveN x.1 b.number (Nat.le_refl _))]
    apply delAll_absent ok.sHN
    intro k hk
    unfold histKeys1 at hk
    obtain ⟨x, _, rfl⟩ := List.mem_map.1 hk
    exact ok.aboveN x b.number (Nat.le_refl _)
  · show Map.delAll (Map.delAll s2.hClass (histKeys1 b.number (Map.keys b.diff.replaced))) (histKeys1 b.number (Map.keys b.diff.deployed)) = s.hClass
    rw [e2HC]
    have sA1 := sorted_setAll (sorted_setAll ok.sHC (b.diff.deployed.map (fun e => ((e.1, b.number), e.2))))
      (b.diff.replaced.map (fun e => ((e.1, b.number), e.2)))
    apply ext (sorted_delAll (sorted_delAll sA1 _) _) ok.sHC
    intro k
    obtain ⟨a, m⟩ := k
    rw [get_delAll (sorted_delAll sA1 _), get_delAll sA1]
    by_cases hm : m = b.number
    · subst hm
      by_cases h1 : (a, b.number) ∈ histKeys1 b.number (Map.keys b.diff.deployed)
      · simp [h1, ok.aboveC a b.number (Nat.le_refl _)]
      · by_cases h2 : (a, b.number) ∈ histKeys1 b.number (Map.keys b.diff.replaced)
        · simp [h1, h2, ok.aboveC a b.number (Nat.le_refl _)]
        · simp only [h1, h2, if_false]
          rw [get_setAll_notin, get_setAll_notin]
          · intro hmem
            apply h1
            simp only [List.map_map, List.mem_map, Function.comp] at hmem
            obtain ⟨e, he, hee⟩ := hmem
            injection hee with e1 _
            exact (keys_histKeys1_mem _ _ _ _).2 ⟨rfl, by unfold Map.keys; exact List.mem_map.2 ⟨e, he, e1⟩⟩
          · intro hmem
            apply h2
            simp only [List.map_map, List.mem_map, Function.comp] at hmem
            obtain ⟨e, he, hee⟩ := hmem
            injection hee with e1 _
            exact (keys_histKeys1_mem _ _ _ _).2 ⟨rfl, by unfold Map.keys; exact List.mem_map.2 ⟨e, he, e1⟩⟩
    · have n1 : (a, m) ∉ histKeys1 b.number (Map.keys b.diff.deployed) := fun h => hm ((keys_histKeys1_mem _ _ _ _).1 h).1
      have n2 : (a, m) ∉ histKeys1 b.number (Map.keys b.diff.replaced) := fun h => hm ((keys_histKeys1_mem _ _ _ _).1 h).1
      simp only [n1, n2, if_false]
      rw [get_setAll_block_ne _ _ _ _ _ hm, get_setAll_block_ne _ _ _ _ _ hm]

/-- New backend: `State.Revert` is the exact inverse of `State.Update`. -/
theorem new_revert_update {cfg : Cfg} (hleg : cfg.legacy = false)
    {s s' : State} {b : Block} {casm' : Map Nat CasmMeta} (ok : NewOK cfg s casm' b)
    (h : updateState cfg b s = .ok s') :
    revertState cfg b.number b.ver ⟨b.diff, b.oldRoot, b.newRoot⟩ casm' s' = .ok s := by
  obtain ⟨hro, hrn, cs0, cs1, cs2, cs3, h0, h1, h2, h3, hs'⟩ := new_forward hleg h
  obtain ⟨sc3, _, _⟩ := contracts_forward_some ok.sC ok.dDep ok.dRep ok.dNon h0 h1 h2 h3
  obtain ⟨u1, u2, u3, _, _, _, u7, u8⟩ := purgeSysNew_spec b.diff
    { s with contracts := cs3, storage := writeStorage s.storage b.diff.storage,
             classes := registerClasses b.number s.classes b.classes,
             classTrie := updateClassTrie s.classTrie b } sc3
  dsimp only at u1 u2 u3 u7 u8
  have hrd := new_reverseDiff hleg ok s' (by rw [hs']) (by rw [hs']) (by rw [hs'])
  have hcl := revertClasses_inverse ok.toClassesOK s' (by rw [hs']; exact u2) (by rw [hs']; exact u3)
  have hct := new_contracts_inverse (s2 := { s' with classes := s.classes, classTrie := s.classTrie }) ok h0 h1 h2 h3
    (by rw [hs']; exact u7) (by rw [hs']; exact u8) (by rw [hs']; exact u1) rfl rfl (by rw [hs']) (by rw [hs']) (by rw [hs'])
  unfold revertState
  simp only [hrn, ne_eq, not_true_eq_false, if_false]
  show (do
    let rd ← reverseDiff cfg b.number b.diff s'
    let s2 ← revertClasses cfg b.number b.diff casm' s'
    let s3 ← (if cfg.legacy then revertContractsLegacy b.number b.diff rd s2 else revertContractsNew b.number b.diff rd s2)
    if rootOf b.ver s3 ≠ b.oldRoot then throw Err.revRootOld
    return s3) = Except.ok s
  rw [hrd, ok_bind, hcl, ok_bind]
  simp only [hleg, Bool.false_eq_true, if_false]
  rw [hct, ok_bind]
  simp [hro]
  rfl
end Juno.C04
