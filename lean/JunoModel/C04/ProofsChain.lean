import JunoModel.C04.ProofsLegacy3
import JunoModel.C04.ModelChain
/-!
C04 helper lemmas, part 11: the node-level statements (one step, chains, forks).
-/
set_option linter.unusedSectionVars false
namespace Juno.C04
open Map

/-- The legacy backend as found in /repo: commit 05cf200 included, no system-contract purge in
`Update`. (The repairs 64c1acb `removeImplicitClasses` and 702b167 `dropReopenedWindow` may or may
not be applied: the hypotheses adapt.) The new backend has no such switch. -/
def Cfg.asFound (cfg : Cfg) : Prop :=
  0 < cfg.window ∧
    (cfg.legacy = true → cfg.zeroWriteFix = true ∧ cfg.legacyPurgeOnUpdate = false ∧ cfg.legacyDedupDeclared = true)

/-- Under `asFound` both backends tolerate a class hash listed twice among the declared classes (legacy since 7460746). -/
theorem Cfg.asFound.dupTolerant {cfg : Cfg} (hc : cfg.asFound) : cfg.dupTolerant = true := by
  unfold Cfg.dupTolerant
  cases hl : cfg.legacy with
  | false => rfl
  | true => simp [(hc.2 hl).2.2]

/-- Everything the one-step theorem needs: the per-block buckets' invariant, the freshness facts,
the CASM and filter facts, and that `State.Revert` undoes `State.Update` for this block (proved from
`LegacyOK` / `NewOK` in `legacy_revert_update` / `new_revert_update`). -/
structure StepOK (cfg : Cfg) (nd : Node) (b : Block) : Prop where
  index : IndexWF nd
  fresh : Fresh nd b
  casm : CasmOK nd.casm b
  filter : FilterOK cfg nd.running nd.persisted b.number
  state : ∀ casm', storeCasm b.number b nd.casm = .ok casm' → StateInverse cfg nd.st b casm'
  /-- the block does not close an event-filter window, unless `onReorg` is repaired (702b167) -/
  window : cfg.dropReopenedWindow = true ∨ b.number ≠ nd.running.fromBlock + cfg.window - 1

theorem revert_store_step {cfg : Cfg} {nd nd' : Node} {b : Block}
    (ok : StepOK cfg nd b) (h : store cfg nd b = .ok nd') : revert cfg nd' = .ok nd :=
  revert_store_of_parts cfg ok.index ok.fresh ok.state ok.casm ok.filter ok.window h

/-- per-step hypotheses along a chain of blocks -/
def ChainOK (cfg : Cfg) : Node → List Block → Prop
  | _, [] => True
  | nd, b :: bs => StepOK cfg nd b ∧ ∀ nd', store cfg nd b = .ok nd' → ChainOK cfg nd' bs

theorem revertN_storeAll {cfg : Cfg} (bs : List Block) :
    ∀ {nd ndA : Node}, ChainOK cfg nd bs → storeAll cfg nd bs = .ok ndA → revertN cfg ndA bs.length = .ok nd := by
  induction bs with
  | nil =>
    intro nd ndA _ h
    simp only [storeAll] at h
    cases h
    rfl
  | cons b bs ih =>
    intro nd ndA hok h
    obtain ⟨hstep, hrest⟩ := hok
    simp only [storeAll] at h
    cases hs : store cfg nd b with
    | error e => rw [hs] at h; cases h
    | ok nd1 =>
      rw [hs] at h
      have h1 := ih (hrest nd1 hs) h
      show (match revertN cfg ndA bs.length with | .ok nd' => revert cfg nd' | .error e => .error e) = _
      rw [h1]
      exact revert_store_step hstep hs

end Juno.C04
