import JunoModel.Common.Proto
import JunoModel.C04.ModelBC
/-!
Line-protocol driver for the C04 model (`lake build c04drv`).

  cfg <legacy> <zeroWriteFix> <dropReopenedWindow> <removeImplicitClasses> <legacyPurgeOnUpdate> <legacyDedupDeclared> <window>
      (0/1 flags, hex window)
  new <node>
  store <node> n=.. h=.. p=.. v=.. bl=.. pay=.. [tx=hash:msg|-]* [dep=a:c]* [rep=a:c]* [non=a:n]*
        [sto=a:k:v]* [d0=c]* [d1=c:casm]* [mig=c:casm]* [cls=c:s|c|n:v2]*   (n = Sierra class without a usable compiled class)
      -> "ok <root-id>" | "err:<Err>"      (roots are computed as Finalise does; the id numbers
                                             distinct roots in order of first appearance)
  storewrongroot <node> <same tokens>      -> the same block with a wrong new state root: "err:rootNew" expected
  revert <node>                            -> "ok" | "err:<Err>"
  dump <node> <family>                     -> canonical content of one bucket family (`running` initialises the
                                              lazy filter first, as `WriteRunningEventFilter` does; `snapshot`,
                                              `cache`, `hot` are the process-level parts of `BC`)
  dumpfrom <node> <family> <n>             -> the same, entries of blocks >= n only (block-keyed families)
  kill <node>                              -> "ok": new Blockchain instance on the same database
  shutdown <node>                          -> "ok" | "err:<Err>": WriteRunningEventFilter
  evict <node> <window start>              -> "ok"
  query <node> <lo> <hi>                   -> "ok [block=bloom,...]" | "err:<Err>": candidate blocks of an event query
  copy <src> <dst>                         -> "ok"
  bulk <node> <v> <hash>*                  -> "ok": a new process on a database holding that many empty blocks
A node is a `BC` (ModelBC.lean): database + lazily initialised running filter + snapshot bucket + window cache.
All numbers are hex without prefix.
-/
open Juno.Proto Juno.C04

structure DState where
  cfg : Cfg
  nodes : List (String × BC)
  roots : List Root

def DState.init : DState :=
  { cfg := { legacy := false, zeroWriteFix := true, dropReopenedWindow := false, removeImplicitClasses := false,
             legacyPurgeOnUpdate := false, legacyDedupDeclared := true, window := 8192 },
    nodes := [], roots := [] }

def getNode (s : DState) (id : String) : Option BC := (s.nodes.find? (·.1 == id)).map (·.2)

def putNode (s : DState) (id : String) (n : BC) : DState :=
  { s with nodes := (id, n) :: s.nodes.filter (·.1 != id) }

def rootId (s : DState) (r : Root) : DState × Nat :=
  match s.roots.findIdx? (· == r) with
  | some i => (s, i)
  | none => ({ s with roots := s.roots ++ [r] }, s.roots.length)

def hx (n : Nat) : String := natToHex n

def parseNats (s : String) : Option (List Nat) := (s.splitOn ":").mapM hexToNat?

def errName : Err → String
  | .version => "version" | .blockNumber => "blockNumber" | .parentHash => "parentHash" | .rootOld => "rootOld"
  | .rootNew => "rootNew" | .contractExists => "contractExists" | .contractMissing => "contractMissing"
  | .classMissing => "classMissing" | .casm => "casm" | .checkHeadState => "checkHeadState"
  | .revRootNew => "revRootNew" | .revRootOld => "revRootOld" | .filterRange => "filterRange" | .noHead => "noHead"
  | .notFound => "notFound"

def emptyBlock : Block :=
  { number := 0, hash := 0, parent := 0, ver := 0, txs := [], bloom := 0, payload := 0, diff := Diff.empty,
    classes := [], oldRoot := Root.zero, newRoot := Root.zero }

/-- fold one `key=value` token into the block; `none` = malformed -/
def addToken (b : Block) (tok : String) : Option Block :=
  match tok.splitOn "=" with
  | [k, v] =>
    match k with
    | "n" => (hexToNat? v).map (fun x => { b with number := x })
    | "h" => (hexToNat? v).map (fun x => { b with hash := x })
    | "p" => (hexToNat? v).map (fun x => { b with parent := x })
    | "v" => (hexToNat? v).map (fun x => { b with ver := x })
    | "bl" => (hexToNat? v).map (fun x => { b with bloom := x })
    | "pay" => (hexToNat? v).map (fun x => { b with payload := x })
    | "tx" =>
      match v.splitOn ":" with
      | [h, m] =>
        match hexToNat? h with
        | none => none
        | some h =>
          if m == "-" then some { b with txs := b.txs ++ [⟨h, none⟩] }
          else (hexToNat? m).map (fun m => { b with txs := b.txs ++ [⟨h, some m⟩] })
      | _ => none
    | "dep" => match parseNats v with
      | some [a, c] => some { b with diff := { b.diff with deployed := Map.set b.diff.deployed a c } }
      | _ => none
    | "rep" => match parseNats v with
      | some [a, c] => some { b with diff := { b.diff with replaced := Map.set b.diff.replaced a c } }
      | _ => none
    | "non" => match parseNats v with
      | some [a, c] => some { b with diff := { b.diff with nonces := Map.set b.diff.nonces a c } }
      | _ => none
    | "sto" => match parseNats v with
      | some [a, k, x] => some { b with diff := { b.diff with storage := Map.set b.diff.storage (a, k) x } }
      | _ => none
    | "d0" => (hexToNat? v).map (fun c => { b with diff := { b.diff with declV0 := b.diff.declV0 ++ [c] } })
    | "d1" => match parseNats v with
      | some [c, h] => some { b with diff := { b.diff with declV1 := Map.set b.diff.declV1 c h } }
      | _ => none
    | "mig" => match parseNats v with
      | some [c, h] => some { b with diff := { b.diff with migrated := Map.set b.diff.migrated c h } }
      | _ => none
    | "cls" =>
      match v.splitOn ":" with
      | [c, kind, v2] =>
        match hexToNat? c, hexToNat? v2 with
        | some c, some v2 =>
          if kind == "s" then some { b with classes := Map.set b.classes c ⟨true, v2, true⟩ }
          else if kind == "n" then some { b with classes := Map.set b.classes c ⟨true, v2, false⟩ }
          else if kind == "c" then some { b with classes := Map.set b.classes c ⟨false, v2, true⟩ }
          else none
        | _, _ => none
      | _ => none
    | _ => none
  | _ => none

def parseBlock (toks : List String) : Option Block := toks.foldlM addToken emptyBlock

def join (xs : List String) : String := if xs.isEmpty then "-" else " ".intercalate xs

def bloomsText (m : Map Nat Nat) : String := "[" ++ ",".intercalate (m.map (fun e => hx e.1 ++ "=" ++ hx e.2)) ++ "]"

def filterText (f : Filter) : String := s!"{hx f.fromBlock}:{hx f.next}:" ++ bloomsText f.blooms

/-- `lo`: only entries of blocks >= lo (block-keyed families) -/
def dump (s : DState) (nd : Node) (family : String) (lo : Nat := 0) : DState × String :=
  match family with
  | "height" => (s, match nd.height with | none => "none" | some h => hx h)
  | "headers" =>
    let (s', out) := (nd.headers.filter (fun e => lo ≤ e.1)).foldl (fun (acc : DState × List String) e =>
      let (s1, rid) := rootId acc.1 e.2.root
      (s1, acc.2 ++ [s!"{hx e.1}:{hx e.2.hash}:{hx e.2.parent}:{hx e.2.ver}:{hx e.2.bloom}:{hx rid}"])) (s, [])
    (s', join out)
  | "numByHash" => (s, join ((nd.numByHash.filter (fun e => lo ≤ e.2)).map (fun e => s!"{hx e.1}:{hx e.2}")))
  | "blockTxs" => (s, join ((nd.blockTxs.filter (fun e => lo ≤ e.1)).map (fun e => s!"{hx e.1}:" ++ ",".intercalate (e.2.map (fun t => hx t.hash)))))
  | "txLoc" => (s, join ((nd.txLoc.filter (fun e => lo ≤ e.2.1)).map (fun e => s!"{hx e.1}:{hx e.2.1}:{hx e.2.2}")))
  | "l1msg" => (s, join (nd.l1msg.map (fun e => s!"{hx e.1}:{hx e.2}")))
  | "sus" => (s, join ((nd.sus.filter (fun e => lo ≤ e.1)).map (fun e => hx e.1)))
  | "commitments" => (s, join ((nd.commitments.filter (fun e => lo ≤ e.1)).map (fun e => hx e.1)))
  | "casm" => (s, join (nd.casm.map (fun e =>
      s!"{hx e.1}:{hx e.2.declaredAt}:{hx e.2.v2}:{hx e.2.migratedAt}:" ++ (match e.2.v1 with | none => "-" | some h => hx h))))
  | "persisted" => (s, join (nd.persisted.map (fun e => s!"{hx e.1}:" ++ bloomsText e.2)))
  | "running" => (s, filterText nd.running)
  | "contracts" => (s, join (nd.st.contracts.map (fun e => s!"{hx e.1}:{hx e.2.nonce}:{hx e.2.classHash}:{hx e.2.deployedAt}")))
  | "storage" => (s, join (nd.st.storage.map (fun e => s!"{hx e.1.1}:{hx e.1.2}:{hx e.2}")))
  | "classes" => (s, join (nd.st.classes.map (fun e => s!"{hx e.1}:{hx e.2.declaredAt}:" ++ (if e.2.defn.sierra then "s" else "c"))))
  | "classTrie" => (s, join (nd.st.classTrie.map (fun e => s!"{hx e.1}:{hx e.2}")))
  | "hStorage" => (s, join (nd.st.hStorage.map (fun e => s!"{hx e.1.1.1}:{hx e.1.1.2}:{hx e.1.2}:{hx e.2}")))
  | "hNonce" => (s, join (nd.st.hNonce.map (fun e => s!"{hx e.1.1}:{hx e.1.2}:{hx e.2}")))
  | "hClass" => (s, join (nd.st.hClass.map (fun e => s!"{hx e.1.1}:{hx e.1.2}:{hx e.2}")))
  | _ => (s, "bad-op")

/-- dump of a `BC`: the process-level parts, and `running` through `ensureInit` -/
def dumpBC (s : DState) (id : String) (bc : BC) (family : String) (lo : Nat := 0) : DState × String :=
  match family with
  | "running" =>
    match ensureHot s.cfg bc with
    | .ok bc1 => (putNode s id bc1, filterText bc1.nd.running)
    | .error e => (s, "err:" ++ errName e)
  | "snapshot" => (s, match bc.snapshot with | none => "none" | some f => filterText f)
  | "cache" => (s, join (bc.cache.map (fun e => s!"{hx e.1}:" ++ bloomsText e.2)))
  | "hot" => (s, if bc.hot then "1" else "0")
  | _ => dump s bc.nd family lo

def flag? (s : String) : Option Bool := if s == "1" then some true else if s == "0" then some false else none

def step (s : DState) (line : String) : DState × String :=
  match words line with
  | ["cfg", a, b, c, d, e, g, w] =>
    match flag? a, flag? b, flag? c, flag? d, flag? e, flag? g, hexToNat? w with
    | some a, some b, some c, some d, some e, some g, some w =>
      if w == 0 then (s, "bad-op") else
      ({ cfg := { legacy := a, zeroWriteFix := b, dropReopenedWindow := c, removeImplicitClasses := d,
                  legacyPurgeOnUpdate := e, legacyDedupDeclared := g, window := w },
         nodes := [], roots := [] }, "ok")
    | _, _, _, _, _, _, _ => (s, "bad-op")
  | ["new", id] => (putNode s id BC.init, "ok")
  | "bulk" :: id :: v :: hs =>
    -- a fresh process on the database that holds `hs.length` empty blocks (closed form, see ModelChain.lean)
    match hexToNat? v, hs.mapM hexToNat? with
    | some v, some hs => (putNode s id { BC.init with nd := { bulkNode s.cfg v hs with running := coldFilter } }, "ok")
    | _, _ => (s, "bad-op")
  | ["copy", src, dst] =>
    match getNode s src with
    | some nd => (putNode s dst nd, "ok")
    | none => (s, "bad-op")
  | "store" :: id :: toks =>
    match getNode s id, parseBlock toks with
    | some bc, some b =>
      let b' := withRoots s.cfg bc.nd b
      match BC.store s.cfg bc b' with
      | (bc', .ok _) =>
        let (s1, rid) := rootId s b'.newRoot
        (putNode s1 id bc', s!"ok {hx rid}")
      | (bc', .error e) => (putNode s id bc', "err:" ++ errName e)
    | _, _ => (s, "bad-op")
  | "storewrongroot" :: id :: toks =>
    -- the block with a new state root that is NOT the one the update produces (what a caller with a
    -- corrupt state update hands to Store): must fail in the root verification inside the batch
    match getNode s id, parseBlock toks with
    | some bc, some b =>
      let b' := withRoots s.cfg bc.nd b
      let wrong : Root := if b'.newRoot == Root.zero then Root.contractsOnly [(0, (0, 0))] [] else Root.zero
      match BC.store s.cfg bc { b' with newRoot := wrong } with
      | (bc', .ok _) => (putNode s id bc', "ok")
      | (bc', .error e) => (putNode s id bc', "err:" ++ errName e)
    | _, _ => (s, "bad-op")
  | ["revert", id] =>
    match getNode s id with
    | some bc =>
      match BC.revert s.cfg bc with
      | (bc', .ok _) => (putNode s id bc', "ok")
      | (bc', .error e) => (putNode s id bc', "err:" ++ errName e)
    | none => (s, "bad-op")
  | ["kill", id] =>
    match getNode s id with
    | some bc => (putNode s id bc.kill, "ok")
    | none => (s, "bad-op")
  | ["shutdown", id] =>
    match getNode s id with
    | some bc =>
      match BC.shutdown s.cfg bc with
      | (bc', .ok _) => (putNode s id bc', "ok")
      | (bc', .error e) => (putNode s id bc', "err:" ++ errName e)
    | none => (s, "bad-op")
  | ["evict", id, w] =>
    match getNode s id, hexToNat? w with
    | some bc, some w => (putNode s id (bc.evict w), "ok")
    | _, _ => (s, "bad-op")
  | ["query", id, lo, hi] =>
    match getNode s id, hexToNat? lo, hexToNat? hi with
    | some bc, some lo, some hi =>
      match BC.query s.cfg bc lo hi with
      | .ok (ans, bc') => (putNode s id bc', "ok " ++ bloomsText ans)
      | .error e => (s, "err:" ++ errName e)
    | _, _, _ => (s, "bad-op")
  | ["dump", id, family] =>
    match getNode s id with
    | some bc => dumpBC s id bc family
    | none => (s, "bad-op")
  | ["dumpfrom", id, family, lo] =>
    match getNode s id, hexToNat? lo with
    | some bc, some lo => dumpBC s id bc family lo
    | _, _ => (s, "bad-op")
  | _ => (s, "bad-op")

def main : IO Unit := loop step DState.init
