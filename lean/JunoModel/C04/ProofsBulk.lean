import JunoModel.C04.ProofsReach
import JunoModel.C04.ProofsIndex
/-!
C04 helper lemmas, part 18: the closed-form base image. `bulkNode cfg v hs` (ModelChain.lean) IS the node
that stores the plain chain with hashes `hs` block by block, and it is reachable (`Good`): every theorem
applies to the nodes the harness' boundary scenarios start from.
-/
set_option linter.unusedSectionVars false
set_option linter.unusedVariables false
namespace Juno.C04
open Map

/-- writing a key above all keys appends -/
theorem set_snoc {ν : Type} (m : Map Nat ν) (k : Nat) (v : ν) (h : ∀ e ∈ m, e.1 < k) : Map.set m k v = m ++ [(k, v)] := by
  induction m with
  | nil => rfl
  | cons e m ih =>
    obtain ⟨k', v'⟩ := e
    have hk : k' < k := h (k', v') (List.mem_cons_self ..)
    have h1 : KOrd.lt k k' = false := by simp [KOrd.lt]; omega
    have h2 : ¬ k = k' := by omega
    simp only [Map.set, h1, Bool.false_eq_true, if_false, h2, List.cons_append]
    rw [ih (fun e he => h e (List.mem_cons_of_mem _ he))]

theorem rangeMap_keys_lt {ν : Type} (n : Nat) (f : Nat → ν) : ∀ e ∈ (List.range n).map (fun i => (i, f i)), e.1 < n := by
  intro e he
  obtain ⟨i, hi, rfl⟩ := List.mem_map.1 he
  exact List.mem_range.1 hi

theorem rangeMap_succ {ν : Type} (n : Nat) (f : Nat → ν) :
    (List.range (n + 1)).map (fun i => (i, f i)) = (List.range n).map (fun i => (i, f i)) ++ [(n, f n)] := by
  rw [List.range_succ, List.map_append]; rfl

theorem set_rangeMap {ν : Type} (n : Nat) (f : Nat → ν) (v : ν) (hv : v = f n) :
    Map.set ((List.range n).map (fun i => (i, f i))) n v = (List.range (n + 1)).map (fun i => (i, f i)) := by
  rw [set_snoc _ _ _ (rangeMap_keys_lt n f), rangeMap_succ, hv]

theorem rangeMap_congr {ν : Type} (n : Nat) (f g : Nat → ν) (h : ∀ i, i < n → f i = g i) :
    (List.range n).map (fun i => (i, f i)) = (List.range n).map (fun i => (i, g i)) := by
  apply List.map_congr_left
  intro i hi
  rw [h i (List.mem_range.1 hi)]

theorem get_rangeMap {ν : Type} (n : Nat) (f : Nat → ν) (k : Nat) :
    Map.get ((List.range n).map (fun i => (i, f i))) k = if k < n then some (f k) else none := by
  induction n with
  | zero => simp [Map.get]
  | succ n ih =>
    rw [rangeMap_succ]
    have : ∀ (a b : Map Nat ν) (k : Nat), Map.get (a ++ b) k = match Map.get a k with | some v => some v | none => Map.get b k := by
      intro a b k
      induction a with
      | nil => rfl
      | cons e a iha =>
        obtain ⟨k0, v0⟩ := e
        simp only [List.cons_append, Map.get]
        by_cases hk : k = k0
        · simp [hk]
        · simp only [hk, if_false]; exact iha
    rw [this, ih]
    by_cases h1 : k < n
    · have h2 : k < n + 1 := by omega
      simp [h1, h2]
    · simp only [h1, if_false, Map.get]
      by_cases h3 : k = n
      · simp [h3]
      · have h2 : ¬ k < n + 1 := by omega
        simp [h3, h2]

theorem sorted_rangeMap {ν : Type} (n : Nat) (f : Nat → ν) : Sorted ((List.range n).map (fun i => (i, f i))) := by
  induction n with
  | zero => trivial
  | succ n ih =>
    rw [← set_rangeMap n f (f n) rfl]
    exact sorted_set ih _ _

theorem getD_append_lt (hs : List Nat) (h d i : Nat) (hi : i < hs.length) : (hs ++ [h]).getD i d = hs.getD i d := by
  simp [List.getD, List.getElem?_append_left hi]

theorem getD_append_len (hs : List Nat) (h d : Nat) : (hs ++ [h]).getD hs.length d = h := by
  simp [List.getD]

theorem plainHeader_append (v : Nat) (hs : List Nat) (h i : Nat) (hi : i < hs.length) :
    plainHeader v (hs ++ [h]) i = plainHeader v hs i := by
  unfold plainHeader
  rw [getD_append_lt hs h 0 i hi]
  have : (0 :: (hs ++ [h])).getD i 0 = (0 :: hs).getD i 0 := by
    have e : 0 :: (hs ++ [h]) = (0 :: hs) ++ [h] := rfl
    rw [e, getD_append_lt (0 :: hs) h 0 i (by simp; omega)]
  rw [this]

/-- the chain of plain blocks, one more block -/
theorem plainChain_snoc (v : Nat) : ∀ (hs : List Nat) (n0 p0 h : Nat),
    plainChain v n0 p0 (hs ++ [h]) = plainChain v n0 p0 hs ++ [plainBlock v (n0 + hs.length) h ((p0 :: hs).getD hs.length p0)] := by
  intro hs
  induction hs with
  | nil => intro n0 p0 h; simp [plainChain, List.getD]
  | cons a t ih =>
    intro n0 p0 h
    simp only [List.cons_append, plainChain, List.length_cons]
    rw [ih (n0 + 1) a h]
    have e1 : n0 + 1 + t.length = n0 + (t.length + 1) := by omega
    have e2 : (a :: t).getD t.length a = (p0 :: a :: t).getD (t.length + 1) p0 := by
      simp [List.getD]
    rw [e1, e2]

theorem rootOf_empty (v : Nat) : rootOf v State.empty = Root.zero := by
  simp [rootOf, State.empty, Map.filterK]

theorem applyUpdate_plain (cfg : Cfg) (v n h p : Nat) :
    applyUpdate cfg (plainBlock v n h p) State.empty = .ok State.empty := by
  unfold applyUpdate plainBlock
  cases hl : cfg.legacy <;> cases hp : cfg.legacyPurgeOnUpdate <;>
    simp [hl, hp, Diff.empty, State.empty, registerClasses, updateClassTrie, applyDeployed, applyReplaced, applyNonces, updAll,
      touchStorage, logOld, writeStorageLegacy, writeStorage, purgeSysLegacy, purgeSysNew, Map.setAll, Map.keys, Map.has, Map.get,
      bind, Except.bind, pure, Except.pure]

theorem updateState_plain (cfg : Cfg) (v n h p : Nat) :
    updateState cfg (plainBlock v n h p) State.empty = .ok State.empty := by
  unfold updateState
  have e1 : (plainBlock v n h p).ver = v := rfl
  have e2 : (plainBlock v n h p).oldRoot = Root.zero := rfl
  have e3 : (plainBlock v n h p).newRoot = Root.zero := rfl
  simp [e1, e2, e3, rootOf_empty, applyUpdate_plain, bind, Except.bind, pure, Except.pure]

theorem storeCasm_plain (v n h p : Nat) : storeCasm n (plainBlock v n h p) [] = .ok [] := by
  unfold storeCasm plainBlock
  by_cases hv : v ≥ 2 <;>
    simp [hv, declaredDefsOK, declaredDefsOKV1, Diff.empty, Map.setAll, updAll, bind, Except.bind, pure, Except.pure]

theorem checkSuccession_bulk (cfg : Cfg) (v : Nat) (hv : v < 3) (hs : List Nat) (h : Nat) :
    checkSuccession (bulkNode cfg v hs) (plainBlock v hs.length h ((0 :: hs).getD hs.length 0)) = .ok () := by
  unfold checkSuccession
  have hver : ¬ (plainBlock v hs.length h ((0 :: hs).getD hs.length 0)).ver ≥ 3 := by show ¬ v ≥ 3; omega
  rw [if_neg hver]
  cases hs with
  | nil => simp [bulkNode, plainBlock, List.getD]
  | cons a t =>
    have hh : (bulkNode cfg v (a :: t)).height = some t.length := by simp [bulkNode]
    have hg : Map.get (bulkNode cfg v (a :: t)).headers t.length = some (plainHeader v (a :: t) t.length) := by
      show Map.get ((List.range (a :: t).length).map (fun i => (i, plainHeader v (a :: t) i))) t.length = _
      rw [get_rangeMap]; simp
    rw [hh]
    simp only [hg]
    rw [if_neg (by simp [plainBlock]), if_neg (by simp [plainBlock, plainHeader, List.getD])]

theorem filterInsert_bulk (cfg : Cfg) (wpos : 0 < cfg.window) (n : Nat) :
    filterInsert cfg ⟨n - n % cfg.window, n, []⟩ ((List.range (n / cfg.window)).map (fun k => (k * cfg.window, ([] : Map Nat Nat)))) 0 n =
      .ok (⟨(n + 1) - (n + 1) % cfg.window, n + 1, []⟩,
           (List.range ((n + 1) / cfg.window)).map (fun k => (k * cfg.window, ([] : Map Nat Nat)))) := by
  have ed := Nat.div_add_mod n cfg.window
  have hr := Nat.mod_lt n wpos
  unfold filterInsert
  have hrg : (n < n - n % cfg.window || n - n % cfg.window + cfg.window - 1 < n) = false := by
    simp only [Bool.or_eq_false_iff, decide_eq_false_iff_not]; omega
  simp only [hrg, Bool.false_eq_true, if_false, if_true]
  by_cases hl : n % cfg.window = cfg.window - 1
  · have hlast : n = n - n % cfg.window + cfg.window - 1 := by omega
    rw [if_pos hlast]
    have e1 : n + 1 = cfg.window * (n / cfg.window + 1) := by rw [Nat.mul_succ]; omega
    have hm : (n + 1) % cfg.window = 0 := by rw [e1]; exact Nat.mul_mod_right _ _
    have hd : (n + 1) / cfg.window = n / cfg.window + 1 := by rw [e1]; exact Nat.mul_div_cancel_left _ wpos
    rw [hm, hd]
    have hfrom : n - n % cfg.window = n / cfg.window * cfg.window := by rw [Nat.mul_comm]; omega
    rw [hfrom]
    have hset : Map.set ((List.range (n / cfg.window)).map (fun k => (k * cfg.window, ([] : Map Nat Nat)))) (n / cfg.window * cfg.window) [] =
        (List.range (n / cfg.window + 1)).map (fun k => (k * cfg.window, ([] : Map Nat Nat))) := by
      rw [set_snoc, List.range_succ, List.map_append]; rfl
      intro e he
      obtain ⟨k, hk, rfl⟩ := List.mem_map.1 he
      exact Nat.mul_lt_mul_of_pos_right (List.mem_range.1 hk) wpos
    rw [hset]
    simp
  · have hlast : ¬ n = n - n % cfg.window + cfg.window - 1 := by omega
    rw [if_neg hlast]
    have hq : (n + 1) / cfg.window = n / cfg.window ∧ (n + 1) % cfg.window = n % cfg.window + 1 := by
      rw [Nat.div_mod_unique wpos]
      constructor <;> omega
    rw [hq.1, hq.2]
    have : n + 1 - (n % cfg.window + 1) = n - n % cfg.window := by omega
    rw [this]

/-- storing the next plain block on the closed form gives the closed form of the longer chain -/
theorem store_bulk (cfg : Cfg) (wpos : 0 < cfg.window) (v : Nat) (hv : v < 3) (hs : List Nat) (h : Nat) :
    store cfg (bulkNode cfg v hs) (plainBlock v hs.length h ((0 :: hs).getD hs.length 0)) = .ok (bulkNode cfg v (hs ++ [h])) := by
  unfold store
  have hcs := checkSuccession_bulk cfg v hv hs h
  have hus : updateState cfg (plainBlock v hs.length h ((0 :: hs).getD hs.length 0)) (bulkNode cfg v hs).st = .ok State.empty :=
    updateState_plain cfg v _ _ _
  have hsc : storeCasm (plainBlock v hs.length h ((0 :: hs).getD hs.length 0)).number (plainBlock v hs.length h ((0 :: hs).getD hs.length 0))
      (bulkNode cfg v hs).casm = .ok [] := storeCasm_plain v _ _ _
  have hfi : filterInsert cfg (bulkNode cfg v hs).running (bulkNode cfg v hs).persisted
      (plainBlock v hs.length h ((0 :: hs).getD hs.length 0)).bloom (plainBlock v hs.length h ((0 :: hs).getD hs.length 0)).number =
      .ok (⟨(hs.length + 1) - (hs.length + 1) % cfg.window, hs.length + 1, []⟩,
           (List.range ((hs.length + 1) / cfg.window)).map (fun k => (k * cfg.window, ([] : Map Nat Nat)))) :=
    filterInsert_bulk cfg wpos hs.length
  simp only [hcs, hus, hsc, hfi, bind, Except.bind, pure, Except.pure]
  congr 1
  have hlen : (hs ++ [h]).length = hs.length + 1 := by simp
  unfold bulkNode
  simp only [hlen]
  have hheaders : Map.set ((List.range hs.length).map (fun i => (i, plainHeader v hs i))) hs.length
      ⟨h, (0 :: hs).getD hs.length 0, v, 0, 0, Root.zero⟩ =
      (List.range (hs.length + 1)).map (fun i => (i, plainHeader v (hs ++ [h]) i)) := by
    rw [rangeMap_congr hs.length (plainHeader v hs) (plainHeader v (hs ++ [h])) (fun i hi => (plainHeader_append v hs h i hi).symm)]
    apply set_rangeMap
    unfold plainHeader
    rw [getD_append_len]
    have e : 0 :: (hs ++ [h]) = (0 :: hs) ++ [h] := rfl
    rw [e, getD_append_lt (0 :: hs) h 0 hs.length (by simp)]
  have hnum : Map.set (Map.setAll [] hs.zipIdx) h hs.length = Map.setAll [] (hs ++ [h]).zipIdx := by
    rw [List.zipIdx_append]
    simp [Map.setAll, List.foldl_append]
  simp only [plainBlock, indexTxs, indexL1, List.zipIdx_nil, List.foldl_nil]
  rw [hheaders, hnum, set_rangeMap hs.length (fun _ => ([] : List Tx)) [] rfl,
    set_rangeMap hs.length (fun _ => (⟨Diff.empty, Root.zero, Root.zero⟩ : SU)) _ rfl,
    set_rangeMap hs.length (fun _ => (0 : Nat)) 0 rfl]
  simp

/-- a plain block with a new hash is acceptable on the closed form (on a tree with 702b167, or below the
first window end) -/
theorem storeOK_bulk (cfg : Cfg) (hdrop : cfg.dropReopenedWindow = true ∨ ∀ n, n ≠ n - n % cfg.window + cfg.window - 1)
    (v : Nat) (hs : List Nat) (h p : Nat) (hfresh : h ∉ hs) :
    StoreOK cfg (bulkNode cfg v hs) (plainBlock v hs.length h p) where
  block :=
    { fresh := ⟨by
          show Map.get (Map.setAll [] hs.zipIdx) h = none
          rw [get_setAll_notin]
          · rfl
          · simpa using hfresh,
        fun t ht => by simp [plainBlock] at ht, fun t ht => by simp [plainBlock] at ht⟩,
      casmFresh := fun c x hx => by simp [plainBlock, Diff.empty, Map.get] at hx,
      migVer := fun _ => rfl,
      dDep := trivial, dRep := trivial, dNon := trivial, dSto := trivial, dDecl := trivial, dMig := trivial, dDefs := trivial,
      depNotSys := fun a c hx => by simp [plainBlock, Diff.empty, Map.get] at hx,
      known0 := fun c hc => by simp [plainBlock, Diff.empty] at hc,
      decl1 := fun c x hx => by simp [plainBlock, Diff.empty, Map.get] at hx,
      defsListed := fun c d hx => by simp [plainBlock, Map.get] at hx }
  safe :=
    { noEmptySys := fun _ a _ hx => by simp [bulkNode, State.empty, Map.get] at hx,
      noSysEmptied := fun _ a _ hx => by simp [bulkNode, State.empty, Map.get] at hx,
      window := by
        rcases hdrop with hd | hd
        · exact Or.inl hd
        · exact Or.inr (hd hs.length) }

/-- The closed form is the node that stores the plain chain block by block, and it is reachable. -/
theorem bulk_good (cfg : Cfg) (wpos : 0 < cfg.window)
    (hdrop : cfg.dropReopenedWindow = true ∨ ∀ n, n ≠ n - n % cfg.window + cfg.window - 1) (v : Nat) (hv : v < 3) :
    ∀ hs : List Nat, hs.Nodup →
      storeAll cfg Node.init (plainChain v 0 0 hs) = .ok (bulkNode cfg v hs) ∧ Good cfg (bulkNode cfg v hs) := by
  have key : ∀ l : List Nat, l.reverse.Nodup →
      storeAll cfg Node.init (plainChain v 0 0 l.reverse) = .ok (bulkNode cfg v l.reverse) ∧ Good cfg (bulkNode cfg v l.reverse) := by
    intro l
    induction l with
    | nil =>
      intro _
      have e : bulkNode cfg v [] = Node.init := by
        simp [bulkNode, Node.init, Map.setAll]
      simp only [List.reverse_nil]
      rw [e]
      exact ⟨rfl, Good.init⟩
    | cons h l ih =>
      intro hnd
      rw [List.reverse_cons] at hnd ⊢
      have hnd' : l.reverse.Nodup ∧ h ∉ l.reverse := by
        rw [List.nodup_append] at hnd
        refine ⟨hnd.1, fun hm => ?_⟩
        exact hnd.2.2 h hm h (by simp) rfl
      obtain ⟨hst, hg⟩ := ih hnd'.1
      have hstore := store_bulk cfg wpos v hv l.reverse h
      refine ⟨?_, Good.store hg (storeOK_bulk cfg hdrop v l.reverse h _ hnd'.2) hstore⟩
      rw [plainChain_snoc]
      apply storeAll_snoc cfg _ _ _ _ _ hst
      simp only [Nat.zero_add]
      exact hstore
  intro hs hnd
  have := key hs.reverse (by rw [List.reverse_reverse]; exact hnd)
  rw [List.reverse_reverse] at this
  exact this

end Juno.C04
