import JunoModel.C04.ProofsRestart
/-!
C04 helper lemmas, part 17: the process around the database. Restarts (killed or graceful), the lazy
initialisation of the running filter, the snapshot bucket, the window cache with any eviction policy
and event queries are invisible in the node: a process history leaves the node that its stores and
reverts alone leave, and an event query sees exactly the header blooms of that node.
-/
set_option linter.unusedSectionVars false
set_option linter.unusedVariables false
namespace Juno.C04
open Map

/-- the node-level operation a process operation amounts to -/
def absStep (cfg : Cfg) (nd : Node) : BCOp → Node
  | .store b => step cfg nd (.store b)
  | .revert => step cfg nd .revert
  | _ => nd

def absRun (cfg : Cfg) (nd : Node) (ops : List BCOp) : Node := ops.foldl (absStep cfg) nd

/-- every block the process history stores successfully is acceptable on the node it is stored on -/
def BCHistOK (cfg : Cfg) : Node → List BCOp → Prop
  | _, [] => True
  | nd, op :: ops =>
    (match op with
     | .store b => ∀ nd', store cfg nd b = .ok nd' → StoreOK cfg nd b
     | _ => True) ∧ BCHistOK cfg (absStep cfg nd op) ops

/-- The process `bc` is a process on the (reachable) node `nd`. -/
structure BCInv (cfg : Cfg) (bc : BC) (nd : Node) : Prop where
  good : Good cfg nd
  /-- the database is `nd`'s; the in-memory filter may be cold -/
  db : ∃ r, bc.nd = { nd with running := r }
  hot : bc.hot = true → bc.nd = nd
  snap : SnapOK cfg nd bc.snapshot
  /-- every cached window is the persisted one -/
  cache : ∀ s bl, Map.get bc.cache s = some bl → Map.get nd.persisted s = some bl
  cacheSorted : Sorted bc.cache

theorem init_BCInv (cfg : Cfg) : BCInv cfg BC.init Node.init where
  good := .init
  db := ⟨Node.init.running, rfl⟩
  hot := fun h => by cases h
  snap := fun s h => by cases h
  cache := fun s bl h => by simp [BC.init, Map.get] at h
  cacheSorted := trivial

theorem ensureHot_inv {cfg : Cfg} (hc : cfg.asFound) {bc : BC} {nd : Node} (i : BCInv cfg bc nd) :
    ensureHot cfg bc = .ok { bc with nd := nd, hot := true } := by
  obtain ⟨bnd, bhot, bsnap, bcache⟩ := bc
  obtain ⟨r, hr⟩ := i.db
  simp only at hr
  unfold ensureHot
  cases bhot with
  | true =>
    have := i.hot rfl
    simp only at this
    simp [this]
  | false =>
    simp only [Bool.false_eq_true, if_false]
    have e : initFilter cfg bnd bsnap = initFilter cfg nd bsnap := by rw [hr]; rfl
    rw [e, init_eq (good_inv hc i.good) (good_RestartInv hc i.good) i.snap]
    simp only [hr]

theorem storePre_of_ok {cfg : Cfg} {nd nd' : Node} {b : Block} (h : store cfg nd b = .ok nd') :
    storePre cfg nd b = .ok () := by
  unfold store at h
  unfold storePre
  cases hsucc : checkSuccession nd b with
  | error e => simp [hsucc, bind, Except.bind] at h
  | ok u =>
    cases hus : updateState cfg b nd.st with
    | error e => simp [hsucc, hus, bind, Except.bind] at h
    | ok st' =>
      cases hsc : storeCasm b.number b nd.casm with
      | error e => simp [hsucc, hus, hsc, bind, Except.bind] at h
      | ok casm' => rfl

theorem revertPre_of_ok {cfg : Cfg} {nd nd' : Node} (h : revert cfg nd = .ok nd') :
    revertPre cfg nd = .ok () := by
  unfold revert at h
  unfold revertPre
  cases hh : nd.height with
  | none => simp [hh, bind, Except.bind, throw, throwThe, MonadExceptOf.throw] at h
  | some n =>
    simp only [hh, bind, Except.bind, pure, Except.pure] at h
    cases hsu : Map.get nd.sus n with
    | none => simp [hsu, throw, throwThe, MonadExceptOf.throw] at h
    | some su =>
      simp only [hsu] at h
      cases hhd : Map.get nd.headers n with
      | none => simp [hhd, throw, throwThe, MonadExceptOf.throw] at h
      | some hd =>
        simp only [hhd] at h
        cases hrs : revertState cfg n hd.ver su nd.casm nd.st with
        | error e => simp [hrs] at h
        | ok st' =>
          simp only [hrs] at h
          cases hrc : revertCasm su.diff nd.casm with
          | error e => simp [hrc] at h
          | ok casm' =>
            simp only [hrc] at h
            cases htx : Map.get nd.blockTxs n with
            | none => simp [htx, throw, throwThe, MonadExceptOf.throw] at h
            | some txs => simp [hsu, hhd, hrs, hrc, htx]

/-- a snapshot stays valid when the chain grows -/
theorem store_SnapOK {cfg : Cfg} {nd nd' : Node} {b : Block} {snap : Option Filter}
    (so : SnapOK cfg nd snap) (h : store cfg nd b = .ok nd') : SnapOK cfg nd' snap := by
  obtain ⟨st', casm', f', p', hn, hus, hsc, hfi, hnd⟩ := store_parts h
  have hnn : nd'.nextNumber = b.number + 1 := store_nextNumber h
  intro s hs
  obtain ⟨sle, sr⟩ := so s hs
  rw [← hn] at sle
  refine ⟨by rw [hnn]; omega, ⟨sr.aligned, sr.lo, sr.hi, sr.cols.mono ?_⟩⟩
  intro m hm
  rw [hnd]
  exact get_set_ne _ _ (by omega)

theorem store_cache {cfg : Cfg} {nd nd' : Node} {b : Block} {cache : Windows} (inv : NodeInv cfg nd)
    (hcache : ∀ s bl, Map.get cache s = some bl → Map.get nd.persisted s = some bl)
    (h : store cfg nd b = .ok nd') : ∀ s bl, Map.get cache s = some bl → Map.get nd'.persisted s = some bl := by
  obtain ⟨st', casm', f', p', hn, hus, hsc, hfi, hnd⟩ := store_parts h
  intro s bl hs
  have hp := hcache s bl hs
  have hper : nd'.persisted = p' := by rw [hnd]
  rw [hper]
  have fi := inv.filter
  rw [← hn] at fi
  unfold filterInsert at hfi
  have hrg : (b.number < nd.running.fromBlock || nd.running.fromBlock + cfg.window - 1 < b.number) = false := by
    have := fi.lo; have := fi.hi
    simp only [Bool.or_eq_false_iff, decide_eq_false_iff_not]; omega
  simp only [hrg, Bool.false_eq_true, if_false] at hfi
  by_cases hlast : b.number = nd.running.fromBlock + cfg.window - 1
  · rw [if_pos hlast] at hfi
    injection hfi with hfi
    injection hfi with _ hp'
    rw [← hp']
    have hne : s ≠ nd.running.fromBlock := by
      intro e
      rw [e, fi.noAbove _ (Nat.le_refl _)] at hp
      cases hp
    rw [get_set_ne _ _ hne]; exact hp
  · rw [if_neg hlast] at hfi
    injection hfi with hfi
    injection hfi with _ hp'
    rw [← hp']; exact hp

/-! ### One process operation -/

theorem BCInv.of_fields {cfg : Cfg} {bc : BC} {nd : Node} (g : Good cfg nd) (hnd : bc.nd = nd)
    (snap : SnapOK cfg nd bc.snapshot)
    (cache : ∀ s bl, Map.get bc.cache s = some bl → Map.get nd.persisted s = some bl)
    (cs : Sorted bc.cache) : BCInv cfg bc nd :=
  ⟨g, ⟨nd.running, by rw [hnd]⟩, fun _ => hnd, snap, cache, cs⟩

theorem reset_inv {cfg : Cfg} {bc : BC} {nd : Node} (i : BCInv cfg bc nd) : BCInv cfg bc.reset nd := by
  obtain ⟨r, hr⟩ := i.db
  refine ⟨i.good, ⟨coldFilter, ?_⟩, fun h => by simp [BC.reset] at h, i.snap, i.cache, i.cacheSorted⟩
  simp only [BC.reset, hr]

theorem store_step_inv {cfg : Cfg} (hc : cfg.asFound) {bc : BC} {nd : Node} (i : BCInv cfg bc nd) (b : Block)
    (ok : ∀ nd', store cfg nd b = .ok nd' → StoreOK cfg nd b) :
    BCInv cfg (BC.store cfg bc b).1 (step cfg nd (.store b)) := by
  obtain ⟨r, hr⟩ := i.db
  have hpre : storePre cfg bc.nd b = storePre cfg nd b := by rw [hr]; rfl
  unfold BC.store
  rw [hpre]
  cases hs : store cfg nd b with
  | ok nd' =>
    rw [storePre_of_ok hs]
    simp only [ensureHot_inv hc i, hs, step]
    refine BCInv.of_fields (Good.store i.good (ok nd' hs) hs) rfl (store_SnapOK i.snap hs) ?_ i.cacheSorted
    exact store_cache (good_inv hc i.good) i.cache hs
  | error e =>
    have hstep : step cfg nd (.store b) = nd := by simp [step, hs]
    rw [hstep]
    cases hp : storePre cfg nd b with
    | error e' => exact reset_inv i
    | ok u =>
      simp only [ensureHot_inv hc i, hs]
      exact reset_inv (BCInv.of_fields i.good rfl i.snap i.cache i.cacheSorted)

theorem revert_step_inv {cfg : Cfg} (hc : cfg.asFound) {bc : BC} {nd : Node} (i : BCInv cfg bc nd) :
    BCInv cfg (BC.revert cfg bc).1 (step cfg nd .revert) := by
  obtain ⟨r, hr⟩ := i.db
  have hpre : revertPre cfg bc.nd = revertPre cfg nd := by rw [hr]; rfl
  unfold BC.revert
  rw [hpre]
  cases hh : nd.height with
  | none =>
    have hstep : step cfg nd .revert = nd := by simp [step, revert_noHead hh]
    rw [hstep]
    have : revertPre cfg nd = .error .noHead := by unfold revertPre; rw [hh]
    rw [this]
    exact reset_inv i
  | some x =>
    obtain ⟨nd0, hrv, g0⟩ := good_revert hc i.good (by rw [hh]; intro e; cases e)
    have hstep : step cfg nd .revert = nd0 := by simp [step, hrv]
    rw [hstep, revertPre_of_ok hrv]
    simp only [ensureHot_inv hc i, hrv]
    exact BCInv.of_fields g0 rfl (fun s h => by cases h) (fun s bl h => by simp [Map.get] at h) trivial

theorem shutdown_step_inv {cfg : Cfg} (hc : cfg.asFound) {bc : BC} {nd : Node} (i : BCInv cfg bc nd) :
    BCInv cfg (BC.shutdown cfg bc).1 nd := by
  unfold BC.shutdown
  simp only [ensureHot_inv hc i]
  refine BCInv.of_fields i.good rfl ?_ i.cache i.cacheSorted
  intro s hs
  simp only [Option.some.injEq] at hs
  subst hs
  obtain ⟨rr, rn⟩ := running_FRel (good_inv hc i.good) (good_RestartInv hc i.good)
  exact ⟨by rw [rn]; exact Nat.le_refl _, rr⟩

theorem kill_step_inv {cfg : Cfg} {bc : BC} {nd : Node} (i : BCInv cfg bc nd) : BCInv cfg bc.kill nd := by
  have r := reset_inv i
  exact ⟨r.good, r.db, r.hot, r.snap, fun s bl h => by simp [BC.kill, Map.get] at h, trivial⟩

theorem evict_step_inv {cfg : Cfg} {bc : BC} {nd : Node} (i : BCInv cfg bc nd) (s : Nat) : BCInv cfg (bc.evict s) nd := by
  refine ⟨i.good, i.db, i.hot, i.snap, ?_, sorted_del i.cacheSorted s⟩
  intro s' bl h
  simp only [BC.evict] at h
  rw [get_del i.cacheSorted] at h
  by_cases e : s' = s
  · simp [e] at h
  · simp only [e, if_false] at h
    exact i.cache s' bl h

/-! ### Event queries -/

/-- the content of a whole window of the aggregated filter, as the headers give it -/
def WinCols (cfg : Cfg) (hd : Map Nat Header) (bl : Map Nat Nat) (s : Nat) : Prop :=
  ∀ m, Map.get bl m = if s ≤ m ∧ m < s + cfg.window then nzBloom (Map.get hd m) else none

theorem get_append {κ ν : Type} [DecidableEq κ] [KOrd κ] (a b : Map κ ν) (k : κ) :
    Map.get (a ++ b) k = match Map.get a k with | some v => some v | none => Map.get b k := by
  induction a with
  | nil => rfl
  | cons e a ih =>
    obtain ⟨k0, v0⟩ := e
    simp only [List.cons_append, Map.get]
    by_cases hk : k = k0
    · simp [hk]
    · simp only [hk, if_false]; exact ih

theorem aligned_gap {w a b : Nat} (ha : a % w = 0) (hb : b % w = 0) (h : b < a) : b + w ≤ a := by
  have e1 := Nat.div_add_mod a w
  have e2 := Nat.div_add_mod b w
  rw [ha] at e1; rw [hb] at e2
  have hq : b / w < a / w := by
    apply Nat.lt_of_mul_lt_mul_left (a := w)
    omega
  have := Nat.mul_le_mul_left w hq
  rw [Nat.mul_succ] at this
  omega

/-- the state of a hot process on node `nd` whose cache is coherent -/
structure HotOn (nd : Node) (bc : BC) : Prop where
  nd_eq : bc.nd = nd
  cache : ∀ s bl, Map.get bc.cache s = some bl → Map.get nd.persisted s = some bl
  cacheSorted : Sorted bc.cache

theorem loadWindow_spec {cfg : Cfg} {nd : Node} (inv : NodeInv cfg nd) (ri : RestartInv cfg nd) {bc : BC}
    (h : HotOn nd bc) {s : Nat} (hs : s % cfg.window = 0) (hle : s ≤ nd.running.fromBlock) :
    ∃ bl cache', loadWindow bc s = .ok (bl, cache') ∧ WinCols cfg nd.headers bl s ∧
      HotOn nd { bc with cache := cache' } := by
  obtain ⟨bnd, bhot, bsnap, bcache⟩ := bc
  have e : bnd = nd := h.nd_eq
  subst e
  unfold loadWindow
  simp only []
  by_cases hrun : s = bnd.running.fromBlock
  · simp only [hrun, if_true]
    refine ⟨_, _, rfl, ?_, ⟨rfl, h.cache, h.cacheSorted⟩⟩
    intro m
    rw [ri.cols.get]
    have fi := inv.filter
    by_cases h1 : bnd.running.fromBlock ≤ m ∧ m < bnd.nextNumber
    · have h2 : bnd.running.fromBlock ≤ m ∧ m < bnd.running.fromBlock + cfg.window := ⟨h1.1, by have := fi.hi; omega⟩
      simp only [h1, h2, and_self, if_true]
    · simp only [h1, if_false]
      by_cases h2 : bnd.running.fromBlock ≤ m ∧ m < bnd.running.fromBlock + cfg.window
      · simp only [h2, and_self, if_true]
        have hab := (inv.index.above m (by omega)).1
        rw [hab]; rfl
      · simp only [h2, if_false]
  · simp only [hrun, if_false]
    have hlt : s < bnd.running.fromBlock := by omega
    obtain ⟨bl0, hb0, c0⟩ := ri.pers s hs hlt
    have wc : WinCols cfg bnd.headers bl0 s := c0.get
    cases hc : Map.get bcache s with
    | some bl =>
      simp only []
      have := h.cache s bl hc
      rw [hb0] at this
      cases this
      exact ⟨_, _, rfl, wc, ⟨rfl, h.cache, h.cacheSorted⟩⟩
    | none =>
      simp only [hb0]
      refine ⟨_, _, rfl, wc, ⟨rfl, ?_, sorted_set h.cacheSorted _ _⟩⟩
      intro s' bl hg
      simp only at hg
      rw [get_set] at hg
      by_cases e : s' = s
      · simp only [e, if_true, Option.some.injEq] at hg
        rw [e, ← hg]; exact hb0
      · simp only [e, if_false] at hg
        exact h.cache s' bl hg

theorem scan_spec {cfg : Cfg} {nd : Node} (inv : NodeInv cfg nd) (ri : RestartInv cfg nd) (lo hi : Nat) :
    ∀ (k s : Nat) (bc : BC), HotOn nd bc → s % cfg.window = 0 → (k = 0 ∨ s + (k - 1) * cfg.window ≤ nd.running.fromBlock) →
    ∃ ans bc', scanWindows cfg lo hi k s bc = .ok (ans, bc') ∧ HotOn nd bc' ∧ bc'.hot = bc.hot ∧ bc'.snapshot = bc.snapshot ∧
      ∀ m, Map.get ans m =
        if (s ≤ m ∧ m < s + k * cfg.window) ∧ (lo ≤ m ∧ m ≤ hi) then nzBloom (Map.get nd.headers m) else none := by
  intro k
  induction k with
  | zero =>
    intro s bc h _ _
    refine ⟨[], bc, rfl, h, rfl, rfl, fun m => ?_⟩
    simp only [Map.get, Nat.zero_mul, Nat.add_zero]
    rw [if_neg]; omega
  | succ k ih =>
    intro s bc h hs hk
    have hk' : s + k * cfg.window ≤ nd.running.fromBlock := by
      rcases hk with hk | hk
      · cases hk
      · simpa using hk
    obtain ⟨bl, cache', hl, wc, h1⟩ := loadWindow_spec inv ri h hs (by omega)
    have hs' : (s + cfg.window) % cfg.window = 0 := by rw [Nat.add_mod_right]; exact hs
    obtain ⟨rest, bc', hsc, h2, hh, hsn, hget⟩ := ih (s + cfg.window) { bc with cache := cache' } h1 hs' (by
      cases k with
      | zero => exact Or.inl rfl
      | succ j =>
        right
        rw [Nat.succ_mul] at hk'
        simp only [Nat.add_sub_cancel]
        omega)
    refine ⟨Map.filterK bl (fun m => decide (lo ≤ m) && decide (m ≤ hi)) ++ rest, bc', ?_, h2, hh, hsn, ?_⟩
    · simp only [scanWindows, hl, hsc]
    · intro m
      rw [get_append, get_filterK, wc m, hget m, Nat.succ_mul]
      by_cases hr : lo ≤ m ∧ m ≤ hi
      · have hp : (decide (lo ≤ m) && decide (m ≤ hi)) = true := by simp [hr]
        simp only [hp, if_true]
        by_cases hw : s ≤ m ∧ m < s + cfg.window
        · have h3 : (s ≤ m ∧ m < s + (k * cfg.window + cfg.window)) ∧ (lo ≤ m ∧ m ≤ hi) := ⟨⟨hw.1, by omega⟩, hr⟩
          have h4 : ¬ (s + cfg.window ≤ m ∧ m < s + cfg.window + k * cfg.window) := by
            intro hx; omega
          simp only [hw, h3, and_self, if_true]
          cases nzBloom (Map.get nd.headers m) with
          | some v => rfl
          | none => simp [h4]
        · simp only [hw, if_false]
          by_cases h4 : (s + cfg.window ≤ m ∧ m < s + cfg.window + k * cfg.window) ∧ (lo ≤ m ∧ m ≤ hi)
          · have h3 : (s ≤ m ∧ m < s + (k * cfg.window + cfg.window)) ∧ (lo ≤ m ∧ m ≤ hi) := ⟨⟨by omega, by omega⟩, hr⟩
            simp only [h3, h4, and_self, if_true]
          · have h3 : ¬ ((s ≤ m ∧ m < s + (k * cfg.window + cfg.window)) ∧ (lo ≤ m ∧ m ≤ hi)) := by
              intro hx; apply h4; refine ⟨⟨?_, ?_⟩, hr⟩
              · have : ¬ (s ≤ m ∧ m < s + cfg.window) := hw
                omega
              · omega
            simp only [h3, h4, if_false]
      · have hp : (decide (lo ≤ m) && decide (m ≤ hi)) = false := by
          simp only [Bool.and_eq_false_iff, decide_eq_false_iff_not]
          by_cases h5 : lo ≤ m
          · right; intro h6; exact hr ⟨h5, h6⟩
          · left; exact h5
        have h3 : ¬ ((s ≤ m ∧ m < s + (k * cfg.window + cfg.window)) ∧ (lo ≤ m ∧ m ≤ hi)) := fun hx => hr hx.2
        have h4 : ¬ ((s + cfg.window ≤ m ∧ m < s + cfg.window + k * cfg.window) ∧ (lo ≤ m ∧ m ≤ hi)) := fun hx => hr hx.2
        simp only [hp, h3, h4, Bool.false_eq_true, if_false]

/-- An event query over `[lo, hi]` up to the head succeeds, leaves a process on the same node, and its
candidate list holds, for every block of the range, exactly the non-empty bloom of that block's header:
whichever of the running filter, the cache and the database served the window. -/
theorem query_spec {cfg : Cfg} (hc : cfg.asFound) {bc : BC} {nd : Node} (i : BCInv cfg bc nd) {latest lo hi : Nat}
    (hh : nd.height = some latest) (hlo : lo ≤ hi) (hhi : hi ≤ latest) :
    ∃ ans bc', BC.query cfg bc lo hi = .ok (ans, bc') ∧ BCInv cfg bc' nd ∧
      ∀ m, lo ≤ m → m ≤ hi → Map.get ans m = nzBloom (Map.get nd.headers m) := by
  have inv := good_inv hc i.good
  have ri := good_RestartInv hc i.good
  have hnn : nd.nextNumber = latest + 1 := by simp [Node.nextNumber, hh]
  obtain ⟨wpos, hnext, flo, fhi, hal, sb, sp, hba, hna⟩ := inv.filter
  rw [hnn] at flo fhi
  unfold BC.query
  have hnot : ¬ hi < lo := by omega
  simp only [hnot, if_false, ensureHot_inv hc i]
  -- window arithmetic
  have ea := Nat.div_add_mod lo cfg.window
  have ec := Nat.div_add_mod hi cfg.window
  have ra := Nat.mod_lt lo wpos
  have rc := Nat.mod_lt hi wpos
  have hac : lo / cfg.window ≤ hi / cfg.window := Nat.div_le_div_right hlo
  obtain ⟨d, hd⟩ : ∃ d, hi / cfg.window = lo / cfg.window + d := ⟨hi / cfg.window - lo / cfg.window, by omega⟩
  have hk : hi / cfg.window - lo / cfg.window + 1 = d + 1 := by omega
  have hs0 : lo - lo % cfg.window = lo / cfg.window * cfg.window := by rw [Nat.mul_comm]; omega
  have hcw : hi / cfg.window * cfg.window = lo / cfg.window * cfg.window + d * cfg.window := by rw [hd, Nat.add_mul]
  rw [hk, hs0]
  have hsm : (lo / cfg.window * cfg.window) % cfg.window = 0 := Nat.mul_mod_left _ _
  have hcm : (hi / cfg.window * cfg.window) % cfg.window = 0 := Nat.mul_mod_left _ _
  have hcle : hi / cfg.window * cfg.window ≤ nd.running.fromBlock := by
    apply Nat.le_of_not_lt
    intro hgt
    have := aligned_gap hcm hal hgt
    have : hi / cfg.window * cfg.window ≤ hi := by rw [Nat.mul_comm]; omega
    omega
  have hot : HotOn nd { bc with nd := nd, hot := true } := ⟨rfl, i.cache, i.cacheSorted⟩
  obtain ⟨ans, bc', hsc, h2, hh2, hsn, hget⟩ := scan_spec inv ri lo hi (d + 1) (lo / cfg.window * cfg.window) _ hot hsm
    (Or.inr (by simp only [Nat.add_sub_cancel]; omega))
  refine ⟨ans, bc', hsc, ?_, ?_⟩
  · refine BCInv.of_fields i.good h2.nd_eq ?_ h2.cache h2.cacheSorted
    rw [hsn]; exact i.snap
  · intro m h1 h3
    rw [hget m, Nat.succ_mul]
    have h4 : (lo / cfg.window * cfg.window ≤ m ∧ m < lo / cfg.window * cfg.window + (d * cfg.window + cfg.window)) ∧ (lo ≤ m ∧ m ≤ hi) := by
      refine ⟨⟨?_, ?_⟩, h1, h3⟩
      · rw [Nat.mul_comm]; omega
      · have : hi < hi / cfg.window * cfg.window + cfg.window := by rw [Nat.mul_comm]; omega
        omega
    simp only [h4, and_self, if_true]

/-! ### Whole process histories -/

theorem bc_step_inv {cfg : Cfg} (hc : cfg.asFound) {bc : BC} {nd : Node} (i : BCInv cfg bc nd) (op : BCOp)
    (ok : match op with
      | .store b => ∀ nd', store cfg nd b = .ok nd' → StoreOK cfg nd b
      | _ => True) : BCInv cfg (BC.step cfg bc op) (absStep cfg nd op) := by
  cases op with
  | store b => exact store_step_inv hc i b ok
  | revert => exact revert_step_inv hc i
  | query lo hi =>
    simp only [BC.step, absStep]
    cases hq : BC.query cfg bc lo hi with
    | error e => exact i
    | ok r =>
      simp only []
      -- a successful query leaves a process on the same node
      unfold BC.query at hq
      by_cases hlt : hi < lo
      · simp only [hlt, if_true] at hq
        cases hq; exact i
      · simp only [hlt, if_false, ensureHot_inv hc i] at hq
        have inv := good_inv hc i.good
        have ri := good_RestartInv hc i.good
        -- generic: scanWindows keeps the process on the node whenever it succeeds
        have key : ∀ (k s : Nat) (b0 : BC) (r0 : List (Nat × Nat) × BC), HotOn nd b0 → b0.snapshot = bc.snapshot →
            scanWindows cfg lo hi k s b0 = .ok r0 → HotOn nd r0.2 ∧ r0.2.snapshot = bc.snapshot := by
          intro k
          induction k with
          | zero => intro s b0 r0 h0 hs0 hsc; simp only [scanWindows] at hsc; cases hsc; exact ⟨h0, hs0⟩
          | succ k ih =>
            intro s b0 r0 h0 hs0 hsc
            simp only [scanWindows] at hsc
            cases hl : loadWindow b0 s with
            | error e => simp [hl] at hsc
            | ok lw =>
              obtain ⟨bl, cache'⟩ := lw
              simp only [hl] at hsc
              have h1 : HotOn nd { b0 with cache := cache' } := by
                unfold loadWindow at hl
                split at hl
                · cases hl; exact ⟨h0.nd_eq, h0.cache, h0.cacheSorted⟩
                · split at hl
                  · cases hl; exact ⟨h0.nd_eq, h0.cache, h0.cacheSorted⟩
                  · split at hl
                    · rename_i blp hblp
                      cases hl
                      refine ⟨h0.nd_eq, ?_, sorted_set h0.cacheSorted _ _⟩
                      intro s' bl' hg
                      simp only at hg
                      rw [get_set] at hg
                      by_cases e : s' = s
                      · simp only [e, if_true, Option.some.injEq] at hg
                        rw [e, ← hg, ← h0.nd_eq]; exact hblp
                      · simp only [e, if_false] at hg
                        exact h0.cache s' bl' hg
                    · cases hl
              cases hr : scanWindows cfg lo hi k (s + cfg.window) { b0 with cache := cache' } with
              | error e => simp [hr] at hsc
              | ok r1 =>
                obtain ⟨rest, b1⟩ := r1
                simp only [hr] at hsc
                cases hsc
                exact ih (s + cfg.window) _ (rest, b1) h1 hs0 hr
        obtain ⟨h2, hs2⟩ := key _ _ { bc with nd := nd, hot := true } r ⟨rfl, i.cache, i.cacheSorted⟩ rfl hq
        exact BCInv.of_fields i.good h2.nd_eq (by rw [hs2]; exact i.snap) h2.cache h2.cacheSorted
  | shutdown => exact shutdown_step_inv hc i
  | kill => exact kill_step_inv i
  | evict s => exact evict_step_inv i s

theorem bc_run_inv {cfg : Cfg} (hc : cfg.asFound) : ∀ (ops : List BCOp) (bc : BC) (nd : Node), BCInv cfg bc nd →
    BCHistOK cfg nd ops → BCInv cfg (BC.run cfg bc ops) (absRun cfg nd ops) := by
  intro ops
  induction ops with
  | nil => intro bc nd i _; exact i
  | cons op ops ih =>
    intro bc nd i hok
    obtain ⟨h1, h2⟩ := hok
    exact ih _ _ (bc_step_inv hc i op h1) h2

/-- the stores and reverts of a process history -/
def nodeOps : List BCOp → List Op
  | [] => []
  | .store b :: ops => .store b :: nodeOps ops
  | .revert :: ops => .revert :: nodeOps ops
  | _ :: ops => nodeOps ops

theorem absRun_eq (cfg : Cfg) : ∀ (ops : List BCOp) (nd : Node), absRun cfg nd ops = run cfg nd (nodeOps ops) := by
  intro ops
  induction ops with
  | nil => intro nd; rfl
  | cons op ops ih =>
    intro nd
    cases op <;> simp only [absRun, run, List.foldl, nodeOps, absStep] <;> exact ih _

theorem bcHistOK_of_histOK (cfg : Cfg) : ∀ (ops : List BCOp) (nd : Node), HistOK cfg nd (nodeOps ops) → BCHistOK cfg nd ops := by
  intro ops
  induction ops with
  | nil => intro nd _; trivial
  | cons op ops ih =>
    intro nd h
    cases op with
    | store b => exact ⟨h.1, ih _ h.2⟩
    | revert => exact ⟨trivial, ih _ h⟩
    | query lo hi => exact ⟨trivial, ih _ h⟩
    | shutdown => exact ⟨trivial, ih _ h⟩
    | kill => exact ⟨trivial, ih _ h⟩
    | evict s => exact ⟨trivial, ih _ h⟩

/-! ### The store-time guards of the CASM metadata -/

/-- What `storeCasmHashMetadataV2` (`Migrate`) has checked about every migration of a block it accepted:
the class has metadata, was declared with a V1 hash strictly below this block, is not migrated yet, and is
not declared by the same block. -/
theorem storeCasm_guard {casm casm' : Map Nat CasmMeta} {b : Block} (n : Nat) (hv : b.ver ≥ 2)
    (hs : Sorted casm) (hsd : Sorted b.diff.declV1) (hsm : Sorted b.diff.migrated)
    (h : storeCasm n b casm = .ok casm') :
    ∀ c y, Map.get b.diff.migrated c = some y →
      ∃ md, Map.get casm c = some md ∧ md.migratedAt = 0 ∧ md.v1.isSome = true ∧ md.declaredAt < n ∧
        Map.get b.diff.declV1 c = none := by
  unfold storeCasm at h
  simp only [hv, if_true] at h
  split at h
  rotate_left
  · cases h
  have hc1 : Sorted (setAll casm (b.diff.declV1.map (fun e => (e.1, (⟨n, e.2, 0, none⟩ : CasmMeta))))) :=
    sorted_setAll hs _
  obtain ⟨_, _, hall⟩ := updAll_spec _ _ _ hsm hc1 h
  intro c y hcy
  obtain ⟨v, hv1, hbad⟩ := hall c y hcy
  rw [get_setAll_mapVal hsd] at hv1
  cases hx : Map.get b.diff.declV1 c with
  | some x =>
    rw [hx] at hv1
    cases hv1
    simp at hbad
  | none =>
    rw [hx] at hv1
    simp only [Bool.or_eq_false_iff, decide_eq_false_iff_not, Nat.not_le, Nat.not_lt, Nat.le_zero_eq] at hbad
    refine ⟨v, hv1, hbad.2, ?_, hbad.1.2, rfl⟩
    cases hv1' : v.v1 with
    | none => simp [hv1'] at hbad
    | some _ => rfl

theorem store_casm_of_ok {cfg : Cfg} {nd nd' : Node} {b : Block} (h : store cfg nd b = .ok nd') :
    storeCasm b.number b nd.casm = .ok nd'.casm := by
  obtain ⟨st', casm', f', p', hn, hus, hsc, hfi, hnd⟩ := store_parts h
  rw [hsc, hnd]

end Juno.C04
