import JunoModel.C04.ProofsClasses2
/-!
C04 helper lemmas, part 9: on the legacy backend `State.Revert` undoes `State.Update`.
-/
set_option linter.unusedSectionVars false
namespace Juno.C04
open Map

theorem mapM_ok {α β : Type} (f : α → Except Err β) (g : α → β) (l : List α) (h : ∀ e ∈ l, f e = .ok (g e)) :
    l.mapM f = .ok (l.map g) := by
  induction l with
  | nil => rfl
  | cons e l ih =>
    rw [List.mapM_cons, h e (List.mem_cons_self ..), ih (fun e he => h e (List.mem_cons_of_mem _ he))]
    rfl

/-- purge of the deployed contracts in the legacy `Revert` -/
theorem purgeDeployed_spec {dep : Map Nat Nat} (hd : Sorted dep) {cs : Map Nat Contract} (hs : Sorted cs)
    (hall : ∀ a c, Map.get dep a = some c → (Map.get cs a).isSome = true) :
    purgeDeployed cs dep = .ok (delAll cs (Map.keys dep)) := by
  unfold purgeDeployed
  induction dep generalizing cs with
  | nil => rfl
  | cons e d ih =>
    obtain ⟨a0, c0⟩ := e
    obtain ⟨h0, hd'⟩ := hd
    have hd0 : Map.get d a0 = none := get_none_of_lt_all h0
    have h1 := hall a0 c0 (get_cons_self ..)
    cases hg : Map.get cs a0 with
    | none => rw [hg] at h1; cases h1
    | some ct =>
      simp only [List.foldlM_cons, hg, bind, Except.bind, pure, Except.pure]
      have := ih hd' (sorted_del hs a0) (fun a c hac => by
        have ha : a ≠ a0 := by intro e; subst e; rw [hd0] at hac; cases hac
        rw [get_del_ne cs ha]
        exact hall a c (by simp [Map.get, ha, hac]))
      simp only [bind, Except.bind, pure, Except.pure] at this
      rw [this]
      rfl

/-- Hypotheses for the legacy backend: the class facts (`ClassesOK`), invariants of the contract
and log buckets before the block, and well-formedness of the block that juno does not check itself. -/
structure LegacyOK (cfg : Cfg) (s : State) (casm' : Map Nat CasmMeta) (b : Block) : Prop
    extends ClassesOK cfg s casm' b where
  sC : Sorted s.contracts
  sSt : Sorted s.storage
  sHS : Sorted s.hStorage
  sHN : Sorted s.hNonce
  sHC : Sorted s.hClass
  aboveS : ∀ p m, b.number ≤ m → Map.get s.hStorage (p, m) = none
  aboveN : ∀ a m, b.number ≤ m → Map.get s.hNonce (a, m) = none
  aboveC : ∀ a m, b.number ≤ m → Map.get s.hClass (a, m) = none
  nonzero : ∀ p v, Map.get s.storage p = some v → v ≠ 0
  owned : ∀ a k v, Map.get s.storage (a, k) = some v → (Map.get s.contracts a).isSome = true
  genesis : b.number = 0 → s.contracts = []
  /-- no system contract exists with empty storage (the state in which the legacy `Revert` of
  any block fails, see `revert_total_legacy_counterexample`) -/
  noEmptySys : ∀ a, isSys a = true → (Map.get s.contracts a).isSome = true → storageEmpty s.storage a = false
  dDep : Sorted b.diff.deployed
  dRep : Sorted b.diff.replaced
  dNon : Sorted b.diff.nonces
  dSto : Sorted b.diff.storage
  depNotSys : ∀ a c, Map.get b.diff.deployed a = some c → isSys a = false

end Juno.C04
