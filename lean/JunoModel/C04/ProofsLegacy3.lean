import JunoModel.C04.ProofsLegacy2
/-!
C04 helper lemmas, part 10: legacy backend, `State.Revert` after `State.Update` gives back the state.
-/
set_option linter.unusedSectionVars false
namespace Juno.C04
open Map

theorem legacy_forward {cfg : Cfg} (hleg : cfg.legacy = true) (hpu : cfg.legacyPurgeOnUpdate = false)
    {s s' : State} {b : Block} (h : updateState cfg b s = .ok s') :
    rootOf b.ver s = b.oldRoot ∧ rootOf b.ver s' = b.newRoot ∧
    ∃ cs0 cs1 cs2 cs3,
      applyDeployed b.number s.contracts b.diff.deployed = .ok cs0 ∧
      applyReplaced cs0 b.diff.replaced = .ok cs1 ∧
      applyNonces cs1 b.diff.nonces = .ok cs2 ∧
      touchStorage b.number cs2 b.diff.storage = .ok cs3 ∧
      s' = { contracts := cs3,
             storage := (writeStorageLegacy b.number s.storage s.hStorage true b.diff.storage).1,
             classes := registerClasses b.number s.classes b.classes,
             classTrie := updateClassTrie s.classTrie b,
             hStorage := (writeStorageLegacy b.number s.storage s.hStorage true b.diff.storage).2,
             hNonce := logOld b.number cs1 (·.nonce) s.hNonce (Map.keys b.diff.nonces),
             hClass := logOld b.number cs0 (·.classHash) s.hClass (Map.keys b.diff.replaced) } := by
  unfold updateState at h
  by_cases hro : rootOf b.ver s = b.oldRoot
  · simp only [hro, ne_eq, not_true_eq_false, if_false, bind, Except.bind, pure, Except.pure] at h
    cases hau : applyUpdate cfg b s with
    | error e => simp [hau] at h
    | ok st =>
      simp only [hau] at h
      by_cases hrn : rootOf b.ver st = b.newRoot
      · simp only [hrn, not_true_eq_false, if_false] at h
        injection h with h
        subst h
        refine ⟨hro, hrn, ?_⟩
        unfold applyUpdate at hau
        simp only [bind, Except.bind, pure, Except.pure, hleg, hpu, if_true] at hau
        cases h0 : applyDeployed b.number s.contracts b.diff.deployed with
        | error e => simp [h0] at hau
        | ok cs0 =>
          cases h1 : applyReplaced cs0 b.diff.replaced with
          | error e => simp [h0, h1] at hau
          | ok cs1 =>
            cases h2 : applyNonces cs1 b.diff.nonces with
            | error e => simp [h0, h1, h2] at hau
            | ok cs2 =>
              cases h3 : touchStorage b.number cs2 b.diff.storage with
              | error e => simp [h0, h1, h2, h3] at hau
              | ok cs3 =>
                simp only [h0, h1, h2, h3] at hau
                injection hau with hau
                refine ⟨cs0, cs1, cs2, cs3, ?_, ?_, ?_, ?_, hau.symm⟩ <;> first | rfl | assumption
      · simp [hrn] at h
  · simp [hro, bind, Except.bind] at h

/-- the value a legacy storage slot had before the block -/
def oldS (s : State) (p : Nat × Nat) : Nat := (Map.get s.storage p).getD 0

theorem legacy_reverseDiff {cfg : Cfg} (hleg : cfg.legacy = true) (hfix : cfg.zeroWriteFix = true)
    {s : State} {b : Block} {casm' : Map Nat CasmMeta} (ok : LegacyOK cfg s casm' b)
    {cs0 cs1 : Map Nat Contract} (hs0 : Sorted cs0) (hs1 : Sorted cs1)
    (hrep : ∀ a c, Map.get b.diff.replaced a = some c → (Map.get cs0 a).isSome = true)
    (hnon : ∀ a c, Map.get b.diff.nonces a = some c → (Map.get cs1 a).isSome = true)
    (s' : State)
    (hS : s'.storage = writeStorage s.storage b.diff.storage)
    (hHS : s'.hStorage = (writeStorageLegacy b.number s.storage s.hStorage true b.diff.storage).2)
    (hHN : s'.hNonce = logOld b.number cs1 (·.nonce) s.hNonce (Map.keys b.diff.nonces))
    (hHC : s'.hClass = logOld b.number cs0 (·.classHash) s.hClass (Map.keys b.diff.replaced)) :
    reverseDiff cfg b.number b.diff s' = .ok
      { Diff.empty with
        storage := b.diff.storage.map (fun e => (e.1, if b.number = 0 then 0 else oldS s e.1)),
        nonces := b.diff.nonces.map (fun e => (e.1, if b.number = 0 then 0 else ((Map.get cs1 e.1).map (·.nonce)).getD 0)),
        replaced := b.diff.replaced.map (fun e => (e.1, if b.number = 0 then 0 else ((Map.get cs0 e.1).map (·.classHash)).getD 0)) } := by
  unfold reverseDiff
  have e1 : b.diff.storage.mapM (revStorage cfg b.number s') =
      .ok (b.diff.storage.map (fun e => (e.1, if b.number = 0 then 0 else oldS s e.1))) := by
    apply mapM_ok
    intro e he
    unfold revStorage
    by_cases hn : b.number = 0
    · simp [hn]; rfl
    · simp only [hn, if_false, hleg, if_true, hfix]
      obtain ⟨_, shs, hget⟩ := writeStorageLegacy_spec b.number true ok.dSto ok.sSt ok.sHS
      have hb : ∀ x ∈ s'.hStorage, x.1.1 = e.1 → x.1.2 ≤ b.number := by
        rw [hHS]
        apply bound_of_above shs
        intro m hm
        rw [hget e.1 m]
        have hmn : ¬ m = b.number := by omega
        cases Map.get b.diff.storage e.1 with
        | some v => simp [hmn, ok.aboveS e.1 m (by omega)]
        | none => simp [ok.aboveS e.1 m (by omega)]
      rw [valueAtOld_eq s'.hStorage e.1 b.number (by omega) hb, hHS, hget e.1 b.number]
      have hge : Map.get b.diff.storage e.1 = some e.2 := get_of_mem ok.dSto he
      rw [hge]
      by_cases hlog : ¬(e.2 = 0 ∧ Map.get s.storage e.1 = none)
      · simp only [true_and, hlog, not_false_eq_true, if_true]
        rfl
      · simp only [true_and, hlog, if_false, ok.aboveS e.1 b.number (Nat.le_refl _)]
        simp only [Classical.not_not] at hlog
        obtain ⟨hv, hnone⟩ := hlog
        have hw := (writeStorage_spec ok.sSt ok.dSto).2 e.1
        rw [hS, hw, hge, hv]
        simp [oldS, hnone]
        rfl
  have e2 : b.diff.nonces.mapM (revField cfg b.number s'.hNonce) =
      .ok (b.diff.nonces.map (fun e => (e.1, if b.number = 0 then 0 else ((Map.get cs1 e.1).map (·.nonce)).getD 0))) := by
    apply mapM_ok
    intro e he
    unfold revField
    by_cases hn : b.number = 0
    · simp [hn]; rfl
    · simp only [hn, if_false, hleg, if_true]
      obtain ⟨shs, hget⟩ := logOld_spec b.number cs1 (·.nonce) (Map.keys b.diff.nonces) ok.sHN
      have hge : Map.get b.diff.nonces e.1 = some e.2 := get_of_mem ok.dNon he
      have hmem : e.1 ∈ Map.keys b.diff.nonces := (mem_keys_iff ok.dNon e.1).2 ⟨e.2, hge⟩
      have hsome := hnon e.1 e.2 hge
      have hb : ∀ x ∈ s'.hNonce, x.1.1 = e.1 → x.1.2 ≤ b.number := by
        rw [hHN]
        apply bound_of_above shs
        intro m hm
        rw [hget e.1 m]
        have hmn : ¬ m = b.number := by omega
        simp [hmn, ok.aboveN e.1 m (by omega)]
      rw [valueAtOld_eq s'.hNonce e.1 b.number (by omega) hb, hHN, hget e.1 b.number]
      simp only [true_and, hmem, hsome, and_self, if_true]
      cases hg : Map.get cs1 e.1 with
      | none => rw [hg] at hsome; cases hsome
      | some ct => rfl
  have e3 : b.diff.replaced.mapM (revField cfg b.number s'.hClass) =
      .ok (b.diff.replaced.map (fun e => (e.1, if b.number = 0 then 0 else ((Map.get cs0 e.1).map (·.classHash)).getD 0))) := by
    apply mapM_ok
    intro e he
    unfold revField
    by_cases hn : b.number = 0
    · simp [hn]; rfl
    · simp only [hn, if_false, hleg, if_true]
      obtain ⟨shs, hget⟩ := logOld_spec b.number cs0 (·.classHash) (Map.keys b.diff.replaced) ok.sHC
      have hge : Map.get b.diff.replaced e.1 = some e.2 := get_of_mem ok.dRep he
      have hmem : e.1 ∈ Map.keys b.diff.replaced := (mem_keys_iff ok.dRep e.1).2 ⟨e.2, hge⟩
      have hsome := hrep e.1 e.2 hge
      have hb : ∀ x ∈ s'.hClass, x.1.1 = e.1 → x.1.2 ≤ b.number := by
        rw [hHC]
        apply bound_of_above shs
        intro m hm
        rw [hget e.1 m]
        have hmn : ¬ m = b.number := by omega
        simp [hmn, ok.aboveC e.1 m (by omega)]
      rw [valueAtOld_eq s'.hClass e.1 b.number (by omega) hb, hHC, hget e.1 b.number]
      simp only [true_and, hmem, hsome, and_self, if_true]
      cases hg : Map.get cs0 e.1 with
      | none => rw [hg] at hsome; cases hsome
      | some ct => rfl
  rw [e1, ok_bind, e2, ok_bind, e3, ok_bind]
  rfl

theorem addrsOf_mapVal (sto : List ((Nat × Nat) × Nat)) (f : (Nat × Nat) × Nat → Nat) :
    addrsOf (sto.map (fun e => (e.1, f e))) = addrsOf sto := by
  unfold addrsOf
  induction sto with
  | nil => rfl
  | cons e d ih => simp [ih]

theorem keys_histKeys_mem (n : Nat) (ks : List (Nat × Nat)) (p : Nat × Nat) (m : Nat) :
    (p, m) ∈ histKeys n ks ↔ m = n ∧ p ∈ ks := by
  unfold histKeys
  simp only [List.mem_map]
  constructor
  · rintro ⟨k, hk, e⟩
    injection e with e1 e2
    subst e1; subst e2
    exact ⟨rfl, hk⟩
  · rintro ⟨rfl, hp⟩
    exact ⟨p, hp, rfl⟩

theorem keys_histKeys1_mem (n : Nat) (ks : List Nat) (a m : Nat) :
    (a, m) ∈ histKeys1 n ks ↔ m = n ∧ a ∈ ks := by
  unfold histKeys1
  simp only [List.mem_map]
  constructor
  · rintro ⟨k, hk, e⟩
    injection e with e1 e2
    subst e1; subst e2
    exact ⟨rfl, hk⟩
  · rintro ⟨rfl, hp⟩
    exact ⟨a, hp, rfl⟩

theorem legacy_contracts_inverse {cfg : Cfg} {s : State} {b : Block} {casm' : Map Nat CasmMeta} (ok : LegacyOK cfg s casm' b)
    {cs0 cs1 cs2 cs3 : Map Nat Contract}
    (h0 : applyDeployed b.number s.contracts b.diff.deployed = .ok cs0)
    (h1 : applyReplaced cs0 b.diff.replaced = .ok cs1)
    (h2 : applyNonces cs1 b.diff.nonces = .ok cs2)
    (h3 : touchStorage b.number cs2 b.diff.storage = .ok cs3) :
    revertContractsLegacy b.number b.diff
      { Diff.empty with
        storage := b.diff.storage.map (fun e => (e.1, if b.number = 0 then 0 else oldS s e.1)),
        nonces := b.diff.nonces.map (fun e => (e.1, if b.number = 0 then 0 else ((Map.get cs1 e.1).map (·.nonce)).getD 0)),
        replaced := b.diff.replaced.map (fun e => (e.1, if b.number = 0 then 0 else ((Map.get cs0 e.1).map (·.classHash)).getD 0)) }
      { contracts := cs3,
        storage := writeStorage s.storage b.diff.storage,
        classes := s.classes, classTrie := s.classTrie,
        hStorage := (writeStorageLegacy b.number s.storage s.hStorage true b.diff.storage).2,
        hNonce := logOld b.number cs1 (·.nonce) s.hNonce (Map.keys b.diff.nonces),
        hClass := logOld b.number cs0 (·.classHash) s.hClass (Map.keys b.diff.replaced) } = .ok s := by
  obtain ⟨sc0, g0, f0⟩ := applyDeployed_spec b.number ok.dDep ok.sC h0
  unfold applyReplaced at h1
  unfold applyNonces at h2
  obtain ⟨sc1, g1, f1⟩ := updAll_spec _ _ _ ok.dRep sc0 h1
  obtain ⟨sc2, g2, f2⟩ := updAll_spec _ _ _ ok.dNon sc1 h2
  obtain ⟨sc3, g3, f3⟩ := touchStorage_spec b.number b.diff.storage sc2 h3
  obtain ⟨_, sHS', gHS⟩ := writeStorageLegacy_spec b.number true ok.dSto ok.sSt ok.sHS
  obtain ⟨sSt', gSt⟩ := writeStorage_spec ok.sSt ok.dSto
  obtain ⟨sHN', gHN⟩ := logOld_spec b.number cs1 (·.nonce) (Map.keys b.diff.nonces) ok.sHN
  obtain ⟨sHC', gHC⟩ := logOld_spec b.number cs0 (·.classHash) (Map.keys b.diff.replaced) ok.sHC
  -- the reverse diff sections
  have sRR := sorted_mapVal ok.dRep (fun e : Nat × Nat => if b.number = 0 then 0 else ((Map.get cs0 e.1).map (·.classHash)).getD 0)
  have sRN := sorted_mapVal ok.dNon (fun e : Nat × Nat => if b.number = 0 then 0 else ((Map.get cs1 e.1).map (·.nonce)).getD 0)
  have sRS := sorted_mapVal ok.dSto (fun e : (Nat × Nat) × Nat => if b.number = 0 then 0 else oldS s e.1)
  -- presence of the keys
  have p1 : ∀ a, (Map.get cs0 a).isSome = true → (Map.get cs1 a).isSome = true := by
    intro a h; rw [g1 a]; cases Map.get b.diff.replaced a <;> simp_all
  have p2 : ∀ a, (Map.get cs1 a).isSome = true → (Map.get cs2 a).isSome = true := by
    intro a h; rw [g2 a]; cases Map.get b.diff.nonces a <;> simp_all
  have p3 : ∀ a, (Map.get cs2 a).isSome = true → (Map.get cs3 a).isSome = true := by
    intro a h
    rw [g3 a]
    cases hg : Map.get cs2 a with
    | none => rw [hg] at h; cases h
    | some ct => simp
  -- step 1: replaced
  obtain ⟨c1, hc1⟩ := updAll_succeeds (fun (_ : Contract) (_ : Nat) => false) (fun ct c => { ct with classHash := c })
    Err.contractMissing sRR (m := cs3) (by
      intro a x hax
      rw [get_mapVal] at hax
      cases hr : Map.get b.diff.replaced a with
      | none => rw [hr] at hax; cases hax
      | some c =>
        obtain ⟨v, hv, _⟩ := f1 a c hr
        have := p3 a (p2 a (p1 a (by rw [hv]; rfl)))
        cases hg : Map.get cs3 a with
        | none => rw [hg] at this; cases this
        | some ct => exact ⟨ct, rfl, rfl⟩)
  obtain ⟨sC1, gC1, _⟩ := updAll_spec _ _ _ sRR sc3 hc1
  obtain ⟨c2, hc2⟩ := updAll_succeeds (fun (_ : Contract) (_ : Nat) => false) (fun ct x => { ct with nonce := x })
    Err.contractMissing sRN (m := c1) (by
      intro a x hax
      rw [get_mapVal] at hax
      cases hr : Map.get b.diff.nonces a with
      | none => rw [hr] at hax; cases hax
      | some c =>
        obtain ⟨v, hv, _⟩ := f2 a c hr
        have h3' := p3 a (p2 a (by rw [hv]; rfl))
        have : (Map.get c1 a).isSome = true := by
          rw [gC1 a]
          cases Map.get (b.diff.replaced.map (fun e => (e.1, if b.number = 0 then 0 else ((Map.get cs0 e.1).map (·.classHash)).getD 0))) a <;>
            (cases hg : Map.get cs3 a <;> simp_all)
        cases hg : Map.get c1 a with
        | none => rw [hg] at this; cases this
        | some ct => exact ⟨ct, rfl, rfl⟩)
  obtain ⟨sC2, gC2, _⟩ := updAll_spec _ _ _ sRN sC1 hc2
  -- lookups of c2 in terms of cs3
  have q12 : ∀ a, (Map.get cs3 a).isSome = true → (Map.get c2 a).isSome = true := by
    intro a h
    rw [gC2 a, gC1 a]
    cases hg : Map.get cs3 a with
    | none => rw [hg] at h; cases h
    | some ct =>
      cases Map.get (b.diff.nonces.map (fun e => (e.1, if b.number = 0 then 0 else ((Map.get cs1 e.1).map (·.nonce)).getD 0))) a <;>
        cases Map.get (b.diff.replaced.map (fun e => (e.1, if b.number = 0 then 0 else ((Map.get cs0 e.1).map (·.classHash)).getD 0))) a <;> rfl
  have haddr : addrsOf (b.diff.storage.map (fun e => (e.1, if b.number = 0 then 0 else oldS s e.1))) = addrsOf b.diff.storage :=
    addrsOf_mapVal _ _
  have hall3 : ∀ a, a ∈ addrsOf b.diff.storage → (Map.get c2 a).isSome = true := by
    intro a ha
    apply q12
    rw [g3 a]
    rcases f3 a ha with h | h
    · cases hg : Map.get cs2 a with
      | none => rw [hg] at h; cases h
      | some ct => simp
    · cases hg : Map.get cs2 a with
      | none => simp [h, ha]
      | some ct => simp
  obtain ⟨c3, hc3⟩ := touchStorage_succeeds b.number
    (b.diff.storage.map (fun e => (e.1, if b.number = 0 then 0 else oldS s e.1))) (cs := c2)
    (fun a ha => Or.inl (hall3 a (haddr ▸ ha)))
  obtain ⟨sC3, gC3, _⟩ := touchStorage_spec b.number _ sC2 hc3
  have gC3' : ∀ a, Map.get c3 a = Map.get c2 a := by
    intro a
    rw [gC3 a, haddr]
    by_cases ha : a ∈ addrsOf b.diff.storage
    · have := hall3 a ha
      cases hg : Map.get c2 a with
      | none => rw [hg] at this; cases this
      | some ct => simp
    · simp [ha]
  -- deployed contracts are present
  have hdepP : ∀ a c, Map.get b.diff.deployed a = some c → (Map.get c3 a).isSome = true := by
    intro a c hac
    rw [gC3' a]
    apply q12
    apply p3; apply p2; apply p1
    rw [g0 a, hac]; rfl
  have hpd := purgeDeployed_spec ok.dDep sC3 hdepP
  have sC4 : Sorted (delAll c3 (Map.keys b.diff.deployed)) := sorted_delAll sC3 _
  -- storage after the reverse writes
  have hstor : (writeStorageLegacy b.number (writeStorage s.storage b.diff.storage) ([] : Map ((Nat × Nat) × Nat) Nat) false
      (b.diff.storage.map (fun e => (e.1, if b.number = 0 then 0 else oldS s e.1)))).1 = s.storage := by
    rw [(writeStorageLegacy_spec b.number false sRS sSt' (h := []) trivial).1]
    obtain ⟨sW, gW⟩ := writeStorage_spec sSt' sRS
    apply ext sW ok.sSt
    intro p
    rw [gW p, get_mapVal, gSt p]
    cases hp : Map.get b.diff.storage p with
    | none => rfl
    | some v =>
      simp only [Option.map_some]
      by_cases hn : b.number = 0
      · have hc := ok.genesis hn
        have : Map.get s.storage p = none := by
          cases hg : Map.get s.storage p with
          | none => rfl
          | some x =>
            have := ok.owned p.1 p.2 x (by simpa using hg)
            rw [hc] at this; cases this
        simp [hn, this]
      · simp only [hn, if_false, oldS]
        cases hg : Map.get s.storage p with
        | none => simp
        | some x => simp [ok.nonzero p x hg]
  -- contracts before the system-contract purge
  have hcs4 : ∀ a, Map.get (delAll c3 (Map.keys b.diff.deployed)) a =
      if (Map.get s.contracts a).isNone && isSys a && decide (a ∈ addrsOf b.diff.storage) then some ⟨0, 0, b.number⟩
      else Map.get s.contracts a := by
    intro a
    rw [get_delAll sC3, gC3' a]
    by_cases hd : a ∈ Map.keys b.diff.deployed
    · obtain ⟨c, hc⟩ := (mem_keys_iff ok.dDep a).1 hd
      simp [hd, f0 a c hc, ok.depNotSys a c hc]
    · have hdn : Map.get b.diff.deployed a = none := by
        cases hx : Map.get b.diff.deployed a with
        | none => rfl
        | some c => exact absurd ((mem_keys_iff ok.dDep a).2 ⟨c, hx⟩) hd
      have e0 : Map.get cs0 a = Map.get s.contracts a := by rw [g0 a, hdn]
      simp only [hd, if_false]
      rw [gC2 a, gC1 a, get_mapVal, get_mapVal, g3 a, g2 a, g1 a, e0]
      cases hs : Map.get s.contracts a with
      | none =>
        -- not replaced, no nonce (those would have failed)
        have hr : Map.get b.diff.replaced a = none := by
          cases hx : Map.get b.diff.replaced a with
          | none => rfl
          | some c =>
            obtain ⟨v, hv, _⟩ := f1 a c hx
            rw [e0, hs] at hv; cases hv
        have hnn : Map.get b.diff.nonces a = none := by
          cases hx : Map.get b.diff.nonces a with
          | none => rfl
          | some c =>
            obtain ⟨v, hv, _⟩ := f2 a c hx
            rw [g1 a, hr, e0, hs] at hv; cases hv
        simp only [hr, hnn, Option.map_none, Option.isNone_none, Bool.true_and]
      | some ct =>
        have hn0 : b.number ≠ 0 := by
          intro hn
          have := ok.genesis hn
          rw [this] at hs; cases hs
        simp only [hn0, if_false, Option.isNone_some, Bool.false_and, Bool.false_eq_true]
        cases hr : Map.get b.diff.replaced a with
        | none =>
          cases hnn : Map.get b.diff.nonces a with
          | none => simp
          | some x => simp [g1 a, hr, e0, hs]
        | some c =>
          cases hnn : Map.get b.diff.nonces a with
          | none => simp [e0, hs]
          | some x => simp [g1 a, hr, e0, hs]
  -- assemble
  unfold revertContractsLegacy
  simp only []
  unfold applyReplaced applyNonces
  rw [hc1, ok_bind, hc2, ok_bind, hc3, ok_bind, hpd, ok_bind]
  obtain ⟨u1, u2, u3, u4, u5, u6, u7, u8⟩ := purgeSysLegacy_spec
    { contracts := delAll c3 (Map.keys b.diff.deployed),
      storage := (writeStorageLegacy b.number (writeStorage s.storage b.diff.storage) ([] : Map ((Nat × Nat) × Nat) Nat) false
        (b.diff.storage.map (fun e => (e.1, if b.number = 0 then 0 else oldS s e.1)))).1,
      classes := s.classes, classTrie := s.classTrie,
      hStorage := delAll (writeStorageLegacy b.number s.storage s.hStorage true b.diff.storage).2 (histKeys b.number (Map.keys b.diff.storage)),
      hNonce := delAll (logOld b.number cs1 (·.nonce) s.hNonce (Map.keys b.diff.nonces)) (histKeys1 b.number (Map.keys b.diff.nonces)),
      hClass := delAll (logOld b.number cs0 (·.classHash) s.hClass (Map.keys b.diff.replaced)) (histKeys1 b.number (Map.keys b.diff.replaced)) } sC4
  dsimp only at u1 u2 u3 u4 u5 u6 u7 u8
  have eqS : ∀ (P Q : State), P.contracts = Q.contracts → P.storage = Q.storage → P.classes = Q.classes →
      P.classTrie = Q.classTrie → P.hStorage = Q.hStorage → P.hNonce = Q.hNonce → P.hClass = Q.hClass → P = Q := by
    intro P Q h1 h2 h3 h4 h5 h6 h7
    cases P; cases Q
    simp only [State.mk.injEq]
    exact ⟨h1, h2, h3, h4, h5, h6, h7⟩
  show Except.ok _ = Except.ok s
  congr 1
  apply eqS
  · -- contracts
    apply ext u7 ok.sC
    intro a
    rw [u8 a, hstor, hcs4 a]
    cases hs : Map.get s.contracts a with
    | some ct =>
      by_cases hsys : isSys a = true
      · have := ok.noEmptySys a hsys (by rw [hs]; rfl)
        simp [this]
      · simp [hsys]
    | none =>
      have hempty : storageEmpty s.storage a = true := by
        rw [storageEmpty_iff]
        intro k
        cases hg : Map.get s.storage (a, k) with
        | none => rfl
        | some v =>
          have := ok.owned a k v hg
          rw [hs] at this; cases this
      by_cases hsys : isSys a = true
      · simp [hsys, hempty]
      · simp [hsys]
  · rw [u1, hstor]
  · rw [u2]
  · rw [u3]
  · -- storage logs
    rw [u4]
    apply ext (sorted_delAll sHS' _) ok.sHS
    intro k
    obtain ⟨p, m⟩ := k
    rw [get_delAll sHS', gHS p m]
    simp only [keys_histKeys_mem]
    by_cases hm : m = b.number
    · subst hm
      by_cases hp : p ∈ Map.keys b.diff.storage
      · simp [hp, ok.aboveS p b.number (Nat.le_refl _)]
      · have : Map.get b.diff.storage p = none := by
          cases hx : Map.get b.diff.storage p with
          | none => rfl
          | some v => exact absurd ((mem_keys_iff ok.dSto p).2 ⟨v, hx⟩) hp
        simp [hp, this]
    · cases Map.get b.diff.storage p <;> simp [hm]
  · rw [u5]
    apply ext (sorted_delAll sHN' _) ok.sHN
    intro k
    obtain ⟨a, m⟩ := k
    rw [get_delAll sHN', gHN a m]
    simp only [keys_histKeys1_mem]
    by_cases hm : m = b.number
    · subst hm
      by_cases hp : a ∈ Map.keys b.diff.nonces
      · simp [hp, ok.aboveN a b.number (Nat.le_refl _)]
      · simp [hp]
    · simp [hm]
  · rw [u6]
    apply ext (sorted_delAll sHC' _) ok.sHC
    intro k
    obtain ⟨a, m⟩ := k
    rw [get_delAll sHC', gHC a m]
    simp only [keys_histKeys1_mem]
    by_cases hm : m = b.number
    · subst hm
      by_cases hp : a ∈ Map.keys b.diff.replaced
      · simp [hp, ok.aboveC a b.number (Nat.le_refl _)]
      · simp [hp]
    · simp [hm]

/-- Legacy backend: `State.Revert` is the exact inverse of `State.Update`. -/
theorem legacy_revert_update {cfg : Cfg} (hleg : cfg.legacy = true) (hfix : cfg.zeroWriteFix = true)
    (hpu : cfg.legacyPurgeOnUpdate = false)
    {s s' : State} {b : Block} {casm' : Map Nat CasmMeta} (ok : LegacyOK cfg s casm' b)
    (h : updateState cfg b s = .ok s') :
    revertState cfg b.number b.ver ⟨b.diff, b.oldRoot, b.newRoot⟩ casm' s' = .ok s := by
  obtain ⟨hro, hrn, cs0, cs1, cs2, cs3, h0, h1, h2, h3, hs'⟩ := legacy_forward hleg hpu h
  have hw := (writeStorageLegacy_spec b.number true ok.dSto ok.sSt ok.sHS).1
  rw [hw] at hs'
  obtain ⟨sc0, g0, f0⟩ := applyDeployed_spec b.number ok.dDep ok.sC h0
  have h1' := h1
  have h2' := h2
  unfold applyReplaced at h1'
  unfold applyNonces at h2'
  obtain ⟨sc1, g1, f1⟩ := updAll_spec _ _ _ ok.dRep sc0 h1'
  obtain ⟨sc2, g2, f2⟩ := updAll_spec _ _ _ ok.dNon sc1 h2'
  have hrep : ∀ a c, Map.get b.diff.replaced a = some c → (Map.get cs0 a).isSome = true := by
    intro a c hac
    obtain ⟨v, hv, _⟩ := f1 a c hac
    rw [hv]; rfl
  have hnon : ∀ a c, Map.get b.diff.nonces a = some c → (Map.get cs1 a).isSome = true := by
    intro a c hac
    obtain ⟨v, hv, _⟩ := f2 a c hac
    rw [hv]; rfl
  have hrd := legacy_reverseDiff hleg hfix ok sc0 sc1 hrep hnon s' (by rw [hs']) (by rw [hs']) (by rw [hs']) (by rw [hs'])
  have hcl := revertClasses_inverse ok.toClassesOK s' (by rw [hs']) (by rw [hs'])
  have hct := legacy_contracts_inverse ok h0 h1 h2 h3
  unfold revertState
  simp only [hrn, ne_eq, not_true_eq_false, if_false]
  show (do
    let rd ← reverseDiff cfg b.number b.diff s'
    let s2 ← revertClasses cfg b.number b.diff casm' s'
    let s3 ← (if cfg.legacy then revertContractsLegacy b.number b.diff rd s2 else revertContractsNew b.number b.diff rd s2)
    if rootOf b.ver s3 ≠ b.oldRoot then throw Err.revRootOld
    return s3) = Except.ok s
  rw [hrd, ok_bind, hcl, ok_bind]
  simp only [hleg, if_true]
  rw [hs']
  show (revertContractsLegacy b.number b.diff _ _ >>= _) = _
  rw [hct, ok_bind]
  simp [hro]
  rfl
end Juno.C04
